package main

// Two requests at a time (state carried across requests).  A bounded exploration over interleavings at the
// granularity of the seams a request can be parked at: every call into the database (the scripted driver's Query)
// and every Process call of a planner that has a plugin hook (the hook returns the stock planner behind a gate).
// For every pair (request B = an endpoint shape on an OLDER window, request A = the same shape — same query text —
// or a different one, on the cell's window) and every k: B runs until its k-th seam, is parked there, A runs from
// start to end, B resumes.  Plus the two sequential orders.  Every statement of both requests is judged with the
// per-statement oracles against the window of ITS OWN request, and both responses with the semantic oracle.

import (
	"fmt"
	"sync"
	"time"

	"github.com/metrico/qryn/reader/logql/logql_transpiler_v2/clickhouse_planner"
	"github.com/metrico/qryn/reader/logql/logql_transpiler_v2/shared"
	"github.com/metrico/qryn/reader/plugins"
	prom_transpiler "github.com/metrico/qryn/reader/promql/transpiler"
	"github.com/metrico/qryn/reader/traceql/transpiler/clickhouse_transpiler"
	sql "github.com/metrico/qryn/reader/utils/sql_select"

	"verif/mc/ev"
)

// gate parks the request stream named `who` at its k-th seam.
type gate struct {
	mu      sync.Mutex
	who     string
	k, n    int
	sites   []string
	reached chan struct{}
	release chan struct{}
	armed   bool
}

var theGate = &gate{}

// owner maps every session name to the name of the Exec's first session (one request stream per Exec).
var owner sync.Map

func (g *gate) arm(who string, k int) {
	g.mu.Lock()
	g.who, g.k, g.n, g.sites, g.armed = who, k, 0, nil, true
	g.reached, g.release = make(chan struct{}), make(chan struct{})
	g.mu.Unlock()
}

func (g *gate) disarm() (hits int, sites []string) {
	g.mu.Lock()
	defer g.mu.Unlock()
	g.armed = false
	return g.n, g.sites
}

func (g *gate) hit(name, site string) {
	if o, ok := owner.Load(name); ok {
		name = o.(string)
	}
	g.mu.Lock()
	if !g.armed || name != g.who {
		g.mu.Unlock()
		return
	}
	g.n++
	g.sites = append(g.sites, site)
	park := g.n == g.k
	reached, release := g.reached, g.release
	g.mu.Unlock()
	if park {
		close(reached)
		<-release
	}
}

type gated struct {
	inner shared.SQLRequestPlanner
	site  string
}

func (p *gated) Process(ctx *shared.PlannerContext) (sql.ISelect, error) {
	name := ""
	if ctx.CHDb != nil {
		name = ctx.CHDb.GetName()
	}
	theGate.hit(name, "planner:"+p.site)
	return p.inner.Process(ctx)
}

var hooksOnce sync.Once

// registerGatedPlanners puts the stock planner behind the gate at every planner plugin hook whose stock planner can
// be constructed from outside (InitIndexPlanner cannot: its `dist` field is unexported and the hook does not pass it).
func registerGatedPlanners() {
	hooksOnce.Do(func() {
		plugins.RegisterSqlMainInitPlannerPlugin(func() shared.SQLRequestPlanner {
			return &gated{&clickhouse_planner.SqlMainInitPlanner{}, "SqlMainInitPlanner"}
		})
		plugins.RegisterTimeSeriesInitPlannerPlugin(func() shared.SQLRequestPlanner {
			return &gated{&clickhouse_planner.TimeSeriesInitPlanner{}, "TimeSeriesInitPlanner"}
		})
		plugins.RegisterStreamSelectPlannerPlugin(func(n, o, v []string) shared.SQLRequestPlanner {
			return &gated{&clickhouse_planner.StreamSelectPlanner{LabelNames: n, Ops: o, Values: v}, "StreamSelectPlanner"}
		})
		plugins.RegisterValuesPlannerPlugin(func(m shared.SQLRequestPlanner, key string) shared.SQLRequestPlanner {
			return &gated{&clickhouse_planner.ValuesPlanner{FingerprintsPlanner: m, Key: key}, "ValuesPlanner"}
		})
		plugins.RegisterSeriesPlannerPlugin(func(m shared.SQLRequestPlanner) shared.SQLRequestPlanner {
			return &gated{&clickhouse_planner.SeriesPlanner{FingerprintsPlanner: m}, "SeriesPlanner"}
		})
		plugins.RegisterMetrics15ShortcutPlannerPlugin(func(fn string, d time.Duration) shared.SQLRequestPlanner {
			return &gated{&clickhouse_planner.Metrics15ShortcutPlanner{Function: fn, Duration: d}, "Metrics15ShortcutPlanner"}
		})
		plugins.RegisterInitClickhousePlannerPlugin(func() shared.SQLRequestPlanner {
			return &gated{&prom_transpiler.InitClickhousePlanner{}, "InitClickhousePlanner"}
		})
		plugins.RegisterInitDownsamplePlannerPlugin(func() shared.SQLRequestPlanner {
			return &gated{&prom_transpiler.InitDownsamplePlanner{}, "InitDownsamplePlanner"}
		})
		plugins.RegisterAttrlessConditionPlannerPlugin(func() shared.SQLRequestPlanner {
			return &gated{&clickhouse_transpiler.AttrlessConditionPlanner{}, "AttrlessConditionPlanner"}
		})
		plugins.RegisterTracesDataPlugin(func(m shared.SQLRequestPlanner) shared.SQLRequestPlanner {
			return &gated{&clickhouse_transpiler.TracesDataPlanner{Main: m}, "TracesDataPlanner"}
		})
	})
}

func newPairExec() *Exec {
	x := newExec()
	owner.Store(x.single.Name, x.single.Name)
	owner.Store(x.cluster.Name, x.single.Name)
	return x
}

type pairReq struct {
	x   *Exec
	ep  *Endpoint
	win Win
}

func (q pairReq) run(cell *Cell, cluster bool) *Obs {
	q.x.begin(cell)
	resp := q.ep.Run(q.x, cluster, q.win)
	stmts := q.x.taken()
	pc := *cell
	pc.Win = q.win
	e := *q.ep
	e.Group = q.ep.Group + "_with_second_request"
	return judge(&pc, &e, cluster, resp, stmts, nil)
}

// pairPass runs in the parent process (reader zone = the parent's; the zones are explored by the worker pools).
func pairPass(r *ev.Run, p *plan, counters map[string]int64, mu *sync.Mutex) {
	registerGatedPlanners()
	xa, xb := newPairExec(), newPairExec()
	winNames := map[string]bool{"AD": true, "EF": true, "N3N5": true, "lbN5": true}
	if r.Thorough() {
		winNames = map[string]bool{"AD": true, "EF": true, "N3N5": true, "lbN5": true, "AH": true, "BC": true, "GH": true, "lbC": true, "N1N4": true}
	}
	var eps []*Endpoint
	for _, e := range p.Eps {
		if e.Run != nil && e.Limit == 0 && e.Group != "tempo_tags_v1" && e.Group != "tempo_tag_values_v1" { // D133: no window at all, nothing to interleave
			eps = append(eps, e)
		}
	}
	report := func(o *Obs, who string, k int, site string, rq pairReq, other pairReq, cluster bool) {
		mu.Lock()
		defer mu.Unlock()
		r.AddEval(1)
		r.TracesValidated++
		r.Transitions += int64(len(o.Statements))
		counters["pair_requests"]++
		counters["pair_statements"] += int64(len(o.Statements))
		if len(o.Unsupp) > 0 {
			counters["unsupported_by_chsim"]++
			return
		}
		for _, f := range o.Findings {
			r.Outcome("deviation:" + f.Class)
			r.Violate(f.Class, fmt.Sprintf("[request %s; the other request: %s on window %s; %s] %s", who, other.ep.Name, other.win, site, f.What),
				map[string]any{"pair_pass": true, "endpoint": rq.ep.Name, "window": rq.win, "other_endpoint": other.ep.Name, "other_window": other.win,
					"parked_at_seam": k, "seam": site, "cluster": cluster, "note": "re-run the check: the pair pass is deterministic"})
		}
	}
	for _, w := range p.Wins {
		if !winNames[w.Name] {
			continue
		}
		cell, err := buildCell(w, "UTC", classesOf(w), fromWriter(p.Dates[0].Series), fromWriter(p.Dates[0].Tags))
		if err != nil {
			ev.Fatal("pair pass: %v", err)
		}
		for ei, ep := range eps {
			if !p.applicable(ep, w) {
				continue
			}
			for _, shift := range []int64{-day, -month, 0} {
				// request A: same shape (same text) on the cell's window; every 7th shape also against a different text
				others := []*Endpoint{ep}
				if alt := eps[(ei+1)%len(eps)]; ei%7 == 0 && p.applicable(alt, w) {
					others = append(others, alt)
				}
				for _, oep := range others {
					for _, cluster := range []bool{false, true} {
						if r.Expired() {
							return
						}
						b := pairReq{xb, ep, shiftWin(w, shift, fmt.Sprintf("%+dd", shift/day))}
						a := pairReq{xa, oep, w}
						// sequential, both orders
						theGate.disarm()
						report(b.run(cell, cluster), "B (first of two, sequential)", 0, "sequential", b, a, cluster)
						report(a.run(cell, cluster), "A (second of two, sequential)", 0, "sequential", a, b, cluster)
						report(b.run(cell, cluster), "B (after A, sequential)", 0, "sequential", b, a, cluster)
						// interleaved: B parked at its k-th seam, A runs completely, B resumes
						for k := 1; k <= 64; k++ {
							theGate.arm(xb.single.Name, k)
							done := make(chan *Obs, 1)
							go func() { done <- b.run(cell, cluster) }()
							var ob, oa *Obs
							select {
							case ob = <-done: // B has fewer than k seams: enumeration of k complete
							case <-theGate.reached:
								oa = a.run(cell, cluster)
								close(theGate.release)
								select {
								case ob = <-done:
								case <-time.After(30 * time.Second):
									ev.Fatal("pair pass: parked request does not finish (%s)", ep.Name)
								}
							case <-time.After(30 * time.Second):
								ev.Fatal("pair pass: request neither finishes nor reaches seam %d (%s)", k, ep.Name)
							}
							n, sites := theGate.disarm()
							if oa == nil {
								mu.Lock()
								counters["pair_scenarios"]++
								counters["pair_seams_total"] += int64(n)
								mu.Unlock()
								break
							}
							site := fmt.Sprintf("B parked at its seam #%d (%s)", k, sites[k-1])
							mu.Lock()
							counters["pair_interleavings"]++
							mu.Unlock()
							report(ob, "B (parked, older window)", k, site, b, a, cluster)
							report(oa, "A (ran while B was parked)", k, site, a, b, cluster)
						}
					}
				}
			}
		}
	}
}
