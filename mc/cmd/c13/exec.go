package main

import (
	"bytes"
	"context"
	"database/sql/driver"
	"errors"
	"fmt"
	"io"
	"net/http"
	"net/http/httptest"
	"regexp"
	"sort"
	"strconv"
	"strings"
	"sync"
	"time"

	"github.com/metrico/qryn/reader/model"

	"verif/mc/chsim"
	"verif/mc/fakesql"
	"verif/mc/fakesql/chbackend"
)

// ---- statement capture -----------------------------------------------------------------------------------------

// StmtRec is one statement the code under test sent, with what the reference interpreter did with it.
type StmtRec struct {
	SQL   string
	Err   string
	Class string // "" ok | "unsupported" | "syntax" | "eval"
	Scans []chsim.Scan
	Rows  int
}

// Exec is the reader side under test: the real router (all read routes of reader/main.go) over a scripted
// database/sql driver whose statements are executed by chsim on the current cell.
type Exec struct {
	single, cluster *readerSide
	mu              sync.Mutex
	cell            *Cell
	stmts           []StmtRec
	bookkeeping     int64 // version / SHOW TABLES statements (not part of any endpoint's reads)
}

var bookkeepingRe = regexp.MustCompile(`^\s*(SHOW TABLES|SELECT argMax\(name, inserted_at\))`)

func newExec() *Exec {
	x := &Exec{}
	h := x.handler()
	x.single = newReaderSide(h, "")
	x.cluster = newReaderSide(h, "c13cluster")
	return x
}

func (x *Exec) handler() fakesql.Handler {
	return func(ctx context.Context, q string, _ []driver.NamedValue) (*fakesql.Result, error) {
		x.mu.Lock()
		cell := x.cell
		x.mu.Unlock()
		if cell == nil {
			return nil, fmt.Errorf("c13: no database selected")
		}
		if strings.HasPrefix(strings.ToUpper(strings.TrimSpace(q)), "SHOW TABLES") {
			x.mu.Lock()
			x.bookkeeping++
			x.mu.Unlock()
			res := fakesql.NewResult("name")
			names := cell.DB.TableNames()
			sort.Strings(names)
			for _, n := range names {
				res.Add(n)
			}
			return res, nil
		}
		if !bookkeepingRe.MatchString(q) {
			theGate.hit(x.single.Name, "db:statement") // both names of one Exec belong to one request stream
		}
		r, err := cell.DB.Query(q)
		if bookkeepingRe.MatchString(q) {
			x.mu.Lock()
			x.bookkeeping++
			x.mu.Unlock()
		} else {
			rec := StmtRec{SQL: q}
			if err != nil {
				rec.Err = err.Error()
				var se *chsim.SyntaxError
				var ee *chsim.EvalError
				switch {
				case errors.Is(err, chsim.ErrUnsupported):
					rec.Class = "unsupported"
				case errors.As(err, &se):
					rec.Class = "syntax"
				case errors.As(err, &ee):
					rec.Class = "eval"
				default:
					rec.Class = "eval"
				}
			} else {
				rec.Scans = r.Scans
				rec.Rows = len(r.Rows)
			}
			x.mu.Lock()
			x.stmts = append(x.stmts, rec)
			x.mu.Unlock()
		}
		if err != nil {
			return nil, fmt.Errorf("clickhouse [chsim]: %w", err)
		}
		res := fakesql.NewResult(r.Cols...)
		for _, row := range r.Rows {
			vals := make([]driver.Value, len(row))
			for i, v := range row {
				var t *chsim.Type
				if i < len(r.Types) {
					t = r.Types[i]
				}
				vals[i] = chbackend.ToGo(v, t)
			}
			res.Rows = append(res.Rows, vals)
		}
		return res, nil
	}
}

func (x *Exec) harness(cluster bool) *readerSide {
	if cluster {
		return x.cluster
	}
	return x.single
}

func (x *Exec) begin(c *Cell) {
	x.mu.Lock()
	x.cell = c
	x.stmts = nil
	x.mu.Unlock()
}

func (x *Exec) taken() []StmtRec {
	x.mu.Lock()
	defer x.mu.Unlock()
	out := x.stmts
	x.stmts = nil
	return out
}

// Resp is what one endpoint invocation produced: the text in which markers are looked for.
type Resp struct {
	Status int
	Text   string
	Err    string
}

// Part is one reading step of a request that reads several windows (one Select of several on one Querier): its own
// window, its own statements, its own result.
type Part struct {
	Win   Win
	Resp  Resp
	Stmts []StmtRec
}

func (x *Exec) http(cluster bool, method, url, ctype string, body []byte) Resp {
	var rd io.Reader
	if body != nil {
		rd = bytes.NewReader(body)
	}
	req, err := http.NewRequestWithContext(context.Background(), method, "http://qryn.test"+url, rd)
	if err != nil {
		return Resp{Status: -1, Err: err.Error()}
	}
	if ctype != "" {
		req.Header.Set("Content-Type", ctype)
	}
	rec := httptest.NewRecorder()
	var pan any
	func() {
		defer func() { pan = recover() }()
		x.harness(cluster).Router.ServeHTTP(rec, req)
	}()
	if pan != nil {
		return Resp{Status: -2, Err: fmt.Sprint("panic: ", pan)}
	}
	return Resp{Status: rec.Code, Text: rec.Body.String()}
}

func (x *Exec) registry(cluster bool) model.IDBRegistry { return x.harness(cluster).Registry }

// ---- oracle ----------------------------------------------------------------------------------------------------

// Finding is one deviation of one item (or one scan) from the oracle, already explained as far as possible.
type Finding struct {
	Class string `json:"class"`
	What  string `json:"what"`
}

// Obs is the outcome of one endpoint invocation on one cell.
type Obs struct {
	Endpoint   string
	Returned   []string // markers found in the response
	Statements []StmtRec
	Resp       Resp
	Findings   []Finding
	MustN      int
	Unsupp     []string
}

func itemsOf(c *Cell, which string) []Item {
	switch which {
	case "samples":
		return c.Samples
	case "traces":
		return c.Traces
	case "shared":
		return c.Shared
	case "profs":
		return c.Profs
	}
	panic("items " + which)
}

func famOf(which string) byte {
	return map[string]byte{"samples": 'q', "traces": 't', "shared": 's', "profs": 'p'}[which]
}

// itemMust / itemAllowed: an item with a second, older sample (Extra) is owed / allowed through either sample.
func itemMust(ep *Endpoint, w Win, it *Item) bool {
	return ep.Must(w, it.Ts) || (it.Extra != 0 && ep.Must(w, it.Extra))
}

func itemAllowed(ep *Endpoint, w Win, it *Item) bool {
	return ep.Allowed(w, it.Ts) || (it.Extra != 0 && ep.Allowed(w, it.Extra))
}

func typeOK(ep *Endpoint, it *Item) bool {
	if ep.Signal < 0 || it.Type < 0 {
		return true
	}
	return it.Type == ep.Signal || it.Type == typeBoth
}

var dateBoundRe = regexp.MustCompile(`\(?\bdate\)?\s*(>=|<=|>|<)\s*\(?(?:toDate\()?'(\d{4}-\d{2}-\d{2})'`)

// dateBounds extracts the date bounds a statement puts on index tables: the tightest lower and upper literal.
func dateBounds(sql string) (lo int64, hasLo bool, hi int64, hasHi bool) {
	for _, m := range dateBoundRe.FindAllStringSubmatch(sql, -1) {
		t, err := time.Parse("2006-01-02", m[2])
		if err != nil {
			continue
		}
		d := floorDiv(t.Unix(), 86400)
		switch m[1] { // strict comparisons: the effective bound is one day further in
		case ">":
			d++
		case "<":
			d--
		}
		if m[1][0] == '>' {
			if !hasLo || d > lo {
				lo, hasLo = d, true
			}
		} else {
			if !hasHi || d < hi {
				hi, hasHi = d, true
			}
		}
	}
	return
}

func dayStr(d int64) string { return time.Unix(d*86400, 0).UTC().Format("2006-01-02") }

// storedDay is the date the item's index rows carry in this cell for the given index table.
func (c *Cell) storedDay(table string, row int) (int64, bool) {
	t := c.DB.Table(baseName(table))
	if t == nil {
		return 0, false
	}
	dc := colIndex(t, "date")
	if dc < 0 || row >= len(t.Rows) {
		return 0, false
	}
	d, ok := t.Rows[row][dc].(chsim.Date)
	return int64(d), ok
}

// judge applies the semantic oracle O (on the markers of the response) and the structural oracle O' (on the scan
// log) to one invocation and explains every deviation.
func judge(c *Cell, ep *Endpoint, cluster bool, resp Resp, stmts []StmtRec, rerun func(Win) []StmtRec) *Obs {
	o := &Obs{Endpoint: ep.Name, Statements: stmts, Resp: resp}
	w := c.Win
	grp := ep.Group
	if cluster {
		// same planner code serves both layouts; a deviation that exists only in one layout still names the layout
		grp = ep.Group
	}
	fam := famOf(ep.Items)
	got := map[string]bool{}
	for _, m := range markerRe.FindAllString(resp.Text, -1) {
		if m[1] == fam {
			got[m] = true
		}
	}
	for m := range got {
		o.Returned = append(o.Returned, m)
	}
	sort.Strings(o.Returned)
	for _, s := range stmts {
		if s.Class == "unsupported" {
			o.Unsupp = append(o.Unsupp, s.Err+" <= "+s.SQL)
		}
	}
	if len(o.Unsupp) > 0 {
		return o // never a verdict
	}
	layout := "single"
	if cluster {
		layout = "cluster"
	}
	add := func(expl, what string) {
		if !strings.Contains(expl, "@") && !strings.HasPrefix(expl, "writer_") {
			expl += "@" + grp
		}
		o.Findings = append(o.Findings, Finding{Class: expl, What: fmt.Sprintf("%s [%s layout, window %s, index rows dated by %s] %s", ep.Name, layout, w, c.Dating, what)})
	}
	sqlErr := ""
	for _, s := range stmts {
		if s.Err != "" && sqlErr == "" {
			sqlErr = s.Class + ": " + s.Err + " <= " + s.SQL
		}
	}
	items := itemsOf(c, ep.Items)
	leaked := map[int]bool{}
	var owed []*Item
	for k := range items {
		if typeOK(ep, &items[k]) && itemMust(ep, w, &items[k]) {
			owed = append(owed, &items[k])
		}
	}
	missing := func(i *Item) bool { return !got[i.Marker] }
	for k := range items {
		it := &items[k]
		tok := typeOK(ep, it)
		must := tok && itemMust(ep, w, it)
		allowed := tok && itemAllowed(ep, w, it)
		if must {
			o.MustN++
		}
		switch {
		case got[it.Marker] && !allowed:
			leaked[it.Idx] = true
			expl := explainLeak(ep, w, it)
			if noBounds(stmts) && !strings.HasPrefix(expl, "other_signal") {
				expl = "no_time_restriction_at_all"
			}
			add(expl, fmt.Sprintf("returns %s (class %s, %s, type %s): outside the window or of the other signal", it.Marker, it.Class, tsStr(it.Ts), typeName(it.Type)))
		case !got[it.Marker] && must:
			expl, detail := explainMiss(c, ep, it, stmts, resp, sqlErr, rerun, owed, missing)
			add(expl, fmt.Sprintf("does not return %s (class %s, %s, type %s) although it lies inside the window: %s", it.Marker, it.Class, tsStr(it.Ts), typeName(it.Type), detail))
		}
	}
	// limit=N requests: the N slots have to go to data of the window
	if ep.Limit > 0 && len(o.Findings) == 0 {
		var inWin []*Item
		for k := range items {
			if typeOK(ep, &items[k]) && open(w, items[k].Ts) {
				inWin = append(inWin, &items[k])
			}
		}
		want := ep.Limit
		if len(inWin) < want {
			want = len(inWin)
		}
		have := 0
		for k := range items {
			if got[items[k].Marker] && typeOK(ep, &items[k]) && itemAllowed(ep, w, &items[k]) {
				have++
			}
		}
		if have < want {
			expl := ""
			what := fmt.Sprintf("limit=%d: %d data of the window come back although %d exist strictly inside it", ep.Limit, have, len(inWin))
		scan:
			for si, s := range stmts {
				for _, sc := range s.Scans {
					if tableKind[baseName(sc.Table)] != "data" {
						continue
					}
					for _, r := range sc.Rows {
						if it := c.ItemOfRow(sc.Table, r); it != nil && it.Marker[1] == fam && it.Ts == w.E && !got[it.Marker] {
							expl = "limit_slot_taken_by_datum_at_window_end_then_filtered"
							what += fmt.Sprintf("; statement #%d admits %s (exactly at the end) in a LIMITed subquery and drops it later: %s", si+1, it.Marker, short(s.SQL))
							break scan
						}
					}
				}
			}
			// fewer results for any other reason (index date bounds, truncated window) are reported by the unlimited
			// shapes of the same endpoint
			if expl != "" {
				add(expl, what)
			}
		}
	}
	// O' for index tables, statement by statement (a request may send several reading statements with DIFFERENT
	// windows: PromQL selectors with offsets, several Selects on one Querier, tail re-polls): the date range a
	// statement puts on an index table has to cover the timestamp window the same statement — or, for a label fetch
	// by fingerprint list, the data statement right before it — reads.
	for si, s := range stmts {
		lo, hasLo, hi, hasHi := dateBounds(s.SQL)
		if !hasLo && !hasHi {
			continue
		}
		tw, ok := tsWindow(s.SQL)
		kind := "index_date_range_does_not_cover_the_data_window_of_its_statement"
		if !ok && si > 0 && labelFetchRe.MatchString(s.SQL) {
			tw, ok = tsWindow(stmts[si-1].SQL)
			kind = "label_fetch_date_range_does_not_cover_the_window_of_its_select"
		}
		if !ok {
			continue
		}
		if (hasLo && lo > utcDay(tw[0])) || (hasHi && hi < utcDay(tw[1])) {
			bl, bh := "-inf", "+inf"
			if hasLo {
				bl = dayStr(lo)
			}
			if hasHi {
				bh = dayStr(hi)
			}
			add(kind, fmt.Sprintf("statement #%d bounds its index table to dates %s..%s while the data it belongs to is read for %s..%s: %s",
				si+1, bl, bh, tsStr(tw[0]), tsStr(tw[1]), short(s.SQL)))
		}
	}
	// O': data-table scans admit only rows the endpoint may read
	for si, s := range stmts {
		for _, sc := range s.Scans {
			if tableKind[baseName(sc.Table)] != "data" {
				continue
			}
			for _, r := range sc.Rows {
				it := c.ItemOfRow(sc.Table, r)
				if it == nil || it.Marker[1] != fam {
					continue
				}
				rts := c.RowTs(sc.Table, r, it)
				if typeOK(ep, it) && ep.Allowed(w, rts) {
					continue
				}
				if leaked[it.Idx] {
					continue // already reported through the response
				}
				rowIt := *it
				rowIt.Ts = rts
				if rts != it.Ts {
					rowIt.Class = "older_sample_of_" + it.Class
				}
				add("scan_"+baseName(sc.Table)+"_admits:"+explainLeak(ep, w, &rowIt),
					fmt.Sprintf("statement #%d admits row of %s (class %s, %s, type %s) from %s: %s", si+1, it.Marker, rowIt.Class, tsStr(rts), typeName(it.Type), sc.Table, short(s.SQL)))
			}
		}
	}
	return o
}

var tsBoundRe = regexp.MustCompile(`timestamp_ns\)\s*(>=|<=|>|<)\s*\((\d+)\)`)
var labelFetchRe = regexp.MustCompile(`FROM\s+\S*time_series\S*\s+WHERE\s+\(fingerprint IN \(\d`)

// tsWindow extracts the (narrowest) closed timestamp window [first, last] a statement puts on its data table.
func tsWindow(sql string) ([2]int64, bool) {
	var lo, hi int64
	var hasLo, hasHi bool
	for _, m := range tsBoundRe.FindAllStringSubmatch(sql, -1) {
		v, err := strconv.ParseInt(m[2], 10, 64)
		if err != nil {
			continue
		}
		switch m[1] {
		case ">":
			v++
		case "<":
			v--
		}
		if m[1][0] == '>' {
			if !hasLo || v > lo {
				lo, hasLo = v, true
			}
		} else if !hasHi || v < hi {
			hi, hasHi = v, true
		}
	}
	if !hasLo || !hasHi || hi < lo {
		return [2]int64{}, false
	}
	return [2]int64{lo, hi}, true
}

var anyTsBoundRe = regexp.MustCompile(`timestamp_ns\)?\s*(>=|<=|>|<)|start_time_unix_nano\)?\s*(>=|<=|>|<)`)

// noBounds: no statement of the request carries a date or timestamp bound.
func noBounds(stmts []StmtRec) bool {
	for _, s := range stmts {
		if _, a, _, b := dateBounds(s.SQL); a || b {
			return false
		}
		if anyTsBoundRe.MatchString(s.SQL) {
			return false
		}
	}
	return len(stmts) > 0
}

func tsStr(ts int64) string { return time.Unix(0, ts).UTC().Format("2006-01-02T15:04:05.999999999Z") }

func typeName(t int) string {
	switch t {
	case typeLog:
		return "log"
	case typeMetric:
		return "metric"
	case typeBoth:
		return "both/undefined"
	}
	return "n/a"
}

func short(s string) string {
	if len(s) > 700 {
		return s[:700] + "…"
	}
	return s
}

// explainLeak names why an item that must not be returned was returned (or admitted by a data scan).
func explainLeak(ep *Endpoint, w Win, it *Item) string {
	if !typeOK(ep, it) {
		if ep.Allowed(w, it.Ts) {
			return "other_signal_type_" + typeLetters[it.Type]
		}
		return "other_signal_type_" + typeLetters[it.Type] + "_outside_window"
	}
	// the window as a route that truncates to whole seconds (after a float64 parse of the nanoseconds) reads it
	if we := secondsWindow(ep, w); (we.S != w.S || we.E != w.E) && ep.Allowed(we, it.Ts) {
		switch {
		case it.Ts < w.S:
			return "start_truncated_to_whole_seconds"
		case we.E > w.E:
			return "end_moved_up_by_float64_parse_of_ns"
		}
	}
	switch {
	case it.Ts == w.E:
		return "end_inclusive"
	case it.Ts < w.S:
		return "before_window_" + it.Class
	}
	return "after_window_" + it.Class
}

// secondsWindow is the deviant reading of a window by a route that parses nanoseconds as float64 (FloatNs) and then
// keeps whole seconds only (sub-second units).  It names deviations; the oracle never uses it.
func secondsWindow(ep *Endpoint, w Win) Win {
	if ep.Unit >= 1e9 {
		return w
	}
	f := func(x int64) int64 {
		if ep.FloatNs {
			x = int64(float64(x))
		}
		return floorTo(x, 1e9)
	}
	return Win{Name: w.Name, S: f(w.S), E: f(w.E)}
}

// explainMiss finds where a must-item was dropped — the first statement in which a scan offered rows of the item
// and admitted none; inside one statement index-table scans are looked at before data-table scans, because a data
// scan restricted by `fingerprint IN (index subquery)` drops whatever the index dropped — and names the reason.
// rerun executes the same request shape with another window on the same database (used to tell two date rules
// apart when both explain one literal).
func explainMiss(c *Cell, ep *Endpoint, it *Item, stmts []StmtRec, resp Resp, sqlErr string, rerun func(Win) []StmtRec, owed []*Item, missing func(*Item) bool) (string, string) {
	w := c.Win
	far := func(tw [2]int64, ts int64) bool { return ts < tw[0]-3600e9 || ts > tw[1]+3600e9 }
	for si, s := range stmts {
		// a request may read several windows (PromQL selectors with offsets): a statement whose own timestamp window
		// (for a label fetch: that of the data statement before it) is hours away from the datum never owed it
		tw, ok := tsWindow(s.SQL)
		if !ok && si > 0 && labelFetchRe.MatchString(s.SQL) {
			tw, ok = tsWindow(stmts[si-1].SQL)
		}
		if ok && far(tw, it.Ts) && (it.Extra == 0 || far(tw, it.Extra)) {
			continue
		}
		for _, pass := range []string{"index", "data"} {
			for _, sc := range s.Scans {
				base := baseName(sc.Table)
				if tableKind[base] != pass {
					continue
				}
				rows := c.rowItem[base]
				own := -1
				for r, ri := range rows {
					if ri == it {
						own = r
						break
					}
				}
				if own < 0 {
					continue
				}
				adm := false
				for _, r := range sc.Rows {
					if r < len(rows) && rows[r] == it {
						adm = true
						break
					}
				}
				if adm {
					continue
				}
				where := fmt.Sprintf("dropped by the scan of %s in statement #%d: %s", sc.Table, si+1, short(s.SQL))
				if pass == "data" {
					return "data_bound:" + explainDataDrop(ep, w, it, owed, missing) + ":" + base, where
				}
				// index table: compare the stored date with the date bounds of the statement
				sd, ok := c.storedDay(base, own)
				lo, hasLo, hi, hasHi := dateBounds(s.SQL)
				if !ok || (!hasLo && !hasHi) {
					return "index_drop_unexplained:" + base, where
				}
				bl, bh := "-inf", "+inf"
				if hasLo {
					bl = dayStr(lo)
				}
				if hasHi {
					bh = dayStr(hi)
				}
				where += fmt.Sprintf(" — index row dated %s, statement's date bounds %s..%s", dayStr(sd), bl, bh)
				loc := time.Local
				if hasHi && sd > hi {
					// the day the upper bound has to reach: the day of the last instant the endpoint owes
					needHi := utcDay(w.E - 1)
					if ep.Must(w, w.E) {
						needHi = utcDay(w.E)
					}
					m30, lz, m1 := hi == utcDay(w.E-1800e9), hi == localDay(w.E, loc), false
					if hi < needHi && m30 && lz && rerun != nil {
						// both deviant rules give this literal: ask again with an end 4 h later, where they differ
						w2 := Win{Name: w.Name + "+4h", S: w.S, E: w.E + 4*3600e9}
						if st2 := rerun(w2); si < len(st2) {
							if _, _, hi2, ok2 := dateBounds(st2[si].SQL); ok2 {
								m30, lz = hi2 == utcDay(w2.E-1800e9), hi2 == localDay(w2.E, loc)
							}
						}
					}
					if hi < needHi && m30 && !lz && rerun != nil && w.E-floorTo(w.E, day) < 600e9 {
						// "end - 30 min" and "just before the (truncated) end" give the same day this close to midnight:
						// ask again with an end 10 min later, where only the former still says yesterday
						w2 := Win{Name: w.Name + "+10m", S: w.S, E: w.E + 600e9}
						if st2 := rerun(w2); si < len(st2) {
							if _, _, hi2, ok2 := dateBounds(st2[si].SQL); ok2 && hi2 == utcDay(w2.E) {
								m30, m1 = false, true
							}
						}
					}
					switch {
					case hi >= needHi:
						return "writer_dates_index_row_after_utc_day:" + base, where
					case m1:
						return "upper_date_bound_excludes_day_of_window_end_near_midnight:" + base + "@" + ep.Group, where
					case m30 && !lz:
						return "upper_date_bound_is_end_minus_30min:" + base + "@" + ep.Group, where
					case lz && !m30:
						return "upper_date_bound_in_local_zone:" + base + "@" + ep.Group, where
					case lz && m30:
						return "upper_date_bound_local_zone_or_end_minus_30min:" + base + "@" + ep.Group, where
					}
					return "upper_date_bound_unexplained:" + base + "@" + ep.Group, where
				}
				if hasLo && sd < lo {
					switch {
					case lo <= utcDay(w.S):
						return "writer_dates_index_row_before_utc_day:" + base, where
					case lo == localDay(w.S, loc):
						return "lower_date_bound_in_local_zone:" + base + "@" + ep.Group, where
					}
					return "lower_date_bound_unexplained:" + base + "@" + ep.Group, where
				}
				return "index_drop_not_by_date:" + base + "@" + ep.Group, where
			}
		}
	}
	if sqlErr != "" {
		return "statement_fails@" + ep.Group, "a statement of the request failed: " + short(sqlErr)
	}
	if resp.Status >= 400 || resp.Status < 0 {
		return fmt.Sprintf("request_fails_%d@%s", resp.Status, ep.Group), "response: " + short(resp.Text+resp.Err)
	}
	if len(stmts) == 0 {
		return "no_statement_sent@" + ep.Group, "response: " + short(resp.Text+resp.Err)
	}
	return "dropped_after_sql@" + ep.Group, "every scan admitted its rows; response: " + short(resp.Text)
}

// explainDataDrop names the reason a data-table bound dropped a datum of the window.  missing tells which of
// the owed items the response lacks: "the bounds were truncated to whole seconds" is claimed only if every owed item
// outside the truncated window is missing.
func explainDataDrop(ep *Endpoint, w Win, it *Item, owed []*Item, missing func(*Item) bool) string {
	is15 := strings.Contains(ep.Group, "15s")
	we := secondsWindow(ep, w)
	outside := func(ts int64) bool { return !ep.Allowed(we, ts) } // what the truncated window (with its own widening) cannot return
	trunc := (we.S != w.S || we.E != w.E) && outside(it.Ts)
	if trunc {
		for _, o := range owed {
			if outside(o.Ts) && !missing(o) {
				trunc = false
			}
		}
	}
	switch {
	case trunc && it.Ts >= we.S:
		return "end_truncated_to_whole_seconds"
	case trunc:
		return "start_moved_up_by_float64_parse_of_ns"
	case is15 && it.Ts < floorTo(w.S, 15e9)+15e9:
		return "first_15s_bucket_excluded"
	case is15 && it.Ts >= floorTo(w.E, 15e9):
		return "end_floored_to_15s"
	case it.Ts == w.S:
		return "start_exclusive"
	}
	return "excludes_" + it.Class
}
