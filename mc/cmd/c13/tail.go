package main

import (
	"context"
	"sync"
	"time"

	"github.com/metrico/qryn/reader/model"
	"github.com/metrico/qryn/reader/service"

	"verif/mc/ev"
)

// Tail (GET /loki/api/v1/tail) has no request window: QueryRangeService.Tail reads [now-5min, now) of the process
// clock once a second and then moves `from` past the newest line it delivered.  The pass below calls the real
// service method (the controller only adds the websocket), on a database whose rows are placed relative to the
// process clock with margins of a minute, so the verdict does not depend on timing:
//
//	before  now - 6 min     must not be delivered
//	inside  now - 2 min     must be delivered (log and both/undefined type), must not (metric type)
//	future  now + 10 min    must not be delivered (the window ends at now)
//
// for every writer zone (index dates from the real writer code) and both layouts.
func tailPass(r *ev.Run, counters map[string]int64) {
	now := time.Now()
	w := Win{Name: "tail", S: now.Add(-5 * time.Minute).UnixNano(), E: now.UnixNano()}
	classes := []class{{"before6m", w.S - 60e9}, {"in2m", w.E - 120e9}, {"future10m", w.E + 600e9}}
	var tss []int64
	for _, c := range classes {
		tss = append(tss, c.Ts)
	}
	type job struct {
		zone    string
		cluster bool
	}
	var jobs []job
	for _, z := range zoneNames {
		for _, cl := range []bool{false, true} {
			jobs = append(jobs, job{z, cl})
		}
	}
	var mu sync.Mutex
	var wg sync.WaitGroup
	for _, j := range jobs {
		wg.Add(1)
		go func(j job) {
			defer wg.Done()
			wd, err := writerDatesFor(j.zone, tss)
			if err != nil {
				ev.Fatal("%v", err)
			}
			cell, err := buildCell(w, j.zone, classes, fromWriter(wd.Series), fromWriter(wd.Tags))
			if err != nil {
				ev.Fatal("%v", err)
			}
			x := newExec()
			x.begin(cell)
			svc := &service.QueryRangeService{ServiceData: model.ServiceData{Session: x.registry(j.cluster)}}
			ctx, cancel := context.WithCancel(context.Background())
			defer cancel()
			watcher, err := svc.Tail(ctx, sel)
			if err != nil {
				ev.Fatal("tail: %v", err)
			}
			// two polls: the second one reads [newest delivered line + 1 ns, now) — a second window of the same session
			var text string
			for poll := 0; poll < 2; poll++ {
				select {
				case m, ok := <-watcher.GetRes():
					if ok {
						text += m.Str + "\n"
					}
				case <-time.After(20 * time.Second):
					ev.Fatal("tail: no message within 20 s")
				}
			}
			watcher.Close()
			cancel()
			go func() {
				for range watcher.GetRes() {
				}
			}()
			stmts := x.taken()
			ep := &Endpoint{Name: "loki_tail", Group: "loki_tail", Items: "samples", Signal: typeLog, Unit: 1,
				// the service's own clock reading lies between `now` and now + a few seconds: margins of a minute decide
				Must:    func(w Win, ts int64) bool { return ts >= w.S+30e9 && ts < w.E-30e9 },
				Allowed: func(w Win, ts int64) bool { return ts >= w.S-30e9 && ts < w.E+60e9 }}
			o := judge(cell, ep, j.cluster, Resp{Status: 200, Text: text}, stmts, nil)
			mu.Lock()
			defer mu.Unlock()
			r.AddEval(1)
			r.TracesValidated++
			r.Transitions += int64(len(stmts))
			counters["tail_sessions"]++
			counters["tail_statements"] += int64(len(stmts))
			counters["tail_items_owed"] += int64(o.MustN)
			counters["tail_items_returned"] += int64(len(o.Returned))
			if len(o.Unsupp) > 0 {
				counters["unsupported_by_chsim"]++
				return
			}
			if len(o.Findings) == 0 {
				r.Outcome("ok_nonempty:loki_tail")
			}
			for _, f := range o.Findings {
				r.Outcome("deviation:" + f.Class)
				r.Violate(f.Class, f.What, map[string]any{"endpoint": "loki_tail", "writer_tz": j.zone, "cluster": j.cluster,
					"note": "re-run the check; the tail pass uses the process clock"})
			}
		}(j)
	}
	wg.Wait()
}
