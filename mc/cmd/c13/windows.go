package main

import (
	"fmt"
	"sort"
	"time"
)

// ---- windows ----------------------------------------------------------------------------------------------------

// Win is one requested time window [S,E) in Unix nanoseconds.
type Win struct {
	Name string   `json:"name"`
	S    int64    `json:"s"`
	E    int64    `json:"e"`
	Tags []string `json:"tags,omitempty"` // what the window exercises (for the evidence file)
}

func (w Win) String() string {
	f := "2006-01-02T15:04:05.999999999Z"
	return fmt.Sprintf("%s [%s, %s)", w.Name, time.Unix(0, w.S).UTC().Format(f), time.Unix(0, w.E).UTC().Format(f))
}

type point struct {
	Name string
	T    time.Time
	Tags []string
}

// anchor builds the 9-point menu around the UTC midnight that ends day d0 (d1 = d0 + 1 day):
//
//	A d0 23:59:58.000   B d0 23:59:58.401 (sub-second partner of A; not a multiple of 256 ns, so not exact as float64)   C d1 00:00:03   D d1 00:10:00
//	E d1 07:59:50 / F d1 08:00:10 (either side of America/Los_Angeles midnight, UTC-8)
//	I d1 08:00:19 (an end that is neither a multiple of 15 s nor of 20 s: the 15 s bucket that holds it starts after
//	  the 20 s range bucket before it ends)
//	G d1 14:59:50 / H d1 15:00:10 (either side of Asia/Tokyo midnight, UTC+9)
func anchor(prefix string, d1 time.Time) []point {
	at := func(d time.Duration) time.Time { return d1.Add(d) }
	return []point{
		{prefix + "A", at(-2 * time.Second), nil},
		{prefix + "B", at(-2*time.Second + 401*time.Millisecond), []string{"subsecond"}},
		{prefix + "C", at(3 * time.Second), nil},
		{prefix + "D", at(10 * time.Minute), nil},
		{prefix + "E", at(8*time.Hour - 10*time.Second), nil},
		{prefix + "F", at(8*time.Hour + 10*time.Second), nil},
		{prefix + "I", at(8*time.Hour + 19*time.Second), nil},
		{prefix + "G", at(15*time.Hour - 10*time.Second), nil},
		{prefix + "H", at(15*time.Hour + 10*time.Second), nil},
	}
}

func utcDay(ns int64) int64 { return floorDiv(ns, 86400e9) }

func floorDiv(a, b int64) int64 {
	q := a / b
	if a%b != 0 && (a < 0) != (b < 0) {
		q--
	}
	return q
}

func floorTo(ts, g int64) int64 { return floorDiv(ts, g) * g }

var zoneNames = []string{"UTC", "America/Los_Angeles", "Asia/Tokyo"}

func localDay(ns int64, loc *time.Location) int64 {
	t := time.Unix(0, ns).In(loc)
	_, off := t.Zone()
	return floorDiv(t.Unix()+int64(off), 86400)
}

// windows returns the menu of windows: all pairs of the 9 points of each anchor plus, for four of the points,
// the 5-minute look-back window that ends there (what an instant query asks for).
func windows(thorough bool) []Win {
	anchors := []struct {
		p  string
		d1 time.Time
	}{{"", time.Date(2024, 2, 1, 0, 0, 0, 0, time.UTC)}} // 2024-01-31 -> 02-01: month end
	if thorough {
		anchors = append(anchors,
			struct {
				p  string
				d1 time.Time
			}{"y", time.Date(2024, 1, 1, 0, 0, 0, 0, time.UTC)}, // year end
			struct {
				p  string
				d1 time.Time
			}{"s", time.Date(2024, 3, 10, 0, 0, 0, 0, time.UTC)}, // US DST switch day (LA midnight still 08:00Z, next one 07:00Z)
			struct {
				p  string
				d1 time.Time
			}{"l", time.Date(2024, 3, 1, 0, 0, 0, 0, time.UTC)}, // leap-year February end
		)
	}
	var locs []*time.Location
	for _, z := range zoneNames {
		l, err := time.LoadLocation(z)
		if err != nil {
			panic(err)
		}
		locs = append(locs, l)
	}
	var out []Win
	add := func(name string, s, e time.Time, extra []string) {
		w := Win{Name: name, S: s.UnixNano(), E: e.UnixNano()}
		tags := map[string]bool{}
		for _, t := range extra {
			tags[t] = true
		}
		if utcDay(w.S) != utcDay(w.E) {
			tags["crosses_utc_midnight"] = true
		}
		if s.Month() != e.Month() {
			tags["crosses_month_end"] = true
		}
		for i, l := range locs[1:] {
			if localDay(w.S, l) != localDay(w.E, l) {
				tags["crosses_local_midnight_"+[]string{"la", "tokyo"}[i]] = true
			}
		}
		if w.E-w.S < 1e9 {
			tags["subsecond"] = true
		}
		if w.S%1e9 != 0 || w.E%1e9 != 0 {
			tags["subsecond_bound"] = true
		}
		if so := w.S - floorTo(w.S, 86400e9); so < 1800e9 {
			tags["start_within_30min_after_utc_midnight"] = true
		}
		if eo := w.E - floorTo(w.E, 86400e9); eo < 1800e9 {
			tags["end_within_30min_after_utc_midnight"] = true
		}
		if w.E-w.S == 300e9 {
			tags["lookback_5m"] = true
		}
		if w.E%1e9 != 0 && utcDay(floorTo(w.E, 1e9)-1) != utcDay(w.E) {
			tags["end_truncates_to_utc_midnight"] = true
		}
		if w.E%day == 0 {
			tags["end_exactly_utc_midnight"] = true
		}
		for t := range tags {
			w.Tags = append(w.Tags, t)
		}
		sort.Strings(w.Tags)
		out = append(out, w)
	}
	for _, a := range anchors {
		pts := anchor(a.p, a.d1)
		for i := 0; i < len(pts); i++ {
			for j := i + 1; j < len(pts); j++ {
				add(pts[i].Name+pts[j].Name, pts[i].T, pts[j].T, nil)
			}
		}
		for _, i := range []int{2, 3, 5, 8} {
			add("lb"+pts[i].Name, pts[i].T.Add(-300*time.Second), pts[i].T, nil)
		}
		// the midnight cluster: instants right at the UTC midnight, where a bound that is truncated to whole seconds
		// or moved by 1 ns changes the UTC day: all pairs of {M-2s, M-1s, M-1ns, M, M+100ms, M+400ms, M+1s}, each
		// cluster instant as the start of a window ending 10 min / 15 h later, and two look-back windows ending there
		cl := []point{pts[0],
			{a.p + "N1", a.d1.Add(-time.Second), nil}, {a.p + "N2", a.d1.Add(-time.Nanosecond), nil}, {a.p + "N3", a.d1, nil},
			{a.p + "N4", a.d1.Add(100 * time.Millisecond), nil}, {a.p + "N5", a.d1.Add(400 * time.Millisecond), nil}, {a.p + "N6", a.d1.Add(time.Second), nil}}
		for i := 0; i < len(cl); i++ {
			for j := i + 1; j < len(cl); j++ {
				add(cl[i].Name+cl[j].Name, cl[i].T, cl[j].T, []string{"midnight_cluster"})
			}
		}
		for _, c := range cl[1:] {
			add(c.Name+pts[3].Name, c.T, pts[3].T, []string{"midnight_cluster"})
			add(c.Name+pts[8].Name, c.T, pts[8].T, []string{"midnight_cluster"})
		}
		add("lb"+cl[3].Name, cl[3].T.Add(-300*time.Second), cl[3].T, []string{"midnight_cluster"})
		add("lb"+cl[5].Name, cl[5].T.Add(-300*time.Second), cl[5].T, []string{"midnight_cluster"})
	}
	return out
}

// ---- time classes and items ------------------------------------------------------------------------------------

// bucket sizes (ns) for which "just outside the widened window" rows exist: LogQL ranges used by the metric
// endpoints and the 15 s storage bucket.
var bucketSizes = []int64{5e9, 15e9, 20e9, 60e9}

type class struct {
	Name string
	Ts   int64
}

const (
	day   = int64(86400e9)
	month = 31 * day
)

// classesOf lists the time classes of a window: one datum of every signal is stored at each of them.
func classesOf(w Win) []class {
	c := []class{
		{"b1mo", w.S - month}, {"b1d", w.S - day}, {"b1ns", w.S - 1},
		{"ats", w.S}, {"in", w.S + (w.E-w.S)/2}, {"e1ns", w.E - 1},
		{"ate", w.E}, {"a1ns", w.E + 1}, {"a1d", w.E + day}, {"a1mo", w.E + month},
	}
	for _, g := range bucketSizes {
		n := fmt.Sprint(g / 1e9)
		c = append(c, class{"bb" + n, floorTo(w.S, g) - 1}, class{"ab" + n, floorTo(w.E, g) + g})
	}
	return c
}

// signal types of the samples / time_series `type` column
const (
	typeBoth   = 0
	typeLog    = 1
	typeMetric = 2
)

var typeLetters = map[int]string{typeBoth: "z", typeLog: "l", typeMetric: "m"}

// Item is one stored datum: a series with one sample, a trace with one span, a profile series with one profile.
type Item struct {
	Idx    int
	Class  string
	Ts     int64
	Type   int    // typeBoth/typeLog/typeMetric; -1 for traces and profiles
	Marker string // unique token present in every string field of the item's rows
	// Extra != 0: the series has a second, older sample at Extra (one day before the window) and an index row for
	// that day as well — a series that exists on both sides of the window's days ("both2d").
	Extra int64
}

func marker(fam, cls, typ string) string { return "z" + fam + "_" + cls + "_" + typ + "_qz" }

// sampleItems: classes x {log, metric, both}.
func sampleItems(classes []class) []Item {
	var out []Item
	var in, b1d *class
	for k, c := range classes {
		for _, t := range []int{typeLog, typeMetric, typeBoth} {
			out = append(out, Item{Idx: len(out), Class: c.Name, Ts: c.Ts, Type: t, Marker: marker("q", c.Name, typeLetters[t])})
		}
		switch c.Name {
		case "in":
			in = &classes[k]
		case "b1d":
			b1d = &classes[k]
		}
	}
	if in != nil && b1d != nil {
		for _, t := range []int{typeLog, typeMetric, typeBoth} {
			out = append(out, Item{Idx: len(out), Class: "both2d", Ts: in.Ts, Extra: b1d.Ts, Type: t, Marker: marker("q", "both2d", typeLetters[t])})
		}
	}
	return out
}

// untypedItems: one item per class (traces: fam "t", shared-trace spans: fam "s", profiles: fam "p").
func untypedItems(classes []class, fam string) []Item {
	var out []Item
	for _, c := range classes {
		out = append(out, Item{Idx: len(out), Class: c.Name, Ts: c.Ts, Type: -1, Marker: marker(fam, c.Name, "x")})
	}
	return out
}

// allTimestamps lists every stored timestamp of a window (what the writer-side workers have to date).
func allTimestamps(ws []Win) []int64 {
	seen := map[int64]bool{}
	var out []int64
	for _, w := range ws {
		for _, c := range classesOf(w) {
			if !seen[c.Ts] {
				seen[c.Ts] = true
				out = append(out, c.Ts)
			}
		}
	}
	sort.Slice(out, func(i, j int) bool { return out[i] < out[j] })
	return out
}
