package main

import (
	"fmt"
	"io"
	"os"
	"regexp"
	"sort"
	"strings"
	"sync"

	"github.com/gorilla/mux"
	clconfig "github.com/metrico/cloki-config"
	clcfg "github.com/metrico/cloki-config/config"
	"github.com/metrico/qryn/reader/config"
	"github.com/metrico/qryn/reader/model"
	apirouterv1 "github.com/metrico/qryn/reader/router"
	"github.com/metrico/qryn/reader/utils/logger"

	"verif/mc/ev"
	"verif/mc/fakesql"
)

// readerSide is the real reader router (every router constructor of reader/main.go performV1APIRouting, in the
// same order) over a scripted database/sql driver; only the network listener, the watchdog and clickhouse.OpenDB
// are left out.  (Same assembly as verif/mc/readerharness, kept local so that C13 does not depend on C12's
// observation machinery.)
type readerSide struct {
	Router   *mux.Router
	Registry model.IDBRegistry
	Name     string // session name (what ISqlxDB.GetName returns): identifies the harness a planner runs for
}

var readerInit sync.Once

var routersWired = []string{"RouteQueryRangeApis", "RouteSelectLabels", "RouteSelectPrometheusLabels",
	"RoutePrometheusQueryRange", "RouteTempo", "RouteMiscApis", "RouteProf", "PluggableRoutes"}

// checkWiring: a router added to reader/main.go that this harness does not assemble must be noticed (exit 2).
func checkWiring() error {
	b, err := os.ReadFile(ev.Repo() + "/reader/main.go")
	if err != nil {
		return err
	}
	var got []string
	for _, m := range regexp.MustCompile(`apirouterv1\.(\w+)\(`).FindAllStringSubmatch(string(b), -1) {
		got = append(got, m[1])
	}
	a, w := append([]string(nil), got...), append([]string(nil), routersWired...)
	sort.Strings(a)
	sort.Strings(w)
	if strings.Join(a, ",") != strings.Join(w, ",") {
		return fmt.Errorf("reader/main.go wires %v, the C13 harness wires %v", got, routersWired)
	}
	return nil
}

var (
	sessionMu  sync.Mutex
	sessionSeq int
)

func newReaderSide(h fakesql.Handler, cluster string) *readerSide {
	readerInit.Do(func() {
		cfg := &clconfig.ClokiConfig{Setting: &clcfg.ClokiBaseSettingServer{}}
		cfg.Setting.SYSTEM_SETTINGS.MetricsMaxSamples = 5000000
		cfg.Setting.LOG_SETTINGS.Level = "error"
		config.Cloki = cfg
		logger.Logger.SetOutput(io.Discard)
	})
	sessionMu.Lock()
	sessionSeq++
	name := fmt.Sprintf("c13-%d", sessionSeq)
	sessionMu.Unlock()
	sess := fakesql.NewSession(name, fakesql.New(h))
	reg, _ := fakesql.Registry(sess, "qryn", cluster)
	app := mux.NewRouter()
	apirouterv1.RouteQueryRangeApis(app, reg)
	apirouterv1.RouteSelectLabels(app, reg)
	apirouterv1.RouteSelectPrometheusLabels(app, reg)
	apirouterv1.RoutePrometheusQueryRange(app, reg, false)
	apirouterv1.RouteTempo(app, reg)
	apirouterv1.RouteMiscApis(app)
	apirouterv1.RouteProf(app, reg)
	apirouterv1.PluggableRoutes(app, reg)
	return &readerSide{Router: app, Registry: reg, Name: name}
}
