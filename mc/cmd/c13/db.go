package main

import (
	"encoding/hex"
	"fmt"
	"regexp"
	"strings"

	"verif/mc/chsim"
)

// Cell is one database: the rows of one window, index rows dated by one writer zone (or by the UTC rule).
type Cell struct {
	Win     Win
	Dating  string // writer zone name, or "utc-rule"
	DB      *chsim.DB
	Samples []Item             // series with one sample each (classes x types)
	Traces  []Item             // one trace with one span each
	Shared  []Item             // spans of the one shared trace (trace-by-id endpoint)
	Profs   []Item             // one profile series with one profile each
	ByMark  map[string]*Item   // marker -> item
	rowItem map[string][]*Item // table -> row index -> item (nil for rows that belong to no item)
}

var markerRe = regexp.MustCompile(`z[qtsp]_[a-z0-9]+_[lmzx]_qz`)

const sharedTraceID = "c13c13c13c13c13c13c13c13c13c13ff"

func fpOf(i Item) uint64 { return uint64(100000 + i.Idx) }

func traceIDOf(i Item) string { return fmt.Sprintf("c13000000000000000000000000%05x", i.Idx+1) }
func spanIDOf(i Item) string  { return fmt.Sprintf("c130000000%06x", i.Idx+1) }

// dayFn gives the stored day number of an index row for a datum at ts.
type dayFn func(ts int64) int64

func utcRule(ts int64) int64 { return utcDay(ts) }

func fromWriter(m map[string]int64) dayFn {
	return func(ts int64) int64 {
		d, ok := m[fmt.Sprint(ts)]
		if !ok {
			panic(fmt.Sprintf("no writer date for %d", ts))
		}
		return d
	}
}

func labelsOf(i Item) map[string]string {
	return map[string]string{"job": "c13", "cls": i.Marker, "k_" + i.Marker: "v_" + i.Marker}
}

// buildCell creates the database of one window.  seriesDay dates time_series rows, tagDay dates
// tempo_traces_attrs_gin rows; everything else is derived through the repository's materialized views as
// transcribed in chsim (bound to the .sql files by chsim's own conformance test).
func buildCell(w Win, dating string, classes []class, seriesDay, tagDay dayFn) (*Cell, error) {
	c := &Cell{Win: w, Dating: dating, DB: chsim.NewDB(), ByMark: map[string]*Item{}, rowItem: map[string][]*Item{}}
	c.Samples = sampleItems(classes)
	c.Traces = untypedItems(classes, "t")
	c.Shared = untypedItems(classes, "s")
	c.Profs = untypedItems(classes, "p")
	for _, l := range [][]Item{c.Samples, c.Traces, c.Shared, c.Profs} {
		for k := range l {
			c.ByMark[l[k].Marker] = &l[k]
		}
	}
	db := c.DB
	var spl, ts [][]chsim.Value
	for _, it := range c.Samples {
		spl = append(spl, []chsim.Value{fpOf(it), it.Ts, float64(it.Idx + 1), "line " + it.Marker + " k=v n=1", it.Type})
		ts = append(ts, []chsim.Value{chsim.Date(seriesDay(it.Ts)), fpOf(it), chsim.LabelsJSON(labelsOf(it)), "", it.Type})
		if it.Extra != 0 {
			spl = append(spl, []chsim.Value{fpOf(it), it.Extra, float64(it.Idx + 1), "line " + it.Marker + " k=v n=1", it.Type})
			if seriesDay(it.Extra) != seriesDay(it.Ts) {
				ts = append(ts, []chsim.Value{chsim.Date(seriesDay(it.Extra)), fpOf(it), chsim.LabelsJSON(labelsOf(it)), "", it.Type})
			}
		}
	}
	db.AddQrynTable("samples_v3", spl)
	db.AddQrynTable("time_series", ts)

	var spans [][]chsim.Value
	span := func(it Item, traceID, spanID string) []chsim.Value {
		payload := fmt.Sprintf(`{"traceId":"%s","id":"%s","name":"op_%s","timestamp":%d,"duration":1000,"tags":{"cls":"%s"},"localEndpoint":{"serviceName":"svc_%s"}}`,
			traceID, spanID, it.Marker, floorDiv(it.Ts, 1000), it.Marker, it.Marker)
		return []chsim.Value{"0", traceID, spanID, "", "op_" + it.Marker, it.Ts, int64(1000000), "svc_" + it.Marker, 1, payload,
			chsim.Array{chsim.Tuple{"job", "c13"}, chsim.Tuple{"cls", it.Marker}, chsim.Tuple{"k_" + it.Marker, "v_" + it.Marker},
				chsim.Tuple{"service.name", "svc_" + it.Marker}, chsim.Tuple{"name", "op_" + it.Marker}}}
	}
	for _, it := range c.Traces {
		spans = append(spans, span(it, traceIDOf(it), spanIDOf(it)))
	}
	for _, it := range c.Shared {
		r := span(it, sharedTraceID, spanIDOf(it))
		r[10] = chsim.Array{chsim.Tuple{"shared", it.Marker}} // not found by the tag searches of the other endpoints
		spans = append(spans, r)
	}
	db.AddQrynTable("traces_input", spans)

	var profs [][]chsim.Value
	for _, it := range c.Profs {
		profs = append(profs, []chsim.Value{uint64(it.Ts), "process_cpu", "svc_" + it.Marker,
			chsim.Array{chsim.Tuple{"cpu", "nanoseconds"}, chsim.Tuple{"s" + it.Marker, "count"}}, "cpu", "nanoseconds",
			chsim.Array{chsim.Tuple{"job", "c13"}, chsim.Tuple{"cls", it.Marker}, chsim.Tuple{"k_" + it.Marker, "v_" + it.Marker}},
			uint64(1e9), "0", "",
			chsim.Array{chsim.Tuple{"cpu:nanoseconds", int64(100), int32(1)}, chsim.Tuple{"s" + it.Marker + ":count", int64(7), int32(1)}},
			chsim.Array{chsim.Tuple{uint64(0), uint64(1000 + it.Idx), uint64(2000 + it.Idx), chsim.Array{chsim.Tuple{"cpu:nanoseconds", int64(100), int64(100)},
				chsim.Tuple{"s" + it.Marker + ":count", int64(7), int64(7)}}}},
			chsim.Array{chsim.Tuple{uint64(1000 + it.Idx), "fn_" + it.Marker}}})
	}
	db.AddQrynTable("profiles_input", profs)

	// settings as ctrl/qryn/sql/*.sql leave them (the reader's dbVersion reads type='update' rows)
	var settings [][]chsim.Value
	for i, n := range []string{"v3_1", "v3_2", "tempo_traces_v2", "profiles_v2"} {
		settings = append(settings, []chsim.Value{uint64(7000 + i), "update", n, "1600000000", chsim.DateTime64{T: 1600000000e9, P: 9}})
	}
	db.AddQrynTable("settings", settings)

	for _, v := range []string{"time_series_gin_view", "metrics_15s_mv", "traces_input_traces_mv", "traces_input_tags_mv"} {
		if err := db.Materialize(v); err != nil {
			return nil, err
		}
	}
	// the writer, not ClickHouse, dates tempo_traces_attrs_gin rows: replace the date the view computed
	tg := db.Table("tempo_traces_attrs_gin")
	dc, tc := colIndex(tg, "date"), colIndex(tg, "timestamp_ns")
	for _, r := range tg.Rows {
		r[dc] = chsim.Date(tagDay(r[tc].(int64)))
	}
	for _, v := range []string{"tempo_traces_kv_mv", "profiles_mv", "profiles_series_mv", "profiles_series_gin_mv", "profiles_series_keys_mv"} {
		if err := db.Materialize(v); err != nil {
			return nil, err
		}
	}
	for _, n := range dataAndIndexTables {
		db.Alias(n, n+"_dist")
	}
	db.Alias("settings", "settings_dist")
	c.indexRows()
	return c, nil
}

var dataAndIndexTables = []string{"time_series", "time_series_gin", "samples_v3", "metrics_15s", "tempo_traces", "tempo_traces_attrs_gin",
	"tempo_traces_kv", "profiles", "profiles_series", "profiles_series_gin", "profiles_series_keys"}

// tableKind: "data" tables hold timestamped rows, "index" tables hold dated rows.
var tableKind = map[string]string{
	"samples_v3": "data", "metrics_15s": "data", "tempo_traces": "data", "profiles": "data",
	"time_series": "index", "time_series_gin": "index", "tempo_traces_attrs_gin": "index", "tempo_traces_kv": "index",
	"profiles_series": "index", "profiles_series_gin": "index", "profiles_series_keys": "index",
}

func baseName(t string) string { return strings.TrimSuffix(t, "_dist") }

func colIndex(t *chsim.Table, name string) int {
	for i, c := range t.Cols {
		if c.Name == name {
			return i
		}
	}
	return -1
}

// indexRows maps every row of every data/index table to the item it belongs to: by the marker found in any
// string cell, else by the fingerprint column.
func (c *Cell) indexRows() {
	byFp := map[uint64]*Item{}
	for k := range c.Samples {
		byFp[fpOf(c.Samples[k])] = &c.Samples[k]
	}
	byTrace := map[string]*Item{}
	for k := range c.Traces {
		b, _ := hex.DecodeString(traceIDOf(c.Traces[k]) + spanIDOf(c.Traces[k]))
		byTrace[string(b)] = &c.Traces[k]
	}
	for k := range c.Shared {
		b, _ := hex.DecodeString(sharedTraceID + spanIDOf(c.Shared[k]))
		byTrace[string(b)] = &c.Shared[k]
	}
	for _, name := range dataAndIndexTables {
		t := c.DB.Table(name)
		if t == nil {
			continue
		}
		fc, tc, sc := colIndex(t, "fingerprint"), colIndex(t, "trace_id"), colIndex(t, "span_id")
		items := make([]*Item, len(t.Rows))
		for i, r := range t.Rows {
			if m := findMarker(r); m != "" {
				items[i] = c.ByMark[m]
				continue
			}
			if fc >= 0 && (name == "samples_v3" || name == "metrics_15s" || name == "time_series" || name == "time_series_gin") {
				if fp, ok := r[fc].(uint64); ok {
					items[i] = byFp[fp]
				}
				continue
			}
			if tc >= 0 && sc >= 0 {
				a, _ := r[tc].(string)
				b, _ := r[sc].(string)
				items[i] = byTrace[a+b]
			}
		}
		c.rowItem[name] = items
	}
}

func findMarker(v chsim.Value) string {
	switch x := v.(type) {
	case string:
		return markerRe.FindString(x)
	case []chsim.Value:
		for _, e := range x {
			if m := findMarker(e); m != "" {
				return m
			}
		}
	case chsim.Array:
		for _, e := range x {
			if m := findMarker(e); m != "" {
				return m
			}
		}
	case chsim.Tuple:
		for _, e := range x {
			if m := findMarker(e); m != "" {
				return m
			}
		}
	}
	return ""
}

// RowTs is the timestamp of a scanned data-table row: the row's own timestamp_ns where the table stores raw data
// (an item may own several rows), the item's timestamp otherwise (metrics_15s rows carry their bucket start).
func (c *Cell) RowTs(table string, row int, it *Item) int64 {
	base := baseName(table)
	t := c.DB.Table(base)
	if t == nil || row >= len(t.Rows) {
		return it.Ts
	}
	if base == "metrics_15s" {
		// the row carries its bucket start: answer with the sample of the item that lies in that bucket
		if k := colIndex(t, "timestamp_ns"); k >= 0 && it.Extra != 0 {
			if b, ok := t.Rows[row][k].(int64); ok && floorTo(it.Extra, 15e9) == b && floorTo(it.Ts, 15e9) != b {
				return it.Extra
			}
		}
		return it.Ts
	}
	if k := colIndex(t, "timestamp_ns"); k >= 0 {
		switch v := t.Rows[row][k].(type) {
		case int64:
			return v
		case uint64:
			return int64(v)
		}
	}
	return it.Ts
}

// ItemOfRow returns the item a scanned row belongs to (nil: none).
func (c *Cell) ItemOfRow(table string, row int) *Item {
	l := c.rowItem[baseName(table)]
	if row < 0 || row >= len(l) {
		return nil
	}
	return l[row]
}
