package main

import (
	"context"
	"encoding/json"
	"fmt"
	"net/url"
	"sort"
	"strings"
	"time"

	"github.com/metrico/qryn/reader/model"
	"github.com/metrico/qryn/reader/service"
	"github.com/prometheus/prometheus/model/labels"
	"github.com/prometheus/prometheus/storage"
)

// Endpoint is one request shape of one read endpoint.
type Endpoint struct {
	Name   string // request shape
	Group  string // endpoint + planner the shape exercises: part of every finding class
	Items  string // which stored items the endpoint can return: samples | traces | shared | profs
	Signal int    // typeLog / typeMetric for the Loki / Prometheus APIs, -1 where there is no signal type
	Unit   int64  // resolution (ns) of the endpoint's window parameters; windows it cannot express are skipped
	// OnlyLookback: the endpoint takes one instant and looks back 5 minutes; it runs on the 5-minute windows only.
	OnlyLookback bool
	// Must: a datum at ts of the right signal has to be in the result.  Allowed: it may be (allowed widening).
	// Everything not allowed must not be returned, nor admitted by a scan of a data table.
	Must    func(w Win, ts int64) bool
	Allowed func(w Win, ts int64) bool
	Run     func(x *Exec, cluster bool, w Win) Resp
	// RunParts (instead of Run): the request reads several windows one after the other; every part is judged against
	// its own window with Must/Allowed.
	RunParts func(x *Exec, cluster bool, w Win) []Part
	Thorough bool // only in the thorough tier
	// FloatNs: the route reads its nanosecond start/end with ParseFloat (Loki query_range); only used to NAME a
	// deviation (a float64 holds 19-digit integers only to the nearest multiple of 256), never to excuse one.
	FloatNs bool
	// Limit > 0: the request carries limit=N; at least min(N, owed) owed items have to come back.
	Limit int
}

// ---- window semantics ----------------------------------------------------------------------------------------

func halfOpen(w Win, ts int64) bool { return ts >= w.S && ts < w.E }
func closed(w Win, ts int64) bool   { return ts >= w.S && ts <= w.E }
func open(w Win, ts int64) bool     { return ts > w.S && ts < w.E }

// indexOnly: endpoints that read only date-granular index tables may return anything whose UTC day is within one
// day of the window's days ("a date range that covers the window", lower bound "minus a safety margin").
func indexOnlyAllowed(w Win, ts int64) bool {
	d := utcDay(ts)
	return d >= utcDay(w.S)-1 && d <= utcDay(w.E)+1
}

// metricAllowed: LogQL metric queries may widen to the enclosing range bucket (and the 15 s storage bucket).
func metricAllowed(g int64, shortcut bool) func(w Win, ts int64) bool {
	return func(w Win, ts int64) bool {
		lo := floorTo(w.S, g)
		if shortcut {
			lo = floorTo(lo, 15e9)
		}
		hi := floorTo(w.E, g) + g
		if shortcut {
			hi = floorTo(hi+15e9-1, 15e9) // the 15 s storage bucket that holds the end of the last range bucket
		}
		return ts >= lo && ts < hi
	}
}

func q(s string) string { return url.QueryEscape(s) }

func get(path string) func(x *Exec, cluster bool, w Win) Resp {
	return func(x *Exec, cluster bool, w Win) Resp {
		p := path
		p = strings.ReplaceAll(p, "{Sns}", fmt.Sprint(w.S))
		p = strings.ReplaceAll(p, "{Ens}", fmt.Sprint(w.E))
		p = strings.ReplaceAll(p, "{Ss}", fmt.Sprint(w.S/1e9))
		p = strings.ReplaceAll(p, "{Es}", fmt.Sprint(w.E/1e9))
		p = strings.ReplaceAll(p, "{Sms}", fmt.Sprint(w.S/1e6))
		p = strings.ReplaceAll(p, "{Ems}", fmt.Sprint(w.E/1e6))
		p = strings.ReplaceAll(p, "{Srfc}", q(time.Unix(0, w.S).UTC().Format(time.RFC3339Nano)))
		p = strings.ReplaceAll(p, "{Erfc}", q(time.Unix(0, w.E).UTC().Format(time.RFC3339Nano)))
		return x.http(cluster, "GET", p, "", nil)
	}
}

func postJSON(path string, body func(w Win) map[string]any) func(x *Exec, cluster bool, w Win) Resp {
	return func(x *Exec, cluster bool, w Win) Resp {
		b, _ := json.Marshal(body(w))
		return x.http(cluster, "POST", path, "application/json", b)
	}
}

const sel = `{job="c13"}`

func endpoints() []*Endpoint {
	var out []*Endpoint
	add := func(e *Endpoint) { out = append(out, e) }
	never := func(Win, int64) bool { return false }

	// ---------------- Loki: log queries ----------------
	lokiQR := func(name, group, query, extra string, thorough bool) {
		add(&Endpoint{Name: name, Group: group, Items: "samples", Signal: typeLog, Unit: 1, Must: halfOpen, Allowed: halfOpen, Thorough: thorough, FloatNs: true,
			Run: get("/loki/api/v1/query_range?query=" + q(query) + "&start={Sns}&end={Ens}&limit=1000" + extra)})
	}
	lokiQR("loki_query_range_log_backward", "loki_query_range_log", sel, "", false)
	lokiQR("loki_query_range_log_forward", "loki_query_range_log", sel, "&direction=forward", false)
	lokiQR("loki_query_range_log_line_filter", "loki_query_range_log", sel+` |= "zq_"`, "", false)
	lokiQR("loki_query_range_log_label_filter", "loki_query_range_log", sel+` | cls=~"zq.+"`, "", false)
	lokiQR("loki_query_range_log_two_matchers", "loki_query_range_log", `{job="c13",cls=~"zq.+"}`, "", false)
	lokiQR("loki_query_range_log_regexp_parser", "loki_query_range_log", sel+` | regexp "(?P<w>line)"`, "", true)
	lokiQR("loki_query_range_log_logfmt_internal", "loki_query_range_log_internal_pipeline", sel+` | logfmt`, "", false)
	add(&Endpoint{Name: "loki_instant_log", Group: "loki_instant_log", Items: "samples", Signal: typeLog, Unit: 1, OnlyLookback: true,
		Must: halfOpen, Allowed: halfOpen, Run: get("/loki/api/v1/query?query=" + q(sel) + "&time={Ens}&limit=1000")})

	// ---------------- Loki: metric queries (step = range, so that every in-window sample is owed) ----------------
	lokiMetric := func(name, group, query string, g int64, shortcut, thorough bool) {
		add(&Endpoint{Name: name, Group: group, Items: "samples", Signal: typeLog, Unit: 1, Must: halfOpen, Allowed: metricAllowed(g, shortcut), Thorough: thorough, FloatNs: true,
			Run: get("/loki/api/v1/query_range?query=" + q(query) + "&start={Sns}&end={Ens}&step=" + fmt.Sprint(g/1e9))})
	}
	lokiMetric("loki_query_range_rate_5s", "loki_query_range_metric", `rate(`+sel+`[5s])`, 5e9, false, false)
	lokiMetric("loki_query_range_count_5s_by", "loki_query_range_metric", `sum by (cls) (count_over_time(`+sel+`[5s]))`, 5e9, false, false)
	lokiMetric("loki_query_range_bytes_5s", "loki_query_range_metric", `bytes_over_time(`+sel+`[5s])`, 5e9, false, true)
	lokiMetric("loki_query_range_count_5s_line_filter", "loki_query_range_metric", `count_over_time(`+sel+` |= "zq_" [5s])`, 5e9, false, true)
	lokiMetric("loki_query_range_count_5s_logfmt_internal", "loki_query_range_metric_internal_pipeline", `count_over_time(`+sel+` | logfmt [5s])`, 5e9, false, false)
	lokiMetric("loki_query_range_unwrap_5s_internal", "loki_query_range_metric_internal_pipeline", `sum_over_time(`+sel+` | logfmt | unwrap n [5s]) by (cls)`, 5e9, false, true)
	lokiMetric("loki_query_range_count_60s_shortcut", "loki_query_range_metric_15s_shortcut", `count_over_time(`+sel+`[1m])`, 60e9, true, false)
	lokiMetric("loki_query_range_rate_15s_shortcut", "loki_query_range_metric_15s_shortcut", `rate(`+sel+`[15s])`, 15e9, true, false)
	lokiMetric("loki_query_range_count_20s_shortcut", "loki_query_range_metric_15s_shortcut", `count_over_time(`+sel+`[20s])`, 20e9, true, false)
	lokiMetric("loki_query_range_sum_by_60s_shortcut", "loki_query_range_metric_15s_shortcut", `sum by (cls) (rate(`+sel+`[1m]))`, 60e9, true, true)
	add(&Endpoint{Name: "loki_instant_rate_5s", Group: "loki_instant_metric", Items: "samples", Signal: typeLog, Unit: 1, OnlyLookback: true,
		Must:    func(Win, int64) bool { return false }, // an instant vector keeps one point per series: nothing is owed per sample
		Allowed: metricAllowed(5e9, false),
		Run:     get("/loki/api/v1/query?query=" + q(`rate(`+sel+`[5s])`) + "&time={Ens}&step=5")})

	// ---------------- Loki: labels, label values, series ----------------
	idx := func(name, group string, signal int, unit int64, path string, thorough bool) {
		add(&Endpoint{Name: name, Group: group, Items: "samples", Signal: signal, Unit: unit, Must: halfOpen, Allowed: indexOnlyAllowed, Thorough: thorough, Run: get(path)})
	}
	idx("loki_labels", "loki_labels", typeLog, 1, "/loki/api/v1/labels?start={Sns}&end={Ens}", false)
	idx("loki_label_alias", "loki_labels", typeLog, 1, "/loki/api/v1/label?start={Sns}&end={Ens}", true)
	idx("loki_label_values", "loki_label_values", typeLog, 1, "/loki/api/v1/label/cls/values?start={Sns}&end={Ens}", false)
	idx("loki_label_values_match", "loki_label_values_match", typeLog, 1, "/loki/api/v1/label/cls/values?start={Sns}&end={Ens}&match[]="+q(sel), false)
	idx("loki_series", "loki_series", typeLog, 1, "/loki/api/v1/series?start={Sns}&end={Ens}&match[]="+q(sel), false)
	idx("loki_series_two_matches", "loki_series", typeLog, 1, "/loki/api/v1/series?start={Sns}&end={Ens}&match[]="+q(sel)+"&match[]="+q(`{cls=~"zq.+"}`), false)

	// ---------------- Prometheus API: labels, label values, series ----------------
	idx("prom_labels", "prom_labels", typeMetric, 1e9, "/api/v1/labels?start={Ss}&end={Es}", false)
	idx("prom_labels_rfc3339", "prom_labels", typeMetric, 1, "/api/v1/labels?start={Srfc}&end={Erfc}", true)
	idx("prom_label_values", "prom_label_values", typeMetric, 1e9, "/api/v1/label/cls/values?start={Ss}&end={Es}", false)
	idx("prom_label_values_match", "prom_label_values_match", typeMetric, 1e9, "/api/v1/label/cls/values?start={Ss}&end={Es}&match[]="+q(sel), false)
	idx("prom_series", "prom_series", typeMetric, 1e9, "/api/v1/series?start={Ss}&end={Es}&match[]="+q(sel), false)

	// ---------------- Prometheus: storage.Querier.Select, one shape per hint function and step regime ----------------
	for _, f := range promHintFuncs {
		for _, reg := range promRegimes {
			f, reg := f, reg
			group, allowed := "prom_select_raw", closed
			if reg.Align15 {
				allowed = func(w Win, ts int64) bool { return closed(align15(w), ts) }
			}
			if reg.Downsample(f) {
				// metrics_15s rows are 15 s buckets: the bucket that holds the instant End reaches to End + 15 s
				group = "prom_select_downsample_15s"
				allowed = func(w Win, ts int64) bool { a := align15(w); return ts >= a.S && ts < a.E+15e9 }
			}
			quickFuncs := map[string]bool{"": true, "rate": true, "sum_over_time": true, "quantile_over_time": true}
			add(&Endpoint{Name: "prom_select_" + orName(f) + "_" + reg.Name, Group: group, Items: "samples", Signal: typeMetric, Unit: 1e6,
				Thorough: reg.Thorough || !quickFuncs[f],
				Must:     closed, Allowed: allowed,
				Run: func(x *Exec, cluster bool, w Win) Resp { return promSelect(x, cluster, w, f, reg) }})
		}
	}
	// several Selects on one Querier, every part judged against its own window
	for _, f := range promHintFuncs {
		for _, reg := range promRegimes {
			for _, seq := range promSelectSeqs {
				f, reg, seq := f, reg, seq
				group, allowed := "prom_select_raw_same_querier", closed
				if reg.Align15 {
					allowed = func(w Win, ts int64) bool { return closed(align15(w), ts) }
				}
				if reg.Downsample(f) {
					group = "prom_select_downsample_15s_same_querier"
					allowed = func(w Win, ts int64) bool { a := align15(w); return ts >= a.S && ts < a.E+15e9 }
				}
				quick := (f == "" || f == "sum_over_time") && (reg.Name == "step0" || reg.Name == "step15s_aligned")
				thoroughFuncs := map[string]bool{"": true, "rate": true, "sum_over_time": true, "count_over_time": true, "last_over_time": true, "abs": true, "sum": true, "quantile_over_time": true}
				if !quick && !thoroughFuncs[f] {
					continue
				}
				add(&Endpoint{Name: "prom_select_" + orName(f) + "_" + reg.Name + "_" + seq.Name, Group: group, Items: "samples", Signal: typeMetric, Unit: 1e6,
					Thorough: !quick, Must: closed, Allowed: allowed,
					RunParts: func(x *Exec, cluster bool, w Win) []Part { return promSelectParts(x, cluster, w, f, reg, seq.Shifts) }})
			}
		}
	}
	// the HTTP endpoints on top of it (start floored / end ceiled to 15 s by the controller, 5 min look-back by the engine):
	promHTTPAllowed := func(lookback, bucket int64) func(w Win, ts int64) bool {
		return func(w Win, ts int64) bool {
			return ts >= floorTo(w.S, 15e9)-lookback && ts <= floorTo(w.E+15e9-1, 15e9)+bucket
		}
	}
	add(&Endpoint{Name: "prom_http_query_range_selector", Group: "prom_http_query_range", Items: "samples", Signal: typeMetric, Unit: 1e9,
		Must: never, Allowed: promHTTPAllowed(300e9, 0),
		Run: get("/api/v1/query_range?query=" + q(sel) + "&start={Ss}&end={Es}&step=1")})
	add(&Endpoint{Name: "prom_http_query_range_sum_over_time_15s", Group: "prom_http_query_range", Items: "samples", Signal: typeMetric, Unit: 1e9,
		Must: never, Allowed: promHTTPAllowed(15e9, 15e9-1), // metrics_15s path: the bucket holding End reaches End + 15 s
		Run: get("/api/v1/query_range?query=" + q(`sum_over_time(`+sel+`[15s])`) + "&start={Ss}&end={Es}&step=15")})
	add(&Endpoint{Name: "prom_http_query_instant_selector", Group: "prom_http_query_instant", Items: "samples", Signal: typeMetric, Unit: 1e9, OnlyLookback: true,
		Must: never, Allowed: func(w Win, ts int64) bool { return ts >= w.E-300e9 && ts <= w.E },
		Run: get("/api/v1/query?query=" + q(sel) + "&time={Es}")})

	// the real PromQL engine with two selectors that read DIFFERENT windows: `sel or (sel offset d)`; d = 1 d + 150 s /
	// 31 d + 150 s puts the rows of class b1d / b1mo in the middle of the offset selector's 5-minute look-back
	lookback := func(w Win, ts int64) bool { return ts > w.S && ts <= w.E }
	for _, o := range []struct {
		name string
		d    int64
	}{{"1d", day + 150e9}, {"31d", month + 150e9}} {
		o := o
		expr := sel + " or (" + sel + " offset " + fmt.Sprint(o.d/1e9) + "s)"
		add(&Endpoint{Name: "prom_http_query_instant_or_offset_" + o.name, Group: "prom_http_query_instant_offset", Items: "samples", Signal: typeMetric, Unit: 1e9, OnlyLookback: true,
			Must: union(lookback, -o.d), Allowed: union(closed, -o.d),
			Run: get("/api/v1/query?query=" + q(expr) + "&time={Es}")})
		add(&Endpoint{Name: "prom_http_query_range_or_offset_" + o.name, Group: "prom_http_query_range_offset", Items: "samples", Signal: typeMetric, Unit: 1e9,
			Must: never, Allowed: union(promHTTPAllowed(300e9, 0), -o.d), Thorough: o.name == "31d",
			Run: get("/api/v1/query_range?query=" + q(expr) + "&start={Ss}&end={Es}&step=1")})
	}
	add(&Endpoint{Name: "prom_http_query_instant_sum_over_time_two_ranges", Group: "prom_http_query_instant_offset", Items: "samples", Signal: typeMetric, Unit: 1e9, OnlyLookback: true,
		Must: never, Allowed: union(closed, -(day + 150e9)),
		Run: get("/api/v1/query?query=" + q(`sum_over_time(`+sel+`[5m]) or sum_over_time(`+sel+`[10m] offset `+fmt.Sprint((day+150e9)/1e9)+`s)`) + "&time={Es}")})

	// ---------------- Tempo ----------------
	// start/end are whole seconds; whether a span exactly at start or end belongs to the window is not specified by
	// the API, so both boundary instants are "may".
	tr := func(name, group, path string, must, allowed func(Win, int64) bool, thorough bool) {
		add(&Endpoint{Name: name, Group: group, Items: "traces", Signal: -1, Unit: 1e9, Must: must, Allowed: allowed, Run: get(path), Thorough: thorough})
	}
	tr("tempo_search_tags", "tempo_search_tags", "/api/search?tags="+q("job=c13")+"&start={Ss}&end={Es}&limit=1000", open, closed, false)
	tr("tempo_search_two_tags", "tempo_search_tags", "/api/search?tags="+q(`job=c13 cls=~"zt.+"`)+"&start={Ss}&end={Es}&limit=1000", open, closed, false)
	tr("tempo_search_no_tags", "tempo_search_no_tags", "/tempo/api/search?start={Ss}&end={Es}&limit=1000", open, closed, false)
	tr("tempo_search_traceql_attr", "tempo_search_traceql_attr", "/api/search?q="+q(`{.job="c13"}`)+"&start={Ss}&end={Es}&limit=1000", open, closed, false)
	tr("tempo_search_traceql_two_attrs", "tempo_search_traceql_attr", "/api/search?q="+q(`{.job="c13" && .cls=~"zt.+"}`)+"&start={Ss}&end={Es}&limit=1000", open, closed, false)
	tr("tempo_search_traceql_or", "tempo_search_traceql_attr", "/api/search?q="+q(`{.job="c13"} || {.job="none"}`)+"&start={Ss}&end={Es}&limit=1000", open, closed, true)
	tr("tempo_search_traceql_attrless", "tempo_search_traceql_attrless", "/api/search?q="+q(`{}`)+"&start={Ss}&end={Es}&limit=1000", open, closed, false)
	add(&Endpoint{Name: "tempo_search_traceql_attrless_limit1", Group: "tempo_search_traceql_attrless", Items: "traces", Signal: -1, Unit: 1e9,
		Must: never, Allowed: closed, Limit: 1, Run: get("/api/search?q=" + q(`{}`) + "&start={Ss}&end={Es}&limit=1")})
	add(&Endpoint{Name: "tempo_search_traceql_attr_limit1", Group: "tempo_search_traceql_attr", Items: "traces", Signal: -1, Unit: 1e9,
		Must: never, Allowed: closed, Limit: 1, Run: get("/api/search?q=" + q(`{.job="c13"}`) + "&start={Ss}&end={Es}&limit=1")})
	add(&Endpoint{Name: "tempo_search_tags_limit1", Group: "tempo_search_tags", Items: "traces", Signal: -1, Unit: 1e9,
		Must: never, Allowed: closed, Limit: 1, Run: get("/api/search?tags=" + q("job=c13") + "&start={Ss}&end={Es}&limit=1")})
	add(&Endpoint{Name: "loki_query_range_log_limit1", Group: "loki_query_range_log", Items: "samples", Signal: typeLog, Unit: 1,
		Must: never, Allowed: halfOpen, Limit: 1, FloatNs: true, Run: get("/loki/api/v1/query_range?query=" + q(sel) + "&start={Sns}&end={Ens}&limit=1")})
	tr("tempo_tags_v2", "tempo_tags_v2", "/api/v2/search/tags?start={Ss}&end={Es}", open, indexOnlyAllowed, false)
	tr("tempo_tag_values_v2", "tempo_tag_values_v2", "/api/v2/search/tag/cls/values?start={Ss}&end={Es}", open, indexOnlyAllowed, false)
	tr("tempo_tags_v2_query", "tempo_tags_v2_query", "/api/v2/search/tags?q="+q(`{.job="c13"}`)+"&start={Ss}&end={Es}", open, closed, false)
	tr("tempo_tag_values_v2_query", "tempo_tag_values_v2_query", "/api/v2/search/tag/cls/values?q="+q(`{.job="c13"}`)+"&start={Ss}&end={Es}", open, closed, false)
	tr("tempo_tags_v1", "tempo_tags_v1", "/api/search/tags?start={Ss}&end={Es}", open, indexOnlyAllowed, false)
	tr("tempo_tag_values_v1", "tempo_tag_values_v1", "/api/search/tag/cls/values?start={Ss}&end={Es}", open, indexOnlyAllowed, false)
	add(&Endpoint{Name: "tempo_trace_by_id", Group: "tempo_trace_by_id", Items: "shared", Signal: -1, Unit: 1e9, Must: open, Allowed: closed,
		Run: get("/api/traces/" + sharedTraceID + "?start={Ss}&end={Es}")})

	// ---------------- Pyroscope (profiles): start/end in milliseconds ----------------
	const typeID = "process_cpu:cpu:nanoseconds:cpu:nanoseconds"
	pf := func(name, group, path string, body func(w Win) map[string]any, must, allowed func(Win, int64) bool, thorough bool) {
		add(&Endpoint{Name: name, Group: group, Items: "profs", Signal: -1, Unit: 1e6, Must: must, Allowed: allowed, Run: postJSON(path, body), Thorough: thorough})
	}
	se := func(w Win, m map[string]any) map[string]any {
		m["start"], m["end"] = w.S/1e6, w.E/1e6
		return m
	}
	pf("prof_profile_types", "prof_profile_types", "/querier.v1.QuerierService/ProfileTypes",
		func(w Win) map[string]any { return se(w, map[string]any{}) }, open, indexOnlyAllowed, false)
	pf("prof_label_names", "prof_label_names", "/querier.v1.QuerierService/LabelNames",
		func(w Win) map[string]any { return se(w, map[string]any{}) }, open, indexOnlyAllowed, false)
	pf("prof_label_names_matchers", "prof_label_names_matchers", "/querier.v1.QuerierService/LabelNames",
		func(w Win) map[string]any { return se(w, map[string]any{"matchers": []string{sel}}) }, open, indexOnlyAllowed, false)
	pf("prof_label_values", "prof_label_values", "/querier.v1.QuerierService/LabelValues",
		func(w Win) map[string]any { return se(w, map[string]any{"name": "cls"}) }, open, indexOnlyAllowed, false)
	pf("prof_label_values_matchers", "prof_label_values_matchers", "/querier.v1.QuerierService/LabelValues",
		func(w Win) map[string]any { return se(w, map[string]any{"name": "cls", "matchers": []string{sel}}) }, open, indexOnlyAllowed, false)
	pf("prof_series_all", "prof_series_all", "/querier.v1.QuerierService/Series",
		func(w Win) map[string]any { return se(w, map[string]any{}) }, open, indexOnlyAllowed, false)
	pf("prof_series_matchers", "prof_series_matchers", "/querier.v1.QuerierService/Series",
		func(w Win) map[string]any { return se(w, map[string]any{"matchers": []string{sel}}) }, open, indexOnlyAllowed, false)
	pf("prof_series_matchers_label_names", "prof_series_matchers", "/querier.v1.QuerierService/Series",
		func(w Win) map[string]any {
			return se(w, map[string]any{"matchers": []string{sel, `{cls=~"zp.+"}`}, "label_names": []string{"cls"}})
		}, open, indexOnlyAllowed, true)
	pf("prof_select_merge_stacktraces", "prof_select_merge_stacktraces", "/querier.v1.QuerierService/SelectMergeStacktraces",
		func(w Win) map[string]any {
			return se(w, map[string]any{"profile_typeID": typeID, "label_selector": sel})
		}, open, closed, false)
	pf("prof_select_series", "prof_select_series", "/querier.v1.QuerierService/SelectSeries",
		func(w Win) map[string]any {
			return se(w, map[string]any{"profile_typeID": typeID, "label_selector": sel, "group_by": []string{"cls"}, "step": 1})
		}, open, closed, false)
	add(&Endpoint{Name: "prof_render_diff", Group: "prof_render_diff", Items: "profs", Signal: -1, Unit: 1e6, Must: open, Allowed: closed,
		Run: get("/pyroscope/render-diff?leftQuery=" + q(typeID+sel) + "&rightQuery=" + q(typeID+sel) + "&leftFrom={Sms}&leftUntil={Ems}&rightFrom={Sms}&rightUntil={Ems}")})
	add(&Endpoint{Name: "prof_render_diff_right_1d_earlier", Group: "prof_render_diff", Items: "profs", Signal: -1, Unit: 1e6, Must: union(open, -day), Allowed: union(closed, -day),
		Run: func(x *Exec, cluster bool, w Win) Resp {
			r := shiftWin(w, -day, "")
			return x.http(cluster, "GET", fmt.Sprintf("/pyroscope/render-diff?leftQuery=%s&rightQuery=%s&leftFrom=%d&leftUntil=%d&rightFrom=%d&rightUntil=%d",
				q(typeID+sel), q(typeID+sel), w.S/1e6, w.E/1e6, r.S/1e6, r.E/1e6), "", nil)
		}})
	pf("prof_analyze_query", "prof_analyze_query", "/querier.v1.QuerierService/AnalyzeQuery",
		func(w Win) map[string]any { return se(w, map[string]any{"query": sel}) }, never, closed, false)
	return out
}

// ---- Prometheus Select ----------------------------------------------------------------------------------------

// promHintFuncs: every function name CLokiQuerier / processHints / DownsampleHintsPlanner distinguish, one
// representative of the functions they treat alike, and names they do not know.
var promHintFuncs = []string{"", "abs", "timestamp", "sum", "avg", "group",
	"rate", "irate", "increase", "delta", "deriv", "resets", "idelta",
	"sum_over_time", "count_over_time", "avg_over_time", "min_over_time", "max_over_time", "last_over_time", "present_over_time", "absent_over_time",
	"quantile_over_time", "stddev_over_time", "stdvar_over_time", "changes", "histogram_quantile"}

func orName(f string) string {
	if f == "" {
		return "nofunc"
	}
	return f
}

type promRegime struct {
	Name     string
	StepMs   int64
	RangeMs  int64 // hints.Range for range-vector functions (the engine always sets it for them); 0 for the others
	Align15  bool  // hints.Start moved down / hints.End moved up to a multiple of 15 s (what the HTTP controller does)
	Thorough bool
}

var promRangeFuncs = map[string]bool{"rate": true, "irate": true, "increase": true, "delta": true, "deriv": true, "resets": true, "idelta": true,
	"sum_over_time": true, "count_over_time": true, "avg_over_time": true, "min_over_time": true, "max_over_time": true, "last_over_time": true,
	"present_over_time": true, "absent_over_time": true, "quantile_over_time": true, "stddev_over_time": true, "stdvar_over_time": true, "changes": true}

func (r promRegime) rangeFor(f string) int64 {
	if promRangeFuncs[f] {
		return r.RangeMs
	}
	return 0
}

// Downsample mirrors CLokiQuerier.transpileLabelMatchers: the metrics_15s path is taken when start is 15 s
// aligned, step >= 15 s, range 0 or >= 15 s and the function is "supported" (or unknown).
func (r promRegime) Downsample(f string) bool {
	sup, known := map[string]bool{"avg_over_time": true, "min_over_time": true, "max_over_time": true, "sum_over_time": true, "count_over_time": true,
		"quantile_over_time": false, "stddev_over_time": false, "stdvar_over_time": false, "last_over_time": true, "present_over_time": true,
		"absent_over_time": true, "": true, "abs": true, "timestamp": true, "sum": true, "avg": true, "group": true}[f]
	rg := r.rangeFor(f)
	return r.Align15 && r.StepMs >= 15000 && (rg == 0 || rg >= 15000) && (sup || !known)
}

func align15(w Win) Win {
	return Win{Name: w.Name, S: floorTo(w.S, 15e9), E: floorTo(w.E+15e9-1, 15e9)}
}

// Regimes: hints.Range >= hints.Step throughout (the `step > range` pre-filter of processHints is C17's D29).
var promRegimes = []promRegime{
	{Name: "step0", StepMs: 0, RangeMs: 5000},                               // no hints processing at all
	{Name: "step1s", StepMs: 1000, RangeMs: 5000},                           // raw samples + processHints
	{Name: "step15s_aligned", StepMs: 15000, RangeMs: 15000, Align15: true}, // what the HTTP controller produces: metrics_15s for "supported" functions
	{Name: "step60s_aligned", StepMs: 60000, RangeMs: 60000, Align15: true, Thorough: true},
}

func promSelect(x *Exec, cluster bool, w Win, fn string, reg promRegime) Resp {
	qr, err := promQuerier(x, cluster, w)
	if err != nil {
		return Resp{Status: -1, Err: err.Error()}
	}
	return promSelectOn(qr, w, fn, reg)
}

func promQuerier(x *Exec, cluster bool, w Win) (storage.Querier, error) {
	svc := &service.CLokiQueriable{ServiceData: model.ServiceData{Session: x.registry(cluster)}}
	ctx := context.Background()
	return svc.SetOidAndDB(ctx).Querier(ctx, w.S/1e6, w.E/1e6)
}

func promSelectOn(qr storage.Querier, w Win, fn string, reg promRegime) Resp {
	hw := w
	if reg.Align15 {
		hw = align15(w)
	}
	var err error
	hints := &storage.SelectHints{Start: hw.S / 1e6, End: hw.E / 1e6, Step: reg.StepMs, Func: fn, Range: reg.rangeFor(fn)}
	var sb strings.Builder
	var pan any
	func() {
		defer func() { pan = recover() }()
		set := qr.Select(false, hints, labels.MustNewMatcher(labels.MatchEqual, "job", "c13"))
		for set.Next() {
			s := set.At()
			sb.WriteString(s.Labels().String())
			it := s.Iterator()
			for it.Next() {
				t, v := it.At()
				fmt.Fprintf(&sb, " %d=%g", t, v)
			}
			sb.WriteByte('\n')
		}
		if set.Err() != nil {
			err = set.Err()
		}
	}()
	if pan != nil {
		return Resp{Status: -2, Err: fmt.Sprint("panic: ", pan)}
	}
	if err != nil {
		return Resp{Status: 500, Err: err.Error(), Text: sb.String()}
	}
	return Resp{Status: 200, Text: sb.String()}
}

// shiftWin moves a window by d nanoseconds.
func shiftWin(w Win, d int64, tag string) Win {
	return Win{Name: w.Name + tag, S: w.S + d, E: w.E + d}
}

// promSelectSeqs: several Selects on ONE Querier (what the PromQL engine does for an expression with several
// selectors / offsets): the window itself, one day earlier (the rows of class b1d and the older sample of both2d lie
// there), one day later (a1d), 31 days earlier (b1mo).
var promSelectSeqs = []struct {
	Name   string
	Shifts []int64
}{
	{"w_then_1d_earlier", []int64{0, -day}},
	{"1d_earlier_then_w", []int64{-day, 0}},
	{"w_then_1d_later_then_31d_earlier", []int64{0, day, -month}},
}

func promSelectParts(x *Exec, cluster bool, w Win, fn string, reg promRegime, shifts []int64) []Part {
	qr, err := promQuerier(x, cluster, w)
	if err != nil {
		return []Part{{Win: w, Resp: Resp{Status: -1, Err: err.Error()}}}
	}
	var parts []Part
	for _, d := range shifts {
		pw := shiftWin(w, d, fmt.Sprintf("%+dh", d/3600e9))
		x.taken()
		r := promSelectOn(qr, pw, fn, reg)
		parts = append(parts, Part{Win: pw, Resp: r, Stmts: x.taken()})
	}
	return parts
}

// union: Must / Allowed of a request that reads the window and the same window moved by each shift.
func union(f func(Win, int64) bool, shifts ...int64) func(Win, int64) bool {
	return func(w Win, ts int64) bool {
		if f(w, ts) {
			return true
		}
		for _, d := range shifts {
			if f(shiftWin(w, d, ""), ts) {
				return true
			}
		}
		return false
	}
}

// ---- tail -----------------------------------------------------------------------------------------------------

// tail is not driven by a request window: QueryRangeService.Tail reads [now-5min, now) of the process clock once
// a second.  It is checked in a separate pass (see tail.go).

func endpointNames(eps []*Endpoint) []string {
	var n []string
	for _, e := range eps {
		n = append(n, e.Name)
	}
	sort.Strings(n)
	return n
}
