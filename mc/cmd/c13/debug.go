package main

import (
	"encoding/json"
	"fmt"
	"os"
	"os/exec"
	"strings"

	"verif/mc/ev"
)

const childEnv = "VERIF_C13_CHILD"

type childSpec struct {
	Case    replayCase `json:"case"`
	Filter  string     `json:"filter"` // dump mode: substring of endpoint names
	Verbose bool       `json:"verbose"`
}

// runChild re-executes this binary with TZ = reader zone for one (window, writer zone) cell and prints what happened.
func runChild(sp childSpec) (string, error) {
	self, err := os.Executable()
	if err != nil {
		return "", err
	}
	b, _ := json.Marshal(sp)
	cmd := exec.Command(self)
	cmd.Env = append(os.Environ(), "TZ="+sp.Case.Reader, childEnv+"="+string(b))
	out, err := cmd.Output()
	return string(out), err
}

func childMain() {
	var sp childSpec
	if err := json.Unmarshal([]byte(os.Getenv(childEnv)), &sp); err != nil {
		fmt.Fprintln(os.Stderr, "bad child spec:", err)
		os.Exit(2)
	}
	w := sp.Case.Win
	classes := classesOf(w)
	var tss []int64
	for _, c := range classes {
		tss = append(tss, c.Ts)
	}
	os.Unsetenv(childEnv)
	wd, err := writerDatesFor(sp.Case.Writer, tss)
	if err != nil {
		fmt.Fprintln(os.Stderr, err)
		os.Exit(2)
	}
	cell, err := buildCell(w, wd.Zone, classes, fromWriter(wd.Series), fromWriter(wd.Tags))
	if err != nil {
		fmt.Fprintln(os.Stderr, err)
		os.Exit(2)
	}
	// the code under test prints to stdout: keep the real stdout for the report only
	report := os.Stdout
	devnull, _ := os.OpenFile(os.DevNull, os.O_WRONLY, 0)
	os.Stdout = devnull
	x := newExec()
	n := 0
	for _, ep := range endpoints() {
		if sp.Filter != "" && !strings.Contains(ep.Name, sp.Filter) {
			continue
		}
		if sp.Filter == "" && ep.Name != sp.Case.Endpoint {
			continue
		}
		if w.S%ep.Unit != 0 || w.E%ep.Unit != 0 || (ep.OnlyLookback && w.E-w.S != 300e9) {
			fmt.Fprintf(report, "== %s: window not applicable\n", ep.Name)
			continue
		}
		n++
		x.begin(cell)
		var parts []Part
		if ep.RunParts != nil {
			parts = ep.RunParts(x, sp.Case.Cluster, w)
		} else {
			r := ep.Run(x, sp.Case.Cluster, w)
			parts = []Part{{Win: w, Resp: r, Stmts: x.taken()}}
		}
		for pi, pt := range parts {
			pc := *cell
			pc.Win = pt.Win
			resp, stmts := pt.Resp, pt.Stmts
			var rerun func(Win) []StmtRec
			if ep.RunParts == nil {
				rerun = func(w2 Win) []StmtRec { x.begin(cell); ep.Run(x, sp.Case.Cluster, w2); return x.taken() }
			}
			o := judge(&pc, ep, sp.Case.Cluster, resp, stmts, rerun)
			w := pt.Win
			if len(parts) > 1 {
				fmt.Fprintf(report, "-- part %d of %d\n", pi+1, len(parts))
			}
			fmt.Fprintf(report, "== %s  reader TZ=%s writer TZ=%s cluster=%v window=%s\n", ep.Name, sp.Case.Reader, wd.Zone, sp.Case.Cluster, w)
			for i, s := range stmts {
				fmt.Fprintf(report, "  statement #%d: %s\n", i+1, s.SQL)
				if s.Err != "" {
					fmt.Fprintf(report, "    error (%s): %s\n", s.Class, s.Err)
				}
				for _, sc := range s.Scans {
					var adm []string
					for _, r := range sc.Rows {
						if it := cell.ItemOfRow(sc.Table, r); it != nil {
							adm = append(adm, it.Marker)
						}
					}
					if !sp.Verbose && len(adm) > 12 {
						adm = append(adm[:12], fmt.Sprintf("… (%d)", len(adm)))
					}
					fmt.Fprintf(report, "    scan %s: offered %d admitted %d %v\n", sc.Table, sc.Offered, sc.Admitted, adm)
				}
			}
			txt := resp.Text
			if !sp.Verbose && len(txt) > 1500 {
				txt = txt[:1500] + "…"
			}
			fmt.Fprintf(report, "  response status=%d err=%q: %s\n", resp.Status, resp.Err, txt)
			fmt.Fprintf(report, "  returned (%d of %d owed): %v\n", len(o.Returned), o.MustN, o.Returned)
			for _, u := range o.Unsupp {
				fmt.Fprintf(report, "  UNSUPPORTED by chsim: %s\n", u)
			}
			if len(o.Findings) == 0 {
				fmt.Fprintf(report, "  verdict: holds\n")
			}
			for _, f := range o.Findings {
				fmt.Fprintf(report, "  DEVIATION class=%s %s\n", f.Class, f.What)
			}
		}
	}
	if n == 0 {
		fmt.Fprintf(report, "no endpoint matches\n")
	}
	os.Exit(0)
}

// replayMain: bin/check C13 --replay f re-runs exactly that case in a subprocess with the reader's TZ.
func replayMain(r *ev.Run) {
	b, err := os.ReadFile(r.Replay)
	if err != nil {
		ev.Fatal("%v", err)
	}
	var doc struct {
		Class  string     `json:"class"`
		Replay replayCase `json:"replay"`
	}
	if err := json.Unmarshal(b, &doc); err != nil {
		ev.Fatal("replay file: %v", err)
	}
	if doc.Replay.Endpoint == "loki_tail" || doc.Replay.Endpoint == "" {
		fmt.Println("the tail pass uses the process clock: re-run the whole check to reproduce")
		os.Exit(0)
	}
	out, err := runChild(childSpec{Case: doc.Replay, Verbose: true})
	fmt.Print(out)
	if err != nil {
		ev.Fatal("replay child: %v", err)
	}
	if strings.Contains(out, "DEVIATION class="+doc.Class) {
		fmt.Printf("REPLAY: reproduced class=%s\n", doc.Class)
		os.Exit(1)
	}
	fmt.Printf("REPLAY: class=%s not reproduced\n", doc.Class)
	os.Exit(0)
}

// dumpMain: developer aid — `bin/check C13 --dump <substr>`; VERIF_C13_TZ (reader), VERIF_C13_WTZ (writer),
// VERIF_C13_WIN (window name), VERIF_C13_CLUSTER=1.
func dumpMain(filter string) {
	env := func(k, d string) string {
		if v := os.Getenv(k); v != "" {
			return v
		}
		return d
	}
	wins := windows(true)
	w := wins[0]
	for _, c := range wins {
		if c.Name == env("VERIF_C13_WIN", "AD") {
			w = c
		}
	}
	out, err := runChild(childSpec{Case: replayCase{Reader: env("VERIF_C13_TZ", "UTC"), Writer: env("VERIF_C13_WTZ", "UTC"), Win: w,
		Cluster: os.Getenv("VERIF_C13_CLUSTER") != ""}, Filter: filter, Verbose: os.Getenv("VERIF_C13_VERBOSE") != ""})
	fmt.Print(out)
	if err != nil {
		ev.Fatal("dump child: %v", err)
	}
	os.Exit(0)
}
