package main

// Writer side of C13: how the *writer* process dates the index rows it sends to ClickHouse.
//
// The dates are taken from the real writer code path, in a subprocess whose TZ is the writer's zone:
//
//	time_series.date            Loki JSON push -> unmarshal.DecodePushRequestStringV2 (builder.go onEntries fills
//	                            TimeSeriesData.MDate) -> service.DateAppender.AppendArr -> proto.ColDate (day number),
//	                            i.e. the column bytes the time_series INSERT carries;
//	tempo_traces_attrs_gin.date Zipkin JSON push -> unmarshal.UnmarshalZipkinJSONV2 (builder.go onSpan fills
//	                            TempoTag.MDate) -> service.DateAppender.AppendArr -> proto.ColDate.
//
// time_series_gin, tempo_traces_kv copy the date through materialized views; the profiles_* index tables are dated
// by ClickHouse itself (toDate(intDiv(timestamp_ns, 1e9)) in the materialized views of profiles.sql), i.e. in the
// *server's* zone, which is assumed to be UTC.

import (
	"bytes"
	"context"
	"encoding/json"
	"fmt"
	"io"
	"os"
	"os/exec"
	"strings"

	"github.com/ClickHouse/ch-go/proto"
	clconfig "github.com/metrico/cloki-config"
	"github.com/metrico/qryn/writer/config"
	"github.com/metrico/qryn/writer/model"
	"github.com/metrico/qryn/writer/service"
	"github.com/metrico/qryn/writer/utils/logger"
	"github.com/metrico/qryn/writer/utils/numbercache"
	"github.com/metrico/qryn/writer/utils/unmarshal"
)

// WriterDates maps a sample / span timestamp (ns, as decimal string: JSON object keys) to the day numbers
// (days since 1970-01-01) the writer stores.
type WriterDates struct {
	Zone   string           `json:"zone"`
	Series map[string]int64 `json:"series"` // time_series.date
	Tags   map[string]int64 `json:"tags"`   // tempo_traces_attrs_gin.date
}

type neverSeen struct{}

func (neverSeen) CheckAndSet(uint64) bool                { return false }
func (n neverSeen) DB(string) numbercache.ICache[uint64] { return n }

func initWriterGlobals() {
	config.Cloki = clconfig.New(clconfig.CLOKI_WRITER, nil, "", "")
	logger.Logger.SetOutput(io.Discard)
}

// seriesDayReal pushes one log line at ts through the real Loki JSON parser and the real date column adaptor.
func seriesDayReal(ts int64) (int64, error) {
	body := fmt.Sprintf(`{"streams":[{"stream":{"job":"c13"},"values":[["%d","l"]]}]}`, ts)
	ch := unmarshal.DecodePushRequestStringV2(context.Background(), strings.NewReader(body), neverSeen{})
	var days []int64
	for r := range ch {
		if r.Error != nil {
			return 0, r.Error
		}
		if r.TimeSeriesRequest == nil {
			continue
		}
		d, ok := r.TimeSeriesRequest.(*model.TimeSeriesData)
		if !ok {
			return 0, fmt.Errorf("unexpected series request %T", r.TimeSeriesRequest)
		}
		var col proto.ColDate
		(&service.DateAppender{D: &col}).AppendArr(d.MDate)
		for _, v := range col {
			days = append(days, int64(v))
		}
	}
	if len(days) != 1 {
		return 0, fmt.Errorf("expected one series row for one sample, got %d", len(days))
	}
	return days[0], nil
}

// tagDayReal pushes one span with one tag at ts through the real Zipkin JSON parser and the date column adaptor.
func tagDayReal(ts int64) (int64, error) {
	body := fmt.Sprintf(`[{"traceId":"000000000000000000000000000000aa","id":"00000000000000aa","name":"n","timestamp":%d,"duration":1,"tags":{"job":"c13"}}]`,
		floorDiv(ts, 1000))
	ch := unmarshal.UnmarshalZipkinJSONV2(context.Background(), bytes.NewReader([]byte(body)), neverSeen{})
	day := int64(-1)
	for r := range ch {
		if r.Error != nil {
			return 0, r.Error
		}
		if r.SpansAttrsRequest == nil {
			continue
		}
		d, ok := r.SpansAttrsRequest.(*model.TempoTag)
		if !ok {
			return 0, fmt.Errorf("unexpected tags request %T", r.SpansAttrsRequest)
		}
		var col proto.ColDate
		(&service.DateAppender{D: &col}).AppendArr(d.MDate)
		for i, v := range col {
			if day >= 0 && int64(v) != day {
				return 0, fmt.Errorf("tag rows of one span dated differently")
			}
			if floorDiv(d.MTimestampNs[i], 1e9) != floorDiv(ts, 1e9) {
				return 0, fmt.Errorf("span timestamp %d decoded as %d", ts, d.MTimestampNs[i])
			}
			day = int64(v)
		}
	}
	if day < 0 {
		return 0, fmt.Errorf("no tag row for the span")
	}
	return day, nil
}

// writerMain: stdin = JSON array of timestamps, stdout = WriterDates.
func writerMain() {
	initWriterGlobals()
	var tss []int64
	if err := json.NewDecoder(os.Stdin).Decode(&tss); err != nil {
		fmt.Fprintln(os.Stderr, "writer: bad input:", err)
		os.Exit(2)
	}
	out := WriterDates{Zone: os.Getenv("TZ"), Series: map[string]int64{}, Tags: map[string]int64{}}
	for _, ts := range tss {
		d, err := seriesDayReal(ts)
		if err != nil {
			fmt.Fprintln(os.Stderr, "writer: series date:", err)
			os.Exit(2)
		}
		g, err := tagDayReal(ts)
		if err != nil {
			fmt.Fprintln(os.Stderr, "writer: tag date:", err)
			os.Exit(2)
		}
		k := fmt.Sprint(ts)
		out.Series[k], out.Tags[k] = d, g
	}
	json.NewEncoder(os.Stdout).Encode(out)
}

// writerDatesFor runs a writer subprocess with TZ=zone.
func writerDatesFor(zone string, tss []int64) (*WriterDates, error) {
	self, err := os.Executable()
	if err != nil {
		return nil, err
	}
	in, _ := json.Marshal(tss)
	cmd := exec.Command(self, "-role", "writer")
	cmd.Env = append(os.Environ(), "TZ="+zone)
	cmd.Stdin = bytes.NewReader(in)
	var stdout, stderr bytes.Buffer
	cmd.Stdout, cmd.Stderr = &stdout, &stderr
	if err := cmd.Run(); err != nil {
		return nil, fmt.Errorf("writer worker TZ=%s: %v: %s", zone, err, stderr.String())
	}
	var wd WriterDates
	// the writer code may print to stdout; the result is the last line
	lines := strings.Split(strings.TrimSpace(stdout.String()), "\n")
	if err := json.Unmarshal([]byte(lines[len(lines)-1]), &wd); err != nil {
		return nil, fmt.Errorf("writer worker TZ=%s: bad output: %v", zone, err)
	}
	uniq := map[int64]bool{}
	for _, t := range tss {
		uniq[t] = true
	}
	if len(wd.Series) != len(uniq) || len(wd.Tags) != len(uniq) {
		return nil, fmt.Errorf("writer worker TZ=%s: %d dates for %d timestamps", zone, len(wd.Series), len(uniq))
	}
	return &wd, nil
}
