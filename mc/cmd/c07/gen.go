package main

import (
	"regexp/syntax"
)

// regexLiteral reports whether the pattern is one plain literal (possibly case-folded), the way the planner
// decides to render a regex line filter as LIKE.
func regexLiteral(p string) (string, bool, bool) {
	exp, err := syntax.Parse(p, syntax.PerlX)
	if err != nil {
		return "", false, false
	}
	if exp.Op != syntax.OpLiteral || exp.Flags&^(syntax.PerlX|syntax.FoldCase) != 0 {
		return "", false, false
	}
	return string(exp.Rune), exp.Flags&syntax.FoldCase != 0, true
}

// ---------------------------------------------------------------------------------------------------------
// alphabets

// hostile literal alphabet (DESIGN §2 C07): plain, regex metacharacter, LIKE metacharacters, quotes, backslashes
var litAlphabet = []string{`a`, `a.b`, `%`, `_`, `'`, `a'`, `\`, `\\`, `"`, `(`}

// regexes for line filters (valid RE2; some are plain literals and take the LIKE path in the planner)
var lineRegexes = []string{``, `a`, `a.b`, `a\.b`, `^a`, `b$`, `%`, `_`, `'`, `\\`, `\(`, `"`, `(?i)A`, `(?i)A.B`, `x|%`, `a'`, `z.*z`}

// label values used by the hostile stream family
var hostileLabelValues = []string{`a.b`, `%`, `_`, `'`, `a'`, `\`, `\\`, `"`, `(`}

func sp(s string) *string { return &s }

func leafS(l, op, v string) *Tree { return &Tree{Leaf: &Leaf{Label: l, Op: op, Str: v}} }
func leafN(l, op, n string) *Tree { return &Tree{Leaf: &Leaf{Label: l, Op: op, Num: n}} }
func and(a, b *Tree) *Tree        { return &Tree{Op: "and", L: a, R: b} }
func or(a, b *Tree) *Tree         { return &Tree{Op: "or", L: a, R: b} }

type genConfig struct {
	thorough bool
}

// matcherAtoms: every single matcher of the grammar.
func matcherAtoms(core bool) []Matcher {
	var out []Matcher
	if core {
		return []Matcher{
			{"a", "=", "x"}, {"a", "!=", "x"}, {"a", "=~", "x|y"}, {"a", "!~", "x"}, {"a", "=~", ".+"},
			{"b", "=", "x"}, {"b", "!=", "x"}, {"b", "=~", "x|1"}, {"b", "!~", "1"}, {"b", "!=", "zz"},
			{"a", "=", `a'`}, {"a", "=~", `\\`},
		}
	}
	for _, op := range []string{"=", "!="} {
		out = append(out, Matcher{"a", op, "x"})
		for _, h := range hostileLabelValues {
			out = append(out, Matcher{"a", op, h})
		}
		out = append(out, Matcher{"b", op, "x"}, Matcher{"b", op, "1"}, Matcher{"b", op, "zz"})
	}
	for _, op := range []string{"=~", "!~"} {
		for _, r := range []string{`x`, `x|y`, `.`, `.+`, `a.b`, `a\.b`, `^a`, `\\`, `'`, `%`, `\(`, `"`, `_`} {
			out = append(out, Matcher{"a", op, r})
		}
		out = append(out, Matcher{"b", op, "x|1"}, Matcher{"b", op, "^$"})
	}
	return out
}

func lineFilterAtoms(core bool) []Stage {
	var out []Stage
	if core {
		for _, s := range [][2]string{{"|=", "a"}, {"!=", "a"}, {"|=", `\`}, {"!=", `'`}, {"|=", "%"}, {"|~", "a.b"}, {"!~", "a.b"}, {"|~", `\\`}, {"!~", "a"}, {"|~", "(?i)A"}, {"|=", `a'`}, {"!~", `^a`}} {
			out = append(out, Stage{Kind: "line", Op: s[0], Val: s[1]})
		}
		return out
	}
	for _, op := range []string{"|=", "!="} {
		for _, v := range litAlphabet {
			out = append(out, Stage{Kind: "line", Op: op, Val: v})
		}
		out = append(out, Stage{Kind: "line", Op: op, Val: "ab"}, Stage{Kind: "line", Op: op, Val: `'a`}, Stage{Kind: "line", Op: op, Val: `a\`}, Stage{Kind: "line", Op: op, Val: `''`},
			Stage{Kind: "line", Op: op, Val: ""}, Stage{Kind: "line", Op: op, Val: `%a`}, Stage{Kind: "line", Op: op, Val: `A.B`})
	}
	for _, op := range []string{"|~", "!~"} {
		for _, v := range lineRegexes {
			out = append(out, Stage{Kind: "line", Op: op, Val: v})
		}
	}
	return out
}

func jsonAtoms() []Stage {
	return []Stage{
		{Kind: "json", JSON: []JSONParam{{"p", "k"}}},
		{Kind: "json", JSON: []JSONParam{{"p", "n.m"}}},
		{Kind: "json", JSON: []JSONParam{{"p", "l[0]"}}},
		{Kind: "json", JSON: []JSONParam{{"p", "i"}}},
		{Kind: "json", JSON: []JSONParam{{"p", "n"}}},
		{Kind: "json", JSON: []JSONParam{{"p", `["k"]`}}},
		{Kind: "json", JSON: []JSONParam{{"p", "k"}, {"q", "i"}}},
		{Kind: "json", JSON: []JSONParam{{"p", "zz"}}},
	}
}

func regexpAtoms() []Stage {
	return []Stage{
		{Kind: "regexp", Val: `k=(?P<p>\w+)`},
		{Kind: "regexp", Val: `(?P<p>[a-z])=(?P<q>\d)`},
		{Kind: "regexp", Val: `(?P<p>k=(\w))`},
		{Kind: "regexp", Val: `(?P<p>a')`},
		{Kind: "regexp", Val: `^(?P<p>[a-z]+)\.(?P<q>b)$`},
	}
}

func dropAtoms() []Stage {
	return []Stage{
		{Kind: "drop", Drops: []DropParam{{Label: "a"}}},
		{Kind: "drop", Drops: []DropParam{{Label: "a"}, {Label: "b"}}},
		{Kind: "drop", Drops: []DropParam{{Label: "a", Val: sp("x")}}},
		{Kind: "drop", Drops: []DropParam{{Label: "b", Val: sp("1")}, {Label: "a", Val: sp(`a'`)}}},
		{Kind: "drop", Drops: []DropParam{{Label: "p"}}},
	}
}

// leaves over stored labels (usable before any parser stage)
func storedLeaves(core bool) []*Tree {
	out := []*Tree{
		leafS("a", "=", "x"), leafS("a", "!=", "x"), leafS("a", "=~", "x|y"), leafS("a", "!~", "x"),
		leafN("b", ">", "0"), leafN("b", "==", "1"), leafN("b", "!=", "1"), leafS("b", "=", ""),
	}
	if core {
		return out
	}
	out = append(out, leafN("b", "<=", "1"), leafN("b", ">=", "1.5"), leafN("b", ">=", "1"), leafN("b", ">", "1"), leafN("b", "<", "1"), leafN("b", "<", "2"), leafS("b", "!=", ""), leafS("c", "=", "x"), leafS("c", "!=", "x"),
		leafS("a", "=~", `\\`), leafS("a", "!~", `^a`))
	for _, h := range []string{`a'`, `\`, `"`, `%`, `'`, `a.b`} {
		out = append(out, leafS("a", "=", h), leafS("a", "!=", h))
	}
	return out
}

// leaves over extracted labels p, q (after json / regexp)
func extractedLeaves(core bool) []*Tree {
	out := []*Tree{
		leafS("p", "=", "x"), leafS("p", "!=", "x"), leafS("p", "=~", "x|y"), leafS("p", "!=", ""), leafN("p", ">", "0"), leafN("q", "==", "5"),
		leafS("a", "=", "x"),
	}
	if core {
		return out
	}
	out = append(out, leafS("p", "!~", "^x"), leafN("p", "<=", "1"), leafN("p", "!=", "1"), leafN("q", ">=", "1"), leafS("q", "=", "5"), leafS("p", "=", `a'`),
		leafS("p", "=", `{"m":"y"}`), leafS("p", "=", "u"), leafN("b", ">", "0"))
	return out
}

func treesOver(leaves []*Tree, maxLeaves int, tripleBase []*Tree) []*Tree {
	var out []*Tree
	out = append(out, leaves...)
	if maxLeaves >= 2 {
		for _, l := range leaves {
			for _, r := range leaves {
				out = append(out, and(l, r), or(l, r))
			}
		}
	}
	if maxLeaves >= 3 {
		for _, x := range tripleBase {
			for _, y := range tripleBase {
				for _, z := range tripleBase {
					out = append(out, or(and(x, y), z), and(x, or(y, z)), and(x, and(y, z)), or(x, or(y, z)), and(or(x, y), z), or(x, and(y, z)))
				}
			}
		}
	}
	return out
}

func labelStages(trees []*Tree) []Stage {
	out := make([]Stage, len(trees))
	for i, t := range trees {
		out[i] = Stage{Kind: "label", Tree: t}
	}
	return out
}

// enumerateQueries lists the bounded grammar by size.  Every list below is a full product of the named atom sets;
// nothing is sampled.
func enumerateQueries(cfg genConfig) []*Query {
	var out []*Query
	add := func(ms []Matcher, st ...Stage) {
		out = append(out, &Query{Matchers: append([]Matcher{}, ms...), Stages: append([]Stage{}, st...)})
	}
	all := []Matcher{{"a", "=~", ".+"}}  // every stream that has label a (families A and H)
	allB := []Matcher{{"b", "!=", "zz"}} // by a negative matcher on b

	// 1. selectors alone
	atoms := matcherAtoms(false)
	for _, m := range atoms {
		add([]Matcher{m})
	}
	pairAtoms := matcherAtoms(true)
	if cfg.thorough {
		pairAtoms = atoms
	}
	for _, m1 := range pairAtoms {
		for _, m2 := range pairAtoms {
			add([]Matcher{m1, m2})
		}
	}

	// 2. one pipeline stage
	lfs := lineFilterAtoms(false)
	for _, s := range lfs {
		add(all, s)
		t := s
		t.Ticked = true
		add(all, t) // same literal written as a `raw string`
	}
	for _, s := range lineFilterAtoms(true) {
		add(allB, s)
	}
	for _, s := range jsonAtoms() {
		add(all, s)
	}
	for _, s := range regexpAtoms() {
		add(all, s)
	}
	for _, s := range dropAtoms() {
		add(all, s)
	}
	triple := storedLeaves(true)[:4]
	if cfg.thorough {
		triple = storedLeaves(true)
	}
	stored := labelStages(treesOver(storedLeaves(false), 2, nil))
	stored = append(stored, labelStages(treesOver(nil, 3, triple))...)
	for _, s := range stored {
		add(all, s)
	}

	// 3. two stages
	coreLF := lineFilterAtoms(true)
	lf2 := coreLF
	if cfg.thorough {
		lf2 = lfs
	}
	for _, s1 := range lf2 {
		for _, s2 := range lf2 {
			add(all, s1, s2)
		}
	}
	coreStored := labelStages(treesOver(storedLeaves(true), 1, nil))
	if cfg.thorough {
		coreStored = labelStages(treesOver(storedLeaves(true), 2, nil))
	}
	for _, lf := range coreLF {
		for _, ls := range coreStored {
			add(all, lf, ls)
			add(all, ls, lf)
		}
	}
	for _, l1 := range coreStored {
		for _, l2 := range coreStored {
			add(all, l1, l2)
		}
	}
	extracted := labelStages(treesOver(extractedLeaves(false), 1, nil))
	ext2 := labelStages(treesOver(extractedLeaves(true), 2, nil))
	parsers := append(jsonAtoms(), regexpAtoms()...)
	for _, ps := range parsers {
		for _, ls := range extracted {
			add(all, ps, ls)
		}
		ex := ext2
		if !cfg.thorough {
			ex = ext2[:len(extractedLeaves(true))+40]
		}
		for _, ls := range ex {
			add(all, ps, ls)
		}
		for _, lf := range coreLF {
			add(all, lf, ps)
			add(all, ps, lf)
		}
		for _, d := range dropAtoms() {
			add(all, ps, d)
			add(all, d, ps)
		}
		for _, ls := range coreStored {
			add(all, ls, ps)
		}
	}
	for _, d := range dropAtoms() {
		for _, ls := range coreStored {
			add(all, d, ls)
			add(all, ls, d)
		}
		for _, lf := range coreLF {
			add(all, d, lf)
			add(all, lf, d)
		}
		for _, d2 := range dropAtoms() {
			add(all, d, d2)
		}
	}
	for _, p1 := range parsers {
		for _, p2 := range parsers {
			add(all, p1, p2)
		}
	}

	// 4. three stages (thorough): parser, filter on the extracted label, then another stage of each kind
	if cfg.thorough {
		tails := append(append(append([]Stage{}, coreLF...), dropAtoms()...), labelStages(treesOver(extractedLeaves(true), 1, nil))...)
		for _, ps := range parsers {
			for _, ls := range labelStages(treesOver(extractedLeaves(true), 1, nil)) {
				for _, t := range tails {
					add(all, ps, ls, t)
				}
			}
			for _, lf := range coreLF {
				for _, ls := range labelStages(treesOver(extractedLeaves(true), 1, nil)) {
					add(all, lf, ps, ls)
				}
			}
		}
	}

	// stream-label filter, extraction, filter on the extracted label (both tiers; the thorough tier takes more leaves)
	{
		pre := labelStages(treesOver(storedLeaves(true), 1, nil))
		post := labelStages(treesOver(extractedLeaves(true), 1, nil))
		prs := []Stage{jsonAtoms()[0], regexpAtoms()[0]}
		if cfg.thorough {
			prs = parsers
			post = labelStages(treesOver(extractedLeaves(false), 1, nil))
		} else {
			pre = pre[:5]
		}
		for _, l1 := range pre {
			for _, ps := range prs {
				for _, l2 := range post {
					add(all, l1, ps, l2)
				}
			}
		}
	}
	// a line filter at every position (before, between, after) relative to every ordered pair of drop /
	// json-with-parameters / regexp / label filter stages (both tiers)
	{
		others := []Stage{dropAtoms()[0], dropAtoms()[4], jsonAtoms()[0], regexpAtoms()[0], {Kind: "label", Tree: leafS("b", "!=", "zz")}, {Kind: "label", Tree: leafS("p", "!=", "zz")}}
		lfs3 := []Stage{{Kind: "line", Op: "|=", Val: "a"}, {Kind: "line", Op: "!~", Val: "a.b"}}
		if cfg.thorough {
			lfs3 = coreLF
		}
		for _, x := range others {
			for _, lf := range lfs3 {
				add(all, lf, x)
				add(all, x, lf)
				for _, y := range others {
					add(all, lf, x, y)
					add(all, x, lf, y)
					add(all, x, y, lf)
				}
			}
		}
	}

	// parser (or drop), label filter, then a parser that extracts the label the filter reads (both tiers)
	{
		heads := []Stage{jsonAtoms()[0], regexpAtoms()[0], dropAtoms()[1]}
		filters := []*Tree{leafN("q", "==", "5"), leafS("q", "=", ""), leafS("q", "!=", "5"), leafS("p", "=", "x"), leafN("p", ">", "0")}
		later := []Stage{{Kind: "json", JSON: []JSONParam{{"q", "i"}}}, jsonAtoms()[6], jsonAtoms()[3], regexpAtoms()[1]}
		if cfg.thorough {
			heads = append(append([]Stage{}, parsers...), dropAtoms()...)
			filters = append(filters, extractedLeaves(false)...)
		}
		for _, h := range heads {
			for _, f := range filters {
				for _, l := range later {
					add(all, h, Stage{Kind: "label", Tree: f}, l)
				}
			}
		}
	}
	if !cfg.thorough {
		// quick tier: the three-stage shape parser, label filter, drop (a drop after a filter on the same SELECT)
		for _, ps := range []Stage{jsonAtoms()[0], regexpAtoms()[0]} {
			for _, ls := range labelStages(treesOver(extractedLeaves(true), 1, nil)) {
				for _, d := range dropAtoms() {
					add(all, ps, ls, d)
				}
			}
		}
	}

	// 5. selector variety in front of pipelines: every core matcher with a core stage of each kind
	heads := []Stage{coreLF[0], coreLF[6], jsonAtoms()[0], regexpAtoms()[0], dropAtoms()[0], coreStored[0], coreStored[4]}
	for _, m := range matcherAtoms(true) {
		for _, h := range heads {
			add([]Matcher{m}, h)
		}
	}
	return out
}

// limitQueries: the shapes exercised against every small database with every limit and direction: the LIMIT has to
// sit after the last filtering stage of each shape.
func limitQueries() []*Query {
	var out []*Query
	add := func(ms []Matcher, st ...Stage) {
		out = append(out, &Query{Matchers: ms, Stages: st})
	}
	all := []Matcher{{"a", "=~", ".+"}}
	add(all)
	add([]Matcher{{"a", "=", "x"}})
	add(all, Stage{Kind: "line", Op: "|=", Val: "k"})
	add(all, Stage{Kind: "line", Op: "!~", Val: "k.x"})
	add(all, Stage{Kind: "label", Tree: leafS("b", "=", "1")})
	add(all, Stage{Kind: "label", Tree: leafS("b", "=", "1")}, Stage{Kind: "line", Op: "|=", Val: "k"})
	add(all, jsonAtoms()[0])
	add(all, jsonAtoms()[0], Stage{Kind: "label", Tree: leafS("p", "=", "x")})
	add(all, jsonAtoms()[0], Stage{Kind: "label", Tree: leafS("p", "=", "x")}, Stage{Kind: "line", Op: "|=", Val: "i"})
	add(all, Stage{Kind: "line", Op: "|=", Val: "k"}, jsonAtoms()[0], Stage{Kind: "label", Tree: leafS("p", "!=", "x")})
	add(all, regexpAtoms()[0], Stage{Kind: "label", Tree: leafS("p", "=", "x")})
	add(all, dropAtoms()[0])
	add(all, dropAtoms()[0], Stage{Kind: "label", Tree: leafS("b", "=", "1")})
	add(all, jsonAtoms()[0], dropAtoms()[4], Stage{Kind: "line", Op: "|=", Val: "k"})
	return out
}

// chainQueries: unparenthesised and/or chains of 3 (thorough: also 4) comparisons, every operator combination, on
// the stored-label path (filter before any parser: SimpleLabelFilterPlanner), on the path after a parser
// (LabelFilterPlanner over the labels map) and after a drop; string and numeric leaves; every order of the leaves.
func chainQueries(cfg genConfig) []*Query {
	var out []*Query
	all := []Matcher{{"a", "=~", ".+"}}
	pre := []*Tree{leafS("a", "=", "x"), leafS("b", "!=", "y"), leafN("c", "==", "1")}
	post := []*Tree{leafS("p", "=", "x"), leafN("q", "==", "5"), leafS("a", "=", "x")}
	jsonPQ := Stage{Kind: "json", JSON: []JSONParam{{"p", "k"}, {"q", "i"}}}
	opsets := func(n int) [][]string {
		res := [][]string{{}}
		for i := 0; i < n; i++ {
			var nx [][]string
			for _, r := range res {
				nx = append(nx, append(append([]string{}, r...), "and"), append(append([]string{}, r...), "or"))
			}
			res = nx
		}
		return res
	}
	var perms func(pool []*Tree, k int) [][]*Tree
	perms = func(pool []*Tree, k int) [][]*Tree {
		if k == 0 {
			return [][]*Tree{{}}
		}
		var res [][]*Tree
		for i := range pool {
			rest := append(append([]*Tree{}, pool[:i]...), pool[i+1:]...)
			for _, p := range perms(rest, k-1) {
				res = append(res, append([]*Tree{pool[i]}, p...))
			}
		}
		return res
	}
	emit := func(pool []*Tree, k int, wrap func(Stage) []Stage) {
		for _, leaves := range perms(pool, k) {
			for _, ops := range opsets(k - 1) {
				out = append(out, &Query{Matchers: all, Stages: wrap(chainStage(leaves, ops...))})
			}
		}
	}
	emit(pre, 3, func(c Stage) []Stage { return []Stage{c} })
	emit(post, 3, func(c Stage) []Stage { return []Stage{jsonPQ, c} })
	emit(pre, 3, func(c Stage) []Stage { return []Stage{{Kind: "drop", Drops: []DropParam{{Label: "zz"}}}, c} })
	if cfg.thorough {
		pre4 := append(append([]*Tree{}, pre...), leafS("b", "=~", "x"))
		post4 := append(append([]*Tree{}, post...), leafN("c", ">", "1"))
		emit(pre4, 4, func(c Stage) []Stage { return []Stage{c} })
		emit(post4, 4, func(c Stage) []Stage { return []Stage{jsonPQ, c} })
		emit(post, 3, func(c Stage) []Stage { return []Stage{regexpAtoms()[0], c} })
	}
	return out
}
