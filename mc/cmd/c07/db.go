package main

import (
	"fmt"
	"sort"
	"time"

	"verif/mc/chsim"
)

// T0 is 2024-03-01T10:00:00Z in ns; all windows sit inside this day so the date bound of the label index
// (`date >= from - 30min`) is satisfied by series rows dated 2024-03-01.
const T0 = int64(1709287200000000000)
const day = "2024-03-01"

// build registers the model in a chsim database: time_series + samples_v3 rows exactly as the writer stores them
// (labels as a JSON document with sorted keys, type on both tables), then derives time_series_gin with the
// materialized view from the schema file.
func (d *Database) build() {
	db := chsim.NewDB()
	var ts, samples [][]chsim.Value
	for _, s := range d.Streams {
		ts = append(ts, []chsim.Value{day, s.FP, chsim.LabelsJSON(s.Labels), "", s.Type})
	}
	for _, e := range d.Entries {
		s := d.Streams[e.Stream]
		samples = append(samples, []chsim.Value{s.FP, e.TS, float64(0), e.Line, s.Type})
	}
	db.AddQrynTable("time_series", ts)
	db.AddQrynTable("samples_v3", samples)
	if err := db.Materialize("time_series_gin_view"); err != nil {
		panic(err)
	}
	for _, n := range []string{"time_series", "samples_v3", "time_series_gin"} {
		db.Alias(n, n+"_dist")
	}
	d.ch = db
}

// universalLines: every literal of the hostile alphabet alone and embedded, decoys that a wrong LIKE/regex
// translation would confuse them with, JSON documents and key=value lines for the parser stages.
func universalLines() []string {
	var lines []string
	for _, l := range litAlphabet {
		lines = append(lines, l, "z"+l+"z")
	}
	lines = append(lines,
		`ab`, `a%`, `z%`, `azb`, `A.B`, `'a`, `a\`, `''`, `x`, `%a`,
		`{"k":"x","n":{"m":"y"},"i":5,"l":["u","v"]}`,
		`{"k":"1","m":"top","1":"one","0":"zero"}`,
		`{"k":"a'","i":0,"n":{"m":"x","z":1}}`,
		`{"k":{"m":"y"},"l":[]}`,
		`not json {`,
		`k=x n=1`,
		`k=y`,
		`x=5 `,
	)
	return lines
}

// universalDB: stream family A = every combination of a ∈ {x, y, absent} and b ∈ {x, 1, absent} (except no label
// at all), family H = a stream per hostile label value, one metric-type stream and one both-type stream; every
// family-A stream carries every line, the others three lines; window-edge entries on the first stream.
func universalDB(start, end int64) *Database {
	d := &Database{Name: "universal"}
	fp := uint64(1000)
	addStream := func(labels map[string]string, typ int) int {
		fp++
		d.Streams = append(d.Streams, Stream{Labels: labels, Type: typ, FP: fp})
		return len(d.Streams) - 1
	}
	var famA []int
	for _, a := range []string{"x", "y", ""} {
		for _, b := range []string{"x", "1", ""} {
			l := map[string]string{}
			if a != "" {
				l["a"] = a
			}
			if b != "" {
				l["b"] = b
			}
			if len(l) == 0 {
				continue
			}
			famA = append(famA, addStream(l, 1))
		}
	}
	var famH []int
	for _, h := range hostileLabelValues {
		famH = append(famH, addStream(map[string]string{"a": h}, 1))
	}
	metric := addStream(map[string]string{"a": "x", "b": "m"}, 2)
	both := addStream(map[string]string{"a": "y", "b": "z"}, 0)

	lines := universalLines()
	ts := start + 10
	next := func() int64 { ts += 7; return ts }
	for _, s := range famA {
		for _, l := range lines {
			d.Entries = append(d.Entries, Entry{Stream: s, TS: next(), Line: l})
		}
	}
	for i, s := range append(append([]int{}, famH...), metric, both) {
		for j := 0; j < 3; j++ {
			d.Entries = append(d.Entries, Entry{Stream: s, TS: next(), Line: lines[(i*3+j*11)%len(lines)]})
		}
	}
	if ts >= end-10 {
		panic(fmt.Sprintf("window too small for the universal database: %d entries", len(d.Entries)))
	}
	// interleave in time: the k-th (stream, line) pair gets the timestamp slot k*stride mod N (stride coprime to N), so
	// that for every predicate on the stream, on the line or on an extracted label, passing and failing entries
	// alternate along the time axis (failing ones newer AND older than passing ones) — what LIMIT/direction needs
	n := len(d.Entries)
	stride := 37
	for gcd(stride, n) != 1 {
		stride++
	}
	slots := make([]int64, n)
	for k := range d.Entries {
		slots[k] = d.Entries[k].TS
	}
	for k := range d.Entries {
		d.Entries[k].TS = slots[(k*stride)%n]
	}
	// window edges: one tick before start, at start, last tick before end, at end, one after
	for _, s := range []int{famA[0], both, metric} {
		for _, t := range []int64{start - 1, start, end - 1, end, end + 1} {
			d.Entries = append(d.Entries, Entry{Stream: s, TS: t, Line: fmt.Sprintf("edge a %d", t-start)})
		}
	}
	d.build()
	return d
}

// smallDBs: every sub-database of ≤ 3 rows of a 6-row pool (two streams, ties on the timestamp, lines that pass or
// fail the filters of limitQueries) — for limit and direction.
func smallDBs(start int64) []*Database {
	type poolRow struct {
		stream int
		ts     int64
		line   string
	}
	pool := []poolRow{
		{0, start + 100, `{"k":"x","i":1}`},
		{0, start + 200, `{"k":"y","i":2}`},
		{1, start + 200, `{"k":"x","i":3}`},
		{1, start + 300, `plain`},
		{0, start + 300, `{"k":"x","i":4}`},
		{1, start + 400, `{"k":"x","i":5}`},
	}
	streams := []Stream{
		{Labels: map[string]string{"a": "x", "b": "1"}, Type: 1, FP: 7},
		{Labels: map[string]string{"a": "y"}, Type: 1, FP: 3},
	}
	var out []*Database
	n := len(pool)
	for mask := 1; mask < 1<<n; mask++ {
		cnt := 0
		for i := 0; i < n; i++ {
			if mask&(1<<i) != 0 {
				cnt++
			}
		}
		if cnt > 3 {
			continue
		}
		d := &Database{Name: fmt.Sprintf("small-%02x", mask), Streams: streams}
		for i := 0; i < n; i++ {
			if mask&(1<<i) != 0 {
				d.Entries = append(d.Entries, Entry{Stream: pool[i].stream, TS: pool[i].ts, Line: pool[i].line})
			}
		}
		d.build()
		out = append(out, d)
	}
	// and the full pool
	d := &Database{Name: "small-all", Streams: streams}
	for _, p := range pool {
		d.Entries = append(d.Entries, Entry{Stream: p.stream, TS: p.ts, Line: p.line})
	}
	d.build()
	out = append(out, d)
	sort.Slice(out, func(i, j int) bool { return out[i].Name < out[j].Name })
	return out
}

func nsTime(ns int64) time.Time { return time.Unix(0, ns).UTC() }

func gcd(a, b int) int {
	for b != 0 {
		a, b = b, a%b
	}
	return a
}

// truthDB: streams with every combination of a, b ∈ {x, y} and c ∈ {1, 2}; every stream carries JSON lines with every
// combination of k ∈ {x, y} and i ∈ {5, 0} plus a non-JSON line: all 8 truth assignments of three independent
// comparisons exist for stored labels (a, b, c), for extracted ones (p, q) with a stored one, and mixtures.
func truthDB(start, end int64) *Database {
	d := &Database{Name: "truth"}
	fp := uint64(5000)
	for _, a := range []string{"x", "y"} {
		for _, b := range []string{"x", "y"} {
			for _, c := range []string{"1", "2"} {
				fp++
				d.Streams = append(d.Streams, Stream{Labels: map[string]string{"a": a, "b": b, "c": c}, Type: 1, FP: fp})
			}
		}
	}
	lines := []string{`{"k":"x","i":5}`, `{"k":"x","i":0}`, `{"k":"y","i":5}`, `{"k":"y","i":0}`, `plain`}
	ts := start + 100
	for li, l := range lines {
		for s := range d.Streams {
			ts += 11
			d.Entries = append(d.Entries, Entry{Stream: (s*3 + li) % len(d.Streams), TS: ts, Line: l})
		}
	}
	d.build()
	return d
}
