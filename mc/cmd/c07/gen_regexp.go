package main

import (
	"fmt"
	"regexp"
	"sort"
	"strings"
)

// The `| regexp` parameter ranges over group STRUCTURES: every ordered forest of at most maxGroups groups with nesting
// depth <= 3, every node being a named group (?P<pN>…), an unnamed capture group (…) or a non-capturing group (?:…),
// in every sibling order.  The text a structure matches depends only on its shape (not on the kinds), so there is
// one small database per shape and variant.
//
// Reference semantics: RE2 named-group extraction, groups numbered by opening parenthesis (unnamed ones count,
// non-capturing ones do not) — what Go's regexp.SubexpNames/FindStringSubmatch give.

type gnode struct {
	kind byte // 'N' named, 'U' unnamed capturing, 'C' non-capturing
	id   int  // preorder index, 1-based (also the digit in the token the group matches and in its label name)
	kids []*gnode
}

// forest shapes as nested child-count structures, enumerated recursively
func forests(n, depth int) [][]*gnode {
	if n == 0 {
		return [][]*gnode{{}}
	}
	if depth == 0 {
		return nil
	}
	var out [][]*gnode
	// first tree takes k nodes (1 root + k-1 below), the rest of the forest takes n-k
	for k := 1; k <= n; k++ {
		for _, kids := range forests(k-1, depth-1) {
			for _, rest := range forests(n-k, depth) {
				root := &gnode{kids: cloneForest(kids)}
				out = append(out, append([]*gnode{root}, cloneForest(rest)...))
			}
		}
	}
	return out
}

func cloneForest(f []*gnode) []*gnode {
	out := make([]*gnode, len(f))
	for i, n := range f {
		out[i] = &gnode{kind: n.kind, id: n.id, kids: cloneForest(n.kids)}
	}
	return out
}

func preorder(f []*gnode) []*gnode {
	var out []*gnode
	var walk func(n *gnode)
	walk = func(n *gnode) {
		out = append(out, n)
		for _, k := range n.kids {
			walk(k)
		}
	}
	for _, n := range f {
		walk(n)
	}
	return out
}

func shapeString(f []*gnode) string {
	var b strings.Builder
	var walk func(n *gnode)
	walk = func(n *gnode) {
		b.WriteByte('(')
		for _, k := range n.kids {
			walk(k)
		}
		b.WriteByte(')')
	}
	for _, n := range f {
		walk(n)
	}
	return b.String()
}

// variants of the text a shape matches
const (
	reVarPlain = "plain" // top-level groups separated by a blank
	reVarQuant = "quant" // every nested leaf group is quantified: (g2[a-z]+;){2} — the last iteration is captured
	reVarAlt   = "alt"   // top-level groups are alternatives: A|B — the groups of the other branch do not participate
)

// renderPattern writes the regular expression of a labelled forest.
func renderPattern(f []*gnode, variant string) string {
	var node func(n *gnode, nested bool) string
	node = func(n *gnode, nested bool) string {
		var body string
		if len(n.kids) == 0 {
			body = fmt.Sprintf("g%d[a-z]+", n.id)
		} else {
			parts := make([]string, len(n.kids))
			for i, k := range n.kids {
				parts[i] = node(k, true)
			}
			body = fmt.Sprintf("n%d:", n.id) + strings.Join(parts, "-")
		}
		quant := variant == reVarQuant && nested && len(n.kids) == 0
		if quant {
			body += ";"
		}
		var s string
		switch n.kind {
		case 'N':
			s = fmt.Sprintf("(?P<p%d>%s)", n.id, body)
		case 'U':
			s = "(" + body + ")"
		default:
			s = "(?:" + body + ")"
		}
		if quant {
			s += "{2}"
		}
		return s
	}
	parts := make([]string, len(f))
	for i, n := range f {
		parts[i] = node(n, false)
	}
	if variant == reVarAlt {
		return strings.Join(parts, "|")
	}
	return strings.Join(parts, " ")
}

// renderLines: the lines of the database of one shape and variant.  Two letter assignments (so that every group has
// two different captured values), for the alt variant one line per top-level alternative, a non-matching line and a
// line that matches only partially.
func renderLines(f []*gnode, variant string) []string {
	letters := [][]string{{"", "aa", "bb", "cc", "dd"}, {"", "xx", "yy", "zz", "ww"}}
	var node func(n *gnode, asg []string, nested bool) string
	node = func(n *gnode, asg []string, nested bool) string {
		if len(n.kids) == 0 {
			tok := fmt.Sprintf("g%d%s", n.id, asg[n.id])
			if variant == reVarQuant && nested {
				// two iterations with different text: RE2 keeps the last one
				return fmt.Sprintf("g%d%sfirst;", n.id, asg[n.id]) + tok + ";"
			}
			return tok
		}
		parts := make([]string, len(n.kids))
		for i, k := range n.kids {
			parts[i] = node(k, asg, true)
		}
		return fmt.Sprintf("n%d:", n.id) + strings.Join(parts, "-")
	}
	var lines []string
	for _, asg := range letters {
		if variant == reVarAlt {
			for _, n := range f {
				lines = append(lines, "<"+node(n, asg, false)+">")
			}
			continue
		}
		parts := make([]string, len(f))
		for i, n := range f {
			parts[i] = node(n, asg, false)
		}
		lines = append(lines, "pre "+strings.Join(parts, " ")+" post")
	}
	lines = append(lines, "no match here", "g1")
	return lines
}

type regexpCase struct {
	pattern string
	dbName  string
	names   []string // extracted label names in group order
}

type regexpSpace struct {
	dbs     []*Database
	queries []struct {
		q  *Query
		db string
	}
	patterns, shapes int
}

func variantApplies(f []*gnode, variant string) bool {
	switch variant {
	case reVarQuant:
		for _, n := range preorder(f) {
			if len(n.kids) > 0 {
				return true
			}
		}
		return false
	case reVarAlt:
		return len(f) > 1
	}
	return true
}

// regexpStructures enumerates the whole space: shapes x variants (one database each) x kind labellings (one pattern
// each) x consumers (the bare stage, `| drop name`, and for every extracted name n with the value v it takes on the
// first line: n = v, n != v, n =~ v).
func regexpStructures(maxGroups int, start int64) *regexpSpace {
	sp := &regexpSpace{}
	all := []Matcher{{"a", "=~", ".+"}}
	shapeNo := 0
	for n := 1; n <= maxGroups; n++ {
		for _, shape := range forests(n, 3) {
			shapeNo++
			sp.shapes++
			nodes := preorder(shape)
			for i, nd := range nodes {
				nd.id = i + 1
			}
			for _, variant := range []string{reVarPlain, reVarQuant, reVarAlt} {
				if !variantApplies(shape, variant) {
					continue
				}
				lines := renderLines(shape, variant)
				db := &Database{Name: fmt.Sprintf("re-%02d%s-%s", shapeNo, shapeString(shape), variant), Streams: []Stream{
					{Labels: map[string]string{"a": "x"}, Type: 1, FP: 9001},
					{Labels: map[string]string{"a": "y", "b": "1"}, Type: 1, FP: 9002},
				}}
				ts := start + 50
				for li, l := range lines {
					for s := range db.Streams {
						ts += 13
						db.Entries = append(db.Entries, Entry{Stream: (s + li) % 2, TS: ts, Line: l})
					}
				}
				db.build()
				sp.dbs = append(sp.dbs, db)
				// every labelling of the nodes with the three kinds
				total := 1
				for range nodes {
					total *= 3
				}
				for code := 0; code < total; code++ {
					c := code
					for _, nd := range nodes {
						nd.kind = "NUC"[c%3]
						c /= 3
					}
					named := false
					for _, nd := range nodes {
						named = named || nd.kind == 'N'
					}
					if !named {
						// a regexp stage without a named group extracts nothing (Loki rejects it at parse time); outside the grammar
						continue
					}
					pat := renderPattern(shape, variant)
					sp.patterns++
					re := regexp.MustCompile(pat)
					stage := Stage{Kind: "regexp", Val: pat}
					add := func(st ...Stage) {
						sp.queries = append(sp.queries, struct {
							q  *Query
							db string
						}{&Query{Matchers: all, Stages: append([]Stage{stage}, st...)}, db.Name})
					}
					add()
					// values on the matching lines, per name
					vals := map[string]map[string]bool{}
					for _, l := range lines {
						m := re.FindStringSubmatch(l)
						if m == nil {
							continue
						}
						for i, name := range re.SubexpNames() {
							if name != "" && m[i] != "" {
								if vals[name] == nil {
									vals[name] = map[string]bool{}
								}
								vals[name][m[i]] = true
							}
						}
					}
					var names []string
					for name := range vals {
						names = append(names, name)
					}
					sort.Strings(names)
					for _, name := range names {
						var vs []string
						for v := range vals[name] {
							vs = append(vs, v)
						}
						sort.Strings(vs)
						v := vs[0]
						add(Stage{Kind: "label", Tree: leafS(name, "=", v)})
						add(Stage{Kind: "label", Tree: leafS(name, "!=", v)})
						add(Stage{Kind: "label", Tree: leafS(name, "=~", regexp.QuoteMeta(v))})
						add(Stage{Kind: "drop", Drops: []DropParam{{Label: name}}})
					}
				}
			}
		}
	}
	return sp
}
