// C07 — the SQL generated for a LogQL log query selects exactly the matching lines.
//
// For every query of a bounded LogQL grammar (gen.go) and every database of a bounded family (db.go) the query text
// goes through the REAL parser and planner (logql_transpiler_v2.Transpile → ClickhouseGetterPlanner → SQL text with
// CHFinalize=true), the SQL is executed by the ClickHouse-subset reference interpreter (verif/mc/chsim) on the
// database, and the returned lines are compared with a direct evaluator of the property statement (model.go).
package main

import (
	"encoding/json"
	"errors"
	"fmt"
	"os"
	"runtime"
	"runtime/debug"
	"runtime/pprof"
	"sort"
	"strings"
	"sync"
	"time"

	"github.com/metrico/qryn/reader/logql/logql_parser"
	"github.com/metrico/qryn/reader/logql/logql_transpiler_v2"
	"github.com/metrico/qryn/reader/logql/logql_transpiler_v2/shared"
	sql "github.com/metrico/qryn/reader/utils/sql_select"

	"verif/mc/chsim"
	"verif/mc/ev"
)

type caseSpec struct {
	Query   *Query `json:"query"`
	Text    string `json:"logql"`
	DB      string `json:"database"`
	Params  Params `json:"params"`
	Cluster bool   `json:"cluster"`
}

type outcome struct {
	spec      caseSpec
	class     string // "" = agreement
	what      string
	outcome   string
	unsupp    string // chsim unsupported detail
	planErr   string
	sqlText   string
	nonEmpty  bool
	limitCut  bool // a limit case whose cut really skips non-matching lines: some in-window log line of a selected kind lies on the returned side of the cut-off without matching
	explained []string
}

var scriptCache sync.Map

// renderSQL runs the real parser + planner.  Planner/parser errors are returned as planErr (not violations).
func renderSQL(text string, p Params, cluster bool) (sqlText string, planErr error, harnessErr error) {
	defer func() {
		if r := recover(); r != nil {
			planErr = fmt.Errorf("planner panic: %v", r)
		}
	}()
	// Transpile = logql_parser.Parse + Plan.  The parse result is cached per query text (participle rebuilds its
	// grammar on every Parse, which dominated the run); Plan runs afresh for every case because planner objects
	// are mutated by Process (D13).  For the pure-SQL shapes of this grammar Plan does not modify the script.
	var script *logql_parser.LogQLScript
	if c, ok := scriptCache.Load(text); ok {
		switch x := c.(type) {
		case *logql_parser.LogQLScript:
			script = x
		case error:
			return "", x, nil
		}
	} else {
		sc, err := logql_parser.Parse(text)
		if err != nil {
			scriptCache.Store(text, err)
			return "", err, nil
		}
		scriptCache.Store(text, sc)
		script = sc
	}
	chain, err := logql_transpiler_v2.Plan(script)
	if err != nil {
		return "", err, nil
	}
	if len(chain) != 1 {
		return "", nil, fmt.Errorf("unexpected chain length %d", len(chain))
	}
	getter, ok := chain[0].(*shared.ClickhouseGetterPlanner)
	if !ok {
		return "", nil, fmt.Errorf("query is not planned as pure SQL (%T): outside C07's grammar", chain[0])
	}
	if getter.Matrix {
		return "", nil, fmt.Errorf("query planned as a matrix query")
	}
	ctx := &shared.PlannerContext{
		IsCluster: cluster,
		From:      nsTime(p.Start), To: nsTime(p.End), OrderASC: p.Forward, Limit: p.Limit,
		CHFinalize: true, Step: time.Second,
		TimeSeriesGinTableName: "time_series_gin", SamplesTableName: "samples_v3", TimeSeriesTableName: "time_series",
		TimeSeriesDistTableName: "time_series", Metrics15sTableName: "metrics_15s",
		CHSqlCtx: &sql.Ctx{Params: map[string]sql.SQLObject{}, Result: map[string]sql.SQLObject{}},
	}
	var opts []int
	if cluster {
		ctx.TimeSeriesGinTableName = "`qryn`.time_series_gin"
		ctx.SamplesTableName = "`qryn`.samples_v3_dist"
		ctx.TimeSeriesTableName = "`qryn`.time_series"
		ctx.TimeSeriesDistTableName = "`qryn`.time_series_dist"
		opts = append(opts, sql.STRING_OPT_INLINE_WITH)
	}
	sel, err := getter.ClickhouseRequestPlanner.Process(ctx)
	if err != nil {
		return "", err, nil
	}
	s, err := sel.String(ctx.CHSqlCtx, opts...)
	if err != nil {
		return "", err, nil
	}
	return s, nil, nil
}

func runSQL(db *chsim.DB, sqlText string) ([]Row, error) {
	st, err := chsim.Parse(sqlText)
	if err != nil {
		return nil, err
	}
	res, err := db.Exec(st)
	if err != nil {
		return nil, err
	}
	idx := map[string]int{}
	for i, c := range res.Cols {
		idx[c] = i
	}
	for _, c := range []string{"labels", "string", "timestamp_ns"} {
		if _, ok := idx[c]; !ok {
			return nil, fmt.Errorf("result has no column %s (columns %v)", c, res.Cols)
		}
	}
	rows := make([]Row, len(res.Rows))
	for i, r := range res.Rows {
		m, ok := chsim.StringMap(r[idx["labels"]])
		if !ok {
			return nil, fmt.Errorf("labels column is %s, not Map(String,String)", chsim.Format(r[idx["labels"]]))
		}
		line, ok1 := r[idx["string"]].(string)
		ts, ok2 := r[idx["timestamp_ns"]].(int64)
		if !ok1 || !ok2 {
			return nil, fmt.Errorf("unexpected cell types in row %v", r)
		}
		rows[i] = Row{Labels: canonLabels(m), Line: line, TS: ts}
	}
	return rows, nil
}

// deviantFlags lists the documented deviant rules (known-finding classifiers, DESIGN §7) with their class names.
var deviantFlags = []struct {
	class string
	set   func(*Rules)
	// applies: cheap syntactic pre-filter — the rule can only matter for queries with this feature
	applies func(*Query) bool
	// evidence (optional): the generated SQL must show the construct the deviant rule describes; without it the rule
	// is not what the implementation does and may not be used to explain the case
	evidence func(*Query, string) bool
}{
	{"line_filter_neg_regex_negation_lost", func(r *Rules) { r.NegRegexLineLost = true }, func(q *Query) bool {
		for _, s := range q.Stages {
			if s.Kind == "line" && s.Op == "!~" {
				return true
			}
		}
		return false
	}, func(q *Query, sqlText string) bool {
		for _, s := range q.Stages {
			if _, _, lit := regexLiteral(s.Val); s.Kind == "line" && s.Op == "!~" && !lit &&
				strings.Contains(sqlText, "(match(string, "+sqlQuote(s.Val)+")) == (1)") {
				return true
			}
		}
		return false
	}},
	{"line_filter_like_backslash_unescaped", func(r *Rules) { r.LikeRawBackslash = true }, hasLikeStage, func(q *Query, sqlText string) bool {
		return likeEvidence(q, sqlText, func(v string) bool { return strings.Contains(v, `\`) }, [][2]bool{{false, true}, {true, true}})
	}},
	{"line_filter_like_quote_trim", func(r *Rules) { r.LikeTrimQuotes = true }, hasLikeStage, func(q *Query, sqlText string) bool {
		return likeEvidence(q, sqlText, func(v string) bool { return strings.HasSuffix(v, "'") || strings.HasPrefix(v, "'") }, [][2]bool{{true, false}, {true, true}})
	}},
	{"stream_matcher_requires_label_present", func(r *Rules) { r.MatcherNeedsLabel = true }, func(q *Query) bool { return true }, nil},
	{"json_param_nested_path_uses_last_segment", func(r *Rules) { r.JSONLastSegment = true }, hasJSON, func(q *Query, sqlText string) bool {
		// the alias `as jp_N` directly after the last of several path elements
		for _, s := range q.Stages {
			for _, jp := range s.JSON {
				if segs, ok := parseJSONPath(jp.Path); ok && len(segs) > 1 && strings.Contains(sqlText, "' as jp_") {
					return true
				}
			}
		}
		return false
	}},
	{"json_param_array_index_looked_up_as_key", func(r *Rules) { r.JSONIndexAsKey = true }, hasJSON, func(q *Query, sqlText string) bool {
		for _, s := range q.Stages {
			for _, jp := range s.JSON {
				segs, _ := parseJSONPath(jp.Path)
				for _, sg := range segs {
					if sg.isIdx && strings.Contains(sqlText, fmt.Sprintf("'%d'", sg.index+1)) {
						return true
					}
				}
			}
		}
		return false
	}},
	{"label_filter_sees_later_drop", func(r *Rules) { r.LaterDropVisible = true }, func(q *Query) bool {
		sawParser, sawLabel := false, false
		for _, s := range q.Stages {
			switch s.Kind {
			case "json", "regexp":
				sawParser, sawLabel = true, false
			case "label":
				sawLabel = sawParser
			case "drop":
				if sawLabel {
					return true
				}
			}
		}
		return false
	}, nil},
	{"label_filter_chain_right_nested", func(r *Rules) { r.ChainRightNested = true }, func(q *Query) bool {
		for _, s := range q.Stages {
			if s.Kind == "label" && s.Chain != nil && s.Chain.mixed() {
				return true
			}
		}
		return false
	}, nil},
	{"label_filter_sees_later_parser", func(r *Rules) { r.LaterParserVisible = true }, func(q *Query) bool {
		sawLabel := false
		for i, s := range q.Stages {
			switch s.Kind {
			case "label":
				if firstParserIdx(q) < i || dropBefore(q, i) {
					sawLabel = true
				}
			case "json", "regexp":
				if sawLabel {
					return true
				}
			}
		}
		return false
	}, nil},
	{"label_filter_before_parser_ignores_drop", func(r *Rules) { r.HoistedLabelFilter = true }, func(q *Query) bool {
		sawDrop := false
		for _, s := range q.Stages {
			switch s.Kind {
			case "drop":
				sawDrop = true
			case "label":
				if sawDrop {
					return true
				}
			case "json", "regexp":
				return false
			}
		}
		return false
	}, nil},
}

// sqlQuote is sql_select.StringVal's rendering of a string literal.
func sqlQuote(s string) string {
	find := []string{"\\", "\000", "\n", "\r", "\b", "\t", "\x1a", "'"}
	repl := []string{"\\\\", "\\0", "\\n", "\\r", "\\b", "\\t", "\\x1a", "\\'"}
	for i, f := range find {
		s = strings.ReplaceAll(s, f, repl[i])
	}
	return "'" + s + "'"
}

// likeEvidence: some LIKE-rendered line filter whose value has the triggering feature appears in the SQL with
// exactly the literal the deviant construction produces.
func likeEvidence(q *Query, sqlText string, trigger func(string) bool, variants [][2]bool) bool {
	for _, s := range q.Stages {
		if s.Kind != "line" {
			continue
		}
		val := s.Val
		if s.Op == "|~" || s.Op == "!~" {
			lit, _, isLit := regexLiteral(s.Val)
			if !isLit {
				continue
			}
			val = lit
		}
		if !trigger(val) {
			continue
		}
		for _, v := range variants {
			if strings.Contains(sqlText, "'"+deviantLikeLiteral(val, v[0], v[1])+"'") {
				return true
			}
		}
	}
	return false
}

func hasLikeStage(q *Query) bool {
	for _, s := range q.Stages {
		if s.Kind == "line" {
			return true
		}
	}
	return false
}
func hasJSON(q *Query) bool {
	for _, s := range q.Stages {
		if s.Kind == "json" {
			return true
		}
	}
	return false
}

// evaluate runs one case.
func evaluate(spec caseSpec, db *Database, verbose bool) outcome {
	out := outcome{spec: spec}
	sqlText, planErr, herr := renderSQL(spec.Text, spec.Params, spec.Cluster)
	if herr != nil {
		out.class, out.what = "harness", herr.Error()
		return out
	}
	if planErr != nil {
		out.planErr = planErr.Error()
		out.outcome = "planner_error"
		return out
	}
	out.sqlText = sqlText
	impl, err := runSQL(db.ch, sqlText)
	if verbose {
		fmt.Println("SQL:", sqlText)
	}
	if err != nil {
		var se *chsim.SyntaxError
		var ee *chsim.EvalError
		switch {
		case errors.Is(err, chsim.ErrUnsupported):
			out.unsupp = err.Error()
			out.outcome = "chsim_unsupported"
			return out
		case errors.As(err, &se):
			out.class = "generated_sql_syntax_error"
			out.what = fmt.Sprintf("ClickHouse cannot parse the generated SQL for %s: %v", spec.Text, err)
			out.outcome = out.class
			return out
		case errors.As(err, &ee):
			out.class = "generated_sql_rejected_" + ee.Code
			if i := strings.Index(ee.Msg, "'"); ee.Code == "UNKNOWN_IDENTIFIER" && i >= 0 {
				out.class += ":" + strings.Trim(ee.Msg[i:], "'")
			}
			if ee.Code == "SIZES_OF_ARRAYS_DONT_MATCH" {
				for _, st := range spec.Query.Stages {
					if st.Kind == "regexp" && strings.Contains(st.Val, "(?:") {
						// explanation: the planner lists a label name for the non-capturing group, RE2 has no such group
						out.class = "regexp_non_capturing_group_counted_as_capture"
					}
				}
			}
			out.what = fmt.Sprintf("ClickHouse rejects the generated SQL for %s: %v", spec.Text, err)
			out.outcome = out.class
			return out
		default:
			out.class, out.what = "harness", err.Error()
			return out
		}
	}
	o := &oracle{}
	full, err := o.Eval(db, spec.Query, spec.Params)
	if err != nil {
		out.class, out.what = "harness", "oracle: "+err.Error()
		return out
	}
	out.nonEmpty = len(full) > 0
	if verbose {
		fmt.Printf("oracle: %d lines, implementation: %d lines\n", len(full), len(impl))
		dump := func(name string, rows []Row) {
			sort.Slice(rows, func(i, j int) bool {
				if rows[i].TS != rows[j].TS {
					return rows[i].TS < rows[j].TS
				}
				return rows[i].Labels+rows[i].Line < rows[j].Labels+rows[j].Line
			})
			for _, r := range rows {
				fmt.Printf("  %s ts=%d %s %q\n", name, r.TS-T0, r.Labels, r.Line)
			}
		}
		if len(full)+len(impl) < 60 {
			dump("oracle", append([]Row{}, full...))
			dump("impl  ", append([]Row{}, impl...))
		}
	}
	if spec.Params.Limit > 0 && int64(len(full)) > spec.Params.Limit {
		out.limitCut = cutSkipsFailing(db, full, spec.Params)
	}
	diff := checkResult(impl, full, spec.Params)
	if diff == "" {
		if out.nonEmpty {
			out.outcome = "agree_nonempty"
		} else {
			out.outcome = "agree_empty"
		}
		return out
	}
	// explanation search: the smallest set of documented deviant rules under which the oracle agrees
	var applicable []int
	for i, d := range deviantFlags {
		if d.applies(spec.Query) && (d.evidence == nil || d.evidence(spec.Query, sqlText)) {
			applicable = append(applicable, i)
		}
	}
	best := -1
	bestBits := 0
	for mask := 1; mask < 1<<len(applicable); mask++ {
		bits := 0
		for i := range applicable {
			if mask&(1<<i) != 0 {
				bits++
			}
		}
		if best >= 0 && bits >= bestBits {
			continue
		}
		var rules Rules
		for i, di := range applicable {
			if mask&(1<<i) != 0 {
				deviantFlags[di].set(&rules)
			}
		}
		dev := &oracle{rules: rules}
		dfull, err := dev.Eval(db, spec.Query, spec.Params)
		if err != nil {
			continue
		}
		if checkResult(impl, dfull, spec.Params) == "" {
			best, bestBits = mask, bits
		}
	}
	if best >= 0 {
		for i, di := range applicable {
			if best&(1<<i) != 0 {
				out.explained = append(out.explained, deviantFlags[di].class)
			}
		}
		out.class = strings.Join(out.explained, "+")
		out.outcome = "deviant:" + out.class
		out.what = fmt.Sprintf("%s on %s %s%s: %s (explained by deviant rule %s)", spec.Text, spec.DB, paramString(spec.Params), modeString(spec.Cluster), diff, out.class)
		return out
	}
	out.class = "unexplained:" + spec.Query.Shape()
	out.outcome = "unexplained"
	out.what = fmt.Sprintf("%s on %s %s%s: %s", spec.Text, spec.DB, paramString(spec.Params), modeString(spec.Cluster), diff)
	return out
}

func paramString(p Params) string {
	return fmt.Sprintf("[start+%d,start+%d) limit=%d %s", p.Start-T0, p.End-T0, p.Limit, dirName(p.Forward))
}

func main() {
	r := ev.Start("C07", "model_checking", 75*time.Second, 17*time.Minute)
	r.Rule = "every query of the bounded LogQL grammar (1-2 matchers over = != =~ !~; pipelines of <=2 (thorough <=3) stages over line filters |= != |~ !~, " +
		"label-filter trees of <=3 leaves with and/or/parentheses over string and numeric comparisons, json with parameters, regexp with named groups, drop) " +
		"is rendered by the real parser+planner and executed by chsim on the universal database (time-interleaved: passing and failing lines of every stage alternate) without limit, " +
		"with limits {1, 2, n-1} below the number n of matching lines x {backward, forward} (first query of every shape: all 6 variants; the others: 4 in thorough, 1 rotating in quick), " +
		"both deployment modes (IsCluster false and true; thorough: every query without limit and with one rotating limit variant, first query of every shape with all limit variants; quick: first query of every shape with all variants, simple queries without limit), a second window (quick: simple queries), " +
		"and a set of pipeline shapes on every sub-database of <=3 rows of a 6-row pool under limit {1,2,3} x direction; a case is distinct by its query text; " +
		"non-trivial = the oracle's match set is non-empty or differs between two cases"
	r.Assumptions = []string{
		"chsim implements ClickHouse semantics for the emitted subset (trusted base, see mc/chsim/README.md)",
		"regex matchers and regex label filters are RE2 search (anchoring is not demanded by the statement)",
		"an empty label value is an absent label when results are compared",
		"mixed and/or label filters are generated fully parenthesised (precedence of unparenthesised and/or is not fixed by the statement)",
		"lines with more than one regexp match and label names that collide between stored and extracted labels are outside the alphabet",
		"the planner is driven with nanosecond window bounds (the HTTP service truncates them to seconds before planning)",
	}

	if pf := os.Getenv("C07_CPUPROFILE"); pf != "" {
		f, err := os.Create(pf)
		if err == nil {
			pprof.StartCPUProfile(f)
			defer pprof.StopCPUProfile()
		}
	}
	debug.SetGCPercent(400)
	start, end := T0, T0+10000
	uni := universalDB(start, end)
	dbs := map[string]*Database{uni.Name: uni}
	smalls := smallDBs(start)
	for _, d := range smalls {
		dbs[d.Name] = d
	}
	truth := truthDB(start, end)
	dbs[truth.Name] = truth
	maxGroups := 3
	if r.Thorough() {
		maxGroups = 4
	}
	if r.Replay != "" {
		maxGroups = 4 // a replay may name any regexp-structure database
	}
	reSpace := regexpStructures(maxGroups, start)
	for _, d := range reSpace.dbs {
		dbs[d.Name] = d
	}

	if r.Replay != "" {
		b, err := os.ReadFile(r.Replay)
		if err != nil {
			ev.Fatal("cannot read replay: %v", err)
		}
		var doc struct {
			Replay caseSpec `json:"replay"`
		}
		if err := json.Unmarshal(b, &doc); err != nil {
			ev.Fatal("bad replay file: %v", err)
		}
		spec := doc.Replay
		for i := range spec.Query.Stages {
			if c := spec.Query.Stages[i].Chain; c != nil {
				spec.Query.Stages[i].Tree = c.logqlTree()
			}
		}
		spec.Text = spec.Query.String()
		db := dbs[spec.DB]
		if db == nil {
			ev.Fatal("unknown database %q", spec.DB)
		}
		fmt.Println("LogQL:", spec.Text, paramString(spec.Params), "cluster:", spec.Cluster)
		o := evaluate(spec, db, true)
		switch {
		case o.planErr != "":
			fmt.Println("planner error (unsupported shape):", o.planErr)
		case o.unsupp != "":
			fmt.Println("HARNESS: chsim unsupported:", o.unsupp)
		case o.class == "":
			fmt.Println("verdict: agreement")
		default:
			for _, c := range classesOf(o) {
				r.Violate(c, o.what, spec)
			}
		}
		r.Finish()
	}

	cfg := genConfig{thorough: r.Thorough()}
	queries := enumerateQueries(cfg)
	var cases []caseSpec
	seen := map[string]bool{}
	// distinct queries, and the size of each one's match set on the universal database (decides which limits cut)
	var uq []*Query
	for _, qu := range queries {
		text := qu.String()
		if seen[text] {
			continue
		}
		seen[text] = true
		uq = append(uq, qu)
	}
	matchCount := make([]int, len(uq))
	{
		var wg sync.WaitGroup
		chunk := (len(uq) + 15) / 16
		for w := 0; w < 16; w++ {
			lo, hi := w*chunk, (w+1)*chunk
			if hi > len(uq) {
				hi = len(uq)
			}
			if lo >= hi {
				continue
			}
			wg.Add(1)
			go func(lo, hi int) {
				defer wg.Done()
				o := &oracle{}
				for i := lo; i < hi; i++ {
					rows, err := o.Eval(uni, uq[i], Params{Start: start, End: end})
					if err != nil {
						matchCount[i] = -1
						continue
					}
					matchCount[i] = len(rows)
				}
			}(lo, hi)
		}
		wg.Wait()
	}
	shapeSeen := map[string]bool{}
	for qi, qu := range uq {
		text := qu.String()
		add := func(p Params, cluster bool) {
			cases = append(cases, caseSpec{Query: qu, Text: text, DB: uni.Name, Params: p, Cluster: cluster})
		}
		shape := qu.Shape()
		first := !shapeSeen[shape]
		shapeSeen[shape] = true
		add(Params{Start: start, End: end}, false)
		// The deployment mode is a dimension of the case: the cluster rendering (inlined WITHs, GLOBAL joins / IN,
		// distributed table names = views of the local tables in the model) is evaluated over the same data and must
		// give the same lines.  Thorough: every query; quick: the first query of every shape and every simple query.
		if cfg.thorough || first || simpleQuery(qu) {
			add(Params{Start: start, End: end}, true)
		}
		if cfg.thorough || simpleQuery(qu) {
			// second window (entries one tick outside both edges)
			add(Params{Start: start + 1, End: end - 1}, false)
		}
		if simpleQuery(qu) && cfg.thorough {
			add(Params{Start: start, End: end, Forward: true}, false)
		}
		// LIMIT x direction for EVERY query: limits below the number n of matching lines, so that the cut falls
		// inside the (time-interleaved) data.  Variants: (1,bwd) (1,fwd) (2,bwd) (n-1,fwd) (2,fwd) (n-1,bwd).
		n := int64(matchCount[qi])
		if n < 2 {
			continue
		}
		type lv struct {
			l   int64
			fwd bool
		}
		var variants []lv
		dup := map[lv]bool{}
		for _, v := range []lv{{1, false}, {1, true}, {2, false}, {n - 1, true}, {2, true}, {n - 1, false}} {
			if v.l >= 1 && v.l < n && !dup[v] {
				dup[v] = true
				variants = append(variants, v)
			}
		}
		for vi, v := range variants {
			rot := vi == qi%len(variants)
			switch {
			case first && (cfg.thorough || vi < 4): // the first query of every shape: all variants (quick: 4: both directions, limit 1/2 and n-1), both deployment modes
			case cfg.thorough && vi < 4:
			case !cfg.thorough && rot: // quick: the variants rotate over the queries of a shape
			default:
				continue
			}
			add(Params{Start: start, End: end, Limit: v.l, Forward: v.fwd}, false)
			if (first && (cfg.thorough || vi < 4)) || (cfg.thorough && rot) {
				add(Params{Start: start, End: end, Limit: v.l, Forward: v.fwd}, true)
			}
		}
	}
	// unparenthesised and/or chains on the truth-table database (all 8 truth assignments of three independent
	// comparisons, before and after a parser), without limit and with limit 1 backward
	for _, qu := range chainQueries(cfg) {
		text := qu.String()
		if seen[text] {
			continue
		}
		seen[text] = true
		cases = append(cases, caseSpec{Query: qu, Text: text, DB: truth.Name, Params: Params{Start: start, End: end}},
			caseSpec{Query: qu, Text: text, DB: truth.Name, Params: Params{Start: start, End: end}, Cluster: true})
		if cfg.thorough {
			cases = append(cases, caseSpec{Query: qu, Text: text, DB: truth.Name, Params: Params{Start: start, End: end, Limit: 1}},
				caseSpec{Query: qu, Text: text, DB: truth.Name, Params: Params{Start: start, End: end, Limit: 1}, Cluster: true})
		}
	}
	// regexp group structures, each on the database of its shape
	for _, rq := range reSpace.queries {
		text := rq.q.String()
		if seen[text] {
			continue
		}
		seen[text] = true
		cases = append(cases, caseSpec{Query: rq.q, Text: text, DB: rq.db, Params: Params{Start: start, End: end}})
		if cfg.thorough || len(rq.q.Stages) == 1 {
			cases = append(cases, caseSpec{Query: rq.q, Text: text, DB: rq.db, Params: Params{Start: start, End: end}, Cluster: true})
		}
	}
	r.Extra["regexp_group_structures"] = map[string]int{"max_groups": maxGroups, "shapes": reSpace.shapes, "patterns": reSpace.patterns, "databases": len(reSpace.dbs), "queries": len(reSpace.queries)}
	nUniversalQueries := len(uq)
	r.Extra["query_shapes"] = len(shapeSeen)
	for _, qu := range limitQueries() {
		text := qu.String()
		for _, d := range smalls {
			for _, lim := range []int64{1, 2, 3} {
				for _, fwd := range []bool{false, true} {
					cases = append(cases, caseSpec{Query: qu, Text: text, DB: d.Name, Params: Params{Start: start, End: end, Limit: lim, Forward: fwd}})
					cases = append(cases, caseSpec{Query: qu, Text: text, DB: d.Name, Params: Params{Start: start, End: end, Limit: lim, Forward: fwd}, Cluster: true})
				}
			}
		}
		seen[text] = true
	}
	if r.Seed != 0 && len(cases) > 0 {
		k := r.Seed % len(cases)
		if k < 0 {
			k += len(cases)
		}
		cases = append(cases[k:], cases[:k]...)
	}

	// fan out
	workers := runtime.NumCPU()
	if workers > 16 {
		workers = 16
	}
	results := make([]outcome, len(cases))
	var wg sync.WaitGroup
	var next int64
	var mu sync.Mutex
	expired := false
	for w := 0; w < workers; w++ {
		wg.Add(1)
		go func() {
			defer wg.Done()
			for {
				mu.Lock()
				i := next
				next++
				if !expired && i%256 == 0 && r.Expired() {
					expired = true
				}
				stop := expired
				mu.Unlock()
				if stop || int(i) >= len(cases) {
					return
				}
				results[i] = evaluate(cases[i], dbs[cases[i].DB], false)
				results[i].spec = cases[i]
			}
		}()
	}
	wg.Wait()
	done := int(next)
	if done > len(cases) {
		done = len(cases)
	}
	if expired {
		done = 0
		for i := range results {
			if results[i].outcome != "" || results[i].class != "" {
				done++
			}
		}
	}

	// fold results deterministically (in case order)
	unsupportedShapes := map[string]int{}
	unsupportedExamples := map[string]string{}
	chsimUnsupported := 0
	var chsimUnsupportedFirst string
	harnessErrors := 0
	var harnessFirst string
	pairs := map[string]bool{}
	executed := int64(0)
	sampledShapes := map[string]bool{}
	clusterCases, clusterLimitCases := 0, 0
	limitCases, limitCasesCutting := 0, 0
	limitShapes := map[string]bool{}
	classCount := map[string]int{}
	classExample := map[string]string{}
	for i := range results {
		o := &results[i]
		if o.outcome == "" && o.class == "" {
			continue // not reached (deadline)
		}
		r.AddEval(1)
		r.Distinct(o.spec.Text)
		pairs[o.spec.Text+"\x00"+o.spec.DB] = true
		switch {
		case o.class == "harness":
			harnessErrors++
			if harnessFirst == "" {
				harnessFirst = o.spec.Text + ": " + o.what
			}
			continue
		case o.planErr != "":
			shape := o.spec.Query.Shape()
			unsupportedShapes[shape+" :: "+o.planErr]++
			if _, ok := unsupportedExamples[shape]; !ok {
				unsupportedExamples[shape] = o.spec.Text
			}
			r.Outcome("planner_error")
			continue
		case o.unsupp != "":
			chsimUnsupported++
			if chsimUnsupportedFirst == "" {
				chsimUnsupportedFirst = o.spec.Text + ": " + o.unsupp
			}
			r.Outcome("chsim_unsupported")
			continue
		}
		executed++
		if o.spec.Cluster {
			clusterCases++
			if o.spec.Params.Limit > 0 {
				clusterLimitCases++
			}
		}
		if o.spec.Params.Limit > 0 && o.spec.DB == "universal" {
			limitCases++
			if o.limitCut {
				limitCasesCutting++
				limitShapes[o.spec.Query.Shape()] = true
			}
		}
		r.Outcome(o.outcome)
		if o.class == "" {
			if shape := o.spec.Query.Shape(); o.nonEmpty && !sampledShapes[shape] && len(o.spec.Query.Stages) > 0 {
				sampledShapes[shape] = true
				r.Sample(map[string]any{"logql": o.spec.Text, "database": o.spec.DB, "params": paramString(o.spec.Params), "cluster": o.spec.Cluster, "verdict": "agree (non-empty result)"})
			}
			continue
		}
		for _, c := range classesOf(*o) {
			classCount[c]++
			if _, ok := classExample[c]; !ok {
				classExample[c] = o.spec.Text + " on " + o.spec.DB + " " + paramString(o.spec.Params)
			}
			r.Violate(c, o.what, o.spec)
		}
	}
	classes := map[string]any{}
	for c, n := range classCount {
		classes[c] = map[string]any{"cases": n, "first": classExample[c]}
	}
	r.Extra["disagreement_classes"] = classes
	r.Extra["observations_outside_the_statement"] = observations(start, end)
	r.States = int64(len(pairs))
	r.Transitions = r.Evaluations
	r.TracesValidated = executed
	r.Extra["programs"] = len(seen)
	r.Extra["programs_on_universal_database"] = nUniversalQueries
	r.Extra["databases"] = len(dbs)
	r.Extra["universal_database"] = map[string]int{"streams": len(uni.Streams), "entries": len(uni.Entries)}
	r.Extra["limit_cases_on_universal_database"] = map[string]int{"cases": limitCases, "cut_skips_non_matching_lines": limitCasesCutting, "query_shapes_with_such_a_case": len(limitShapes)}
	r.Extra["cluster_mode_cases"] = map[string]int{"cases": clusterCases, "with_limit": clusterLimitCases}
	r.Extra["cases_planned"] = len(cases)
	r.Extra["cases_done"] = done
	r.Extra["chsim_unsupported"] = chsimUnsupported
	shapes := make([]string, 0, len(unsupportedShapes))
	for s, n := range unsupportedShapes {
		shapes = append(shapes, fmt.Sprintf("%s (x%d)", s, n))
	}
	sort.Strings(shapes)
	if len(shapes) > 40 {
		shapes = append(shapes[:40], fmt.Sprintf("... %d more", len(shapes)-40))
	}
	r.Extra["unsupported_shapes"] = shapes
	if expired {
		r.Cap(fmt.Sprintf("deadline: %d of %d cases evaluated", done, len(cases)))
	}
	if harnessErrors > 0 {
		ev.Fatal("%d harness errors, first: %s", harnessErrors, harnessFirst)
	}
	pprof.StopCPUProfile()
	if chsimUnsupported > 0 {
		ev.Fatal("chsim returned ErrUnsupported for %d cases of the enumerated grammar (must be 0), first: %s", chsimUnsupported, chsimUnsupportedFirst)
	}
	r.Finish()
}

func classesOf(o outcome) []string {
	if len(o.explained) > 0 {
		return o.explained
	}
	return []string{o.class}
}

// observations runs a few probes about semantics the statement leaves open (they decide nothing): which of two
// plausible rules the generated SQL follows.
func observations(start, end int64) map[string]string {
	d := &Database{Name: "observations", Streams: []Stream{
		{Labels: map[string]string{"a": "x"}, Type: 1, FP: 11},
		{Labels: map[string]string{"a": "xx"}, Type: 1, FP: 12},
	}}
	d.Entries = []Entry{
		{Stream: 0, TS: start + 10, Line: `k=x k=y`},
		{Stream: 0, TS: start + 20, Line: `{"k":"1"}`},
		{Stream: 1, TS: start + 30, Line: `plain`},
	}
	d.build()
	out := map[string]string{}
	run := func(text string) []Row {
		sqlText, perr, herr := renderSQL(text, Params{Start: start, End: end}, false)
		if perr != nil || herr != nil {
			return nil
		}
		rows, err := runSQL(d.ch, sqlText)
		if err != nil {
			return nil
		}
		return rows
	}
	find := func(rows []Row, line string) string {
		for _, r := range rows {
			if r.Line == line {
				return r.Labels
			}
		}
		return "<line not returned>"
	}
	out[`regexp stage with several matches in one line: {a="x"} | regexp "k=(?P<p>\\w)" on "k=x k=y" (Loki: first match)`] = find(run(`{a="x"} | regexp "k=(?P<p>\\w)"`), `k=x k=y`)
	out[`extracted label with the name of a stored label: {a="x"} | json a="k" on {"k":"1"} (Loki: a_extracted)`] = find(run(`{a="x"} | json a="k"`), `{"k":"1"}`)
	out[`regex matcher anchoring: {a=~"x"} on streams a="x" and a="xx" (Loki anchors: only a="x")`] = fmt.Sprintf("%d lines returned (3 = unanchored search, 2 = anchored)", len(run(`{a=~"x"}`)))
	return out
}

// simpleQuery: at most one stage, and that stage is not a multi-leaf label-filter tree (quick tier: only these get
// the window / limit / direction / cluster variants).
func simpleQuery(q *Query) bool {
	if len(q.Stages) > 1 {
		return false
	}
	if len(q.Stages) == 1 && q.Stages[0].Kind == "label" && q.Stages[0].Tree.Leaf == nil {
		return false
	}
	return true
}

// cutSkipsFailing: with the limit applied to the oracle's match set, is there an in-window log-type entry that does
// NOT match the query but is newer (older, when forward) than the last returned line?  Only then a LIMIT placed
// before a filtering stage gives a different answer.
func cutSkipsFailing(db *Database, full []Row, p Params) bool {
	ts := make([]int64, len(full))
	for i, r := range full {
		ts[i] = r.TS
	}
	sort.Slice(ts, func(i, j int) bool {
		if p.Forward {
			return ts[i] < ts[j]
		}
		return ts[i] > ts[j]
	})
	cut := ts[p.Limit-1]
	inside := 0
	for _, e := range db.Entries {
		if db.Streams[e.Stream].Type == 2 || e.TS < p.Start || e.TS >= p.End {
			continue
		}
		if (p.Forward && e.TS < cut) || (!p.Forward && e.TS > cut) {
			inside++
		}
	}
	matchingInside := 0
	for _, t := range ts {
		if (p.Forward && t < cut) || (!p.Forward && t > cut) {
			matchingInside++
		}
	}
	return inside > matchingInside
}

func firstParserIdx(q *Query) int {
	for i, s := range q.Stages {
		if s.Kind == "json" || s.Kind == "regexp" {
			return i
		}
	}
	return len(q.Stages)
}


func modeString(cluster bool) string {
	if cluster {
		return " cluster-mode"
	}
	return ""
}
