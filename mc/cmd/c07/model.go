package main

import (
	"encoding/json"
	"fmt"
	"regexp"
	"sort"
	"strconv"
	"strings"

	"verif/mc/chsim"
)

// ---------------------------------------------------------------------------------------------------------
// query model (what the enumerator builds, what is rendered to LogQL text, what the oracle evaluates)

type Matcher struct {
	Name, Op, Val string // Op: = != =~ !~
}

type Leaf struct {
	Label string
	Op    string // string ops: = != =~ !~ ; numeric ops: == != > >= < <=
	Str   string
	Num   string // numeric literal text; "" for string comparison
}

// Tree is a label-filter expression.  Rendered fully parenthesised whenever `and` and `or` are mixed (the relative
// precedence of unparenthesised and/or is not fixed by the statement).
type Tree struct {
	Leaf *Leaf
	Op   string // "and" | "or"
	L, R *Tree
}

type JSONParam struct{ Label, Path string }
type DropParam struct {
	Label string
	Val   *string
}

type Stage struct {
	Kind   string // "line" | "label" | "json" | "regexp" | "drop"
	Op     string // line filter op: |= != |~ !~
	Val    string // line filter value / regexp pattern
	Tree   *Tree
	JSON   []JSONParam
	Drops  []DropParam
	Ticked bool // render the line-filter literal as a `raw string`
	// Chain: an UNPARENTHESISED label-filter chain l1 op1 l2 op2 l3 …; its one meaning is LogQL's: `and` binds tighter
	// than `or`, both left-associative.  Tree then holds that reading (built by chainTree).
	Chain *Chain
}

type Chain struct {
	Leaves []*Leaf
	Ops    []string // len(Leaves)-1
}

func (c *Chain) render() string {
	var b strings.Builder
	for i, l := range c.Leaves {
		if i > 0 {
			b.WriteString(" " + c.Ops[i-1] + " ")
		}
		b.WriteString((&Tree{Leaf: l}).render(""))
	}
	return b.String()
}

func (c *Chain) mixed() bool {
	for _, o := range c.Ops {
		if o != c.Ops[0] {
			return true
		}
	}
	return false
}

// logqlTree: `and` before `or`, left-associative.
func (c *Chain) logqlTree() *Tree {
	var orTerms []*Tree
	cur := &Tree{Leaf: c.Leaves[0]}
	for i, op := range c.Ops {
		next := &Tree{Leaf: c.Leaves[i+1]}
		if op == "and" {
			cur = &Tree{Op: "and", L: cur, R: next}
		} else {
			orTerms = append(orTerms, cur)
			cur = next
		}
	}
	orTerms = append(orTerms, cur)
	t := orTerms[0]
	for _, x := range orTerms[1:] {
		t = &Tree{Op: "or", L: t, R: x}
	}
	return t
}

// rightNestedTree: l1 op1 (l2 op2 (l3 …)) — the reading of a grammar `Head (Op Tail)?` rendered recursively.
func (c *Chain) rightNestedTree() *Tree {
	n := len(c.Leaves)
	t := &Tree{Leaf: c.Leaves[n-1]}
	for i := n - 2; i >= 0; i-- {
		t = &Tree{Op: c.Ops[i], L: &Tree{Leaf: c.Leaves[i]}, R: t}
	}
	return t
}

func chainStage(leaves []*Tree, ops ...string) Stage {
	c := &Chain{Ops: ops}
	for _, l := range leaves {
		c.Leaves = append(c.Leaves, l.Leaf)
	}
	return Stage{Kind: "label", Chain: c, Tree: c.logqlTree()}
}

type Query struct {
	Matchers []Matcher
	Stages   []Stage
}

type Params struct {
	Start, End int64 // ns, window [Start, End)
	Limit      int64 // 0 = no limit
	Forward    bool
}

// q renders a LogQL string literal ("…" with JSON escapes: the parser unquotes with encoding/json).
func q(s string) string {
	var b strings.Builder
	b.WriteByte('"')
	for i := 0; i < len(s); i++ {
		c := s[i]
		switch {
		case c == '"' || c == '\\':
			b.WriteByte('\\')
			b.WriteByte(c)
		case c < 0x20:
			fmt.Fprintf(&b, `\u%04x`, c)
		default:
			b.WriteByte(c)
		}
	}
	b.WriteByte('"')
	return b.String()
}

func (t *Tree) render(parentOp string) string {
	if t.Leaf != nil {
		l := t.Leaf
		if l.Num != "" {
			return l.Label + " " + l.Op + " " + l.Num
		}
		return l.Label + " " + l.Op + " " + q(l.Str)
	}
	s := t.L.render(t.Op) + " " + t.Op + " " + t.R.render(t.Op)
	// the real grammar is `Head (op Tail)?` = right-nested; to be independent of associativity and precedence every
	// nested operator node is parenthesised unless it is the right operand of the same operator
	return s
}

// renderTree parenthesises every non-leaf operand except a right operand with the same operator (a and b and c).
func renderTree(t *Tree) string {
	if t.Leaf != nil {
		return t.render("")
	}
	l := renderTree(t.L)
	if t.L.Leaf == nil {
		l = "(" + l + ")"
	}
	r := renderTree(t.R)
	if t.R.Leaf == nil && t.R.Op != t.Op {
		r = "(" + r + ")"
	}
	return l + " " + t.Op + " " + r
}

func (qu *Query) String() string {
	var b strings.Builder
	b.WriteByte('{')
	for i, m := range qu.Matchers {
		if i > 0 {
			b.WriteString(", ")
		}
		b.WriteString(m.Name + m.Op + q(m.Val))
	}
	b.WriteByte('}')
	for _, s := range qu.Stages {
		switch s.Kind {
		case "line":
			if s.Ticked && !strings.Contains(s.Val, "`") {
				b.WriteString(" " + s.Op + " `" + s.Val + "`")
			} else {
				b.WriteString(" " + s.Op + " " + q(s.Val))
			}
		case "label":
			if s.Chain != nil {
				b.WriteString(" | " + s.Chain.render())
			} else {
				b.WriteString(" | " + renderTree(s.Tree))
			}
		case "json":
			parts := make([]string, len(s.JSON))
			for i, p := range s.JSON {
				parts[i] = p.Label + "=" + q(p.Path)
			}
			b.WriteString(" | json " + strings.Join(parts, ", "))
		case "regexp":
			b.WriteString(" | regexp " + q(s.Val))
		case "drop":
			parts := make([]string, len(s.Drops))
			for i, d := range s.Drops {
				parts[i] = d.Label
				if d.Val != nil {
					parts[i] += "=" + q(*d.Val)
				}
			}
			b.WriteString(" | drop " + strings.Join(parts, ", "))
		}
	}
	return b.String()
}

// Shape is a coarse signature of the query used for unsupported-shape lists and for naming unexplained violations.
func (qu *Query) Shape() string {
	var parts []string
	ops := map[string]bool{}
	for _, m := range qu.Matchers {
		ops[m.Op] = true
	}
	var mo []string
	for o := range ops {
		mo = append(mo, o)
	}
	sort.Strings(mo)
	parts = append(parts, "sel["+strings.Join(mo, "")+"]")
	for _, s := range qu.Stages {
		switch s.Kind {
		case "line":
			parts = append(parts, "line"+s.Op)
		case "label":
			if s.Chain != nil {
				parts = append(parts, "chain["+treeShape(s.Tree)+"]")
			} else {
				parts = append(parts, "label["+treeShape(s.Tree)+"]")
			}
		default:
			parts = append(parts, s.Kind)
		}
	}
	return strings.Join(parts, ">")
}

func treeShape(t *Tree) string {
	if t.Leaf != nil {
		if t.Leaf.Num != "" {
			return "n" + t.Leaf.Op
		}
		return "s" + t.Leaf.Op
	}
	return "(" + treeShape(t.L) + " " + t.Op + " " + treeShape(t.R) + ")"
}

// ---------------------------------------------------------------------------------------------------------
// data model

type Stream struct {
	Labels map[string]string
	Type   int // 1 log, 2 metric, 0 both
	FP     uint64
}

type Entry struct {
	Stream int
	TS     int64
	Line   string
}

type Database struct {
	Name    string
	Streams []Stream
	Entries []Entry
	ch      *chsim.DB
}

// Row is one result line: the labels it came back with (empty values dropped: an empty label is an absent label),
// its text and timestamp.
type Row struct {
	Labels string // canonical k=v list
	Line   string
	TS     int64
}

func canonLabels(m map[string]string) string {
	keys := make([]string, 0, len(m))
	for k, v := range m {
		if v != "" {
			keys = append(keys, k)
		}
	}
	sort.Strings(keys)
	var b strings.Builder
	for _, k := range keys {
		b.WriteString(strconv.Quote(k))
		b.WriteByte('=')
		b.WriteString(strconv.Quote(m[k]))
		b.WriteByte(',')
	}
	return b.String()
}

// ---------------------------------------------------------------------------------------------------------
// the oracle: LogQL log-query semantics as the property statement gives them.
//
// Rules (each can be swapped for a documented *deviant* rule to explain a disagreement, DESIGN §7):
//   * a stream satisfies a matcher by the value of the label, an absent label being the empty string; =~ / !~ are RE2
//     *search* (anchoring is not demanded by the statement);
//   * |= / != are substring tests, |~ / !~ RE2 search on the line;
//   * label filters see stored ∪ extracted labels (minus dropped ones) at their pipeline position, absent = "";
//     numeric comparisons need the value to parse as a float, otherwise the line does not pass;
//   * json p="path": the value at the path — strings unquoted, other values as compact JSON text, nothing when the
//     path is absent or the line is not JSON; regexp: named groups of the first match;
//   * window [start,end), sample type log or both, newest/oldest `limit` lines.

type Rules struct {
	NegRegexLineLost   bool // D12: `!~ non-literal-regex` behaves as `|~`
	LikeTrimQuotes     bool // D14: doLike strips quote characters with strings.Trim
	LikeRawBackslash   bool // D15: doLike does not LIKE-escape backslashes
	MatcherNeedsLabel  bool // a matcher only ever matches streams that carry the label (index rows exist only for present labels)
	JSONLastSegment    bool // json p="a.b": the type test uses the full path, the extraction only the last segment
	JSONIndexAsKey     bool // json p="a[0]": the index is looked up as the object key "1"
	ChainRightNested   bool // an unparenthesised and/or chain is read right-nested: a and b or c = a and (b or c)
	LaterParserVisible bool // a label filter sees the labels extracted by the NEXT run of parser stages (they patch the same SELECT)
	LaterDropVisible   bool // a label filter after the first parser sees the labels with the LATER drop stages (up to the next parser) already applied
	HoistedLabelFilter bool // a label filter placed before the first parser stage is evaluated on the stored stream labels, ignoring earlier drop stages
}

func (r Rules) String() string {
	var s []string
	add := func(b bool, n string) {
		if b {
			s = append(s, n)
		}
	}
	add(r.NegRegexLineLost, "NegRegexLineLost")
	add(r.LikeTrimQuotes, "LikeTrimQuotes")
	add(r.LikeRawBackslash, "LikeRawBackslash")
	add(r.MatcherNeedsLabel, "MatcherNeedsLabel")
	add(r.JSONLastSegment, "JSONLastSegment")
	add(r.JSONIndexAsKey, "JSONIndexAsKey")
	add(r.HoistedLabelFilter, "HoistedLabelFilter")
	add(r.LaterDropVisible, "LaterDropVisible")
	add(r.LaterParserVisible, "LaterParserVisible")
	add(r.ChainRightNested, "ChainRightNested")
	return strings.Join(s, "+")
}

type oracle struct {
	rules Rules
	cache map[string]*regexp.Regexp
}

func (o *oracle) re(p string) (*regexp.Regexp, error) {
	if re, ok := o.cache[p]; ok {
		return re, nil
	}
	re, err := regexp.Compile(p)
	if err != nil {
		return nil, err
	}
	if o.cache == nil {
		o.cache = map[string]*regexp.Regexp{}
	}
	o.cache[p] = re
	return re, nil
}

func (o *oracle) matchStream(ms []Matcher, labels map[string]string) (bool, error) {
	for _, m := range ms {
		v, present := labels[m.Name]
		if o.rules.MatcherNeedsLabel && !present {
			return false, nil
		}
		var ok bool
		switch m.Op {
		case "=":
			ok = v == m.Val
		case "!=":
			ok = v != m.Val
		case "=~", "!~":
			re, err := o.re(m.Val)
			if err != nil {
				return false, err
			}
			ok = re.MatchString(v) == (m.Op == "=~")
		}
		if !ok {
			return false, nil
		}
	}
	return true, nil
}

// literalRegex mirrors what "the regex is a plain literal" means: the whole pattern parses to one literal string
// (possibly under a top-level (?i)).
func literalRegex(p string) (lit string, fold bool, ok bool) {
	return regexLiteral(p)
}

func (o *oracle) lineFilter(op, val, line string) (bool, error) {
	switch op {
	case "|=", "!=":
		in, err := o.contains(line, val, false)
		if err != nil {
			return false, err
		}
		return in == (op == "|="), nil
	case "|~", "!~":
		want := op == "|~"
		if lit, fold, isLit := literalRegex(val); isLit && (o.rules.LikeTrimQuotes || o.rules.LikeRawBackslash) {
			in, err := o.contains(line, lit, fold)
			if err != nil {
				return false, err
			}
			return in == want, nil
		} else if !isLit && o.rules.NegRegexLineLost {
			want = true
		}
		re, err := o.re(val)
		if err != nil {
			return false, err
		}
		return re.MatchString(line) == want, nil
	}
	return false, fmt.Errorf("bad line filter op %q", op)
}

// contains is the substring test; under the deviant LIKE rules it evaluates the LIKE pattern that the deviant
// construction produces instead.
func (o *oracle) contains(line, val string, fold bool) (bool, error) {
	if !o.rules.LikeTrimQuotes && !o.rules.LikeRawBackslash {
		if fold {
			return strings.Contains(strings.ToLower(line), strings.ToLower(val)), nil
		}
		return strings.Contains(line, val), nil
	}
	pat, err := deviantLikePattern(val, o.rules.LikeTrimQuotes, o.rules.LikeRawBackslash)
	if err != nil {
		return false, err
	}
	rs, err := chsim.LikeToRegexp(pat)
	if err != nil {
		return false, err
	}
	flags := "(?s)"
	if fold {
		flags = "(?si)"
	}
	re, err := o.re(flags + rs)
	if err != nil {
		return false, err
	}
	return re.MatchString(line), nil
}

// deviantLikePattern reproduces, step by step, how a LIKE pattern is put together when the value's quote
// characters are removed with strings.Trim (trimBug) and/or backslashes are not LIKE-escaped (rawBackslash), and
// returns the pattern as ClickHouse receives it after decoding the SQL literal.
func deviantLikePattern(val string, trimBug, rawBackslash bool) (string, error) {
	return chsim.DecodeStringBody(deviantLikeLiteral(val, trimBug, rawBackslash), '\'')
}

// deviantLikeLiteral is the body of the SQL string literal (between the quotes) that the deviant construction
// writes into the statement.
func deviantLikeLiteral(val string, trimBug, rawBackslash bool) string {
	s := val
	if !rawBackslash {
		s = strings.ReplaceAll(s, `\`, `\\`)
	}
	// SQL string-literal escaping (sql_select.StringVal)
	find := []string{"\\", "\000", "\n", "\r", "\b", "\t", "\x1a", "'"}
	repl := []string{"\\\\", "\\0", "\\n", "\\r", "\\b", "\\t", "\\x1a", "\\'"}
	enq := s
	for i, f := range find {
		enq = strings.ReplaceAll(enq, f, repl[i])
	}
	if trimBug {
		enq = strings.Trim("'"+enq+"'", "'")
	}
	enq = strings.ReplaceAll(enq, "%", `\%`)
	enq = strings.ReplaceAll(enq, "_", `\_`)
	return "%" + enq + "%"
}

func (o *oracle) evalTree(t *Tree, labels map[string]string) (bool, error) {
	if t.Leaf == nil {
		l, err := o.evalTree(t.L, labels)
		if err != nil {
			return false, err
		}
		r, err := o.evalTree(t.R, labels)
		if err != nil {
			return false, err
		}
		if t.Op == "and" {
			return l && r, nil
		}
		return l || r, nil
	}
	lf := t.Leaf
	v := labels[lf.Label]
	if lf.Num != "" {
		want, err := strconv.ParseFloat(lf.Num, 64)
		if err != nil {
			return false, err
		}
		got, err := strconv.ParseFloat(v, 64)
		if err != nil || !plainNumber(v) {
			return false, nil
		}
		switch lf.Op {
		case "==":
			return got == want, nil
		case "!=":
			return got != want, nil
		case ">":
			return got > want, nil
		case ">=":
			return got >= want, nil
		case "<":
			return got < want, nil
		case "<=":
			return got <= want, nil
		}
		return false, fmt.Errorf("bad numeric op %q", lf.Op)
	}
	switch lf.Op {
	case "=":
		return v == lf.Str, nil
	case "!=":
		return v != lf.Str, nil
	case "=~", "!~":
		re, err := o.re(lf.Str)
		if err != nil {
			return false, err
		}
		return re.MatchString(v) == (lf.Op == "=~"), nil
	}
	return false, fmt.Errorf("bad string op %q", lf.Op)
}

// plainNumber: digits with optional sign / fraction only — the values on which every float parser agrees.
func plainNumber(s string) bool {
	if s == "" {
		return false
	}
	digits := 0
	for i, c := range s {
		switch {
		case c >= '0' && c <= '9':
			digits++
		case c == '.' && i > 0:
		case c == '-' && i == 0:
		default:
			return false
		}
	}
	return digits > 0
}

// jsonAt extracts the value at a json-stage path from a line.
func (o *oracle) jsonAt(line, path string) (string, bool) {
	segs, ok := parseJSONPath(path)
	if !ok {
		return "", false
	}
	var doc any
	dec := json.NewDecoder(strings.NewReader(line))
	dec.UseNumber()
	if err := dec.Decode(&doc); err != nil {
		return "", false
	}
	if dec.More() {
		return "", false
	}
	if o.rules.JSONLastSegment && len(segs) > 1 {
		// type test on the full path, extraction of the last segment at top level
		full, found := navigate(doc, segs, o.rules.JSONIndexAsKey)
		last, foundLast := navigate(doc, segs[len(segs)-1:], o.rules.JSONIndexAsKey)
		if _, isStr := full.(string); found && isStr {
			// JSONExtractString(line, last)
			if s, ok := last.(string); foundLast && ok {
				return s, true
			}
			if foundLast && last != nil {
				// JSONExtractString of a non-string element: outside chsim's certain semantics; the databases never
				// contain this combination
				return "\x00unsupported", true
			}
			return "", false
		}
		if !foundLast {
			return "", false
		}
		return compactJSON(last), true
	}
	v, found := navigate(doc, segs, o.rules.JSONIndexAsKey)
	if !found {
		return "", false
	}
	if s, ok := v.(string); ok {
		return s, true
	}
	return compactJSON(v), true
}

type pathSeg struct {
	key   string
	index int
	isIdx bool
}

func parseJSONPath(p string) ([]pathSeg, bool) {
	var segs []pathSeg
	i := 0
	for i < len(p) {
		switch {
		case p[i] == '.':
			i++
		case p[i] == '[':
			j := strings.IndexByte(p[i:], ']')
			if j < 0 {
				return nil, false
			}
			inner := p[i+1 : i+j]
			if len(inner) >= 2 && inner[0] == '"' {
				var s string
				if err := json.Unmarshal([]byte(inner), &s); err != nil {
					return nil, false
				}
				segs = append(segs, pathSeg{key: s})
			} else {
				n, err := strconv.Atoi(inner)
				if err != nil {
					return nil, false
				}
				segs = append(segs, pathSeg{index: n, isIdx: true})
			}
			i += j + 1
		default:
			j := i
			for j < len(p) && p[j] != '.' && p[j] != '[' {
				j++
			}
			segs = append(segs, pathSeg{key: p[i:j]})
			i = j
		}
	}
	return segs, len(segs) > 0
}

func navigate(doc any, segs []pathSeg, indexAsKey bool) (any, bool) {
	cur := doc
	for _, s := range segs {
		if s.isIdx && !indexAsKey {
			arr, ok := cur.([]any)
			if !ok || s.index < 0 || s.index >= len(arr) {
				return nil, false
			}
			cur = arr[s.index]
			continue
		}
		key := s.key
		if s.isIdx {
			key = strconv.Itoa(s.index + 1)
		}
		obj, ok := cur.(map[string]any)
		if !ok {
			return nil, false
		}
		v, ok := obj[key]
		if !ok {
			return nil, false
		}
		cur = v
	}
	return cur, true
}

func compactJSON(v any) string {
	if v == nil {
		return "null"
	}
	b, _ := json.Marshal(v)
	return string(b)
}

// regexpGroups extracts the named groups of the first match.
func (o *oracle) regexpGroups(pattern, line string) (map[string]string, error) {
	re, err := o.re(pattern)
	if err != nil {
		return nil, err
	}
	m := re.FindStringSubmatch(line)
	out := map[string]string{}
	if m == nil {
		return out, nil
	}
	for i, n := range re.SubexpNames() {
		if n != "" && m[i] != "" {
			out[n] = m[i]
		}
	}
	return out, nil
}

// Eval returns every line of db matched by the query inside the window (no limit applied), newest first.
func (o *oracle) Eval(db *Database, qu *Query, p Params) ([]Row, error) {
	var out []Row
	firstParser := len(qu.Stages)
	for i, s := range qu.Stages {
		if s.Kind == "json" || s.Kind == "regexp" {
			firstParser = i
			break
		}
	}
	for _, e := range db.Entries {
		st := db.Streams[e.Stream]
		if st.Type == 2 {
			continue
		}
		if e.TS < p.Start || e.TS >= p.End {
			continue
		}
		ok, err := o.matchStream(qu.Matchers, st.Labels)
		if err != nil {
			return nil, err
		}
		if !ok {
			continue
		}
		labels := make(map[string]string, len(st.Labels)+2)
		for k, v := range st.Labels {
			labels[k] = v
		}
		pass := true
		for i := range qu.Stages {
			s := &qu.Stages[i]
			if s.Kind == "label" && s.Chain != nil && o.rules.ChainRightNested {
				cp := *s
				cp.Tree = s.Chain.rightNestedTree()
				s = &cp
			}
			switch s.Kind {
			case "line":
				pass, err = o.lineFilter(s.Op, s.Val, e.Line)
			case "label":
				if o.rules.HoistedLabelFilter && i < firstParser {
					pass, err = o.evalTree(s.Tree, st.Labels)
				} else if (o.rules.LaterDropVisible || o.rules.LaterParserVisible) && (i > firstParser || dropBefore(qu, i)) {
					view := make(map[string]string, len(labels))
					for k, v := range labels {
						view[k] = v
					}
					inRun := false
					for j := i + 1; j < len(qu.Stages); j++ {
						sj := &qu.Stages[j]
						isParser := sj.Kind == "json" || sj.Kind == "regexp"
						if inRun && !isParser {
							break
						}
						if isParser {
							if !o.rules.LaterParserVisible {
								break
							}
							inRun = true
							if err = o.applyParser(sj, e.Line, view); err != nil {
								return nil, err
							}
						}
						if sj.Kind == "drop" && o.rules.LaterDropVisible {
							for _, d := range sj.Drops {
								if d.Val == nil || view[d.Label] == *d.Val {
									delete(view, d.Label)
								}
							}
						}
					}
					pass, err = o.evalTree(s.Tree, view)
				} else {
					pass, err = o.evalTree(s.Tree, labels)
				}
			case "json", "regexp":
				err = o.applyParser(s, e.Line, labels)
			case "drop":
				for _, d := range s.Drops {
					if d.Val == nil || labels[d.Label] == *d.Val {
						delete(labels, d.Label)
					}
				}
			}
			if err != nil {
				return nil, err
			}
			if !pass {
				break
			}
		}
		if !pass {
			continue
		}
		out = append(out, Row{Labels: canonLabels(labels), Line: e.Line, TS: e.TS})
	}
	return out, nil
}

// checkResult compares the implementation's rows with the oracle's full match set under limit/direction.  The
// order of the returned lines is not part of the statement; with ties at the cut-off timestamp any choice among the
// tied lines is accepted.
func checkResult(impl, full []Row, p Params) string {
	key := func(r Row) string { return fmt.Sprintf("%d|%s|%s", r.TS, r.Labels, r.Line) }
	cnt := map[string]int{}
	for _, r := range full {
		cnt[key(r)]++
	}
	if p.Limit == 0 || int64(len(full)) <= p.Limit {
		if len(impl) != len(full) {
			return fmt.Sprintf("returned %d lines, %d match", len(impl), len(full))
		}
		for _, r := range impl {
			k := key(r)
			cnt[k]--
			if cnt[k] < 0 {
				return fmt.Sprintf("returned a line that does not match (or with wrong labels): ts=%d labels=%s line=%q", r.TS, r.Labels, r.Line)
			}
		}
		return ""
	}
	if int64(len(impl)) != p.Limit {
		return fmt.Sprintf("limit %d: returned %d lines although %d match", p.Limit, len(impl), len(full))
	}
	// cut-off timestamp
	ts := make([]int64, len(full))
	for i, r := range full {
		ts[i] = r.TS
	}
	sort.Slice(ts, func(i, j int) bool {
		if p.Forward {
			return ts[i] < ts[j]
		}
		return ts[i] > ts[j]
	})
	cut := ts[p.Limit-1]
	got := map[string]int{}
	for _, r := range impl {
		k := key(r)
		cnt[k]--
		got[k]++
		if cnt[k] < 0 {
			return fmt.Sprintf("returned a line that does not match (or with wrong labels): ts=%d labels=%s line=%q", r.TS, r.Labels, r.Line)
		}
		if (p.Forward && r.TS > cut) || (!p.Forward && r.TS < cut) {
			return fmt.Sprintf("limit %d %s: returned ts=%d which is beyond the cut-off %d", p.Limit, dirName(p.Forward), r.TS, cut)
		}
	}
	for _, r := range full {
		strictlyInside := (p.Forward && r.TS < cut) || (!p.Forward && r.TS > cut)
		if strictlyInside && cnt[key(r)] > 0 {
			return fmt.Sprintf("limit %d %s: matching line ts=%d line=%q is missing although it is inside the cut-off %d", p.Limit, dirName(p.Forward), r.TS, r.Line, cut)
		}
	}
	return ""
}

func dirName(f bool) string {
	if f {
		return "forward"
	}
	return "backward"
}

func dropBefore(qu *Query, i int) bool {
	for j := 0; j < i; j++ {
		if qu.Stages[j].Kind == "drop" {
			return true
		}
	}
	return false
}

// applyParser adds the labels a json / regexp stage extracts from the line.
func (o *oracle) applyParser(s *Stage, line string, labels map[string]string) error {
	switch s.Kind {
	case "json":
		for _, jp := range s.JSON {
			if v, found := o.jsonAt(line, jp.Path); found {
				labels[jp.Label] = v
			} else {
				labels[jp.Label] = ""
			}
		}
	case "regexp":
		g, err := o.regexpGroups(s.Val, line)
		if err != nil {
			return err
		}
		for k, v := range g {
			labels[k] = v
		}
	}
	return nil
}
