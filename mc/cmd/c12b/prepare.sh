# instrument the in-process LogQL engine and the row scanner for engine E1 (C12b: schedules x faults); sourced by bin/check
go build -modfile="$scratch/mod/go.mod" -o "$scratch/bin/rewrite" ./mc/rewrite || return 1
files=$(cd "$VERIF_REPO" && ls reader/logql/logql_transpiler_v2/internal_planner/*.go | grep -v _test.go)
"$scratch/bin/rewrite" -repo "$VERIF_REPO" -out "$scratch/inst" -overlay "$scratch/overlay.json" $files \
   reader/logql/logql_transpiler_v2/shared/planner_clickhouse_getter.go \
   reader/logql/logql_transpiler_v2/shared/errors.go \
   reader/logql/logql_transpiler_v2/planner_from_fix.go reader/logql/logql_transpiler_v2/planner_zero_eater.go \
   reader/logql/logql_transpiler_v2/planner_matrix_step.go 2>"$scratch/rewrite.log" || { cat "$scratch/rewrite.log" >&2; return 1; }
