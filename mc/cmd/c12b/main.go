// C12b: no query can hang or leak work on the read side — schedules x faults (engine E1).
//
// The real LogQL processor chain (ClickhouseGetterPlanner.Scan/ScanMatrix -> in-process stages -> limit /
// response optimizer / step fix / zero eater) is planned by the real Transpile/Plan, instrumented through the build
// overlay, and run under the controlled scheduler over a scripted database/sql driver.  A consumer behaves the way
// reader/service/queryRangeService.go does (drains until the channel closes; stops at the first error entry); the
// environment may fail a row, and the client may go away (context cancelled) at any moment.
// The database may also return a row far outside the requested window (a panic inside an aggregation stage).
//
// Oracle (every execution): no deadlock, and at the end every goroutine started for the request has finished — a
// thread parked forever on a channel operation is a leaked goroutine; the consumer saw the channel close or an
// error entry (exactly one terminal state).
package main

import (
	"context"
	"database/sql"
	"database/sql/driver"
	"fmt"
	"io"
	"os"
	"runtime"
	"sort"
	"strings"
	"sync"
	"time"

	clconfig "github.com/metrico/cloki-config/config"
	"github.com/metrico/qryn/reader/logql/logql_parser"
	transpiler "github.com/metrico/qryn/reader/logql/logql_transpiler_v2"
	"github.com/metrico/qryn/reader/logql/logql_transpiler_v2/shared"
	"github.com/metrico/qryn/reader/model"
	"github.com/metrico/qryn/reader/utils/logger"
	sqlsel "github.com/metrico/qryn/reader/utils/sql_select"
	"github.com/metrico/qryn/reader/utils/tables"
	"github.com/sirupsen/logrus"

	"verif/mc/ev"
	"verif/mc/sched"
	"verif/mc/sched/vctx"
)

// ---------------------------------------------------------------------------------------------------
// scripted driver: every query returns the same n rows; row k may fail (environment choice)

type rowSpec struct {
	fp     uint64
	labels map[string]string
	msg    string
	val    float64
	ts     int64
}

type drv struct{}

var (
	curMu   sync.Mutex
	curRows []rowSpec
	curMat  bool
	// curRogue: the scenario offers the out-of-window row as an environment choice (cfg.Rogue)
	curRogue bool
	// rogueTaken: the out-of-window row was served in the current execution
	rogueTaken bool
)

func (drv) Open(string) (driver.Conn, error) { return &conn{}, nil }

type conn struct{}

func (*conn) Prepare(q string) (driver.Stmt, error) { return nil, fmt.Errorf("not supported") }
func (*conn) Close() error                          { return nil }
func (*conn) Begin() (driver.Tx, error)             { return nil, fmt.Errorf("not supported") }
func (*conn) QueryContext(ctx context.Context, q string, args []driver.NamedValue) (driver.Rows, error) {
	return &rows{rs: curRows, mat: curMat}, nil
}

type rows struct {
	rs  []rowSpec
	mat bool
	i   int
}

func (r *rows) Columns() []string {
	if r.mat {
		return []string{"fingerprint", "labels", "value", "timestamp_ns"}
	}
	return []string{"fingerprint", "labels", "string", "timestamp_ns"}
}
func (r *rows) Close() error { return nil }
func (r *rows) Next(dest []driver.Value) error {
	if r.i >= len(r.rs) {
		return io.EOF
	}
	// the database may fail in the middle of the result set
	if r.i == len(r.rs)/2 && sched.Choose("row-fails", 2, true) == 1 {
		return fmt.Errorf("injected: connection lost at row %d", r.i)
	}
	x := r.rs[r.i]
	// a disobedient database: the middle row lies far outside the window the statement asked for (the in-process
	// aggregators index their buckets with it: a panic inside a stage, which must end in an error entry and a closed
	// channel on every schedule)
	if curRogue && r.i == len(r.rs)/2 && sched.Choose("row-out-of-window", 2, true) == 1 {
		x.ts += int64(1e15)
		rogueTaken = true
	}
	r.i++
	dest[0] = x.fp
	dest[1] = x.labels
	if r.mat {
		dest[2] = x.val
	} else {
		dest[2] = x.msg
	}
	dest[3] = x.ts
	return nil
}

type fakeDB struct{ db *sql.DB }

func (f *fakeDB) GetName() string { return "c12b" }
func (f *fakeDB) QueryCtx(ctx context.Context, q string, args ...any) (*sql.Rows, error) {
	// the request context is deliberately not handed to database/sql: its watcher goroutine would close the rows
	// from an uncontrolled thread when the context is cancelled (a real race, but one the scheduler cannot replay);
	// cancellation reaches the scanner through ctx.Ctx.Done(), which is what the code under test selects on
	sched.Op(sched.OpYield)
	return f.db.QueryContext(context.Background(), q)
}
func (f *fakeDB) ExecCtx(ctx context.Context, q string, args ...any) error { return nil }
func (f *fakeDB) Conn(ctx context.Context) (*sql.Conn, error)              { return nil, fmt.Errorf("no") }
func (f *fakeDB) Begin() (*sql.Tx, error)                                  { return nil, fmt.Errorf("no") }
func (f *fakeDB) Close()                                                   {}

// ---------------------------------------------------------------------------------------------------

type cfg struct {
	Query  string
	Rows   int // rows returned by the database (101 and 201 make the scanner send 2 and 3 messages)
	Limit  int64
	StepMs int64
	Cancel bool // a "client goes away" thread cancels the request context at an arbitrary moment
	Series int
	// Rogue: a disobedient database — the environment may return the middle row far outside the requested window
	// (fault choice "row-out-of-window"): the aggregation stage that indexes its buckets with the timestamp panics
	Rogue bool
}

func (c cfg) Name() string {
	n := fmt.Sprintf("%s|rows%d|limit%d|step%d|cancel%v|series%d", c.Query, c.Rows, c.Limit, c.StepMs, c.Cancel, c.Series)
	if c.Rogue {
		n += "|rogue"
	}
	return n
}

type scenario struct {
	c      cfg
	script *logql_parser.LogQLScript
}

func (s *scenario) Name() string { return s.c.Name() }

type obs struct {
	planErr      error
	procErr      error
	messages     int
	entries      int
	sawErr       string
	closed       bool
	consumerDone bool
	rogueRow     bool
}

var db *sql.DB

func (s *scenario) Run() any {
	o := &obs{}
	c := s.c
	if s.script == nil {
		sc, err := logql_parser.Parse(c.Query)
		if err != nil {
			panic(sched.HarnessError{Msg: "query does not parse: " + c.Query + ": " + err.Error()})
		}
		s.script = sc
	}
	chain, err := transpiler.Plan(s.script)
	if err != nil {
		o.planErr = err
		return o
	}
	matrix := chain[0].IsMatrix()
	rs := make([]rowSpec, c.Rows)
	base := int64(1700000000) * 1e9
	for i := range rs {
		ser := i * c.Series / c.Rows // rows ordered by fingerprint, as the SQL orders them
		rs[i] = rowSpec{fp: uint64(100 + ser), labels: map[string]string{"a": "b", "s": fmt.Sprint(ser)},
			msg: fmt.Sprintf(`{"x":"%d","lvl":"e"} k=v n=%d`, i%3, i), val: float64(i%5 + 1), ts: base + int64(i%7)*1e9}
	}
	curRows, curMat, curRogue = rs, matrix, c.Rogue
	rogueTaken = false
	ctx, cancel := vctx.WithCancel(context.Background())
	pctx := tables.PopulateTableNames(&shared.PlannerContext{
		From: time.Unix(1700000000, 0), To: time.Unix(1700000010, 0), Limit: c.Limit, Ctx: ctx, CancelCtx: cancel,
		CHDb: &fakeDB{db}, CHFinalize: true, Step: time.Duration(c.StepMs) * time.Millisecond,
		CHSqlCtx: &sqlsel.Ctx{Params: map[string]sqlsel.SQLObject{}, Result: map[string]sqlsel.SQLObject{}},
	}, &model.DataDatabasesMap{Config: &clconfig.ClokiBaseDataBase{}})
	sched.GoNamed("request", false, func() {
		out, err := chain[0].Process(pctx, nil)
		if err != nil {
			o.procErr = err
			o.consumerDone = true
			return
		}
		// consumer = exportStreamsValue / the matrix loop of QueryRange: drain; stop at the first error entry
		for entries := range sched.RangeChan(out) {
			o.messages++
			for _, e := range entries {
				if e.Err == io.EOF {
					continue
				}
				if e.Err != nil {
					o.sawErr = e.Err.Error()
					o.consumerDone = true
					return
				}
				o.entries++
			}
		}
		o.closed = true
		o.consumerDone = true
	})
	if c.Cancel {
		sched.GoNamed("client-gone", false, func() { cancel() })
	}
	return o
}

func (s *scenario) Check(x any, res *sched.Result) (string, []sched.Finding) {
	o, _ := x.(*obs)
	if o != nil {
		o.rogueRow = rogueTaken
	}
	if o == nil {
		panic(sched.HarnessError{Msg: "driver thread did not complete: " + res.Failure + " " + strings.Join(res.Trace, "\n")})
	}
	if o.planErr != nil {
		return "plan-error", nil
	}
	var fs []sched.Finding
	site := func(list []string) string {
		// class by the place where the leaked goroutine is parked (stable across schedules)
		var ss []string
		for _, u := range list {
			if i := strings.Index(u, "@"); i >= 0 {
				u = u[i+1:]
			}
			ss = append(ss, u)
		}
		return strings.Join(ss, ",")
	}
	switch {
	case strings.HasPrefix(res.Failure, "panic"):
		fs = append(fs, sched.Finding{Class: "panic_in_pipeline_goroutine", What: res.Failure})
	case res.Failure == "deadlock":
		if !o.consumerDone {
			fs = append(fs, sched.Finding{Class: "request_blocked_forever", What: "consumer never saw the end of the result: " + site(res.Unfinished)})
		} else if o.rogueRow {
			// the database returned a row outside the window in this execution (the aggregation stage panics and
			// is recovered): its own explanation — the recover path does not drain the stage's upstream — kept
			// apart from leaks after an ordinary stage error
			fs = append(fs, sched.Finding{Class: "goroutine_leaked_after_row_out_of_window", What: "after the request ended (a row outside the window made a stage panic) these goroutines are parked forever: " + site(res.Unfinished)})
		} else {
			fs = append(fs, sched.Finding{Class: "goroutine_leaked", What: "after the request ended these goroutines are parked forever: " + site(res.Unfinished)})
		}
	case res.Failure == "horizon":
		fs = append(fs, sched.Finding{Class: "pipeline_livelock", What: "horizon exceeded: " + site(res.Unfinished)})
	}
	out := "closed"
	if o.procErr != nil {
		out = "process-error"
	} else if o.sawErr != "" {
		out = "error-entry"
	}
	return fmt.Sprintf("%s|msgs=%d|entries=%d|%s", out, o.messages, o.entries, res.Failure), fs
}

func scenarios(thorough bool) []sched.Scenario {
	queries := []string{
		`{a="b"}`,
		`{a="b"} | json`,
		`{a="b"} | json | x="1"`,
		`{a="b"} | logfmt | line_format "{{.k}}"`,
		`{a="b"} | json | drop x`,
		`count_over_time({a="b"} | json [5s])`,
		`sum by (x) (count_over_time({a="b"} | json [5s]))`,
		`rate({a="b"} | logfmt | k="v" [5s])`,
		`sum_over_time({a="b"} | json | unwrap x [5s]) by (s)`,
		`rate({a="b"}[5s])`,
		`sum by (s) (rate({a="b"}[5s]))`,
		`topk(1, count_over_time({a="b"} | json [5s]))`,
		`count_over_time({a="b"} | json [5s]) > 1`,
	}
	var out []sched.Scenario
	// a stage error in the MIDDLE of the result set: the aggregator gives up at its 2001st series while the scanner
	// still has batches to deliver (the only run-time stage error left since unparsable lines are no longer fatal)
	for _, cancel := range []bool{false, true} {
		out = append(out, &scenario{c: cfg{Query: `count_over_time({a="b"} | json [5s])`, Rows: 2250, Limit: 100, StepMs: 5000, Cancel: cancel, Series: 2250}})
	}
	for _, q := range queries {
		for _, rows := range []int{3, 101} {
			for _, limit := range []int64{1, 100} {
				for _, cancel := range []bool{false, true} {
					out = append(out, &scenario{c: cfg{Query: q, Rows: rows, Limit: limit, StepMs: 5000, Cancel: cancel, Series: 2}})
				}
			}
		}
		// disobedient database: scenarios of their own (explored and reported apart from the obedient ones), for the
		// queries with a range aggregation; 101 rows = the stage panics while the scanner still has a batch to send
		if strings.Contains(q, "[") {
			for _, rows := range []int{3, 101} {
				for _, cancel := range []bool{false, true} {
					if rows == 3 && cancel && !thorough {
						continue
					}
					out = append(out, &scenario{c: cfg{Query: q, Rows: rows, Limit: 100, StepMs: 5000, Cancel: cancel, Series: 2, Rogue: true}})
				}
			}
		}
		if thorough {
			out = append(out, &scenario{c: cfg{Query: q, Rows: 201, Limit: 150, StepMs: 5000, Cancel: true, Series: 3}})
			out = append(out, &scenario{c: cfg{Query: q, Rows: 101, Limit: 0, StepMs: 1000, Cancel: true, Series: 1}})
		}
	}
	return out
}

var all []sched.Scenario

func lookup(n string) sched.Scenario {
	for _, s := range all {
		if s.Name() == n {
			return s
		}
	}
	return nil
}

func main() {
	logger.Logger.SetOutput(io.Discard)
	logrus.SetOutput(io.Discard)
	sql.Register("c12b", drv{})
	var err error
	db, err = sql.Open("c12b", "")
	if err != nil {
		ev.Fatal("sql.Open: %v", err)
	}
	db.SetMaxOpenConns(0)
	all = scenarios(true)
	if sched.IsWorker() {
		sched.WorkerMain(lookup)
		return
	}
	part := os.Getenv("VERIF_PART")
	r := ev.StartPart("C12", part, "model_checking", 40*time.Second, 12*time.Minute)
	r.Rule = "C12b: stateless DFS (engine E1, delay-bounded) over schedules x {database fails at the middle row, database returns the middle row far outside the window (stage panic), client goes away at any moment} of the real LogQL processor chain per scenario (query x result-set size x limit x cancel thread); distinct = observed outcome classes"
	r.Assumptions = append(r.Assumptions, "C12b: the request context is not passed to database/sql (its watcher goroutine is outside the scheduler); cancellation reaches the code through ctx.Ctx.Done()")
	if r.Replay != "" {
		replay(r)
		return
	}
	scs := all
	if !r.Thorough() {
		scs = scenarios(false)
	}
	if only := os.Getenv("C12B_ONLY"); only != "" { // debugging aid: scenarios whose name contains the text
		var f []sched.Scenario
		for _, s := range scs {
			if strings.Contains(s.Name(), only) {
				f = append(f, s)
			}
		}
		scs = f
	}
	passes := []struct {
		name string
		b    sched.Bounds
	}{
		{"sync-points P<=1 F<=1", sched.Bounds{Preempt: 1, Faults: 1, Horizon: 20000, NoYields: true}},
	}
	if r.Thorough() {
		passes = append(passes, struct {
			name string
			b    sched.Bounds
		}{"sync-points P<=2 F<=1", sched.Bounds{Preempt: 2, Faults: 1, Horizon: 20000, NoYields: true}})
	}
	var report []map[string]any
	var allViol []sched.Replay
	total := &sched.Stats{}
	for _, p := range passes {
		if time.Now().After(r.Deadline) {
			r.Cap("C12b pass not started: " + p.name)
			continue
		}
		t0 := time.Now()
		// obedient and disobedient database scenarios are explored as two batches: sched keeps at most 100 findings
		// per batch, and a flood from one family must not crowd out a finding of the other
		var obedient, rogue []sched.Scenario
		for _, s := range scs {
			if strings.HasSuffix(s.Name(), "|rogue") {
				rogue = append(rogue, s)
			} else {
				obedient = append(obedient, s)
			}
		}
		st, ex, left := sched.Explore(obedient, p.b, runtime.NumCPU(), r.Deadline, 20)
		allViol = append(allViol, st.Violations...)
		if len(rogue) > 0 {
			st2, ex2, left2 := sched.Explore(rogue, p.b, runtime.NumCPU(), r.Deadline, 2000)
			allViol = append(allViol, st2.Violations...)
			st.Merge(st2)
			ex, left = ex && ex2, left+left2
		}
		report = append(report, map[string]any{"pass": p.name, "bounds": p.b, "completed": ex, "executions": st.Executions, "subtrees_left": left, "wall_s": time.Since(t0).Seconds(), "distinct_outcomes": len(st.Outcomes)})
		fmt.Printf("[C12b] pass %-24s executions=%-8d outcomes=%-3d completed=%v left=%d %.1fs\n", p.name, st.Executions, len(st.Outcomes), ex, left, time.Since(t0).Seconds())
		if !ex {
			r.Cap(fmt.Sprintf("C12b pass cut by the deadline: %s (%d subtrees unexplored)", p.name, left))
		}
		total.Merge(st)
	}
	if total.Diverged > 0 || total.Unreproducible > 0 {
		r.Cap(fmt.Sprintf("%d executions diverged from their prefix and %d findings did not reproduce (uncaptured nondeterminism; nothing was concluded from them): %v", total.Diverged, total.Unreproducible, total.Notes))
	}
	r.Extra["c12b_diverged_executions"], r.Extra["c12b_unreproducible_findings"] = total.Diverged, total.Unreproducible
	r.AddEval(total.Executions)
	r.States += total.Points
	r.Transitions += total.Steps
	r.TracesValidated += total.Executions
	for k := range total.Outcomes {
		r.Distinct("c12b:" + k)
	}
	r.Extra["c12b_passes"] = report
	r.Extra["c12b_scenarios"] = len(scs)
	r.Sample(map[string]any{"c12b_scenario": scs[len(scs)/2].Name()})
	for _, v := range allViol {
		cls := v.Class
		// the parking site names the defect; keep it in the class so that different leaks are different findings
		if i := strings.Index(v.What, ": "); i >= 0 && (strings.HasPrefix(cls, "goroutine_leaked") || cls == "request_blocked_forever") {
			sites := strings.ReplaceAll(v.What[i+2:], " ", "")
			if cls == "goroutine_leaked_after_row_out_of_window" {
				// the cause is in the class name already; of the parking sites only the packages are kept, so that
				// the class (listed as known until D126 is fixed) survives a renaming of the stage functions
				sites = packagesOf(sites)
			}
			cls += ":" + sites
		}
		r.Violate(cls, v.Scn+": "+v.What, v)
	}
	r.Finish()
}

// packagesOf reduces "chan(internal_planner.(*ParserPlanner).Process.func2),chan(shared.(*X).Scan)" to
// "internal_planner+shared".
func packagesOf(sites string) string {
	seen := map[string]bool{}
	var out []string
	for _, s := range strings.Split(sites, ",") {
		s = strings.TrimPrefix(s, "chan(")
		p, _, _ := strings.Cut(s, ".")
		if p != "" && !seen[p] {
			seen[p] = true
			out = append(out, p)
		}
	}
	sort.Strings(out)
	return strings.Join(out, "+")
}

func replay(r *ev.Run) {
	rp, res, outcome, fs, err := sched.ReplayFile(r.Replay, lookup)
	if err != nil {
		ev.Fatal("replay: %v", err)
	}
	fmt.Println(strings.Join(res.Trace, "\n"))
	fmt.Println("outcome:", outcome, "failure:", res.Failure)
	r.AddEval(1)
	r.States, r.Transitions, r.TracesValidated = int64(len(res.Points)), int64(res.Steps), 1
	for _, f := range fs {
		r.Violate(f.Class, f.What, rp)
	}
	r.Finish()
}
