package main

import (
	"bytes"
	"compress/gzip"
	"encoding/base64"
	"fmt"
	"strings"
)

// Variant is one value of the Authorization header (or its absence).  The probe (package main of the repository,
// see _overlay/zz_verif_c20_test.go) only sends it; Class is decided here by the reference reading of RFC 7617
// below and never looks at how the variant was generated.
type Variant struct {
	ID             string `json:"id"`
	Header         string `json:"header"`
	Header2        string `json:"header2"` // second Authorization header line (when Second)
	Second         bool   `json:"second"`
	Absent         bool   `json:"absent"`
	Phase          string `json:"phase"`
	TCP            bool   `json:"tcp"`
	MayPass        bool   `json:"may_pass"`         // lenient-right shape: either outcome is accepted
	PrimeSameRoute bool   `json:"prime_same_route"` // history phase: also sent right after the right credentials on the same route
	PathVariants   bool   `json:"path_variants"`    // class representative: also sent to the path variants of every route

	Combos      []int `json:"combos"`       // request-header combinations sent with this value (indexes into Config.Combos)
	TCPCombos   []int `json:"tcp_combos"`   // ... also through main()'s real listener
	ProbeCombos []int `json:"probe_combos"` // ... with methods that are not registered on the path

	Family string `json:"family,omitempty"` // generation family: names the violation class when a variant is wrongly let through
	Class  string `json:"-"`
}

// Reference classes (what the statement of C20 demands for each):
//
//	absent         no Authorization header                                   -> 401, no handler, no database
//	wrong          "Basic" SP strict-base64(user ":" pass), pair != config   -> 401, no handler, no database
//	malformed      anything that is not such a header and does not carry
//	               the right pair under any lenient reading                  -> 400 or 401, no handler, no database
//	right          "Basic" SP strict-base64(login ":" password)             -> let through
//	right_lenient  carries exactly the right pair, but only under a lenient
//	               reading (scheme in another case, extra blanks around the
//	               token, non-canonical base64 padding bits)                 -> either outcome is accepted
const (
	clsAbsent    = "absent"
	clsWrong     = "wrong"
	clsMalformed = "malformed"
	clsRight     = "right"
	clsLenient   = "right_lenient"
)

func classify(absent bool, h, login, pass string) string {
	if absent {
		return clsAbsent
	}
	want := login + ":" + pass
	strict := func(tok string) (string, bool) {
		b, err := base64.StdEncoding.Strict().DecodeString(tok)
		if err != nil || strings.ContainsAny(tok, "\r\n") {
			return "", false
		}
		return string(b), true
	}
	sp := strings.IndexByte(h, ' ')
	if sp >= 0 && h[:sp] == "Basic" {
		if p, ok := strict(h[sp+1:]); ok {
			if !strings.Contains(p, ":") {
				return clsMalformed
			}
			if p == want {
				return clsRight
			}
			return clsWrong
		}
	}
	// lenient readings: case-insensitive scheme, blanks around the token, non-strict base64
	f := strings.Fields(h)
	if len(f) == 2 && strings.EqualFold(f[0], "Basic") && strings.Trim(h, " \t") != "" {
		if b, err := base64.StdEncoding.DecodeString(f[1]); err == nil && string(b) == want {
			return clsLenient
		}
	}
	return clsMalformed
}

// classifyVariant: a repeated Authorization header is free (either outcome) when one of its values is the exactly
// right one — the statement does not say which line counts — and must be rejected when none is.
func classifyVariant(v Variant, login, pass string) string {
	c := classify(v.Absent, v.Header, login, pass)
	if !v.Second {
		return c
	}
	c2 := classify(false, v.Header2, login, pass)
	if c == clsRight || c2 == clsRight || c == clsLenient || c2 == clsLenient {
		return clsLenient
	}
	if c == clsWrong && c2 == clsWrong {
		return clsWrong
	}
	return clsMalformed
}

func b64(s string) string { return base64.StdEncoding.EncodeToString([]byte(s)) }

func headerSafe(h string) bool { // can net/http's client send this header value?
	for i := 0; i < len(h); i++ {
		c := h[i]
		if c == '\t' {
			continue
		}
		if c < 0x20 || c == 0x7f {
			return false
		}
	}
	return h == strings.TrimSpace(h) // leading/trailing blanks are stripped on the wire
}

// Alphabet builds the full Authorization alphabet for one configured login/password pair.
func Alphabet(login, pass string, thorough bool) []Variant {
	var out []Variant
	seen := map[string]bool{}
	add := func(family, id, header string) {
		if seen[header] {
			return
		}
		seen[header] = true
		out = append(out, Variant{ID: id, Header: header, Family: family})
	}
	pair := login + ":" + pass
	ok := b64(pair)
	out = append(out, Variant{ID: "absent", Absent: true, Family: "absent"})
	add("empty_header", "empty", "")
	add("other_scheme", "bearer_x", "Bearer x")
	add("other_scheme", "bearer_okpayload", "Bearer "+ok)
	add("other_scheme", "digest_okpayload", "Digest "+ok)
	add("other_scheme", "negotiate_okpayload", "Negotiate "+ok)
	add("scheme_case", "scheme_lower", "basic "+ok)
	add("scheme_case", "scheme_upper", "BASIC "+ok)
	add("no_payload", "basic_only", "Basic")
	add("no_payload", "basic_space", "Basic ")
	add("no_payload", "payload_only", ok)
	add("no_separator", "basic_nosep", "Basic"+ok)
	add("bad_base64", "basic_bangs", "Basic !!!")
	add("bad_base64", "basic_plain_pair", "Basic "+pair)
	add("no_colon", "b64_user_only", "Basic "+b64(login))
	add("no_colon", "b64_pair_nocolon", "Basic "+b64(login+pass))
	add("no_colon", "b64_pair_semicolon", "Basic "+b64(login+";"+pass))
	add("empty_part", "b64_colon_only", "Basic "+b64(":"))
	add("empty_part", "b64_user_emptypass", "Basic "+b64(login+":"))
	add("empty_part", "b64_emptyuser_pass", "Basic "+b64(":"+pass))
	add("wrong_user", "user_plus_x", "Basic "+b64(login+"x:"+pass))
	add("wrong_user", "x_plus_user", "Basic "+b64("x"+login+":"+pass))
	add("wrong_user", "user_nul", "Basic "+b64(login+"\x00:"+pass))
	add("case_fold", "user_upper", "Basic "+b64(strings.ToUpper(login)+":"+pass))
	add("case_fold", "pass_upper", "Basic "+b64(login+":"+strings.ToUpper(pass)))
	add("case_fold", "pass_swapcase", "Basic "+b64(login+":"+swapCase(pass)))
	add("wrong_password", "x_plus_pass", "Basic "+b64(login+":x"+pass))
	add("wrong_password", "pass_other", "Basic "+b64(login+":"+strings.Repeat("x", len(pass))))
	add("swapped", "pass_colon_user", "Basic "+b64(pass+":"+login))
	add("double_pair", "pair_twice", "Basic "+b64(pair+":"+pair))
	for k := 0; k < len(pair); k++ { // every proper prefix of the right pair
		add("proper_prefix", fmt.Sprintf("prefix_%02d", k), "Basic "+b64(pair[:k]))
	}
	for k := 1; k < len(pair); k++ { // every proper suffix
		if thorough || k == len(login)+1 || k == 1 {
			add("proper_suffix", fmt.Sprintf("suffix_%02d", k), "Basic "+b64(pair[k:]))
		}
	}
	for _, sfx := range []string{"x", "\x00", " ", "\n", ":", "\xff"} { // right pair + suffix byte
		add("pair_plus_suffix", fmt.Sprintf("pair_plus_%x", sfx), "Basic "+b64(pair+sfx))
	}
	add("pair_plus_suffix", "pair_plus_colon_x", "Basic "+b64(pair+":x"))
	// right base64 followed / preceded by garbage
	garbage := []string{"!", "=", "A", "AB", "ABC", "==", "%", "-", ",", ".", "A=", "!!!!", "=AAAA"}
	if thorough {
		garbage = append(garbage, "@", "_", "~", "A!", "====", "*", "AAAAA", "\\")
	}
	for _, g := range garbage {
		add("right_b64_plus_garbage", fmt.Sprintf("ok_plus_%x", g), "Basic "+ok+g)
	}
	add("right_b64_plus_valid_quantum", "ok_plus_AAAA", "Basic "+ok+"AAAA")
	// tokens of exactly the right token's length that cannot be decoded, or only up to a point: the first k quanta of
	// the right token followed by filler (every k): whatever a decoder leaves in a reused buffer must not be compared
	for _, fill := range []string{"=", "!", "-", "A="} {
		for k := 0; k*4 < len(ok); k++ {
			rest := len(ok) - 4*k
			f := strings.Repeat(fill, rest/len(fill)+1)[:rest]
			add("same_length_undecodable", fmt.Sprintf("ok_q%d_fill_%x", k, fill), "Basic "+ok[:4*k]+f)
		}
	}
	add("same_length_undecodable", "ok_len_plus4_pad", "Basic "+strings.Repeat("=", len(ok)+4))
	add("same_length_undecodable", "ok_len_minus4_pad", "Basic "+strings.Repeat("=", max(len(ok)-4, 0)))
	add("garbage_plus_right_b64", "bang_plus_ok", "Basic !"+ok)
	add("garbage_plus_right_b64", "AAAA_plus_ok", "Basic AAAA"+ok)
	add("right_b64_truncated", "ok_minus_1", "Basic "+ok[:len(ok)-1])
	add("right_b64_truncated", "ok_unpadded", "Basic "+strings.TrimRight(ok, "="))
	add("right_b64_other_alphabet", "ok_urlsafe", "Basic "+base64.URLEncoding.EncodeToString([]byte(pair)))
	add("right_b64_other_alphabet", "ok_hex", "Basic "+fmt.Sprintf("%x", pair))
	// lenient-right shapes (either outcome allowed; recorded)
	add("blank_padding", "two_spaces", "Basic  "+ok)
	add("blank_padding", "tab_sep", "Basic\t"+ok)
	add("blank_padding", "trailing_space", "Basic "+ok+" ")
	add("blank_padding", "leading_space", " Basic "+ok)
	if nc := nonCanonical(ok); nc != "" {
		add("noncanonical_padding_bits", "ok_noncanonical", "Basic "+nc)
	}
	add("right_then_second_token", "ok_then_token", "Basic "+ok+" x")
	add("comma_list", "ok_comma_bearer", "Basic "+ok+", Bearer x")
	// ---- near misses of the exactly right ENCODED header (the families above mutate the decoded credentials)
	const b64abc = "ABCDEFGHIJKLMNOPQRSTUVWXYZabcdefghijklmnopqrstuvwxyz0123456789+/"
	flip := func(c byte) (byte, bool) {
		switch {
		case c >= 'a' && c <= 'z':
			return c - 32, true
		case c >= 'A' && c <= 'Z':
			return c + 32, true
		}
		return c, false
	}
	repl := func(i int, c string) string { return ok[:i] + c + ok[i+1:] }
	for i := 0; i < len(ok); i++ {
		c := ok[i]
		if f, isLetter := flip(c); isLetter {
			add("encoded_case_flip", fmt.Sprintf("enc_flip_%02d", i), "Basic "+repl(i, string(f)))
		}
		if k := strings.IndexByte(b64abc, c); k >= 0 {
			add("encoded_neighbour_symbol", fmt.Sprintf("enc_next_%02d", i), "Basic "+repl(i, string(b64abc[(k+1)%64])))
			add("encoded_neighbour_symbol", fmt.Sprintf("enc_prev_%02d", i), "Basic "+repl(i, string(b64abc[(k+63)%64])))
		}
		switch c {
		case '+':
			add("encoded_other_alphabet_symbol", fmt.Sprintf("enc_urlsafe_%02d", i), "Basic "+repl(i, "-"))
		case '/':
			add("encoded_other_alphabet_symbol", fmt.Sprintf("enc_urlsafe_%02d", i), "Basic "+repl(i, "_"))
		case '=':
			add("encoded_padding", fmt.Sprintf("enc_pad_to_A_%02d", i), "Basic "+repl(i, "A"))
		case 'K', 'k':
			add("encoded_unicode_fold", fmt.Sprintf("enc_kelvin_%02d", i), "Basic "+repl(i, "\u212a"))
		case 'S', 's':
			add("encoded_unicode_fold", fmt.Sprintf("enc_long_s_%02d", i), "Basic "+repl(i, "\u017f"))
		}
	}
	add("encoded_padding", "enc_pad_plus1", "Basic "+ok+"=")
	add("encoded_padding", "enc_pad_plus2", "Basic "+ok+"==")
	if strings.HasSuffix(ok, "=") {
		add("encoded_padding", "enc_pad_minus1", "Basic "+ok[:len(ok)-1])
		add("encoded_padding", "enc_pad_none", "Basic "+strings.TrimRight(ok, "="))
	}
	lower, upper, swapped := strings.ToLower(ok), strings.ToUpper(ok), swapCase(ok)
	add("encoded_whole_case", "enc_lower", "Basic "+lower)
	add("encoded_whole_case", "enc_upper", "Basic "+upper)
	add("encoded_whole_case", "enc_swapcase", "Basic "+swapped)
	nearMisses := []string{lower, swapped}
	for i := 0; i < len(ok); i++ {
		if f, isLetter := flip(ok[i]); isLetter {
			nearMisses = append(nearMisses, repl(i, string(f)))
			break
		}
	}
	for _, scheme := range []string{"basic", "BASIC", "bAsIc"} {
		add("scheme_case", "scheme_"+scheme+"_right", scheme+" "+ok) // exactly right payload: free (either outcome)
		for j, nm := range nearMisses {
			add("scheme_case_near_miss", fmt.Sprintf("scheme_%s_nm%d", scheme, j), scheme+" "+nm)
		}
	}
	for j, nm := range nearMisses {
		add("blank_padding_near_miss", fmt.Sprintf("two_spaces_nm%d", j), "Basic  "+nm)
		add("blank_padding_near_miss", fmt.Sprintf("tab_sep_nm%d", j), "Basic\t"+nm)
		add("blank_padding_near_miss", fmt.Sprintf("trailing_space_nm%d", j), "Basic "+nm+" ")
		add("blank_padding_near_miss", fmt.Sprintf("trailing_tab_nm%d", j), "Basic "+nm+"\t")
		add("blank_padding_near_miss", fmt.Sprintf("leading_space_nm%d", j), " Basic "+nm)
	}
	add("blank_padding", "trailing_tab", "Basic "+ok+"\t")
	add("blank_padding", "leading_tab", "\tBasic "+ok)
	// a repeated header line
	wrongHdr := "Basic " + b64(login+":x"+pass)
	out = append(out,
		Variant{ID: "two_headers_right_wrong", Header: "Basic " + ok, Header2: wrongHdr, Second: true, Family: "repeated_header"},
		Variant{ID: "two_headers_wrong_right", Header: wrongHdr, Header2: "Basic " + ok, Second: true, Family: "repeated_header"},
		Variant{ID: "two_headers_wrong_nearmiss", Header: wrongHdr, Header2: "Basic " + lower, Second: true, Family: "repeated_header_all_wrong"},
		Variant{ID: "two_headers_nearmiss_wrong", Header: "Basic " + swapped, Header2: wrongHdr, Second: true, Family: "repeated_header_all_wrong"})
	out = append(out, Variant{ID: "right", Header: "Basic " + ok, Family: "right"})

	tcpDone := map[string]bool{}
	for i := range out {
		v := &out[i]
		v.Class = classifyVariant(*v, login, pass)
		v.MayPass = v.Class == clsLenient
		v.PrimeSameRoute = v.Family == "same_length_undecodable" || fullProductReps[v.ID]
		v.PathVariants = fullProductReps[v.ID]
		switch v.Class {
		case clsRight:
			v.Phase = "allow"
		case clsAbsent, clsWrong:
			v.Phase = "deny"
		default:
			// malformed / lenient shapes may be let through by a defective (or lenient) implementation; they are
			// sent after the fake database switched to fail-fast so that a handler reaching it cannot stall the run
			v.Phase = "late"
		}
		if v.Family == "other_scheme" || v.Family == "no_payload" || v.Family == "empty_header" {
			v.Phase = "deny"
		}
		if headerSafe(v.Header) && (!v.Second || headerSafe(v.Header2)) && tcpFamilies[v.Family] && !tcpDone[v.Family] {
			v.TCP, tcpDone[v.Family] = true, true
		}
	}
	return out
}

// families also sent through the real TCP listener of main(), first variant of each (the point of the TCP pass is
// that what main() really serves behaves like the walked router; the full alphabet goes through the router in process)
var tcpFamilies = map[string]bool{"absent": true, "other_scheme": true, "wrong_password": true, "wrong_user": true,
	"proper_prefix": true, "right_b64_plus_garbage": true, "scheme_case": true, "no_payload": true, "right": true,
	"pair_plus_suffix": true, "empty_part": true,
	"encoded_case_flip": true, "encoded_whole_case": true, "scheme_case_near_miss": true, "repeated_header": true, "repeated_header_all_wrong": true}

func swapCase(s string) string {
	b := []byte(s)
	for i, c := range b {
		switch {
		case c >= 'a' && c <= 'z':
			b[i] = c - 32
		case c >= 'A' && c <= 'Z':
			b[i] = c + 32
		}
	}
	return string(b)
}

// nonCanonical flips an unused padding bit of a padded base64 string: the non-strict decoder yields the same bytes.
func nonCanonical(ok string) string {
	if !strings.HasSuffix(ok, "=") {
		return ""
	}
	const abc = "ABCDEFGHIJKLMNOPQRSTUVWXYZabcdefghijklmnopqrstuvwxyz0123456789+/"
	i := strings.IndexByte(ok, '=') - 1
	c := strings.IndexByte(abc, ok[i])
	if c < 0 || c&1 == 1 {
		return ""
	}
	out := []byte(ok)
	out[i] = abc[c|1]
	if b, err := base64.StdEncoding.DecodeString(string(out)); err != nil || !bytes.Equal(b, mustDecode(ok)) {
		return ""
	}
	return string(out)
}

func mustDecode(s string) []byte { b, _ := base64.StdEncoding.DecodeString(s); return b }

// ---------------------------------------------------------------------------------------------------------------
// request-header vocabulary of the router-wide middlewares (everything except Authorization)

// Combo is one combination of request headers sent along with an Authorization value.
type Combo struct {
	ID      string      `json:"id"`
	Headers [][2]string `json:"headers"`
	Body    []byte      `json:"body,omitempty"`
}

// VariedHeaders: every request header the product varies.  The reporter reads the repository's middleware source
// (static.go ScanHeaderReads) and refuses to run (exit 2) if it reads a header that is not in this list.
var VariedHeaders = map[string][]string{
	"Authorization":                  nil, // the Authorization alphabet above
	"Accept-Encoding":                {"", "gzip", "deflate", "gzip;q=0", "*"},
	"Origin":                         {"", "http://evil"},
	"Access-Control-Request-Method":  {"", "GET", "POST", "garbage"},
	"Access-Control-Request-Headers": {"", "authorization"},
	"Content-Encoding":               {"", "gzip"},
	"Referer":                        {"", "http://evil/page"},
	"User-Agent":                     {"", "verif-c20/1.0"},
	// headers proxies / browsers add and that "smart" middleware likes to trust: each on its own with every method and
	// credential class representative
	"X-Forwarded-For":        {"", "127.0.0.1"},
	"X-Forwarded-Proto":      {"", "https"},
	"X-Forwarded-Host":       {"", "localhost"},
	"X-Real-Ip":              {"", "127.0.0.1"},
	"X-Http-Method-Override": {"", "OPTIONS"},
	"Upgrade":                {"", "websocket"},
	"Connection":             {"", "Upgrade", "close"},
	"Sec-Fetch-Mode":         {"", "cors"},
	"Cookie":                 {"", "session=1"},
}

// VariedSettings: every configuration field / environment variable the middleware wiring (the functions that call
// router.Use) may branch on, and how the configuration alphabet covers it.  ScanWiringSettings (static.go) finds the
// settings really used in if-conditions there; an unknown one is exit 2.
var VariedSettings = map[string]string{
	"AUTH_SETTINGS.BASIC.Username": "always set (premise of the property), several credential pairs",
	"AUTH_SETTINGS.BASIC.Password": "always set (premise of the property), several credential pairs",
	"HTTP_SETTINGS.Cors.Enable":    "off and on (CORS_ALLOW_ORIGIN unset / set), crossed with MODE and the credential pairs",
	"HTTP_SETTINGS.Cors.Origin":    "on: `*` (thorough: also a specific origin)",
	"SYSTEM_SETTINGS.Mode":         "reader and writer (all needs ClickHouse for initDB)",
	"HTTP_SETTINGS.Port":           "free loopback port (value irrelevant to the chain)",
	"env:MODE":                     "reader and writer",
	"ownHttpServer":                "false: main() hands its router to reader.Init (the stand-alone reader server is not started by main())",
}

type comboSets struct {
	All    []Combo
	Base   []int // Accept-Encoding {absent,gzip} x Origin {absent,evil}: sent with every Authorization value
	Full   []int // full product Accept-Encoding x Origin x ACR-Method x ACR-Headers x Content-Encoding (+ Referer, User-Agent singly)
	Single []int // base + every header value on its own (+ Origin for the preflight headers): sent with the right credentials
	Cors   []int // Origin x ACR-Method x ACR-Headers: sent with methods that are not registered on a path
	TCP    []int // base + a handful, through the real listener
}

func buildCombos() comboSets {
	var cs comboSets
	idx := map[string]int{}
	gzBody := gzipBytes([]byte("{}"))
	add := func(hs [][2]string) int {
		var parts []string
		var keep [][2]string
		var body []byte
		for _, h := range hs {
			if h[1] == "" {
				continue
			}
			keep = append(keep, h)
			parts = append(parts, h[0]+"="+h[1])
			if h[0] == "Content-Encoding" {
				body = gzBody
			}
		}
		id := strings.Join(parts, " & ")
		if id == "" {
			id = "(none)"
		}
		if i, ok := idx[id]; ok {
			return i
		}
		idx[id] = len(cs.All)
		cs.All = append(cs.All, Combo{ID: id, Headers: keep, Body: body})
		return len(cs.All) - 1
	}
	for _, ae := range []string{"", "gzip"} {
		for _, og := range VariedHeaders["Origin"] {
			cs.Base = append(cs.Base, add([][2]string{{"Accept-Encoding", ae}, {"Origin", og}}))
		}
	}
	for _, ae := range VariedHeaders["Accept-Encoding"] {
		for _, og := range VariedHeaders["Origin"] {
			for _, m := range VariedHeaders["Access-Control-Request-Method"] {
				for _, h := range VariedHeaders["Access-Control-Request-Headers"] {
					for _, ce := range VariedHeaders["Content-Encoding"] {
						cs.Full = append(cs.Full, add([][2]string{{"Accept-Encoding", ae}, {"Origin", og},
							{"Access-Control-Request-Method", m}, {"Access-Control-Request-Headers", h}, {"Content-Encoding", ce}}))
					}
				}
			}
		}
	}
	for _, og := range VariedHeaders["Origin"] {
		for _, m := range VariedHeaders["Access-Control-Request-Method"] {
			for _, h := range VariedHeaders["Access-Control-Request-Headers"] {
				cs.Cors = append(cs.Cors, add([][2]string{{"Origin", og}, {"Access-Control-Request-Method", m}, {"Access-Control-Request-Headers", h}}))
			}
		}
	}
	cs.Single = append(cs.Single, cs.Base...)
	for _, name := range []string{"Accept-Encoding", "Access-Control-Request-Method", "Access-Control-Request-Headers", "Content-Encoding", "Referer", "User-Agent",
		"X-Forwarded-For", "X-Forwarded-Proto", "X-Forwarded-Host", "X-Real-Ip", "X-Http-Method-Override", "Upgrade", "Connection", "Sec-Fetch-Mode", "Cookie"} {
		for _, v := range VariedHeaders[name] {
			if v == "" {
				continue
			}
			i := add([][2]string{{name, v}})
			cs.Single = append(cs.Single, i)
			if !strings.HasPrefix(name, "Access-Control-") && name != "Accept-Encoding" && name != "Content-Encoding" {
				cs.Full = append(cs.Full, i)
			}
			if strings.HasPrefix(name, "Access-Control-") {
				cs.Single = append(cs.Single, add([][2]string{{"Origin", "http://evil"}, {name, v}}))
			}
		}
	}
	ws := add([][2]string{{"Connection", "Upgrade"}, {"Upgrade", "websocket"}})
	cs.Full, cs.Single = append(cs.Full, ws), append(cs.Single, ws)
	cs.TCP = append(cs.TCP, cs.Base...)
	cs.TCP = append(cs.TCP,
		add([][2]string{{"Origin", "http://evil"}, {"Access-Control-Request-Method", "GET"}}),
		add([][2]string{{"Origin", "http://evil"}, {"Access-Control-Request-Method", "POST"}, {"Access-Control-Request-Headers", "authorization"}}),
		add([][2]string{{"Accept-Encoding", "deflate"}}),
		add([][2]string{{"Content-Encoding", "gzip"}}))
	cs.Single, cs.Full, cs.TCP = dedupInts(cs.Single), dedupInts(cs.Full), dedupInts(cs.TCP)
	return cs
}

func dedupInts(l []int) []int {
	seen := map[int]bool{}
	var out []int
	for _, x := range l {
		if !seen[x] {
			seen[x] = true
			out = append(out, x)
		}
	}
	return out
}

func gzipBytes(b []byte) []byte {
	var out bytes.Buffer
	w := gzip.NewWriter(&out)
	w.Write(b)
	w.Close()
	return out.Bytes()
}

// representatives that get the FULL header product in the quick tier (thorough: the first value of every family)
var fullProductReps = map[string]bool{"absent": true, "empty": true, "bearer_okpayload": true, "basic_bangs": true,
	"x_plus_pass": true, "user_plus_x": true, "b64_user_emptypass": true}

// assignCombos decides which header combinations go with which Authorization value.
func assignCombos(vs []Variant, cs comboSets, thorough bool) {
	famSeen := map[string]bool{}
	for i := range vs {
		v := &vs[i]
		switch {
		case v.Class == clsRight:
			v.Combos = cs.Single
		case fullProductReps[v.ID] || (thorough && !famSeen[v.Family]) || v.ID == lastProperPrefixID(vs):
			v.Combos = dedupInts(append(append([]int{}, cs.Base...), cs.Full...))
		default:
			v.Combos = cs.Base
		}
		famSeen[v.Family] = true
		if v.TCP {
			v.TCPCombos = cs.TCP
		}
		if v.ID == "absent" || v.ID == "x_plus_pass" {
			v.ProbeCombos = cs.Cors
		}
	}
}

func lastProperPrefixID(vs []Variant) string {
	id := ""
	for _, v := range vs {
		if v.Family == "proper_prefix" {
			id = v.ID
		}
	}
	return id
}
