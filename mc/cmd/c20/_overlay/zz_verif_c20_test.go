//go:build verif

// Probe half of check C20 (see /verif/mc/cmd/c20/main.go for the oracle half).
//
// This file is ADDED to package main of the repository through `go test -overlay`; the repository itself is never
// touched.  It runs the REAL main() with basic auth configured, takes the *mux.Router that main() serves out of
// http.DefaultServeMux, walks it and sends the request list prepared by the reporter through it.  It decides
// nothing: every observation is written as one JSON line to $VERIF_C20_OUT and judged by the reporter.
package main

import (
	"bufio"
	"bytes"
	"context"
	"encoding/json"
	"fmt"
	"io"
	"net"
	"net/http"
	"net/http/httptest"
	"os"
	"reflect"
	"regexp"
	"sort"
	"strconv"
	"strings"
	"sync"
	"sync/atomic"
	"testing"
	"time"

	chproto "github.com/ClickHouse/ch-go/proto"
	"github.com/gorilla/mux"
	"github.com/metrico/qryn/writer/ch_wrapper"
	controllerv1 "github.com/metrico/qryn/writer/controller"
	"github.com/metrico/qryn/writer/plugins"
	"github.com/metrico/qryn/writer/service"
	"github.com/metrico/qryn/writer/service/registry"
)

// ---------------------------------------------------------------------------------------------------------------
// configuration handed over by the reporter

type c20Variant struct {
	ID          string `json:"id"`
	Header      string `json:"header"`  // value of the Authorization header ("" + Absent => header not sent)
	Header2     string `json:"header2"` // value of a second Authorization header line (when Second)
	Second      bool   `json:"second"`
	Absent      bool   `json:"absent"`
	Combos      []int  `json:"combos"`       // request-header combinations (indexes into Config.Combos) sent with this value
	TCPCombos   []int  `json:"tcp_combos"`   // ... through the real listener
	ProbeCombos []int  `json:"probe_combos"` // ... with methods that are not registered on the path ([0] = OPTIONS, [1] = others)
	Phase       string `json:"phase"`        // order of sending: "deny" (must be rejected) first, then "late" (malformed / lenient
	// shapes that a defective or lenient implementation may let through), then "allow" (right credentials)
	TCP            bool `json:"tcp"`              // also sent through the real listener
	MayPass        bool `json:"may_pass"`         // lenient-right shape: being let through is acceptable
	PathVariants   bool `json:"path_variants"`    // class representative: also sent to the path variants of every route
	PrimeSameRoute bool `json:"prime_same_route"` // phase "after": also preceded by the right credentials on the same route
}

type c20Config struct {
	Name       string       `json:"name"`
	Mode       string       `json:"mode"`
	CorsOrigin string       `json:"cors_origin"` // "" = CORS off
	Login      string       `json:"login"`
	Password   string       `json:"password"`
	Variants   []c20Variant `json:"variants"`
	Combos     []c20Combo   `json:"header_combos"` // the request-header vocabulary product, built by the reporter
	ExtraMeth  []string     `json:"extra_methods"` // unregistered-method probes sent to every walked path
	ProbePaths []string     `json:"probe_paths"`   // unregistered paths probed through the real listener
	Only       *c20Only     `json:"only"`          // replay: send only this request
}

type c20Combo struct {
	ID      string      `json:"id"`
	Headers [][2]string `json:"headers"`
	Body    []byte      `json:"body"` // sent when the combination carries a Content-Encoding
}

type c20Only struct {
	Path, Method, VariantID, Combo, Via string
}

// ---------------------------------------------------------------------------------------------------------------
// fake ClickHouse endpoint: answers the native-protocol handshake (server hello) and pings (pong), which is all
// the repository's background machinery does on its own (the writer's per-service ping every second, the
// reader's watchdog ping).  ANY other client packet (query, data, cancel, ...) is a database interaction caused
// by a request: it is counted and the connection is closed, so the handler that sent it fails fast.

type c20FakeDB struct {
	ln                                net.Listener
	conns, hellos, pings, interaction int64
}

func c20StartFakeDB() (*c20FakeDB, int) {
	ln, err := net.Listen("tcp", "127.0.0.1:0")
	if err != nil {
		panic(err)
	}
	f := &c20FakeDB{ln: ln}
	go func() {
		for {
			c, err := ln.Accept()
			if err != nil {
				return
			}
			atomic.AddInt64(&f.conns, 1)
			go f.serve(c)
		}
	}()
	return f, ln.Addr().(*net.TCPAddr).Port
}

func (f *c20FakeDB) serve(c net.Conn) {
	defer c.Close()
	r := chproto.NewReader(c)
	code, err := r.UVarInt()
	if err != nil {
		return // closed without a byte (port probe)
	}
	if code != uint64(chproto.ClientCodeHello) {
		atomic.AddInt64(&f.interaction, 1)
		return
	}
	var hello chproto.ClientHello
	if err := hello.Decode(r); err != nil {
		atomic.AddInt64(&f.interaction, 1)
		return
	}
	atomic.AddInt64(&f.hellos, 1)
	// revision below the "addendum" feature (54458): nothing follows the client hello
	sh := chproto.ServerHello{Name: "verif-fake", Major: 22, Minor: 8, Revision: 54451, Timezone: "UTC", DisplayName: "verif", Patch: 1}
	var b chproto.Buffer
	sh.EncodeAware(&b, 54451)
	if _, err := c.Write(b.Buf); err != nil {
		return
	}
	for {
		code, err := r.UVarInt()
		if err != nil {
			return
		}
		if code == uint64(chproto.ClientCodePing) {
			atomic.AddInt64(&f.pings, 1)
			var pb chproto.Buffer
			pb.PutUVarInt(uint64(chproto.ServerCodePong))
			if _, err := c.Write(pb.Buf); err != nil {
				return
			}
			continue
		}
		atomic.AddInt64(&f.interaction, 1) // query / data / anything else: a request reached the database
		return
	}
}

// count = database interactions (client packets other than hello / ping)
func (f *c20FakeDB) count() int64 { return atomic.LoadInt64(&f.interaction) }

func (f *c20FakeDB) stats() map[string]int64 {
	return map[string]int64{"connections": atomic.LoadInt64(&f.conns), "hellos": atomic.LoadInt64(&f.hellos),
		"pings": atomic.LoadInt64(&f.pings), "interactions": atomic.LoadInt64(&f.interaction)}
}

// ---------------------------------------------------------------------------------------------------------------
// pass-through observers

var c20HandlerEntries int64 // total handler entries (any walked route)

type c20CountingHandler struct {
	inner http.Handler
	idx   int
	per   *int64
}

func (h c20CountingHandler) ServeHTTP(w http.ResponseWriter, r *http.Request) {
	atomic.AddInt64(&c20HandlerEntries, 1)
	atomic.AddInt64(h.per, 1)
	h.inner.ServeHTTP(w, r)
}

var c20RegistryCalls int64 // insert-service look-ups through writer/controller.Registry (writer mode)

type c20CountingRegistry struct{ inner registry.IServiceRegistry }

func (c c20CountingRegistry) hit() { atomic.AddInt64(&c20RegistryCalls, 1) }
func (c c20CountingRegistry) GetTimeSeriesService(id string) (service.IInsertServiceV2, error) {
	c.hit()
	return c.inner.GetTimeSeriesService(id)
}
func (c c20CountingRegistry) GetSamplesService(id string) (service.IInsertServiceV2, error) {
	c.hit()
	return c.inner.GetSamplesService(id)
}
func (c c20CountingRegistry) GetMetricsService(id string) (service.IInsertServiceV2, error) {
	c.hit()
	return c.inner.GetMetricsService(id)
}
func (c c20CountingRegistry) GetSpansService(id string) (service.IInsertServiceV2, error) {
	c.hit()
	return c.inner.GetSpansService(id)
}
func (c c20CountingRegistry) GetSpansSeriesService(id string) (service.IInsertServiceV2, error) {
	c.hit()
	return c.inner.GetSpansSeriesService(id)
}
func (c c20CountingRegistry) GetProfileInsertService(id string) (service.IInsertServiceV2, error) {
	c.hit()
	return c.inner.GetProfileInsertService(id)
}
func (c c20CountingRegistry) Run()  { c.inner.Run() }
func (c c20CountingRegistry) Stop() { c.inner.Stop() }

// ---------------------------------------------------------------------------------------------------------------
// output

type c20Out struct {
	mu sync.Mutex
	w  *bufio.Writer
	f  *os.File
}

func (o *c20Out) emit(v any) {
	b, err := json.Marshal(v)
	if err != nil {
		panic(err)
	}
	o.mu.Lock()
	o.w.Write(b)
	o.w.WriteByte('\n')
	o.mu.Unlock()
}
func (o *c20Out) flush() { o.mu.Lock(); o.w.Flush(); o.f.Sync(); o.mu.Unlock() }

type c20Route struct {
	Idx           int      `json:"idx"`
	Template      string   `json:"template"`
	Prefix        bool     `json:"prefix"`
	Methods       []string `json:"methods"`                  // empty = any
	MethodsProbed bool     `json:"methods_probed,omitempty"` // no method matcher declared: Methods = the menu methods the router dispatches to it
	Queries       []string `json:"queries,omitempty"`
	Host          string   `json:"host,omitempty"`
	HasHandle     bool     `json:"has_handler"`
	Mount         bool     `json:"mount,omitempty"` // handler is itself a *mux.Router (walked recursively)
	URL           string   `json:"url"`             // concrete URL used for this route ("" = none found)
	MatchIdx      int      `json:"match_idx"`       // route the concrete URL is dispatched to (first registered method)
	Depth         int      `json:"depth"`
	hits          *int64
}

type c20Record struct {
	T         string `json:"t"` // "req"
	Via       string `json:"via"`
	Phase     string `json:"phase"`
	Route     int    `json:"route"`
	Path      string `json:"path"`
	Method    string `json:"method"`
	Reg       bool   `json:"registered_method"`
	Variant   string `json:"variant"`
	Combo     string `json:"combo"`
	PathVar   string `json:"path_variant,omitempty"`
	Status    int    `json:"status"`
	Body      string `json:"body"` // first 48 bytes of the (decoded) body
	WWWAuth   string `json:"www_auth,omitempty"`
	ContEnc   string `json:"content_encoding,omitempty"`
	ACAO      string `json:"acao,omitempty"`
	DHandler  int64  `json:"d_handler"`
	DReg      int64  `json:"d_registry"`
	DDB       int64  `json:"d_db"`
	Timeout   bool   `json:"timeout,omitempty"`
	Abandoned bool   `json:"abandoned,omitempty"` // handler entered and still running after the grace period
	Panic     string `json:"panic,omitempty"`
	Err       string `json:"err,omitempty"`
	MS        int64  `json:"-"`
}

// ---------------------------------------------------------------------------------------------------------------

func c20FreePort() int {
	l, err := net.Listen("tcp", "127.0.0.1:0")
	if err != nil {
		panic(err)
	}
	p := l.Addr().(*net.TCPAddr).Port
	l.Close()
	return p
}

// patterns registered on http.DefaultServeMux, read through reflection (there is no public enumeration).
func c20DefaultMuxPatterns() []string {
	var out []string
	defer func() {
		if e := recover(); e != nil {
			out = append(out, fmt.Sprintf("<reflection failed: %v>", e))
		}
	}()
	v := reflect.ValueOf(http.DefaultServeMux).Elem()
	seen := map[string]bool{}
	add := func(e reflect.Value) {
		if e.Kind() == reflect.Ptr {
			if e.IsNil() {
				return
			}
			e = e.Elem()
		}
		s := e.FieldByName("str")
		if !s.IsValid() {
			return
		}
		str := s.String()
		if l := e.FieldByName("loc"); l.IsValid() && l.String() != "" {
			str += " @ " + l.String()
		}
		if !seen[str] {
			seen[str] = true
			out = append(out, str)
		}
	}
	if p := v.FieldByName("patterns"); p.IsValid() { // go 1.22/1.23
		for i := 0; i < p.Len(); i++ {
			add(p.Index(i))
		}
	}
	if idx := v.FieldByName("index"); idx.IsValid() { // go >= 1.22
		if seg := idx.FieldByName("segments"); seg.IsValid() && seg.Kind() == reflect.Map {
			it := seg.MapRange()
			for it.Next() {
				l := it.Value()
				for i := 0; i < l.Len(); i++ {
					add(l.Index(i))
				}
			}
		}
		if m := idx.FieldByName("multis"); m.IsValid() {
			for i := 0; i < m.Len(); i++ {
				add(m.Index(i))
			}
		}
	}
	if m := v.FieldByName("mux121"); m.IsValid() {
		if mm := m.FieldByName("m"); mm.IsValid() && mm.Kind() == reflect.Map {
			for _, k := range mm.MapKeys() {
				out = append(out, "mux121:"+k.String())
			}
		}
	}
	if m := v.FieldByName("m"); m.IsValid() && m.Kind() == reflect.Map { // go < 1.22
		for _, k := range m.MapKeys() {
			out = append(out, k.String())
		}
	}
	sort.Strings(out)
	return out
}

// TCP ports this process listens on (from /proc): main() must not open a second, differently protected server.
func c20ListeningPorts() []int {
	inodes := map[string]bool{}
	fds, _ := os.ReadDir("/proc/self/fd")
	for _, fd := range fds {
		if l, err := os.Readlink("/proc/self/fd/" + fd.Name()); err == nil && strings.HasPrefix(l, "socket:[") {
			inodes[strings.TrimSuffix(strings.TrimPrefix(l, "socket:["), "]")] = true
		}
	}
	seen := map[int]bool{}
	for _, f := range []string{"/proc/self/net/tcp", "/proc/self/net/tcp6"} {
		b, err := os.ReadFile(f)
		if err != nil {
			continue
		}
		for i, line := range strings.Split(string(b), "\n") {
			fs := strings.Fields(line)
			if i == 0 || len(fs) < 10 || fs[3] != "0A" || !inodes[fs[9]] {
				continue
			}
			if k := strings.LastIndexByte(fs[1], ':'); k >= 0 {
				if p, err := strconv.ParseInt(fs[1][k+1:], 16, 32); err == nil {
					seen[int(p)] = true
				}
			}
		}
	}
	var out []int
	for p := range seen {
		out = append(out, p)
	}
	sort.Ints(out)
	return out
}

var c20VarRe = regexp.MustCompile(`\{[^{}]*(\{[^{}]*\}[^{}]*)*\}`)

// concrete strings for a template with {name} / {name:pattern} variables.
func c20Instantiate(tpl string) []string {
	cands := []string{"x", "1", "a1", "0123456789abcdef0123456789abcdef", "x.y"}
	var out []string
	for _, c := range cands {
		out = append(out, c20VarRe.ReplaceAllString(tpl, c))
	}
	return out
}

var noCombo = c20Combo{ID: "-"}

func TestVerifC20(t *testing.T) {
	cfgPath := os.Getenv("VERIF_C20_CONFIG")
	outPath := os.Getenv("VERIF_C20_OUT")
	if cfgPath == "" || outPath == "" {
		t.Skip("VERIF_C20_CONFIG / VERIF_C20_OUT not set")
	}
	var cfg c20Config
	raw, err := os.ReadFile(cfgPath)
	if err != nil {
		t.Fatal(err)
	}
	if err := json.Unmarshal(raw, &cfg); err != nil {
		t.Fatal(err)
	}
	of, err := os.Create(outPath)
	if err != nil {
		t.Fatal(err)
	}
	out := &c20Out{w: bufio.NewWriterSize(of, 1<<20), f: of}
	defer out.flush()
	fatal := func(format string, a ...any) {
		out.emit(map[string]any{"t": "fatal", "msg": fmt.Sprintf(format, a...)})
		out.flush()
		t.Fatalf(format, a...)
	}

	db, dbPort := c20StartFakeDB()
	httpPort := c20FreePort()
	for _, k := range []string{"CLOKI_LOGIN", "CLOKI_PASSWORD", "CORS_ALLOW_ORIGIN", "PYROSCOPE_SERVER_ADDRESS", "CLUSTER_NAME",
		"CLICKHOUSE_AUTH", "CLICKHOUSE_PROTO", "SELF_SIGNED_CERT", "BULK_MAX_SIZE_BYTES", "BULK_MAX_AGE_MS",
		"ADVANCED_PROMETHEUS_MAX_SAMPLES", "SAMPLES_DAYS", "STORAGE_POLICY", "ADVANCED_SAMPLES_ORDERING", "READONLY",
		"OMIT_CREATE_TABLES"} {
		os.Unsetenv(k)
	}
	os.Setenv("QRYN_LOGIN", cfg.Login)
	os.Setenv("QRYN_PASSWORD", cfg.Password)
	os.Setenv("key", "true") // main.go boolEnv reads the literal variable "key": skips initDB (no ClickHouse here)
	os.Setenv("HOST", "127.0.0.1")
	os.Setenv("PORT", strconv.Itoa(httpPort))
	os.Setenv("CLICKHOUSE_SERVER", "127.0.0.1")
	os.Setenv("CLICKHOUSE_PORT", strconv.Itoa(dbPort))
	os.Setenv("CLICKHOUSE_DB", "verif")
	os.Setenv("MODE", cfg.Mode)
	if cfg.CorsOrigin != "" {
		os.Setenv("CORS_ALLOW_ORIGIN", cfg.CorsOrigin)
	}
	// the writer's start-up health check would query ClickHouse; the repository's own plugin registry allows
	// replacing it
	plugins.RegisterHealthCheckPlugin(func(conn ch_wrapper.IChClient, isDistributed bool) {})

	mainStart := time.Now()
	mainDied := make(chan string, 1)
	go func() {
		defer func() {
			if e := recover(); e != nil {
				mainDied <- fmt.Sprintf("main() panicked: %v", e)
			} else {
				mainDied <- "main() returned"
			}
		}()
		main()
	}()

	// wait until main() mounted its router and listens
	var router *mux.Router
	deadline := time.Now().Add(20 * time.Second)
	for router == nil {
		select {
		case msg := <-mainDied:
			fatal("%s", msg)
		default:
		}
		if time.Now().After(deadline) {
			fatal("main() did not mount a handler on http.DefaultServeMux within 20s")
		}
		rq, _ := http.NewRequest("GET", "/", nil)
		h, pattern := http.DefaultServeMux.Handler(rq)
		if pattern == "/" {
			r, ok := h.(*mux.Router)
			if !ok {
				fatal("handler mounted at / on http.DefaultServeMux is %T, not *mux.Router", h)
			}
			router = r
			break
		}
		time.Sleep(5 * time.Millisecond)
	}
	addr := fmt.Sprintf("127.0.0.1:%d", httpPort)
	for {
		c, err := net.DialTimeout("tcp", addr, time.Second)
		if err == nil {
			c.Close()
			break
		}
		select {
		case msg := <-mainDied:
			fatal("%s", msg)
		default:
		}
		if time.Now().After(deadline) {
			fatal("main() does not listen on %s", addr)
		}
		time.Sleep(5 * time.Millisecond)
	}

	// ---- walk, wrap every handler with a pass-through entry counter
	var routes []*c20Route
	byRoute := map[*mux.Route]int{}
	var walkFn mux.WalkFunc
	nestedDepth := 0
	walkFn = func(route *mux.Route, _ *mux.Router, ancestors []*mux.Route) error {
		r := &c20Route{Idx: len(routes), Depth: len(ancestors) + nestedDepth, hits: new(int64), MatchIdx: -1}
		if tpl, err := route.GetPathTemplate(); err == nil {
			r.Template = tpl
		}
		if m, err := route.GetMethods(); err == nil {
			r.Methods = m
		}
		if q, err := route.GetQueriesTemplates(); err == nil {
			r.Queries = q
		}
		if h, err := route.GetHostTemplate(); err == nil {
			r.Host = h
		}
		if rx, err := route.GetPathRegexp(); err == nil && !strings.HasSuffix(rx, "$") {
			r.Prefix = true
		}
		byRoute[route] = r.Idx
		routes = append(routes, r)
		if h := route.GetHandler(); h != nil {
			if nested, ok := h.(*mux.Router); ok {
				// another router mounted as a plain handler (Walk does not descend into it by itself): its
				// routes are reachable through this one, walk them too; the mount point itself is not a leaf
				r.Mount = true
				nestedDepth += 1 + len(ancestors)
				err := nested.Walk(walkFn)
				nestedDepth -= 1 + len(ancestors)
				return err
			}
			r.HasHandle = true
			route.Handler(c20CountingHandler{inner: h, idx: r.Idx, per: r.hits})
		}
		return nil
	}
	err = router.Walk(walkFn)
	if err != nil {
		fatal("Walk: %v", err)
	}
	if controllerv1.Registry != nil {
		controllerv1.Registry = c20CountingRegistry{inner: controllerv1.Registry}
	}

	// concrete URL per route
	menu := []string{"GET", "POST", "PUT", "DELETE", "PATCH", "HEAD", "OPTIONS"}
	for _, r := range routes {
		if !r.HasHandle {
			continue
		}
		// methods to try: the declared ones, or — for a route without a method matcher, which may still restrict the
		// method through a custom MatcherFunc — every method of the menu; the ones that really match are recorded
		tryMeths := r.Methods
		if len(tryMeths) == 0 {
			tryMeths = menu
		}
		var cands []string
		if r.Template == "" {
			// a route without a path matcher (e.g. router.Methods("OPTIONS")): any path reaches it
			cands = append(cands, "/zz-verif-any-path", "/")
		}
		for _, p := range c20Instantiate(r.Template) {
			if p == "" {
				continue
			}
			if r.Prefix {
				cands = append(cands, strings.TrimSuffix(p, "/")+"/zz-verif", p)
			} else {
				cands = append(cands, p)
			}
		}
		for _, p := range cands {
			u := p
			if len(r.Queries) > 0 {
				var qs []string
				for _, q := range r.Queries {
					qs = append(qs, c20Instantiate(q)[0])
				}
				u += "?" + strings.Join(qs, "&")
			}
			var matched []string
			for _, meth := range tryMeths {
				rq := httptest.NewRequest(meth, u, nil)
				if r.Host != "" {
					rq.Host = c20Instantiate(r.Host)[0]
				}
				var m mux.RouteMatch
				if router.Match(rq, &m) && m.MatchErr == nil && m.Route != nil {
					matched = append(matched, meth)
					if r.URL == "" {
						r.URL = u
						if i, ok := byRoute[m.Route]; ok {
							r.MatchIdx = i
						}
					}
				}
			}
			if r.URL != "" {
				if len(r.Methods) == 0 {
					r.Methods = matched // what the route really accepts (custom matchers included)
					r.MethodsProbed = true
				}
				break
			}
		}
	}

	out.emit(map[string]any{"t": "header", "config": cfg.Name, "mode": cfg.Mode, "cors": cfg.CorsOrigin,
		"routes": routes, "default_mux_patterns": c20DefaultMuxPatterns(), "http_addr": addr,
		"not_found_handler": fmt.Sprintf("%T", router.NotFoundHandler), "method_not_allowed_handler": fmt.Sprintf("%T", router.MethodNotAllowedHandler),
		"listening_ports": c20ListeningPorts(), "http_port": httpPort, "db_port": dbPort,
		"ready_ms": time.Since(mainStart).Milliseconds()})
	out.flush()

	// ---- request machinery
	type reqSpec struct {
		route  *c20Route
		path   string
		method string
		reg    bool
		v      c20Variant
		combo  int
	}
	build := func(s reqSpec, base string) *http.Request {
		var rq *http.Request
		cb := noCombo
		if s.combo >= 0 && s.combo < len(cfg.Combos) {
			cb = cfg.Combos[s.combo]
		}
		if base == "" {
			if len(cb.Body) > 0 {
				rq = httptest.NewRequest(s.method, s.path, bytes.NewReader(cb.Body))
			} else {
				rq = httptest.NewRequest(s.method, s.path, nil)
			}
		} else {
			if len(cb.Body) > 0 {
				rq, _ = http.NewRequest(s.method, base+s.path, bytes.NewReader(cb.Body))
			} else {
				rq, _ = http.NewRequest(s.method, base+s.path, nil)
			}
		}
		if s.route != nil && s.route.Host != "" {
			rq.Host = c20Instantiate(s.route.Host)[0]
		}
		if !s.v.Absent {
			rq.Header["Authorization"] = []string{s.v.Header}
			if s.v.Second {
				rq.Header["Authorization"] = append(rq.Header["Authorization"], s.v.Header2) // repeated header
			}
		}
		for _, h := range cb.Headers {
			rq.Header[http.CanonicalHeaderKey(h[0])] = []string{h[1]}
		}
		return rq
	}
	client := &http.Client{
		Transport:     &http.Transport{DisableCompression: true, MaxIdleConnsPerHost: 4},
		CheckRedirect: func(*http.Request, []*http.Request) error { return http.ErrUseLastResponse },
		Timeout:       20 * time.Second,
	}
	slowGraces, reruns := 0, 0
	letThrough, skipped := 0, 0
	send := func(s reqSpec, via, phase string) c20Record {
		rec := c20Record{T: "req", Via: via, Phase: phase, Route: -1, Path: s.path, Method: s.method, Reg: s.reg,
			Variant: s.v.ID}
		if s.combo >= 0 && s.combo < len(cfg.Combos) {
			rec.Combo = cfg.Combos[s.combo].ID
		}
		if s.route != nil {
			rec.Route = s.route.Idx
		}
		h0, g0, d0 := atomic.LoadInt64(&c20HandlerEntries), atomic.LoadInt64(&c20RegistryCalls), db.count()
		var status int
		var hdr http.Header
		var body []byte
		// Wait for the response; once a handler has been entered the verdict no longer needs the response (the
		// request was let through), so a handler that hangs on the dead fake database is abandoned after a
		// short grace instead of stalling the run.
		wait := func(done <-chan struct{}) bool {
			guard := time.After(10 * time.Second)
			tick := time.NewTicker(250 * time.Microsecond)
			defer tick.Stop()
			var grace <-chan time.Time
			for {
				select {
				case <-done:
					return true
				case <-guard:
					rec.Timeout = true
					return false
				case <-grace:
					rec.Abandoned = true
					return false
				case <-tick.C:
					if grace == nil && atomic.LoadInt64(&c20HandlerEntries) != h0 {
						if phase == "deny" && slowGraces < 20 {
							// a request that must be rejected entered a handler: give it time to show what it
							// does (database, insert services); only for the first few, a broken tree lets
							// thousands through
							slowGraces++
							grace = time.After(150 * time.Millisecond)
						} else {
							grace = time.After(5 * time.Millisecond)
						}
					}
				}
			}
		}
		if via == "inproc" {
			rq := build(s, "")
			w := httptest.NewRecorder()
			done := make(chan struct{})
			var pan string
			go func() {
				defer close(done)
				defer func() {
					if e := recover(); e != nil {
						pan = fmt.Sprint(e)
					}
				}()
				router.ServeHTTP(w, rq)
			}()
			if wait(done) {
				rec.Panic = pan
				status, hdr, body = w.Code, w.Header(), w.Body.Bytes()
			}
		} else {
			ctx, cancel := context.WithCancel(context.Background())
			rq := build(s, "http://"+addr).WithContext(ctx)
			done := make(chan struct{})
			var resp *http.Response
			var rerr error
			var rbody []byte
			go func() {
				defer close(done)
				resp, rerr = client.Do(rq)
				if rerr == nil {
					rbody, _ = io.ReadAll(io.LimitReader(resp.Body, 1<<16))
					resp.Body.Close()
				}
			}()
			if wait(done) {
				if rerr != nil {
					rec.Err = rerr.Error()
				} else {
					status, hdr, body = resp.StatusCode, resp.Header, rbody
				}
			}
			cancel()
		}
		rec.Status = status
		if hdr != nil {
			rec.WWWAuth = hdr.Get("WWW-Authenticate")
			rec.ContEnc = hdr.Get("Content-Encoding")
			rec.ACAO = hdr.Get("Access-Control-Allow-Origin")
		}
		if len(body) > 48 {
			body = body[:48]
		}
		rec.Body = string(bytes.ToValidUTF8(body, []byte("?")))
		rec.DHandler = atomic.LoadInt64(&c20HandlerEntries) - h0
		rec.DReg = atomic.LoadInt64(&c20RegistryCalls) - g0
		rec.DDB = db.count() - d0
		return rec
	}

	probeOther := map[int]bool{} // combinations without any CORS preflight header
	for i, cb := range cfg.Combos {
		plain := true
		for _, h := range cb.Headers {
			if strings.HasPrefix(h[0], "Access-Control-") || h[0] == "Content-Encoding" || h[0] == "Accept-Encoding" {
				plain = false
			}
		}
		probeOther[i] = plain
	}
	var specs []reqSpec
	for _, r := range routes {
		if !r.HasHandle || r.URL == "" {
			continue
		}
		meths := r.Methods
		if len(meths) == 0 {
			meths = menu
		}
		seen := map[string]bool{}
		for _, m := range meths {
			seen[m] = true
			for _, v := range cfg.Variants {
				for _, ci := range v.Combos {
					specs = append(specs, reqSpec{r, r.URL, m, true, v, ci})
				}
			}
		}
		for _, m := range cfg.ExtraMeth {
			if seen[m] {
				continue
			}
			for _, v := range cfg.Variants {
				for _, ci := range v.ProbeCombos { // reduced alphabet for unregistered-method probes
					if m != "OPTIONS" && !probeOther[ci] {
						continue // the full CORS vocabulary goes with OPTIONS, the other methods get the base combinations
					}
					specs = append(specs, reqSpec{r, r.URL, m, false, v, ci})
				}
			}
		}
	}
	if o := cfg.Only; o != nil {
		var keep []reqSpec
		for _, s := range specs {
			if s.path == o.Path && s.method == o.Method && s.v.ID == o.VariantID && s.combo >= 0 && s.combo < len(cfg.Combos) && cfg.Combos[s.combo].ID == o.Combo {
				keep = append(keep, s)
			}
		}
		specs = keep
	}

	// let the writer's background pings start (about one second after start) so that the run also shows they are
	// not mistaken for request-driven interactions
	if cfg.Mode != "reader" && cfg.Only == nil {
		for time.Since(mainStart) < 1500*time.Millisecond {
			time.Sleep(20 * time.Millisecond)
		}
	}
	out.emit(map[string]any{"t": "quiet_start", "db": db.stats(), "at_ms": time.Since(mainStart).Milliseconds()})

	n := 0
	run := func(phase, via string, sel func(reqSpec) bool) {
		for _, s := range specs {
			if s.v.Phase != phase || !sel(s) {
				continue
			}
			if cfg.Only != nil && cfg.Only.Via != "" && cfg.Only.Via != via {
				continue
			}
			if cfg.Only != nil && (cfg.Only.Via == "after" || cfg.Only.Via == "pathvar") {
				continue
			}
			if phase != "allow" && letThrough > 400 {
				// a broken tree lets (nearly) everything through and every such request runs a real handler
				// against a dead database: 400 cases are evidence enough, the rest of the phase is skipped
				skipped++
				continue
			}
			rec := send(s, via, phase)
			if phase != "allow" && rec.DHandler > 0 && !s.v.MayPass {
				letThrough++
			}
			// a database connection seen during a request that must be rejected: re-run the same request alone
			// three times, it counts only if it shows up every time (the reporter applies the rule)
			if phase == "deny" && rec.DDB > 0 && reruns < 5 {
				reruns++
				for i := 0; i < 3; i++ {
					time.Sleep(50 * time.Millisecond)
					again := send(s, via, phase)
					again.T = "rerun"
					out.emit(again)
				}
			}
			out.emit(rec)
			if n++; n%100 == 0 || rec.Timeout || rec.Abandoned || (phase == "deny" && (rec.DHandler > 0 || rec.DDB > 0)) {
				out.flush()
			}
		}
		out.flush()
	}
	all := func(reqSpec) bool { return true }
	tcpSel := func(s reqSpec) bool {
		if !s.v.TCP || !s.reg {
			return false
		}
		for _, ci := range s.v.TCPCombos {
			if ci == s.combo {
				return true
			}
		}
		return false
	}

	// phase "deny": nothing may reach a handler or the database
	run("deny", "inproc", all)
	run("deny", "tcp", tcpSel)
	time.Sleep(300 * time.Millisecond) // let asynchronous effects (100 ms flush timers) surface
	denyEnd := time.Since(mainStart)
	out.emit(map[string]any{"t": "deny_end", "db_interactions": db.count(), "db": db.stats(),
		"handler_entries": atomic.LoadInt64(&c20HandlerEntries), "registry_calls": atomic.LoadInt64(&c20RegistryCalls),
		"at_ms": denyEnd.Milliseconds()})
	out.flush()

	// path variants of every walked route (trailing / doubled slash, case, percent-encoding, dot segments, appended
	// segment) and a completely unknown path, for every method of the route and OPTIONS, with the class
	// representatives of the Authorization alphabet: whatever answers them (a 301 of the path cleaner, a
	// NotFoundHandler / MethodNotAllowedHandler, a lenient matcher) must not reach a handler without the credentials
	if cfg.Only == nil || cfg.Only.Via == "pathvar" {
		none, pre := -1, -1
		for i, cb := range cfg.Combos {
			if len(cb.Headers) == 0 {
				none = i
			}
			if cb.ID == "Origin=http://evil & Access-Control-Request-Method=GET" {
				pre = i
			}
		}
		type pv struct{ kind, path string }
		variantsOf := func(u string) []pv {
			path, query := u, ""
			if i := strings.IndexByte(u, '?'); i >= 0 {
				path, query = u[:i], u[i:]
			}
			out := []pv{{"trailing_slash", path + "/"}, {"two_trailing_slashes", path + "//"}, {"leading_double_slash", "/" + path},
				{"upper_case", strings.ToUpper(path)}, {"appended_segment", strings.TrimSuffix(path, "/") + "/extra"},
				{"dot_segment", "/." + path}, {"dotdot_detour", "/zz/.." + path}, {"trailing_dot_segment", strings.TrimSuffix(path, "/") + "/."},
				{"encoded_dot_segment", "/%2e" + path}, {"trailing_encoded_slash", path + "%2F"}, {"semicolon_suffix", path + ";x=1"},
				{"unknown_path", "/zz-verif-unknown-path"}, {"unknown_path_trailing_slash", "/zz-verif-unknown-path/"}}
			if i := strings.IndexByte(path[1:], '/'); i >= 0 {
				out = append(out, pv{"inner_double_slash", path[:i+1] + "/" + path[i+1:]}, pv{"inner_encoded_slash", path[:i+1] + "%2F" + path[i+2:]})
			}
			for i := range out {
				out[i].path += query
			}
			return out
		}
		for _, r := range routes {
			if !r.HasHandle || r.URL == "" || r.Template == "" {
				continue
			}
			meths := append(append([]string{}, r.Methods...), "OPTIONS")
			if len(r.Methods) == 0 {
				meths = []string{"GET", "POST", "OPTIONS"}
			}
			for _, pvar := range variantsOf(r.URL) {
				for _, m := range meths {
					for _, v := range cfg.Variants {
						if !v.PathVariants {
							continue
						}
						for _, ci := range []int{none, pre} {
							if ci < 0 || (ci == pre && m != "OPTIONS" && v.ID != "absent") {
								continue
							}
							if o := cfg.Only; o != nil && !(pvar.path == o.Path && m == o.Method && v.ID == o.VariantID && cfg.Combos[ci].ID == o.Combo) {
								continue
							}
							if letThrough > 400 {
								skipped++
								continue
							}
							rec := send(reqSpec{r, pvar.path, m, false, v, ci}, "inproc", "pathvar")
							rec.PathVar = pvar.kind
							if rec.DHandler > 0 {
								letThrough++
							}
							out.emit(rec)
							if pvar.kind == "trailing_slash" && v.Absent && ci == none && cfg.Only == nil {
								t := send(reqSpec{r, pvar.path, m, false, v, ci}, "tcp", "pathvar")
								t.PathVar = pvar.kind
								out.emit(t)
							}
						}
					}
				}
			}
		}
		out.flush()
	}

	// unregistered well-known paths through the real listener, without credentials
	if cfg.Only == nil {
		for _, p := range cfg.ProbePaths { // "METHOD path"
			mp := strings.SplitN(p, " ", 2)
			if len(mp) != 2 {
				continue
			}
			rec := send(reqSpec{nil, mp[1], mp[0], false, c20Variant{ID: "absent", Absent: true, Phase: "deny"}, -1}, "tcp", "probe")
			out.emit(rec)
		}
		// any other TCP listener of this process gets the same probes
		for _, port := range c20ListeningPorts() {
			if port == httpPort || port == dbPort {
				continue
			}
			saved := addr
			addr = fmt.Sprintf("127.0.0.1:%d", port)
			for _, p := range cfg.ProbePaths {
				mp := strings.SplitN(p, " ", 2)
				if len(mp) != 2 {
					continue
				}
				rec := send(reqSpec{nil, mp[1], mp[0], false, c20Variant{ID: "absent", Absent: true, Phase: "deny"}, -1}, "tcp", "probe")
				rec.Via = fmt.Sprintf("tcp:%d", port)
				out.emit(rec)
			}
			addr = saved
		}
	}

	// phases "late" (malformed / lenient shapes a defective implementation may let through) and "allow"
	run("late", "inproc", all)
	run("late", "tcp", tcpSel)
	run("allow", "inproc", all)
	run("allow", "tcp", tcpSel)

	// phase "after": the verdict for a header must not depend on what was served before.  Every value that must be
	// rejected is sent once more (no other headers), each time immediately after a request with the RIGHT
	// credentials (on a cheap route, and for the values marked so by the reporter also on the same route): state
	// left behind by the legitimate request (pooled buffers, caches) must not help the next one.
	primers := 0
	if cfg.Only == nil || cfg.Only.Via == "after" {
		var right *c20Variant
		for i := range cfg.Variants {
			if cfg.Variants[i].Phase == "allow" {
				right = &cfg.Variants[i]
				break
			}
		}
		none := -1
		for i, cb := range cfg.Combos {
			if len(cb.Headers) == 0 {
				none = i
			}
		}
		var cheap *c20Route
		for _, r := range routes {
			if r.HasHandle && r.URL != "" && (r.Template == "/config" || r.Template == "/api/status/buildinfo") {
				cheap = r
				break
			}
		}
		if right != nil && cheap != nil {
			saved := cfg.Only
			cfg.Only = nil
			for _, s := range specs {
				if s.v.Phase == "allow" || s.v.MayPass || !s.reg || (len(cfg.Combos) > 0 && s.combo != none) {
					continue
				}
				if saved != nil && !(s.path == saved.Path && s.method == saved.Method && s.v.ID == saved.VariantID) {
					continue
				}
				if letThrough > 400 {
					skipped++
					continue
				}
				var prs []reqSpec
				prs = append(prs, reqSpec{cheap, cheap.URL, "GET", true, *right, none})
				if s.v.PrimeSameRoute {
					prs = append(prs, reqSpec{s.route, s.path, s.method, true, *right, none})
				}
				for _, pr := range prs {
					p := send(pr, "inproc", "allow")
					primers++
					if p.DHandler == 0 {
						p.T, p.Phase = "req", "allow" // the right credentials were refused: let the reporter see it
						out.emit(p)
					}
					rec := send(s, "inproc", "after")
					if rec.DHandler > 0 {
						letThrough++
					}
					out.emit(rec)
				}
			}
			cfg.Only = saved
			out.flush()
		}
	}

	hits := map[string]int64{}
	for _, r := range routes {
		hits[strconv.Itoa(r.Idx)] = atomic.LoadInt64(r.hits)
	}
	select {
	case msg := <-mainDied:
		out.emit(map[string]any{"t": "fatal", "msg": msg})
	default:
	}
	out.emit(map[string]any{"t": "end", "route_hits": hits, "skipped_after_400_let_through": skipped, "primers": primers, "total_ms": time.Since(mainStart).Milliseconds(),
		"db": db.stats()})
}
