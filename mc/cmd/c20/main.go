// Check C20: with basic auth configured no route is reachable without the credentials.
//
// Two halves.  The probe (_overlay/zz_verif_c20_test.go, added to package main of the repository through
// `go test -overlay`) runs the real main() and sends every request of the alphabet built here through the router
// main() serves (in process) and through main()'s real TCP listener; it records observations only.  This program
// builds the alphabet, runs one probe process per configuration, scans the repository's source for route
// registrations, judges every observation against the statement and reports through verif/mc/ev.
package main

import (
	"bufio"
	"encoding/base64"
	"encoding/json"
	"fmt"
	"os"
	"os/exec"
	"path/filepath"
	"sort"
	"strings"
	"sync"
	"time"

	"verif/mc/ev"
)

type Only struct{ Path, Method, VariantID, Combo, Via string }

type Config struct {
	Name       string    `json:"name"`
	Mode       string    `json:"mode"`
	CorsOrigin string    `json:"cors_origin"`
	Login      string    `json:"login"`
	Password   string    `json:"password"`
	Variants   []Variant `json:"variants"`
	Combos     []Combo   `json:"header_combos"`
	ExtraMeth  []string  `json:"extra_methods"`
	ProbePaths []string  `json:"probe_paths"`
	Only       *Only     `json:"only"`
}

type Route struct {
	Idx       int      `json:"idx"`
	Template  string   `json:"template"`
	Prefix    bool     `json:"prefix"`
	Methods   []string `json:"methods"`
	Queries   []string `json:"queries"`
	Host      string   `json:"host"`
	HasHandle bool     `json:"has_handler"`
	URL       string   `json:"url"`
	MatchIdx  int      `json:"match_idx"`
	Depth     int      `json:"depth"`
}

type Record struct {
	T         string `json:"t"`
	Via       string `json:"via"`
	Phase     string `json:"phase"`
	Route     int    `json:"route"`
	Path      string `json:"path"`
	Method    string `json:"method"`
	Reg       bool   `json:"registered_method"`
	Variant   string `json:"variant"`
	Combo     string `json:"combo"`
	PathVar   string `json:"path_variant"`
	Status    int    `json:"status"`
	Body      string `json:"body"`
	WWWAuth   string `json:"www_auth"`
	ContEnc   string `json:"content_encoding"`
	ACAO      string `json:"acao"`
	DHandler  int64  `json:"d_handler"`
	DReg      int64  `json:"d_registry"`
	DDB       int64  `json:"d_db"`
	Timeout   bool   `json:"timeout"`
	Abandoned bool   `json:"abandoned"`
	Panic     string `json:"panic"`
	Err       string `json:"err"`

	// markers
	Msg           string           `json:"msg"`
	Routes        []Route          `json:"routes"`
	MuxPatterns   []string         `json:"default_mux_patterns"`
	NotFound      string           `json:"not_found_handler"`
	MethodNA      string           `json:"method_not_allowed_handler"`
	ListenPorts   []int            `json:"listening_ports"`
	HTTPPort      int              `json:"http_port"`
	DBPort        int              `json:"db_port"`
	DBInter       int64            `json:"db_interactions"`
	DB            map[string]int64 `json:"db"`
	HandlerTotal  int64            `json:"handler_entries"`
	RegistryTotal int64            `json:"registry_calls"`
	AtMS          int64            `json:"at_ms"`
	RouteHits     map[string]int64 `json:"route_hits"`
	Skipped       int64            `json:"skipped_after_400_let_through"`
	Primers       int64            `json:"primers"`
	TotalMS       int64            `json:"total_ms"`
	ReadyMS       int64            `json:"ready_ms"`
}

type ProbeResult struct {
	Cfg     Config
	Header  *Record
	Quiet   *Record
	DenyEnd *Record
	End     *Record
	Fatal   string
	Reqs    []Record
	Reruns  map[string][]Record
	ExitErr error
	LogTail string
}

func reqKey(r *Record) string {
	return strings.Join([]string{r.Via, r.Path, r.Method, r.Variant, r.Combo}, "\x00")
}

func runProbe(testbin, scratch string, cfg Config) *ProbeResult {
	res := &ProbeResult{Cfg: cfg, Reruns: map[string][]Record{}}
	dir := filepath.Join(scratch, "c20-"+cfg.Name)
	os.MkdirAll(dir, 0o755)
	cfgPath := filepath.Join(dir, "config.json")
	outPath := filepath.Join(dir, "out.jsonl")
	logPath := filepath.Join(dir, "log.txt")
	b, _ := json.Marshal(cfg)
	if err := os.WriteFile(cfgPath, b, 0o644); err != nil {
		res.Fatal = err.Error()
		return res
	}
	lf, _ := os.Create(logPath)
	cmd := exec.Command(testbin, "-test.run", "^TestVerifC20$", "-test.count=1", "-test.timeout=600s")
	cmd.Dir = dir
	cmd.Env = append(os.Environ(), "VERIF_C20_CONFIG="+cfgPath, "VERIF_C20_OUT="+outPath)
	cmd.Stdout, cmd.Stderr = lf, lf
	res.ExitErr = cmd.Run()
	lf.Close()
	if lb, err := os.ReadFile(logPath); err == nil {
		if len(lb) > 1500 {
			lb = lb[len(lb)-1500:]
		}
		res.LogTail = string(lb)
	}
	f, err := os.Open(outPath)
	if err != nil {
		res.Fatal = "probe wrote no output: " + err.Error()
		return res
	}
	defer f.Close()
	sc := bufio.NewScanner(f)
	sc.Buffer(make([]byte, 1<<20), 1<<24)
	for sc.Scan() {
		var r Record
		if err := json.Unmarshal(sc.Bytes(), &r); err != nil {
			res.Fatal = "bad probe output line: " + err.Error()
			return res
		}
		switch r.T {
		case "header":
			rc := r
			res.Header = &rc
		case "quiet_start":
			rc := r
			res.Quiet = &rc
		case "deny_end":
			rc := r
			res.DenyEnd = &rc
		case "end":
			rc := r
			res.End = &rc
		case "fatal":
			res.Fatal = r.Msg
		case "req":
			res.Reqs = append(res.Reqs, r)
		case "rerun":
			res.Reruns[reqKey(&r)] = append(res.Reruns[reqKey(&r)], r)
		}
	}
	return res
}

type credSet struct{ name, login, pass string }

func main() {
	r := ev.Start("C20", "model_checking", 75*time.Second, 10*time.Minute)
	testbin := os.Getenv("VERIF_C20_TESTBIN")
	scratch := os.Getenv("VERIF_SCRATCH")
	if testbin == "" || scratch == "" {
		ev.Fatal("VERIF_C20_TESTBIN / VERIF_SCRATCH not set (run through bin/check C20)")
	}
	r.Rule = "per configuration {MODE x CORS x credential set}: {walked route x registered method (+ every unregistered method, " +
		"OPTIONS with the full preflight product)} x [every Authorization value x Accept-Encoding{-,gzip} x Origin{-,evil} UNION one " +
		"representative per Authorization class x the full product of the middlewares' request-header vocabulary (Accept-Encoding x Origin x " +
		"Access-Control-Request-Method x Access-Control-Request-Headers x Content-Encoding, + Referer, User-Agent; the vocabulary is " +
		"checked against the header reads found in the source)]; a case is one HTTP request sent " +
		"through the router that the real main() serves (in process) or through main()'s own TCP listener; distinct = " +
		"(route template, method, variant id)"
	r.Assumptions = []string{
		"main() is started with the literal environment variable key=true (main.go boolEnv reads \"key\"): this skips initDB and forces READONLY, so MODE=all cannot be started without ClickHouse; MODE=reader and MODE=writer are run separately and together register every route table through the same middleware lines of main()",
		"the writer's start-up health check is replaced by a no-op through the repository's own plugin registry (writer/plugins.RegisterHealthCheckPlugin)",
		"'handler ran' is observed by replacing every walked route's handler with a pass-through counter after main() finished registration (gorilla/mux applies router middleware at match time, outside the route handler, so the chain under test is unchanged); 'database interaction' is observed at the fake ClickHouse endpoint CLICKHOUSE_SERVER/PORT point at plus (writer) look-ups through a pass-through decorator of writer/controller.Registry",
		"the fake ClickHouse endpoint answers the native handshake and pings only (all that the repository's background machinery sends on its own); any other client packet is a request-driven database interaction: it is counted and the connection closed; an interaction seen during a request that must be rejected is re-checked by re-sending that request alone 3 times",
		"lenient-right headers (scheme in another case, blanks around the token, non-canonical base64 padding bits) may be answered either way; everything else that is not exactly 'Basic ' + strict base64(login:password) must be rejected",
	}

	// ---- configurations
	// three pairs so that every class of the base64 alphabet occurs in a right header: letters of both cases, digits,
	// '+' and '/', and padding of 0, 1 and 2 characters (asserted below)
	creds := []credSet{{"A", "admin", "s3cret"}, {"B", "qryn", "p:w d9"}, {"F", "ops", "ab~~~???x"}}
	{
		seen := map[string]bool{}
		for _, c := range creds {
			e := b64(c.login + ":" + c.pass)
			seen[fmt.Sprintf("pad%d", strings.Count(e, "="))] = true
			for _, ch := range e {
				switch {
				case ch >= 'a' && ch <= 'z':
					seen["lower"] = true
				case ch >= 'A' && ch <= 'Z':
					seen["upper"] = true
				case ch >= '0' && ch <= '9':
					seen["digit"] = true
				case ch == '+' || ch == '/':
					seen[string(ch)] = true
				}
			}
		}
		for _, k := range []string{"lower", "upper", "digit", "+", "/", "pad0", "pad1", "pad2"} {
			if !seen[k] {
				ev.Fatal("the credential pairs do not exercise base64 class %q", k)
			}
		}
	}
	cors := []string{"", "*"}
	if r.Thorough() {
		creds = append(creds, credSet{"C", "u", "p"}, credSet{"D", "Ünï", "pässwörd/+=%"}, credSet{"E", "operator", "correct horse battery staple"})
		cors = append(cors, "http://allowed.example")
	}
	scan := ScanRepo(ev.Repo())
	combos := buildCombos()
	// every request header the router-wide middlewares read must be a dimension of the product
	// every configuration setting / environment variable the middleware wiring branches on must be a dimension of the
	// configuration alphabet (or be known not to matter)
	wiring := ScanWiringSettings(ev.Repo())
	for _, w := range wiring {
		if _, ok := VariedSettings[w.Name]; !ok {
			ev.Fatal("%s:%d (%s) branches on setting %q while building the middleware chain; the C20 configuration alphabet does not know it: add it to VariedSettings in mc/cmd/c20/variants.go and enumerate it",
				w.File, w.Line, w.Func, w.Name)
		}
	}
	reads := ScanHeaderReads(ev.Repo())
	for _, hr := range reads {
		if _, ok := VariedHeaders[hr.Name]; !ok {
			ev.Fatal("%s:%d reads request header %q (%s), which the C20 request product does not vary: add it to VariedHeaders in mc/cmd/c20/variants.go",
				hr.File, hr.Line, hr.Name, hr.How)
		}
	}
	var probePaths []string
	for _, p := range []string{"/debug/pprof/", "/debug/pprof/cmdline", "/debug/vars", "/debug/requests", "/debug/events",
		"/metrics", "/ready", "/", "/favicon.ico", "/api", "/ready/", "//ready", "/READY", "/ready%2f", "/./ready", "/x/../ready"} {
		probePaths = append(probePaths, "GET "+p)
	}
	staticRoutes := map[string]StaticReg{} // "METHOD template"
	var stdMuxRegs []string
	for _, reg := range scan.Regs {
		if reg.StdMux {
			// http.Handle / http.HandleFunc: mounted on net/http's DefaultServeMux, which main() does not serve
			// (it serves the router itself); listed, and its path is probed like every other
			stdMuxRegs = append(stdMuxRegs, fmt.Sprintf("%s:%d http.%s(%s%s)", reg.File, reg.Line, reg.Call, reg.Path, reg.Dynamic))
			if strings.HasPrefix(reg.Path, "/") {
				probePaths = append(probePaths, "GET "+instantiate(reg.Path))
			}
			continue
		}
		if reg.Path == "" || !strings.HasPrefix(reg.Path, "/") {
			continue
		}
		ms := reg.Methods
		if len(ms) == 0 {
			ms = []string{"GET", "POST"}
		}
		for _, m := range ms {
			staticRoutes[m+" "+reg.Path] = reg
			probePaths = append(probePaths, m+" "+instantiate(reg.Path))
		}
	}
	probePaths = dedupSorted(probePaths)

	var cfgs []Config
	if r.Replay != "" {
		cfgs = []Config{replayConfig(r.Replay)}
	} else {
		for _, mode := range []string{"reader", "writer"} {
			for _, co := range cors {
				for _, c := range creds {
					name := fmt.Sprintf("%s-cors%d-%s", mode, indexOf(cors, co), c.name)
					cfgs = append(cfgs, Config{Name: name, Mode: mode, CorsOrigin: co, Login: c.login, Password: c.pass,
						Variants: alphabetWithCombos(c.login, c.pass, r.Thorough(), combos), Combos: combos.All, ExtraMeth: []string{"OPTIONS", "HEAD", "TRACE", "PUT", "DELETE", "PATCH", "GET", "POST"},
						ProbePaths: probePaths})
				}
			}
		}
		if r.Seed != 0 { // VERIF_SEED only rotates the order
			k := r.Seed % len(cfgs)
			if k < 0 {
				k = -k
			}
			cfgs = append(cfgs[k:], cfgs[:k]...)
		}
	}

	// ---- run the probes (each is a separate process: main() can only run once per process)
	results := make([]*ProbeResult, len(cfgs))
	sem := make(chan struct{}, 6)
	var wg sync.WaitGroup
	for i := range cfgs {
		wg.Add(1)
		go func(i int) {
			defer wg.Done()
			sem <- struct{}{}
			defer func() { <-sem }()
			for attempt := 0; attempt < 3; attempt++ {
				results[i] = runProbe(testbin, scratch, cfgs[i])
				// the probe picks a free port and main() binds it a moment later: another process may grab it
				// in between (harness-level race, not a verdict) — try again with a new port
				if f := results[i].Fatal + results[i].LogTail; !(strings.Contains(f, "address already in use") && results[i].End == nil) {
					break
				}
			}
		}(i)
	}
	wg.Wait()

	// ---- judge
	walked := map[string]bool{}    // "METHOD template" over all modes
	walkedTpl := map[string]bool{} // template
	fallbacks := map[string]string{}
	modeRoutes := map[string]int{} // mode -> walked routes
	muxPatterns := map[string]bool{}
	abandoned := map[string]bool{}
	var totalReqs int64
	otherPorts := 0
	for _, pr := range results {
		if pr.Fatal != "" || pr.Header == nil || pr.End == nil || pr.DenyEnd == nil || pr.Quiet == nil {
			ev.Fatal("probe %s did not complete: %s (exit: %v)\n--- log tail ---\n%s", pr.Cfg.Name, pr.Fatal, pr.ExitErr, pr.LogTail)
		}
		judge(r, pr, walked, walkedTpl, abandoned)
		if pr.End.Skipped > 0 {
			r.Cap(fmt.Sprintf("probe %s: more than 400 requests that must be rejected were let through; the remaining %d of that phase were not sent", pr.Cfg.Name, pr.End.Skipped))
		}
		modeRoutes[pr.Cfg.Mode] = len(pr.Header.Routes)
		fallbacks[pr.Cfg.Mode] = "NotFoundHandler=" + pr.Header.NotFound + " MethodNotAllowedHandler=" + pr.Header.MethodNA
		for _, p := range pr.Header.ListenPorts {
			if p != pr.Header.HTTPPort && p != pr.Header.DBPort {
				otherPorts++
			}
		}
		for _, p := range pr.Header.MuxPatterns {
			muxPatterns[p] = true
		}
		totalReqs += int64(len(pr.Reqs)) + pr.End.Primers
		for _, rr := range pr.Reruns {
			totalReqs += int64(len(rr))
		}
	}
	if len(incomplete) > 0 {
		if r.Violations() == 0 {
			ev.Fatal("%s", incomplete[0])
		}
		r.Cap(incomplete[0])
	}
	r.Transitions = totalReqs
	r.TracesValidated = totalReqs
	r.States = int64(len(walked))

	if r.Replay == "" {
		// every statically found registration must be among the walked routes (or provably not served)
		var notMounted, dynamic []string
		for key, reg := range staticRoutes {
			if walked[key] {
				continue
			}
			if walkedTpl[reg.Path] && len(reg.Methods) == 0 {
				continue
			}
			notMounted = append(notMounted, fmt.Sprintf("%s (%s:%d on %s)", key, reg.File, reg.Line, reg.Receiver))
		}
		for _, reg := range scan.Regs {
			if reg.Dynamic != "" {
				dynamic = append(dynamic, fmt.Sprintf("%s:%d %s.%s(%s)", reg.File, reg.Line, reg.Receiver, reg.Call, reg.Dynamic))
			}
		}
		sort.Strings(notMounted)
		sort.Strings(dynamic)
		r.Extra["static_registrations_found"] = len(staticRoutes)
		r.Extra["static_registrations_not_on_served_router"] = notMounted
		r.Extra["static_registrations_with_dynamic_path"] = dynamic
		r.Extra["other_routers_or_servers_in_source"] = scan.Routers
		r.Extra["http_DefaultServeMux_registrations_in_source"] = stdMuxRegs
		var mp []string
		for p := range muxPatterns {
			mp = append(mp, p)
		}
		sort.Strings(mp)
		r.Extra["http_DefaultServeMux_patterns"] = mp
		r.Extra["walked_routes_per_mode"] = modeRoutes
		r.Extra["router_fallback_handlers"] = fallbacks
		var ab []string
		for k := range abandoned {
			ab = append(ab, k)
		}
		sort.Strings(ab)
		_ = ab
		fl := map[string]int{}
		for k, v := range flagged {
			fl[k] = v
		}
		r.Extra["flagged_cases_by_class"] = fl
		r.Extra["listening_tcp_ports_besides_main_and_fake_db"] = otherPorts
		r.Extra["configurations"] = len(cfgs)
		var hr []string
		for _, x := range reads {
			hr = append(hr, fmt.Sprintf("%s:%d %s (%s)", x.File, x.Line, x.Name, x.How))
		}
		r.Extra["request_headers_read_by_router_wide_middleware"] = hr
		var ws []string
		for _, w := range wiring {
			ws = append(ws, fmt.Sprintf("%s:%d %s: %s -> %s", w.File, w.Line, w.Func, w.Name, VariedSettings[w.Name]))
		}
		r.Extra["settings_the_middleware_wiring_branches_on"] = ws
		r.Extra["header_combinations"] = map[string]int{"all": len(combos.All), "with_every_authorization_value": len(combos.Base),
			"full_product_with_class_representatives": len(combos.Full), "with_right_credentials": len(combos.Single),
			"with_unregistered_methods": len(combos.Cors), "through_tcp_listener": len(combos.TCP)}
		vc := map[string]int{}
		for _, v := range cfgs[0].Variants {
			vc[v.Class]++
		}
		r.Extra["authorization_variants_by_class_first_config"] = vc
	}
	r.Finish()
}

func dedupSorted(l []string) []string {
	sort.Strings(l)
	var out []string
	for i, x := range l {
		if i == 0 || x != l[i-1] {
			out = append(out, x)
		}
	}
	return out
}

func alphabetWithCombos(login, pass string, thorough bool, cs comboSets) []Variant {
	vs := Alphabet(login, pass, thorough)
	assignCombos(vs, cs, thorough)
	return vs
}

func indexOf(l []string, s string) int {
	for i, x := range l {
		if x == s {
			return i
		}
	}
	return -1
}

func instantiate(tpl string) string {
	var b strings.Builder
	depth := 0
	for i := 0; i < len(tpl); i++ {
		switch tpl[i] {
		case '{':
			if depth == 0 {
				b.WriteString("x")
			}
			depth++
		case '}':
			depth--
		default:
			if depth == 0 {
				b.WriteByte(tpl[i])
			}
		}
	}
	return b.String()
}

type replayDoc struct {
	Replay struct {
		Config  Config  `json:"config"`
		Variant Variant `json:"variant"`
		Only    Only    `json:"only"`
	} `json:"replay"`
}

func replayConfig(path string) Config {
	b, err := os.ReadFile(path)
	if err != nil {
		ev.Fatal("replay: %v", err)
	}
	var d replayDoc
	if err := json.Unmarshal(b, &d); err != nil {
		ev.Fatal("replay: %v", err)
	}
	c := d.Replay.Config
	c.Name = "replay"
	v := d.Replay.Variant
	v.Combos, v.TCPCombos, v.ProbeCombos = []int{0}, []int{0}, []int{0}
	c.Variants = []Variant{v}
	o := d.Replay.Only
	c.Only = &o
	if o.Via == "after" {
		// history phase: the request is preceded by one with the right credentials
		c.Variants = append(c.Variants, Variant{ID: "right", Header: "Basic " + b64(c.Login+":"+c.Password), Phase: "allow", Combos: []int{0}})
	}
	return c
}

// partialDecodeRight: the documented deviant rule behind D37 — the implementation ignores the base64 decode error
// and compares the bytes decoded before the error.
func partialDecodeRight(h, login, pass string) bool {
	parts := strings.SplitN(h, " ", 2)
	if len(parts) != 2 || parts[0] != "Basic" {
		return false
	}
	b, err := base64.StdEncoding.DecodeString(parts[1])
	return err != nil && string(b) == login+":"+pass
}

// headerNames("Origin=http://evil & Access-Control-Request-Method=GET") = "Origin+Access-Control-Request-Method"
func viaOf(rec *Record) string {
	if rec.Phase == "after" {
		return "after" // replay: prime with the right credentials first
	}
	if rec.Phase == "pathvar" {
		return "pathvar"
	}
	return rec.Via
}

func headerNames(combo string) string {
	var names []string
	for _, p := range strings.Split(combo, " & ") {
		names = append(names, strings.SplitN(p, "=", 2)[0])
	}
	return strings.Join(names, "+")
}

// bodies written by the authentication layer itself (http.Error adds the newline)
func isAuthBody(b string) bool {
	return strings.HasPrefix(b, "Unauthorized") || strings.HasPrefix(b, "Invalid authorization header")
}

var incomplete []string

var (
	flagMu  sync.Mutex
	flagged = map[string]int{} // violation class -> occurrences (only the first few of each class are written out)
)

// violate reports at most 3 cases per class (every further one is only counted): one defect shows up once per route,
// method, encoding, origin and configuration.
func violate(r *ev.Run, class, what string, replay any) {
	flagMu.Lock()
	flagged[class]++
	n := flagged[class]
	flagMu.Unlock()
	if n <= 3 {
		r.Violate(class, what, replay)
	}
}

func judge(r *ev.Run, pr *ProbeResult, walked, walkedTpl, abandoned map[string]bool) {
	cfg := pr.Cfg
	variants := map[string]Variant{}
	for _, v := range cfg.Variants {
		v.Class = classifyVariant(v, cfg.Login, cfg.Password)
		variants[v.ID] = v
	}
	routes := pr.Header.Routes
	for _, rt := range routes {
		if !rt.HasHandle {
			continue
		}
		if rt.URL == "" {
			// not fatal at once: requests to the other routes are judged first (a violation there is a verdict; an
			// unexplorable route without any violation is a harness failure, exit 2)
			flagMu.Lock()
			incomplete = append(incomplete, fmt.Sprintf("probe %s: no concrete URL / method matches walked route %q (methods %v, queries %v, host %q): coverage would be incomplete",
				cfg.Name, rt.Template, rt.Methods, rt.Queries, rt.Host))
			flagMu.Unlock()
			continue
		}
		walkedTpl[rt.Template] = true
		ms := rt.Methods
		if len(ms) == 0 {
			ms = []string{"GET", "POST", "PUT", "DELETE", "PATCH", "HEAD", "OPTIONS"}
		}
		for _, m := range ms {
			walked[m+" "+rt.Template] = true
		}
	}
	mk := func(rec *Record, v Variant) any {
		c := cfg
		c.Variants, c.ProbePaths, c.Only = nil, nil, nil
		c.Combos = nil
		for _, cb := range cfg.Combos {
			if cb.ID == rec.Combo {
				c.Combos = []Combo{cb}
			}
		}
		v.Combos, v.TCPCombos, v.ProbeCombos = []int{0}, []int{0}, []int{0}
		return map[string]any{"config": c, "variant": v,
			"only":     Only{rec.Path, rec.Method, rec.Variant, rec.Combo, viaOf(rec)},
			"observed": rec}
	}
	tplOf := func(rec *Record) string {
		if rec.Route >= 0 && rec.Route < len(routes) {
			return routes[rec.Route].Template
		}
		return rec.Path
	}
	absentThrough := map[string]bool{}   // route|method let through without any credentials
	rejectedPlain := map[string]bool{}   // route|method|variant rejected when no other header is sent
	minimalBypass := map[string]string{} // route|method|variant -> smallest header combination with which it is let through
	for i := range pr.Reqs {
		rec := &pr.Reqs[i]
		if rec.T == "req" && rec.Phase != "probe" && rec.Phase != "allow" && rec.Phase != "after" {
			k := tplOf(rec) + " " + rec.Method + " " + rec.Variant
			if rec.Combo == "(none)" && rec.DHandler == 0 {
				rejectedPlain[k] = true
			}
			if rec.Combo != "(none)" && rec.DHandler > 0 {
				if cur, ok := minimalBypass[k]; !ok || strings.Count(rec.Combo, "&") < strings.Count(cur, "&") || (strings.Count(rec.Combo, "&") == strings.Count(cur, "&") && rec.Combo < cur) {
					minimalBypass[k] = rec.Combo
				}
			}
		}
		if rec.Phase == "deny" && rec.Variant == "absent" && rec.Reg && rec.DHandler > 0 && rec.Combo == "(none)" {
			absentThrough[tplOf(rec)+" "+rec.Method] = true
		}
	}
	for i := range pr.Reqs {
		rec := &pr.Reqs[i]
		r.AddEval(1)
		tpl := tplOf(rec)
		if rec.Phase == "probe" {
			// unregistered / statically found paths through the real listener, no credentials
			r.Outcome(fmt.Sprintf("probe->%d", rec.Status))
			if rec.Via != "tcp" && (rec.Timeout || rec.Err != "") {
				r.Outcome("other_listener_not_http")
				continue // another listener of the process that does not speak HTTP
			}
			if rec.Timeout || rec.Err != "" {
				ev.Fatal("probe %s: %s %s via tcp failed: %s", cfg.Name, rec.Method, rec.Path, rec.Err)
			}
			switch rec.Status {
			case 401, 400, 404, 405, 301:
			default:
				violate(r, "path_served_without_credentials:"+rec.Path,
					fmt.Sprintf("[%s] %s %s without credentials through the process's listener (%s) answered %d %q", cfg.Name, rec.Method, rec.Path, rec.Via, rec.Status, rec.Body), mk(rec, Variant{ID: "absent", Absent: true, Phase: "deny"}))
			}
			if rec.DHandler > 0 || rec.DReg > 0 {
				violate(r, "handler_ran_without_credentials:"+rec.Path,
					fmt.Sprintf("[%s] %s %s without credentials entered a handler", cfg.Name, rec.Method, rec.Path), mk(rec, Variant{ID: "absent", Absent: true, Phase: "deny"}))
			}
			continue
		}
		v, ok := variants[rec.Variant]
		if !ok {
			ev.Fatal("probe %s: unknown variant %q in output", cfg.Name, rec.Variant)
		}
		if rec.Timeout {
			ev.Fatal("probe %s: no response within 10 s and no handler entered: %s %s variant %s via %s", cfg.Name, rec.Method, rec.Path, rec.Variant, rec.Via)
		}
		if rec.Err != "" && !rec.Abandoned {
			ev.Fatal("probe %s: transport error for %s %s variant %s via %s: %s", cfg.Name, rec.Method, rec.Path, rec.Variant, rec.Via, rec.Err)
		}
		r.Distinct(tpl + "|" + rec.Method + "|" + rec.Variant)
		where := fmt.Sprintf("[%s %s] %s %s (route %s) Authorization=%s(%s) other headers: %s", cfg.Name, rec.Via,
			rec.Method, rec.Path, tpl, rec.Variant, v.Class, rec.Combo)
		entered := rec.DHandler > 0
		// look-up / database deltas are attributable only in the phases in which nothing may legitimately run (deny,
		// pathvar): in the late / after phases a handler entered by the previous (lenient or right-credential) request
		// may still be running and its look-ups fall into the next request's window; there the handler entry decides
		quiet := rec.Phase == "deny" || rec.Phase == "pathvar"
		dbTouched := quiet && rec.DReg > 0
		if rec.Method == "OPTIONS" && rec.Status == 204 && !entered && !dbTouched && (!quiet || rec.DDB == 0) {
			// a preflight answered by the CORS layer itself: nothing behind the credential check was reached
			r.Outcome("options_answered_204_before_any_handler/" + v.Class)
			continue
		}
		if rec.DDB > 0 && rec.Phase == "deny" {
			// attributed only if the re-runs (same request alone, 3 times) all show it again
			rr := pr.Reruns[reqKey(rec)]
			if len(rr) >= 3 {
				all := true
				for _, x := range rr {
					if x.DDB == 0 {
						all = false
					}
				}
				dbTouched = dbTouched || all
				if !all {
					r.Outcome("db_connection_not_reproduced_on_rerun")
				}
			}
		}
		if rec.Phase == "pathvar" {
			// a variant of a registered path (or an unknown path): nothing may run without the credentials
			r.Outcome(fmt.Sprintf("path_variant(%s)/%s->%d", rec.PathVar, v.Class, rec.Status))
			if entered || dbTouched {
				violate(r, "path_variant_reaches_handler_without_credentials:"+rec.PathVar,
					where+fmt.Sprintf(": the %s variant of route %s entered a handler (entries %d, look-ups %d, status %d) — answered by: NotFoundHandler=%s MethodNotAllowedHandler=%s",
						rec.PathVar, tpl, rec.DHandler, rec.DReg, rec.Status, pr.Header.NotFound, pr.Header.MethodNA), mk(rec, v))
				continue
			}
			switch rec.Status {
			case 400, 401, 404, 405, 301:
			default:
				violate(r, fmt.Sprintf("path_variant_status_%d:%s", rec.Status, rec.PathVar),
					where+fmt.Sprintf(": status %d for the %s variant of route %s without the credentials", rec.Status, rec.PathVar, tpl), mk(rec, v))
			}
			continue
		}
		if !rec.Reg {
			// method not registered for this path: nothing may run, whatever the status
			r.Outcome(fmt.Sprintf("unregistered_method/%s->%d", v.Class, rec.Status))
			if entered || dbTouched {
				violate(r, "handler_ran_for_unregistered_method:"+rec.Method,
					where+fmt.Sprintf(": handler entered=%v database touched=%v status %d", entered, dbTouched, rec.Status), mk(rec, v))
			}
			switch rec.Status {
			case 400, 401, 404, 405:
			default:
				violate(r, fmt.Sprintf("unregistered_method_status_%d:%s", rec.Status, rec.Method),
					where+fmt.Sprintf(": status %d for a method that is not registered on this path and a request without the credentials", rec.Status), mk(rec, v))
			}
			continue
		}
		switch v.Class {
		case clsRight:
			if entered {
				r.Outcome("right->handler")
				if rec.Abandoned {
					abandoned[rec.Method+" "+tpl] = true
				} else if rec.Status == 401 {
					r.Outcome("right->handler_itself_answered_401")
				}
			} else {
				r.Outcome(fmt.Sprintf("right->%d", rec.Status))
				violate(r, fmt.Sprintf("right_credentials_rejected_%d", rec.Status),
					where+fmt.Sprintf(": the right credentials were answered %d %q and no handler ran", rec.Status, rec.Body), mk(rec, v))
			}
		case clsLenient:
			if entered {
				r.Outcome("lenient(" + v.Family + ")->handler")
			} else {
				r.Outcome(fmt.Sprintf("lenient(%s)->%d", v.Family, rec.Status))
				if rec.Status != 400 && rec.Status != 401 {
					violate(r, fmt.Sprintf("reject_status_%d_for_%s", rec.Status, v.Family),
						where+fmt.Sprintf(": rejected with status %d, the statement allows only 401/400", rec.Status), mk(rec, v))
				}
			}
		default: // absent, wrong, malformed: must be rejected before anything runs
			if entered || dbTouched {
				r.Outcome(v.Class + "->LET_THROUGH")
				class := "auth_accepts_" + v.Family
				switch {
				case rec.Phase == "after" && rejectedPlain[tpl+" "+rec.Method+" "+rec.Variant]:
					// rejected on a process that had not yet served the right credentials, let through right after them
					class = "credential_check_depends_on_earlier_requests:" + v.Family
				case rec.Combo != "(none)" && rejectedPlain[tpl+" "+rec.Method+" "+rec.Variant]:
					// the same request without the other headers is rejected: those headers switch the check off
					class = "credential_check_bypassed_by_request_headers:" + headerNames(minimalBypass[tpl+" "+rec.Method+" "+rec.Variant])
				case absentThrough[tpl+" "+rec.Method]:
					class = "route_reachable_without_credentials:" + rec.Method + ":" + tpl
				case (rec.Status == 401 || rec.Status == 400) && isAuthBody(rec.Body):
					class = fmt.Sprintf("handler_ran_although_auth_answered_%d", rec.Status)
				case partialDecodeRight(v.Header, cfg.Login, cfg.Password):
					class = "auth_accepts_right_pair_before_base64_error"
				}
				violate(r, class, where+fmt.Sprintf(": handler entered=%v (entries %d), insert-service look-ups %d, database connections %d, status %d",
					entered, rec.DHandler, rec.DReg, rec.DDB, rec.Status), mk(rec, v))
				continue
			}
			r.Outcome(fmt.Sprintf("%s->%d", v.Class, rec.Status))
			okStatus := rec.Status == 401 || (v.Class == clsMalformed && rec.Status == 400)
			if !okStatus {
				violate(r, fmt.Sprintf("reject_status_%d_for_%s", rec.Status, v.Class),
					where+fmt.Sprintf(": answered %d %q; the statement demands 401 (400 only for a malformed header)", rec.Status, rec.Body), mk(rec, v))
			}
		}
		if i%997 == 0 {
			r.Sample(map[string]any{"config": cfg.Name, "via": rec.Via, "route": tpl, "method": rec.Method, "variant": rec.Variant,
				"class": v.Class, "other_headers": rec.Combo, "status": rec.Status, "handler_entered": entered})
		}
	}
	// phase-level: nothing at all may have reached a handler or the database while only rejectable requests were sent
	// (catches effects that surface asynchronously, after the response was written)
	if cfg.Only == nil {
		var attributed int64
		for i := range pr.Reqs {
			if pr.Reqs[i].Phase == "deny" {
				attributed += pr.Reqs[i].DDB + pr.Reqs[i].DHandler + pr.Reqs[i].DReg
			}
		}
		if n := pr.DenyEnd.DBInter + pr.DenyEnd.HandlerTotal + pr.DenyEnd.RegistryTotal; n > 0 && attributed == 0 {
			violate(r, "side_effect_after_rejected_requests", fmt.Sprintf("[%s] after only rejectable requests had been sent: %d database interaction(s), %d handler entr(ies), %d insert-service look-up(s) that surfaced outside every request's own window",
				cfg.Name, pr.DenyEnd.DBInter, pr.DenyEnd.HandlerTotal, pr.DenyEnd.RegistryTotal), map[string]any{"config": cfg.Name})
		}
	}
}
