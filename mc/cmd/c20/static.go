package main

import (
	"fmt"
	"go/ast"
	"go/parser"
	"go/token"
	"net/http"
	"os"
	"path/filepath"
	"sort"
	"strconv"
	"strings"
)

// StaticReg is one route registration found by reading the repository's source (not by running it).
type StaticReg struct {
	File     string   `json:"file"` // repository-relative
	Line     int      `json:"line"`
	Call     string   `json:"call"`     // HandleFunc | Handle | PathPrefix | Path
	Receiver string   `json:"receiver"` // source text of the receiver expression (app, router, http, ...)
	Path     string   `json:"path"`     // resolved template, "" if Dynamic
	Dynamic  string   `json:"dynamic,omitempty"`
	Methods  []string `json:"methods,omitempty"`
	StdMux   bool     `json:"std_mux,omitempty"` // registered on net/http's DefaultServeMux (http.Handle / http.HandleFunc)
}

type pkgConsts map[string]string // const name -> string value

type scanner struct {
	repo    string
	module  string
	fset    *token.FileSet
	consts  map[string]pkgConsts // dir -> consts
	Regs    []StaticReg
	Routers []string // places where another router / server is created: mux.NewRouter(), http.ListenAndServe, ...
}

func readModule(repo string) string {
	b, _ := os.ReadFile(filepath.Join(repo, "go.mod"))
	for _, l := range strings.Split(string(b), "\n") {
		if strings.HasPrefix(l, "module ") {
			return strings.TrimSpace(l[7:])
		}
	}
	return ""
}

// constsOf parses every non-test file of a directory and collects string constants with literal values.
func (s *scanner) constsOf(dir string) pkgConsts {
	if c, ok := s.consts[dir]; ok {
		return c
	}
	c := pkgConsts{}
	s.consts[dir] = c
	ents, _ := os.ReadDir(dir)
	for _, e := range ents {
		if e.IsDir() || !strings.HasSuffix(e.Name(), ".go") || strings.HasSuffix(e.Name(), "_test.go") {
			continue
		}
		f, err := parser.ParseFile(s.fset, filepath.Join(dir, e.Name()), nil, parser.SkipObjectResolution)
		if err != nil {
			continue
		}
		for _, d := range f.Decls {
			gd, ok := d.(*ast.GenDecl)
			if !ok || (gd.Tok != token.CONST && gd.Tok != token.VAR) {
				continue
			}
			if gd.Tok == token.VAR {
				continue // variables can change: treated as dynamic
			}
			for _, sp := range gd.Specs {
				vs := sp.(*ast.ValueSpec)
				for i, n := range vs.Names {
					if i < len(vs.Values) {
						if bl, ok := vs.Values[i].(*ast.BasicLit); ok && bl.Kind == token.STRING {
							if v, err := strconv.Unquote(bl.Value); err == nil {
								c[n.Name] = v
							}
						}
					}
				}
			}
		}
	}
	return c
}

func exprText(e ast.Expr) string {
	switch x := e.(type) {
	case *ast.Ident:
		return x.Name
	case *ast.SelectorExpr:
		return exprText(x.X) + "." + x.Sel.Name
	case *ast.CallExpr:
		return exprText(x.Fun) + "(…)"
	case *ast.BasicLit:
		return x.Value
	case *ast.BinaryExpr:
		return exprText(x.X) + x.Op.String() + exprText(x.Y)
	case *ast.StarExpr:
		return "*" + exprText(x.X)
	case *ast.ParenExpr:
		return "(" + exprText(x.X) + ")"
	}
	return fmt.Sprintf("<%T>", e)
}

// resolve evaluates a path expression: string literal, package-level string constant of this or an imported
// repository package, or a concatenation of those.  Anything else is dynamic.
func (s *scanner) resolve(e ast.Expr, dir string, imports map[string]string) (string, bool) {
	switch x := e.(type) {
	case *ast.BasicLit:
		if x.Kind == token.STRING {
			v, err := strconv.Unquote(x.Value)
			return v, err == nil
		}
	case *ast.ParenExpr:
		return s.resolve(x.X, dir, imports)
	case *ast.Ident:
		v, ok := s.constsOf(dir)[x.Name]
		return v, ok
	case *ast.SelectorExpr:
		if id, ok := x.X.(*ast.Ident); ok {
			if ip, ok := imports[id.Name]; ok && strings.HasPrefix(ip, s.module+"/") {
				v, ok := s.constsOf(filepath.Join(s.repo, strings.TrimPrefix(ip, s.module+"/")))[x.Sel.Name]
				return v, ok
			}
		}
	case *ast.BinaryExpr:
		if x.Op == token.ADD {
			a, ok1 := s.resolve(x.X, dir, imports)
			b, ok2 := s.resolve(x.Y, dir, imports)
			return a + b, ok1 && ok2
		}
	}
	return "", false
}

func (s *scanner) scanFile(path string) {
	f, err := parser.ParseFile(s.fset, path, nil, parser.SkipObjectResolution)
	if err != nil {
		return
	}
	rel, _ := filepath.Rel(s.repo, path)
	dir := filepath.Dir(path)
	imports := map[string]string{}
	for _, im := range f.Imports {
		ip, _ := strconv.Unquote(im.Path.Value)
		name := filepath.Base(ip)
		if im.Name != nil {
			name = im.Name.Name
		}
		imports[name] = ip
	}
	// methods chained onto a registration: X.HandleFunc(...).Methods("GET", "POST")
	methodsOf := map[*ast.CallExpr][]string{}
	ast.Inspect(f, func(n ast.Node) bool {
		call, ok := n.(*ast.CallExpr)
		if !ok {
			return true
		}
		sel, ok := call.Fun.(*ast.SelectorExpr)
		if !ok || sel.Sel.Name != "Methods" {
			return true
		}
		// walk down the receiver chain to the registration call
		var ms []string
		for _, a := range call.Args {
			if v, ok := s.resolve(a, dir, imports); ok {
				ms = append(ms, v)
			} else if se, ok := a.(*ast.SelectorExpr); ok && strings.HasPrefix(se.Sel.Name, "Method") {
				ms = append(ms, strings.ToUpper(strings.TrimPrefix(se.Sel.Name, "Method"))) // http.MethodGet
			} else {
				ms = append(ms, "?"+exprText(a))
			}
		}
		inner := sel.X
		for {
			c, ok := inner.(*ast.CallExpr)
			if !ok {
				break
			}
			methodsOf[c] = append(methodsOf[c], ms...)
			cs, ok := c.Fun.(*ast.SelectorExpr)
			if !ok {
				break
			}
			inner = cs.X
		}
		return true
	})
	ast.Inspect(f, func(n ast.Node) bool {
		call, ok := n.(*ast.CallExpr)
		if !ok {
			return true
		}
		sel, ok := call.Fun.(*ast.SelectorExpr)
		if !ok {
			return true
		}
		recv := exprText(sel.X)
		pos := s.fset.Position(call.Pos())
		switch sel.Sel.Name {
		case "HandleFunc", "Handle", "PathPrefix", "Path":
			if len(call.Args) < 1 {
				return true
			}
			if sel.Sel.Name == "Handle" && len(call.Args) != 2 {
				return true
			}
			if sel.Sel.Name == "HandleFunc" && len(call.Args) != 2 {
				return true
			}
			if (sel.Sel.Name == "Path" || sel.Sel.Name == "PathPrefix") && len(call.Args) != 1 {
				return true
			}
			reg := StaticReg{File: rel, Line: pos.Line, Call: sel.Sel.Name, Receiver: recv, Methods: methodsOf[call]}
			if id, ok := sel.X.(*ast.Ident); ok && imports[id.Name] == "net/http" {
				reg.StdMux = true
			}
			if v, ok := s.resolve(call.Args[0], dir, imports); ok {
				reg.Path = v
			} else {
				reg.Dynamic = exprText(call.Args[0])
			}
			sort.Strings(reg.Methods)
			s.Regs = append(s.Regs, reg)
		case "NewRouter", "Subrouter", "NewServeMux", "ListenAndServe", "ListenAndServeTLS", "Serve", "ServeTLS":
			s.Routers = append(s.Routers, fmt.Sprintf("%s:%d %s.%s", rel, pos.Line, recv, sel.Sel.Name))
		}
		return true
	})
}

// ScanRepo reads every non-test Go file of the repository.
func ScanRepo(repo string) *scanner {
	s := &scanner{repo: repo, module: readModule(repo), fset: token.NewFileSet(), consts: map[string]pkgConsts{}}
	filepath.Walk(repo, func(p string, info os.FileInfo, err error) error {
		if err != nil {
			return nil
		}
		if info.IsDir() {
			if n := info.Name(); n == ".git" || n == "node_modules" || n == "vendor" {
				return filepath.SkipDir
			}
			return nil
		}
		if strings.HasSuffix(p, ".go") && !strings.HasSuffix(p, "_test.go") {
			s.scanFile(p)
		}
		return nil
	})
	sort.Slice(s.Regs, func(i, j int) bool {
		if s.Regs[i].File != s.Regs[j].File {
			return s.Regs[i].File < s.Regs[j].File
		}
		return s.Regs[i].Line < s.Regs[j].Line
	})
	sort.Strings(s.Routers)
	return s
}

// HeaderRead is one place where the router-wide middleware code reads a request header.
type HeaderRead struct {
	File string
	Line int
	Name string // canonical header name, or "<dynamic: expr>"
	How  string
}

// ScanHeaderReads lists every request-header read in the code that runs for every request before the route
// handlers: package main (main.go ...), reader/main.go, reader/utils/middleware, shared/.  Recognised shapes:
// X.Header.Get(..) / .Values(..) / X.Header[..] where Header is a field (a response's w.Header() is a call and is
// skipped), and the net/http helpers Referer(), UserAgent(), BasicAuth(), Cookie(s)().
func ScanHeaderReads(repo string) []HeaderRead {
	var files []string
	for _, g := range []string{"*.go", "reader/main.go", "reader/utils/middleware/*.go", "shared/*.go", "shared/*/*.go", "shared/*/*/*.go"} {
		m, _ := filepath.Glob(filepath.Join(repo, g))
		files = append(files, m...)
	}
	sort.Strings(files)
	fset := token.NewFileSet()
	var out []HeaderRead
	seen := map[string]bool{}
	for _, path := range files {
		if strings.HasSuffix(path, "_test.go") || seen[path] {
			continue
		}
		seen[path] = true
		f, err := parser.ParseFile(fset, path, nil, parser.SkipObjectResolution)
		if err != nil {
			continue
		}
		rel, _ := filepath.Rel(repo, path)
		isHeaderField := func(e ast.Expr) bool {
			se, ok := e.(*ast.SelectorExpr)
			return ok && se.Sel.Name == "Header"
		}
		name := func(e ast.Expr) string {
			if bl, ok := e.(*ast.BasicLit); ok && bl.Kind == token.STRING {
				if v, err := strconv.Unquote(bl.Value); err == nil {
					return http.CanonicalHeaderKey(v)
				}
			}
			return "<dynamic: " + exprText(e) + ">"
		}
		ast.Inspect(f, func(n ast.Node) bool {
			switch x := n.(type) {
			case *ast.CallExpr:
				sel, ok := x.Fun.(*ast.SelectorExpr)
				if !ok {
					return true
				}
				pos := fset.Position(x.Pos())
				switch sel.Sel.Name {
				case "Get", "Values":
					if isHeaderField(sel.X) && len(x.Args) == 1 {
						out = append(out, HeaderRead{rel, pos.Line, name(x.Args[0]), exprText(sel.X) + "." + sel.Sel.Name})
					}
				case "Referer":
					if len(x.Args) == 0 {
						out = append(out, HeaderRead{rel, pos.Line, "Referer", exprText(sel.X) + ".Referer()"})
					}
				case "UserAgent":
					if len(x.Args) == 0 {
						out = append(out, HeaderRead{rel, pos.Line, "User-Agent", exprText(sel.X) + ".UserAgent()"})
					}
				case "BasicAuth":
					if len(x.Args) == 0 {
						out = append(out, HeaderRead{rel, pos.Line, "Authorization", exprText(sel.X) + ".BasicAuth()"})
					}
				case "Cookie", "Cookies":
					out = append(out, HeaderRead{rel, pos.Line, "Cookie", exprText(sel.X) + "." + sel.Sel.Name + "()"})
				}
			case *ast.IndexExpr:
				if isHeaderField(x.X) {
					pos := fset.Position(x.Pos())
					out = append(out, HeaderRead{rel, pos.Line, name(x.Index), exprText(x.X) + "[...]"})
				}
			}
			return true
		})
	}
	return out
}

// WiringSetting is one configuration field / environment variable / package flag used in an if-condition of a
// function that builds the middleware chain.
type WiringSetting struct {
	File string
	Line int
	Func string
	Name string
}

// ScanWiringSettings finds the functions of package main, reader/main.go, writer/plugin and writer/router that call
// X.Use(...) and lists what their if-conditions (and switch tags) depend on: `….Setting.<FIELD PATH>` selectors,
// os.Getenv("NAME") calls (env:NAME) and bare package-level identifiers that are not locals (e.g. ownHttpServer).
func ScanWiringSettings(repo string) []WiringSetting {
	var files []string
	for _, g := range []string{"*.go", "reader/main.go", "writer/*.go", "writer/plugin/*.go", "writer/router/*.go", "shared/commonroutes/*.go", "view/*.go"} {
		m, _ := filepath.Glob(filepath.Join(repo, g))
		files = append(files, m...)
	}
	sort.Strings(files)
	fset := token.NewFileSet()
	var out []WiringSetting
	seen := map[string]bool{}
	for _, path := range files {
		if strings.HasSuffix(path, "_test.go") {
			continue
		}
		f, err := parser.ParseFile(fset, path, nil, parser.SkipObjectResolution)
		if err != nil {
			continue
		}
		rel, _ := filepath.Rel(repo, path)
		pkgVars := map[string]bool{}
		for _, d := range f.Decls {
			if gd, ok := d.(*ast.GenDecl); ok && gd.Tok == token.VAR {
				for _, sp := range gd.Specs {
					for _, n := range sp.(*ast.ValueSpec).Names {
						pkgVars[n.Name] = true
					}
				}
			}
		}
		for _, d := range f.Decls {
			fd, ok := d.(*ast.FuncDecl)
			if !ok || fd.Body == nil {
				continue
			}
			usesUse := false
			ast.Inspect(fd.Body, func(n ast.Node) bool {
				if c, ok := n.(*ast.CallExpr); ok {
					if sel, ok := c.Fun.(*ast.SelectorExpr); ok && sel.Sel.Name == "Use" {
						usesUse = true
					}
				}
				return true
			})
			if !usesUse {
				continue
			}
			collect := func(cond ast.Expr) {
				ast.Inspect(cond, func(n ast.Node) bool {
					name := ""
					switch x := n.(type) {
					case *ast.SelectorExpr:
						t := exprText(x)
						if i := strings.Index(t, ".Setting."); i >= 0 {
							name = t[i+len(".Setting."):]
						} else {
							return true
						}
					case *ast.CallExpr:
						if sel, ok := x.Fun.(*ast.SelectorExpr); ok && exprText(sel) == "os.Getenv" && len(x.Args) == 1 {
							if bl, ok := x.Args[0].(*ast.BasicLit); ok {
								v, _ := strconv.Unquote(bl.Value)
								name = "env:" + v
							}
						}
					case *ast.Ident:
						if pkgVars[x.Name] {
							name = x.Name
						}
					}
					if name != "" {
						pos := fset.Position(n.Pos())
						k := rel + "|" + fd.Name.Name + "|" + name
						if !seen[k] {
							seen[k] = true
							out = append(out, WiringSetting{rel, pos.Line, fd.Name.Name, name})
						}
						return false
					}
					return true
				})
			}
			ast.Inspect(fd.Body, func(n ast.Node) bool {
				switch x := n.(type) {
				case *ast.IfStmt:
					collect(x.Cond)
				case *ast.SwitchStmt:
					if x.Tag != nil {
						collect(x.Tag)
					}
				}
				return true
			})
		}
	}
	return out
}
