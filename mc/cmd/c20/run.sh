# C20 custom runner (sourced by bin/check; $scratch, $src, $here, VERIF_REPO, VERIF_ROOT are set, "$@" = check args).
# 1. probe: package main of the repository + _overlay/zz_verif_c20_test.go, built as a test binary (runs the real main())
# 2. reporter: mc/cmd/c20 (alphabet, static route scan, oracle, evidence)
mkdir -p "$scratch/bin"
( cd "$VERIF_REPO" && go test -c -overlay "$scratch/overlay.json" -vet=off -tags verif -o "$scratch/bin/c20.test" . ) >"$scratch/build-probe.log" 2>&1 &
c20_pid=$!
( cd "$VERIF_ROOT" && go build -modfile="$scratch/mod/go.mod" -tags verif -o "$scratch/bin/c20" ./mc/cmd/c20 ) \
  || { echo "HARNESS-ERROR: build failed for C20 (reporter)" >&2; wait $c20_pid; return 2 2>/dev/null || exit 2; }
wait $c20_pid || { cat "$scratch/build-probe.log" >&2; echo "HARNESS-ERROR: build failed for C20 (probe in package main of $VERIF_REPO)" >&2; return 2 2>/dev/null || exit 2; }
[ -x "$scratch/bin/c20.test" ] || { cat "$scratch/build-probe.log" >&2; echo "HARNESS-ERROR: no probe binary" >&2; return 2 2>/dev/null || exit 2; }
VERIF_C20_TESTBIN="$scratch/bin/c20.test" "$scratch/bin/c20" "$@"
