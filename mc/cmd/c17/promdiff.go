package main

import (
	"context"
	"fmt"
	"math"
	"sort"
	"strings"
	"sync"
	"sync/atomic"
	"time"

	kitlog "github.com/go-kit/kit/log/logrus"
	"github.com/metrico/qryn/reader/model"
	"github.com/metrico/qryn/reader/service"
	"github.com/metrico/qryn/reader/utils/logger"
	"github.com/prometheus/prometheus/model/labels"
	"github.com/prometheus/prometheus/promql"
	"github.com/prometheus/prometheus/storage"

	"verif/mc/chsim"
	"verif/mc/ev"
	"verif/mc/fakesql"
	"verif/mc/fakesql/chbackend"
)

// ---- the real storage adapter over chsim ----

type realStore struct {
	q       *service.CLokiQueriable
	backend *chbackend.Backend
	script  *fakesql.DB
}

var sessSeq struct {
	sync.Mutex
	n int
}

// newRealStore wires reader/service CLokiQueriable (the storage.Queryable the Prometheus routes use) to a chsim
// database through the scripted driver, exactly as reader/router RoutePrometheusQueryRange does with the registry.
func newRealStore(tables *chsim.DB) *realStore {
	b := chbackend.New(tables, "samples_v3", "time_series", "time_series_gin", "settings", "metrics_15s")
	script := fakesql.New(b.Handler())
	sessSeq.Lock()
	sessSeq.n++
	name := fmt.Sprintf("c17-%d", sessSeq.n)
	sessSeq.Unlock()
	sess := fakesql.NewSession(name, script)
	reg, _ := fakesql.Registry(sess, "qryn", "")
	return &realStore{q: &service.CLokiQueriable{ServiceData: model.ServiceData{Session: reg}}, backend: b, script: script}
}

func (r *realStore) queryable(ctx context.Context) storage.Queryable { return r.q.SetOidAndDB(ctx) }

// newEngine: the options of reader/router/prometheusQueryRangeRouter.go.
func newEngine() *promql.Engine {
	return promql.NewEngine(promql.EngineOpts{
		Logger:     kitlog.NewLogger(logger.Logger),
		MaxSamples: 5000000,
		Timeout:    30 * time.Second,
	})
}

// ---- cases ----

type promCase struct {
	Part    string `json:"part"`
	DB      int    `json:"db,omitempty"` // 0 = the base database, 1 = every sample 2.5 s later (thorough tier)
	Expr    string `json:"expr"`
	Instant bool   `json:"instant,omitempty"`
	StartMs int64  `json:"start_ms"`
	EndMs   int64  `json:"end_ms,omitempty"`
	StepMs  int64  `json:"step_ms,omitempty"`
}

func (c promCase) String() string {
	db := ""
	if c.DB != 0 {
		db = fmt.Sprintf(" db=%d", c.DB)
	}
	if c.Instant {
		return fmt.Sprintf("instant %q at base+%dms%s", c.Expr, c.StartMs-baseMs, db)
	}
	return fmt.Sprintf("range %q start=base+%dms end=base+%dms step=%dms%s", c.Expr, c.StartMs-baseMs, c.EndMs-baseMs, c.StepMs, db)
}

const baseMs = int64(1_700_000_100_000) // multiple of 15 s (the range controller floors start to 15 s)

// promDBVariant: 0 = promDB, 1 = the same series with every sample 2.5 s later (no sample coincides with an
// evaluation time or a window edge of the grid any more, other samples fall into each window).
func promDBVariant(v int) *MetricDB {
	if v == 2 {
		return promDBMultiDay()
	}
	db := promDB()
	if v == 1 {
		for i := range db.Series {
			for j := range db.Series[i].Samples {
				db.Series[i].Samples[j].TimestampMs += 2500
			}
		}
	}
	return db
}

// ---- several selectors of one expression looking at different calendar days ----

// midnightMs is 2023-11-17T00:00:00Z: the evaluation times of the multi-day part lie around it.
const midnightMs = int64(1_700_179_200_000)

// promDBMultiDay: series that have samples (and therefore index rows) only on some of the days the selectors of
// one expression look at: pod=a only two days ago, pod=b two days ago and around midnight, pod=c only around
// midnight (both sides of it), pod=d only a week ago; m2 one hour and one day ago.  One sample per minute in a
// +-10 min window around each anchor.
func promDBMultiDay() *MetricDB {
	const day, hour, min = int64(86_400_000), int64(3_600_000), int64(60_000)
	around := func(base float64, anchors ...int64) []model.Sample {
		var out []model.Sample
		for ai, a := range anchors {
			for k := int64(-10); k <= 10; k++ {
				out = append(out, model.Sample{TimestampMs: midnightMs + a + k*min + int64(ai)*7, Value: base + float64(ai)*100 + float64(k+10)})
			}
		}
		sort.Slice(out, func(i, j int) bool { return out[i].TimestampMs < out[j].TimestampMs })
		return out
	}
	return &MetricDB{Series: []MSeries{
		{Labels: map[string]string{"__name__": "up", "pod": "a"}, Samples: around(1000, -2*day)},
		{Labels: map[string]string{"__name__": "up", "pod": "b"}, Samples: around(2000, -2*day, 0)},
		{Labels: map[string]string{"__name__": "up", "pod": "c"}, Samples: around(3000, 0)},
		{Labels: map[string]string{"__name__": "up", "pod": "d"}, Samples: around(4000, -7*day)},
		{Labels: map[string]string{"__name__": "up", "pod": "e"}, Samples: around(5000, -1*day, -hour)},
		{Labels: map[string]string{"__name__": "m2", "pod": "a"}, Samples: around(6000, -hour, -day)},
	}}
}

func promCasesMultiDay(thorough bool) []promCase {
	exprs := []string{
		`up or up offset 2d`, `up offset 2d or up`, `up - on(pod) up offset 2d`, `up or up offset 1h`, `up or up offset 1d`,
		`up or up offset 1w`, `up offset 1w or up offset 1d or up`, `up unless up offset 2d`, `count(up) + count(up offset 2d)`,
		`max_over_time(up[3d])`, `up - on(pod) max_over_time(up[3d])`, `max_over_time(up[1h]) or max_over_time(up[2h] offset 2d)`,
		`sum_over_time(up[10m:1m] offset 2d) or up`, `up or m2 offset 1d`, `m2 offset 1h or up offset 2d`,
		`up + on(pod) group_left m2 offset 1d`, `up`, `up offset 2d`,
	}
	instants := []int64{-180_000, 0, 180_000}
	if thorough {
		exprs = append(exprs, `up offset 1d unless up`, `min_over_time(up[8d])`, `count_over_time(up[2d]) or count_over_time(up[1d] offset 6d)`,
			`up and on(pod) up offset 2d`, `avg_over_time(up[25h]) - on(pod) up`, `up offset 2d - on(pod) up offset 1w`)
		instants = []int64{-600_000, -180_000, -1, 0, 1, 180_000, 600_000}
	}
	var out []promCase
	for _, e := range exprs {
		for _, t := range instants {
			out = append(out, promCase{Part: "promql", DB: 2, Expr: e, Instant: true, StartMs: midnightMs + t})
		}
		// a range query across midnight (start on a multiple of 15 s, step below the down-sampling threshold)
		out = append(out, promCase{Part: "promql", DB: 2, Expr: e, StartMs: midnightMs - 120_000, EndMs: midnightMs + 120_000, StepMs: 10_000})
	}
	return out
}

func promDB() *MetricDB {
	mk := func(offsValue ...float64) []model.Sample {
		var s []model.Sample
		for i := 0; i+1 < len(offsValue); i += 2 {
			s = append(s, model.Sample{TimestampMs: baseMs + int64(offsValue[i]*1000), Value: offsValue[i+1]})
		}
		return s
	}
	return &MetricDB{Series: []MSeries{
		{Labels: map[string]string{"__name__": "m", "a": "x", "b": "p"},
			Samples: mk(-290, 1, -20, 2, -5, 3, 0, 4, 1, 5, 4, 7, 9.5, 8, 15, 11, 16, 12, 21, 14, 30, 20, 33, 21, 45, 30, 47, 31, 60, 40, 62, 41, 75, 50, 90, 60)},
		{Labels: map[string]string{"__name__": "m", "a": "y", "b": "p"},
			Samples: mk(-7, 100, 2, 101, 3.5, 90, 12, 95, 25, 99, 26, 3, 40, 10, 58, 20, 61, 30, 89, 35)},
		{Labels: map[string]string{"__name__": "m", "a": "xz"},
			Samples: mk(5, 1, 10, 2, 20, 4, 35, 8, 50, 16, 70, 32)},
		{Labels: map[string]string{"__name__": "n", "a": "x", "b": "p"},
			Samples: mk(0, 2, 15, 2, 30, 2, 45, 4, 60, 4, 75, 4)},
		{Labels: map[string]string{"__name__": "m", "c": "only"},
			Samples: mk(7, 5, 22, 6, 37, 7, 52, 8, 67, 9)},
	}}
}

func promExprs(thorough bool) []string {
	e := []string{
		`m`, `m{a="x"}`, `m{a!="x"}`, `m{a=~"x.*"}`, `m{a=~"x"}`, `m{a!~"x"}`, `m{b=""}`, `m{b!=""}`, `{__name__=~"m|n",a="x"}`,
		`rate(m[10s])`, `rate(m[5s])`, `rate(m[30s])`, `increase(m[20s])`, `irate(m[20s])`, `delta(m[20s])`,
		`sum_over_time(m[10s])`, `sum_over_time(m[3s])`, `avg_over_time(m[4s])`, `max_over_time(m[4s])`, `min_over_time(m[20s])`,
		`count_over_time(m[2s])`, `last_over_time(m[6s])`, `present_over_time(m[3s])`,
		`max by(a)(m)`, `sum(m)`, `sum by (b) (rate(m[10s]))`, `count(m)`, `m offset 10s`, `rate(m[10s] offset 5s)`,
		`m + on(a) n`, `abs(m)`, `m > 5`, `timestamp(m)`, `sum_over_time(m[10s:5s])`,
	}
	if thorough {
		e = append(e, `m{a=~"x|y"}`, `m{a!~"x.*"}`, `m{c=~".*"}`, `m{c=~".+"}`, `changes(m[20s])`, `resets(m[30s])`, `deriv(m[30s])`,
			`stddev_over_time(m[20s])`, `quantile_over_time(0.5, m[20s])`, `absent_over_time(m{a="none"}[5s])`, `topk(1, m)`,
			`avg by (a) (m)`, `min(m)`, `group(m)`, `floor(m)`, `m unless n`, `m and on(a) n`, `scalar(m{a="xz"})`,
			`max_over_time(m[14s])`, `rate(m[7s])`, `count_over_time(m[1s])`, `sum_over_time(m[6s])`)
	}
	return e
}

func promCases(thorough bool) []promCase {
	var out []promCase
	starts := []int64{0, 15, 30}
	spans := []int64{0, 30, 60}
	steps := []int64{1000, 5000, 7000, 10000, 14000}
	instants := []int64{0, 7000, 15000, 22500, 40000}
	if thorough {
		starts = []int64{0, 15, 30, 45}
		spans = []int64{0, 15, 30, 45, 60}
		steps = []int64{1000, 2000, 3000, 5000, 7000, 10000, 13000, 14000, 14999}
		instants = []int64{0, 1000, 4000, 7000, 9500, 15000, 22500, 30000, 40000, 61999, 90000}
	}
	for _, e := range promExprs(thorough) {
		for _, t := range instants {
			out = append(out, promCase{Part: "promql", Expr: e, Instant: true, StartMs: baseMs + t})
		}
		for _, s := range starts {
			for _, sp := range spans {
				for _, st := range steps {
					out = append(out, promCase{Part: "promql", Expr: e, StartMs: baseMs + s*1000, EndMs: baseMs + (s+sp)*1000, StepMs: st})
				}
			}
		}
	}
	return out
}

// ---- running one query over a Queryable ----

// queryBound guards against code under test that never terminates (a cursor whose Next never returns false makes
// the engine spin: it does not look at its context inside the iterator loop).  The bound is generous against the
// milliseconds a query takes; a query that exceeds it is abandoned (its goroutine keeps spinning until exit) and
// after stuckLimit of them the PromQL part stops.
const (
	queryBound = 20 * time.Second
	stuckLimit = 2
)

var stuck int64

var errNoTermination = fmt.Errorf("query did not terminate within %s", queryBound)

func runQuery(eng *promql.Engine, q storage.Queryable, c promCase) (string, error) {
	type res struct {
		s   string
		err error
	}
	ch := make(chan res, 1)
	go func() {
		s, err := runQueryUnguarded(eng, q, c)
		ch <- res{s, err}
	}()
	select {
	case r := <-ch:
		return r.s, r.err
	case <-time.After(queryBound):
		atomic.AddInt64(&stuck, 1)
		return "", errNoTermination
	}
}

func runQueryUnguarded(eng *promql.Engine, q storage.Queryable, c promCase) (string, error) {
	ctx := context.Background()
	var qry promql.Query
	var err error
	if c.Instant {
		qry, err = eng.NewInstantQuery(q, nil, c.Expr, time.UnixMilli(c.StartMs))
	} else {
		qry, err = eng.NewRangeQuery(q, nil, c.Expr, time.UnixMilli(c.StartMs), time.UnixMilli(c.EndMs), time.Duration(c.StepMs)*time.Millisecond)
	}
	if err != nil {
		return "", err
	}
	defer qry.Close()
	res := qry.Exec(ctx)
	if res.Err != nil {
		return "", res.Err
	}
	return canonResult(res), nil
}

func fnum(f float64) string {
	if math.IsNaN(f) {
		return "NaN"
	}
	return fmt.Sprintf("%v", f)
}

func canonResult(res *promql.Result) string {
	var lines []string
	switch v := res.Value.(type) {
	case promql.Matrix:
		for _, s := range v {
			var sb strings.Builder
			sb.WriteString(s.Metric.String())
			for _, p := range s.Points {
				fmt.Fprintf(&sb, " %d=%s", p.T-baseMs, fnum(p.V))
			}
			lines = append(lines, sb.String())
		}
	case promql.Vector:
		for _, s := range v {
			lines = append(lines, fmt.Sprintf("%s %d=%s", s.Metric.String(), s.T-baseMs, fnum(s.V)))
		}
	case promql.Scalar:
		lines = append(lines, fmt.Sprintf("scalar %d=%s", v.T-baseMs, fnum(v.V)))
	default:
		lines = append(lines, res.Value.String())
	}
	sort.Strings(lines)
	return string(res.Value.Type()) + "\n" + strings.Join(lines, "\n")
}

// ---- classification of a disagreement by explanation ----

var instantFns = map[string]bool{"abs": true, "absent": true, "ceil": true, "exp": true, "floor": true, "ln": true, "log2": true,
	"log10": true, "round": true, "scalar": true, "sgn": true, "sort": true, "sqrt": true, "timestamp": true, "atan": true, "cos": true,
	"cosh": true, "sin": true, "sinh": true, "tan": true, "tanh": true, "deg": true, "rad": true}

func samplesEqual(a, b []model.Sample) bool {
	if len(a) != len(b) {
		return false
	}
	for i := range a {
		if a[i].TimestampMs != b[i].TimestampMs || !(a[i].Value == b[i].Value || (math.IsNaN(a[i].Value) && math.IsNaN(b[i].Value))) {
			return false
		}
	}
	return true
}

// bucketize is the documented deviant rule of processHints for instant selectors: samples are moved forward to
// the next multiple of step counted from hints.Start, the latest sample of a bucket wins.
func bucketize(s []model.Sample, start, step int64) []model.Sample {
	var out []model.Sample
	for _, p := range s {
		t := ((p.TimestampMs-start+step-1)/step)*step + start
		if n := len(out); n > 0 && out[n-1].TimestampMs == t {
			out[n-1].Value = p.Value
			continue
		}
		out = append(out, model.Sample{TimestampMs: t, Value: p.Value})
	}
	return out
}

// prefilter is the documented deviant rule of processHints for range selectors with step > range: only samples
// with t % step == 0 or t % step >= step - range are read.
func prefilter(s []model.Sample, step, rng int64) []model.Sample {
	var out []model.Sample
	for _, p := range s {
		m := p.TimestampMs % step
		if m == 0 || m >= step-rng {
			out = append(out, p)
		}
	}
	return out
}

func dropAt(s []model.Sample, t int64) []model.Sample {
	var out []model.Sample
	for _, p := range s {
		if p.TimestampMs != t {
			out = append(out, p)
		}
	}
	return out
}

// matcherDeviation explains a difference in the selected label sets by qryn's documented deviant matcher rules:
// D27 "the label must be present in the index" (absent label never matches, not even != / !~ / ="") and
// D23 "regular expressions are searched, not anchored".
func matcherDeviation(db *MetricDB, ms []*labels.Matcher, got map[string]bool) string {
	sel := func(presence, unanchored bool) map[string]bool {
		out := map[string]bool{}
		for _, s := range db.Series {
			ok := true
			for _, m := range ms {
				v, has := s.Labels[m.Name]
				if presence && !has {
					ok = false
					break
				}
				if !matchWith(m, v, unanchored) {
					ok = false
					break
				}
			}
			if ok {
				out[s.lset().String()] = true
			}
		}
		return out
	}
	same := func(a, b map[string]bool) bool {
		if len(a) != len(b) {
			return false
		}
		for k := range a {
			if !b[k] {
				return false
			}
		}
		return true
	}
	exact := map[string]bool{}
	for _, s := range db.Series {
		ok := true
		for _, m := range ms {
			if !m.Matches(s.Labels[m.Name]) {
				ok = false
			}
		}
		if ok {
			exact[s.lset().String()] = true
		}
	}
	switch {
	case same(exact, got):
		return ""
	case same(sel(true, false), got):
		return "matcher_needs_label_present"
	case same(sel(false, true), got):
		return "matcher_regex_unanchored"
	case same(sel(true, true), got):
		return "matcher_needs_label_present+matcher_regex_unanchored"
	}
	return "matcher_unexplained"
}

var rangeFns = map[string]bool{"absent_over_time": true, "deriv": true, "idelta": true, "irate": true, "rate": true, "resets": true,
	"min_over_time": true, "max_over_time": true, "sum_over_time": true, "count_over_time": true, "stddev_over_time": true,
	"stdvar_over_time": true, "last_over_time": true, "present_over_time": true, "delta": true, "increase": true, "avg_over_time": true}

// explainRows compares, for every Select the engine issued, the series the real adapter returned with the
// reference selection and names the deviations found.  Row-level deviant rules (transcribed from what
// reader/promql/transpiler emits): the window is (Start, End] instead of [Start, End]; instant selectors with a
// step are bucketed forward to multiples of step from hints.Start; range functions with step > range read only
// samples with t % step == 0 or t % step >= step - range.
func explainRows(db *MetricDB, calls []recCall) []string {
	causes := map[string]bool{}
	for _, c := range calls {
		if c.Err != nil {
			causes["select_error"] = true
			continue
		}
		h := c.Hints
		ref := refSelect(db, &h, c.Matchers)
		gotBy := map[string][]model.Sample{}
		for _, s := range c.Series {
			gotBy[s.Labels.String()] = s.Samples
		}
		bucket := h.Step != 0 && (h.Func == "" || instantFns[h.Func])
		pre := h.Step != 0 && rangeFns[h.Func] && h.Step > h.Range
		unexplainedMissing, extra := false, false
		refKeys := map[string]bool{}
		for _, s := range ref {
			k := s.Labels.String()
			refKeys[k] = true
			got := gotBy[k] // nil when the series is absent from the real result
			if samplesEqual(got, s.Samples) {
				continue
			}
			type cand struct {
				names   []string
				samples []model.Sample
			}
			noStart := dropAt(s.Samples, h.Start)
			startDropped := len(noStart) != len(s.Samples)
			var cands []cand
			add := func(base []model.Sample, names ...string) {
				cands = append(cands, cand{names, base})
				if bucket {
					cands = append(cands, cand{append(append([]string{}, names...), "instant_selector_step_bucketing"), bucketize(base, h.Start, h.Step)})
				}
				if pre {
					n := "range_prefilter_modulo_step"
					if h.Range == 0 {
						n = "range_prefilter_modulo_step_on_subquery"
					}
					cands = append(cands, cand{append(append([]string{}, names...), n), prefilter(base, h.Step, h.Range)})
				}
			}
			add(s.Samples)
			if startDropped {
				add(noStart, "window_start_exclusive")
			}
			found := false
			for _, cd := range cands {
				if samplesEqual(got, cd.samples) && len(cd.names) > 0 {
					for _, n := range cd.names {
						causes[n] = true
					}
					found = true
					break
				}
			}
			if !found {
				if got == nil {
					unexplainedMissing = true
				} else {
					causes["rows_unexplained"] = true
				}
			}
		}
		storedSets := map[string]bool{}
		for _, s := range db.Series {
			storedSets[s.lset().String()] = true
		}
		for k := range gotBy {
			if !storedSets[k] {
				// a series handed to the engine under a label set no stored series carries (e.g. an empty one)
				causes["series_under_foreign_label_set"] = true
				continue
			}
			if !refKeys[k] {
				extra = true
			}
		}
		if causes["series_under_foreign_label_set"] {
			// the series missing under their own label set are the ones that arrived under the foreign one
			unexplainedMissing = false
		}
		if unexplainedMissing || extra {
			// explain by matcher rules on the label sets of series that have samples inside (Start, End]
			inRange := &MetricDB{}
			for _, s := range db.Series {
				for _, p := range s.Samples {
					if p.TimestampMs > h.Start && p.TimestampMs <= h.End {
						inRange.Series = append(inRange.Series, s)
						break
					}
				}
			}
			gotSet := map[string]bool{}
			for k := range gotBy {
				gotSet[k] = true
			}
			if pre || bucket {
				// the row rules can also empty a series: judge the matchers on what the index query selected,
				// i.e. add back the reference series the row rules explain away
				for _, s := range ref {
					k := s.Labels.String()
					if gotSet[k] {
						continue
					}
					base := dropAt(s.Samples, h.Start)
					if pre && len(prefilter(base, h.Step, h.Range)) == 0 {
						gotSet[k] = true
					}
				}
			}
			if d := matcherDeviation(inRange, c.Matchers, gotSet); d != "" {
				causes[d] = true
			}
		}
	}
	var out []string
	for k := range causes {
		out = append(out, k)
	}
	sort.Strings(out)
	return out
}

func matchWith(m *labels.Matcher, v string, unanchored bool) bool {
	if !unanchored || (m.Type != labels.MatchRegexp && m.Type != labels.MatchNotRegexp) {
		return m.Matches(v)
	}
	re, err := cachedRegexp(m.Value)
	if err != nil {
		return false
	}
	hit := re.MatchString(v)
	if m.Type == labels.MatchNotRegexp {
		return !hit
	}
	return hit
}

// ---- the check ----

func checkPromQL(r *ev.Run, viol *violations) {
	variants := []int{0}
	if r.Thorough() {
		variants = []int{0, 1}
	}
	for _, v := range variants {
		db := promDBVariant(v)
		tables, err := db.Tables()
		if err != nil {
			ev.Fatal("building tables: %v", err)
		}
		cases := promCases(r.Thorough())
		for i := range cases {
			cases[i].DB = v
		}
		runPromCases(r, viol, db, tables, cases)
	}
	// database 2: selectors of one expression on different calendar days (one Querier serves all Selects of a query)
	db := promDBVariant(2)
	tables, err := db.Tables()
	if err != nil {
		ev.Fatal("building tables: %v", err)
	}
	runPromCases(r, viol, db, tables, promCasesMultiDay(r.Thorough()))
	checkSelectTwice(r, viol, db, tables)
}

// checkSelectTwice: two Select calls with different windows on ONE Querier (what the engine does for an expression
// with two selectors), every ordered pair of windows from a menu of days; each answer is compared, series by
// series (labels and samples), with the reference selection for its own hints.
func checkSelectTwice(r *ev.Run, viol *violations, db *MetricDB, tables *chsim.DB) {
	const day, min = int64(86_400_000), int64(60_000)
	anchors := []int64{0, -day, -2 * day, -7 * day}
	names := []string{"up", "m2"}
	real := newRealStore(tables)
	n := 0
	for _, a1 := range anchors {
		for _, a2 := range anchors {
			for _, n1 := range names {
				for _, n2 := range names {
					q, err := real.queryable(context.Background()).Querier(context.Background(), 0, 0)
					if err != nil {
						ev.Fatal("Querier: %v", err)
					}
					c := promCase{Part: "promql", DB: 2, Expr: fmt.Sprintf("select %s@%dd then %s@%dd on one querier", n1, a1/day, n2, a2/day)}
					var causes []string
					var details []string
					for k, sel := range []struct {
						name string
						a    int64
					}{{n1, a1}, {n2, a2}} {
						h := &storage.SelectHints{Start: midnightMs + sel.a - 5*min, End: midnightMs + sel.a + 5*min}
						ms := []*labels.Matcher{labels.MustNewMatcher(labels.MatchEqual, "__name__", sel.name)}
						set := q.Select(false, h, ms...)
						ss, ok := set.(*model.SeriesSet)
						if !ok {
							ev.Fatal("Select returned %T", set)
						}
						if ss.Error != nil {
							causes = append(causes, "select_error")
							details = append(details, ss.Error.Error())
							continue
						}
						want := refSelect(db, h, ms)
						wantBy := map[string][]model.Sample{}
						for _, s := range want {
							wantBy[s.Labels.String()] = s.Samples
						}
						seen := map[string]bool{}
						for _, s := range ss.Series {
							key := s.Labels().String()
							seen[key] = true
							w, ok := wantBy[key]
							switch {
							case !ok:
								causes = append(causes, "series_under_foreign_label_set")
								details = append(details, fmt.Sprintf("select #%d returns a series under %s, which no stored series selected by it carries", k+1, key))
							case !samplesEqual(s.Samples, w):
								causes = append(causes, "samples_of_selected_series")
								details = append(details, fmt.Sprintf("select #%d: %s carries %d samples, stored in the window: %d", k+1, key, len(s.Samples), len(w)))
							}
						}
						for key := range wantBy {
							if !seen[key] {
								causes = append(causes, "selected_series_missing")
								details = append(details, fmt.Sprintf("select #%d does not return %s", k+1, key))
							}
						}
					}
					n++
					r.AddEval(1)
					r.TracesValidated++
					r.Transitions += 2
					r.Distinct("select_twice|" + c.Expr)
					if len(causes) == 0 {
						r.Outcome("promql:select_twice_equal")
						continue
					}
					r.Outcome("promql:select_twice_mismatch")
					sort.Strings(causes)
					viol.add("promql:"+strings.Join(dedup(causes), "+"), strings.Join(details, "; ")+" — "+c.Expr, c)
				}
			}
		}
	}
	if len(real.backend.Unsupported) > 0 {
		ev.Fatal("chsim could not execute %.400s", real.backend.Unsupported[0])
	}
	r.Extra["select_twice_pairs"] = n
}

func dedup(s []string) []string {
	var out []string
	for i, x := range s {
		if i == 0 || x != s[i-1] {
			out = append(out, x)
		}
	}
	return out
}

func runPromCases(r *ev.Run, viol *violations, db *MetricDB, tables *chsim.DB, cases []promCase) {
	type result struct {
		class, what string
		outcome     string
		selects     int
	}
	results := make([]result, len(cases))
	var wg sync.WaitGroup
	var next int64 = -1
	var mu sync.Mutex
	workers := 12
	var unsupported []string
	for w := 0; w < workers; w++ {
		wg.Add(1)
		go func() {
			defer wg.Done()
			eng := newEngine()
			real := newRealStore(tables)
			for {
				mu.Lock()
				next++
				i := int(next)
				mu.Unlock()
				if i >= len(cases) || r.Expired() {
					break
				}
				if atomic.LoadInt64(&stuck) >= stuckLimit {
					r.Cap("PromQL part stopped: queries over the real adapter do not terminate")
					break
				}
				c := cases[i]
				class, what, outcome, nsel := diffOne(eng, real, db, c)
				results[i] = result{class, what, outcome, nsel}
			}
			mu.Lock()
			unsupported = append(unsupported, real.backend.Unsupported...)
			mu.Unlock()
		}()
	}
	wg.Wait()
	if len(unsupported) > 0 {
		ev.Fatal("chsim could not execute %d statement(s) of the PromQL path, e.g. %.400s", len(unsupported), unsupported[0])
	}
	for i, c := range cases {
		res := results[i]
		if res.outcome == "" {
			continue // deadline
		}
		r.AddEval(1)
		r.TracesValidated++
		r.Transitions += int64(res.selects)
		r.Outcome("promql:" + res.outcome)
		if res.selects > 0 {
			r.Distinct("promql|" + c.String())
		}
		if res.class != "" {
			viol.add(res.class, res.what+" — "+c.String(), c)
		}
		if i%397 == 0 {
			r.Sample(map[string]any{"part": "promql", "case": c.String(), "outcome": res.outcome, "finding": res.class})
		}
	}
	r.States += int64(len(promExprs(r.Thorough())))
}

// diffOne runs one query over the real adapter and over the reference storage and classifies a disagreement.
func diffOne(eng *promql.Engine, real *realStore, db *MetricDB, c promCase) (class, what, outcome string, selects int) {
	rec := &recQueryable{inner: real.queryable(context.Background())}
	got, gerr := runQuery(eng, rec, c)
	ref := &refStore{db: db, cursor: cursorRef}
	want, werr := runQuery(eng, ref, c)
	selects = len(rec.calls)
	if werr != nil {
		// the expression is not valid PromQL for this engine configuration: the real side must reject it as well
		if gerr != nil {
			return "", "", "both_reject", selects
		}
		return "promql:accepts_what_prometheus_rejects", fmt.Sprintf("reference engine: %v; real adapter answered", werr), "mismatch", selects
	}
	if gerr == errNoTermination {
		return "promql:query_does_not_terminate", "the engine never finishes iterating the series of the real adapter", "stuck", selects
	}
	if gerr != nil {
		return "promql:select_error", fmt.Sprintf("real adapter fails: %v", gerr), "real_error", selects
	}
	if got == want {
		return "", "", "equal", selects
	}
	// which component explains it?  (1) the rows the SQL returned under the reference cursor, (2) the reference
	// rows under the repository's cursor
	over := map[string][]recSeries{}
	for _, call := range rec.calls {
		h := call.Hints
		over[selectKey(&h, call.Matchers)] = call.Series
	}
	rowsRefCursor, _ := runQuery(eng, &refStore{db: db, cursor: cursorRef, override: over}, c)
	refRowsRealCursor, _ := runQuery(eng, &refStore{db: db, cursor: cursorReal}, c)
	var causes []string
	if refRowsRealCursor != want {
		causes = append(causes, "cursor_seek")
	}
	if rowsRefCursor != want {
		rc := explainRows(db, rec.calls)
		if len(rc) == 0 {
			rc = []string{"rows_unexplained"}
		}
		causes = append(causes, rc...)
	}
	if len(causes) == 0 {
		// neither substitution alone reproduces the difference: the combination does
		causes = append(causes, "cursor_seek_on_sql_rows")
		causes = append(causes, explainRows(db, rec.calls)...)
	}
	sort.Strings(causes)
	class = "promql:" + strings.Join(causes, "+")
	what = fmt.Sprintf("PromQL result differs from Prometheus over the same samples (explained by: %s)\n   qryn:       %s\n   prometheus: %s",
		strings.Join(causes, ", "), strings.ReplaceAll(got, "\n", " | "), strings.ReplaceAll(want, "\n", " | "))
	return class, what, "mismatch", selects
}
