package main

import (
	"context"
	"encoding/json"
	"fmt"
	"sort"
	"strconv"
	"strings"
	"sync"
	"time"

	"github.com/metrico/qryn/reader/model"
	"github.com/metrico/qryn/reader/service"
	"github.com/prometheus/prometheus/model/labels"
	"github.com/prometheus/prometheus/storage"

	"verif/mc/chsim"
	"verif/mc/ev"
	"verif/mc/fakesql"
	"verif/mc/fakesql/chbackend"
)

// ---- C17a: matcher selection through the SQL ----

type matcherSpec struct {
	Name string `json:"name"`
	Op   string `json:"op"`
	Val  string `json:"val"`
}

func (m matcherSpec) String() string { return m.Name + m.Op + strconv.Quote(m.Val) }

func (m matcherSpec) matcher() *labels.Matcher {
	t := map[string]labels.MatchType{"=": labels.MatchEqual, "!=": labels.MatchNotEqual, "=~": labels.MatchRegexp, "!~": labels.MatchNotRegexp}[m.Op]
	return labels.MustNewMatcher(t, m.Name, m.Val)
}

type matcherCase struct {
	Part     string        `json:"part"` // matchers | profile
	DB       []int         `json:"db"`   // indexes into the series pool
	Matchers []matcherSpec `json:"matchers"`
}

func (c matcherCase) String() string {
	var m []string
	for _, x := range c.Matchers {
		m = append(m, x.String())
	}
	return fmt.Sprintf("%s {%s} on pool series %v", c.Part, strings.Join(m, ", "), c.DB)
}

var ops = []string{"=", "!=", "=~", "!~"}

// promPool is the pool of stored series; a database is any subset of <= 4 of them.  ax / xy probe unanchored
// regular expressions, the series without a / b probe absent labels, "x.*" is a literal value with regex characters.
// Fingerprints ascend with the pool index (rows arrive ordered by fingerprint), #4 repeats the label set of #0
// (adjacent when nothing of #1..#3 is in the database, otherwise with other selected series between the two),
// series have 1, 2 or 3 samples inside the window, #1 has two index rows, #3 is stored under fingerprint 0.
var promPool = []map[string]string{
	{"__name__": "m", "a": "x"},
	{"__name__": "m", "a": "y", "b": "x"},
	{"__name__": "m", "a": "ax"},
	{"__name__": "m"},
	{"__name__": "m", "a": "x"}, // the label set of #0 again, stored under another (larger) fingerprint
	{"__name__": "x", "a": "x", "b": "y"},
	{"__name__": "m", "b": "xy"},
	{"__name__": "xm", "a": "x.*"},
}

func subsets(n, maxSize int) [][]int {
	var out [][]int
	var rec func(cur []int, from int)
	rec = func(cur []int, from int) {
		if len(cur) > 0 {
			out = append(out, append([]int{}, cur...))
		}
		if len(cur) == maxSize {
			return
		}
		for i := from; i < n; i++ {
			rec(append(cur, i), i+1)
		}
	}
	rec(nil, 0)
	return out
}

func matcherSets(names, values []string, pairValues []string) [][]matcherSpec {
	var singles []matcherSpec
	for _, n := range names {
		for _, o := range ops {
			for _, v := range values {
				singles = append(singles, matcherSpec{n, o, v})
			}
		}
	}
	var out [][]matcherSpec
	for _, s := range singles {
		out = append(out, []matcherSpec{s})
	}
	inPair := map[string]bool{}
	for _, v := range pairValues {
		inPair[v] = true
	}
	for _, a := range singles {
		if !inPair[a.Val] {
			continue
		}
		for _, b := range singles {
			if !inPair[b.Val] {
				continue
			}
			out = append(out, []matcherSpec{a, b})
		}
	}
	return out
}

const (
	selStart = baseMs
	selEnd   = baseMs + 30_000
)

func promMatcherDB(idx []int) *MetricDB {
	db := &MetricDB{}
	for _, i := range idx {
		v := float64(100 * (i + 1))
		smp := []model.Sample{{TimestampMs: baseMs - 100_000 + int64(i), Value: v}}
		for k := 0; k <= i%3; k++ { // 1..3 samples inside the window, at times no other series uses
			smp = append(smp, model.Sample{TimestampMs: baseMs + 5_000 + int64(k)*7_000 + int64(i)*100, Value: v + float64(k+1)})
		}
		smp = append(smp, model.Sample{TimestampMs: baseMs + 100_000 + int64(i), Value: v + 9})
		db.Series = append(db.Series, MSeries{Labels: promPool[i], Samples: smp, Fp: uint64(10 * (i + 1)), TwoIndexRows: i == 1, FpZero: i == 3})
	}
	return db
}

// selectReal runs the real CLokiQuerier.Select on the raw-sample path (Step 0, no function).
func selectReal(real *realStore, ms []*labels.Matcher) ([]recSeries, error) {
	q, err := real.queryable(context.Background()).Querier(context.Background(), selStart, selEnd)
	if err != nil {
		return nil, err
	}
	set := q.Select(false, &storage.SelectHints{Start: selStart, End: selEnd}, ms...)
	if err := set.Err(); err != nil {
		return nil, err
	}
	// read the series set without going through the cursor (part b judges the cursor): Select returns the
	// concrete *model.SeriesSet
	ss, ok := set.(*model.SeriesSet)
	if !ok {
		return nil, fmt.Errorf("Select returned %T, not *model.SeriesSet (harness needs an update)", set)
	}
	var out []recSeries
	for _, s := range ss.Series {
		out = append(out, recSeries{Labels: s.Labels(), Samples: append([]model.Sample(nil), s.Samples...)})
	}
	return out, nil
}

func checkPromMatcherCase(real *realStore, db *MetricDB, c matcherCase) (class, what, outcome string) {
	var ms []*labels.Matcher
	for _, m := range c.Matchers {
		ms = append(ms, m.matcher())
	}
	got, err := selectReal(real, ms)
	if err != nil {
		return "matchers:select_error", "Select fails: " + err.Error(), "error"
	}
	hints := &storage.SelectHints{Start: selStart, End: selEnd}
	want := refSelect(db, hints, ms)
	gotSet, wantSet := map[string]bool{}, map[string]bool{}
	gotBy := map[string][][]model.Sample{}
	for _, s := range got {
		k := s.Labels.String()
		gotSet[k] = true
		gotBy[k] = append(gotBy[k], s.Samples)
	}
	wantBy := map[string][]model.Sample{}
	for _, s := range want {
		wantSet[s.Labels.String()] = true
		wantBy[s.Labels.String()] = s.Samples
	}
	outcome = fmt.Sprintf("selected_%d_of_%d", len(wantSet), len(db.Series))
	var causes, details []string
	if d := matcherDeviation(db, ms, gotSet); d != "" {
		causes = append(causes, strings.Split(strings.ReplaceAll(d, "matcher_", ""), "+")...)
		details = append(details, fmt.Sprintf("selected %v, Prometheus semantics select %v", keys(gotSet), keys(wantSet)))
	}
	// every returned series: under its own label set, with exactly the samples stored for that label set inside
	// the window, ascending — whatever else is selected by the same call
	stored := map[string][][]model.Sample{} // label set -> in-window samples per fingerprint, in fingerprint order
	for _, s := range db.Series {
		var in []model.Sample
		for _, p := range s.Samples {
			if p.TimestampMs >= selStart && p.TimestampMs <= selEnd {
				in = append(in, p)
			}
		}
		stored[s.lset().String()] = append(stored[s.lset().String()], in)
	}
	for k, copies := range gotBy {
		parts := stored[k]
		switch {
		case len(parts) == 0:
			causes = append(causes, "series_with_unknown_label_set")
			details = append(details, "returned label set "+k+" is not stored")
		case len(copies) == 1 && len(parts) == 1:
			if !samplesEqual(copies[0], parts[0]) {
				causes = append(causes, "samples_of_selected_series")
				details = append(details, fmt.Sprintf("series %s carries %v, stored in the window: %v", k, copies[0], parts[0]))
			}
		case len(copies) == 1:
			// several fingerprints, one series: must be the merged one
			if !samplesEqual(copies[0], mergeSamples(parts)) {
				causes = append(causes, "samples_of_selected_series")
				details = append(details, fmt.Sprintf("series %s (stored under %d fingerprints) carries %v, stored in the window: %v", k, len(parts), copies[0], mergeSamples(parts)))
			}
		default:
			// the label set is handed to the engine more than once.  Documented deviant rule (ReshuffleSeries
			// merges the later fingerprints into the first but keeps them in the list): first copy = union,
			// the others = their own rows
			expect := [][]model.Sample{mergeSamples(parts)}
			expect = append(expect, parts[1:]...)
			if len(parts) > 1 && sameSampleLists(copies, expect) {
				causes = append(causes, "duplicate_label_set_handed_twice")
				details = append(details, fmt.Sprintf("label set %s, stored under %d fingerprints, reaches the engine %d times (merged + the later fingerprints again)", k, len(parts), len(copies)))
			} else {
				causes = append(causes, "series_handed_twice")
				details = append(details, fmt.Sprintf("label set %s is returned %d times with %v; stored per fingerprint: %v", k, len(copies), copies, parts))
			}
		}
	}
	if len(causes) == 0 {
		return "", "", outcome
	}
	sort.Strings(causes)
	uniq := causes[:0]
	for i, x := range causes {
		if i == 0 || x != causes[i-1] {
			uniq = append(uniq, x)
		}
	}
	return "matchers:" + strings.Join(uniq, "+"), strings.Join(details, "; "), "mismatch"
}

func mergeSamples(parts [][]model.Sample) []model.Sample {
	var out []model.Sample
	for _, p := range parts {
		out = append(out, p...)
	}
	sort.SliceStable(out, func(a, b int) bool { return out[a].TimestampMs < out[b].TimestampMs })
	return out
}

// sameSampleLists compares two collections of sample lists as multisets.
func sameSampleLists(a, b [][]model.Sample) bool {
	if len(a) != len(b) {
		return false
	}
	used := make([]bool, len(b))
	for _, x := range a {
		found := false
		for j, y := range b {
			if !used[j] && samplesEqual(x, y) {
				used[j], found = true, true
				break
			}
		}
		if !found {
			return false
		}
	}
	return true
}

func keys(m map[string]bool) []string {
	var out []string
	for k := range m {
		out = append(out, k)
	}
	sort.Strings(out)
	return out
}

// ---- Pyroscope selectors ----

type profSeries struct {
	Type        string // __name__
	PeriodType  string
	PeriodUnit  string
	SampleTypes [][2]string // (type, unit)
	Service     string
	Tags        map[string]string
}

var profPool = []profSeries{
	{"process_cpu", "cpu", "nanoseconds", [][2]string{{"cpu", "nanoseconds"}}, "x", map[string]string{"a": "x"}},
	{"memory", "space", "bytes", [][2]string{{"alloc_objects", "count"}, {"alloc_space", "bytes"}}, "y", map[string]string{"a": "y", "b": "x"}},
	{"process_cpu", "cpu", "nanoseconds", [][2]string{{"cpu", "nanoseconds"}, {"samples", "count"}}, "ax", map[string]string{}},
	{"x", "x", "count", [][2]string{{"x", "count"}, {"cpu", "x"}}, "x", map[string]string{"b": "xy"}},
}

const profDayNs = int64(1_700_000_100) * 1_000_000_000 // 2023-11-14 22:15 UTC

func profTables(idx []int) (*chsim.DB, error) {
	db := chsim.NewDB()
	var rows [][]chsim.Value
	for _, i := range idx {
		p := profPool[i]
		var stu, tags chsim.Array
		for _, st := range p.SampleTypes {
			stu = append(stu, chsim.Tuple{st[0], st[1]})
		}
		var tk []string
		for k := range p.Tags {
			tk = append(tk, k)
		}
		sort.Strings(tk)
		for _, k := range tk {
			tags = append(tags, chsim.Tuple{k, p.Tags[k]})
		}
		rows = append(rows, []chsim.Value{uint64(profDayNs), p.Type, p.Service, stu, p.PeriodType, p.PeriodUnit, tags, uint64(1e9),
			"", "", chsim.Array{}, chsim.Array{}, chsim.Array{}})
	}
	db.AddQrynTable("profiles_input", rows)
	db.AddQrynTable("settings", nil)
	if err := db.MaterializeAll(); err != nil {
		return nil, err
	}
	return db, nil
}

// profExpanded is the stored series set in Pyroscope's model: one series per (profile series, sample type) with
// the pseudo-labels the Series endpoint itself reports.
func profExpanded(idx []int) []map[string]string {
	var out []map[string]string
	for _, i := range idx {
		p := profPool[i]
		for _, st := range p.SampleTypes {
			l := map[string]string{"__name__": p.Type, "__period_type__": p.PeriodType, "__period_unit__": p.PeriodUnit,
				"__sample_type__": st[0], "__sample_unit__": st[1],
				"__profile_type__": fmt.Sprintf("%s:%s:%s:%s:%s", p.Type, st[0], st[1], p.PeriodType, p.PeriodUnit),
				"service_name":     p.Service}
			for k, v := range p.Tags {
				l[k] = v
			}
			out = append(out, l)
		}
	}
	return out
}

func lsetKey(l map[string]string) string {
	var ks []string
	for k := range l {
		ks = append(ks, k)
	}
	sort.Strings(ks)
	var sb strings.Builder
	for _, k := range ks {
		fmt.Fprintf(&sb, "%s=%q,", k, l[k])
	}
	return sb.String()
}

var pseudo = map[string]bool{"__name__": true, "__period_type__": true, "__period_unit__": true, "__sample_type__": true,
	"__sample_unit__": true, "__profile_type__": true}

// profSelect evaluates a selector over the expanded series with the given rule set.
//
//	presence:    a matcher on a label the series does not carry never matches (index rows only exist for present labels)
//	unanchored:  regular expressions are searched
//	perFP:       __sample_type__ / __sample_unit__ / __profile_type__ are decided per profile series ("some sample type
//	             matches"), independently per matcher, and all sample types of a selected profile series are returned
func profSelect(idx []int, ms []matcherSpec, presence, unanchored, perFP bool) map[string]bool {
	out := map[string]bool{}
	match := func(m matcherSpec, l map[string]string) bool {
		v, has := l[m.Name]
		if presence && !has && !pseudo[m.Name] && m.Name != "service_name" {
			return false
		}
		return matchWith(m.matcher(), v, unanchored)
	}
	if !perFP {
		for _, l := range profExpanded(idx) {
			ok := true
			for _, m := range ms {
				if !match(m, l) {
					ok = false
				}
			}
			if ok {
				out[lsetKey(l)] = true
			}
		}
		return out
	}
	for _, i := range idx {
		exp := profExpanded([]int{i})
		ok := true
		for _, m := range ms {
			any := false
			for _, l := range exp {
				if match(m, l) {
					any = true
				}
			}
			if !any {
				ok = false
			}
		}
		if ok {
			for _, l := range exp {
				out[lsetKey(l)] = true
			}
		}
	}
	return out
}

func sameSet(a, b map[string]bool) bool {
	if len(a) != len(b) {
		return false
	}
	for k := range a {
		if !b[k] {
			return false
		}
	}
	return true
}

type profStore struct {
	svc     *service.ProfService
	backend *chbackend.Backend
}

func newProfStore(tables *chsim.DB) *profStore {
	b := chbackend.New(tables, "profiles", "profiles_series", "profiles_series_gin", "settings")
	script := fakesql.New(b.Handler())
	sessSeq.Lock()
	sessSeq.n++
	name := fmt.Sprintf("c17p-%d", sessSeq.n)
	sessSeq.Unlock()
	reg, _ := fakesql.Registry(fakesql.NewSession(name, script), "qryn", "")
	return &profStore{svc: &service.ProfService{DataSession: reg}, backend: b}
}

func checkProfCase(ps *profStore, c matcherCase) (class, what, outcome string) {
	var parts []string
	for _, m := range c.Matchers {
		parts = append(parts, m.Name+m.Op+strconv.Quote(m.Val))
	}
	sel := "{" + strings.Join(parts, ", ") + "}"
	from := time.Unix(0, profDayNs).Add(-2 * time.Hour)
	to := time.Unix(0, profDayNs).Add(time.Hour)
	res, err := ps.svc.TimeSeries(context.Background(), []string{sel}, nil, from, to)
	if err != nil {
		return "profile:select_error", fmt.Sprintf("Series(%s) fails: %v", sel, err), "error"
	}
	got := map[string]bool{}
	for _, ls := range res.LabelsSet {
		l := map[string]string{}
		for _, p := range ls.Labels {
			l[p.Name] = p.Value
		}
		k := lsetKey(l)
		if got[k] {
			return "profile:series_handed_twice", "series " + k + " is returned twice", "mismatch"
		}
		got[k] = true
	}
	want := profSelect(c.DB, c.Matchers, false, false, false)
	outcome = fmt.Sprintf("selected_%d_of_%d", len(want), len(profExpanded(c.DB)))
	if sameSet(got, want) {
		return "", "", outcome
	}
	// documented deviant rules, weakest first
	type rule struct {
		name                        string
		presence, unanchored, perFP bool
	}
	for _, ru := range []rule{
		{"needs_label_present", true, false, false},
		{"regex_unanchored", false, true, false},
		{"pseudo_labels_per_profile_series", false, false, true},
		{"needs_label_present+regex_unanchored", true, true, false},
		{"needs_label_present+pseudo_labels_per_profile_series", true, false, true},
		{"pseudo_labels_per_profile_series+regex_unanchored", false, true, true},
		{"needs_label_present+pseudo_labels_per_profile_series+regex_unanchored", true, true, true},
	} {
		if sameSet(got, profSelect(c.DB, c.Matchers, ru.presence, ru.unanchored, ru.perFP)) {
			return "profile:" + ru.name, fmt.Sprintf("Series(%s) returns %d series, matcher semantics select %d: got %v want %v",
				sel, len(got), len(want), keys(got), keys(want)), "mismatch"
		}
	}
	return "profile:unexplained", fmt.Sprintf("Series(%s): got %v want %v", sel, keys(got), keys(want)), "mismatch"
}

// ---- drivers ----

func checkMatchers(r *ev.Run, viol *violations) {
	thorough := r.Thorough()
	poolN := 5 // #0..#4: includes the label set stored under two fingerprints
	if thorough {
		poolN = len(promPool)
	}
	values := []string{"", "x", "x.*", "x|y"}
	sets := matcherSets([]string{"__name__", "a", "b"}, values, values)
	var cases []matcherCase
	for _, db := range subsets(poolN, 4) {
		for _, ms := range sets {
			cases = append(cases, matcherCase{Part: "matchers", DB: db, Matchers: ms})
		}
	}
	// Pyroscope: all single matchers, pairs over the reduced value menu; databases: every subset of the pool
	pnames := []string{"__name__", "__period_type__", "__period_unit__", "__sample_type__", "__sample_unit__", "__profile_type__", "service_name", "a", "b"}
	pvalues := []string{"", "x", "x.*", "x|y", "cpu", "process_cpu", "nanoseconds", "process_cpu:cpu:nanoseconds:cpu:nanoseconds"}
	pairVals := []string{"x", "cpu"}
	if thorough {
		pairVals = []string{"", "x", "x.*", "cpu"}
	}
	psets := matcherSets(pnames, pvalues, pairVals)
	pdbs := subsets(len(profPool), 4)
	if !thorough {
		pdbs = [][]int{{0, 1, 2, 3}, {1}, {2, 3}, {0, 2}}
	}
	for _, db := range pdbs {
		for _, ms := range psets {
			cases = append(cases, matcherCase{Part: "profile", DB: db, Matchers: ms})
		}
	}
	runMatcherCases(r, viol, cases)
	r.Extra["matcher_sets_prometheus"] = len(sets)
	r.Extra["matcher_sets_profile"] = len(psets)
	r.Extra["databases_prometheus"] = len(subsets(poolN, 4))
	r.Extra["databases_profile"] = len(pdbs)
}

func runMatcherCases(r *ev.Run, viol *violations, cases []matcherCase) {
	type result struct{ class, what, outcome string }
	results := make([]result, len(cases))
	// group by database so that tables are built once
	type dbKey struct {
		part string
		key  string
	}
	groups := map[dbKey][]int{}
	var order []dbKey
	for i, c := range cases {
		k := dbKey{c.Part, fmt.Sprint(c.DB)}
		if _, ok := groups[k]; !ok {
			order = append(order, k)
		}
		groups[k] = append(groups[k], i)
	}
	var wg sync.WaitGroup
	sem := make(chan struct{}, 12)
	var mu sync.Mutex
	var unsupported []string
	for _, k := range order {
		idxs := groups[k]
		wg.Add(1)
		sem <- struct{}{}
		go func(k dbKey, idxs []int) {
			defer wg.Done()
			defer func() { <-sem }()
			first := cases[idxs[0]]
			var real *realStore
			var ps *profStore
			var mdb *MetricDB
			if k.part == "matchers" {
				mdb = promMatcherDB(first.DB)
				t, err := mdb.Tables()
				if err != nil {
					ev.Fatal("tables: %v", err)
				}
				real = newRealStore(t)
			} else {
				t, err := profTables(first.DB)
				if err != nil {
					ev.Fatal("profile tables: %v", err)
				}
				ps = newProfStore(t)
			}
			for _, i := range idxs {
				if r.Expired() {
					break
				}
				var res result
				if k.part == "matchers" {
					res.class, res.what, res.outcome = checkPromMatcherCase(real, mdb, cases[i])
				} else {
					res.class, res.what, res.outcome = checkProfCase(ps, cases[i])
				}
				results[i] = res
			}
			mu.Lock()
			if real != nil {
				unsupported = append(unsupported, real.backend.Unsupported...)
			}
			if ps != nil {
				unsupported = append(unsupported, ps.backend.Unsupported...)
			}
			mu.Unlock()
		}(k, idxs)
	}
	wg.Wait()
	if len(unsupported) > 0 {
		ev.Fatal("chsim could not execute %d statement(s) of the matcher path, e.g. %.500s", len(unsupported), unsupported[0])
	}
	for i, c := range cases {
		res := results[i]
		if res.outcome == "" {
			continue
		}
		r.AddEval(1)
		r.TracesValidated++
		r.Transitions++
		r.Outcome(c.Part + ":" + res.outcome)
		nontrivial := res.class != "" || !(strings.HasPrefix(res.outcome, "selected_0_") || fullSel(res.outcome))
		if nontrivial {
			r.Distinct(c.Part + "|" + c.String())
		}
		if res.class != "" {
			viol.add(res.class, res.what+" — "+c.String(), c)
		}
		if i%9973 == 0 {
			r.Sample(map[string]any{"part": c.Part, "case": c.String(), "outcome": res.outcome, "finding": res.class})
		}
	}
	r.States += int64(len(order))
}

func fullSel(o string) bool {
	var a, b int
	if _, err := fmt.Sscanf(o, "selected_%d_of_%d", &a, &b); err != nil {
		return false
	}
	return a == b
}

func replayMatchers(r *ev.Run, viol *violations, raw json.RawMessage) {
	var c matcherCase
	if err := json.Unmarshal(raw, &c); err != nil {
		ev.Fatal("replay: %v", err)
	}
	runMatcherCases(r, viol, []matcherCase{c})
	r.Distinct("replay")
	r.Distinct(c.String())
}
