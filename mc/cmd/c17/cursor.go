package main

import (
	"fmt"
	"strings"
	"time"

	"github.com/metrico/qryn/reader/model"
	"github.com/prometheus/prometheus/tsdb/chunkenc"

	"verif/mc/ev"
)

// ---- C17b: the series cursor against the chunkenc.Iterator contract ----
//
// Contract (prometheus tsdb/chunkenc/chunk.go, the version the repository pins):
//   Next advances the iterator by one.
//   Seek advances the iterator forward to the first sample with the timestamp equal or greater than t.  If the
//   current sample found by a previous Next or Seek already has this property, Seek has no effect.  Seek returns
//   true if such a sample exists, false otherwise.  The iterator is exhausted when Seek (or Next) returns false.
//   At returns the current timestamp/value pair (unspecified before the iterator has advanced).

// refCursor is the reference: a slice cursor implementing the contract literally.
type refCursor struct {
	s    []model.Sample
	idx  int // -1 before the first advance
	done bool
}

func (c *refCursor) Next() bool {
	if c.done {
		return false
	}
	c.idx++
	if c.idx >= len(c.s) {
		c.done = true
		return false
	}
	return true
}

func (c *refCursor) Seek(t int64) bool {
	if c.done {
		return false
	}
	if c.idx < 0 {
		c.idx = 0
	}
	for c.idx < len(c.s) && c.s[c.idx].TimestampMs < t {
		c.idx++
	}
	if c.idx >= len(c.s) {
		c.done = true
		return false
	}
	return true
}

func (c *refCursor) At() (int64, float64) { return c.s[c.idx].TimestampMs, c.s[c.idx].Value }
func (c *refCursor) Err() error           { return nil }

var _ chunkenc.Iterator = (*refCursor)(nil)

type op struct {
	Seek bool  `json:"seek"`
	T    int64 `json:"t,omitempty"`
}

func (o op) String() string {
	if o.Seek {
		return fmt.Sprintf("Seek(%d)", o.T)
	}
	return "Next()"
}

type cursorCase struct {
	Part    string  `json:"part"`
	Samples []int64 `json:"samples"` // timestamps; value of sample i is 10*(i+1)
	Ops     []op    `json:"ops"`
}

func (c cursorCase) String() string {
	var o []string
	for _, x := range c.Ops {
		o = append(o, x.String())
	}
	return fmt.Sprintf("samples=%v ops=%s", c.Samples, strings.Join(o, ","))
}

func mkSamples(ts []int64) []model.Sample {
	s := make([]model.Sample, len(ts))
	for i, t := range ts {
		s[i] = model.Sample{TimestampMs: t, Value: float64(10 * (i + 1))}
	}
	return s
}

// runCursor replays the operation sequence on the real iterator and on the reference and classifies the first
// divergence by explanation.  It returns "" when the real cursor honoured the contract.
func runCursor(c cursorCase) (class, what string) {
	samples := mkSamples(c.Samples)
	real := (&model.Series{Samples: samples}).Iterator()
	ref := &refCursor{s: samples, idx: -1}
	prevIdx := -1 // index of the real cursor's current sample as far as the observations tell
	for i, o := range c.Ops {
		var rb, ib bool
		var panicked any
		refDoneBefore := ref.done
		func() {
			defer func() { panicked = recover() }()
			if o.Seek {
				ib = real.Seek(o.T)
			} else {
				ib = real.Next()
			}
		}()
		if o.Seek {
			rb = ref.Seek(o.T)
		} else {
			rb = ref.Next()
		}
		step := fmt.Sprintf("op %d %s", i, o)
		if panicked != nil {
			if len(samples) == 0 {
				return "cursor:seek_panics_on_empty_series", fmt.Sprintf("%s panics on a series without samples: %v", step, panicked)
			}
			return "cursor:panic", fmt.Sprintf("%s panics: %v", step, panicked)
		}
		if ib != rb {
			if o.Seek && ib && !rb {
				if !refDoneBefore {
					return "cursor:seek_past_end_reports_a_sample", fmt.Sprintf("%s returns true although no sample has t >= %d", step, o.T)
				}
				return "cursor:seek_revives_exhausted_iterator", fmt.Sprintf("%s returns true after the iterator was exhausted", step)
			}
			if o.Seek {
				return "cursor:seek_reports_end_although_sample_exists", fmt.Sprintf("%s returns false, the contract lands on t=%d", step, samples[ref.idx].TimestampMs)
			}
			if ib {
				return "cursor:next_revives_exhausted_iterator", fmt.Sprintf("%s returns true after the iterator was exhausted", step)
			}
			return "cursor:next_reports_end_although_sample_exists", fmt.Sprintf("%s returns false, the contract lands on t=%d", step, samples[ref.idx].TimestampMs)
		}
		if !ib {
			continue
		}
		var it int64
		var iv float64
		func() {
			defer func() { panicked = recover() }()
			it, iv = real.At()
		}()
		if panicked != nil {
			return "cursor:at_panics_after_true", fmt.Sprintf("%s returned true but At panics: %v", step, panicked)
		}
		rt, rv := ref.At()
		if it == rt && iv == rv {
			prevIdx = ref.idx
			continue
		}
		// which sample did the real cursor land on? (values are unique per index)
		land := int(iv/10) - 1
		if o.Seek {
			switch {
			case it < o.T:
				return "cursor:seek_lands_before_t", fmt.Sprintf("%s lands on t=%d (< %d); the contract lands on t=%d", step, it, o.T, rt)
			case land < prevIdx:
				return "cursor:seek_moves_backwards", fmt.Sprintf("%s moves from sample #%d back to #%d (t=%d); the contract stays on t=%d", step, prevIdx, land, it, rt)
			case land > ref.idx:
				return "cursor:seek_skips_samples", fmt.Sprintf("%s lands on sample #%d (t=%d) past the first sample with t >= %d (#%d, t=%d)", step, land, it, o.T, ref.idx, rt)
			default:
				return "cursor:seek_lands_on_wrong_duplicate", fmt.Sprintf("%s lands on sample #%d, the contract on #%d (equal timestamps %d)", step, land, ref.idx, rt)
			}
		}
		return "cursor:next_wrong_sample", fmt.Sprintf("%s lands on sample #%d (t=%d), the contract on #%d (t=%d)", step, land, it, ref.idx, rt)
	}
	return "", ""
}

// runCursorGuarded bounds one operation sequence (a cursor operation that loops forever would otherwise hang the
// check; the abandoned goroutine keeps spinning until exit).
func runCursorGuarded(c cursorCase) (string, string) {
	type res struct{ class, what string }
	ch := make(chan res, 1)
	go func() {
		class, what := runCursor(c)
		ch <- res{class, what}
	}()
	select {
	case r := <-ch:
		return r.class, r.what
	case <-time.After(10 * time.Second):
		return "cursor:call_does_not_return", "a Seek/Next call of the sequence did not return within 10 s"
	}
}

// sortedArrays enumerates every strictly increasing array of length <= maxLen over the timestamp menu (samples of
// one Prometheus series have strictly increasing timestamps).
func sortedArrays(menu []int64, maxLen int) [][]int64 {
	out := [][]int64{{}}
	var rec func(cur []int64, from int)
	rec = func(cur []int64, from int) {
		if len(cur) == maxLen {
			return
		}
		for i := from; i < len(menu); i++ {
			next := append(append([]int64{}, cur...), menu[i])
			out = append(out, next)
			rec(next, i+1)
		}
	}
	rec(nil, 0)
	return out
}

func checkCursor(r *ev.Run, viol *violations) {
	menu := []int64{10, 20, 30, 40, 50}
	opsMenu := []op{{Seek: false}}
	for _, t := range []int64{5, 10, 15, 20, 30, 35, 40, 50, 55} {
		opsMenu = append(opsMenu, op{Seek: true, T: t})
	}
	depth := 3
	if r.Thorough() {
		depth = 4
	}
	arrays := sortedArrays(menu, 4)
	var seqs [][]op
	var rec func(cur []op)
	rec = func(cur []op) {
		if len(cur) > 0 {
			seqs = append(seqs, append([]op{}, cur...))
		}
		if len(cur) == depth {
			return
		}
		for _, o := range opsMenu {
			rec(append(cur, o))
		}
	}
	rec(nil)
	n := 0
	stuckCalls := 0
	for _, a := range arrays {
		for _, s := range seqs {
			c := cursorCase{Part: "cursor", Samples: a, Ops: s}
			class, what := runCursorGuarded(c)
			if class == "cursor:call_does_not_return" {
				stuckCalls++
				if stuckCalls >= 3 {
					viol.add(class, what+" — "+c.String(), c)
					r.Cap("cursor part stopped: Seek/Next calls do not return")
					return
				}
			}
			n++
			r.AddEval(1)
			r.TracesValidated++
			r.Transitions += int64(len(s))
			if class == "" {
				r.Outcome("cursor:conforms")
			} else {
				r.Outcome(class)
				viol.add(class, what+" — "+c.String(), c)
			}
			if len(a) >= 2 && len(s) >= 2 {
				r.Distinct("cursor|" + c.String())
			}
			if n%50021 == 0 {
				r.Sample(map[string]any{"part": "cursor", "case": c.String(), "finding": class})
			}
		}
	}
	r.States += int64(len(arrays))
	r.Extra["cursor_arrays"] = len(arrays)
	r.Extra["cursor_sequences_per_array"] = len(seqs)
	r.Extra["cursor_depth"] = depth
}
