// C17 — "Prometheus and Pyroscope label matchers select exactly the matching series".
//
// Three exhaustive parts (DESIGN.md §2 C17):
//
//	a  matcher selection through the SQL: every matcher set over a small alphabet through the real
//	   CLokiQuerier.Select / profile selector planner, the SQL executed by chsim on generated tables, against
//	   labels.Matcher.Matches over the stored label sets;
//	b  the series cursor (reader/model seriesIt) against the chunkenc.Iterator contract for every sample array
//	   and every short Seek/Next sequence;
//	c  PromQL differential: the real promql engine over qryn's Queryable (SQL executed by chsim) against the same
//	   engine over a hand-written in-memory reference storage holding the same samples.
package main

import (
	"encoding/json"
	"fmt"
	"io"
	"os"
	"regexp"
	"sort"
	"strings"
	"sync"
	"time"

	clconfig "github.com/metrico/cloki-config"
	clcfg "github.com/metrico/cloki-config/config"
	"github.com/metrico/qryn/reader/config"
	"github.com/metrico/qryn/reader/utils/logger"

	"verif/mc/ev"
)

// violations are collected while the code under test runs with stdout discarded (it prints statements and
// progress with fmt.Print*) and reported afterwards, in a deterministic order.
type violations struct {
	mu   sync.Mutex
	list []violation
}

type violation struct {
	class, what string
	replay      any
	seq         int
}

// add records a disagreement.  A class "part:a+b" (two explanations are needed together) is reported once per
// explanation, so that the known-findings list is keyed by single explanations and an unlisted one still fails.
func (v *violations) add(class, what string, replay any) {
	v.mu.Lock()
	defer v.mu.Unlock()
	part, rest, ok := strings.Cut(class, ":")
	if !ok {
		v.list = append(v.list, violation{class, what, replay, len(v.list)})
		return
	}
	for _, cause := range strings.Split(rest, "+") {
		v.list = append(v.list, violation{part + ":" + cause, what, replay, len(v.list)})
	}
}

var (
	reMu    sync.Mutex
	reCache = map[string]*regexp.Regexp{}
)

func cachedRegexp(p string) (*regexp.Regexp, error) {
	reMu.Lock()
	defer reMu.Unlock()
	if re, ok := reCache[p]; ok {
		return re, nil
	}
	re, err := regexp.Compile(p)
	if err != nil {
		return nil, err
	}
	reCache[p] = re
	return re, nil
}

func main() {
	r := ev.Start("C17", "model_checking", 70*time.Second, 16*time.Minute)
	r.Rule = "a: every set of <= 2 matchers over {=,!=,=~,!~} x names x values, through the real Select, on every database of <= 4 series from a label-set pool (non-trivial: the selection is neither empty nor everything, or the oracle and the implementation differ); b: every strictly increasing sample array of length <= 4 over 5 timestamps x every sequence of <= 3 (thorough 4) Seek/Next calls (non-trivial: >= 2 samples and >= 2 calls); c: expression menu x instant times x (start,end,step) grid below the 15 s down-sampling threshold (non-trivial: the engine issued at least one Select)"
	r.Assumptions = []string{
		"SQL is executed by verif/mc/chsim (ClickHouse-subset interpreter); time_series_gin / profiles_series_gin are derived with the repository's materialized-view SELECTs",
		"the reference storage is hand-written: labels.Matcher.Matches on stored label sets (absent label = \"\"), samples with hints.Start <= t <= hints.End ascending, contract-literal slice cursor",
		"PromQL engine and options are the ones reader/router wires (promql.NewEngine, default 5 m lookback); both sides use the same engine build",
		"range queries start on multiples of 15 s, as the range controller floors them; instant query times are arbitrary",
	}
	config.Cloki = &clconfig.ClokiConfig{Setting: &clcfg.ClokiBaseSettingServer{}}
	logger.Logger.SetOutput(io.Discard)

	realStdout := os.Stdout
	devnull, _ := os.OpenFile(os.DevNull, os.O_WRONLY, 0)
	os.Stdout = devnull
	viol := &violations{}

	if r.Replay != "" {
		replay(r, viol)
	} else {
		checkCursor(r, viol)
		checkPromQL(r, viol)
		checkMatchers(r, viol)
	}

	os.Stdout = realStdout
	sort.SliceStable(viol.list, func(i, j int) bool {
		if viol.list[i].class != viol.list[j].class {
			return viol.list[i].class < viol.list[j].class
		}
		return viol.list[i].seq < viol.list[j].seq
	})
	counts := map[string]int{}
	for _, v := range viol.list {
		counts[v.class]++
		if counts[v.class] <= 3 { // three witnesses per explanation are enough; the count is in the evidence
			r.Violate(v.class, v.what, v.replay)
		}
	}
	r.Extra["findings_by_class"] = counts
	r.Finish()
}

func replay(r *ev.Run, viol *violations) {
	b, err := os.ReadFile(r.Replay)
	if err != nil {
		ev.Fatal("%v", err)
	}
	var doc struct {
		Replay json.RawMessage `json:"replay"`
	}
	if err := json.Unmarshal(b, &doc); err != nil {
		ev.Fatal("replay file: %v", err)
	}
	var part struct {
		Part string `json:"part"`
	}
	json.Unmarshal(doc.Replay, &part)
	r.States, r.Transitions = 1, 1
	switch part.Part {
	case "cursor":
		var c cursorCase
		json.Unmarshal(doc.Replay, &c)
		class, what := runCursor(c)
		r.AddEval(1)
		r.Distinct(c.String())
		r.Distinct("replay")
		fmt.Fprintf(os.Stderr, "replay %s -> %q %s\n", c, class, what)
		if class != "" {
			viol.add(class, what+" — "+c.String(), c)
		}
	case "promql":
		var c promCase
		json.Unmarshal(doc.Replay, &c)
		db := promDBVariant(c.DB)
		tables, err := db.Tables()
		if err != nil {
			ev.Fatal("%v", err)
		}
		if strings.HasPrefix(c.Expr, "select ") {
			// a two-Selects-on-one-Querier case: the whole (small) family is re-run
			checkSelectTwice(r, viol, db, tables)
		} else {
			runPromCases(r, viol, db, tables, []promCase{c})
		}
		r.Distinct("replay")
	case "matchers", "profile":
		replayMatchers(r, viol, doc.Replay)
	default:
		ev.Fatal("replay file has no known part: %q", part.Part)
	}
}
