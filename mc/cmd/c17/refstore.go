package main

import (
	"context"
	"fmt"
	"sort"
	"strings"
	"time"

	"github.com/metrico/qryn/reader/model"
	"github.com/prometheus/prometheus/model/labels"
	"github.com/prometheus/prometheus/storage"
	"github.com/prometheus/prometheus/tsdb/chunkenc"

	"verif/mc/chsim"
)

// MSeries is one stored metric series.
type MSeries struct {
	Labels  map[string]string `json:"labels"`
	Samples []model.Sample    `json:"samples"` // ascending TimestampMs
	// Fp is the fingerprint the rows are stored under (0 = position + 1).  Two MSeries may carry the same label
	// set under different fingerprints (the reader's own "double labels set found" case: a series written by
	// writers that hashed the labels differently); the stored series is then the union of their samples.
	Fp uint64 `json:"fp,omitempty"`
	// FpZero stores the series under fingerprint 0 (a legal hash value; it sorts first and equals the zero value of
	// the "previous fingerprint" variables of the row loops).
	FpZero bool `json:"fp_zero,omitempty"`
	// TwoIndexRows stores the time_series row twice (two days), as the daily re-insert of the writer does.
	TwoIndexRows bool `json:"two_index_rows,omitempty"`
}

// MetricDB is a small database of metric series: the single source for both the ClickHouse tables the real
// reader queries (through chsim) and the reference storage.
type MetricDB struct {
	Series []MSeries `json:"series"`
}

func (s MSeries) lset() labels.Labels {
	l := make(labels.Labels, 0, len(s.Labels))
	for k, v := range s.Labels {
		l = append(l, labels.Label{Name: k, Value: v})
	}
	sort.Sort(l)
	return l
}

const dayOfData = "2023-11-14" // 1_700_000_000 s
const dayAfterData = "2023-11-15"

// Tables builds time_series / samples_v3 (+ time_series_gin through the repository's materialized view,
// executed by chsim) for the database.  Fingerprints are 1..n (opaque identifiers).
func (d *MetricDB) Tables() (*chsim.DB, error) {
	db := chsim.NewDB()
	var ts, sm [][]chsim.Value
	for i, s := range d.Series {
		fp := uint64(i + 1)
		if s.Fp != 0 {
			fp = s.Fp
		}
		if s.FpZero {
			fp = 0
		}
		// one index row per UTC day on which the series has samples, as the writer stores them
		days := map[string]bool{}
		for _, p := range s.Samples {
			days[time.UnixMilli(p.TimestampMs).UTC().Format("2006-01-02")] = true
		}
		if len(days) == 0 {
			days[dayOfData] = true
		}
		var dl []string
		for d := range days {
			dl = append(dl, d)
		}
		sort.Strings(dl)
		for _, d := range dl {
			ts = append(ts, []chsim.Value{d, fp, chsim.LabelsJSON(s.Labels), s.Labels["__name__"], uint64(2)})
		}
		if s.TwoIndexRows {
			ts = append(ts, []chsim.Value{dayAfterData, fp, chsim.LabelsJSON(s.Labels), s.Labels["__name__"], uint64(2)})
		}
		for _, p := range s.Samples {
			sm = append(sm, []chsim.Value{fp, p.TimestampMs * 1_000_000, p.Value, "", uint64(2)})
		}
	}
	// one log stream, to make sure the type column is honoured
	ts = append(ts, []chsim.Value{dayOfData, uint64(1000), chsim.LabelsJSON(map[string]string{"__name__": "m", "a": "x", "log": "1"}), "", uint64(1)})
	sm = append(sm, []chsim.Value{uint64(1000), int64(1_700_000_100_000) * 1_000_000, float64(0), "line", uint64(1)})
	db.AddQrynTable("time_series", ts)
	db.AddQrynTable("samples_v3", sm)
	db.AddQrynTable("settings", nil)
	if err := db.Materialize("time_series_gin_view"); err != nil {
		return nil, err
	}
	return db, nil
}

// ---- reference storage.Queryable (hand-written, DESIGN.md §7) ----

type cursorKind int

const (
	cursorRef  cursorKind = iota // the contract-literal slice cursor
	cursorReal                   // the repository's seriesIt over the same samples
)

// refStore serves the MetricDB with Prometheus semantics: a series is selected iff every matcher matches its
// label value (absent label = ""), regular expressions are anchored (labels.Matcher.Matches), samples are those
// with hints.Start <= t <= hints.End in ascending order, each series once under its own label set.
type refStore struct {
	db     *MetricDB
	cursor cursorKind
	// override, when set, replaces selection + samples by recorded series sets (key = selectKey): used to run
	// the engine over "the rows the SQL returned" with the reference cursor.
	override map[string][]recSeries
}

type recSeries struct {
	Labels  labels.Labels
	Samples []model.Sample
}

func selectKey(h *storage.SelectHints, ms []*labels.Matcher) string {
	var sb strings.Builder
	if h != nil {
		fmt.Fprintf(&sb, "%d|%d|%d|%s|%d|%v|%v|", h.Start, h.End, h.Step, h.Func, h.Range, h.By, h.Grouping)
	}
	for _, m := range ms {
		sb.WriteString(m.String())
		sb.WriteByte(',')
	}
	return sb.String()
}

func (r *refStore) Querier(ctx context.Context, mint, maxt int64) (storage.Querier, error) {
	return &refQuerier{r}, nil
}

type refQuerier struct{ s *refStore }

func (q *refQuerier) LabelValues(string, ...*labels.Matcher) ([]string, storage.Warnings, error) {
	return nil, nil, nil
}
func (q *refQuerier) LabelNames(...*labels.Matcher) ([]string, storage.Warnings, error) {
	return nil, nil, nil
}
func (q *refQuerier) Close() error { return nil }

// refSelect is the reference selection (also used directly by the matcher check).
func refSelect(db *MetricDB, h *storage.SelectHints, ms []*labels.Matcher) []recSeries {
	var out []recSeries
	for _, s := range db.Series {
		ok := true
		for _, m := range ms {
			if !m.Matches(s.Labels[m.Name]) {
				ok = false
				break
			}
		}
		if !ok {
			continue
		}
		rs := recSeries{Labels: s.lset()}
		for _, p := range s.Samples {
			if h == nil || (p.TimestampMs >= h.Start && p.TimestampMs <= h.End) {
				rs.Samples = append(rs.Samples, p)
			}
		}
		if len(rs.Samples) == 0 {
			continue // a series without samples in the range is not part of the result (as in the TSDB)
		}
		// a label set stored under several fingerprints is ONE series: the union of the samples in time order
		merged := false
		for k := range out {
			if labels.Equal(out[k].Labels, rs.Labels) {
				out[k].Samples = append(out[k].Samples, rs.Samples...)
				sort.SliceStable(out[k].Samples, func(a, b int) bool { return out[k].Samples[a].TimestampMs < out[k].Samples[b].TimestampMs })
				merged = true
			}
		}
		if !merged {
			out = append(out, rs)
		}
	}
	sort.Slice(out, func(i, j int) bool { return labels.Compare(out[i].Labels, out[j].Labels) < 0 })
	return out
}

func (q *refQuerier) Select(sortSeries bool, h *storage.SelectHints, ms ...*labels.Matcher) storage.SeriesSet {
	var series []recSeries
	if q.s.override != nil {
		series = q.s.override[selectKey(h, ms)]
	} else {
		series = refSelect(q.s.db, h, ms)
	}
	return &refSet{series: series, idx: -1, cursor: q.s.cursor}
}

type refSet struct {
	series []recSeries
	idx    int
	cursor cursorKind
}

func (s *refSet) Next() bool                 { s.idx++; return s.idx < len(s.series) }
func (s *refSet) At() storage.Series         { return &refSeries{s.series[s.idx], s.cursor} }
func (s *refSet) Err() error                 { return nil }
func (s *refSet) Warnings() storage.Warnings { return nil }

type refSeries struct {
	recSeries
	cursor cursorKind
}

func (s *refSeries) Labels() labels.Labels { return s.recSeries.Labels }
func (s *refSeries) Iterator() chunkenc.Iterator {
	if s.cursor == cursorReal {
		return (&model.Series{Samples: s.Samples}).Iterator()
	}
	return &refCursor{s: s.Samples, idx: -1}
}

// ---- recorder around the real Queryable ----

type recQueryable struct {
	inner storage.Queryable
	calls []recCall
}

type recCall struct {
	Hints    storage.SelectHints
	Matchers []*labels.Matcher
	Series   []recSeries
	Err      error
}

func (r *recQueryable) Querier(ctx context.Context, mint, maxt int64) (storage.Querier, error) {
	q, err := r.inner.Querier(ctx, mint, maxt)
	if err != nil {
		return nil, err
	}
	return &recQuerier{q, r}, nil
}

type recQuerier struct {
	storage.Querier
	r *recQueryable
}

func (q *recQuerier) Select(sortSeries bool, h *storage.SelectHints, ms ...*labels.Matcher) storage.SeriesSet {
	set := q.Querier.Select(sortSeries, h, ms...)
	call := recCall{Matchers: ms}
	if h != nil {
		call.Hints = *h
	}
	if ss, ok := set.(*model.SeriesSet); ok {
		call.Err = ss.Error
		for _, s := range ss.Series {
			call.Series = append(call.Series, recSeries{Labels: s.Labels(), Samples: append([]model.Sample(nil), s.Samples...)})
		}
	}
	q.r.calls = append(q.r.calls, call)
	return set
}
