package main

// Group D: the Tempo endpoints of reader/controller/tempoController.go (Trace JSON branch, Tags, Values, TagsV2,
// ValuesV2, Search in both flavours) driven through net/http/httptest with a scripted model.ITempoService.

import (
	"context"
	"encoding/hex"
	"encoding/json"
	"fmt"
	"math"
	"net/http"
	"net/http/httptest"
	"strconv"
	"time"

	"github.com/gorilla/mux"
	controllerv1 "github.com/metrico/qryn/reader/controller"
	"github.com/metrico/qryn/reader/model"
	common "go.opentelemetry.io/proto/otlp/common/v1"
	v1 "go.opentelemetry.io/proto/otlp/trace/v1"
)

type TempoCase struct {
	Endpoint string   `json:"endpoint"` // tags | values | tags_v2 | values_v2 | search | search_traceql | trace
	Strs     []string `json:"strs,omitempty"`
	// trace / search: n items built from the hostile atom H and the numbers
	H     string `json:"h,omitempty"`
	N     int    `json:"n,omitempty"`
	U     uint64 `json:"u,omitempty"`      // a uint64 time/duration value
	FBits uint64 `json:"f_bits,omitempty"` // a float64 (duration ms, double attribute)
	Chunk []int  `json:"chunk,omitempty"`  // search_traceql: sizes of the channel batches
}

type fakeTempo struct{ c *TempoCase }

func strChan(ss []string) chan string {
	ch := make(chan string)
	go func() {
		defer close(ch)
		for _, s := range ss {
			ch <- s
		}
	}()
	return ch
}

func (f *fakeTempo) Tags(ctx context.Context) (chan string, error) { return strChan(f.c.Strs), nil }
func (f *fakeTempo) Values(ctx context.Context, tag string) (chan string, error) {
	return strChan(f.c.Strs), nil
}
func (f *fakeTempo) ValuesV2(ctx context.Context, key string, query string, from time.Time, to time.Time, limit int) (chan string, error) {
	return strChan(f.c.Strs), nil
}
func (f *fakeTempo) TagsV2(ctx context.Context, query string, from time.Time, to time.Time, limit int) (chan string, error) {
	return strChan(f.c.Strs), nil
}

func (f *fakeTempo) spans() []*model.SpanResponse {
	c := f.c
	var out []*model.SpanResponse
	for i := 0; i < c.N; i++ {
		sp := &v1.Span{
			TraceId:           []byte{1, 2, 3, 4, 5, 6, 7, 8, 9, 10, 11, 12, 13, 14, 15, byte(i)},
			SpanId:            []byte{1, 2, 3, 4, 5, 6, 7, byte(i)},
			Name:              c.H,
			StartTimeUnixNano: c.U,
			EndTimeUnixNano:   c.U + uint64(i),
			Attributes: []*common.KeyValue{
				{Key: c.H, Value: &common.AnyValue{Value: &common.AnyValue_StringValue{StringValue: c.H}}},
				{Key: "service.name", Value: &common.AnyValue{Value: &common.AnyValue_StringValue{StringValue: c.H}}},
				{Key: "b", Value: &common.AnyValue{Value: &common.AnyValue_BoolValue{BoolValue: i%2 == 0}}},
				{Key: "i", Value: &common.AnyValue{Value: &common.AnyValue_IntValue{IntValue: int64(c.U)}}},
				{Key: "d", Value: &common.AnyValue{Value: &common.AnyValue_DoubleValue{DoubleValue: math.Float64frombits(c.FBits)}}},
				{Key: "y", Value: &common.AnyValue{Value: &common.AnyValue_BytesValue{BytesValue: []byte(c.H)}}},
				{Key: "arr", Value: &common.AnyValue{Value: &common.AnyValue_ArrayValue{ArrayValue: &common.ArrayValue{Values: []*common.AnyValue{
					{Value: &common.AnyValue_StringValue{StringValue: c.H}}}}}}},
			},
			Events: []*v1.Span_Event{{TimeUnixNano: c.U, Name: c.H}},
			Status: &v1.Status{Message: c.H, Code: v1.Status_STATUS_CODE_ERROR},
		}
		if i > 0 {
			sp.ParentSpanId = []byte{1, 2, 3, 4, 5, 6, 7, byte(i - 1)}
		}
		out = append(out, &model.SpanResponse{Span: sp, ServiceName: c.H})
	}
	return out
}

func (f *fakeTempo) Query(ctx context.Context, startNS int64, endNS int64, traceId []byte, binIds bool) (chan *model.SpanResponse, error) {
	ch := make(chan *model.SpanResponse)
	go func() {
		defer close(ch)
		for _, s := range f.spans() {
			ch <- s
		}
	}()
	return ch, nil
}

func (f *fakeTempo) traces() []*model.TraceResponse {
	var out []*model.TraceResponse
	for i := 0; i < f.c.N; i++ {
		out = append(out, &model.TraceResponse{TraceID: fmt.Sprintf("%032x", i), RootServiceName: f.c.H, RootTraceName: f.c.H + strconv.Itoa(i),
			StartTimeUnixNano: int64(f.c.U >> 1), DurationMs: int64(f.c.U >> 1)})
	}
	return out
}

func (f *fakeTempo) Search(ctx context.Context, tags string, minDurationNS int64, maxDurationNS int64, limit int, fromNS int64, toNS int64) (chan *model.TraceResponse, error) {
	ch := make(chan *model.TraceResponse)
	go func() {
		defer close(ch)
		for _, t := range f.traces() {
			ch <- t
		}
	}()
	return ch, nil
}

func (f *fakeTempo) traceInfos() []model.TraceInfo {
	var out []model.TraceInfo
	for i := 0; i < f.c.N; i++ {
		ss := model.SpanSet{Matched: 1, Spans: []model.SpanInfo{{SpanID: "0102030405060708", StartTimeUnixNano: strconv.FormatUint(f.c.U, 10), DurationNanos: "n/a",
			Attributes: []model.SpanAttr{}}}}
		out = append(out, model.TraceInfo{TraceID: fmt.Sprintf("%032x", i), RootServiceName: f.c.H, RootTraceName: f.c.H + strconv.Itoa(i),
			StartTimeUnixNano: strconv.FormatUint(f.c.U, 10), DurationMs: math.Float64frombits(f.c.FBits), SpanSet: ss, SpanSets: []model.SpanSet{ss}})
	}
	return out
}

func (f *fakeTempo) SearchTraceQL(ctx context.Context, q string, limit int, from time.Time, to time.Time) (chan []model.TraceInfo, error) {
	ch := make(chan []model.TraceInfo)
	all := f.traceInfos()
	go func() {
		defer close(ch)
		i := 0
		for _, n := range f.c.Chunk {
			ch <- all[i : i+n]
			i += n
		}
	}()
	return ch, nil
}

func runTempo(c *TempoCase) (int, []byte) {
	ctrl := &controllerv1.TempoController{Service: &fakeTempo{c}}
	rec := httptest.NewRecorder()
	switch c.Endpoint {
	case "tags":
		ctrl.Tags(rec, httptest.NewRequest("GET", "/api/search/tags", nil))
	case "values":
		req := mux.SetURLVars(httptest.NewRequest("GET", "/api/search/tag/x/values", nil), map[string]string{"tag": "x"})
		ctrl.Values(rec, req)
	case "tags_v2":
		ctrl.TagsV2(rec, httptest.NewRequest("GET", "/api/v2/search/tags?start=10&end=20", nil))
	case "values_v2":
		req := mux.SetURLVars(httptest.NewRequest("GET", "/api/v2/search/tag/x/values?start=10&end=20", nil), map[string]string{"tag": "x"})
		ctrl.ValuesV2(rec, req)
	case "search":
		ctrl.Search(rec, httptest.NewRequest("GET", "/api/search?tags=a%3Db&start=10&end=20", nil))
	case "search_traceql":
		ctrl.Search(rec, httptest.NewRequest("GET", "/api/search?q=%7B%7D&start=10&end=20", nil))
	case "trace":
		req := mux.SetURLVars(httptest.NewRequest("GET", "/api/traces/0102030405060708090a0b0c0d0e0f00", nil), map[string]string{"traceId": "0102030405060708090a0b0c0d0e0f00"})
		ctrl.Trace(rec, req)
	}
	return rec.Code, rec.Body.Bytes()
}

func strList(v any) ([]string, bool) {
	a, ok := v.([]any)
	if !ok {
		if v == nil {
			return nil, true
		}
		return nil, false
	}
	out := make([]string, len(a))
	for i, x := range a {
		s, ok := x.(string)
		if !ok {
			return nil, false
		}
		out[i] = s
	}
	return out, true
}

func sameStrs(got []string, want []string) bool {
	if len(got) != len(want) {
		return false
	}
	for i := range got {
		if got[i] != jsonString(want[i]) {
			return false
		}
	}
	return true
}

func checkTempo(c *TempoCase, code int, body []byte) *Bad {
	if b := rawUTF8("tempo_"+c.Endpoint, body); b != nil {
		return b
	}
	p := "tempo_" + c.Endpoint
	if code != 200 {
		return bad(p+"_status", "HTTP %d: %s", code, snippet(body))
	}
	doc, err := parseOne(body)
	if err != nil {
		if c.Endpoint == "tags" || c.Endpoint == "values" {
			return bad(p+"_not_json_strconv_quote", "body is not one JSON value (%v) — elements are written with strconv.Quote, which is Go syntax, not JSON: %s", err, snippet(body))
		}
		return bad(p+"_not_json", "body is not one JSON value (%v): %s", err, snippet(body))
	}
	switch c.Endpoint {
	case "tags":
		top, ok := asObj(doc, "tagNames")
		if !ok {
			return bad(p+"_shape", "not {tagNames}: %.120s", mustJSON(doc))
		}
		got, ok := strList(top["tagNames"])
		if !ok {
			return bad(p+"_shape", "tagNames is not a string list")
		}
		if !sameStrs(got, c.Strs) {
			return bad(p+"_strings_differ_strconv_quote", "tags %q came back as %q", c.Strs, got)
		}
	case "values":
		top, ok := asObj(doc, "tagValues")
		if !ok {
			return bad(p+"_shape", "not {tagValues}: %.120s", mustJSON(doc))
		}
		got, ok := strList(top["tagValues"])
		if !ok {
			return bad(p+"_shape", "tagValues is not a string list")
		}
		if !sameStrs(got, c.Strs) {
			return bad(p+"_strings_differ_strconv_quote", "values %q came back as %q", c.Strs, got)
		}
	case "tags_v2":
		top, ok := asObj(doc, "scopes")
		if !ok {
			return bad(p+"_shape", "not {scopes}: %.120s", mustJSON(doc))
		}
		sc, ok := asArr(top["scopes"])
		if !ok || len(sc) != 1 {
			return bad(p+"_shape", "scopes is not a one-element array")
		}
		o, ok := asObj(sc[0], "name", "tags")
		if !ok || o["name"] != "unscoped" {
			return bad(p+"_shape", "scope is not {name:unscoped,tags}")
		}
		got, ok := strList(o["tags"])
		if !ok || !sameStrs(got, c.Strs) {
			return bad(p+"_strings_differ", "tags %q came back as %v", c.Strs, o["tags"])
		}
	case "values_v2":
		top, ok := asObj(doc, "tagValues")
		if !ok {
			return bad(p+"_shape", "not {tagValues}: %.120s", mustJSON(doc))
		}
		if top["tagValues"] == nil && len(c.Strs) == 0 {
			return nil
		}
		arr, ok := asArr(top["tagValues"])
		if !ok || len(arr) != len(c.Strs) {
			return bad(p+"_row_count", "%d values for %d rows", len(arr), len(c.Strs))
		}
		for i, x := range arr {
			o, ok := asObj(x, "type", "value")
			if !ok || o["type"] != "string" || o["value"] != jsonString(c.Strs[i]) {
				return bad(p+"_strings_differ", "value %q came back as %.80s", c.Strs[i], mustJSON(x))
			}
		}
	case "search", "search_traceql":
		top, ok := asObj(doc, "traces")
		if !ok {
			return bad(p+"_shape", "not {traces}: %.120s", mustJSON(doc))
		}
		arr, ok := asArr(top["traces"])
		if !ok || len(arr) != c.N {
			return bad(p+"_row_count", "%d traces for %d rows", len(arr), c.N)
		}
		for i, x := range arr {
			o, ok := x.(map[string]any)
			if !ok {
				return bad(p+"_shape", "traces[%d] is not an object", i)
			}
			if o["traceID"] != fmt.Sprintf("%032x", i) || o["rootServiceName"] != jsonString(c.H) || o["rootTraceName"] != jsonString(c.H+strconv.Itoa(i)) {
				return bad(p+"_strings_differ", "trace %d (%q) came back as %.160s", i, c.H, mustJSON(x))
			}
			if c.Endpoint == "search" {
				if fmt.Sprint(o["startTimeUnixNano"]) != strconv.FormatInt(int64(c.U>>1), 10) || fmt.Sprint(o["durationMs"]) != strconv.FormatInt(int64(c.U>>1), 10) {
					return bad(p+"_number_lossy", "start/duration %d came back as %v / %v", c.U>>1, o["startTimeUnixNano"], o["durationMs"])
				}
			} else {
				if o["startTimeUnixNano"] != strconv.FormatUint(c.U, 10) {
					return bad(p+"_number_lossy", "start %d came back as %v", c.U, o["startTimeUnixNano"])
				}
				f, err := strconv.ParseFloat(fmt.Sprint(o["durationMs"]), 64)
				if err != nil || math.Float64bits(f) != c.FBits {
					return bad(p+"_number_lossy", "durationMs %v came back as %v", math.Float64frombits(c.FBits), o["durationMs"])
				}
			}
		}
	case "trace":
		top, ok := asObj(doc, "resourceSpans")
		if !ok {
			return bad(p+"_shape", "not {resourceSpans}: %.120s", mustJSON(doc))
		}
		rs, ok := asArr(top["resourceSpans"])
		if !ok || len(rs) != 1 {
			return bad(p+"_shape", "resourceSpans is not a one-element array")
		}
		r0, ok := asObj(rs[0], "resource", "instrumentationLibrarySpans")
		if !ok {
			return bad(p+"_shape", "resourceSpans[0] is not {resource,instrumentationLibrarySpans}")
		}
		ils, ok := asArr(r0["instrumentationLibrarySpans"])
		if !ok || len(ils) != 1 {
			return bad(p+"_shape", "instrumentationLibrarySpans is not a one-element array")
		}
		i0, ok := asObj(ils[0], "spans")
		if !ok {
			return bad(p+"_shape", "instrumentationLibrarySpans[0] is not {spans}")
		}
		spans, ok := asArr(i0["spans"])
		if !ok || len(spans) != c.N {
			return bad(p+"_row_count", "%d spans for %d rows", len(spans), c.N)
		}
		for i, x := range spans {
			o, ok := x.(map[string]any)
			if !ok {
				return bad(p+"_shape", "spans[%d] is not an object", i)
			}
			wantSpan := hex.EncodeToString([]byte{1, 2, 3, 4, 5, 6, 7, byte(i)})
			if o["spanID"] != wantSpan || o["spanId"] != wantSpan || o["name"] != jsonString(c.H) {
				return bad(p+"_strings_differ", "span %d came back as %.160s", i, mustJSON(x))
			}
			if fmt.Sprint(o["startTimeUnixNano"]) != strconv.FormatUint(c.U, 10) || fmt.Sprint(o["endTimeUnixNano"]) != strconv.FormatUint(c.U+uint64(i), 10) {
				return bad(p+"_number_lossy", "start %d came back as %v", c.U, o["startTimeUnixNano"])
			}
			attrs, ok := asArr(o["attributes"])
			if !ok || len(attrs) != 7 {
				return bad(p+"_shape", "span %d has %d attributes for 7", i, len(attrs))
			}
			get := func(j int) (string, string, bool) {
				a, ok := asObj(attrs[j], "key", "value")
				if !ok {
					return "", "", false
				}
				v, ok := asObj(a["value"], "stringValue")
				if !ok {
					return "", "", false
				}
				k, ok1 := a["key"].(string)
				s, ok2 := v["stringValue"].(string)
				return k, s, ok1 && ok2
			}
			k, v, ok := get(0)
			if !ok || k != jsonString(c.H) || v != jsonString(c.H) {
				return bad(p+"_strings_differ", "attribute %q=%q came back as %q=%q", c.H, c.H, k, v)
			}
			if _, v, ok := get(3); !ok || v != strconv.FormatInt(int64(c.U), 10) {
				return bad(p+"_number_lossy", "int attribute %d came back as %q", int64(c.U), v)
			}
			if _, v, ok := get(4); !ok || !valueOKLoose(v, math.Float64frombits(c.FBits)) {
				return bad(p+"_number_lossy", "double attribute %v came back as %q", math.Float64frombits(c.FBits), v)
			}
			evs, ok := asArr(o["events"])
			if !ok || len(evs) != 1 {
				return bad(p+"_shape", "span %d events", i)
			}
			e0, ok := asObj(evs[0], "timeUnixNano", "name")
			if !ok || e0["name"] != jsonString(c.H) || fmt.Sprint(e0["timeUnixNano"]) != strconv.FormatUint(c.U, 10) {
				return bad(p+"_strings_differ", "event came back as %.120s", mustJSON(evs[0]))
			}
		}
	}
	return nil
}

// valueOKLoose: a float rendered by Go's %v inside a string: must parse back to the same bits (NaN by name).
func valueOKLoose(s string, want float64) bool {
	got, err := strconv.ParseFloat(s, 64)
	if err != nil {
		return false
	}
	if math.IsNaN(want) {
		return math.IsNaN(got)
	}
	return math.Float64bits(got) == math.Float64bits(want)
}

func tempoCases(thorough bool) []*TempoCase {
	var out []*TempoCase
	maxLen := 2
	if thorough {
		maxLen = 3
	}
	var rec func(cur []string)
	rec = func(cur []string) {
		for _, ep := range []string{"tags", "values", "tags_v2", "values_v2"} {
			out = append(out, &TempoCase{Endpoint: ep, Strs: append([]string(nil), cur...)})
		}
		if len(cur) == maxLen {
			return
		}
		for _, h := range hostile {
			rec(append(cur, h))
		}
	}
	rec(nil)
	us := []uint64{0, 1, 9007199254740993, math.MaxInt64, math.MaxUint64}
	for _, h := range hostile {
		for n := 0; n <= 3; n++ {
			for _, u := range us {
				for _, f := range floats {
					if n != 2 && (u != 9007199254740993 || f != 0.1) {
						continue // full number cross product only at n = 2
					}
					out = append(out, &TempoCase{Endpoint: "trace", H: h, N: n, U: u, FBits: math.Float64bits(f)})
					out = append(out, &TempoCase{Endpoint: "search", H: h, N: n, U: u, FBits: math.Float64bits(f)})
					if math.IsNaN(f) || math.IsInf(f, 0) {
						continue // durationMs is a JSON number: encoding/json refuses NaN/Inf and the controller drops the element silently; not a result row ClickHouse can return for a duration
					}
					for _, ch := range compositions(n) {
						for _, b := range withEmpties(ch) {
							out = append(out, &TempoCase{Endpoint: "search_traceql", H: h, N: n, U: u, FBits: math.Float64bits(f), Chunk: b})
						}
					}
				}
			}
		}
	}
	for _, f := range floatGrid { // numeric attributes / durations over the whole grid
		out = append(out, &TempoCase{Endpoint: "trace", H: "a", N: 1, U: 1, FBits: math.Float64bits(f)})
		if !math.IsNaN(f) && !math.IsInf(f, 0) {
			out = append(out, &TempoCase{Endpoint: "search_traceql", H: "a", N: 1, U: 1, FBits: math.Float64bits(f), Chunk: []int{1}})
		}
	}
	return out
}

func runTempoCases(r *sink, g *gstat, cases []*TempoCase) {
	parallel(r, cases, func(c *TempoCase) {
		code, body := runTempo(c)
		g.add(body)
		debugBody(body)
		k, _ := json.Marshal(c)
		r.Distinct_("tempo|" + string(k))
		if b := checkTempo(c, code, body); b != nil {
			r.Outcome(b.Class)
			violate(r, "tempo", c, b)
		} else {
			r.Outcome("tempo_" + c.Endpoint + ":ok")
		}
	})
}

var _ = http.StatusOK
