package main

// Oracle side of C15: parse a response body as exactly one JSON value and compare it with the scripted rows.
// Kept boring on purpose: encoding/json does the parsing, the expectations are plain structs.

import (
	"bytes"
	"encoding/json"
	"fmt"
	"io"
	"math"
	"regexp"
	"sort"
	"strconv"
	"strings"
	"unicode/utf8"
)

// Bad is one disagreement: a stable class (explanation) and a human text.
type Bad struct{ Class, What string }

func bad(class, format string, a ...any) *Bad { return &Bad{class, fmt.Sprintf(format, a...)} }

// parseOne accepts body iff encoding/json reads exactly ONE value from it and nothing but white space follows.
func parseOne(body []byte) (any, error) {
	dec := json.NewDecoder(bytes.NewReader(body))
	dec.UseNumber()
	var v any
	if err := dec.Decode(&v); err != nil {
		return nil, err
	}
	v = collapseReplacement(v)
	var extra any
	if err := dec.Decode(&extra); err != io.EOF {
		if err == nil {
			return nil, fmt.Errorf("second JSON value after the first: %.40q", mustJSON(extra))
		}
		return nil, fmt.Errorf("trailing data after the first value: %v", err)
	}
	return v, nil
}

// rawUTF8: RFC 8259 JSON text is UTF-8.  A body that carries bytes which are not valid UTF-8 (copied through from
// a label value or a log line) is rejected by a strict parser even though encoding/json tolerates it.
func rawUTF8(shape string, body []byte) *Bad {
	if utf8.Valid(body) {
		return nil
	}
	i := 0
	for i < len(body) {
		r, n := utf8.DecodeRune(body[i:])
		if r == utf8.RuneError && n == 1 {
			break
		}
		i += n
	}
	return bad(shape+"_raw_invalid_utf8_in_string", "the body is not valid UTF-8 (byte 0x%02x at offset %d, copied through unescaped): %s", body[i], i, snippet(body))
}

var replRun = regexp.MustCompile("\uFFFD+")

// collapseReplacement rewrites every string (and object key) of a parsed document with runs of U+FFFD collapsed
// to one: an encoder may replace each invalid byte (encoding/json) or each maximal invalid sequence
// (strings.ToValidUTF8, Loki) by U+FFFD; both are accepted.
func collapseReplacement(v any) any {
	switch x := v.(type) {
	case string:
		return replRun.ReplaceAllString(x, "\uFFFD")
	case []any:
		for i := range x {
			x[i] = collapseReplacement(x[i])
		}
		return x
	case map[string]any:
		out := make(map[string]any, len(x))
		for k, e := range x {
			out[replRun.ReplaceAllString(k, "\uFFFD")] = collapseReplacement(e)
		}
		return out
	}
	return v
}

func mustJSON(v any) string { b, _ := json.Marshal(v); return string(b) }

// jsonString is what a string means once it went through JSON: encoding/json replaces every byte that is not
// part of a valid UTF-8 sequence by U+FFFD, on the way out as well as on the way in; nothing else may change.
func jsonString(s string) string {
	b, _ := json.Marshal(s)
	var out string
	json.Unmarshal(b, &out)
	return replRun.ReplaceAllString(out, "\uFFFD")
}

func jsonLabels(m map[string]string) map[string]string {
	out := map[string]string{}
	for k, v := range m {
		out[jsonString(k)] = jsonString(v)
	}
	return out
}

// snippet shortens a body for messages.
func snippet(b []byte) string {
	if len(b) > 300 {
		return fmt.Sprintf("%q…(%d bytes)", b[:300], len(b))
	}
	return fmt.Sprintf("%q", b)
}

// ---- generic accessors over the parsed document ------------------------------------------------------------------

func asObj(v any, keys ...string) (map[string]any, bool) {
	m, ok := v.(map[string]any)
	if !ok {
		return nil, false
	}
	if len(keys) > 0 {
		if len(m) != len(keys) {
			return m, false
		}
		for _, k := range keys {
			if _, ok := m[k]; !ok {
				return m, false
			}
		}
	}
	return m, true
}

func asArr(v any) ([]any, bool) { a, ok := v.([]any); return a, ok }

func asStrMap(v any) (map[string]string, bool) {
	m, ok := v.(map[string]any)
	if !ok {
		return nil, false
	}
	out := map[string]string{}
	for k, x := range m {
		s, ok := x.(string)
		if !ok {
			return nil, false
		}
		out[k] = s
	}
	return out, true
}

func sameLabels(a, b map[string]string) bool {
	if len(a) != len(b) {
		return false
	}
	for k, v := range a {
		if w, ok := b[k]; !ok || w != v {
			return false
		}
	}
	return true
}

func labelsKey(m map[string]string) string {
	ks := make([]string, 0, len(m))
	for k := range m {
		ks = append(ks, k)
	}
	sort.Strings(ks)
	var b strings.Builder
	for _, k := range ks {
		fmt.Fprintf(&b, "%q=%q,", k, m[k])
	}
	return b.String()
}

// ---- expectations ------------------------------------------------------------------------------------------------

type expStream struct {
	Labels map[string]string
	TS     []int64
	Msg    []string
	Val    []float64
}

// envelope checks {"status":"success","data":{"resultType":T,"result":[...]}} and returns result.
func envelope(doc any, resultType string) ([]any, *Bad) {
	top, ok := asObj(doc, "status", "data")
	if !ok {
		return nil, bad("shape_envelope", "top level is not {status,data}: %.200s", mustJSON(doc))
	}
	if top["status"] != "success" {
		return nil, bad("shape_envelope", "status=%v", top["status"])
	}
	data, ok := asObj(top["data"], "resultType", "result")
	if !ok {
		return nil, bad("shape_envelope", "data is not {resultType,result}: %.200s", mustJSON(top["data"]))
	}
	if data["resultType"] != resultType {
		return nil, bad("shape_result_type", "resultType=%v want %s", data["resultType"], resultType)
	}
	res, ok := asArr(data["result"])
	if !ok {
		return nil, bad("shape_envelope", "result is not an array")
	}
	return res, nil
}

// checkStreams: result = one {stream:{...},values:[[ "<ns>", "<line>" ],...]} per expected stream, in order.
func checkStreams(res []any, exp []expStream, labelKey string) *Bad {
	for i, x := range res {
		o, ok := asObj(x, labelKey, "values")
		if !ok {
			return bad("shape_stream_object", "result[%d] is not {%s,values}: %.160s", i, labelKey, mustJSON(x))
		}
		if _, ok := asStrMap(o[labelKey]); !ok {
			return bad("shape_stream_labels", "result[%d].%s is not a string map", i, labelKey)
		}
	}
	if len(res) != len(exp) {
		return bad("stream_object_count", "%d stream objects for %d streams", len(res), len(exp))
	}
	for i, e := range exp {
		o, _ := asObj(res[i])
		lbl, _ := asStrMap(o[labelKey])
		if !sameLabels(lbl, jsonLabels(e.Labels)) {
			return bad("stream_labels_differ", "result[%d].%s=%v want %v", i, labelKey, lbl, jsonLabels(e.Labels))
		}
		vals, ok := asArr(o["values"])
		if !ok {
			return bad("shape_values", "result[%d].values is not an array", i)
		}
		if len(vals) != len(e.TS) {
			return bad("row_count", "stream %d has %d values for %d rows", i, len(vals), len(e.TS))
		}
		for j, v := range vals {
			p, ok := asArr(v)
			if !ok || len(p) != 2 {
				return bad("shape_value_pair", "result[%d].values[%d] is not a pair: %.80s", i, j, mustJSON(v))
			}
			ts, ok1 := p[0].(string)
			line, ok2 := p[1].(string)
			if !ok1 || !ok2 {
				return bad("shape_value_pair", "result[%d].values[%d] is not [string,string]: %.80s", i, j, mustJSON(v))
			}
			if ts != strconv.FormatInt(e.TS[j], 10) {
				return bad("timestamp_lossy", "row ts %d rendered as %q", e.TS[j], ts)
			}
			if line != jsonString(e.Msg[j]) {
				return bad("line_differs", "row line %q came back as %q", e.Msg[j], line)
			}
		}
	}
	return nil
}

// valueOK: the decimal string must parse back to the same float64; non-finite values as Prometheus renders them.
func valueOK(s string, want float64) bool {
	switch {
	case math.IsNaN(want):
		return s == "NaN"
	case math.IsInf(want, 1):
		return s == "+Inf"
	case math.IsInf(want, -1):
		return s == "-Inf"
	}
	if strings.ContainsAny(s, "nNiI") { // ParseFloat would accept "inf", "nan", "infinity"
		return false
	}
	got, err := strconv.ParseFloat(s, 64)
	return err == nil && math.Float64bits(got) == math.Float64bits(want)
}

// tsSecondsOK: a JSON number of seconds must denote the timestamp exactly at the resolution the endpoint
// works in (unitNS: 1e6 for the millisecond grid of metric queries, 1e9 for whole seconds).
func tsSecondsOK(n json.Number, tsNS int64, unitNS int64) bool {
	f, err := strconv.ParseFloat(string(n), 64)
	if err != nil {
		return false
	}
	return int64(math.Round(f*1e9/float64(unitNS))) == tsNS/unitNS
}

// checkMatrix: result = one {metric:{...},values:[[<sec>, "<val>"],...]} per series, in order.
func checkMatrix(res []any, exp []expStream, unitNS int64) *Bad {
	for i, x := range res {
		o, ok := asObj(x, "metric", "values")
		if !ok {
			return bad("shape_series_object", "result[%d] is not {metric,values}: %.160s", i, mustJSON(x))
		}
		if _, ok := asStrMap(o["metric"]); !ok {
			return bad("shape_series_labels", "result[%d].metric is not a string map", i)
		}
	}
	if len(res) != len(exp) {
		return bad("series_object_count", "%d series objects for %d series", len(res), len(exp))
	}
	for i, e := range exp {
		o, _ := asObj(res[i])
		lbl, _ := asStrMap(o["metric"])
		if !sameLabels(lbl, jsonLabels(e.Labels)) {
			return bad("series_labels_differ", "result[%d].metric=%v want %v", i, lbl, jsonLabels(e.Labels))
		}
		vals, ok := asArr(o["values"])
		if !ok {
			return bad("shape_values", "result[%d].values is not an array", i)
		}
		if len(vals) != len(e.TS) {
			return bad("row_count", "series %d has %d values for %d rows", i, len(vals), len(e.TS))
		}
		for j, v := range vals {
			if b := checkSample(v, e.TS[j], e.Val[j], unitNS); b != nil {
				return b
			}
		}
	}
	return nil
}

func checkSample(v any, ts int64, val float64, unitNS int64) *Bad {
	p, ok := asArr(v)
	if !ok || len(p) != 2 {
		return bad("shape_sample_pair", "sample is not a pair: %.80s", mustJSON(v))
	}
	n, ok1 := p[0].(json.Number)
	s, ok2 := p[1].(string)
	if !ok1 || !ok2 {
		return bad("shape_sample_pair", "sample is not [number,string]: %.80s", mustJSON(v))
	}
	if !tsSecondsOK(n, ts, unitNS) {
		return bad("timestamp_lossy", "timestamp %d ns rendered as %s s", ts, n)
	}
	if !valueOK(s, val) {
		return bad("value_lossy_"+floatClass(val), "value %v rendered as %q", val, s)
	}
	return nil
}

func floatClass(f float64) string {
	switch {
	case math.IsNaN(f):
		return "nan"
	case math.IsInf(f, 0):
		return "inf"
	case f == 0:
		return "zero"
	case math.Abs(f) < 1e-6:
		return "tiny"
	case math.Abs(f) >= 1e21:
		return "huge"
	case f == math.Trunc(f):
		return "integral"
	}
	return "fraction"
}

// checkVector: result = one {metric:{...},value:[<sec>,"<val>"]} per series (any order); the value is a row
// of that series with the greatest timestamp.
func checkVector(res []any, exp []expStream, unitNS int64) *Bad {
	want := map[string]expStream{}
	for _, e := range exp {
		want[labelsKey(jsonLabels(e.Labels))] = e
	}
	seen := map[string]bool{}
	for i, x := range res {
		o, ok := asObj(x, "metric", "value")
		if !ok {
			return bad("shape_sample_object", "result[%d] is not {metric,value}: %.160s", i, mustJSON(x))
		}
		lbl, ok := asStrMap(o["metric"])
		if !ok {
			return bad("shape_series_labels", "result[%d].metric is not a string map", i)
		}
		k := labelsKey(lbl)
		e, ok := want[k]
		if !ok {
			return bad("series_labels_differ", "result[%d].metric=%v is none of the scripted series", i, lbl)
		}
		if seen[k] {
			return bad("series_object_count", "series %v has two objects", lbl)
		}
		seen[k] = true
		maxTS := e.TS[0]
		for _, t := range e.TS {
			if t > maxTS {
				maxTS = t
			}
		}
		var last *Bad
		okAny := false
		for j, t := range e.TS {
			if t == maxTS {
				if b := checkSample(o["value"], t, e.Val[j], unitNS); b == nil {
					okAny = true
				} else {
					last = b
				}
			}
		}
		if !okAny {
			return last
		}
	}
	if len(seen) != len(want) {
		return bad("series_object_count", "%d sample objects for %d series", len(seen), len(want))
	}
	return nil
}
