package main

// Group F: Pyroscope /querier.v1.QuerierService/SelectSeries (JSON flavour): scripted rows of the select-series
// statement -> ProfService.SelectSeries -> protojson.  Numeric fields: point value (float64), timestamp (int64 ms,
// a string in protojson).

import (
	"bytes"
	"database/sql/driver"
	"encoding/json"
	"fmt"
	"math"
	"net/http/httptest"
	"strconv"
	"unicode/utf8"

	controllerv1 "github.com/metrico/qryn/reader/controller"
	"github.com/metrico/qryn/reader/service"

	"verif/mc/rdfake"
)

type PyroCase struct {
	FPs    []uint64   `json:"fps"`    // fingerprint of every series, in ORDER BY fingerprint order
	Bits   [][]uint64 `json:"bits"`   // per series: float64 bit patterns of its points
	TMs    int64      `json:"t_ms"`   // timestamp of the first point; following points +15 s
	Labels string     `json:"labels"` // value of label "a" (name of the series is its index)
}

func runPyro(c *PyroCase) (int, []byte) {
	var rows [][]driver.Value
	for i, fp := range c.FPs {
		for j, b := range c.Bits[i] {
			lbl := [][]any{{"a", c.Labels}, {"i", strconv.Itoa(i)}}
			rows = append(rows, []driver.Value{c.TMs + int64(j)*15000, fp, lbl, math.Float64frombits(b)})
		}
	}
	db := rdfake.NewDB("c15pyro", func(q string) rdfake.Result {
		return rdfake.Result{Cols: []string{"timestamp_ms", "fingerprint", "labels", "value"}, Rows: rows}
	})
	defer db.Close()
	ctrl := &controllerv1.ProfController{ProfService: &service.ProfService{DataSession: rdfake.NewRegistry(db, "")}}
	body := `{"profile_typeID":"process_cpu:cpu:nanoseconds:cpu:nanoseconds","label_selector":"{a=\"b\"}","start":1000000,"end":2000000,"step":15}`
	req := httptest.NewRequest("POST", "/querier.v1.QuerierService/SelectSeries", bytes.NewReader([]byte(body)))
	req.Header.Set("Content-Type", "application/json")
	rec := httptest.NewRecorder()
	ctrl.SelectSeries(rec, req)
	return rec.Code, rec.Body.Bytes()
}

func checkPyro(c *PyroCase, code int, body []byte) *Bad {
	if b := rawUTF8("pyro_select_series", body); b != nil {
		return b
	}
	p := "pyro_select_series"
	if code != 200 {
		return bad(p+"_status", "HTTP %d: %s", code, snippet(body))
	}
	doc, err := parseOne(body)
	if err != nil {
		return bad(p+"_not_json", "body is not one JSON value (%v): %s", err, snippet(body))
	}
	top, ok := doc.(map[string]any)
	if !ok {
		return bad(p+"_shape", "not an object")
	}
	var series []any
	if top["series"] != nil {
		if series, ok = asArr(top["series"]); !ok {
			return bad(p+"_shape", "series is not an array")
		}
	}
	nonEmpty := 0
	for i := range c.FPs {
		if len(c.Bits[i]) > 0 {
			nonEmpty++
		}
	}
	if len(series) != nonEmpty {
		cls := p + "_series_object_count"
		for i, fp := range c.FPs {
			if fp == 0 && len(c.Bits[i]) > 1 {
				cls = p + "_fp0_series_object_count"
			}
		}
		return bad(cls, "%d series objects for %d series", len(series), nonEmpty)
	}
	k := 0
	for i := range c.FPs {
		if len(c.Bits[i]) == 0 {
			continue
		}
		o, ok := series[k].(map[string]any)
		k++
		if !ok {
			return bad(p+"_shape", "series[%d] is not an object", i)
		}
		pts, ok := asArr(o["points"])
		if !ok || len(pts) != len(c.Bits[i]) {
			return bad(p+"_row_count", "series %d has %d points for %d rows", i, len(pts), len(c.Bits[i]))
		}
		for j, x := range pts {
			po, ok := x.(map[string]any)
			if !ok {
				return bad(p+"_shape", "point is not an object")
			}
			want := math.Float64frombits(c.Bits[i][j])
			// protojson: numbers as JSON numbers, NaN / Infinity / -Infinity as strings, zero omitted
			var got float64
			switch v := po["value"].(type) {
			case nil:
				got = 0
			case json.Number:
				got, err = strconv.ParseFloat(string(v), 64)
				if err != nil {
					return bad(p+"_value_lossy_"+floatClass(want), "value %v rendered as %s", want, v)
				}
			case string:
				switch v {
				case "NaN":
					got = math.NaN()
				case "Infinity":
					got = math.Inf(1)
				case "-Infinity":
					got = math.Inf(-1)
				default:
					return bad(p+"_value_lossy_"+floatClass(want), "value %v rendered as %q", want, v)
				}
			}
			same := math.Float64bits(got) == math.Float64bits(want) || math.IsNaN(got) && math.IsNaN(want) ||
				po["value"] == nil && want == 0 // proto3 omits the default 0 (and the sign of -0 with it): the documented format
			if !same {
				return bad(p+"_value_lossy_"+floatClass(want), "value %v (bits %x) rendered as %v", want, c.Bits[i][j], po["value"])
			}
			wantTS := c.TMs + int64(j)*15000
			ts := "0"
			if po["timestamp"] != nil {
				ts = fmt.Sprint(po["timestamp"])
			}
			if ts != strconv.FormatInt(wantTS, 10) {
				return bad(p+"_timestamp_lossy", "timestamp %d ms rendered as %v", wantTS, po["timestamp"])
			}
		}
	}
	return nil
}

func pyroCases() []*PyroCase {
	var out []*PyroCase
	bits := func(fs []float64) []uint64 {
		b := make([]uint64, len(fs))
		for i, f := range fs {
			b[i] = math.Float64bits(f)
		}
		return b
	}
	for _, ch := range gridChunks(48) {
		for _, t := range []int64{0, 1, 1700000000123, 9007199254740993} {
			out = append(out, &PyroCase{FPs: []uint64{7}, Bits: [][]uint64{bits(ch)}, TMs: t, Labels: "b"})
		}
	}
	// structure: <= 3 series x 0..3 points, fingerprints incl. 0
	one := bits([]float64{1.5, 2.5, 3.5})
	for _, fpset := range [][]uint64{{5, 9, 11}, {0, 5, 9}} {
		for a := 0; a <= 3; a++ {
			for b := 0; b <= 3; b++ {
				for c3 := 0; c3 <= 3; c3++ {
					out = append(out, &PyroCase{FPs: fpset, Bits: [][]uint64{one[:a], one[:b], one[:c3]}, TMs: 1000, Labels: "b"})
				}
			}
		}
	}
	for _, h := range hostile {
		if !utf8.ValidString(h) {
			continue // profile tags arrive as proto3 strings: invalid UTF-8 is rejected at ingest and cannot be a stored row
		}
		out = append(out, &PyroCase{FPs: []uint64{7, 9}, Bits: [][]uint64{one[:2], one[:1]}, TMs: 1000, Labels: h})
	}
	return out
}

func runPyroCases(r *sink, g *gstat, cases []*PyroCase) {
	parallel(r, cases, func(c *PyroCase) {
		code, body := runPyro(c)
		g.add(body)
		debugBody(body)
		k, _ := json.Marshal(c)
		r.Distinct_("pyro|" + string(k))
		if b := checkPyro(c, code, body); b != nil {
			r.Outcome(b.Class)
			violate(r, "pyro", c, b)
		} else {
			r.Outcome("pyro_select_series:ok")
		}
	})
}
