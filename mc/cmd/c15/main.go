// C15 — Query responses are always one well-formed document of the documented shape.  See NOTES.md.
package main

import (
	"encoding/json"
	"fmt"
	"os"
	"runtime"
	"runtime/pprof"
	"sync"
	"sync/atomic"
	"time"

	"verif/mc/ev"
)

// Replay is what a violation stores: the group and the case, enough to re-run it alone.
type Replay struct {
	Group string          `json:"group"`
	Case  json.RawMessage `json:"case"`
}

type group struct {
	name string
	run  func(r *ev.Run, g *gstat)
}

type gstat struct {
	name  string
	cases int64
	bytes int64
	rawU8 int64 // bodies that carry raw invalid UTF-8 bytes inside strings (accepted by encoding/json; counted)
}

func (g *gstat) add(body []byte) {
	atomic.AddInt64(&g.cases, 1)
	atomic.AddInt64(&g.bytes, int64(len(body)))
}

// the reader prints debug lines (fmt.Println of queries, "Checking ...") on stdout: keep VIOLATION lines clean.
func quietStdout() (restore func()) {
	old := os.Stdout
	null, err := os.OpenFile(os.DevNull, os.O_WRONLY, 0)
	if err != nil {
		return func() {}
	}
	os.Stdout = null
	return func() { os.Stdout = old }
}

// parallel runs fn over items on all cores.
func parallel[T any](items []T, fn func(T)) {
	n := runtime.GOMAXPROCS(0)
	var wg sync.WaitGroup
	ch := make(chan T, 256)
	for i := 0; i < n; i++ {
		wg.Add(1)
		go func() {
			defer wg.Done()
			for it := range ch {
				fn(it)
			}
		}()
	}
	for _, it := range items {
		ch <- it
	}
	close(ch)
	wg.Wait()
}

// Violations are queued while reader code is running (it prints debug lines on stdout, some without a newline)
// and reported between groups, when stdout is ours again.
type pendingV struct {
	class, what string
	replay      Replay
}

var (
	pendMu  sync.Mutex
	pending []pendingV
)

func violate(r *ev.Run, group string, c any, b *Bad) {
	raw, _ := json.Marshal(c)
	pendMu.Lock()
	if len(pending) < 5000 {
		pending = append(pending, pendingV{b.Class, b.What, Replay{Group: group, Case: raw}})
	}
	pendMu.Unlock()
}

var realStdout = os.Stdout

func flushViolations(r *ev.Run) {
	pendMu.Lock()
	defer pendMu.Unlock()
	cur := os.Stdout
	os.Stdout = realStdout
	for _, p := range pending {
		r.Violate(p.class, p.what, p.replay)
	}
	pending = nil
	os.Stdout = cur
}

func main() {
	r := ev.Start("C15", "model_checking", 75*time.Second, 15*time.Minute)
	r.Rule = "every scripted result set of the bounded space is pushed through the real encoder; the concatenated chunks must be exactly one JSON value (encoding/json Decoder, no trailing data) of the endpoint's schema whose content equals the scripted rows. A case is distinct by (endpoint, series sizes, fingerprints, batch composition incl. empty batches, EOF sentinel) resp. (endpoint, position, hostile atom)"
	r.Assumptions = []string{
		"rows of one series are contiguous in the row sequence (ORDER BY fingerprint of the final SQL / grouping of ResponseOptimizerPlanner); the 3000-entry flush that breaks this is exercised through the real pipeline",
		"a string 'round-trips' when the decoded value equals the original with every byte that is not valid UTF-8 replaced by U+FFFD (what encoding/json itself does); raw invalid bytes inside a JSON string are accepted by encoding/json and only counted",
		"timestamps of matrix samples lie on the millisecond grid (from is whole seconds, step is milliseconds); instant-vector timestamps on whole seconds",
		"mid-stream database errors are out of scope (no result row); a panic inside an encoder goroutine would end the run with exit 2 (harness failure), not with a verdict",
	}
	restore := quietStdout()
	defer restore()
	if pf := os.Getenv("C15_PROF"); pf != "" {
		f, _ := os.Create(pf)
		pprof.StartCPUProfile(f)
		defer pprof.StopCPUProfile()
		go func() { time.Sleep(20 * time.Second); pprof.StopCPUProfile(); f.Close(); os.Exit(3) }()
	}
	if os.Getenv("C15_BENCH") != "" {
		var cases []*QRCase
		structCases("range_streams", 3, func(c *QRCase) { cases = append(cases, c) })
		t0 := time.Now()
		for _, c := range cases[:500] {
			runQR(c)
		}
		fmt.Fprintln(os.Stderr, "sequential 500:", time.Since(t0))
		t0 = time.Now()
		parallel(cases[:1600], func(c *QRCase) { runQR(c) })
		fmt.Fprintln(os.Stderr, "parallel 1600:", time.Since(t0))
		os.Exit(3)
	}
	groups := allGroups(r)
	if r.Replay != "" {
		replay(r, groups)
		restoreAndFinish(r, restore)
	}
	stats := map[string]any{}
	for _, g := range groups {
		if r.Expired() {
			break
		}
		st := &gstat{name: g.name}
		t0 := time.Now()
		g.run(r, st)
		flushViolations(r)
		stats[g.name] = map[string]any{"cases": st.cases, "bytes": st.bytes, "bodies_with_raw_invalid_utf8": st.rawU8, "wall_s": time.Since(t0).Seconds()}
		r.AddEval(st.cases)
		r.TracesValidated += st.cases
		r.States += st.cases
		r.Transitions += st.bytes
	}
	r.Extra["groups"] = stats
	r.Extra["transitions_are"] = "bytes of response bodies parsed"
	restoreAndFinish(r, restore)
}

func restoreAndFinish(r *ev.Run, restore func()) {
	restore()
	os.Stdout = realStdout
	r.Finish()
}

func replay(r *ev.Run, groups []group) {
	b, err := os.ReadFile(r.Replay)
	if err != nil {
		ev.Fatal("replay: %v", err)
	}
	var f struct{ Replay Replay }
	if err := json.Unmarshal(b, &f); err != nil {
		ev.Fatal("replay: %v", err)
	}
	if !replayCase(r, f.Replay) {
		ev.Fatal("replay: unknown group %q", f.Replay.Group)
	}
	r.AddEval(1)
	flushViolations(r)
	os.Stdout = realStdout
	fmt.Printf("replay: %d violation(s)\n", r.Violations())
}
