// C15 — Query responses are always one well-formed document of the documented shape.  See NOTES.md.
package main

import (
	"bufio"
	"bytes"
	"encoding/json"
	"fmt"
	"os"
	"os/exec"
	"sort"
	"strconv"
	"sync"
	"time"

	"verif/mc/ev"
)

// Replay is what a violation stores: the group and the case, enough to re-run it alone.
type Replay struct {
	Group string          `json:"group"`
	Case  json.RawMessage `json:"case"`
}

type group struct {
	name string
	run  func(r *sink, g *gstat)
}

type gstat struct {
	Cases int64 `json:"cases"`
	Bytes int64 `json:"bytes"`
	RawU8 int64 `json:"raw_invalid_utf8"` // bodies that carry raw invalid UTF-8 bytes inside strings (accepted by encoding/json; counted)
}

func (g *gstat) add(body []byte) {
	g.Cases++
	g.Bytes += int64(len(body))
}

type pendingV struct {
	Class  string `json:"class"`
	What   string `json:"what"`
	Replay Replay `json:"replay"`
}

// sink collects what one worker observed; the parent merges the sinks of all shards into the evidence.
type sink struct {
	thorough bool
	shard    int
	nshards  int
	mu       sync.Mutex
	distinct map[string]struct{}
	Outcomes map[string]int64 `json:"outcomes"`
	Viol     []pendingV       `json:"violations"`
	Samples  []any            `json:"samples"`
	Distinct int              `json:"distinct"`
	Stat     gstat            `json:"stat"`
	Expired  bool             `json:"expired"`
	deadline time.Time
	maxRows  map[string]int
}

func (s *sink) Thorough() bool { return s.thorough }
func (s *sink) Distinct_(k string) {
	s.distinct[k] = struct{}{}
}
func (s *sink) Outcome(k string) { s.Outcomes[k]++ }
func (s *sink) Sample(x any) {
	if len(s.Samples) < 1 && s.shard == 0 {
		s.Samples = append(s.Samples, x)
	}
}

// debugBody prints the body on stderr when C15_DEBUG is set (used with --replay).
func debugBody(b []byte) {
	if os.Getenv("C15_DEBUG") != "" {
		fmt.Fprintf(os.Stderr, "BODY: %s\n", b)
	}
}

func violate(r *sink, group string, c any, b *Bad) {
	raw, _ := json.Marshal(c)
	// keep a few per class: the parent dedupes anyway
	n := 0
	for _, v := range r.Viol {
		if v.Class == b.Class {
			n++
		}
	}
	if n < 3 {
		r.Viol = append(r.Viol, pendingV{b.Class, b.What, Replay{Group: group, Case: raw}})
	}
}

// parallel: inside a worker process the cases of this shard run one after the other (the parallelism is across
// worker processes: the participle parser built on every request makes in-process threads contend on the heap).
func parallel[T any](r *sink, items []T, fn func(T)) {
	for i, it := range items {
		if i%r.nshards != r.shard {
			continue
		}
		if i%64 == 0 && time.Now().After(r.deadline) {
			r.Expired = true
			return
		}
		fn(it)
	}
}

func groupByName(thorough bool, name string) *group {
	s := &sink{thorough: thorough}
	for _, g := range allGroups(s) {
		if g.name == name {
			return &g
		}
	}
	return nil
}

// ---- worker ---------------------------------------------------------------------------------------------------------

func workerMain(args []string) {
	// the reader prints debug lines on stdout; the result goes to the real stdout at the very end
	real := os.Stdout
	os.Stdout, _ = os.OpenFile(os.DevNull, os.O_WRONLY, 0)
	name := args[0]
	shard, _ := strconv.Atoi(args[1])
	nshards, _ := strconv.Atoi(args[2])
	thorough := args[3] == "thorough"
	budget, _ := strconv.ParseFloat(args[4], 64)
	s := &sink{thorough: thorough, shard: shard, nshards: nshards, distinct: map[string]struct{}{}, Outcomes: map[string]int64{},
		deadline: time.Now().Add(time.Duration(budget * float64(time.Second)))}
	var g *group
	for _, x := range allGroups(s) {
		if x.name == name {
			x := x
			g = &x
		}
	}
	if g == nil {
		ev.Fatal("worker: unknown group %s", name)
	}
	if len(args) > 5 { // replay of one case
		var rp Replay
		b, err := os.ReadFile(args[5])
		if err != nil || json.Unmarshal(b, &rp) != nil {
			ev.Fatal("worker: bad replay file")
		}
		s.nshards, s.shard = 1, 0
		if !replayCase(s, rp) {
			ev.Fatal("replay: unknown group %q", rp.Group)
		}
	} else {
		g.run(s, &s.Stat)
	}
	s.Distinct = len(s.distinct)
	w := bufio.NewWriter(real)
	json.NewEncoder(w).Encode(s)
	w.Flush()
}

func spawnWorker(args ...string) (*sink, error) {
	// a worker that cannot be started or is killed from outside (shared, at times overloaded machine) is started
	// again, twice at most; a worker that fails by itself fails every time
	var out, errb bytes.Buffer
	var err error
	for attempt := 0; attempt < 3; attempt++ {
		cmd := exec.Command(os.Args[0], append([]string{"--worker"}, args...)...)
		cmd.Env = append(os.Environ(), "GOMAXPROCS=2")
		out.Reset()
		errb.Reset()
		cmd.Stdout = &out
		cmd.Stderr = &errb
		if err = cmd.Run(); err == nil {
			break
		}
		time.Sleep(200 * time.Millisecond)
	}
	if err != nil {
		e := errb.String()
		if len(e) > 3000 {
			e = e[len(e)-3000:]
		}
		return nil, fmt.Errorf("%v: %s", err, e)
	}
	if os.Getenv("C15_DEBUG") != "" {
		os.Stderr.Write(errb.Bytes())
	}
	var s sink
	if err := json.Unmarshal(out.Bytes(), &s); err != nil {
		return nil, fmt.Errorf("bad worker output: %v", err)
	}
	return &s, nil
}

// ---- parent ---------------------------------------------------------------------------------------------------------

func main() {
	if len(os.Args) > 1 && os.Args[1] == "--worker" {
		workerMain(os.Args[2:])
		return
	}
	r := ev.Start("C15", "model_checking", 75*time.Second, 15*time.Minute)
	r.Rule = "every scripted result set of the bounded space is pushed through the real encoder; the concatenated chunks must be exactly one JSON value (encoding/json Decoder, no trailing data) of the endpoint's schema whose content equals the scripted rows. A case is distinct by (endpoint, series sizes, fingerprints, batch composition incl. empty batches, EOF sentinel) resp. (endpoint, position, hostile atom / number)"
	r.Assumptions = []string{
		"rows of one series are contiguous in the row sequence (ORDER BY fingerprint of the final SQL / grouping of ResponseOptimizerPlanner); the 3000-entry flush that breaks this is exercised through the real pipeline",
		"a string 'round-trips' when the decoded value equals the original with every byte that is not valid UTF-8 replaced by U+FFFD (what encoding/json itself does); the body as a whole must be valid UTF-8; runs of U+FFFD are collapsed before comparing, so per-byte and per-sequence replacement are both accepted",
		"timestamps of matrix samples lie on the millisecond grid (from is whole seconds, step is milliseconds); instant-vector timestamps on whole seconds",
		"mid-stream database errors are out of scope (no result row); a worker that dies (panic inside an encoder goroutine) ends the run with exit 2 (harness failure), not with a verdict",
		"Tail runs on an instrumented copy of queryRangeService.go in which only the ticker period literal is replaced (1 s -> 1 ms), see prepare.sh",
	}
	tier := "quick"
	if r.Thorough() {
		tier = "thorough"
	}
	if r.Replay != "" {
		b, err := os.ReadFile(r.Replay)
		if err != nil {
			ev.Fatal("replay: %v", err)
		}
		var f struct{ Replay Replay }
		if err := json.Unmarshal(b, &f); err != nil {
			ev.Fatal("replay: %v", err)
		}
		tmp, _ := os.CreateTemp(os.Getenv("VERIF_SCRATCH"), "c15replay-*.json")
		rb, _ := json.Marshal(f.Replay)
		tmp.Write(rb)
		tmp.Close()
		defer os.Remove(tmp.Name())
		first := allGroups(&sink{thorough: r.Thorough()})[0].name
		s, err := spawnWorker(first, "0", "1", tier, "600", tmp.Name())
		if err != nil {
			ev.Fatal("replay worker: %v", err)
		}
		for _, v := range s.Viol {
			r.Violate(v.Class, v.What, v.Replay)
		}
		r.AddEval(1)
		fmt.Printf("replay: %d violation(s)\n", r.Violations())
		r.Finish()
	}
	const nshards = 16
	stats := map[string]any{}
	cfg := &sink{thorough: r.Thorough()}
	groups := allGroups(cfg)
	r.Extra["max_rows"] = cfg.maxRows
	for _, g := range groups {
		remaining := time.Until(r.Deadline).Seconds() - 3
		if remaining < 1 {
			r.Cap("group " + g.name + " not started (deadline)")
			continue
		}
		t0 := time.Now()
		sinks := make([]*sink, nshards)
		var wg sync.WaitGroup
		var werr error
		var mu sync.Mutex
		for sh := 0; sh < nshards; sh++ {
			wg.Add(1)
			go func(sh int) {
				defer wg.Done()
				s, err := spawnWorker(g.name, strconv.Itoa(sh), strconv.Itoa(nshards), tier, fmt.Sprintf("%.1f", remaining))
				mu.Lock()
				defer mu.Unlock()
				if err != nil {
					werr = err
					return
				}
				sinks[sh] = s
			}(sh)
		}
		wg.Wait()
		if werr != nil {
			ev.Fatal("worker of group %s died: %v", g.name, werr)
		}
		var tot gstat
		distinct := 0
		expired := false
		var viol []pendingV
		for sh, s := range sinks {
			tot.Cases += s.Stat.Cases
			tot.Bytes += s.Stat.Bytes
			tot.RawU8 += s.Stat.RawU8
			expired = expired || s.Expired
			for i := 0; i < s.Distinct; i++ {
				r.Distinct(g.name + "#" + strconv.Itoa(sh) + "#" + strconv.Itoa(i))
			}
			distinct += s.Distinct
			keys := make([]string, 0, len(s.Outcomes))
			for k := range s.Outcomes {
				keys = append(keys, k)
			}
			sort.Strings(keys)
			for _, k := range keys {
				for i := int64(0); i < s.Outcomes[k]; i++ {
					r.Outcome(k)
				}
			}
			for _, x := range s.Samples {
				r.Sample(x)
			}
			viol = append(viol, s.Viol...)
		}
		sort.SliceStable(viol, func(i, j int) bool { return viol[i].Class < viol[j].Class })
		perClass := map[string]int{}
		for _, v := range viol {
			if perClass[v.Class] < 2 {
				r.Violate(v.Class, v.What, v.Replay)
			}
			perClass[v.Class]++
		}
		if expired {
			r.Cap("group " + g.name + " cut by the deadline")
		}
		stats[g.name] = map[string]any{"cases": tot.Cases, "distinct_cases": distinct, "bytes": tot.Bytes, "bodies_with_raw_invalid_utf8": tot.RawU8, "wall_s": time.Since(t0).Seconds()}
		r.AddEval(tot.Cases)
		r.TracesValidated += tot.Cases
		r.States += tot.Cases
		r.Transitions += tot.Bytes
	}
	r.Extra["groups"] = stats
	r.Extra["transitions_are"] = "bytes of response bodies parsed"
	r.Finish()
}
