package main

// Group B: scripted database rows through the real pipeline (no planner plugin): SQL statement ->
// scripted database/sql driver -> ClickhouseGetterPlanner.Scan / ScanMatrix (batches of 100) -> [in-process
// stages, LimitPlanner, ResponseOptimizerPlanner (3000-entry flush) | ZeroEaterPlanner, FixPeriodPlanner] ->
// encoder.  The rows are handed over in the order the generated SQL's ORDER BY promises.

import (
	"context"
	"database/sql/driver"
	"fmt"
	"strings"

	"github.com/metrico/qryn/reader/model"
	"github.com/metrico/qryn/reader/service"

	"verif/mc/ev"
	"verif/mc/rdfake"
)

type DBCase struct {
	Kind   string      `json:"kind"` // streams_final | streams_internal | matrix_chain
	Query  string      `json:"query"`
	Limit  int64       `json:"limit"`
	Series []SeriesDef `json:"series"`
	// Sizes[i] rows for Series[i] (streams_final, matrix_chain: contiguous, ordered by fingerprint);
	// streams_internal: N rows ordered by time, row j belongs to series j % len(Series)
	Sizes []int `json:"sizes"`
	N     int   `json:"n"`
}

func (c *DBCase) rows() (rows [][]driver.Value, exp []expStream) {
	lbl := func(s SeriesDef) map[string]string {
		m := map[string]string{}
		for k, v := range s.Labels {
			m[k] = v
		}
		return m
	}
	switch c.Kind {
	case "streams_final":
		ts := int64(1000e9)
		for i, s := range c.Series {
			if c.Sizes[i] == 0 {
				continue
			}
			e := expStream{Labels: s.Labels}
			for j := 0; j < c.Sizes[i]; j++ {
				ts++
				msg := fmt.Sprintf("line %d/%d \"q\" \\ \n", i, j)
				rows = append(rows, []driver.Value{s.FP, lbl(s), msg, ts})
				e.TS = append(e.TS, ts)
				e.Msg = append(e.Msg, msg)
			}
			exp = append(exp, e)
		}
	case "streams_internal":
		es := make([]expStream, len(c.Series))
		for i, s := range c.Series {
			es[i].Labels = s.Labels
		}
		ts := int64(1000e9)
		for j := 0; j < c.N; j++ {
			i := j % len(c.Series)
			ts++
			msg := fmt.Sprintf("plain line %d", j)
			rows = append(rows, []driver.Value{c.Series[i].FP, lbl(c.Series[i]), msg, ts})
			es[i].TS = append(es[i].TS, ts)
			es[i].Msg = append(es[i].Msg, "<"+c.Series[i].Labels["n"]+">") // what `| line_format "<{{.n}}>"` makes of every line
		}
		for _, e := range es {
			if len(e.TS) > 0 {
				exp = append(exp, e)
			}
		}
	case "matrix_chain":
		for i, s := range c.Series {
			if c.Sizes[i] == 0 {
				continue
			}
			e := expStream{Labels: s.Labels}
			for j := 0; j < c.Sizes[i]; j++ {
				ts := int64(1000e9) + int64(j)*5e9
				rows = append(rows, []driver.Value{s.FP, lbl(s), float64(j) + 1.5, ts})
				e.TS = append(e.TS, ts)
				e.Val = append(e.Val, float64(j)+1.5)
			}
			exp = append(exp, e)
		}
	}
	return
}

func runDB(c *DBCase) ([]byte, error) {
	rows, _ := c.rows()
	cols := []string{"fingerprint", "labels", "string", "timestamp_ns"}
	if c.Kind == "matrix_chain" {
		cols[2] = "value"
	}
	db := rdfake.NewDB("c15db", func(q string) rdfake.Result {
		if strings.Contains(q, "SHOW TABLES") || strings.Contains(q, "argMax(name, inserted_at)") {
			return versionHandler(q)
		}
		return rdfake.Result{Cols: cols, Rows: rows}
	})
	defer db.Close()
	qrService() // registers the (inert for these queries) script plugin exactly once
	svc := service.NewQueryRangeService(&model.ServiceData{Session: rdfake.NewRegistry(db, "")})
	ch, err := svc.QueryRange(context.Background(), c.Query, 1000e9, 1100e9, 5000, c.Limit, true)
	if err != nil {
		return nil, err
	}
	return collect(ch), nil
}

// checkDB: same document oracle; for the in-process pipeline the order of stream objects is not promised
// (map iteration in ResponseOptimizerPlanner), so streams are matched by label set; for the metric pipeline only
// "one object per series that has rows, with its labels" is demanded (the values are C08's business).
func checkDB(c *DBCase, body []byte) *Bad {
	if b := rawUTF8("db_"+c.Kind, body); b != nil {
		return b
	}
	doc, err := parseOne(body)
	if err != nil {
		return bad("db_"+c.Kind+fp0Tag(c)+"_not_json", "body is not one JSON value (%v): %s", err, snippet(body))
	}
	_, exp := c.rows()
	switch c.Kind {
	case "streams_final":
		res, b := envelope(doc, "streams")
		if b == nil {
			b = checkStreams(res, exp, "stream")
		}
		if b != nil {
			b.Class = "db_streams_final" + fp0Tag(c) + "_" + b.Class
		}
		return b
	case "streams_internal":
		res, b := envelope(doc, "streams")
		if b != nil {
			return b
		}
		byLabels := map[string][]any{}
		for i, x := range res {
			o, ok := asObj(x, "stream", "values")
			if !ok {
				return bad("db_streams_internal_shape_stream_object", "result[%d] is not {stream,values}", i)
			}
			l, ok := asStrMap(o["stream"])
			if !ok {
				return bad("db_streams_internal_shape_stream_labels", "result[%d].stream is not a string map", i)
			}
			byLabels[labelsKey(l)] = append(byLabels[labelsKey(l)], x)
		}
		for _, e := range exp {
			objs := byLabels[labelsKey(jsonLabels(e.Labels))]
			if len(objs) > 1 {
				if c.N > 3000 {
					return bad("db_streams_internal_stream_split_by_3000_entry_flush", "stream %v has %d objects in one response of %d rows (ResponseOptimizerPlanner flushes its per-fingerprint groups every 3000 entries; the encoder opens a new object per group)", e.Labels, len(objs), c.N)
				}
				return bad("db_streams_internal_stream_object_count", "stream %v has %d objects", e.Labels, len(objs))
			}
			if len(objs) == 0 {
				return bad("db_streams_internal_stream_missing", "stream %v has no object", e.Labels)
			}
			if b := checkStreams(objs, []expStream{e}, "stream"); b != nil {
				b.Class = "db_streams_internal_" + b.Class
				return b
			}
		}
		if len(byLabels) != len(exp) {
			return bad("db_streams_internal_stream_object_count", "%d distinct streams in the body, %d scripted", len(byLabels), len(exp))
		}
		return nil
	case "matrix_chain":
		res, b := envelope(doc, "matrix")
		if b != nil {
			return b
		}
		seen := map[string]int{}
		for i, x := range res {
			o, ok := asObj(x, "metric", "values")
			if !ok {
				return bad("db_matrix_chain_shape_series_object", "result[%d] is not {metric,values}", i)
			}
			l, ok := asStrMap(o["metric"])
			if !ok {
				return bad("db_matrix_chain_shape_series_labels", "result[%d].metric is not a string map", i)
			}
			vals, ok := asArr(o["values"])
			if !ok || len(vals) == 0 {
				return bad("db_matrix_chain_shape_values", "result[%d].values is not a non-empty array", i)
			}
			seen[labelsKey(l)]++
		}
		for i, e := range exp {
			n := seen[labelsKey(jsonLabels(e.Labels))]
			if n == 0 {
				if i == 0 && c.Series[0].FP == 0 && c.Sizes[0] > 0 {
					return bad("db_matrix_chain_fp0_first_series_missing", "series %v (fingerprint 0, first in ORDER BY fingerprint) returned %d rows and has no object in the body (FixPeriodPlanner starts with fingerprint 0 and no value buffer)", e.Labels, len(e.TS))
				}
				return bad("db_matrix_chain_series_missing", "series %v returned %d rows and has no object in the body", e.Labels, len(e.TS))
			}
			if n > 1 {
				return bad("db_matrix_chain_series_object_count", "series %v has %d objects", e.Labels, n)
			}
		}
		if len(seen) != len(exp) {
			return bad("db_matrix_chain_series_object_count", "%d series in the body, %d scripted", len(seen), len(exp))
		}
		return nil
	}
	return bad("harness", "unknown kind")
}

func fp0Tag(c *DBCase) string {
	for i, s := range c.Series {
		if len(c.Sizes) > i && c.Sizes[i] > 0 {
			if s.FP == 0 {
				return "_fp0_first"
			}
			return ""
		}
	}
	return ""
}

func dbCases(thorough bool) []*DBCase {
	var out []*DBCase
	sd := func(fps ...uint64) []SeriesDef {
		var s []SeriesDef
		for i, f := range fps {
			s = append(s, SeriesDef{FP: f, Labels: map[string]string{"a": "b", "n": string(rune('x' + i))}})
		}
		return s
	}
	// final SQL path: sizes around the 100-row Scan batches; batch boundary inside / between series
	for _, fpset := range [][]uint64{{5, 9, 11}, {0, 5, 9}} {
		for _, sizes := range [][]int{{0, 0, 0}, {1, 0, 0}, {1, 1, 1}, {99, 0, 0}, {100, 0, 0}, {101, 0, 0}, {50, 50, 0}, {50, 51, 0}, {99, 1, 1}, {100, 1, 0},
			{1, 100, 1}, {100, 100, 100}, {150, 150, 0}, {200, 1, 0}, {33, 67, 100}, {250, 0, 0}, {1, 199, 1}} {
			out = append(out, &DBCase{Kind: "streams_final", Query: `{a="b"}`, Limit: 5000, Series: sd(fpset...), Sizes: sizes})
		}
	}
	// in-process pipeline with the 3000-entry flush of ResponseOptimizerPlanner
	ns := []int{0, 1, 7, 100, 101, 2999, 3000, 3001, 3100}
	if thorough {
		ns = append(ns, 5999, 6000, 6001, 9050)
	}
	for _, n := range ns {
		for _, k := range []int{1, 2, 3} {
			out = append(out, &DBCase{Kind: "streams_internal", Query: `{a="b"} | line_format "<{{.n}}>"`, Limit: 20000, Series: sd(5, 9, 11)[:k], N: n})
		}
	}
	// metric pipeline (ZeroEaterPlanner + FixPeriodPlanner in front of the matrix encoder)
	for _, fpset := range [][]uint64{{5, 9, 11}, {0, 5, 9}} {
		for _, sizes := range [][]int{{1, 0, 0}, {3, 0, 0}, {1, 1, 1}, {2, 3, 1}, {0, 2, 2}, {10, 10, 0}, {120, 5, 0}} {
			out = append(out, &DBCase{Kind: "matrix_chain", Query: `rate({a="b"}[5s])`, Series: sd(fpset...), Sizes: sizes})
		}
	}
	return out
}

func runDBCases(r *sink, g *gstat, cases []*DBCase) {
	parallel(r, cases, func(c *DBCase) {
		body, err := runDB(c)
		if err != nil {
			ev.Fatal("db %s: service returned an error: %v", c.Kind, err)
		}
		g.add(body)
		debugBody(body)
		r.Distinct_(fmt.Sprintf("db|%s|%v|%v|%d", c.Kind, c.Series, c.Sizes, c.N))
		if b := checkDB(c, body); b != nil {
			r.Outcome(b.Class)
			violate(r, "db", c, b)
		} else {
			r.Outcome("db_" + c.Kind + ":ok")
		}
	})
}
