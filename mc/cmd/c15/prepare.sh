# sourced by bin/check before the build.  Tail renders one document per tick of time.NewTicker(time.Second);
# enumerating tens of thousands of result sets through it needs a shorter period.  An instrumented copy of
# reader/service/queryRangeService.go with ONLY that literal replaced is added to the build overlay
# (the repository file itself is never touched).  If the literal is not found exactly once the check is a
# harness failure (exit 2), never a verdict.
src="$VERIF_REPO/reader/service/queryRangeService.go"
n=$(grep -c 'ticker := time.NewTicker(time.Second)' "$src")
if [ "$n" != "1" ]; then echo "HARNESS-ERROR: C15 prepare: Tail ticker literal found $n times in $src" >&2; return 1; fi
mkdir -p "$scratch/ov"
sed 's/ticker := time.NewTicker(time.Second)/ticker := time.NewTicker(verifTailTick)/' "$src" > "$scratch/ov/queryRangeService.go"
python3 - "$scratch/overlay.json" "$src" "$scratch/ov/queryRangeService.go" <<'PY'
import json,sys
p,src,dst=sys.argv[1:4]
o=json.load(open(p)); o["Replace"][src]=dst; json.dump(o,open(p,"w"),indent=1)
PY
