package main

import (
	"bytes"
	"encoding/json"
	"runtime"
	"runtime/debug"
	"sort"
	"strconv"
	"strings"
	"sync"
	"unicode/utf8"

	"verif/mc/ev"
)

func allGroups(r *sink) []group {
	// every QueryRange/QueryInstant call parses the query with a freshly built participle parser (1-2 ms and
	// ~850 kB of garbage per call), so the row bound is what the budget allows on a busy machine:
	// quick = every structure up to 4 rows on every endpoint; thorough = up to 6 rows on every endpoint.
	maxRows, maxRowsStreams := 4, 4
	if r.Thorough() {
		maxRows, maxRowsStreams = 6, 6
	}
	r.maxRows = map[string]int{"range_streams": maxRowsStreams, "other_endpoints": maxRows}
	var gs []group
	for _, ep := range []string{"range_streams", "range_matrix", "instant_streams", "instant_vector"} {
		ep := ep
		gs = append(gs, group{"qr_struct_" + ep, func(r *sink, g *gstat) {
			var cases []*QRCase
			n := maxRows
			if ep == "range_streams" {
				n = maxRowsStreams
			}
			structCases(ep, n, func(c *QRCase) { cases = append(cases, c) })
			runQRCases(r, g, cases)
		}})
		gs = append(gs, group{"qr_content_" + ep, func(r *sink, g *gstat) {
			var cases []*QRCase
			contentCases(ep, func(c *QRCase) { cases = append(cases, c) })
			runQRCases(r, g, cases)
		}})
	}
	gs = append(gs, group{"qr_struct_tail", func(r *sink, g *gstat) {
		var cases []*QRCase
		structCases("tail", maxRows, func(c *QRCase) { cases = append(cases, c) })
		runTailCases(r, g, cases)
	}})
	gs = append(gs, group{"qr_content_tail", func(r *sink, g *gstat) {
		var cases []*QRCase
		contentCases("tail", func(c *QRCase) { cases = append(cases, c) })
		runTailCases(r, g, cases)
	}})
	gs = append(gs, group{"qr_history", func(r *sink, g *gstat) { runHistoryCases(r, g, r.Thorough()) }})
	gs = append(gs, group{"qr_overlap", func(r *sink, g *gstat) { runOverlapCases(r, g) }})
	gs = append(gs,
		group{"db_pipeline", func(r *sink, g *gstat) { runDBCases(r, g, dbCases(r.Thorough())) }},
		group{"labels_values_series", func(r *sink, g *gstat) { runLabelCases(r, g, labelCases(r.Thorough())) }},
		group{"tempo", func(r *sink, g *gstat) { runTempoCases(r, g, tempoCases(r.Thorough())) }},
		group{"prom_write_response", func(r *sink, g *gstat) { runPromCases(r, g, promCases()) }},
		group{"pyroscope_select_series", func(r *sink, g *gstat) { runPyroCases(r, g, pyroCases()) }},
		group{"qr_grid_range_matrix", func(r *sink, g *gstat) {
			var cases []*QRCase
			gridCases("range_matrix", func(c *QRCase) { cases = append(cases, c) })
			runQRCases(r, g, cases)
		}},
		group{"qr_grid_instant_vector", func(r *sink, g *gstat) {
			var cases []*QRCase
			gridCases("instant_vector", func(c *QRCase) { cases = append(cases, c) })
			runQRCases(r, g, cases)
		}},
	)
	// cheap groups first: a deadline then cuts the big structure enumerations, not whole endpoints
	sort.SliceStable(gs, func(i, j int) bool { return rank(gs[i].name) < rank(gs[j].name) })
	return gs
}

func rank(name string) int {
	switch {
	case strings.HasPrefix(name, "qr_struct"):
		return 2
	case strings.HasPrefix(name, "qr_content"):
		return 1
	}
	return 0
}

func qrKey(c *QRCase) string {
	b, _ := json.Marshal(c)
	return string(b)
}

func judgeQR(r *sink, g *gstat, c *QRCase, body []byte) {
	g.add(body)
	debugBody(body)
	if !utf8.Valid(body) {
		g.RawU8++
	}
	r.Distinct_(qrKey(c))
	if b := checkQR(c, body); b != nil {
		r.Outcome(b.Class)
		violate(r, "qr", c, b)
	} else {
		r.Outcome(c.Endpoint + ":ok")
	}
}

func runQRCases(r *sink, g *gstat, cases []*QRCase) {
	if len(cases) > 0 {
		r.Sample(cases[len(cases)/2])
	}
	parallel(r, cases, func(c *QRCase) {
		body, err := runQR(c)
		if err != nil {
			ev.Fatal("%s: service returned an error for a scripted case: %v", c.Endpoint, err)
		}
		judgeQR(r, g, c, body)
	})
}

func runTailCases(r *sink, g *gstat, all []*QRCase) {
	// this shard's cases, served by 4 concurrent Tail sessions, one case per tick of each session
	var cases []*QRCase
	for i, c := range all {
		if i%r.nshards == r.shard {
			cases = append(cases, c)
		}
	}
	const sessions = 4
	parts := make([]*tailSession, sessions)
	for i := range parts {
		parts[i] = &tailSession{}
	}
	for i, c := range cases {
		parts[i%sessions].cases = append(parts[i%sessions].cases, c)
	}
	var mu sync.Mutex
	var wg sync.WaitGroup
	for _, t := range parts {
		if len(t.cases) == 0 {
			continue
		}
		wg.Add(1)
		go func(t *tailSession) {
			defer wg.Done()
			if err := t.run(func(c *QRCase, body []byte) {
				mu.Lock()
				judgeQR(r, g, c, body)
				mu.Unlock()
			}); err != nil {
				ev.Fatal("tail: %v", err)
			}
		}(t)
	}
	wg.Wait()
}

func replayCase(r *sink, rp Replay) bool {
	switch rp.Group {
	case "qr":
		var c QRCase
		if err := json.Unmarshal(rp.Case, &c); err != nil {
			ev.Fatal("replay: %v", err)
		}
		c.fix()
		g := &gstat{}
		if c.Endpoint == "tail" {
			runTailCases(r, g, []*QRCase{&c})
		} else {
			runQRCases(r, g, []*QRCase{&c})
		}
		return true
	case "db":
		var c DBCase
		if err := json.Unmarshal(rp.Case, &c); err != nil {
			ev.Fatal("replay: %v", err)
		}
		runDBCases(r, &gstat{}, []*DBCase{&c})
		return true
	case "labels":
		var c LabelCase
		if err := json.Unmarshal(rp.Case, &c); err != nil {
			ev.Fatal("replay: %v", err)
		}
		runLabelCases(r, &gstat{}, []*LabelCase{&c})
		return true
	case "tempo":
		var c TempoCase
		if err := json.Unmarshal(rp.Case, &c); err != nil {
			ev.Fatal("replay: %v", err)
		}
		runTempoCases(r, &gstat{}, []*TempoCase{&c})
		return true
	case "hist":
		var c HistCase
		if err := json.Unmarshal(rp.Case, &c); err != nil {
			ev.Fatal("replay: %v", err)
		}
		c.A.fix()
		c.B.fix()
		runtime.GOMAXPROCS(1)
		runHistoryPair(r, &gstat{}, &c, true, nil)
		return true
	case "overlap":
		var c OverlapCase
		if err := json.Unmarshal(rp.Case, &c); err != nil {
			ev.Fatal("replay: %v", err)
		}
		c.A.fix()
		c.B1.fix()
		c.B2.fix()
		runtime.GOMAXPROCS(1)
		debug.SetGCPercent(-1)
		runOverlapCase(r, &gstat{}, &c, nil)
		return true
	case "pyro":
		var c PyroCase
		if err := json.Unmarshal(rp.Case, &c); err != nil {
			ev.Fatal("replay: %v", err)
		}
		runPyroCases(r, &gstat{}, []*PyroCase{&c})
		return true
	case "prom":
		var c PromCase
		if err := json.Unmarshal(rp.Case, &c); err != nil {
			ev.Fatal("replay: %v", err)
		}
		runPromCases(r, &gstat{}, []*PromCase{&c})
		return true
	}
	return false
}

// ---- history: request B after a predecessor A in the same process ---------------------------------------------------

// predecessors: one request of every class on each of the two shapes that stream "one object per series".
func predecessors() []*QRCase {
	var out []*QRCase
	for _, ep := range []string{"range_streams", "range_matrix"} {
		mk := func() *QRCase {
			c := &QRCase{Endpoint: ep, EOF: true,
				Series:  []SeriesDef{{FP: 7, Labels: map[string]string{"s": "a"}}, {FP: 11, Labels: map[string]string{"s": "p"}}},
				Rows:    []Row{{S: 0, TS: 1e9, Msg: "p1", Val: 1.5}, {S: 0, TS: 2e9, Msg: "p2", Val: 2.5}, {S: 1, TS: 3e9, Msg: "p3", Val: 3.5}},
				Batches: []int{2, 1}}
			c.fix()
			return c
		}
		ok := mk()
		failFirst := mk()
		failFirst.HasFail, failFirst.FailAfter = true, 0
		failMid := mk()
		failMid.HasFail, failMid.FailAfter = true, 1
		failMid2 := mk()
		failMid2.HasFail, failMid2.FailAfter = true, 3
		gone := mk()
		gone.Abandon = 2
		out = append(out, ok, failFirst, failMid, failMid2, gone)
	}
	return out
}

func predName(a *QRCase) string {
	switch {
	case a.Abandon > 0:
		return a.Endpoint + "_client_gone_after_2_chunks"
	case a.HasFail && a.FailAfter == 0:
		return a.Endpoint + "_failed_before_first_row"
	case a.HasFail:
		return a.Endpoint + "_failed_after_" + strconv.Itoa(a.FailAfter) + "_rows"
	}
	return a.Endpoint + "_successful"
}

type HistCase struct {
	A *QRCase `json:"a"`
	B *QRCase `json:"b"`
}

// runHistoryCases: every structure case B (<= 2 rows quick, <= 3 thorough; 4 endpoints) is sent right after every
// predecessor class A in the same process, with GOMAXPROCS(1) so that a sync.Pool hands A's object over to B.
// Oracle: B's body satisfies the ordinary document oracle AND is byte-identical whatever the predecessor was.
func runHistoryCases(r *sink, g *gstat, thorough bool) {
	runtime.GOMAXPROCS(1)
	n := 2
	if thorough {
		n = 3
	}
	preds := predecessors()
	var bs []*QRCase
	for _, ep := range []string{"range_streams", "range_matrix", "instant_streams", "instant_vector"} {
		structCases(ep, n, func(c *QRCase) { bs = append(bs, c) })
	}
	parallel(r, bs, func(b *QRCase) {
		var ref []byte
		for i, a := range preds {
			runHistoryPair(r, g, &HistCase{A: a, B: b}, i == 0, &ref)
		}
	})
}

func runHistoryPair(r *sink, g *gstat, h *HistCase, first bool, ref *[]byte) {
	if _, err := runQR(h.A); err != nil {
		ev.Fatal("history predecessor: %v", err)
	}
	for i := 0; i < 4; i++ {
		runtime.Gosched() // let the predecessor's encoder goroutine run its deferred calls
	}
	body, err := runQR(h.B)
	if err != nil {
		ev.Fatal("history: %v", err)
	}
	g.add(body)
	debugBody(body)
	k, _ := json.Marshal(h)
	r.Distinct_("hist|" + string(k))
	if b := checkQR(h.B, body); b != nil {
		if !firstFP0(h.B) { // the fingerprint-0 classes are the same defect with or without a predecessor
			b.Class = "after_" + predName(h.A) + "_" + b.Class
			b.What = "request sent after a " + predName(h.A) + " request in the same process: " + b.What
		}
		r.Outcome(b.Class)
		violate(r, "hist", h, b)
		return
	}
	// (instant vectors are written in map order: their bodies are compared by the document oracle only)
	if !first && ref != nil && *ref != nil && h.B.Endpoint != "instant_vector" && !bytes.Equal(*ref, body) {
		b := bad("after_"+predName(h.A)+"_"+h.B.Endpoint+"_body_differs", "body after a %s request differs from the body after a successful one: %s vs %s", predName(h.A), snippet(body), snippet(*ref))
		r.Outcome(b.Class)
		violate(r, "hist", h, b)
		return
	}
	if first && ref != nil {
		*ref = body
	}
	r.Outcome("history:" + h.B.Endpoint + ":ok")
}
