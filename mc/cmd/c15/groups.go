package main

import (
	"encoding/json"
	"sort"
	"strings"
	"unicode/utf8"

	"verif/mc/ev"
)

func allGroups(r *ev.Run) []group {
	// every QueryRange/QueryInstant call parses the query with a freshly built participle parser (~1.3 ms), so
	// the row bound is what the budget allows: quick = all structures up to 4 rows on every endpoint and up to
	// 5 rows on the streams encoder; thorough = up to 5 rows everywhere and 6 on the streams encoder.
	maxRows, maxRowsStreams := 4, 5
	if r.Thorough() {
		maxRows, maxRowsStreams = 5, 6
	}
	r.Extra["max_rows"] = map[string]int{"range_streams": maxRowsStreams, "other_endpoints": maxRows}
	var gs []group
	for _, ep := range []string{"range_streams", "range_matrix", "instant_streams", "instant_vector"} {
		ep := ep
		gs = append(gs, group{"qr_struct_" + ep, func(r *ev.Run, g *gstat) {
			var cases []*QRCase
			n := maxRows
			if ep == "range_streams" {
				n = maxRowsStreams
			}
			structCases(ep, n, func(c *QRCase) { cases = append(cases, c) })
			runQRCases(r, g, cases)
		}})
		gs = append(gs, group{"qr_content_" + ep, func(r *ev.Run, g *gstat) {
			var cases []*QRCase
			contentCases(ep, func(c *QRCase) { cases = append(cases, c) })
			runQRCases(r, g, cases)
		}})
	}
	gs = append(gs, group{"qr_struct_tail", func(r *ev.Run, g *gstat) {
		var cases []*QRCase
		structCases("tail", maxRows, func(c *QRCase) { cases = append(cases, c) })
		runTailCases(r, g, cases)
	}})
	gs = append(gs, group{"qr_content_tail", func(r *ev.Run, g *gstat) {
		var cases []*QRCase
		contentCases("tail", func(c *QRCase) { cases = append(cases, c) })
		runTailCases(r, g, cases)
	}})
	gs = append(gs,
		group{"db_pipeline", func(r *ev.Run, g *gstat) { runDBCases(r, g, dbCases(r.Thorough())) }},
		group{"labels_values_series", func(r *ev.Run, g *gstat) { runLabelCases(r, g, labelCases(r.Thorough())) }},
		group{"tempo", func(r *ev.Run, g *gstat) { runTempoCases(r, g, tempoCases(r.Thorough())) }},
		group{"prom_write_response", func(r *ev.Run, g *gstat) { runPromCases(r, g, promCases()) }},
	)
	// cheap groups first: a deadline then cuts the big structure enumerations, not whole endpoints
	sort.SliceStable(gs, func(i, j int) bool { return rank(gs[i].name) < rank(gs[j].name) })
	return gs
}

func rank(name string) int {
	switch {
	case strings.HasPrefix(name, "qr_struct"):
		return 2
	case strings.HasPrefix(name, "qr_content"):
		return 1
	}
	return 0
}

func qrKey(c *QRCase) string {
	b, _ := json.Marshal(struct {
		E string
		S []SeriesDef
		B []int
		F bool
		N int
	}{c.Endpoint, c.Series, c.Batches, c.EOF, len(c.Rows)})
	return string(b)
}

func judgeQR(r *ev.Run, g *gstat, c *QRCase, body []byte) {
	g.add(body)
	if !utf8.Valid(body) {
		g.rawU8++
	}
	r.Distinct(qrKey(c))
	if b := checkQR(c, body); b != nil {
		r.Outcome(b.Class)
		violate(r, "qr", c, b)
	} else {
		r.Outcome(c.Endpoint + ":ok")
	}
}

func runQRCases(r *ev.Run, g *gstat, cases []*QRCase) {
	if len(cases) > 0 {
		r.Sample(cases[len(cases)/2])
	}
	parallel(cases, func(c *QRCase) {
		body, err := runQR(c)
		if err != nil {
			ev.Fatal("%s: service returned an error for a scripted case: %v", c.Endpoint, err)
		}
		judgeQR(r, g, c, body)
	})
}

func runTailCases(r *ev.Run, g *gstat, cases []*QRCase) {
	// 32 concurrent Tail sessions, each serving its slice of the cases one per tick
	const sessions = 32
	parts := make([]*tailSession, sessions)
	for i := range parts {
		parts[i] = &tailSession{}
	}
	for i, c := range cases {
		parts[i%sessions].cases = append(parts[i%sessions].cases, c)
	}
	parallel(parts, func(t *tailSession) {
		if len(t.cases) == 0 {
			return
		}
		if err := t.run(func(c *QRCase, body []byte) { judgeQR(r, g, c, body) }); err != nil {
			ev.Fatal("tail: %v", err)
		}
	})
}

func replayCase(r *ev.Run, rp Replay) bool {
	switch rp.Group {
	case "qr":
		var c QRCase
		if err := json.Unmarshal(rp.Case, &c); err != nil {
			ev.Fatal("replay: %v", err)
		}
		c.fix()
		g := &gstat{}
		if c.Endpoint == "tail" {
			runTailCases(r, g, []*QRCase{&c})
		} else {
			runQRCases(r, g, []*QRCase{&c})
		}
		return true
	case "db":
		var c DBCase
		if err := json.Unmarshal(rp.Case, &c); err != nil {
			ev.Fatal("replay: %v", err)
		}
		runDBCases(r, &gstat{}, []*DBCase{&c})
		return true
	case "labels":
		var c LabelCase
		if err := json.Unmarshal(rp.Case, &c); err != nil {
			ev.Fatal("replay: %v", err)
		}
		runLabelCases(r, &gstat{}, []*LabelCase{&c})
		return true
	case "tempo":
		var c TempoCase
		if err := json.Unmarshal(rp.Case, &c); err != nil {
			ev.Fatal("replay: %v", err)
		}
		runTempoCases(r, &gstat{}, []*TempoCase{&c})
		return true
	case "prom":
		var c PromCase
		if err := json.Unmarshal(rp.Case, &c); err != nil {
			ev.Fatal("replay: %v", err)
		}
		runPromCases(r, &gstat{}, []*PromCase{&c})
		return true
	}
	return false
}
