package main

// Group A: the streaming encoders of QueryRangeService (QueryRange streams/matrix, QueryInstant streams/vector,
// Tail) fed with scripted channel batches through the repository's own LogQL planner plugin seam
// (plugins.RegisterLogQLPlannerPlugin): the plugin returns a RequestProcessor whose Process hands out the
// scripted []LogEntry batches, exactly what ClickhouseGetterPlanner / the in-process pipeline would send.

import (
	"context"
	"database/sql/driver"
	"errors"
	"fmt"
	"io"
	"strconv"
	"strings"
	"sync"
	"time"

	"github.com/metrico/qryn/reader/logql/logql_parser"
	"github.com/metrico/qryn/reader/logql/logql_transpiler_v2/shared"
	"github.com/metrico/qryn/reader/model"
	"github.com/metrico/qryn/reader/plugins"
	"github.com/metrico/qryn/reader/service"

	"verif/mc/rdfake"
)

type SeriesDef struct {
	FP     uint64            `json:"fp"`
	Labels map[string]string `json:"labels"`
}

type Row struct {
	S   int     `json:"s"` // index into Series
	TS  int64   `json:"ts"`
	Msg string  `json:"msg"`
	Val float64 `json:"-"`
	// Val travels as its bit pattern in replay files (NaN/Inf are not JSON)
	ValBits uint64 `json:"val_bits"`
}

// QRCase is one scripted result set for one endpoint.
type QRCase struct {
	Endpoint string      `json:"endpoint"` // range_streams | range_matrix | instant_streams | instant_vector | tail
	Series   []SeriesDef `json:"series"`
	Rows     []Row       `json:"rows"`
	Batches  []int       `json:"batches"` // sizes of the channel batches in order; 0 = empty batch; sum = len(Rows)
	EOF      bool        `json:"eof"`     // the last batch ends with the {Err: io.EOF} sentinel entry, as Scan sends it
	// predecessors only (history group): FailAfter >= 0 puts an entry with a real error after that many rows
	// (0 = before the first row); Abandon > 0: the client stops reading after that many chunks and goes away
	FailAfter int  `json:"fail_after,omitempty"`
	Abandon   int  `json:"abandon,omitempty"`
	HasFail   bool `json:"has_fail,omitempty"`
}

func (c *QRCase) fix() {
	for i := range c.Rows {
		if c.Rows[i].ValBits != 0 && c.Rows[i].Val == 0 {
			c.Rows[i].Val = float64frombits(c.Rows[i].ValBits)
		} else {
			c.Rows[i].ValBits = float64bits(c.Rows[i].Val)
		}
	}
}

// fixBits: like fix, for cases built from Go values (a zero value with ValBits 0 is +0, never a decoding artefact).
func (c *QRCase) fixBits() {
	for i := range c.Rows {
		c.Rows[i].ValBits = float64bits(c.Rows[i].Val)
	}
}

func (c *QRCase) batches() [][]shared.LogEntry {
	var out [][]shared.LogEntry
	i := 0
	for _, n := range c.Batches {
		b := make([]shared.LogEntry, 0, n+1)
		for j := 0; j < n; j++ {
			if c.HasFail && i == c.FailAfter {
				b = append(b, shared.LogEntry{Err: errScripted})
			}
			r := c.Rows[i]
			s := c.Series[r.S]
			lbl := make(map[string]string, len(s.Labels))
			for k, v := range s.Labels {
				lbl[k] = v
			}
			b = append(b, shared.LogEntry{TimestampNS: r.TS, Fingerprint: s.FP, Labels: lbl, Message: r.Msg, Value: r.Val})
			i++
		}
		out = append(out, b)
	}
	if c.HasFail && c.FailAfter >= len(c.Rows) {
		out = append(out, []shared.LogEntry{{Err: errScripted}})
	}
	if c.EOF {
		if len(out) == 0 {
			out = append(out, nil)
		}
		out[len(out)-1] = append(out[len(out)-1], shared.LogEntry{Err: io.EOF})
	}
	return out
}

var errScripted = errors.New("scripted database error")

// expected groups the rows by series in order of appearance (rows of one series are contiguous by construction).
func (c *QRCase) expected() []expStream {
	var out []expStream
	last := -1
	for _, r := range c.Rows {
		if r.S != last {
			out = append(out, expStream{Labels: c.Series[r.S].Labels})
			last = r.S
		}
		e := &out[len(out)-1]
		e.TS = append(e.TS, r.TS)
		e.Msg = append(e.Msg, r.Msg)
		e.Val = append(e.Val, r.Val)
	}
	return out
}

// ---- the plugin ------------------------------------------------------------------------------------------------------

type scriptedProc struct {
	matrix bool
	mu     sync.Mutex
	next   func() [][]shared.LogEntry // batches for the next Process call
}

func (s *scriptedProc) IsMatrix() bool { return s.matrix }
func (s *scriptedProc) Process(ctx *shared.PlannerContext, in chan []shared.LogEntry) (chan []shared.LogEntry, error) {
	s.mu.Lock()
	bs := s.next()
	s.mu.Unlock()
	ch := make(chan []shared.LogEntry)
	go func() {
		defer close(ch)
		for _, b := range bs {
			ch <- b
		}
	}()
	return ch, nil
}

type scriptPlugin struct{}

var scripts sync.Map // case id -> *scriptedProc

const scriptLabel = "verif_case"

func (scriptPlugin) Plan(script *logql_parser.LogQLScript) (shared.RequestProcessorChain, error) {
	if script.StrSelector == nil || len(script.StrSelector.StrSelCmds) != 1 || script.StrSelector.StrSelCmds[0].Label.Name != scriptLabel {
		return nil, fmt.Errorf("not a scripted query")
	}
	id, err := script.StrSelector.StrSelCmds[0].Val.Unquote()
	if err != nil {
		return nil, err
	}
	p, ok := scripts.Load(id)
	if !ok {
		return nil, fmt.Errorf("no script %s", id)
	}
	return shared.RequestProcessorChain{p.(shared.RequestProcessor)}, nil
}

var (
	qrOnce sync.Once
	qrSvc  *service.QueryRangeService
	qrSeq  int64
	qrMu   sync.Mutex
)

// versionHandler answers the two statements of dbVersion.GetVersionInfo; anything else gets no rows.
func versionHandler(q string) rdfake.Result {
	switch {
	case strings.Contains(q, "SHOW TABLES"):
		return rdfake.Result{Cols: []string{"name"}, Rows: [][]driver.Value{{"samples_v3"}, {"time_series"}}}
	case strings.Contains(q, "argMax(name, inserted_at)"):
		return rdfake.Result{Cols: []string{"_name", "_value"}, Rows: [][]driver.Value{{"v3", "0"}, {"v5", "0"}}}
	}
	return rdfake.Result{Cols: []string{"x"}}
}

func qrService() *service.QueryRangeService {
	qrOnce.Do(func() {
		plugins.RegisterLogQLPlannerPlugin("verif-script", scriptPlugin{})
		db := rdfake.NewDB("c15qr", versionHandler)
		qrSvc = service.NewQueryRangeService(&model.ServiceData{Session: rdfake.NewRegistry(db, "")})
	})
	return qrSvc
}

func newScript(p *scriptedProc) (id, query string) { return newScriptAny(p) }

func newScriptAny(p shared.RequestProcessor) (id, query string) {
	qrMu.Lock()
	qrSeq++
	id = strconv.FormatInt(qrSeq, 10)
	qrMu.Unlock()
	scripts.Store(id, p)
	return id, fmt.Sprintf(`{%s="%s"}`, scriptLabel, id)
}

func collect(ch chan model.QueryRangeOutput) []byte {
	var b []byte
	for o := range ch {
		b = append(b, o.Str...)
	}
	return b
}

// runQR drives one non-tail case through the real service and returns the concatenated chunks.
func runQR(c *QRCase) ([]byte, error) {
	svc := qrService()
	p := &scriptedProc{matrix: c.Endpoint == "range_matrix" || c.Endpoint == "instant_vector"}
	p.next = func() [][]shared.LogEntry { return c.batches() }
	id, q := newScript(p)
	defer scripts.Delete(id)
	var (
		ch  chan model.QueryRangeOutput
		err error
	)
	switch c.Endpoint {
	case "range_streams", "range_matrix":
		ch, err = svc.QueryRange(context.Background(), q, 0, 3600e9, 1000, 100, true)
	case "instant_streams", "instant_vector":
		ch, err = svc.QueryInstant(context.Background(), q, 3600e9, 1000, 100)
	default:
		return nil, fmt.Errorf("unknown endpoint %s", c.Endpoint)
	}
	if err != nil {
		return nil, err
	}
	if c.Abandon > 0 { // the client reads a few chunks and goes away; the encoder goroutine stays blocked on its channel
		var b []byte
		for i := 0; i < c.Abandon; i++ {
			o, ok := <-ch
			if !ok {
				break
			}
			b = append(b, o.Str...)
		}
		return b, nil
	}
	return collect(ch), nil
}

// tailSession is one live Tail watcher serving many cases: the i-th tick of the loop calls Process on the same
// plan again (that is what Tail does) and gets the i-th case's batches; every tick yields one message.
type tailSession struct {
	cases []*QRCase
}

func (t *tailSession) run(onDoc func(c *QRCase, body []byte)) error {
	svc := qrService()
	i := 0
	p := &scriptedProc{}
	p.next = func() [][]shared.LogEntry {
		if i < len(t.cases) {
			c := t.cases[i]
			i++
			return c.batches()
		}
		i++
		return nil
	}
	id, q := newScript(p)
	defer scripts.Delete(id)
	w, err := svc.Tail(context.Background(), q)
	if err != nil {
		return err
	}
	n := 0
	timeout := time.After(60 * time.Second)
	for n < len(t.cases) {
		select {
		case o, ok := <-w.GetRes():
			if !ok {
				return fmt.Errorf("tail channel closed after %d of %d documents", n, len(t.cases))
			}
			onDoc(t.cases[n], []byte(o.Str))
			n++
		case <-timeout:
			return fmt.Errorf("tail produced %d of %d documents in 60s", n, len(t.cases))
		}
	}
	w.Close()
	go func() {
		for range w.GetRes() {
		}
	}()
	return nil
}

// checkQR is the oracle for one case.
func checkQR(c *QRCase, body []byte) *Bad {
	if b := rawUTF8(c.Endpoint, body); b != nil {
		return b
	}
	doc, err := parseOne(body)
	if err != nil {
		return bad(jsonErrClass(c), "%s: body is not one JSON value (%v): %s", c.Endpoint, err, snippet(body))
	}
	exp := c.expected()
	switch c.Endpoint {
	case "range_streams", "instant_streams":
		res, b := envelope(doc, "streams")
		if b != nil {
			return b
		}
		return prefixFP0(c, checkStreams(res, exp, "stream"))
	case "tail":
		top, ok := asObj(doc, "streams")
		if !ok {
			return bad("shape_envelope", "tail message is not {streams}: %.160s", mustJSON(doc))
		}
		res, ok := asArr(top["streams"])
		if !ok {
			return bad("shape_envelope", "tail streams is not an array")
		}
		return prefixFP0(c, checkStreams(res, exp, "stream"))
	case "range_matrix":
		res, b := envelope(doc, "matrix")
		if b != nil {
			return b
		}
		return prefixFP0(c, checkMatrix(res, exp, 1e6))
	case "instant_vector":
		res, b := envelope(doc, "vector")
		if b != nil {
			return b
		}
		return prefixFP0(c, checkVector(res, exp, 1e9))
	}
	return bad("harness", "unknown endpoint")
}

// firstFP0: the first row belongs to a series with fingerprint 0 (the documented trigger of D24).
func firstFP0(c *QRCase) bool { return len(c.Rows) > 0 && c.Series[c.Rows[0].S].FP == 0 }

func jsonErrClass(c *QRCase) string {
	if firstFP0(c) {
		return c.Endpoint + "_fp0_first_not_json"
	}
	return c.Endpoint + "_not_json"
}

// prefixFP0 attributes a shape/content disagreement to the "first series has fingerprint 0" explanation only
// when that is the case of the input; every other input keeps the plain class.
func prefixFP0(c *QRCase, b *Bad) *Bad {
	if b == nil {
		return nil
	}
	if firstFP0(c) {
		b.Class = c.Endpoint + "_fp0_first_" + b.Class
	} else {
		b.Class = c.Endpoint + "_" + b.Class
	}
	return b
}
