package main

// Group C: /labels, /label/<name>/values, /series of QueryLabelsService, rows scripted at the database seam.

import (
	"context"
	"database/sql/driver"
	"fmt"
	"strings"

	"github.com/metrico/qryn/reader/model"
	"github.com/metrico/qryn/reader/service"
	wunmarshal "github.com/metrico/qryn/writer/utils/unmarshal"

	"verif/mc/ev"
	"verif/mc/rdfake"
)

type LabelCase struct {
	Endpoint string       `json:"endpoint"` // labels | values | series
	Rows     []string     `json:"rows,omitempty"`
	Sets     [][][]string `json:"sets,omitempty"` // series: label sets (name,value pairs) as pushed to the writer
}

func runLabels(c *LabelCase) ([]byte, [][][]string, error) {
	var rows [][]driver.Value
	var stored [][][]string
	if c.Endpoint == "series" {
		for _, set := range c.Sets {
			cp := make([][]string, len(set))
			for i, p := range set {
				cp[i] = []string{p[0], p[1]}
			}
			// the document the real writer stores in time_series.labels for this label set
			doc := wunmarshal.VerifEncodeLabels(cp)
			stored = append(stored, cp) // cp now holds the sanitised names / truncated values the writer kept
			rows = append(rows, []driver.Value{doc})
		}
	} else {
		for _, s := range c.Rows {
			rows = append(rows, []driver.Value{s})
		}
	}
	db := rdfake.NewDB("c15lbl", func(q string) rdfake.Result {
		if strings.Contains(q, "SHOW TABLES") || strings.Contains(q, "argMax(name, inserted_at)") {
			return versionHandler(q)
		}
		return rdfake.Result{Cols: []string{"v"}, Rows: rows}
	})
	defer db.Close()
	svc := service.NewQueryLabelsService(&model.ServiceData{Session: rdfake.NewRegistry(db, "")})
	var (
		ch  chan string
		err error
	)
	switch c.Endpoint {
	case "labels":
		ch, err = svc.Labels(context.Background(), 1000e3, 1100e3, 1)
	case "values":
		ch, err = svc.Values(context.Background(), "job", nil, 1000e3, 1100e3, 1)
	case "series":
		ch, err = svc.Series(context.Background(), []string{`{a="b"}`}, 1000e3, 1100e3, 1)
	}
	if err != nil {
		return nil, nil, err
	}
	var b []byte
	for s := range ch {
		b = append(b, s...)
	}
	return b, stored, nil
}

func checkLabels(c *LabelCase, body []byte, stored [][][]string) *Bad {
	if b := rawUTF8(c.Endpoint, body); b != nil {
		return b
	}
	doc, err := parseOne(body)
	if err != nil {
		if c.Endpoint == "series" {
			return bad("series_label_document_not_json", "/series body is not one JSON value (%v): the stored label document is copied verbatim and the writer built it with strconv.Quote: %s", err, snippet(body))
		}
		return bad(c.Endpoint+"_not_json", "body is not one JSON value (%v): %s", err, snippet(body))
	}
	top, ok := asObj(doc, "status", "data")
	if !ok || top["status"] != "success" {
		return bad(c.Endpoint+"_shape_envelope", "not {status:success,data}: %.160s", mustJSON(doc))
	}
	data, ok := asArr(top["data"])
	if !ok {
		return bad(c.Endpoint+"_shape_envelope", "data is not an array")
	}
	if c.Endpoint != "series" {
		if len(data) != len(c.Rows) {
			return bad(c.Endpoint+"_row_count", "%d elements for %d rows", len(data), len(c.Rows))
		}
		for i, x := range data {
			s, ok := x.(string)
			if !ok {
				return bad(c.Endpoint+"_shape_element", "data[%d] is not a string", i)
			}
			if s != jsonString(c.Rows[i]) {
				return bad(c.Endpoint+"_string_differs", "row %q came back as %q", c.Rows[i], s)
			}
		}
		return nil
	}
	if len(data) != len(stored) {
		return bad("series_row_count", "%d elements for %d series", len(data), len(stored))
	}
	for i, x := range data {
		m, ok := asStrMap(x)
		if !ok {
			return bad("series_shape_element", "data[%d] is not a string map: %.120s", i, mustJSON(x))
		}
		want := map[string]string{}
		for _, p := range stored[i] {
			want[p[0]] = p[1]
		}
		if !sameLabels(m, jsonLabels(want)) {
			return bad("series_labels_differ", "series %v came back as %v", want, m)
		}
	}
	return nil
}

func labelCases(thorough bool) []*LabelCase {
	var out []*LabelCase
	// every sequence of <= 2 (thorough 3) hostile strings as the rows of /labels and /values
	maxLen := 2
	if thorough {
		maxLen = 3
	}
	var rec func(cur []string)
	rec = func(cur []string) {
		for _, ep := range []string{"labels", "values"} {
			out = append(out, &LabelCase{Endpoint: ep, Rows: append([]string(nil), cur...)})
		}
		if len(cur) == maxLen {
			return
		}
		for _, h := range hostile {
			rec(append(cur, h))
		}
	}
	rec(nil)
	// /series: label documents produced by the real writer encoder; one and two series per response,
	// every hostile value, alone and next to a plain label, hostile names too (the writer sanitises names)
	for _, h := range hostile {
		out = append(out,
			&LabelCase{Endpoint: "series", Sets: [][][]string{{{"a", h}}}},
			&LabelCase{Endpoint: "series", Sets: [][][]string{{{"a", "b"}, {"c", h}}, {{"a", "b"}}}},
			&LabelCase{Endpoint: "series", Sets: [][][]string{{{h, "v"}, {"job", "x"}}}},
		)
	}
	for _, h1 := range hostile {
		for _, h2 := range hostile {
			out = append(out, &LabelCase{Endpoint: "series", Sets: [][][]string{{{"a", h1}}, {{"a", h2}}}})
		}
	}
	out = append(out, &LabelCase{Endpoint: "series", Sets: nil}, &LabelCase{Endpoint: "series", Sets: [][][]string{{}}},
		&LabelCase{Endpoint: "series", Sets: [][][]string{{{"a", strings.Repeat("é", 60)}}}}) // 120 bytes: truncated at byte 100
	return out
}

func runLabelCases(r *sink, g *gstat, cases []*LabelCase) {
	parallel(r, cases, func(c *LabelCase) {
		body, stored, err := runLabels(c)
		if err != nil {
			ev.Fatal("labels %s: service returned an error: %v", c.Endpoint, err)
		}
		g.add(body)
		debugBody(body)
		r.Distinct_(fmt.Sprintf("lbl|%s|%q|%q", c.Endpoint, c.Rows, c.Sets))
		if b := checkLabels(c, body, stored); b != nil {
			r.Outcome(b.Class)
			violate(r, "labels", c, b)
		} else {
			r.Outcome(c.Endpoint + ":ok")
		}
	})
}
