//go:build verif

package service

import "time"

// verifTailTick replaces the one-second period of the Tail loop in the instrumented copy of
// queryRangeService.go (see mc/cmd/c15/prepare.sh); nothing else of that file is changed.
var verifTailTick = time.Millisecond
