//go:build verif

package controllerv1

import (
	"net/http"

	"github.com/prometheus/prometheus/promql"
)

// VerifWriteResponse exposes the Prometheus response encoder used by /api/v1/query and /api/v1/query_range.
func VerifWriteResponse(res *promql.Result, w http.ResponseWriter) error {
	return writeResponse(res, w)
}
