//go:build verif

package unmarshal

// VerifEncodeLabels is the label document the writer stores in time_series.labels for a label set
// (sanitizeLabels + encodeLabels, as every ingest decoder applies them).
func VerifEncodeLabels(lbls [][]string) string { return encodeLabels(sanitizeLabels(lbls)) }
