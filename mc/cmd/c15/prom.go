package main

// Group E: the Prometheus API encoder (controller writeResponse: matrix, vector, scalar, string results).

import (
	"encoding/json"
	"fmt"
	"math"
	"net/http/httptest"

	controllerv1 "github.com/metrico/qryn/reader/controller"
	"github.com/prometheus/prometheus/model/labels"
	"github.com/prometheus/prometheus/promql"

	"verif/mc/ev"
)

type PromCase struct {
	Type   string      `json:"type"` // matrix | vector | scalar | string
	Series []SeriesDef `json:"series,omitempty"`
	Sizes  []int       `json:"sizes,omitempty"` // points per series (matrix)
	TMs    int64       `json:"t_ms"`
	VBits  uint64      `json:"v_bits"`
	Str    string      `json:"str,omitempty"`
}

func (c *PromCase) lbls(i int) labels.Labels { return labels.FromMap(c.Series[i].Labels) }

func (c *PromCase) result() *promql.Result {
	v := math.Float64frombits(c.VBits)
	switch c.Type {
	case "matrix":
		m := promql.Matrix{}
		for i := range c.Series {
			s := promql.Series{Metric: c.lbls(i)}
			for j := 0; j < c.Sizes[i]; j++ {
				s.Points = append(s.Points, promql.Point{T: c.TMs + int64(j)*15000, V: v})
			}
			m = append(m, s)
		}
		return &promql.Result{Value: m}
	case "vector":
		vec := promql.Vector{}
		for i := range c.Series {
			vec = append(vec, promql.Sample{Point: promql.Point{T: c.TMs, V: v}, Metric: c.lbls(i)})
		}
		return &promql.Result{Value: vec}
	case "scalar":
		return &promql.Result{Value: promql.Scalar{T: c.TMs, V: v}}
	}
	return &promql.Result{Value: promql.String{T: c.TMs, V: c.Str}}
}

func runProm(c *PromCase) ([]byte, error) {
	rec := httptest.NewRecorder()
	err := controllerv1.VerifWriteResponse(c.result(), rec)
	return rec.Body.Bytes(), err
}

func checkProm(c *PromCase, body []byte) *Bad {
	if b := rawUTF8("prom_"+c.Type, body); b != nil {
		return b
	}
	p := "prom_" + c.Type
	v := math.Float64frombits(c.VBits)
	doc, err := parseOne(body)
	if err != nil {
		return bad(p+"_not_json", "body is not one JSON value (%v): %s", err, snippet(body))
	}
	res, b := envelope(doc, c.Type)
	if b != nil {
		b.Class = p + "_" + b.Class
		return b
	}
	tsNS := c.TMs * 1e6
	switch c.Type {
	case "matrix":
		var exp []expStream
		for i, s := range c.Series {
			e := expStream{Labels: s.Labels}
			for j := 0; j < c.Sizes[i]; j++ {
				e.TS = append(e.TS, tsNS+int64(j)*15e9)
				e.Val = append(e.Val, v)
			}
			exp = append(exp, e)
		}
		if b := checkMatrix(res, exp, 1e6); b != nil {
			b.Class = p + "_" + b.Class
			return b
		}
	case "vector":
		// promql vectors are ordered; one object per sample
		if len(res) != len(c.Series) {
			return bad(p+"_series_object_count", "%d objects for %d samples", len(res), len(c.Series))
		}
		for i, x := range res {
			o, ok := asObj(x, "metric", "value")
			if !ok {
				return bad(p+"_shape_sample_object", "result[%d] is not {metric,value}: %.120s", i, mustJSON(x))
			}
			l, ok := asStrMap(o["metric"])
			if !ok || !sameLabels(l, jsonLabels(c.Series[i].Labels)) {
				return bad(p+"_series_labels_differ", "result[%d].metric=%v want %v", i, o["metric"], c.Series[i].Labels)
			}
			if b := checkSample(o["value"], tsNS, v, 1e6); b != nil {
				b.Class = p + "_" + b.Class
				return b
			}
		}
	case "scalar":
		// Prometheus: "result": [ <unix_time>, "<scalar_value>" ]
		if b := checkSample(any(res), tsNS, v, 1e6); b != nil {
			b.Class = p + "_" + b.Class
			return b
		}
	case "string":
		// Prometheus: "result": [ <unix_time>, "<string_value>" ]
		if len(res) != 2 {
			return bad(p+"_result_missing", "string result %q rendered as %.80s (Prometheus: [<unix_time>, \"<string>\"]; writeResponse has no case for promql.String)", c.Str, mustJSON(res))
		}
		n, ok1 := res[0].(json.Number)
		s, ok2 := res[1].(string)
		if !ok1 || !ok2 || !tsSecondsOK(n, tsNS, 1e6) || s != jsonString(c.Str) {
			return bad(p+"_string_differs", "string result %q at %d ms rendered as %.80s", c.Str, c.TMs, mustJSON(res))
		}
	}
	return nil
}

func promCases() []*PromCase {
	var out []*PromCase
	tms := []int64{0, 1, 1700000000123, 9007199254740, math.MaxInt64/1000000 - 100000}
	lb := func(k, v string) map[string]string { return map[string]string{"__name__": "up", k: v} }
	// structure: 0..3 series x 0..3 points
	for k := 0; k <= 3; k++ {
		var series []SeriesDef
		for i := 0; i < k; i++ {
			series = append(series, SeriesDef{Labels: lb("i", string(rune('a'+i)))})
		}
		var rec func(sizes []int)
		rec = func(sizes []int) {
			if len(sizes) == k {
				out = append(out, &PromCase{Type: "matrix", Series: series, Sizes: append([]int(nil), sizes...), TMs: 1700000000123, VBits: math.Float64bits(1.5)})
				return
			}
			for n := 0; n <= 3; n++ {
				rec(append(sizes, n))
			}
		}
		rec(nil)
		out = append(out, &PromCase{Type: "vector", Series: series, TMs: 1700000000123, VBits: math.Float64bits(1.5)})
	}
	// content: hostile label names / values; floats x timestamps
	for _, h := range hostile {
		for _, tp := range []string{"matrix", "vector"} {
			out = append(out,
				&PromCase{Type: tp, Series: []SeriesDef{{Labels: lb("k", h)}, {Labels: lb(h, "v")}}, Sizes: []int{2, 1}, TMs: 1000, VBits: math.Float64bits(1)},
			)
		}
		out = append(out, &PromCase{Type: "string", TMs: 1700000000123, Str: h})
	}
	for _, f := range floatGrid { // the whole grid at one timestamp (the 16 extremes x 5 timestamps follow)
		for _, tp := range []string{"matrix", "vector", "scalar"} {
			out = append(out, &PromCase{Type: tp, Series: []SeriesDef{{Labels: lb("k", "v")}}, Sizes: []int{2}, TMs: 1700000000123, VBits: math.Float64bits(f)})
		}
	}
	for _, f := range floats {
		for _, t := range tms {
			for _, tp := range []string{"matrix", "vector", "scalar"} {
				out = append(out, &PromCase{Type: tp, Series: []SeriesDef{{Labels: lb("k", "v")}}, Sizes: []int{2}, TMs: t, VBits: math.Float64bits(f)})
			}
		}
	}
	return out
}

func runPromCases(r *sink, g *gstat, cases []*PromCase) {
	parallel(r, cases, func(c *PromCase) {
		body, err := runProm(c)
		if err != nil {
			ev.Fatal("prom: writeResponse returned %v", err)
		}
		g.add(body)
		debugBody(body)
		k, _ := json.Marshal(c)
		r.Distinct_("prom|" + string(k))
		if b := checkProm(c, body); b != nil {
			r.Outcome(b.Class)
			violate(r, "prom", c, b)
		} else {
			r.Outcome("prom_" + c.Type + ":ok")
		}
	})
}

var _ = fmt.Sprint
