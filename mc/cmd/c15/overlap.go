package main

// Group qr_overlap: histories of depth 3 whose last two members OVERLAP.  A predecessor A (successful / failed /
// abandoned, as in qr_history) runs to its end; then two requests B1 and B2 run in the same GOMAXPROCS(1) process under
// a scripted schedule: the harness itself hands every channel batch to the encoder (the plugin's Process returns a
// channel only the harness writes to), so a request can be held "blocked waiting for its next database batch" while
// the other one starts, receives batches or finishes.  Every merge of the two event sequences
// (start, batch…, close) in which the requests overlap is enumerated.  Oracle: each of the two bodies is one
// well-formed document holding exactly its own rows (checkQR) and is byte-identical to the body of the same
// request sent alone.

import (
	"bytes"
	"context"
	"encoding/json"
	"runtime"
	"runtime/debug"

	"github.com/metrico/qryn/reader/logql/logql_transpiler_v2/shared"
	"github.com/metrico/qryn/reader/model"

	"verif/mc/ev"
)

// gatedProc hands out a channel that only the harness feeds.
type gatedProc struct {
	matrix bool
	ch     chan []shared.LogEntry
}

func (g *gatedProc) IsMatrix() bool { return g.matrix }
func (g *gatedProc) Process(ctx *shared.PlannerContext, in chan []shared.LogEntry) (chan []shared.LogEntry, error) {
	g.ch = make(chan []shared.LogEntry)
	return g.ch, nil
}

// quiesce lets every other goroutine of the (single-P) process run until it blocks: the yielding goroutine goes to
// the global run queue, which the scheduler looks at only when the local queue is empty (or every 61st tick).
func quiesce() {
	for i := 0; i < 48; i++ {
		runtime.Gosched()
	}
}

type liveReq struct {
	c       *QRCase
	p       *gatedProc
	id      string
	batches [][]shared.LogEntry
	next    int
	body    []byte
	done    chan struct{}
}

func startGated(c *QRCase) *liveReq {
	svc := qrService()
	l := &liveReq{c: c, batches: c.batches(), done: make(chan struct{})}
	l.p = &gatedProc{matrix: c.Endpoint == "range_matrix" || c.Endpoint == "instant_vector"}
	var q string
	l.id, q = newScriptAny(l.p)
	var (
		ch  chan model.QueryRangeOutput
		err error
	)
	switch c.Endpoint {
	case "range_streams", "range_matrix":
		ch, err = svc.QueryRange(context.Background(), q, 0, 3600e9, 1000, 100, true)
	default:
		ch, err = svc.QueryInstant(context.Background(), q, 3600e9, 1000, 100)
	}
	if err != nil {
		ev.Fatal("overlap: %s: %v", c.Endpoint, err)
	}
	go func() { // the client: reads chunk after chunk
		defer close(l.done)
		for o := range ch {
			l.body = append(l.body, o.Str...)
		}
	}()
	return l
}

// step: 'D' hands the next batch to the encoder, 'C' closes the row channel.
func (l *liveReq) step(what byte) {
	switch what {
	case 'D':
		l.p.ch <- l.batches[l.next]
		l.next++
	case 'C':
		close(l.p.ch)
	}
}

// OverlapCase: Sched is a string over {a,b} x {S,D,C} written as "1S 1D 2S …": the events of B1 / B2 in global order.
type OverlapCase struct {
	A     *QRCase `json:"a"`
	B1    *QRCase `json:"b1"`
	B2    *QRCase `json:"b2"`
	Sched []int   `json:"sched"` // 1 / 2: whose next event (S, then one D per batch, then C) happens
}

func overlapMember(ep string, second bool) *QRCase {
	c := &QRCase{Endpoint: ep, EOF: true,
		Series:  []SeriesDef{{FP: 7, Labels: map[string]string{"s": "a"}}, {FP: 11, Labels: map[string]string{"s": "b"}}},
		Rows:    []Row{{S: 0, TS: 1e9, Msg: "m1", Val: 1.5}, {S: 0, TS: 2e9, Msg: "m2", Val: 2.5}, {S: 1, TS: 3e9, Msg: "m3", Val: 3.5}},
		Batches: []int{2, 1}}
	if second { // other label values, lines, values, timestamps; batch boundary between the series
		c.Series = []SeriesDef{{FP: 7, Labels: map[string]string{"s": "x"}}, {FP: 12, Labels: map[string]string{"s": "y"}}}
		c.Rows = []Row{{S: 0, TS: 4e9, Msg: "n1", Val: 4.5}, {S: 1, TS: 5e9, Msg: "n2", Val: 5.5}, {S: 1, TS: 6e9, Msg: "n3", Val: 6.5}}
		c.Batches = []int{1, 2}
	}
	c.fix()
	return c
}

// overlapSchedules: every merge of B1's events (S D^k1 C) and B2's (S D^k2 C) that begins with B1's start and in
// which B2 starts before B1's channel is closed (otherwise the history is sequential: qr_history).
func overlapSchedules(k1, k2 int) [][]int {
	n1, n2 := k1+2, k2+2
	var out [][]int
	var rec func(i, j int, cur []int)
	rec = func(i, j int, cur []int) {
		if i == n1 && j == n2 {
			out = append(out, append([]int(nil), cur...))
			return
		}
		if i < n1 && !(i == n1-1 && j == 0) {
			rec(i+1, j, append(cur, 1))
		}
		if j < n2 && i > 0 {
			rec(i, j+1, append(cur, 2))
		}
	}
	rec(0, 0, nil)
	return out
}

var overlapEndpoints = []string{"range_streams", "range_matrix", "instant_streams", "instant_vector"}

func overlapCases() []*OverlapCase {
	var out []*OverlapCase
	for _, a := range predecessors() {
		for _, e1 := range overlapEndpoints {
			for _, e2 := range overlapEndpoints {
				b1, b2 := overlapMember(e1, false), overlapMember(e2, true)
				for _, s := range overlapSchedules(len(b1.Batches), len(b2.Batches)) {
					out = append(out, &OverlapCase{A: a, B1: b1, B2: b2, Sched: s})
				}
			}
		}
	}
	return out
}

func runOverlapCases(r *sink, g *gstat) {
	runtime.GOMAXPROCS(1)
	ref := map[string][]byte{}
	for _, ep := range overlapEndpoints {
		for _, second := range []bool{false, true} {
			c := overlapMember(ep, second)
			body, err := runQR(c)
			if err != nil {
				ev.Fatal("overlap reference: %v", err)
			}
			ref[qrKey(c)] = body
		}
	}
	cases := overlapCases()
	r.Sample(cases[len(cases)/2])
	// every history is self-contained: the collector is off inside a history (a sync.Pool keeps what the predecessor
	// gave back until the next GC cycles) and runs twice between two histories (two cycles empty every sync.Pool, so
	// nothing an earlier history left behind reaches this one and a replay of the case alone sees the same process)
	defer debug.SetGCPercent(debug.SetGCPercent(-1))
	parallel(r, cases, func(c *OverlapCase) {
		runtime.GC()
		runtime.GC()
		runOverlapCase(r, g, c, ref)
	})
}

func runOverlapCase(r *sink, g *gstat, c *OverlapCase, ref map[string][]byte) {
	if _, err := runQR(c.A); err != nil {
		ev.Fatal("overlap predecessor: %v", err)
	}
	quiesce()
	var reqs [3]*liveReq
	members := [3]*QRCase{nil, c.B1, c.B2}
	for _, who := range c.Sched {
		l := reqs[who]
		switch {
		case l == nil:
			reqs[who] = startGated(members[who])
		case l.next < len(l.batches):
			l.step('D')
		default:
			l.step('C')
		}
		quiesce()
	}
	for _, l := range reqs[1:] {
		<-l.done
		scripts.Delete(l.id)
	}
	k, _ := json.Marshal(c)
	r.Distinct_("overlap|" + string(k))
	okAll := true
	for i, l := range reqs[1:] {
		g.add(l.body)
		debugBody(l.body)
		pre := "overlap_after_" + predName(c.A) + "_"
		which := []string{"first", "second"}[i]
		b := checkQR(l.c, l.body)
		if b != nil {
			b.Class = pre + b.Class
			b.What = "the " + which + " of two overlapping requests sent after a " + predName(c.A) + " request: " + b.What
		} else if want := ref[qrKey(l.c)]; want != nil && l.c.Endpoint != "instant_vector" && !bytes.Equal(want, l.body) {
			b = bad(pre+l.c.Endpoint+"_body_differs", "the %s of two overlapping requests sent after a %s request: body differs from the body of the same request sent alone: %s vs %s", which, predName(c.A), snippet(l.body), snippet(want))
		}
		if b != nil {
			okAll = false
			r.Outcome(b.Class)
			violate(r, "overlap", c, b)
		}
	}
	if okAll {
		r.Outcome("overlap:" + c.B1.Endpoint + "+" + c.B2.Endpoint + ":ok")
	}
}
