package main

import (
	"math"
	"strconv"
)

func float64bits(f float64) uint64     { return math.Float64bits(f) }
func float64frombits(b uint64) float64 { return math.Float64frombits(b) }

// hostile strings (the C10 set): quotes, backslashes, control bytes, NUL, DEL, multi-byte, invalid UTF-8,
// HTML, JS line separators, things that look like escapes / format verbs / templates.
var hostile = []string{
	"", "a", `"`, `\`, `\"`, "'", "\n", "\r\n\t", "\x00", "\x01\x1f", "\x7f", "é", "日本語", "😀",
	"\xff", "\xc3\x28", "\xe2\x82", "\xed\xa0\x80", "</script>", "  ", "<>&", `A`, "%s%d", "{{.a}}", "a\"b\\c\nd",
}

// float values of the design + extremes of float64.
var floats = []float64{0, math.Copysign(0, -1), 1, -1, 0.1, 1e21, 1e22, 1e-7, 5e-324, 9007199254740993, 123456789.123456789,
	math.MaxFloat64, -math.MaxFloat64, math.NaN(), math.Inf(1), math.Inf(-1)}

// floatGrid: the value alphabet of every numeric field is a GRID, not a list of extremes: mantissas x decimal
// exponents x signs (correctly rounded by strconv), plus integers around 2^53 and 2^63 and the specials.
// The exponents cover every last digit 0-9 at one, two and three exponent digits and are dense around the points
// where formatters switch notation (1e-7..1e-4, 1e20..1e22) and at both ends of the float64 range.
var floatGrid = buildFloatGrid()

func buildFloatGrid() []float64 {
	mants := []string{"1", "1.5", "1.25", "9.999999999999999", "1.0000000000000002", "123456789.12345678"}
	var exps []int
	for e := -29; e <= 29; e++ { // one- and two-digit exponents, every last digit, both switch regions
		exps = append(exps, e)
	}
	for e := 100; e <= 109; e++ {
		exps = append(exps, e, -e)
	}
	for e := 290; e <= 308; e++ {
		exps = append(exps, e)
	}
	for e := 290; e <= 324; e++ {
		exps = append(exps, -e)
	}
	seen := map[uint64]bool{}
	var out []float64
	add := func(f float64) {
		if b := math.Float64bits(f); !seen[b] {
			seen[b] = true
			out = append(out, f)
		}
	}
	for _, f := range floats {
		add(f)
	}
	for _, m := range mants {
		for _, e := range exps {
			f, err := strconv.ParseFloat(m+"e"+strconv.Itoa(e), 64)
			if err != nil || math.IsInf(f, 0) || f == 0 {
				continue // outside the float64 range for this mantissa
			}
			add(f)
			add(-f)
		}
	}
	for _, base := range []float64{1 << 53, 1 << 63, 1 << 64, 1 << 31, 1 << 32} {
		for _, f := range []float64{math.Nextafter(base, 0), base, math.Nextafter(base, math.Inf(1)), base + 1, base - 1} {
			add(f)
			add(-f)
		}
	}
	return out
}

// gridChunks splits the grid into chunks of n values (one response carries one chunk).
func gridChunks(n int) [][]float64 {
	var out [][]float64
	for i := 0; i < len(floatGrid); i += n {
		out = append(out, floatGrid[i:min(i+n, len(floatGrid))])
	}
	return out
}

// gridCases: the float grid through the matrix encoder (one series, one row per value) and the vector encoder
// (one series per value), 48 values per response.
func gridCases(endpoint string, emit func(*QRCase)) {
	for _, chunk := range gridChunks(48) {
		c := &QRCase{Endpoint: endpoint, EOF: true}
		switch endpoint {
		case "range_matrix":
			c.Series = []SeriesDef{{FP: 7, Labels: map[string]string{"k": "v"}}}
			for i, f := range chunk {
				c.Rows = append(c.Rows, Row{S: 0, TS: int64(i+1) * 1e9, Val: f})
			}
		case "instant_vector":
			for i, f := range chunk {
				c.Series = append(c.Series, SeriesDef{FP: uint64(100 + i), Labels: map[string]string{"i": strconv.Itoa(i)}})
				c.Rows = append(c.Rows, Row{S: i, TS: 5e9, Val: f})
			}
		}
		c.Batches = []int{len(c.Rows)}
		c.fixBits()
		emit(c)
	}
}

// timestamps (ns): 0, 1, 2^53+1, max int64.
var stamps = []int64{0, 1, 9007199254740993, math.MaxInt64}

// fingerprints: 0 (the sentinel of the encoders), a small one, the largest.
var fps = []uint64{0, 7, math.MaxUint64}

// compositions of n into ordered positive parts.
func compositions(n int) [][]int {
	if n == 0 {
		return [][]int{{}}
	}
	var out [][]int
	for first := 1; first <= n; first++ {
		for _, rest := range compositions(n - first) {
			out = append(out, append([]int{first}, rest...))
		}
	}
	return out
}

// withEmpties: every way to insert at most one empty batch into each of the len(parts)+1 gaps.
func withEmpties(parts []int) [][]int {
	g := len(parts) + 1
	var out [][]int
	for mask := 0; mask < 1<<g; mask++ {
		var b []int
		for i := 0; i < g; i++ {
			if mask&(1<<i) != 0 {
				b = append(b, 0)
			}
			if i < len(parts) {
				b = append(b, parts[i])
			}
		}
		out = append(out, b)
	}
	return out
}

// injections of k series into the fingerprint alphabet (ordered, no repetition).
func fpAssignments(k int) [][]uint64 {
	var out [][]uint64
	var rec func(cur []uint64, used int)
	rec = func(cur []uint64, used int) {
		if len(cur) == k {
			out = append(out, append([]uint64(nil), cur...))
			return
		}
		for i, f := range fps {
			if used&(1<<i) == 0 {
				rec(append(cur, f), used|1<<i)
			}
		}
	}
	rec(nil, 0)
	return out
}

// structCases: every assignment of <= maxRows rows to <= 3 contiguous series, every injective fingerprint
// assignment, every composition of the row sequence into channel batches with optional empty batches in every
// gap, with and without the trailing EOF sentinel.
func structCases(endpoint string, maxRows int, emit func(*QRCase)) {
	unit := int64(1e9)
	for n := 0; n <= maxRows; n++ {
		for _, sizes := range compositions(n) {
			if len(sizes) > 3 {
				continue
			}
			for _, fa := range fpAssignments(len(sizes)) {
				series := make([]SeriesDef, len(sizes))
				var rows []Row
				i := 0
				for s, sz := range sizes {
					series[s] = SeriesDef{FP: fa[s], Labels: map[string]string{"s": string(rune('a' + s))}}
					for j := 0; j < sz; j++ {
						i++
						rows = append(rows, Row{S: s, TS: int64(i) * unit, Msg: "m" + string(rune('0'+i)), Val: float64(i) + 0.5})
					}
				}
				for _, parts := range compositions(n) {
					for _, b := range withEmpties(parts) {
						for _, eof := range []bool{false, true} {
							c := &QRCase{Endpoint: endpoint, Series: series, Rows: rows, Batches: b, EOF: eof}
							c.fix()
							emit(c)
						}
					}
				}
			}
		}
	}
}

// contentCases: a fixed structure (2 series; rows a,a,b; batches [1,2]: the boundary falls inside series a) with
// every hostile string in every string position (one at a time, then label value x line pairs), every float
// with every timestamp.
func contentCases(endpoint string, emit func(*QRCase)) {
	mk := func(k0, v0, k1, v1, m0, m1 string, ts int64, val float64) {
		unit := int64(1)
		switch endpoint {
		case "range_matrix":
			unit = 1e6 // metric queries work on a millisecond grid
		case "instant_vector":
			unit = 1e9 // instant vectors carry whole seconds
		}
		t := ts / unit * unit
		c := &QRCase{Endpoint: endpoint,
			Series:  []SeriesDef{{FP: 7, Labels: map[string]string{k0: v0, "z": "1"}}, {FP: 9, Labels: map[string]string{k1: v1}}},
			Rows:    []Row{{S: 0, TS: t, Msg: m0, Val: val}, {S: 0, TS: t, Msg: m1, Val: val}, {S: 1, TS: t, Msg: m0, Val: val}},
			Batches: []int{1, 2}, EOF: true}
		c.fix()
		emit(c)
	}
	for _, h := range hostile {
		mk(h, "v", "k", "w", "line", "x", 1e9, 1.5) // label name
		mk("k", h, "k", "w", "line", "x", 1e9, 1.5) // label value
		mk("k", "v", "k", h, "line", "x", 1e9, 1.5) // label value of the second series
		mk("k", "v", "k", "w", h, "x", 1e9, 1.5)    // line (first)
		mk("k", "v", "k", "w", "line", h, 1e9, 1.5) // line (after a comma)
	}
	for _, h1 := range hostile {
		for _, h2 := range hostile {
			mk("k", h1, "k", "w", h2, h1, 1e9, 1.5)
		}
	}
	for _, f := range floats {
		for _, t := range stamps {
			mk("k", "v", "k", "w", "line", "x", t, f)
		}
	}
}
