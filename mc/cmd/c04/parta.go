package main

import (
	"fmt"
	"sort"
	"strings"
	"time"
	"unicode/utf8"

	"verif/mc/ev"
	ir "verif/mc/ingestref"
)

// ---------------------------------------------------------------------------------------------------------
// C04 part a — inputs: every label set of size <= 3 over a names x values alphabet, every permutation, every
// protocol that can say it.

// speaker: one way of saying a label set (a protocol in one layout), with the protocol's vocabulary.
type speaker struct {
	Name string
	P    *ir.Proto
	Opt  ir.Opt
	// MapName: how the universe names (a, b_1, c-d) are spelt in this protocol
	MapName func(string) string
	// Deco: labels the protocol adds by itself (measurement, type=datadog, __name__)
	Deco []ir.Label
	// Extra: control labels sent along that are not part of the series identity (__ttl_days__)
	Extra []ir.Label
	// Stored: the label set the protocol is documented to store for the given labels
	Stored func([]ir.Label) []ir.Label
}

func ident(s string) string { return s }

func storedOTLP(l []ir.Label) []ir.Label { // names sanitised, values untouched (writer/utils/unmarshal/otlplogs.go)
	var out []ir.Label
	for _, x := range l {
		if x.Name == "__ttl_days__" { // removed by the row builder for every protocol
			continue
		}
		out = append(out, ir.Label{Name: ir.SanitizeName(x.Name), Value: x.Value})
	}
	return out
}

func storedAsIs(l []ir.Label) []ir.Label {
	var out []ir.Label
	for _, x := range l {
		if x.Name != "__ttl_days__" {
			out = append(out, x)
		}
	}
	return out
}

var speakers = []speaker{
	{Name: "loki_json_stream_values", P: ir.LokiJSON, Opt: ir.Opt{Layout: 0}, MapName: ident, Stored: ir.Sanitized},
	{Name: "loki_json_with_ttl_label", P: ir.LokiJSON, Opt: ir.Opt{Layout: 0}, MapName: ident, Extra: []ir.Label{{Name: "__ttl_days__", Value: "7"}}, Stored: ir.Sanitized},
	{Name: "loki_json_labels_entries", P: ir.LokiJSON, Opt: ir.Opt{Layout: 1}, MapName: ident, Stored: ir.Sanitized},
	{Name: "loki_proto", P: ir.LokiProto, MapName: ident, Stored: ir.Sanitized},
	{Name: "remote_write", P: ir.RemoteWrite, MapName: ident, Stored: ir.Sanitized},
	{Name: "influx", P: ir.Influx, MapName: ident, Deco: []ir.Label{{Name: "measurement", Value: "m"}}, Stored: ir.Sanitized},
	{Name: "datadog_logs", P: ir.DatadogLogs, MapName: ddName, Deco: []ir.Label{{Name: "type", Value: "datadog"}}, Stored: storedAsIs},
	{Name: "datadog_series", P: ir.DatadogSeries, MapName: func(n string) string { return "resource1_" + n },
		Deco: []ir.Label{{Name: "__name__", Value: "m"}}, Stored: storedAsIs},
	{Name: "otlp_logs", P: ir.OTLPLogs, Opt: ir.Opt{Place: 0}, MapName: ident, Stored: storedOTLP},
	{Name: "otlp_logs_record_attrs", P: ir.OTLPLogs, Opt: ir.Opt{Place: 26}, MapName: ident, Stored: storedOTLP},
}

// datadog logs: the universe names travel as the attributes that may hold any string
func ddName(n string) string {
	switch n {
	case "a":
		return "service"
	case "b_1":
		return "hostname"
	case "c-d":
		return "ddsource"
	}
	return n
}

func init() {
	// every protocol with a vocabulary of its own gets a Loki JSON twin saying the same decorated set, so that
	// "same set => same fingerprint" is also checked across protocols for those sets
	n := len(speakers)
	for i := 0; i < n; i++ {
		sp := speakers[i]
		if sp.Deco == nil && sp.Name != "datadog_series" {
			continue
		}
		speakers = append(speakers, speaker{Name: "loki_json~" + sp.Name, P: ir.LokiJSON, Opt: ir.Opt{Layout: 0}, MapName: sp.MapName, Deco: sp.Deco, Stored: ir.Sanitized})
	}
}

var straddle = strings.Repeat("v", 99) + "é" + "zz" // valid UTF-8, > 100 bytes, byte 100 falls inside 'é'

func universe(thorough bool) (names []string, values []string) {
	names = []string{"a", "b_1", "c-d"}
	values = []string{"x", `q"`, `b\`, "\x07", "\x00", "é✓", "\xff", "", straddle}
	if thorough {
		values = append(values, "\v", "\x7f", " ", "\U000e0001", "a b=c,d", "\xfe", "<&>'", strings.Repeat("w", 101))
	}
	return
}

func normUTF8(l []ir.Label) []ir.Label {
	out := make([]ir.Label, len(l))
	for i, x := range l {
		out[i] = ir.Label{Name: x.Name, Value: strings.ToValidUTF8(x.Value, "�")}
	}
	return out
}

type witness struct {
	fp   uint64
	who  string
	raw  string
	norm string
}

type partA struct {
	r        *ev.Run
	fpByRaw  map[string]witness
	rawByFp  map[uint64]witness
	fpByDoc  map[string]witness
	count    map[string]int64
	inexpr   map[string]int64
	rejected map[string]int64
	merged   int64
	alone    map[string]uint64
	special  []string // label names the decoder sources treat specially (ingestref.SpecialNames)
	found    map[string]int
	sets     int
}

type replayA struct {
	Part    string     `json:"part"`
	Speaker string     `json:"speaker"`
	Labels  []ir.Label `json:"labels"` // in the order sent (before the protocol's own labels)
	Decoy   bool       `json:"decoy,omitempty"`
	Hex     []string   `json:"labels_hex,omitempty"`
}

func (a *partA) violate(class, what string, rp replayA) {
	a.found[class]++
	if a.found[class] > 2 {
		return
	}
	for _, l := range rp.Labels { // JSON cannot carry invalid UTF-8: keep an exact copy
		rp.Hex = append(rp.Hex, fmt.Sprintf("%x=%x", l.Name, l.Value))
	}
	a.r.Violate(class, what, rp)
}

func speakerByName(n string) *speaker {
	for i := range speakers {
		if speakers[i].Name == n {
			return &speakers[i]
		}
	}
	return nil
}

// one evaluation: say `labels` (in this order) through sp, alone or after a decoy stream
func (a *partA) eval(sp *speaker, labels []ir.Label, decoy bool) {
	full := append([]ir.Label{}, sp.Deco...)
	for _, l := range labels {
		full = append(full, ir.Label{Name: sp.MapName(l.Name), Value: l.Value})
	}
	if len(sp.Extra) > 0 { // the control label goes in the middle
		k := len(full) / 2
		full = append(append(append([]ir.Label{}, full[:k]...), sp.Extra...), full[k:]...)
	}
	e := ir.Entry{TsNs: 1704888000 * 1e9, Line: "l", Type: ir.TypeLog}
	if !strings.Contains(sp.P.Kinds, "l") {
		e = ir.Entry{TsNs: 1704888000 * 1e9, Value: 1, Type: ir.TypeMetric}
	}
	streams := []ir.Stream{{Labels: full, Entries: []ir.Entry{e}}}
	if decoy {
		d := append([]ir.Label{}, sp.Deco...)
		d = append(d, ir.Label{Name: sp.MapName("a"), Value: "zz-decoy"}, ir.Label{Name: sp.MapName("zz"), Value: "1"})
		e2 := e
		e2.TsNs += 1e9
		streams = []ir.Stream{{Labels: d, Entries: []ir.Entry{e2}}, streams[0]}
	}
	rp := replayA{Part: "a", Speaker: sp.Name, Labels: labels, Decoy: decoy}
	body, err := sp.P.Render(streams, sp.Opt)
	if err != nil {
		a.inexpr[sp.Name]++
		return
	}
	out := sp.P.Parse(body, sp.Opt, nil)
	if out.Err != nil {
		if out.Status >= 400 && out.Status < 500 {
			a.rejected[fmt.Sprintf("%s %d", sp.Name, out.Status)]++
		} else {
			a.rejected[fmt.Sprintf("%s %d %s", sp.Name, out.Status, out.Err.Error())]++
		}
		return
	}
	a.count[sp.Name]++
	a.r.AddEval(1)
	rows := out.Rows()
	want := 1
	if decoy {
		want = 2
	}
	if len(rows) != want {
		a.violate("parser_rows_for_single_entry:"+sp.Name, fmt.Sprintf("%s: %d rows for %d entries", sp.Name, len(rows), want), rp)
		return
	}
	fp := rows[len(rows)-1].FP
	stored := sp.Stored(full)
	if alt := ir.Sanitized(full); ir.LabelsKey(alt) != ir.LabelsKey(stored) {
		// protocols that today store names/values unsanitised (Datadog, OTLP values) may equally apply the common
		// sanitisation: if the stored document says so, that is the expected set
		for _, c := range out.Chunks {
			if c.Ts == nil {
				continue
			}
			for i, f := range c.Ts.MFingerprint {
				if f == fp && i < len(c.Ts.MLabels) {
					if d, err := ir.StrictStringObject([]byte(c.Ts.MLabels[i])); err == nil && ir.LabelsKey(d) == ir.LabelsKey(alt) {
						stored = alt
					}
				}
			}
		}
	}
	raw := ir.LabelsKey(stored)
	norm := ir.LabelsKey(normUTF8(stored))
	who := fmt.Sprintf("%s order=%s decoy=%v", sp.Name, orderOf(labels), decoy)
	a.r.Distinct(raw)

	// (1) same set => same fingerprint, whatever the order, protocol or request
	if w, ok := a.fpByRaw[raw]; ok {
		if w.fp != fp {
			class := "fingerprint_depends_on_protocol_or_request:" + sp.Name
			if strings.HasPrefix(w.who, sp.Name+" ") {
				class = "fingerprint_depends_on_label_order_or_request:" + sp.Name
			}
			a.violate(class, fmt.Sprintf("label set %s: fingerprint %d via %s but %d via %s", raw, fp, who, w.fp, w.who), rp)
		}
	} else {
		a.fpByRaw[raw] = witness{fp, who, raw, norm}
	}
	// (2) different sets => different fingerprints (sets that only differ in invalid-UTF-8 bytes may be merged by a
	//     sanitiser that replaces them; that is allowed and counted)
	if w, ok := a.rawByFp[fp]; ok {
		if w.raw != raw {
			if w.norm == norm {
				a.merged++
			} else {
				a.violate("fingerprint_collision_between_label_sets", fmt.Sprintf("fingerprint %d for %s (%s) and for %s (%s)", fp, raw, who, w.raw, w.who), rp)
			}
		}
	} else {
		a.rawByFp[fp] = witness{fp, who, raw, norm}
	}
	// (3) the series row of this request: present, and its label document is valid JSON for exactly the stored set
	var doc string
	have := false
	for _, c := range out.Chunks {
		if c.Ts == nil {
			continue
		}
		for i, f := range c.Ts.MFingerprint {
			if f == fp && i < len(c.Ts.MLabels) {
				doc, have = c.Ts.MLabels[i], true
			}
		}
	}
	if !have {
		a.violate("no_series_row_for_first_sample_of_series:"+sp.Name, fmt.Sprintf("%s: sample with fingerprint %d but no series row in the same request (empty cache)", sp.Name, fp), rp)
		return
	}
	a.r.Outcome(a.checkDoc(sp, doc, stored, raw, norm, fp, who, rp))
}

func orderOf(l []ir.Label) string {
	n := make([]string, len(l))
	for i, x := range l {
		n[i] = x.Name
	}
	return strings.Join(n, ",")
}

func sameSet(got []ir.Label, key string) bool { return ir.LabelsKey(got) == key }

func (a *partA) checkDoc(sp *speaker, doc string, stored []ir.Label, raw, norm string, fp uint64, who string, rp replayA) string {
	strict, serr := ir.StrictStringObject([]byte(doc))
	lenient, lerr := ir.LenientStringObject([]byte(doc))
	if serr != nil || lerr != nil {
		reason := ""
		if serr != nil {
			reason = serr.Error()
		} else {
			reason = "encoding/json: " + lerr.Error()
		}
		if g, ok := ir.GoQuotedObject(doc); ok && sameSet(g, raw) {
			// deviant rule of D3 reproduces the document exactly: every string is a Go literal (strconv.Quote)
			a.violate("labels_doc_go_quoting_not_json", fmt.Sprintf("%s: stored labels %s are not JSON (%s); they are Go string literals of %s", sp.Name, trunc(doc, 160), reason, trunc(raw, 120)), rp)
			return "doc:go_quoted_not_json"
		}
		a.violate("labels_doc_invalid_json:"+sp.Name, fmt.Sprintf("%s: stored labels %s: %s", sp.Name, trunc(doc, 160), reason), rp)
		return "doc:invalid"
	}
	var ll []ir.Label
	for k, v := range lenient {
		ll = append(ll, ir.Label{Name: k, Value: v})
	}
	sk := ir.LabelsKey(strict)
	if ir.LabelsKey(ll) != sk {
		a.violate("labels_doc_readers_disagree:"+sp.Name, fmt.Sprintf("%s: %s reads as %s strictly but %s with encoding/json", sp.Name, trunc(doc, 160), sk, ir.LabelsKey(ll)), rp)
		return "doc:readers_disagree"
	}
	if sk != raw && sk != norm {
		a.violate("labels_doc_decodes_to_other_set:"+sp.Name, fmt.Sprintf("%s: stored labels %s decode to %s, the series is %s", sp.Name, trunc(doc, 160), trunc(sk, 120), trunc(raw, 120)), rp)
		return "doc:other_set"
	}
	// the fingerprint must be a function of what is stored
	if w, ok := a.fpByDoc[sk]; ok {
		if w.fp != fp {
			a.violate("same_stored_labels_different_fingerprint", fmt.Sprintf("stored set %s has fingerprint %d (%s) and %d (%s)", trunc(sk, 120), fp, who, w.fp, w.who), rp)
		}
	} else {
		a.fpByDoc[sk] = witness{fp, who, raw, norm}
	}
	if sk != raw {
		return "doc:json_utf8_replaced"
	}
	return "doc:json_exact"
}

func trunc(s string, n int) string {
	if !utf8.ValidString(s) {
		s = fmt.Sprintf("%q", s)
	}
	if len(s) > n {
		return s[:n] + "..."
	}
	return s
}

// labelSetsUpTo3: every assignment of values to every non-empty subset of the names (plus the empty set).
func labelSetsUpTo3(names, values []string) [][]ir.Label {
	out := [][]ir.Label{{}}
	for mask := 1; mask < 1<<len(names); mask++ {
		var ns []string
		for i, n := range names {
			if mask&(1<<i) != 0 {
				ns = append(ns, n)
			}
		}
		idx := make([]int, len(ns))
		for {
			set := make([]ir.Label, len(ns))
			for i, n := range ns {
				set[i] = ir.Label{Name: n, Value: values[idx[i]]}
			}
			out = append(out, set)
			k := 0
			for k < len(idx) {
				idx[k]++
				if idx[k] < len(values) {
					break
				}
				idx[k] = 0
				k++
			}
			if k == len(idx) {
				break
			}
		}
	}
	return out
}

func runPartA(r *ev.Run) {
	a := &partA{r: r, fpByRaw: map[string]witness{}, rawByFp: map[uint64]witness{}, fpByDoc: map[string]witness{},
		count: map[string]int64{}, inexpr: map[string]int64{}, rejected: map[string]int64{}, found: map[string]int{}}
	names, values := universe(r.Thorough())
	sets := labelSetsUpTo3(names, values)
	a.sets = len(sets)
	// part a2 first: it is the smaller product, and on a loaded machine the internal deadline then cuts the tail of the
	// label-set product instead of all of a2
	if names, ctxs, err := ir.SpecialNames(ev.Repo()); err == nil {
		a.special = names
		r.Extra["a2_special_label_names_collected_from_source"] = names
		r.Extra["a2_context_values_collected_from_source"] = ctxs
	} else {
		ev.Fatal("cannot collect the special label names from the decoder sources: %v", err)
	}
	runPartA2(r, a)
	for _, set := range sets {
		if r.Expired() {
			break // internal deadline (loaded machine): exhaustive:false, exit 0
		}
		if !ir.DistinctAfterSanitisation(set) {
			continue
		}
		perms := ir.Permutations(len(set))
		for si := range speakers {
			sp := &speakers[si]
			for pi, p := range perms {
				a.eval(sp, ir.Permute(set, p), false)
				if pi == len(perms)-1 {
					a.eval(sp, ir.Permute(set, p), true) // the same set as second stream of another request
				}
			}
		}
	}
	r.Extra["a_label_sets"] = a.sets
	r.Extra["a_names"] = names
	vq := make([]string, len(values))
	for i, v := range values {
		vq[i] = trunc(fmt.Sprintf("%q", v), 40)
	}
	r.Extra["a_values"] = vq
	r.Extra["a_evaluations_per_speaker"] = a.count
	r.Extra["a_inexpressible_per_speaker"] = a.inexpr
	r.Extra["a_rejected"] = a.rejected
	r.Extra["a_distinct_fingerprints"] = len(a.rawByFp)
	r.Extra["a_distinct_stored_sets"] = len(a.fpByRaw)
	r.Extra["a_sets_merged_by_utf8_replacement"] = a.merged
	r.Extra["a_violation_class_counts"] = a.found
	r.Extra["a_observations"] = []string{
		"datadog_logs and datadog_series store label names and values as sent (no name sanitisation, no 100-byte cut); otlp_logs sanitises names but does not cut values; their expected stored set is that documented behaviour",
		"otlp_logs prefixes '_' to a name that starts with a digit where the other protocols replace the digit (names starting with a digit are outside the enumerated alphabet)",
	}
	// observation only: the 32-bit Bernstein configuration cannot be injective; count collisions inside the universe
	ir.SetFingerprintType(0)
	bern := map[uint64]string{}
	coll := 0
	var ex []string
	sp := &speakers[0]
	for _, set := range sets {
		body, err := sp.P.Render([]ir.Stream{{Labels: set, Entries: []ir.Entry{{TsNs: 1704888000 * 1e9, Line: "l", Type: ir.TypeLog}}}}, sp.Opt)
		if err != nil {
			continue
		}
		out := sp.P.Parse(body, sp.Opt, nil)
		rows := out.Rows()
		if out.Err != nil || len(rows) != 1 {
			continue
		}
		k := ir.LabelsKey(ir.Sanitized(set))
		if o, ok := bern[rows[0].FP]; ok && o != k {
			coll++
			if len(ex) < 3 {
				ex = append(ex, fmt.Sprintf("%d: %s | %s", rows[0].FP, trunc(o, 60), trunc(k, 60)))
			}
		} else {
			bern[rows[0].FP] = k
		}
	}
	ir.SetFingerprintType(1)
	keys := make([]string, 0, len(a.found))
	for k := range a.found {
		keys = append(keys, k)
	}
	sort.Strings(keys)
	r.Extra["a_bernstein32_observation"] = map[string]any{"label_sets": len(sets), "distinct_fingerprints": len(bern), "collisions": coll, "examples": ex,
		"note": "FingerPrintType=Bernstein (non-default) hashes to 32 bits; collisions are reported, not judged"}
}

// ---------------------------------------------------------------------------------------------------------
// part a2 — "every sample's series is indexed" at the parser, for requests that say one series more than once or
// over more than one day: through every protocol, with a cache that has seen nothing, every (fingerprint, UTC day)
// of an emitted sample row must come with a series row (fingerprint, that day) in the same request.

type replayA2 struct {
	Part    string  `json:"part"`
	Speaker string  `json:"speaker"`
	Streams [][]int `json:"streams"`           // per stream: label set index (0 or 1) followed by the instant indexes of its entries
	Split   []int   `json:"split,omitempty"`   // [n, k]: one series with n entries, entry k is the first of the next day
	Reorder bool    `json:"reorder,omitempty"` // second occurrence of a label set is written in the other label order
	Special string  `json:"special,omitempty"` // a label name the code treats specially (collected from the decoder sources) ...
	Pos     int     `json:"pos,omitempty"`     // ... inserted first (0) / in the middle (1) / last (2) among the plain labels
	Fields  int     `json:"fields,omitempty"`  // influx: the point carries this many numeric fields on one line (one row-builder call each)
	Many    int     `json:"many,omitempty"`    // this many streams, each with a label set of its own and one entry of LineLen bytes (a push of more than 1 MB: several chunks, each with NEW series)
	LineLen int     `json:"line_len,omitempty"`
}

var a2Instants = []int64{
	1704888000, // D      2024-01-10T12:00:00Z
	1704931199, // UM-1   2024-01-10T23:59:59Z
	1704931201, // UM+1   2024-01-11T00:00:01Z
	1704974400, // D+1    2024-01-11T12:00:00Z
}

func a2Labels(sp *speaker, which int, reorder bool, special string, pos int) []ir.Label {
	l := append([]ir.Label{}, sp.Deco...)
	plain := []ir.Label{{Name: sp.MapName("a"), Value: []string{"x", "y"}[which]}, {Name: sp.MapName("b_1"), Value: "z"}}
	if special != "" {
		val := "sv"
		if special == "__ttl_days__" {
			val = "7"
		}
		at := []int{0, 1, 2}[pos]
		plain = append(plain[:at:at], append([]ir.Label{{Name: special, Value: val}}, plain[at:]...)...)
	}
	l = append(l, plain...)
	if reorder {
		for i, j := 0, len(l)-1; i < j; i, j = i+1, j-1 {
			l[i], l[j] = l[j], l[i]
		}
	}
	return l
}

func a2Build(sp *speaker, rp replayA2) []ir.Stream {
	mk := func(sec int64, i int) ir.Entry {
		if strings.Contains(sp.P.Kinds, "l") {
			return ir.Entry{TsNs: sec * 1e9, Line: fmt.Sprintf("l%d", i), Type: ir.TypeLog}
		}
		return ir.Entry{TsNs: sec * 1e9, Value: float64(i), Type: ir.TypeMetric}
	}
	var streams []ir.Stream
	if rp.Many > 0 {
		for i := 0; i < rp.Many; i++ {
			l := append([]ir.Label{}, sp.Deco...)
			l = append(l, ir.Label{Name: sp.MapName("a"), Value: fmt.Sprintf("series%05d", i)})
			e := mk(a2Instants[0]+int64(i%50), i)
			if e.Type == ir.TypeLog {
				e.Line = fmt.Sprintf("%08d-", i) + strings.Repeat("u", rp.LineLen-9)
			}
			streams = append(streams, ir.Stream{Labels: l, Entries: []ir.Entry{e}})
		}
		return streams
	}
	if len(rp.Split) == 2 {
		n, k := rp.Split[0], rp.Split[1]
		st := ir.Stream{Labels: a2Labels(sp, 0, false, rp.Special, rp.Pos)}
		for i := 0; i < n; i++ { // one entry per second, entry k is the first after UTC midnight
			st.Entries = append(st.Entries, mk(1704931200+int64(i-k), i))
		}
		return []ir.Stream{st}
	}
	if rp.Fields > 0 { // one Influx point with several numeric fields: one stream per field, same instant
		for f := 0; f < rp.Fields; f++ {
			l := append(a2Labels(sp, 0, false, rp.Special, rp.Pos), ir.Label{Name: "__name__", Value: fmt.Sprintf("f%d", f+1)})
			streams = append(streams, ir.Stream{Labels: l, Entries: []ir.Entry{{TsNs: a2Instants[0] * 1e9, Value: float64(f) + 1.5, Type: ir.TypeMetric}}})
		}
		return streams
	}
	seen := map[int]int{}
	for _, s := range rp.Streams {
		st := ir.Stream{Labels: a2Labels(sp, s[0], rp.Reorder && seen[s[0]]%2 == 1, rp.Special, rp.Pos)}
		seen[s[0]]++
		for i, ii := range s[1:] {
			st.Entries = append(st.Entries, mk(a2Instants[ii], i))
		}
		streams = append(streams, st)
	}
	return streams
}

func (a *partA) evalA2(sp *speaker, rp replayA2) {
	streams := a2Build(sp, rp)
	opt := sp.Opt
	if rp.Fields > 0 {
		opt.MergeFields = true
	}
	body, err := sp.P.Render(streams, opt)
	if err != nil {
		a.inexpr["a2:"+sp.Name]++
		return
	}
	out := sp.P.Parse(body, opt, nil)
	if out.Err != nil {
		a.rejected[fmt.Sprintf("a2 %s %d", sp.Name, out.Status)]++
		return
	}
	a.count["a2:"+sp.Name]++
	a.r.AddEval(1)
	// late read: all chunks of the push have been collected (and retained exactly as handed over) before anything is
	// judged — the controller, too, reads a chunk after the parser has moved on, and again on every retry
	if len(out.Mutated) > 0 || out.Shared != "" {
		cl := "series_or_sample_chunk_changed_after_handover:" + sp.Name
		a.found[cl]++
		if a.found[cl] <= 2 {
			what := out.Shared
			if len(out.Mutated) > 0 {
				what = out.Mutated[0]
			}
			a.r.Violate(cl, fmt.Sprintf("%s: %s (%d chunks); request %+v", sp.Name, what, len(out.Chunks), rp), rp)
		}
		a.r.Outcome("a2:chunk_changed")
		return
	}
	if len(out.Chunks) > 1 {
		a.r.Outcome(fmt.Sprintf("a2:%d_chunks", len(out.Chunks)))
	}
	type fd struct {
		fp  uint64
		day int64
	}
	have := map[fd]bool{}
	for _, c := range out.Chunks {
		if c.Ts == nil {
			continue
		}
		for i, f := range c.Ts.MFingerprint {
			if i < len(c.Ts.MDate) {
				have[fd{f, c.Ts.MDate[i].Unix() / 86400}] = true
			}
		}
	}
	// identity inside one request: every row of a stream carries the fingerprint the same label set gets when it is
	// said alone with one entry, however many times the decoder calls the row builder for it; and every stored label
	// document is JSON for the stored set of one of the streams (a duplicated key is not)
	type ft struct {
		fp uint64
		ts int64
	}
	want := map[ft]int{}
	docs := map[string]bool{}
	identityOK := rp.Many == 0 // thousands of label sets: identity of each is part a's job, here only the series rows
	for _, st := range streams {
		if !identityOK {
			break
		}
		fp, ok := a.aloneFP(sp, st.Labels)
		if !ok {
			identityOK = false
			break
		}
		for _, e := range st.Entries {
			want[ft{fp, e.TsNs}]++
		}
		docs[ir.LabelsKey(sp.Stored(st.Labels))] = true
		docs[ir.LabelsKey(normUTF8(sp.Stored(st.Labels)))] = true
	}
	if identityOK {
		for _, r := range out.Rows() {
			if want[ft{r.FP, r.TsNs}] == 0 {
				cl := "fingerprint_differs_between_calls_for_one_label_set:" + sp.Name
				a.found[cl]++
				if a.found[cl] <= 2 {
					a.r.Violate(cl, fmt.Sprintf("%s: a row at %s carries fingerprint %d, which is not the fingerprint of any label set of the request said alone; request %+v",
						sp.Name, time.Unix(0, r.TsNs).UTC().Format(time.RFC3339), r.FP, rp), rp)
				}
				a.r.Outcome("a2:identity_split")
				return
			}
			want[ft{r.FP, r.TsNs}]--
		}
		for _, c := range out.Chunks {
			if c.Ts == nil {
				continue
			}
			for _, doc := range c.Ts.MLabels {
				d, err := ir.StrictStringObject([]byte(doc))
				if err == nil && docs[ir.LabelsKey(d)] {
					continue
				}
				if err != nil {
					if g, ok := ir.GoQuotedObject(doc); ok && docs[ir.LabelsKey(g)] {
						continue // D3 (Go quoting) is judged in part a
					}
				}
				cl := "labels_doc_of_request_not_a_sent_label_set:" + sp.Name
				a.found[cl]++
				if a.found[cl] <= 2 {
					a.r.Violate(cl, fmt.Sprintf("%s: stored labels %s (%v) are not the label set of any stream of the request %+v", sp.Name, trunc(doc, 160), err, rp), rp)
				}
				a.r.Outcome("a2:foreign_doc")
				return
			}
		}
	}
	for _, r := range out.Rows() {
		if !have[fd{r.FP, r.TsNs / 1e9 / 86400}] {
			a.found["no_series_row_for_sample_day:"+sp.Name]++
			if a.found["no_series_row_for_sample_day:"+sp.Name] <= 2 {
				a.r.Violate("no_series_row_for_sample_day:"+sp.Name, fmt.Sprintf("%s: sample fp=%d at %s has no series row for that day in the same request (cache empty); request %+v",
					sp.Name, r.FP, time.Unix(0, r.TsNs).UTC().Format(time.RFC3339), rp), rp)
			}
			a.r.Outcome("a2:missing_series_row")
			return
		}
	}
	a.r.Outcome("a2:indexed")
}

// aloneFP: the fingerprint the speaker's parser gives this label list when it is the only stream and has one entry.
func (a *partA) aloneFP(sp *speaker, labels []ir.Label) (uint64, bool) {
	key := sp.Name + "|" + fmt.Sprintf("%q", labels)
	if a.alone == nil {
		a.alone = map[string]uint64{}
	}
	if fp, ok := a.alone[key]; ok {
		return fp, true
	}
	e := ir.Entry{TsNs: 1704888000 * 1e9, Line: "l", Type: ir.TypeLog}
	metric := !strings.Contains(sp.P.Kinds, "l")
	for _, l := range labels {
		if sp.P == ir.Influx && l.Name == "__name__" {
			metric = true
		}
	}
	if metric {
		e = ir.Entry{TsNs: 1704888000 * 1e9, Value: 1, Type: ir.TypeMetric}
	}
	body, err := sp.P.Render([]ir.Stream{{Labels: labels, Entries: []ir.Entry{e}}}, sp.Opt)
	if err != nil {
		return 0, false
	}
	out := sp.P.Parse(body, sp.Opt, nil)
	rows := out.Rows()
	if out.Err != nil || len(rows) != 1 {
		return 0, false
	}
	a.alone[key] = rows[0].FP
	return rows[0].FP, true
}

func runPartA2(r *ev.Run, a *partA) {
	var lists [][]int
	for i := range a2Instants {
		lists = append(lists, []int{i})
	}
	for i := range a2Instants {
		for j := range a2Instants {
			lists = append(lists, []int{i, j})
		}
	}
	for si := range speakers {
		sp := &speakers[si]
		if strings.HasPrefix(sp.Name, "loki_json~") || sp.Name == "loki_json_with_ttl_label" {
			continue
		}
		if r.Expired() {
			break
		}
		for _, l1 := range lists {
			a.evalA2(sp, replayA2{Part: "a2", Speaker: sp.Name, Streams: [][]int{append([]int{0}, l1...)}})
			for _, l2 := range lists {
				for _, second := range []int{0, 1} {
					for _, ro := range []bool{false, true} {
						if ro && second == 1 {
							continue
						}
						a.evalA2(sp, replayA2{Part: "a2", Speaker: sp.Name, Reorder: ro,
							Streams: [][]int{append([]int{0}, l1...), append([]int{second}, l2...)}})
					}
				}
			}
		}
		// a push of more than 1 MB whose chunks each carry NEW series (cold cache, a label set of its own per stream)
		if strings.Contains(sp.P.Kinds, "l") {
			a.evalA2(sp, replayA2{Part: "a2", Speaker: sp.Name, Many: 3200, LineLen: 400})
		} else {
			a.evalA2(sp, replayA2{Part: "a2", Speaker: sp.Name, Many: 20000})
		}
		// names the code treats specially, first / middle / last among the plain labels, in shapes that make the decoder
		// call the row builder more than once for the label set
		if sp.P != ir.DatadogLogs && sp.P != ir.DatadogSeries {
			for _, name := range a.special {
				if sp.P == ir.Influx && (name == "measurement" || name == "__name__") {
					continue
				}
				for pos := 0; pos < 3; pos++ {
					for _, st := range [][][]int{{{0, 0}}, {{0, 0, 3}}, {{0, 0}, {0, 3}}, {{0, 1}, {1, 1}, {0, 2}}} {
						a.evalA2(sp, replayA2{Part: "a2", Speaker: sp.Name, Streams: st, Special: name, Pos: pos})
					}
					for _, sk := range [][]int{{1500, 1200}, {2001, 500}, {1001, 1}} {
						a.evalA2(sp, replayA2{Part: "a2", Speaker: sp.Name, Split: sk, Special: name, Pos: pos})
					}
					if sp.P == ir.Influx {
						for _, f := range []int{1, 2, 3} {
							a.evalA2(sp, replayA2{Part: "a2", Speaker: sp.Name, Fields: f, Special: name, Pos: pos})
						}
					}
				}
			}
		}
		// one series longer than the 1000-point flush of remote-write, midnight falling before / at / after the flush
		for _, n := range []int{999, 1000, 1001, 1500, 2500} {
			for _, k := range []int{1, 500, 999, 1000, 1001, 1200, 2100} {
				if k < n {
					a.evalA2(sp, replayA2{Part: "a2", Speaker: sp.Name, Split: []int{n, k}})
				}
			}
		}
	}
}
