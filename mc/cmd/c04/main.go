// C04 — Series identity depends only on the label set; every sample's series is indexed.
//
// Part a (inputs): every label set of size <= 3 over a names x values alphabet, every permutation, every protocol
// that can say it, through the real exported parsers: same set => same fingerprint, different sets => different
// fingerprints, the stored label document is valid JSON (encoding/json AND a strict RFC 8259 reader) for exactly
// the stored set.
// Part b (histories): explicit-state breadth-first exploration of request/fault/cache/clock histories on the real
// handler + parser + numbercache + insert services over a fake ClickHouse client, one worker process per
// (TZ, cluster, retry) configuration; oracle: every acknowledged sample has a successfully inserted series row
// under a day the reader's real lower bound (FormatFromDate) admits.
package main

import (
	"bytes"
	"context"
	"encoding/json"
	"fmt"
	"os"
	"os/exec"
	"sort"
	"strings"
	"sync"
	"time"

	"verif/mc/ev"
	ir "verif/mc/ingestref"
)

var zones = []string{"UTC", "America/Los_Angeles", "Asia/Tokyo", "Pacific/Kiritimati"}

func runWorker(ctx context.Context, cfg bConfig, deadline time.Time) (*bResult, error) {
	arg, _ := json.Marshal(cfg)
	cmd := exec.CommandContext(ctx, os.Args[0], "-c04b-worker", string(arg))
	cmd.Env = append(os.Environ(), "TZ="+cfg.TZ, "GOMAXPROCS=2", "GOGC=200", "VERIF_WORKER_DEADLINE="+deadline.Format(time.RFC3339Nano))
	var out, errb bytes.Buffer
	cmd.Stdout, cmd.Stderr = &out, &errb
	if err := cmd.Run(); err != nil {
		return nil, fmt.Errorf("worker %s: %v; stderr: %s", arg, err, tail(errb.String(), 600))
	}
	var res bResult
	lines := strings.Split(strings.TrimSpace(out.String()), "\n")
	if err := json.Unmarshal([]byte(lines[len(lines)-1]), &res); err != nil {
		return nil, fmt.Errorf("worker %s: bad output %q: %v", arg, tail(out.String(), 300), err)
	}
	return &res, nil
}

func tail(s string, n int) string {
	if len(s) > n {
		return "..." + s[len(s)-n:]
	}
	return s
}

// replayB: a part-b history; events are written as in the evidence (push:A[D,UM+1]&B[LM-1], ts_fail, retry, ...).
type replayB struct {
	Part    string   `json:"part"`
	TZ      string   `json:"tz"`
	Cluster bool     `json:"cluster,omitempty"` // legacy: false = topology ss, true = cc_same
	Topo    string   `json:"topo,omitempty"`    // ss | cc_same | cc_diff | cs (databases n1, n2)
	Retry   int      `json:"retry_attempts"`
	History []string `json:"history"`
}

func main() {
	if len(os.Args) >= 3 && os.Args[1] == "-c04b-worker" {
		workerMain(os.Args[2])
		return
	}
	r := ev.Start("C04", "model_checking", 60*time.Second, 16*time.Minute)
	ir.InitWriterGlobals()
	r.Rule = "part a: every label set of size <= 3 over 3 names x 9 (thorough 17) values incl. quote, backslash, \\x07, \\x00, multi-byte, invalid UTF-8, >100 bytes, " +
		"every permutation, alone and as second stream of another request, through every protocol/layout that can say it (distinct = distinct stored label set); " +
		"part b: breadth-first over all histories, up to the stated total size, of {push(request shape: 1-2 streams, series A|B each — the same series twice or two series —, 1-2 entries per stream at " +
		"instants D | D+1 | 1 s before/after UTC midnight | 1 s before/after local midnight, in every order), malformed push mentioning A|B, series/samples INSERT fails next / ok, " +
		"client retries last push, cache reset, clock crosses midnight}, per configuration TZ x cluster x retry attempts, states de-duplicated by " +
		"(cache contents, acknowledged samples, inserted series rows, pending faults, last push, clock)"
	r.Assumptions = []string{
		"a failed INSERT stores none of its rows; a successful one stores all of them",
		"the insert services are driven one request at a time: MaxQueueSize=1 forces a flush per request (production flushes on a 0.2 s timer), the worker waits for all request goroutines to end before the next event",
		"cache reset = the body of the 30-minute ticker goroutine of numbercache.NewCache, called directly",
		"the reader's lower bound is clickhouse_planner.FormatFromDate(from) compared as ClickHouse compares a Date with a 'YYYY-MM-DD' string; the stored day is the UInt16 really sent in the Date column",
		"expected stored label set per protocol = the documented sanitisation of that protocol (Loki/remote-write/Influx: names to [a-zA-Z0-9_], values cut at 100 bytes + '...', __ttl_days__ removed; OTLP: names only; Datadog: none); a JSON document cannot hold invalid UTF-8, so a stored value may also be the U+FFFD-replaced form provided the fingerprint is then a function of the stored form",
	}
	if r.Replay != "" {
		replay(r)
		return
	}

	// ---- part b workers start first (they run while part a runs in this process)
	// two explorations per configuration: "single" = pushes of one stream with one entry, bounded by history size
	// (= depth); "shapes" = every request shape of 1-2 streams x 1-2 entries (same series twice, two series, a stream
	// spanning two days, ...), a push costing its number of entries
	depth, shapeEntries, shapeBudget, nodesBudget := 4, 3, 3, 3
	retries := []int{1, 2}
	if r.Thorough() {
		depth, shapeEntries, shapeBudget = 5, 4, 4
	}
	if s := os.Getenv("VERIF_C04_DEPTH"); s != "" { // experiments only
		fmt.Sscanf(s, "%d", &depth)
	}
	type job struct{ cfg bConfig }
	var jobs, bonus []job
	add := func(list *[]job, c bConfig) {
		if r.Thorough() {
			const shards = 16
			for sh := 0; sh < shards; sh++ { // shard by first event
				c.Shard, c.Shards = sh, shards
				*list = append(*list, job{c})
			}
		} else {
			*list = append(*list, job{c})
		}
	}
	topos := []string{"ss", "cc_same", "cc_diff", "cs"}
	for _, tz := range zones {
		// (a) two configured databases sharing the one real cache, the target database is a dimension of every push
		for _, topo := range topos {
			if r.Thorough() {
				for _, rt := range retries {
					b := nodesBudget
					if rt == 1 && (tz == "UTC" || tz == "America/Los_Angeles") {
						b = nodesBudget + 1
					}
					add(&jobs, bConfig{TZ: tz, Topo: topo, Nodes: 2, Retry: rt, Budget: b, MaxEntries: 1})
				}
				if tz == "UTC" {
					add(&jobs, bConfig{TZ: tz, Topo: topo, Nodes: 2, Retry: 1, Budget: 3, MaxEntries: 2})
				}
			} else if tz == "UTC" || topo == "ss" || topo == "cc_same" {
				// quick: all four topologies in UTC, the two cache behaviours (standalone / one cluster) in every zone
				add(&jobs, bConfig{TZ: tz, Topo: topo, Nodes: 2, Retry: 1, Budget: nodesBudget, MaxEntries: 1})
			}
		}
		// (b) one-entry pushes and (c) request shapes to one database, standalone and clustered
		if !r.Thorough() && tz == "Pacific/Kiritimati" {
			continue // quick: the second zone east of UTC only in (a)
		}
		for _, topo := range []string{"ss", "cc_same"} {
			for _, rt := range retries {
				add(&jobs, bConfig{TZ: tz, Topo: topo, Retry: rt, Budget: shapeBudget, MaxEntries: shapeEntries})
				if r.Thorough() || rt == 1 { // quick: the deeper single-entry exploration with RetryAttempts=1 only
					add(&jobs, bConfig{TZ: tz, Topo: topo, Retry: rt, Budget: depth, MaxEntries: 1})
				}
				if r.Thorough() && rt == 1 && (tz == "UTC" || tz == "America/Los_Angeles") && os.Getenv("VERIF_C04_DEPTH") == "" {
					// extension: one level deeper where the zone matters (west of UTC vs. none), default retry
					add(&bonus, bConfig{TZ: tz, Topo: topo, Retry: rt, Budget: depth + 1, MaxEntries: 1})
				}
			}
		}
	}
	if r.Seed != 0 && len(jobs) > 0 {
		k := ((r.Seed % len(jobs)) + len(jobs)) % len(jobs)
		jobs = append(jobs[k:], jobs[:k]...)
	}
	ctx, cancel := context.WithDeadline(context.Background(), r.Deadline.Add(60*time.Second))
	defer cancel()
	workerDeadline := r.Deadline.Add(-8 * time.Second)
	// quick: all 32 workers run side by side (on a loaded machine every configuration then gets its share and the
	// breadth-first order means the shallow levels are complete everywhere when the deadline cuts); thorough: 14 at a time
	par := 14
	if !r.Thorough() {
		par = len(jobs) // all side by side
		sort.SliceStable(jobs, func(i, j int) bool { return jobs[i].cfg.Budget > jobs[j].cfg.Budget }) // the deeper ones first
	}
	sem := make(chan struct{}, par)
	runAll := func(js []job) ([]*bResult, []error) {
		results := make([]*bResult, len(js))
		errs := make([]error, len(js))
		var wg sync.WaitGroup
		for i := range js {
			wg.Add(1)
			go func(i int) {
				defer wg.Done()
				sem <- struct{}{}
				defer func() { <-sem }()
				results[i], errs[i] = runWorker(ctx, js[i].cfg, workerDeadline)
			}(i)
		}
		wg.Wait()
		return results, errs
	}
	var results []*bResult
	var errs []error
	started := time.Now()
	extNote := ""
	done := make(chan struct{})
	go func() {
		defer close(done)
		results, errs = runAll(jobs)
		if len(bonus) > 0 {
			// the depth+1 extension costs ~6x the base exploration: only start it when the base took < 1/8 of the budget
			if used, total := time.Since(started), r.Deadline.Sub(started); used < total/8 {
				r2, e2 := runAll(bonus)
				results, errs = append(results, r2...), append(errs, e2...)
				extNote = fmt.Sprintf("single-entry exploration to depth %d for TZ in {UTC, America/Los_Angeles} x cluster {off,on} with retry_attempts=1", depth+1)
			} else {
				extNote = fmt.Sprintf("skipped: the base explorations took %.0f s of the %.0f s budget (machine loaded); the stated bound of this tier is depth %d / shape budget %d", used.Seconds(), total.Seconds(), depth, shapeBudget)
			}
		}
	}()

	// ---- part a
	runPartA(r)

	<-done
	if extNote != "" {
		r.Extra["b_depth_extension"] = extNote
	}
	for i, e := range errs {
		if e != nil {
			ev.Fatal("part b worker %d failed: %v", i, e)
		}
	}
	// ---- merge part b
	type cfgKey struct {
		TZ    string
		Topo  string
		Retry int
		Kind  string
	}
	distinct := map[cfgKey]map[uint64]struct{}{}
	perCfg := map[string]map[string]any{}
	classCount := map[string]int64{}
	outcomes := map[string]int64{}
	type vio struct {
		bViolation
		cfg bConfig
	}
	byClass := map[string][]vio{}
	var notes []string
	for _, res := range results {
		kind := fmt.Sprintf("single<=%d", res.Config.Budget)
		if res.Config.MaxEntries > 1 {
			kind = fmt.Sprintf("shapes(%d entries)<=%d", res.Config.MaxEntries, res.Config.Budget)
		}
		if res.Config.Nodes >= 2 {
			kind = "2 target databases, " + kind
		}
		k := cfgKey{res.Config.TZ, res.Config.topo(), res.Config.Retry, kind}
		if distinct[k] == nil {
			distinct[k] = map[uint64]struct{}{}
		}
		for _, h := range res.StateHashes {
			distinct[k][h] = struct{}{}
		}
		r.Transitions += res.Transitions
		r.TracesValidated += res.Requests
		name := fmt.Sprintf("TZ=%s topology=%s retry=%d %s", k.TZ, k.Topo, k.Retry, k.Kind)
		m := perCfg[name]
		if m == nil {
			m = map[string]any{"transitions": int64(0), "requests": int64(0), "inserts": int64(0), "max_depth": 0, "zone_offset_s": res.ZoneOffsetS, "frontier_left": 0}
			perCfg[name] = m
		}
		m["transitions"] = m["transitions"].(int64) + res.Transitions
		m["requests"] = m["requests"].(int64) + res.Requests
		m["inserts"] = m["inserts"].(int64) + res.Inserts
		if res.MaxDepth > m["max_depth"].(int) {
			m["max_depth"] = res.MaxDepth
		}
		m["frontier_left"] = m["frontier_left"].(int) + res.Frontier
		if res.Frontier > 0 {
			r.Cap(fmt.Sprintf("part b %s: deadline reached, %d frontier histories not expanded", name, res.Frontier))
		}
		for c, n := range res.ClassCount {
			classCount[c] += n
			cc, _ := m["states_in_violation"].(map[string]int64)
			if cc == nil {
				cc = map[string]int64{}
				m["states_in_violation"] = cc
			}
			cc[c] += n
		}
		for o, n := range res.Outcomes {
			outcomes[o] += n
		}
		for _, v := range res.Violations {
			byClass[v.Class] = append(byClass[v.Class], vio{v, res.Config})
		}
		for _, n := range res.Notes {
			notes = append(notes, name+": "+n)
		}
	}
	for k, m := range distinct {
		r.States += int64(len(m))
		perCfg[fmt.Sprintf("TZ=%s topology=%s retry=%d %s", k.TZ, k.Topo, k.Retry, k.Kind)]["distinct_states"] = len(m)
	}
	for o, n := range outcomes {
		for i := int64(0); i < n && i < 1; i++ {
			r.Outcome("b:" + o)
		}
	}
	r.Extra["b_explorations"] = []string{
		fmt.Sprintf("single: pushes of one stream with one entry (2 series x %d day classes), history size (= depth) <= %d", len(dayClasses), depth),
		fmt.Sprintf("shapes: every request of 1-2 streams x 1-2 entries with <= %d entries in total (%d push events), history size <= %d where a push costs its number of entries", shapeEntries, len(pushEvents(shapeEntries)), shapeBudget),
	}
	r.Extra["b_topologies"] = "two configured databases n1/db1 and n2/db2 sharing the one real numbercache: ss both standalone, cc_same both in cluster c1, cc_diff clusters c1/c2, cs n1 clustered + n2 standalone; explorations marked '2 target databases' have every push event for either database (push@n2:...), size <= " + fmt.Sprint(nodesBudget) + "; the others push to n1 only"
	r.Extra["b_day_classes"] = dayClasses
	r.Extra["b_control_events"] = controlEvents
	r.Extra["b_configurations"] = perCfg
	r.Extra["b_event_outcomes"] = outcomes
	r.Extra["b_states_in_violation_per_class"] = classCount
	sort.Strings(notes)
	r.Extra["b_notes"] = notes
	r.Sample(map[string]any{"part": "b", "history": []string{"ts_fail", "push:A[D]", "retry"}})
	r.Sample(map[string]any{"part": "b", "history": []string{"push:A[D]&A[UM-1,UM+1]"}})
	r.Sample(map[string]any{"part": "a", "speaker": "loki_json_stream_values", "labels": []ir.Label{{Name: "a", Value: `q"`}, {Name: "c-d", Value: "é✓"}}})
	var classes []string
	for c := range byClass {
		classes = append(classes, c)
	}
	sort.Strings(classes)
	for _, c := range classes {
		vs := byClass[c]
		sort.SliceStable(vs, func(i, j int) bool {
			if len(vs[i].History) != len(vs[j].History) {
				return len(vs[i].History) < len(vs[j].History)
			}
			a, _ := json.Marshal([]any{vs[i].cfg.TZ, vs[i].cfg.topo(), vs[i].cfg.Retry, vs[i].History})
			b, _ := json.Marshal([]any{vs[j].cfg.TZ, vs[j].cfg.topo(), vs[j].cfg.Retry, vs[j].History})
			return string(a) < string(b)
		})
		for i, v := range vs {
			if i >= 2 {
				break
			}
			r.Violate(c, fmt.Sprintf("%s; history %v (%d states in violation of this class)", v.What, v.History, classCount[c]),
				replayB{Part: "b", TZ: v.cfg.TZ, Topo: v.cfg.topo(), Retry: v.cfg.Retry, History: v.History})
		}
	}
	r.Finish()
}

func replay(r *ev.Run) {
	b, err := os.ReadFile(r.Replay)
	if err != nil {
		ev.Fatal("replay: %v", err)
	}
	var doc struct {
		Replay json.RawMessage `json:"replay"`
	}
	if json.Unmarshal(b, &doc) != nil || len(doc.Replay) == 0 {
		doc.Replay = b
	}
	var head struct {
		Part string `json:"part"`
	}
	json.Unmarshal(doc.Replay, &head)
	switch head.Part {
	case "a2":
		var rp replayA2
		if err := json.Unmarshal(doc.Replay, &rp); err != nil {
			ev.Fatal("replay: %v", err)
		}
		sp := speakerByName(rp.Speaker)
		if sp == nil {
			ev.Fatal("replay: unknown speaker %q", rp.Speaker)
		}
		a := &partA{r: r, fpByRaw: map[string]witness{}, rawByFp: map[uint64]witness{}, fpByDoc: map[string]witness{},
			count: map[string]int64{}, inexpr: map[string]int64{}, rejected: map[string]int64{}, found: map[string]int{}}
		a.evalA2(sp, rp)
		fmt.Printf("replay part a2: %d evaluations, violations %v\n", r.Evaluations, a.found)
	case "a":
		var rp replayA
		if err := json.Unmarshal(doc.Replay, &rp); err != nil {
			ev.Fatal("replay: %v", err)
		}
		if len(rp.Hex) == len(rp.Labels) { // exact bytes
			for i, h := range rp.Hex {
				var n, v []byte
				f := strings.SplitN(h, "=", 2)
				fmt.Sscanf(f[0], "%x", &n)
				if len(f) > 1 {
					fmt.Sscanf(f[1], "%x", &v)
				}
				rp.Labels[i] = ir.Label{Name: string(n), Value: string(v)}
			}
		}
		sp := speakerByName(rp.Speaker)
		if sp == nil {
			ev.Fatal("replay: unknown speaker %q", rp.Speaker)
		}
		a := &partA{r: r, fpByRaw: map[string]witness{}, rawByFp: map[uint64]witness{}, fpByDoc: map[string]witness{},
			count: map[string]int64{}, inexpr: map[string]int64{}, rejected: map[string]int64{}, found: map[string]int{}}
		// the identity checks need the other ways of saying the same set: say it through every speaker and order first
		for _, p := range ir.Permutations(len(rp.Labels)) {
			for si := range speakers {
				if speakers[si].Name != sp.Name {
					a.eval(&speakers[si], ir.Permute(rp.Labels, p), false)
				}
			}
		}
		a.eval(sp, rp.Labels, rp.Decoy)
		fmt.Printf("replay part a: %d evaluations, violations %v\n", r.Evaluations, a.found)
	case "b":
		var rp replayB
		if err := json.Unmarshal(doc.Replay, &rp); err != nil {
			ev.Fatal("replay: %v", err)
		}
		res, err := runWorker(context.Background(), bConfig{TZ: rp.TZ, Cluster: rp.Cluster, Topo: rp.Topo, Retry: rp.Retry, History: rp.History}, time.Time{})
		if err != nil {
			ev.Fatal("replay: %v", err)
		}
		var steps []string
		for k := range res.Outcomes {
			steps = append(steps, k)
		}
		sort.Strings(steps)
		fmt.Printf("replay part b: TZ=%s topology=%s retry=%d steps=%v verdict=%s\n", rp.TZ, res.Config.topo(), rp.Retry, steps, res.Verdict)
		r.States, r.Transitions = 1, int64(len(rp.History))
		r.TracesValidated = res.Requests
		for _, v := range res.Violations {
			r.Violate(v.Class, v.What+fmt.Sprintf("; history %v", v.History), rp)
		}
	default:
		ev.Fatal("replay: file has no part a/b")
	}
	r.Finish()
}
