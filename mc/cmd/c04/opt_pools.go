//go:build verifopt

package main

import "github.com/metrico/qryn/writer/service"

// optional (performance only): the column pools are re-created with small capacities by a function that lives inside
// package service and names its private constructor — see _overlay_opt/writer/service/zz_verif_smallpools.go.  When the
// tree under test no longer fits it, bin/check rebuilds without it and smallPools() in pools.go (exported names only,
// creator located by type) or, failing that, the production capacities are used.
func init() { shrinkPoolsOpt = service.VerifSmallPools }
