package main

import (
	"reflect"
	"unsafe"

	"github.com/ClickHouse/ch-go/proto"
	"github.com/metrico/qryn/writer/service"
)

// smallPools gives the column pools used by the time_series and samples insert services small initial capacities.
// The production constructors allocate ~1.5 MB of zeroed columns per flush (1 MiB for every UInt8 column alone); a
// history explorer that forces one flush per request would spend most of its time clearing that memory.
//
// No private name of the repository is used: each pool is reached through its exported variable, its creator
// function is located by TYPE (the single field of type func() *service.PooledColumn[T]) and replaced by one that
// builds the same exported PooledColumn with a small column.  Acquire() still sets name, release and size callbacks
// exactly as before.  If the shape has changed nothing is replaced and the caller is told (same verdicts, slower).
func smallPools() bool {
	const n = 64
	ok := true
	ok = shrink(service.DatePool, func() proto.ColDate { return make(proto.ColDate, 0, n) }) && ok
	ok = shrink(service.Int64Pool, func() proto.ColInt64 { return make(proto.ColInt64, 0, n) }) && ok
	ok = shrink(service.UInt64Pool, func() proto.ColUInt64 { return make(proto.ColUInt64, 0, n) }) && ok
	ok = shrink(service.UInt8Pool, func() proto.ColUInt8 { return make(proto.ColUInt8, 0, n) }) && ok
	ok = shrink(service.Float64Pool, func() proto.ColFloat64 { return make(proto.ColFloat64, 0, n) }) && ok
	ok = shrink(service.StrPool, func() *proto.ColStr {
		return &proto.ColStr{Buf: make([]byte, 0, 1024), Pos: make([]proto.Position, 0, n)}
	}) && ok
	return ok
}

func shrink[T proto.ColInput](pool any, mk func() T) (done bool) {
	defer func() {
		if recover() != nil {
			done = false
		}
	}()
	v := reflect.ValueOf(pool)
	if v.Kind() != reflect.Ptr || v.IsNil() || v.Elem().Kind() != reflect.Struct {
		return false
	}
	e := v.Elem()
	want := reflect.TypeOf((func() *service.PooledColumn[T])(nil))
	idx := -1
	for i := 0; i < e.NumField(); i++ {
		if e.Field(i).Type() == want {
			if idx >= 0 {
				return false // ambiguous
			}
			idx = i
		}
	}
	if idx < 0 {
		return false
	}
	f := e.Field(idx)
	fn := func() *service.PooledColumn[T] { return &service.PooledColumn[T]{Data: mk()} }
	reflect.NewAt(f.Type(), unsafe.Pointer(f.UnsafeAddr())).Elem().Set(reflect.ValueOf(fn))
	return true
}
