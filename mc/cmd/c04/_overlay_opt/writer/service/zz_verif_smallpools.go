//go:build verifopt

package service

import "github.com/ClickHouse/ch-go/proto"

// VerifSmallPools re-creates the column pools used by the time_series and samples insert services with small
// initial capacities.  The production constructors allocate ~1.5 MB of zeroed columns per flush (1 MiB for every
// UInt8 column alone); a history explorer that forces one flush per request spends most of its time clearing that
// memory.  Only capacities differ — release/size callbacks are the ones of CreateColPools.
func VerifSmallPools() {
	const n = 64
	DatePool = newColPool[proto.ColDate](func() proto.ColDate { return make(proto.ColDate, 0, n) }, 0).
		OnRelease(func(col *PooledColumn[proto.ColDate]) { col.Data = col.Data[:0] }).
		OnGetSize(func(col *PooledColumn[proto.ColDate]) int { return len(col.Data) })
	Int64Pool = newColPool[proto.ColInt64](func() proto.ColInt64 { return make(proto.ColInt64, 0, n) }, 0).
		OnRelease(func(col *PooledColumn[proto.ColInt64]) { col.Data = col.Data[:0] }).
		OnGetSize(func(col *PooledColumn[proto.ColInt64]) int { return len(col.Data) })
	UInt64Pool = newColPool[proto.ColUInt64](func() proto.ColUInt64 { return make(proto.ColUInt64, 0, n) }, 0).
		OnRelease(func(col *PooledColumn[proto.ColUInt64]) { col.Data = col.Data[:0] }).
		OnGetSize(func(col *PooledColumn[proto.ColUInt64]) int { return len(col.Data) })
	UInt8Pool = newColPool[proto.ColUInt8](func() proto.ColUInt8 { return make(proto.ColUInt8, 0, n) }, 0).
		OnRelease(func(col *PooledColumn[proto.ColUInt8]) { col.Data = col.Data[:0] }).
		OnGetSize(func(col *PooledColumn[proto.ColUInt8]) int { return col.Data.Rows() })
	Float64Pool = newColPool[proto.ColFloat64](func() proto.ColFloat64 { return make(proto.ColFloat64, 0, n) }, 0).
		OnRelease(func(col *PooledColumn[proto.ColFloat64]) { col.Data = col.Data[:0] }).
		OnGetSize(func(col *PooledColumn[proto.ColFloat64]) int { return len(col.Data) })
	StrPool = newColPool[*proto.ColStr](func() *proto.ColStr {
		return &proto.ColStr{Buf: make([]byte, 0, 1024), Pos: make([]proto.Position, 0, n)}
	}, 0).OnRelease(func(col *PooledColumn[*proto.ColStr]) {
		col.Data.Buf = col.Data.Buf[:0]
		col.Data.Pos = col.Data.Pos[:0]
	}).OnGetSize(func(col *PooledColumn[*proto.ColStr]) int { return col.Data.Rows() })
}
