package main

import (
	"bytes"
	"encoding/json"
	"fmt"
	"net/http/httptest"
	"os"
	"reflect"
	"runtime"
	"runtime/pprof"
	"sort"
	"strings"
	"time"
	_ "time/tzdata"
	"unsafe"

	"github.com/VictoriaMetrics/fastcache"
	clcfg "github.com/metrico/cloki-config/config"
	"github.com/metrico/qryn/reader/logql/logql_transpiler_v2/clickhouse_planner"
	"github.com/metrico/qryn/writer/config"
	controllerv1 "github.com/metrico/qryn/writer/controller"
	"github.com/metrico/qryn/writer/model"
	"github.com/metrico/qryn/writer/service"
	"github.com/metrico/qryn/writer/service/impl"
	"github.com/metrico/qryn/writer/utils/numbercache"

	ir "verif/mc/ingestref"
)

// ---------------------------------------------------------------------------------------------------------
// C04 part b — histories.  One worker process per (TZ, cluster, retry attempts[, first event]) configuration:
// time.Local is process-global, so the zone is set through TZ at spawn.
//
// The world is the real write path, sequentialised: the real HTTP handler controller.PushStreamV2 (real parser,
// real doParse/doPush with retry-go), the real numbercache.Cache, the real insert services built by
// impl.NewTimeSeriesInsertService / impl.NewSamplesInsertService (their Run loops are real goroutines; a flush is
// forced for every request through MaxQueueSize=1, the timer never fires), over ingestref.FakeCH which decodes
// every INSERT block and fails the INSERTs the environment chose.  After every request the worker waits until all
// goroutines of the request are gone (quiescence), so histories are sequential and deterministic.

type bConfig struct {
	TZ      string `json:"tz"`
	Cluster bool   `json:"cluster,omitempty"` // legacy spelling: false = topology "ss", true = "cc_same"
	// Topo: the two configured databases n1 (db1) and n2 (db2): "ss" both standalone, "cc_same" both in cluster c1,
	// "cc_diff" clusters c1 and c2, "cs" n1 in cluster c1 and n2 standalone.  Both always exist and share the ONE
	// real numbercache (FPCache.DB(node)), each has its own insert services and its own fake ClickHouse client.
	Topo string `json:"topo,omitempty"`
	// Nodes: 2 = every push event exists for either target database (X-CH-DSN), 0/1 = pushes go to n1 only
	Nodes int `json:"nodes,omitempty"`
	Retry int `json:"retry_attempts"`
	// Budget bounds the total size of a history: a control event costs 1, a push costs its number of entries.
	Budget int `json:"budget"`
	// MaxEntries bounds the request shapes in the alphabet: 1 = one stream with one entry (histories are then plain
	// depth-bounded), up to 4 = every shape of 1-2 streams x 1-2 entries.
	MaxEntries int `json:"max_entries"`
	Shard      int `json:"shard"`  // the i-th first event is explored by shard i % Shards
	Shards     int `json:"shards"` // 0/1: whole tree
	// replay mode
	History []string `json:"history,omitempty"`
}

// Day classes of a sample instant (base day D = 2024-01-10, shifted by a day after `midnight`).
var dayClasses = []string{"D", "D+1", "UM-1", "UM+1", "LM-1", "LM+1"}

var controlEvents = []string{"ts_fail", "ts_ok", "spl_fail", "spl_ok", "retry", "cache_reset", "midnight", "pushbad:A", "pushbad:B"}

// pushEvents: every request shape of 1-2 streams (series A or B each, so "same series twice" and "two series" are
// both in), each stream with 1-2 entries whose instants are drawn from the day classes in every order, with at
// most maxEntries entries in total.  Syntax: push:A[D,UM+1]&A[LM-1].
func pushEvents(maxEntries int) []string {
	var lists []string // entry lists of one stream
	for _, a := range dayClasses {
		lists = append(lists, a)
	}
	for _, a := range dayClasses {
		for _, b := range dayClasses {
			lists = append(lists, a+","+b)
		}
	}
	n := func(l string) int { return strings.Count(l, ",") + 1 }
	var out []string
	for _, s1 := range []string{"A", "B"} {
		for _, l1 := range lists {
			if n(l1) <= maxEntries {
				out = append(out, fmt.Sprintf("push:%s[%s]", s1, l1))
			}
		}
	}
	for _, s1 := range []string{"A", "B"} {
		for _, l1 := range lists {
			for _, s2 := range []string{"A", "B"} {
				for _, l2 := range lists {
					if n(l1)+n(l2) <= maxEntries {
						out = append(out, fmt.Sprintf("push:%s[%s]&%s[%s]", s1, l1, s2, l2))
					}
				}
			}
		}
	}
	return out
}

func alphabet(maxEntries, nodes int) []string {
	ev := append(pushEvents(maxEntries), controlEvents...)
	if nodes >= 2 { // the target database is a dimension of every push event
		for _, e := range append([]string{}, ev...) {
			if strings.HasPrefix(e, "push:") || strings.HasPrefix(e, "pushbad:") {
				ev = append(ev, strings.Replace(e, ":", "@n2:", 1))
			}
		}
	}
	return ev
}

func (c bConfig) topo() string {
	if c.Topo != "" {
		return c.Topo
	}
	if c.Cluster {
		return "cc_same"
	}
	return "ss"
}

func eventCost(e string) int {
	if strings.HasPrefix(e, "push:") {
		return strings.Count(e, ",") + strings.Count(e, "[")
	}
	return 1
}

type bViolation struct {
	Class   string   `json:"class"`
	What    string   `json:"what"`
	History []string `json:"history"`
}

type bResult struct {
	Config      bConfig          `json:"config"`
	States      int64            `json:"states"`
	Transitions int64            `json:"transitions"`
	Requests    int64            `json:"requests"`
	Inserts     int64            `json:"inserts"`
	MaxDepth    int              `json:"max_depth"`
	Frontier    int              `json:"frontier_left"`
	StateHashes []uint64         `json:"state_hashes"`
	Violations  []bViolation     `json:"violations"`
	ClassCount  map[string]int64 `json:"class_count"`
	Outcomes    map[string]int64 `json:"outcomes"`
	Notes       []string         `json:"notes,omitempty"`
	ZoneOffsetS int              `json:"zone_offset_s"`
	Verdict     string           `json:"verdict,omitempty"` // replay
}

// shadowCache passes every call through to the real numbercache and records what happened: the set of keys held
// since the last reset (for the state key) and, per request, which keys were newly announced and which were
// answered "already seen" (for explaining a missing series row).
type ckey struct {
	DB string // the node name the view was asked for (FPCache.DB(node))
	K  uint64
}

type shadowLog struct {
	// epoch: the real cache offers no way to forget through its exported API (only its 30-minute ticker resets it), so
	// "the cache is empty again" — a cache reset event, or the start of another history — is a new key epoch: every key
	// is XOR-ed with a per-epoch mask before it reaches the real cache, which therefore has never seen any key of the
	// new epoch.  Everything else (views per node, cluster bypass, key spaces, locking) is the real cache's doing.
	epoch uint64
	held  map[ckey]struct{}
	set  map[ckey]struct{} // this request: CheckAndSet returned false (pair announced now)
	hit  map[ckey]struct{} // this request: CheckAndSet returned true (pair suppressed)
}

type shadowCache struct {
	real numbercache.ICache[uint64]
	db   string
	log  *shadowLog
}

func epochMask(e uint64) uint64 { // splitmix64: distinct epochs give distinct masks
	e += 0x9e3779b97f4a7c15
	e = (e ^ (e >> 30)) * 0xbf58476d1ce4e5b9
	e = (e ^ (e >> 27)) * 0x94d049bb133111eb
	return e ^ (e >> 31)
}

func (s shadowCache) CheckAndSet(k uint64) bool {
	res := s.real.CheckAndSet(k ^ epochMask(s.log.epoch))
	ck := ckey{s.db, k}
	s.log.held[ck] = struct{}{}
	if res {
		s.log.hit[ck] = struct{}{}
	} else {
		s.log.set[ck] = struct{}{}
	}
	return res
}
func (s shadowCache) DB(db string) numbercache.ICache[uint64] { return shadowCache{s.real.DB(db), db, s.log} }

// fakeRegistry answers like registry.staticServiceRegistry for an explicit X-CH-DSN: the services of the node with
// that name (an empty id gets n1 here instead of a random node).
type nodeSvcs struct{ ts, spl, prof service.IInsertServiceV2 }
type fakeRegistry struct{ nodes map[string]nodeSvcs }

func (r fakeRegistry) of(id string) nodeSvcs {
	if n, ok := r.nodes[id]; ok {
		return n
	}
	return r.nodes["n1"]
}
func (r fakeRegistry) GetTimeSeriesService(id string) (service.IInsertServiceV2, error) { return r.of(id).ts, nil }
func (r fakeRegistry) GetSamplesService(id string) (service.IInsertServiceV2, error)    { return r.of(id).spl, nil }
func (r fakeRegistry) GetMetricsService(id string) (service.IInsertServiceV2, error)    { return r.of(id).spl, nil }
func (r fakeRegistry) GetSpansService(id string) (service.IInsertServiceV2, error)      { return r.of(id).spl, nil }
func (r fakeRegistry) GetSpansSeriesService(id string) (service.IInsertServiceV2, error) {
	return r.of(id).ts, nil
}
func (r fakeRegistry) GetProfileInsertService(id string) (service.IInsertServiceV2, error) {
	return r.of(id).prof, nil
}
func (r fakeRegistry) Run()                                                             {}
func (r fakeRegistry) Stop()                                                            {}

type skey struct {
	Node uint8 // database the row was inserted into (0 = n1/db1, 1 = n2/db2)
	FP   uint64
	Day  uint16
}
type akey struct {
	Node uint8 // database the sample was acknowledged by
	FP   uint64
	Ts   int64
}

type pushRec struct {
	Event string // the push / pushbad event as written
	Clock int    // the clock at the time (a retry re-sends the same instants)
}

type world struct {
	cfg      bConfig
	cache    *numbercache.Cache[uint64]
	realSets *fastcache.Cache // the store behind the real cache, located by TYPE (nil if the shape changed); only emptied for hygiene
	slog     *shadowLog
	shadow   map[ckey]struct{} // = slog.held
	fake     *ir.FakeCH    // client of n1; its pending faults are shared with the client of n2
	fakes    []*ir.FakeCH  // per database
	handler  func(w *httptest.ResponseRecorder, body []byte) int
	target   string // node name of the request being sent
	baseline int
	// history state
	clock    int
	last     *pushRec
	acked    map[akey]struct{}
	inserted map[skey]struct{}
	failed   map[skey]struct{}
	poisoned map[ckey]string // cache keys announced by a request whose series rows never reached ClickHouse: "rejected" | "failed_insert"
	hitWhy   map[string]bool   // only during push: reasons of the poisoned keys this request hit
	ackClass map[akey]string   // explanation of an undiscoverable sample, fixed at the moment it was acknowledged
	ownFailed map[skey]struct{} // series rows of failed INSERTs of the request being folded in (only during push)
	shifts bool // calibration: this process stores the series row of a noon sample under the previous day (the D9 behaviour), observed on the warm-up request
	requests int64
	inserts  int64
	handlerNs, quiesceNs int64
	notes    map[string]bool
}

var w0notes []string

// shrinkPoolsOpt is set by opt_pools.go when the optional overlay is part of the build.
var shrinkPoolsOpt func()

func newWorld(cfg bConfig) *world {
	ir.InitWriterGlobals()
	config.Cloki.Setting.SYSTEM_SETTINGS.RetryAttempts = cfg.Retry
	config.Cloki.Setting.SYSTEM_SETTINGS.RetryTimeoutS = 0
	service.CreateColPools(0)
	if shrinkPoolsOpt != nil {
		shrinkPoolsOpt() // optional overlay (tag verifopt): same pools, small initial capacities
	} else if !smallPools() { // the same through exported names only, creator located by type, see pools.go
		w0notes = append(w0notes, "column pools keep their production capacities (creator function not found by type): same verdicts, slower")
	}
	clusters := map[string][2]string{"ss": {"", ""}, "cc_same": {"c1", "c1"}, "cc_diff": {"c1", "c2"}, "cs": {"c1", ""}}[cfg.topo()]
	nodes := []*model.DataDatabasesMap{
		{ClokiBaseDataBase: clcfg.ClokiBaseDataBase{Node: "n1", Name: "db1", ClusterName: clusters[0], WriteTimeout: 30}},
		{ClokiBaseDataBase: clcfg.ClokiBaseDataBase{Node: "n2", Name: "db2", ClusterName: clusters[1], WriteTimeout: 30}},
	}
	w := &world{cfg: cfg, notes: map[string]bool{}}
	for _, n := range w0notes {
		w.notes[n] = true
	}
	w.fake = ir.NewFakeCH()
	w.fakes = []*ir.FakeCH{w.fake, ir.NewFakeCHSharing(w.fake.Faults())}
	// ONE cache for all configured databases, as plugin.GoCache / controller.FPCache in production
	w.cache = numbercache.NewCache[uint64](1000*time.Hour, func(val uint64) []byte {
		return unsafe.Slice((*byte)(unsafe.Pointer(&val)), 8) // the serializer of plugin/qryn_writer_db.go
	}, map[string]*model.DataDatabasesMap{"n1": nodes[0], "n2": nodes[1]})
	w.slog = &shadowLog{held: map[ckey]struct{}{}, set: map[ckey]struct{}{}, hit: map[ckey]struct{}{}}
	w.shadow = w.slog.held
	reg := fakeRegistry{nodes: map[string]nodeSvcs{}}
	for i, node := range nodes {
		fake := w.fakes[i]
		ts := impl.NewTimeSeriesInsertService(model.InsertServiceOpts{Session: fake.Factory(), Node: node,
			Interval: 24 * 365 * time.Hour, MaxQueueSize: 1, ParallelNum: 1})
		ts.Init()
		go ts.Run()
		spl := impl.NewSamplesInsertService(model.InsertServiceOpts{Session: fake.Factory(), Node: node,
			Interval: 24 * 365 * time.Hour, MaxQueueSize: 1, ParallelNum: 1,
			OnBeforeInsert: func() { ts.PlanFlush() }}) // as wired in plugin/qryn_writer_db.go
		spl.Init()
		go spl.Run()
		prof := impl.NewProfileSamplesInsertService(model.InsertServiceOpts{Session: fake.Factory(), Node: node,
			Interval: 24 * 365 * time.Hour, ParallelNum: 1})
		prof.Init()
		reg.nodes[node.Node] = nodeSvcs{ts, spl, prof}
	}
	controllerv1.Registry = reg
	controllerv1.FPCache = shadowCache{w.cache, "", w.slog}
	w.realSets = locateFastcache(w.cache)
	if w.realSets == nil {
		w.notes["the cache's fastcache store was not found by type: epochs alone separate the histories (the store is never emptied, it is a 100 MB ring)"] = true
	}
	h := controllerv1.PushStreamV2(controllerv1.NewMiddlewareConfig(controllerv1.WithExtraMiddlewareDefault...))
	w.handler = func(rec *httptest.ResponseRecorder, body []byte) int {
		req := httptest.NewRequest("POST", "/loki/api/v1/push", bytes.NewReader(body))
		req.Header.Set("Content-Type", "application/json")
		req.Header.Set("X-CH-DSN", w.target) // the configured database this request is for
		h(rec, req)
		return rec.Code
	}
	w.resetHistory()
	// warm-up request (connects both services), then take the goroutine baseline
	w.push("push@n2:W[D]", -1000)
	w.push("push:W[D]", -1000)
	// calibration of the D9 classifier: one series, one sample at 12:00Z — under which day did its series row travel?
	for a := range w.acked {
		for r := range w.inserted {
			if r.FP == a.FP && int64(r.Day) == a.Ts/1e9/86400-1 {
				w.shifts = true
			}
		}
	}
	time.Sleep(20 * time.Millisecond)
	w.baseline = runtime.NumGoroutine()
	w.resetHistory()
	w.requests, w.inserts = 0, 0
	return w
}

func (w *world) resetHistory() {
	w.forget()
	for k := range w.shadow {
		delete(w.shadow, k)
	}
	for _, f := range w.fakes {
		f.Reset()
	}
	w.clock = 0
	w.last = nil
	w.acked = map[akey]struct{}{}
	w.inserted = map[skey]struct{}{}
	w.failed = map[skey]struct{}{}
	w.poisoned = map[ckey]string{}
	w.ackClass = map[akey]string{}
}

// snap is a restorable copy of the whole world state.  The real objects hold no other state between requests: the
// services' buffers are empty after a forced flush, the cache is a set of keys (rebuilt by replaying CheckAndSet on
// the real cache), the fake holds the pending-fault counters.  Restoring instead of replaying the prefix keeps
// one transition = one request; the equivalence is re-validated by full replays (see validate()).
type snap struct {
	Hist     []string
	Clock    int
	Last     *pushRec
	Acked    []akey
	AckClass []string
	Inserted []skey
	Failed   []skey
	Poison   map[ckey]string
	Shadow   []ckey
	TsFail   int
	SplFail  int
}

func (w *world) snapshot(hist []string) *snap {
	s := &snap{Hist: hist, Clock: w.clock, TsFail: w.fake.Fail("time_series"), SplFail: w.fake.Fail("samples")}
	if w.last != nil {
		l := *w.last
		s.Last = &l
	}
	for k := range w.acked {
		s.Acked = append(s.Acked, k)
		s.AckClass = append(s.AckClass, w.ackClass[k])
	}
	for k := range w.inserted {
		s.Inserted = append(s.Inserted, k)
	}
	for k := range w.failed {
		s.Failed = append(s.Failed, k)
	}
	s.Poison = map[ckey]string{}
	for k, v := range w.poisoned {
		s.Poison[k] = v
	}
	for k := range w.shadow {
		s.Shadow = append(s.Shadow, k)
	}
	return s
}

func (w *world) restore(s *snap) {
	w.resetHistory()
	w.clock = s.Clock
	if s.Last != nil {
		l := *s.Last
		w.last = &l
	}
	for i, k := range s.Acked {
		w.acked[k] = struct{}{}
		if s.AckClass[i] != "" {
			w.ackClass[k] = s.AckClass[i]
		}
	}
	for _, k := range s.Inserted {
		w.inserted[k] = struct{}{}
	}
	for _, k := range s.Failed {
		w.failed[k] = struct{}{}
	}
	for k, v := range s.Poison {
		w.poisoned[k] = v
	}
	for _, k := range s.Shadow {
		w.cache.DB(k.DB).CheckAndSet(k.K ^ epochMask(w.slog.epoch)) // the real cache relearns exactly the keys it held, through the same views
		w.shadow[k] = struct{}{}
	}
	w.fake.SetFail("time_series", s.TsFail)
	w.fake.SetFail("samples", s.SplFail)
}

// forget makes the real cache empty for everything that follows: a new key epoch (exported API only).  If the store
// behind the cache could be located by type it is emptied as well, at quiescence — hygiene, so that dead epochs do not
// pile up in the 100 MB ring; correctness does not depend on it.
func (w *world) forget() {
	w.slog.epoch++
	if w.realSets != nil {
		w.realSets.Reset()
	}
}

// locateFastcache finds, by TYPE, the single *fastcache.Cache field of the cache object.
func locateFastcache(c any) *fastcache.Cache {
	v := reflect.ValueOf(c)
	if v.Kind() != reflect.Ptr || v.IsNil() || v.Elem().Kind() != reflect.Struct {
		return nil
	}
	e := v.Elem()
	want := reflect.TypeOf((*fastcache.Cache)(nil))
	var found *fastcache.Cache
	n := 0
	for i := 0; i < e.NumField(); i++ {
		if f := e.Field(i); f.Type() == want {
			n++
			found = *(**fastcache.Cache)(unsafe.Pointer(f.UnsafeAddr()))
		}
	}
	if n != 1 {
		return nil
	}
	return found
}

// quiesce waits until every goroutine started for the request (parser, doPush/retry workers, drainers) is gone.
func (w *world) quiesce() {
	if w.baseline == 0 {
		return
	}
	deadline := time.Now().Add(20 * time.Second)
	for i := 0; runtime.NumGoroutine() > w.baseline; i++ {
		if i < 200000 { // short sleeps round up to ~1 ms (epoll granularity): spin politely first
			runtime.Gosched()
			continue
		}
		time.Sleep(50 * time.Microsecond)
		if time.Now().After(deadline) {
			fmt.Fprintf(os.Stderr, "HARNESS-ERROR: request goroutines did not finish (have %d, baseline %d)\n", runtime.NumGoroutine(), w.baseline)
			os.Exit(2)
		}
	}
}

func tsOf(day string, clock int) int64 {
	var t time.Time
	switch day {
	case "D":
		t = time.Date(2024, 1, 10, 12, 0, 0, 0, time.UTC)
	case "D+1":
		t = time.Date(2024, 1, 11, 12, 0, 0, 0, time.UTC)
	case "UM-1": // one second before UTC midnight
		t = time.Date(2024, 1, 10, 23, 59, 59, 0, time.UTC)
	case "UM+1": // one second after UTC midnight
		t = time.Date(2024, 1, 11, 0, 0, 1, 0, time.UTC)
	case "LM-1": // one second before local midnight
		t = time.Date(2024, 1, 10, 23, 59, 59, 0, time.Local)
	case "LM+1": // one second after local midnight
		t = time.Date(2024, 1, 11, 0, 0, 1, 0, time.Local)
	default:
		panic("day class " + day)
	}
	return t.UnixNano() + int64(clock)*86400*1e9
}

// requestOf turns a push / pushbad event into the streams of the request.  Series X is {app=x, env=p}; when a series
// occurs a second time in the request its labels are written in the other order.  Two entries of one series with the
// same day class get instants 1 ns apart so that every submitted entry is its own row.
func requestOf(e string, clock int) (streams []ir.Stream, bad bool) {
	f := strings.SplitN(e, ":", 2)
	f[0] = strings.TrimSuffix(f[0], "@n2")
	spec := f[1]
	if f[0] == "pushbad" {
		bad = true
		spec = f[1] + "[D]"
	}
	seenSeries := map[string]int{}
	seenInstant := map[string]int64{}
	for _, part := range strings.Split(spec, "&") {
		i := strings.IndexByte(part, '[')
		series, list := part[:i], part[i+1:len(part)-1]
		labels := []ir.Label{{Name: "app", Value: strings.ToLower(series)}, {Name: "env", Value: "p"}}
		if seenSeries[series]%2 == 1 {
			labels[0], labels[1] = labels[1], labels[0]
		}
		seenSeries[series]++
		st := ir.Stream{Labels: labels}
		for _, dc := range strings.Split(list, ",") {
			k := series + "/" + dc
			st.Entries = append(st.Entries, ir.Entry{TsNs: tsOf(dc, clock) + seenInstant[k], Line: "l", Type: ir.TypeLog})
			seenInstant[k]++
		}
		streams = append(streams, st)
	}
	return streams, bad
}

// push sends one Loki JSON request (bad: followed by a stream the server rejects with 400) through the real
// handler and folds the outcome into the state.
func (w *world) push(event string, clock int) int {
	st, bad := requestOf(event, clock)
	w.target = "n1"
	if strings.Contains(strings.SplitN(event, ":", 2)[0], "@n2") {
		w.target = "n2"
	}
	body, err := ir.RenderLokiJSON(st, ir.Opt{})
	if err != nil {
		panic(err)
	}
	if bad {
		body = append(body[:len(body)-2], []byte(`,{"stream":{"app":"zz"},"values":[["not-a-timestamp","l"]]}]}`)...)
	}
	w.slog.set = map[ckey]struct{}{}
	w.slog.hit = map[ckey]struct{}{}
	rec := httptest.NewRecorder()
	t0 := time.Now()
	code := w.handler(rec, body)
	t1 := time.Now()
	w.quiesce()
	w.handlerNs += t1.Sub(t0).Nanoseconds()
	w.quiesceNs += time.Since(t1).Nanoseconds()
	w.requests++
	type nodeSample struct {
		node uint8
		ir.SampleRow
	}
	var okSamples []nodeSample
	var log []ir.Insert
	nodeOf := map[int]uint8{} // index in log -> database
	for ni, f := range w.fakes {
		for _, ins := range f.Take() {
			nodeOf[len(log)] = uint8(ni)
			log = append(log, ins)
		}
	}
	reqNode := uint8(0)
	if w.target == "n2" {
		reqNode = 1
	}
	w.ownFailed = map[skey]struct{}{}
	w.hitWhy = map[string]bool{}
	for k := range w.slog.hit {
		if why, ok := w.poisoned[k]; ok {
			w.hitWhy[why] = true
		}
	}
	defer func() { w.ownFailed, w.hitWhy = nil, nil }()
	seriesAttempted, seriesOK := false, false
	for _, ins := range log {
		if ins.Table == "time_series" {
			seriesAttempted = true
			if ins.OK {
				seriesOK = true
			}
		}
	}
	// the pairs this request announced are poisoned when their series rows never reached ClickHouse
	for k := range w.slog.set {
		switch {
		case !seriesAttempted:
			w.poisoned[k] = "rejected"
		case !seriesOK:
			w.poisoned[k] = "failed_insert"
		default:
			delete(w.poisoned, k)
		}
	}
	for li, ins := range log {
		w.inserts++
		if nodeOf[li] != reqNode {
			w.notes[fmt.Sprintf("a request for %s reached the client of another database", w.target)] = true
		}
		if len(ins.RowsPer) > 0 {
			n := -1
			for _, c := range ins.RowsPer {
				if n >= 0 && c != n {
					w.notes["non-rectangular INSERT block seen: "+ins.Query] = true
				}
				n = c
			}
		}
		switch ins.Table {
		case "time_series":
			for _, r := range ins.Series {
				if ins.OK {
					w.inserted[skey{nodeOf[li], r.FP, r.Day}] = struct{}{}
				} else {
					w.failed[skey{nodeOf[li], r.FP, r.Day}] = struct{}{}
					w.ownFailed[skey{nodeOf[li], r.FP, r.Day}] = struct{}{}
				}
			}
		case "samples":
			if ins.OK {
				for _, r := range ins.Samples {
					okSamples = append(okSamples, nodeSample{nodeOf[li], r})
				}
			}
		}
	}
	if code >= 200 && code < 300 {
		if len(okSamples) == 0 {
			w.notes["acknowledged request without a successful samples INSERT"] = true
		}
		for _, s := range okSamples {
			k := akey{s.node, s.FP, s.TsNs}
			if _, old := w.acked[k]; !old {
				w.acked[k] = struct{}{}
				if c, _ := w.checkOne(k); c != "" {
					w.ackClass[k] = c
				}
			}
		}
	}
	return code
}

// apply runs one event; it returns an outcome token for coverage, or "" when the event is a no-op in this state
// (the explorer does not follow no-ops).
func (w *world) apply(e string) string {
	f := strings.Split(e, ":")
	switch strings.TrimSuffix(f[0], "@n2") {
	case "push", "pushbad":
		code := w.push(e, w.clock)
		w.last = &pushRec{e, w.clock}
		return fmt.Sprintf("%s:%d", f[0], code)
	case "retry":
		if w.last == nil {
			return ""
		}
		code := w.push(w.last.Event, w.last.Clock)
		return fmt.Sprintf("retry:%d", code)
	case "ts_fail":
		if w.fake.Fail("time_series") >= w.cfg.Retry {
			return ""
		}
		w.fake.SetFail("time_series", w.fake.Fail("time_series")+1)
		return "fault"
	case "ts_ok":
		if w.fake.Fail("time_series") == 0 {
			return ""
		}
		w.fake.SetFail("time_series", 0)
		return "fault"
	case "spl_fail":
		if w.fake.Fail("samples") >= w.cfg.Retry {
			return ""
		}
		w.fake.SetFail("samples", w.fake.Fail("samples")+1)
		return "fault"
	case "spl_ok":
		if w.fake.Fail("samples") == 0 {
			return ""
		}
		w.fake.SetFail("samples", 0)
		return "fault"
	case "cache_reset":
		if len(w.shadow) == 0 {
			return ""
		}
		w.forget()
		for k := range w.shadow {
			delete(w.shadow, k)
		}
		w.poisoned = map[ckey]string{}
		return "cache_reset"
	case "midnight":
		if w.clock >= 1 {
			return ""
		}
		w.clock++
		return "midnight"
	}
	panic("event " + e)
}

func (w *world) key() string {
	var sb strings.Builder
	fmt.Fprintf(&sb, "c%d tf%d sf%d ", w.clock, w.fake.Fail("time_series"), w.fake.Fail("samples"))
	if w.last != nil {
		fmt.Fprintf(&sb, "last=%s@%d ", w.last.Event, w.last.Clock)
	}
	var a []string
	for k := range w.acked {
		a = append(a, fmt.Sprintf("n%d:%d@%d", k.Node+1, k.FP, k.Ts))
	}
	sort.Strings(a)
	var s []string
	for k := range w.inserted {
		s = append(s, fmt.Sprintf("n%d:%d/%d", k.Node+1, k.FP, k.Day))
	}
	sort.Strings(s)
	var c []string
	for k := range w.shadow {
		c = append(c, fmt.Sprintf("%s/%x", k.DB, k.K))
	}
	sort.Strings(c)
	sb.WriteString("A[" + strings.Join(a, " ") + "] S[" + strings.Join(s, " ") + "] C[" + strings.Join(c, " ") + "]")
	return sb.String()
}

func dayString(d uint16) string { return time.Unix(int64(d)*86400, 0).UTC().Format("2006-01-02") }

// check is the oracle: every acknowledged sample (fp, ts) must have a successfully inserted time_series row
// (fp, date) with date >= FormatFromDate(from) — the reader's real lower bound — for every query window [from, to)
// that contains ts.  `date` is the day number that was really sent in the Date column.
func (w *world) check() (class, what string) {
	var keys []akey
	for k := range w.acked {
		keys = append(keys, k)
	}
	sort.Slice(keys, func(i, j int) bool {
		if keys[i].Ts != keys[j].Ts {
			return keys[i].Ts < keys[j].Ts
		}
		return keys[i].FP < keys[j].FP
	})
	for _, k := range keys {
		if c, what := w.checkOne(k); c != "" {
			if ac := w.ackClass[k]; ac != "" {
				c = ac // the explanation is the one that held when the sample was acknowledged
			}
			return c, what
		}
	}
	return "", ""
}

func (w *world) checkOne(k akey) (class, what string) {
	t := time.Unix(0, k.Ts)
	// windows containing ts: from <= ts < to.  The bound is monotone in `from`; the latest `from` is ts itself.
	froms := []time.Time{t, t.Add(-time.Second), t.Add(-30 * time.Minute), t.Add(-6 * time.Hour), t.Add(-24 * time.Hour)}
	for _, from := range froms {
		bound := clickhouse_planner.FormatFromDate(from)
		found := false
		for s := range w.inserted {
			if s.Node == k.Node && s.FP == k.FP && dayString(s.Day) >= bound {
				found = true
				break
			}
		}
		if found {
			continue
		}
		// classify by explanation
		bt, _ := time.Parse("2006-01-02", bound)
		bday := uint16(bt.Unix() / 86400)
		_, off := t.In(time.Local).Zone()
		ownFailedGood, any := false, false
		// D9 deviant rule: in a zone west of UTC every series row is dated one day early.  It is only considered when
		// this process has been observed to do so (calibration on the warm-up request: a 12:00Z sample whose series
		// row travelled under the previous day), and it explains the sample only if the sample WOULD be discoverable
		// with every stored day moved one day later — anything still missing then is a different defect.
		shifted := false
		for r := range w.failed {
			if r.Node == k.Node && r.FP == k.FP && r.Day >= bday {
				if _, own := w.ownFailed[r]; own {
					ownFailedGood = true
				}
			}
		}
		for r := range w.inserted {
			if r.Node == k.Node && r.FP == k.FP {
				any = true
				if w.shifts && dayString(r.Day+1) >= bound {
					shifted = true
				}
			}
		}
		rows := fmt.Sprintf("inserted=%s failed=%s", w.rowsOf(w.inserted, k), w.rowsOf(w.failed, k))
		what = fmt.Sprintf("TZ=%s topology=%s: sample acknowledged by database n%d fp=%d ts=%s is not discoverable there: a query with from=%s needs time_series.date >= '%s' but %s",
			w.cfg.TZ, w.cfg.topo(), k.Node+1, k.FP, t.UTC().Format(time.RFC3339), from.UTC().Format(time.RFC3339), bound, rows)
		switch {
		case shifted && off < 0:
			// the row exists (or was attempted) one day early in a zone west of UTC (D9)
			return "series_row_day_shifted_west_of_utc", what
		case ownFailedGood:
			// the request that is being acknowledged is the one whose series INSERT failed
			return "ack_although_own_series_insert_failed", what
		case w.hitWhy["failed_insert"]:
			// this request was told "pair already announced" for a pair whose only announcement sat in a failed series INSERT (D2)
			return "ack_without_series_row_after_failed_series_insert", what
		case w.hitWhy["rejected"]:
			// ... or in a request that was rejected before anything was inserted (D2b)
			return "ack_without_series_row_after_rejected_request", what
		case !any:
			return "ack_without_series_row", what
		default:
			return "series_row_under_too_early_day", what
		}
	}
	return "", ""
}

func (w *world) rowsOf(m map[skey]struct{}, a akey) string {
	var s []string
	for k := range m {
		if k.Node == a.Node && k.FP == a.FP {
			s = append(s, dayString(k.Day))
		}
	}
	sort.Strings(s)
	return "[" + strings.Join(s, " ") + "]"
}

// replayHistory runs a history from the empty state; it returns the outcome tokens ("" = no-op) of each event.
func (w *world) replayHistory(h []string) []string {
	w.resetHistory()
	out := make([]string, len(h))
	for i, e := range h {
		out[i] = w.apply(e)
	}
	return out
}

func fnv64(s string) uint64 {
	h := uint64(14695981039346656037)
	for i := 0; i < len(s); i++ {
		h ^= uint64(s[i])
		h *= 1099511628211
	}
	return h
}

func workerMain(arg string) {
	var cfg bConfig
	if err := json.Unmarshal([]byte(arg), &cfg); err != nil {
		fmt.Fprintln(os.Stderr, "HARNESS-ERROR: worker config:", err)
		os.Exit(2)
	}
	if got := os.Getenv("TZ"); got != cfg.TZ {
		fmt.Fprintf(os.Stderr, "HARNESS-ERROR: worker TZ=%q, config wants %q\n", got, cfg.TZ)
		os.Exit(2)
	}
	if pf := os.Getenv("VERIF_C04_CPUPROFILE"); pf != "" {
		f, _ := os.Create(pf)
		pprof.StartCPUProfile(f)
		defer pprof.StopCPUProfile()
	}
	w := newWorld(cfg)
	res := bResult{Config: cfg, ClassCount: map[string]int64{}, Outcomes: map[string]int64{}}
	_, off := time.Date(2024, 1, 10, 12, 0, 0, 0, time.UTC).In(time.Local).Zone()
	res.ZoneOffsetS = off
	deadline := time.Time{}
	if s := os.Getenv("VERIF_WORKER_DEADLINE"); s != "" {
		if t, err := time.Parse(time.RFC3339Nano, s); err == nil {
			deadline = t
		}
	}
	if cfg.History != nil { // replay
		w.resetHistory()
		res.Verdict = "held"
		for i, e := range cfg.History {
			tok := w.apply(e)
			res.Outcomes[fmt.Sprintf("%d:%s:%s", i, e, tok)]++
			if c, what := w.check(); c != "" {
				res.Verdict = "violated"
				res.Violations = append(res.Violations, bViolation{c, what, cfg.History[:i+1]})
				break
			}
		}
		res.Requests, res.Inserts = w.requests, w.inserts
		b, _ := json.Marshal(res)
		fmt.Println(string(b))
		return
	}
	// Exploration by total history size: bucket[c] holds the states whose cheapest known history costs c; a state is
	// expanded with every event that still fits into the budget.  A state found again by a cheaper history moves to
	// the cheaper bucket (it has more budget left), so the explored set is exactly "all histories of size <= Budget".
	events := alphabet(cfg.MaxEntries, cfg.Nodes)
	best := map[string]int{}
	w.resetHistory()
	best[w.key()] = 0
	buckets := make([][]*snap, cfg.Budget+1)
	buckets[0] = []*snap{w.snapshot(nil)}
	bucketKey := map[*snap]string{}
	bucketKey[buckets[0][0]] = w.key()
	perClass := map[string]int{}
	validated := 0
	violating := map[string]string{} // state key -> class (a state may be re-bucketed; count it once)
	stop := false
	for c := 0; c <= cfg.Budget && !stop; c++ {
		for fi := 0; fi < len(buckets[c]) && !stop; fi++ {
			sn := buckets[c][fi]
			if best[bucketKey[sn]] != c {
				continue // re-bucketed to a cheaper level, already expanded there
			}
			if !deadline.IsZero() && time.Now().After(deadline) {
				left := 0
				for c2 := c; c2 <= cfg.Budget; c2++ {
					left += len(buckets[c2])
				}
				res.Frontier = left - fi
				res.Notes = append(res.Notes, fmt.Sprintf("deadline reached at history size %d", c))
				stop = true
				break
			}
			for ei, e := range events {
				ec := eventCost(e)
				if c+ec > cfg.Budget {
					continue
				}
				if c == 0 && cfg.Shards > 1 && ei%cfg.Shards != cfg.Shard {
					continue
				}
				w.restore(sn)
				tok := w.apply(e)
				if tok == "" {
					continue // no-op in this state
				}
				res.Transitions++
				res.Outcomes[strings.SplitN(e, ":", 2)[0]+"->"+tok]++
				k := w.key()
				if old, seen := best[k]; seen && old <= c+ec {
					continue
				}
				_, again := best[k]
				best[k] = c + ec
				h2 := append(append([]string{}, sn.Hist...), e)
				ns := w.snapshot(h2)
				bucketKey[ns] = k
				buckets[c+ec] = append(buckets[c+ec], ns)
				if again {
					continue // known state, only cheaper now: verdict already recorded
				}
				res.States++
				if len(h2) > res.MaxDepth {
					res.MaxDepth = len(h2)
				}
				cl, what := w.check()
				// the restore shortcut must be indistinguishable from running the whole history on an empty world:
				// every violating state that is reported, and every state of size <= 2, is re-derived by full replay
				if (cl != "" && perClass[cl] < 2) || c+ec <= 2 {
					w.replayHistory(h2)
					validated++
					c2, what2 := w.check()
					if w.key() != k || c2 != cl {
						// Either the restore shortcut is wrong (harness failure) or the implementation itself is not
						// deterministic on this history (Go randomises map iteration, with a strong bias: of two keys the
						// first inserted comes first 7 times out of 8).  Replay it 48 more times from the empty world: if
						// the replays differ among themselves it is the implementation; an outcome that violates in some
						// replays is a violation (the property is universal), reported as intermittent.
						keys := map[string]bool{w.key(): true}
						bad, badClass, badWhat := 0, c2, what2
						if c2 != "" {
							bad++
						}
						const more = 48
						for i := 0; i < more; i++ {
							w.replayHistory(h2)
							keys[w.key()] = true
							if c3, w3 := w.check(); c3 != "" {
								bad++
								badClass, badWhat = c3, w3
							}
						}
						if len(keys) < 2 {
							fmt.Fprintf(os.Stderr, "HARNESS-ERROR: restore and full replay disagree for %v:\n restore: %s %s\n replay:  %s %s\n", h2, k, cl, w.key(), c2)
							os.Exit(2)
						}
						res.Notes = append(res.Notes, fmt.Sprintf("implementation is not deterministic on %v: %d distinct outcomes in %d replays, %d violating", h2, len(keys), more+1, bad))
						if bad > 0 {
							cl, what = badClass, badWhat+fmt.Sprintf(" (intermittent: %d of %d replays of this history violate — the outcome depends on map iteration order)", bad, more+1)
						}
						w.restore(ns)
					}
				}
				if cl != "" {
					violating[k] = cl
					res.ClassCount[cl]++
					perClass[cl]++
					if perClass[cl] <= 2 {
						res.Violations = append(res.Violations, bViolation{cl, what, h2})
					}
				}
			}
		}
	}
	visited := best
	res.Notes = append(res.Notes, fmt.Sprintf("%d events in the alphabet (max %d entries per request); %d states re-derived by full replay from the empty world (all agreed with the restore shortcut)", len(events), cfg.MaxEntries, validated))
	for k := range visited {
		res.StateHashes = append(res.StateHashes, fnv64(k))
	}
	sort.Slice(res.StateHashes, func(i, j int) bool { return res.StateHashes[i] < res.StateHashes[j] })
	for n := range w.notes {
		res.Notes = append(res.Notes, n)
	}
	sort.Strings(res.Notes)
	res.Requests, res.Inserts = w.requests, w.inserts
	if os.Getenv("VERIF_C04_TIMING") != "" {
		fmt.Fprintf(os.Stderr, "timing: handler %.1f ms, quiesce %.1f ms for %d requests\n", float64(w.handlerNs)/1e6, float64(w.quiesceNs)/1e6, w.requests)
	}
	b, _ := json.Marshal(res)
	fmt.Println(string(b))
}
