//go:build verif

package numbercache

// VerifReset performs exactly what the 30-minute cleanup ticker of NewCache does (lock, Reset, unlock), so that a
// history explorer can make "the ticker fired" an event instead of waiting for wall-clock time.
func (c *Cache[T]) VerifReset() {
	c.mtx.Lock()
	c.sets.Reset()
	c.mtx.Unlock()
}
