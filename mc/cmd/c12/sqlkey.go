package main

import (
	"strings"
)

// finalKey classifies a statement by the output columns of its outermost (last top-level) SELECT: the list of
// aliases / trailing identifiers, joined with ",".  The reader's Scan sites depend only on that column list, so
// it is the "recognisable shape" the script keys on.  Non-SELECT statements are returned upper-cased.
func finalKey(q string) string {
	s := strings.TrimSpace(q)
	up := strings.ToUpper(s)
	if strings.HasPrefix(up, "SHOW TABLES") {
		return "SHOW TABLES"
	}
	// positions of top-level SELECT keywords
	depth := 0
	inStr := byte(0)
	lastSel := -1
	for i := 0; i < len(s); i++ {
		c := s[i]
		if inStr != 0 {
			if c == '\\' {
				i++
				continue
			}
			if c == inStr {
				inStr = 0
			}
			continue
		}
		switch c {
		case '\'', '`', '"':
			inStr = c
		case '(':
			depth++
		case ')':
			depth--
		default:
			if depth == 0 && (c == 'S' || c == 's') && i+6 <= len(s) && strings.EqualFold(s[i:i+6], "SELECT") &&
				(i == 0 || !isIdent(s[i-1])) && (i+6 == len(s) || !isIdent(s[i+6])) {
				lastSel = i
			}
		}
	}
	if lastSel < 0 {
		f := strings.Fields(up)
		if len(f) > 0 {
			return f[0]
		}
		return ""
	}
	rest := s[lastSel+6:]
	// up to the top-level FROM
	depth = 0
	inStr = 0
	end := len(rest)
	var cols []string
	start := 0
scan:
	for i := 0; i < len(rest); i++ {
		c := rest[i]
		if inStr != 0 {
			if c == '\\' {
				i++
				continue
			}
			if c == inStr {
				inStr = 0
			}
			continue
		}
		switch c {
		case '\'', '`', '"':
			inStr = c
		case '(', '[':
			depth++
		case ')', ']':
			depth--
		case ',':
			if depth == 0 {
				cols = append(cols, rest[start:i])
				start = i + 1
			}
		default:
			if depth == 0 && (c == 'F' || c == 'f') && i+4 <= len(rest) && strings.EqualFold(rest[i:i+4], "FROM") &&
				(i == 0 || !isIdent(rest[i-1])) && (i+4 == len(rest) || !isIdent(rest[i+4])) {
				end = i
				break scan
			}
		}
	}
	cols = append(cols, rest[start:end])
	var names []string
	for _, c := range cols {
		c = strings.TrimSpace(c)
		lc := strings.ToLower(c)
		if strings.HasPrefix(lc, "distinct ") {
			c = strings.TrimSpace(c[9:])
			lc = lc[9:]
		}
		if i := strings.LastIndex(lc, " as "); i >= 0 && !strings.ContainsAny(c[i+4:], "()") {
			names = append(names, strings.TrimSpace(c[i+4:]))
			continue
		}
		// trailing identifier (a.b -> b); expressions keep their text without spaces
		j := len(c)
		for j > 0 && isIdent(c[j-1]) {
			j--
		}
		if j < len(c) && (j == 0 || c[j-1] == '.') {
			names = append(names, c[j:])
		} else {
			names = append(names, strings.ReplaceAll(c, " ", ""))
		}
	}
	return strings.Join(names, ",")
}

func isIdent(c byte) bool {
	return c == '_' || (c >= '0' && c <= '9') || (c >= 'a' && c <= 'z') || (c >= 'A' && c <= 'Z')
}
