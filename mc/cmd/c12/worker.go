package main

import (
	"bufio"
	"encoding/json"
	"fmt"
	"os"
	"regexp"
	"runtime/pprof"
	"sort"
	"strings"
	"syscall"
	"time"

	rh "verif/mc/readerharness"
)

// Case is one element of the grid.
type Case struct {
	ID     int    `json:"id"`
	Group  string `json:"g"`
	Route  string `json:"route"`
	Query  string `json:"q"`
	Params P      `json:"p,omitempty"`
	Fault  Fault  `json:"f"`
	Cancel bool   `json:"cancel,omitempty"` // the client goes away as soon as a statement blocks
	Now    int64  `json:"now,omitempty"`    // value of the symbolic NOW (s); 0 = this process's runNow
	// FollowUp: after the request, the same request again against a HEALTHY database under the SAME database name
	// (state keyed by the name — version cache, single-flight marks, pools — is what the first request left behind;
	// the cache is cold whenever the first request failed inside the version lookup): "one" | "pair" (two at once)
	FollowUp string `json:"follow_up,omitempty"`
	// CensusMs / ResponseMs override the census and response bounds (the grid run uses short ones, confirmation
	// runs the generous ones).
	CensusMs   int `json:"census_ms,omitempty"`
	ResponseMs int `json:"response_ms,omitempty"`
}

func (c Case) String() string {
	f := ""
	if c.FollowUp != "" {
		f = " then-healthy-follow-up=" + c.FollowUp
	}
	return fmt.Sprintf("%s q=%q [%s] driver=%s cancel=%v%s", c.Route, c.Query, c.Params, c.Fault, c.Cancel, f)
}

// Result is what the worker reports for one case.
type Result struct {
	ID      int        `json:"id"`
	Class   string     `json:"class,omitempty"` // "" = property held on this case
	What    string     `json:"what,omitempty"`
	Out     rh.Outcome `json:"out"`
	Keys    []string   `json:"keys,omitempty"`
	Rows    []int      `json:"rows,omitempty"`
	Unknown []string   `json:"unknown,omitempty"`
	BodyOK  string     `json:"body,omitempty"` // first bytes of the body (for samples)
	rogue   bool
}

var specByKey = func() map[string]RouteSpec {
	m := map[string]RouteSpec{}
	for _, r := range routeSpecs() {
		m[r.Key] = r
	}
	return m
}()

var wordRe = regexp.MustCompile(`[^A-Za-z0-9]+`)

// panicKind normalises a panic value to a short token: the numbers in "index out of range [65] with length 32"
// are input-dependent and do not belong in a class.
func panicKind(p string) string {
	p = strings.TrimPrefix(p, "runtime error: ")
	switch {
	case strings.HasPrefix(p, "index out of range"):
		return "index_out_of_range"
	case strings.HasPrefix(p, "slice bounds out of range"):
		return "slice_bounds_out_of_range"
	case strings.HasPrefix(p, "integer divide by zero"):
		return "integer_divide_by_zero"
	case strings.HasPrefix(p, "makeslice"):
		return "makeslice_len_out_of_range"
	case strings.Contains(p, "nil pointer dereference"):
		return "nil_pointer_dereference"
	case strings.HasPrefix(p, "interface conversion"):
		return "interface_conversion"
	case strings.Contains(p, "out of memory"), strings.Contains(p, "cannot allocate memory"):
		return "out_of_memory"
	case strings.Contains(p, "send on closed channel"):
		return "send_on_closed_channel"
	case strings.Contains(p, "close of closed channel"):
		return "close_of_closed_channel"
	case strings.Contains(p, "all goroutines are asleep"):
		return "deadlock"
	}
	w := strings.Split(strings.Trim(wordRe.ReplaceAllString(p, "_"), "_"), "_")
	if len(w) > 5 {
		w = w[:5]
	}
	return strings.ToLower(strings.Join(w, "_"))
}

// site shortens a repository function name to a class-friendly token:
// reader/logql/logql_transpiler_v2.(*FixPeriodPlanner).Process.func2 -> logql_transpiler_v2.FixPeriodPlanner.Process.func2
func site(fn string) string {
	fn = strings.TrimPrefix(fn, "created_by:")
	if i := strings.LastIndex(fn, "/"); i >= 0 {
		fn = fn[i+1:]
	}
	fn = strings.NewReplacer("(*", "", ")", "", "[...]", "").Replace(fn)
	return fn
}

func runCase(h *rh.Harness, c Case) Result {
	if c.Route == "loki_tail" {
		return runTail(h, c)
	}
	spec, ok := specByKey[c.Route]
	if !ok {
		return Result{ID: c.ID, Class: "harness:unknown_route", What: c.Route}
	}
	sc := newScript(c.Fault)
	h.Script.SetHandler(sc.Handle)
	h.FreshName()
	if c.Now != 0 {
		runNow = c.Now
	}
	req := spec.Build(c.Query, resolve(c.Params, spec.Unit))
	req.CancelWhenBlocked = c.Cancel
	old := rh.CensusBound
	if c.CensusMs > 0 {
		rh.CensusBound = time.Duration(c.CensusMs) * time.Millisecond
	}
	oldR := rh.ResponseBound
	if c.ResponseMs > 0 {
		rh.ResponseBound = time.Duration(c.ResponseMs) * time.Millisecond
	}
	out := h.Do(req)
	rh.CensusBound, rh.ResponseBound = old, oldR
	res := Result{ID: c.ID, Out: out, Keys: sc.Keys, Rows: sc.Rows, Unknown: sc.Unknown, rogue: disobedient(c.Fault.Shape)}
	if len(out.Body) > 0 {
		b := out.Body
		if len(b) > 160 {
			b = b[:160]
		}
		res.BodyOK = string(b)
	}
	classify(&res)
	if res.Class == "" && c.FollowUp != "" {
		// healthy database, same name, no fault
		fsc := newScript(Fault{Shape: "1batch"})
		h.Script.SetHandler(fsc.Handle)
		freq := spec.Build(c.Query, resolve(c.Params, spec.Unit))
		if c.CensusMs > 0 {
			rh.CensusBound = time.Duration(c.CensusMs) * time.Millisecond
		}
		if c.ResponseMs > 0 {
			rh.ResponseBound = time.Duration(c.ResponseMs) * time.Millisecond
		}
		var outs []rh.Outcome
		if c.FollowUp == "pair" {
			outs = h.DoConcurrent([]rh.Request{freq, freq})
		} else {
			outs = []rh.Outcome{h.Do(freq)}
		}
		rh.CensusBound, rh.ResponseBound = old, oldR
		res.Unknown = append(res.Unknown, fsc.Unknown...)
		for _, fo := range outs {
			fr := Result{Out: fo}
			classify(&fr)
			if fr.Class != "" {
				res.Out = fo
				res.Class = "follow_up_request:" + fr.Class
				res.What = "after the request above, the same request against a healthy database (same database name): " + fr.What
				break
			}
		}
	}
	return res
}

func disobedient(shape string) bool {
	switch shape {
	case "rogue_before", "rogue_after", "rogue_far", "3batches_rogue", "unordered", "dups":
		return true
	}
	return false
}

func classify(res *Result) {
	switch {
	case res.Out.Panic != "":
		res.Class = "no_response:" + site(res.Out.PanicHandler) + ":" + site(res.Out.PanicSite) + ":" + panicKind(res.Out.Panic)
		if res.Out.PanicHandler == res.Out.PanicSite {
			res.Class = "no_response:" + site(res.Out.PanicSite) + ":" + panicKind(res.Out.Panic)
		}
		res.What = "panic escaped the handler (net/http aborts the connection without a response): " + res.Out.Panic
	case res.Out.Hang && res.Out.HangBusy:
		res.Class = "unbounded:" + site(res.Out.HangSite)
		res.What = "no response within the bound: the handler is still computing in " + res.Out.HangSite
	case res.Out.Hang:
		res.Class = "hang:" + site(res.Out.HangSite)
		res.What = "no response within the bound: the handler is parked in " + res.Out.HangSite
	case len(res.Out.Leaked) > 0:
		var s []string
		seen := map[string]bool{}
		for _, fn := range res.Out.Leaked {
			if !seen[site(fn)] {
				seen[site(fn)] = true
				s = append(s, site(fn))
			}
		}
		res.Class = "leak:" + strings.Join(s, "+")
		if res.rogue {
			// the database ignored the window / order the statement asked for: its own explanation.  These classes
			// name the PACKAGE of the leaked goroutines only: the explanation is the cause (a stage gave up on an
			// impossible row), and a class that is listed as known must survive a renaming of the functions
			pk := map[string]bool{}
			var pks []string
			for _, fn := range s {
				p, _, _ := strings.Cut(fn, ".")
				if !pk[p] {
					pk[p] = true
					pks = append(pks, p)
				}
			}
			sort.Strings(pks)
			res.Class = "leak_on_disobedient_rows:" + strings.Join(pks, "+")
		}
		res.What = fmt.Sprintf("%d goroutine(s) started for the request still alive after the response: %s", len(res.Out.Leaked), strings.Join(res.Out.Leaked, ", "))
	}
}

// runTail: the websocket route.  The service polls once per second; the client listens for 2.5 s and leaves.
func runTail(h *rh.Harness, c Case) Result {
	sc := newScript(c.Fault)
	h.Script.SetHandler(sc.Handle)
	h.FreshName()
	old := rh.CensusBound
	if c.CensusMs > 0 && c.CensusMs < 3000 {
		rh.CensusBound = 3 * time.Second // the tail goroutine notices the closed watcher at its next 1 s tick
	}
	out := h.DoTail(qs("query", c.Query), 2500*time.Millisecond)
	rh.CensusBound = old
	res := Result{ID: c.ID, Out: out, Keys: sc.Keys, Rows: sc.Rows, Unknown: sc.Unknown}
	if len(out.Body) > 0 {
		b := out.Body
		if len(b) > 160 {
			b = b[:160]
		}
		res.BodyOK = string(b)
	}
	classify(&res)
	return res
}

func firstOf(s string) string {
	if i := strings.Index(s, "|"); i >= 0 {
		return s[:i]
	}
	return s
}

// workerMain: cases arrive as JSON lines on stdin, results leave as JSON lines on fd 3.  stdout of the code under
// test (it prints statements with fmt.Println) is discarded; stderr goes to a per-worker file that is truncated
// before every case, so that after a crash it holds the panic of the journalled case only.
func workerMain() {
	outF := os.NewFile(3, "results")
	if outF == nil {
		fmt.Fprintln(os.Stderr, "worker: fd 3 missing")
		os.Exit(2)
	}
	devnull, _ := os.OpenFile(os.DevNull, os.O_WRONLY, 0)
	os.Stdout = devnull
	if pf := os.Getenv("C12_PROF"); pf != "" {
		f, _ := os.Create(pf)
		pprof.StartCPUProfile(f)
		defer pprof.StopCPUProfile()
	}
	h := rh.New(nil, os.Getenv("C12_CLUSTER"))
	w := bufio.NewWriter(outF)
	sc := bufio.NewScanner(os.Stdin)
	sc.Buffer(make([]byte, 1<<20), 1<<20)
	enc := json.NewEncoder(w)
	for sc.Scan() {
		var c Case
		if err := json.Unmarshal(sc.Bytes(), &c); err != nil {
			fmt.Fprintln(os.Stderr, "worker: bad case:", err)
			os.Exit(2)
		}
		syscall.Ftruncate(2, 0)
		syscall.Seek(2, 0, 0)
		fmt.Fprintf(os.Stderr, "JOURNAL begin %d\n", c.ID)
		res := runCase(h, c)
		fmt.Fprintf(os.Stderr, "JOURNAL end %d\n", c.ID)
		enc.Encode(res)
		w.Flush()
		if res.Out.Hang {
			// the handler goroutine is still stuck inside the code under test: this process cannot be reused
			os.Exit(3)
		}
	}
}
