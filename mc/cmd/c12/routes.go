package main

import (
	"encoding/json"
	"fmt"
	"net/url"
	"sort"
	"strconv"
	"strings"
	"time"

	rh "verif/mc/readerharness"
)

// P is one assignment of request parameters (absent key = parameter not sent).
type P map[string]string

// RouteSpec describes one read route: how a (query, params) pair becomes a request, which query language the
// query parameter is in, and which parameters it reads.
type RouteSpec struct {
	Key    string
	Tmpl   string // router path template (checked against the router's own route list)
	Method string
	Lang   string   // logql | logql_sel | promql | promsel | traceql | tags | traceid | tagname | labelname | profsel | none
	Params []string // parameters with a value menu: start end step limit direction time minDuration maxDuration
	Unit   string   // unit of start/end/time: ns | s | ms
	Build  func(q string, p P) rh.Request
}

func qs(kv ...string) string {
	v := url.Values{}
	for i := 0; i+1 < len(kv); i += 2 {
		if kv[i+1] != absent {
			v.Add(kv[i], kv[i+1])
		}
	}
	return v.Encode()
}

const absent = "\x00absent"

func get(p P, k string) string {
	if v, ok := p[k]; ok {
		return v
	}
	return absent
}

func urlWith(path string, q string) string {
	if q == "" {
		return path
	}
	return path + "?" + q
}

func simpleGet(path string, qname string, names ...string) func(q string, p P) rh.Request {
	return func(q string, p P) rh.Request {
		kv := []string{}
		if qname != "" {
			kv = append(kv, qname, q)
		}
		for _, n := range names {
			kv = append(kv, n, get(p, n))
		}
		return rh.Request{Method: "GET", URL: urlWith(path, qs(kv...))}
	}
}

func pathGet(pathFmt string, names ...string) func(q string, p P) rh.Request {
	return func(q string, p P) rh.Request {
		kv := []string{}
		for _, n := range names {
			kv = append(kv, n, get(p, n))
		}
		return rh.Request{Method: "GET", URL: urlWith(fmt.Sprintf(pathFmt, url.PathEscape(q)), qs(kv...))}
	}
}

func num(s string) any {
	if s == absent {
		return nil
	}
	if n, err := strconv.ParseInt(s, 10, 64); err == nil {
		return n
	}
	if f, err := strconv.ParseFloat(s, 64); err == nil {
		return f
	}
	return s
}

func profBody(path string, f func(q string, p P) map[string]any) func(q string, p P) rh.Request {
	return func(q string, p P) rh.Request {
		m := f(q, p)
		for k, v := range m {
			if v == nil {
				delete(m, k)
			}
		}
		b, _ := json.Marshal(m)
		return rh.Request{Method: "POST", URL: path, Header: map[string]string{"Content-Type": "application/json"}, Body: b}
	}
}

const profType = "process_cpu:cpu:nanoseconds:cpu:nanoseconds"

func routeSpecs() []RouteSpec {
	se := []string{"start", "end"}
	rs := []RouteSpec{
		{Key: "loki_query_range", Tmpl: "/loki/api/v1/query_range", Lang: "logql", Unit: "ns",
			Params: []string{"start", "end", "step", "limit", "direction"},
			Build:  simpleGet("/loki/api/v1/query_range", "query", "start", "end", "step", "limit", "direction")},
		{Key: "loki_query", Tmpl: "/loki/api/v1/query", Lang: "logql", Unit: "ns",
			Params: []string{"time", "step", "limit"},
			Build:  simpleGet("/loki/api/v1/query", "query", "time", "step", "limit")},
		// the websocket route without an upgrade (the handler plans the query, starts the poller, then fails the
		// upgrade); the upgraded conversation is exercised by the loki_tail cases (readerharness.DoTail)
		{Key: "loki_tail_http", Tmpl: "/loki/api/v1/tail", Lang: "logql_tail", Build: simpleGet("/loki/api/v1/tail", "query")},
		{Key: "loki_labels", Tmpl: "/loki/api/v1/labels", Lang: "none", Unit: "ns", Params: se,
			Build: simpleGet("/loki/api/v1/labels", "", "start", "end")},
		{Key: "loki_label", Tmpl: "/loki/api/v1/label", Lang: "none", Unit: "ns", Params: se,
			Build: simpleGet("/loki/api/v1/label", "", "start", "end")},
		{Key: "loki_label_values", Tmpl: "/loki/api/v1/label/{name}/values", Lang: "labelname", Unit: "ns", Params: se,
			Build: pathGet("/loki/api/v1/label/%s/values", "start", "end")},
		{Key: "loki_label_values_match", Tmpl: "/loki/api/v1/label/{name}/values", Lang: "logql_sel", Unit: "ns", Params: se,
			Build: simpleGet("/loki/api/v1/label/job/values", "match[]", "start", "end")},
		{Key: "loki_series", Tmpl: "/loki/api/v1/series", Lang: "logql_sel", Unit: "ns", Params: se,
			Build: simpleGet("/loki/api/v1/series", "match[]", "start", "end")},
		{Key: "loki_series_post", Tmpl: "/loki/api/v1/series", Method: "POST", Lang: "logql_sel", Unit: "ns", Params: se,
			Build: func(q string, p P) rh.Request {
				return rh.Request{Method: "POST", URL: "/loki/api/v1/series",
					Header: map[string]string{"Content-Type": "application/x-www-form-urlencoded"},
					Body:   []byte(qs("match[]", q, "start", get(p, "start"), "end", get(p, "end")))}
			}},

		{Key: "prom_query_range", Tmpl: "/api/v1/query_range", Lang: "promql", Unit: "s",
			Params: []string{"start", "end", "step"},
			Build:  simpleGet("/api/v1/query_range", "query", "start", "end", "step")},
		{Key: "prom_query_range_post", Tmpl: "/api/v1/query_range", Method: "POST", Lang: "promql", Unit: "s",
			Params: []string{"start", "end", "step"},
			Build: func(q string, p P) rh.Request {
				return rh.Request{Method: "POST", URL: "/api/v1/query_range",
					Header: map[string]string{"Content-Type": "application/x-www-form-urlencoded"},
					Body:   []byte(qs("query", q, "start", get(p, "start"), "end", get(p, "end"), "step", get(p, "step")))}
			}},
		{Key: "prom_query", Tmpl: "/api/v1/query", Lang: "promql", Unit: "s", Params: []string{"time"},
			Build: simpleGet("/api/v1/query", "query", "time")},
		{Key: "prom_labels", Tmpl: "/api/v1/labels", Lang: "none", Unit: "s", Params: se,
			Build: simpleGet("/api/v1/labels", "", "start", "end")},
		{Key: "prom_label_values", Tmpl: "/api/v1/label/{name}/values", Lang: "labelname", Unit: "s", Params: se,
			Build: pathGet("/api/v1/label/%s/values", "start", "end")},
		{Key: "prom_label_values_match", Tmpl: "/api/v1/label/{name}/values", Lang: "promsel", Unit: "s", Params: se,
			Build: simpleGet("/api/v1/label/job/values", "match[]", "start", "end")},
		{Key: "prom_series", Tmpl: "/api/v1/series", Lang: "promsel", Unit: "s", Params: se,
			Build: simpleGet("/api/v1/series", "match[]", "start", "end")},
		{Key: "prom_metadata", Tmpl: "/api/v1/metadata", Lang: "none", Build: simpleGet("/api/v1/metadata", "")},
		{Key: "prom_query_exemplars", Tmpl: "/api/v1/query_exemplars", Lang: "promql", Unit: "s", Params: se,
			Build: simpleGet("/api/v1/query_exemplars", "query", "start", "end")},
		{Key: "prom_rules", Tmpl: "/api/v1/rules", Lang: "none", Build: simpleGet("/api/v1/rules", "")},
		{Key: "prom_buildinfo", Tmpl: "/api/v1/status/buildinfo", Lang: "none", Build: simpleGet("/api/v1/status/buildinfo", "")},

		{Key: "tempo_trace", Tmpl: "/tempo/api/traces/{traceId}", Lang: "traceid", Unit: "s", Params: se,
			Build: pathGet("/tempo/api/traces/%s", "start", "end")},
		{Key: "tempo_trace_api", Tmpl: "/api/traces/{traceId}", Lang: "traceid", Unit: "s", Params: se,
			Build: pathGet("/api/traces/%s", "start", "end")},
		{Key: "tempo_trace_json", Tmpl: "/api/traces/{traceId}/json", Lang: "traceid", Unit: "s", Params: se,
			Build: pathGet("/api/traces/%s/json", "start", "end")},
		{Key: "tempo_trace_pb", Tmpl: "/api/traces/{traceId}", Lang: "traceid", Unit: "s", Params: se,
			Build: func(q string, p P) rh.Request {
				r := pathGet("/api/traces/%s", "start", "end")(q, p)
				r.Header = map[string]string{"Accept": "application/protobuf"}
				return r
			}},
		{Key: "tempo_echo", Tmpl: "/tempo/api/echo", Lang: "none", Build: simpleGet("/tempo/api/echo", "")},
		{Key: "api_echo", Tmpl: "/api/echo", Lang: "none", Build: simpleGet("/api/echo", "")},
		{Key: "tempo_tags", Tmpl: "/tempo/api/search/tags", Lang: "none", Build: simpleGet("/tempo/api/search/tags", "")},
		{Key: "api_tags", Tmpl: "/api/search/tags", Lang: "none", Build: simpleGet("/api/search/tags", "")},
		{Key: "tempo_tag_values", Tmpl: "/tempo/api/search/tag/{tag}/values", Lang: "tagname",
			Build: pathGet("/tempo/api/search/tag/%s/values")},
		{Key: "api_tag_values", Tmpl: "/api/search/tag/{tag}/values", Lang: "tagname",
			Build: pathGet("/api/search/tag/%s/values")},
		{Key: "api_v2_tag_values", Tmpl: "/api/v2/search/tag/{tag}/values", Lang: "traceql", Unit: "s",
			Params: []string{"start", "end", "limit"},
			Build:  simpleGet("/api/v2/search/tag/service.name/values", "q", "start", "end", "limit")},
		{Key: "api_v2_tag_values_name", Tmpl: "/api/v2/search/tag/{tag}/values", Lang: "tagname", Unit: "s",
			Params: []string{"start", "end", "limit"},
			Build:  pathGet("/api/v2/search/tag/%s/values", "start", "end", "limit")},
		{Key: "api_v2_tags", Tmpl: "/api/v2/search/tags", Lang: "traceql", Unit: "s", Params: []string{"start", "end", "limit"},
			Build: simpleGet("/api/v2/search/tags", "q", "start", "end", "limit")},
		{Key: "tempo_search_traceql", Tmpl: "/tempo/api/search", Lang: "traceql", Unit: "s",
			Params: []string{"start", "end", "limit"},
			Build:  simpleGet("/tempo/api/search", "q", "start", "end", "limit")},
		{Key: "api_search_traceql", Tmpl: "/api/search", Lang: "traceql", Unit: "s", Params: []string{"start", "end", "limit"},
			Build: simpleGet("/api/search", "q", "start", "end", "limit")},
		{Key: "tempo_search_tags", Tmpl: "/tempo/api/search", Lang: "tags", Unit: "s",
			Params: []string{"start", "end", "limit", "minDuration", "maxDuration"},
			Build:  simpleGet("/tempo/api/search", "tags", "start", "end", "limit", "minDuration", "maxDuration")},
		{Key: "api_search_tags", Tmpl: "/api/search", Lang: "tags", Unit: "s",
			Params: []string{"start", "end", "limit", "minDuration", "maxDuration"},
			Build:  simpleGet("/api/search", "tags", "start", "end", "limit", "minDuration", "maxDuration")},

		{Key: "prof_profile_types", Tmpl: "/querier.v1.QuerierService/ProfileTypes", Method: "POST", Lang: "none", Unit: "ms", Params: se,
			Build: profBody("/querier.v1.QuerierService/ProfileTypes", func(q string, p P) map[string]any {
				return map[string]any{"start": num(get(p, "start")), "end": num(get(p, "end"))}
			})},
		{Key: "prof_label_names", Tmpl: "/querier.v1.QuerierService/LabelNames", Method: "POST", Lang: "profsel", Unit: "ms", Params: se,
			Build: profBody("/querier.v1.QuerierService/LabelNames", func(q string, p P) map[string]any {
				return map[string]any{"matchers": []string{q}, "start": num(get(p, "start")), "end": num(get(p, "end"))}
			})},
		{Key: "prof_label_values", Tmpl: "/querier.v1.QuerierService/LabelValues", Method: "POST", Lang: "profsel", Unit: "ms", Params: se,
			Build: profBody("/querier.v1.QuerierService/LabelValues", func(q string, p P) map[string]any {
				return map[string]any{"matchers": []string{q}, "name": "service_name", "start": num(get(p, "start")), "end": num(get(p, "end"))}
			})},
		{Key: "prof_merge_stacktraces", Tmpl: "/querier.v1.QuerierService/SelectMergeStacktraces", Method: "POST", Lang: "profsel", Unit: "ms", Params: se,
			Build: profBody("/querier.v1.QuerierService/SelectMergeStacktraces", func(q string, p P) map[string]any {
				return map[string]any{"label_selector": q, "profile_typeID": profType, "start": num(get(p, "start")), "end": num(get(p, "end"))}
			})},
		{Key: "prof_select_series", Tmpl: "/querier.v1.QuerierService/SelectSeries", Method: "POST", Lang: "profsel", Unit: "ms",
			Params: []string{"start", "end", "step"},
			Build: profBody("/querier.v1.QuerierService/SelectSeries", func(q string, p P) map[string]any {
				return map[string]any{"label_selector": q, "profile_typeID": profType, "start": num(get(p, "start")),
					"end": num(get(p, "end")), "step": num(get(p, "step")), "group_by": []string{"service_name"}}
			})},
		{Key: "prof_merge_profile", Tmpl: "/querier.v1.QuerierService/SelectMergeProfile", Method: "POST", Lang: "profsel", Unit: "ms", Params: se,
			Build: profBody("/querier.v1.QuerierService/SelectMergeProfile", func(q string, p P) map[string]any {
				return map[string]any{"label_selector": q, "profile_typeID": profType, "start": num(get(p, "start")), "end": num(get(p, "end"))}
			})},
		{Key: "prof_series", Tmpl: "/querier.v1.QuerierService/Series", Method: "POST", Lang: "profsel", Unit: "ms", Params: se,
			Build: profBody("/querier.v1.QuerierService/Series", func(q string, p P) map[string]any {
				return map[string]any{"matchers": []string{q}, "label_names": []string{"service_name"}, "start": num(get(p, "start")), "end": num(get(p, "end"))}
			})},
		{Key: "prof_stats", Tmpl: "/querier.v1.QuerierService/GetProfileStats", Method: "POST", Lang: "none",
			Build: profBody("/querier.v1.QuerierService/GetProfileStats", func(q string, p P) map[string]any { return map[string]any{} })},
		{Key: "prof_settings", Tmpl: "/settings.v1.SettingsService/Get", Method: "POST", Lang: "none",
			Build: profBody("/settings.v1.SettingsService/Get", func(q string, p P) map[string]any { return map[string]any{} })},
		{Key: "prof_analyze", Tmpl: "/querier.v1.QuerierService/AnalyzeQuery", Method: "POST", Lang: "profsel", Unit: "ms", Params: se,
			Build: profBody("/querier.v1.QuerierService/AnalyzeQuery", func(q string, p P) map[string]any {
				return map[string]any{"query": q, "start": num(get(p, "start")), "end": num(get(p, "end"))}
			})},
		{Key: "prof_render_diff", Tmpl: "/pyroscope/render-diff", Lang: "profdiff", Unit: "ms", Params: se,
			Build: func(q string, p P) rh.Request {
				return rh.Request{Method: "GET", URL: urlWith("/pyroscope/render-diff", qs("leftQuery", q, "rightQuery", q,
					"leftFrom", get(p, "start"), "leftUntil", get(p, "end"), "rightFrom", get(p, "start"), "rightUntil", get(p, "end")))}
			}},
	}
	for i := range rs {
		if rs[i].Method == "" {
			rs[i].Method = "GET"
		}
	}
	return rs
}

// ---- value menus ----

// runNow is the value of the symbolic NOW (seconds): fixed by the parent for the whole run and carried in every
// case, so that re-runs and replays send byte-identical requests.  It is the previous full hour plus 1234 s: a
// recent past instant that is aligned neither to a minute nor to 15 s (the planners truncate to both).
var runNow = (time.Now().Unix()/3600)*3600 - 3600 + 1234

func nowIn(unit string, offsetSec int64) string {
	t := runNow + offsetSec
	switch unit {
	case "ns":
		return strconv.FormatInt(t*1e9, 10)
	case "ms":
		return strconv.FormatInt(t*1e3, 10)
	}
	return strconv.FormatInt(t, 10)
}

// timeMenu is the menu for start / end / time.  NOW-1h and NOW together give the ordinary window, NOW/NOW the
// "equal" one and NOW/NOW-1h the "reversed" one when the full product start x end is taken.
func timeMenu(unit string, thorough bool) []string {
	m := []string{absent, "0", "-1", "1", "NOW-1h", "NOW-5s", "NOW", "4611686018427387904", "1e30", "abc"}
	if !thorough {
		m = []string{absent, "0", "-1", "NOW-1h", "NOW-5s", "NOW", "4611686018427387904", "abc"}
	}
	return m
}

func stepMenu(thorough bool) []string {
	if thorough {
		return []string{absent, "0", "-1", "1", "5", "1m", "0.5", "4611686018427387904", "1e30", "abc"}
	}
	return []string{absent, "0", "-1", "5", "1e30", "abc"}
}

func limitMenu(thorough bool) []string {
	if thorough {
		return []string{absent, "0", "-1", "2", "101", "4611686018427387904", "abc"}
	}
	return []string{absent, "0", "-1", "2", "abc"}
}

func directionMenu(thorough bool) []string {
	if thorough {
		return []string{absent, "forward", "abc"}
	}
	return []string{absent, "forward"}
}

func durationMenu(thorough bool) []string {
	if thorough {
		return []string{absent, "0", "-1s", "1ms", "2562047h", "abc"}
	}
	return []string{absent, "1ms", "abc"}
}

func menuFor(param, unit string, thorough bool) []string {
	switch param {
	case "start", "end", "time":
		return timeMenu(unit, thorough)
	case "step":
		return stepMenu(thorough)
	case "limit":
		return limitMenu(thorough)
	case "direction":
		return directionMenu(thorough)
	case "minDuration", "maxDuration":
		return durationMenu(thorough)
	}
	return []string{absent}
}

// ---- numeric boundary sweep (G2b) ----

// boundarySet: the values every numeric request parameter is driven through singly (all other parameters at
// their ordinary values): 0, +-1, the int64 extremes and their neighbours, +-5e18 (two of them differ by more than
// an int64 of nanoseconds), numbers that only fit as text / floats, non-integers, and "now" spelled in every unit
// a timestamp parameter might be read in (s, ms, us, ns).
func boundarySet() []string {
	return []string{"0", "1", "-1", "9223372036854775807", "-9223372036854775808", "9223372036854775808",
		"5000000000000000000", "-5000000000000000000", "1e19", "-1e19", "1e400", "1.5", "-0.5", "0.000000001", "NaN", "Inf",
		"NOW:s", "NOW:ms", "NOW:us", "NOW:ns", "1000000000", "1000000000000000000", "0x10", " 1", ""}
}

// overflowSet: the subset used for PAIRS of parameters (full product), chosen so that differences, sums and
// quotients of two of them leave int64 / time.Duration.
func overflowSet(thorough bool) []string {
	if thorough {
		return boundarySet()
	}
	return []string{"0", "-1", "1", "9223372036854775807", "-9223372036854775808", "5000000000000000000", "-5000000000000000000",
		"1e19", "NOW:s", "NOW:ns"}
}

func durationBoundarySet() []string {
	return []string{"0", "1ns", "-1ns", "9223372036854775807ns", "-9223372036854775808ns", "2562047h47m16.854775807s", "2562048h",
		"1e19s", "1.5h", "NaN", "1", "-1", ""}
}

func isNumericParam(n string) bool {
	switch n {
	case "start", "end", "time", "step", "limit":
		return true
	}
	return false
}

// boundaryCases: every numeric parameter singly over boundarySet, every pair of numeric parameters over the full
// product of overflowSet, durations singly over durationBoundarySet; everything else at the ordinary values.
func boundaryCases(r RouteSpec, thorough bool) []P {
	var out []P
	with := func(kv ...string) P {
		p := defaultParams(r)
		for i := 0; i+1 < len(kv); i += 2 {
			p[kv[i]] = kv[i+1]
		}
		return p
	}
	var nums []string
	for _, n := range r.Params {
		switch {
		case isNumericParam(n):
			nums = append(nums, n)
			for _, v := range boundarySet() {
				out = append(out, with(n, v))
			}
		case n == "minDuration" || n == "maxDuration":
			for _, v := range durationBoundarySet() {
				out = append(out, with(n, v))
			}
		}
	}
	for i := 0; i < len(nums); i++ {
		for j := i + 1; j < len(nums); j++ {
			if !thorough && (nums[i] == "limit" || nums[j] == "limit") {
				continue // quick: limit only singly; it does not enter the window arithmetic
			}
			for _, a := range overflowSet(thorough) {
				for _, b := range overflowSet(thorough) {
					out = append(out, with(nums[i], a, nums[j], b))
				}
			}
		}
	}
	return out
}

// resolve replaces the symbolic NOW values by numbers in the route's unit.
func resolve(p P, unit string) P {
	out := P{}
	for k, v := range p {
		switch v {
		case absent:
			continue
		case "NOW":
			v = nowIn(unit, 0)
		case "NOW-1h":
			v = nowIn(unit, -3600)
		case "NOW-5s":
			v = nowIn(unit, -5)
		case "NOW:s":
			v = nowIn("s", 0)
		case "NOW:ms":
			v = nowIn("ms", 0)
		case "NOW:us":
			v = strconv.FormatInt(runNow*1e6, 10)
		case "NOW:ns":
			v = nowIn("ns", 0)
		}
		out[k] = v
	}
	return out
}

// defaultParams is the ordinary window (last hour) with everything else absent.
func defaultParams(r RouteSpec) P {
	p := P{}
	for _, n := range r.Params {
		switch n {
		case "start":
			p[n] = "NOW-1h"
		case "end", "time":
			p[n] = "NOW"
		case "step":
			if r.Lang != "logql" {
				p[n] = "15"
			}
		}
	}
	return p
}

// product enumerates the full product of the menus of the route's parameters.
func product(r RouteSpec, thorough bool) []P {
	out := []P{{}}
	for _, n := range r.Params {
		menu := menuFor(n, r.Unit, thorough)
		var next []P
		for _, base := range out {
			for _, v := range menu {
				p := P{}
				for k, x := range base {
					p[k] = x
				}
				if v != absent {
					p[n] = v
				}
				next = append(next, p)
			}
		}
		out = next
	}
	return out
}

func (p P) String() string {
	keys := make([]string, 0, len(p))
	for k := range p {
		keys = append(keys, k)
	}
	sort.Strings(keys)
	var sb strings.Builder
	for _, k := range keys {
		fmt.Fprintf(&sb, "%s=%s ", k, p[k])
	}
	return strings.TrimSpace(sb.String())
}
