// C12 — "No query can crash, hang or leak work on the read side" (C12a: exhaustive parameter/query/fault grid).
//
// The real reader router (reader/router + controllers + services + planners) is assembled in-process over the
// scripted database/sql driver (verif/mc/readerharness, verif/mc/fakesql) inside journalled worker
// subprocesses running under `ulimit -v`.  The parent enumerates the grid, attributes every worker death /
// stall / missing response / leaked goroutine to the journalled case, re-runs it alone in fresh workers and
// reports it by explanation (class = kind + repository function + panic kind).
package main

import (
	"bufio"
	"encoding/json"
	"fmt"
	"io"
	"os"
	"os/exec"
	"path/filepath"
	"regexp"
	"runtime"
	"sort"
	"strings"
	"sync"
	"sync/atomic"
	"time"

	"verif/mc/ev"
	rh "verif/mc/readerharness"
)

const (
	ulimitKB      = 2 << 20 // 2 GiB of address space per worker
	quickRespMs   = 6000    // first-pass response bound
	quickCensusMs = 400     // first-pass census bound; confirmations use the generous bound
	confirmRuns   = 3
	stallBound    = 45 * time.Second // no progress on one case (DESIGN.md §7: the only wall-clock oracle)
)

func main() {
	if len(os.Args) > 1 && os.Args[1] == "--worker" {
		workerMain()
		return
	}
	r := ev.Start("C12", "model_checking", 65*time.Second, 15*time.Minute)
	r.Rule = "full product of per-route menus: G1 route x query menu (valid, one per grammar production, every <=3-symbol string over a 10-symbol alphabet, single-token deletions) ; G2 route x representative queries x full product of start/end/step/limit/direction/time/duration value menus ; G3 route x representative queries x result-set shape x every (statement index, fault kind, row position) ; a case is distinct by (route, query, params, driver script), non-trivial when the request reached the database (>=1 statement) or was answered with an error by the real handler"
	r.Assumptions = []string{
		"the database is a scripted database/sql driver returning clickhouse-go value types; statement shapes are recognised by their output column list",
		"a panic escaping an HTTP handler counts as 'no response' (net/http recovers it and closes the connection without writing one)",
		"goroutine census = runtime.Stack filtered to goroutines with github.com/metrico/qryn frames; reader/utils/dbVersion.throttle (sleeps 10 s, then exits) is exempt",
		fmt.Sprintf("bounds: response %s, census %s, worker address space %d KiB", rh.ResponseBound, rh.CensusBound, ulimitKB),
		"websocket /loki/api/v1/tail is exercised only up to the upgrade failure (no hijackable connection in-process)",
		"schedules are whatever the Go scheduler produces (C12b explores them)",
	}
	if err := rh.CheckWiring(ev.Repo()); err != nil {
		ev.Fatal("router wiring drifted: %v", err)
	}
	if err := checkRoutes(); err != nil {
		ev.Fatal("%v", err)
	}
	p := newPool(r)
	defer p.close()

	if r.Replay != "" {
		replay(r, p)
		return
	}

	thorough := r.Thorough()
	var cases []Case
	id := 0
	add := func(c Case) {
		id++
		c.ID = id
		c.Now = runNow
		cases = append(cases, c)
	}
	specs := routeSpecs()
	// G1: query menu
	langSeen := map[string]bool{}
	for _, s := range specs {
		shortLen := 3
		if !thorough && langSeen[s.Lang] {
			shortLen = 2 // quick tier: the full <=3 menu once per query language, <=2 on the other routes of that language
		}
		langSeen[s.Lang] = true
		menu := queryMenu(s.Lang, shortLen)
		if s.Key == "loki_tail_http" && !thorough {
			// every planned query keeps its poller alive until the next 1 s tick: the quick tier sends the
			// representative and the in-process-pipeline queries only
			menu = append(append([]string{}, langs["logql"].rep...), langs["logql"].internal...)
		}
		for _, q := range menu {
			add(Case{Group: "G1", Route: s.Key, Query: q, Params: defaultParams(s), Fault: Fault{Shape: "1batch"}})
		}
	}
	// G2: parameter product (the largest group: dispatched last, so that an overloaded machine caps it, not the
	// fault sweep)
	var g2 []Case
	for _, s := range specs {
		if len(s.Params) == 0 {
			continue
		}
		reps := langs[s.Lang].rep
		if !thorough && len(reps) > 3 {
			reps = []string{reps[0], reps[2]}
		}
		if thorough && len(reps) > 5 {
			reps = reps[:5]
		}
		for _, q := range reps {
			for _, pp := range product(s, thorough) {
				id++
				g2 = append(g2, Case{ID: id, Now: runNow, Group: "G2", Route: s.Key, Query: q, Params: pp, Fault: Fault{Shape: "1batch"}})
			}
		}
	}
	// G2b: numeric boundary sweep (singles over the boundary set, pairs over the overflow set)
	var g2b []Case
	for _, s := range specs {
		reps := langs[s.Lang].rep
		if len(reps) > 4 {
			reps = []string{reps[0], reps[2], reps[4]} // log, SQL metric, in-process metric
		}
		if !thorough {
			if len(reps) > 2 {
				reps = reps[1:] // quick: the metric queries carry the arithmetic on the window
			} else {
				reps = reps[:1]
			}
		}
		for _, q := range reps {
			for _, pp := range boundaryCases(s, thorough) {
				id++
				g2b = append(g2b, Case{ID: id, Now: runNow, Group: "G2b", Route: s.Key, Query: q, Params: pp, Fault: Fault{Shape: "1batch"}})
			}
		}
	}
	// G3 bases: fault-free runs of every shape
	var bases []Case
	for _, s := range specs {
		reps := langs[s.Lang].rep
		if !thorough && len(reps) > 4 {
			reps = reps[:4]
		}
		reps = append(append([]string{}, reps...), langs[s.Lang].internal...)
		variants := []P{defaultParams(s)}
		if s.Key == "loki_query_range" {
			for _, extra := range []P{{"limit": "2"}, {"limit": "101", "direction": "forward"}, {"step": "5"}} {
				v := defaultParams(s)
				for k, x := range extra {
					v[k] = x
				}
				variants = append(variants, v)
			}
		}
		for _, q := range reps {
			for vi, v := range variants {
				if vi > 0 && !thorough && q != reps[1] && q != reps[2] {
					continue
				}
				for _, sh := range []string{"empty", "1batch", "3batches", "edge", "3batches_mixed",
					"rogue_before", "rogue_after", "rogue_far", "3batches_rogue", "unordered", "dups"} {
					c := Case{Group: "G3", Route: s.Key, Query: q, Params: v, Fault: Fault{Shape: sh}}
					add(c)
					bases = append(bases, cases[len(cases)-1])
				}
			}
		}
	}
	// websocket conversations: connect, listen 2.5 s (two polls), leave
	for _, q := range []string{`{a="b"}`, `{a="b"} | json | c="d"`, `{a="b"} | logfmt | label_format w="const"`, `rate({a="b"}[1m])`, `{a=`} {
		for _, f := range []Fault{{Shape: "1batch"}, {Shape: "empty"}, {Shape: "3batches"}, {Shape: "1batch", Kind: "open_err", Nth: 2},
			{Shape: "3batches", Kind: "row_err", Nth: 2, Row: 100}, {Shape: "1batch", Kind: "scan_err", Nth: 3, Row: 1},
			{Shape: "1batch", Kind: "block", Nth: 2, Row: 1}, {Shape: "1batch", Kind: "open_err", Nth: 0}} {
			if !thorough && f.Kind != "" && q != `{a="b"} | json | c="d"` {
				continue
			}
			add(Case{Group: "G3", Route: "loki_tail", Query: q, Fault: f})
		}
	}
	// the slow cases (websocket conversations, pollers that live until their next 1 s tick) are dispatched first
	// so that they overlap with the rest instead of forming the tail of the phase
	sort.SliceStable(cases, func(i, j int) bool {
		return strings.HasPrefix(cases[i].Route, "loki_tail") && !strings.HasPrefix(cases[j].Route, "loki_tail")
	})
	t0 := time.Now()
	results := p.runAll(cases)
	r.Extra["phase1_wall_s"] = time.Since(t0).Seconds()

	// G3 faults: for every base and every statement it sent, every fault kind at every interesting row
	var faults []Case
	for _, b := range bases {
		res := results[b.ID]
		if res == nil || (b.Fault.Shape != "empty" && b.Fault.Shape != "1batch" && b.Fault.Shape != "3batches") {
			continue
		}
		for nth, rows := range res.Rows {
			kinds := []struct {
				kind   string
				rows   []int
				cancel bool
			}{
				{"open_err", []int{0}, false}, {"block_open", []int{0}, true}, {"end_err", []int{0}, false},
				{"row_err", rowPositions(rows, true), false}, {"scan_err", rowPositions(rows, false), false},
				{"block", rowPositions(rows, true), true},
			}
			for _, k := range kinds {
				for ri, row := range k.rows {
					id++
					f := Fault{Shape: b.Fault.Shape, Kind: k.kind, Nth: nth, Row: row}
					// every faulted request is followed by a healthy one under the same database name; for faults
					// in the first three statements (the version lookup and the first data statement) also, as a
					// case of its own, by a concurrent pair of healthy requests
					fu := ""
					if ri == 0 || thorough {
						fu = "one" // quick: the follow-up at the first row position of every (statement, fault kind)
					}
					faults = append(faults, Case{ID: id, Now: runNow, Group: "G3", Route: b.Route, Query: b.Query, Params: b.Params, Fault: f, Cancel: k.cancel, FollowUp: fu})
					if nth <= 2 && ri == 0 {
						id++
						faults = append(faults, Case{ID: id, Now: runNow, Group: "G3", Route: b.Route, Query: b.Query, Params: b.Params, Fault: f, Cancel: k.cancel, FollowUp: "pair"})
					}
				}
			}
		}
	}
	t0 = time.Now()
	for k, v := range p.runAll(faults) {
		results[k] = v
	}
	r.Extra["phase2_faults_wall_s"] = time.Since(t0).Seconds()
	t0 = time.Now()
	for k, v := range p.runAll(g2b) {
		results[k] = v
	}
	r.Extra["phase2b_boundary_wall_s"] = time.Since(t0).Seconds()
	cases = append(cases, g2b...)
	t0 = time.Now()
	for k, v := range p.runAll(g2) {
		results[k] = v
	}
	r.Extra["phase3_params_wall_s"] = time.Since(t0).Seconds()
	t0 = time.Now()
	cases = append(cases, g2...)
	cases = append(cases, faults...)
	p.confirmAll(cases, results)
	r.Extra["confirm_wall_s"] = time.Since(t0).Seconds()

	groups := map[string]int{}
	routes := map[string]int{}
	for _, c := range cases {
		if results[c.ID] != nil {
			groups[c.Group]++
			routes[c.Route]++
		}
	}
	r.Extra["cases_by_group"] = groups
	r.Extra["cases_by_route"] = routes
	r.Extra["routes"] = len(routes)
	r.Extra["worker_restarts"] = atomic.LoadInt64(&p.restarts)
	r.Extra["unrecognised_statement_shapes"] = p.unknownList()
	r.Extra["statement_classes_seen"] = p.keyList()
	r.Extra["findings_by_class"] = p.classCounts()
	r.Extra["suspects_not_reproduced"] = p.flaky
	if len(p.unknown) > 0 {
		ev.Fatal("statement shapes not recognised by the script: %v", p.unknownList())
	}
	r.Finish()
}

// rowPositions: the rows at which a fault is injected: every row of a small result, batch boundaries of a large
// one (the getter flushes every 100 rows).  withEnd adds position n (after the last row).
func rowPositions(n int, withEnd bool) []int {
	var out []int
	if n <= 4 {
		for i := 0; i < n; i++ {
			out = append(out, i)
		}
	} else {
		for _, k := range []int{0, 1, 99, 100, 101, 199, 200, n - 1} {
			if k < n {
				out = append(out, k)
			}
		}
	}
	if withEnd || n == 0 {
		out = append(out, n)
	}
	sort.Ints(out)
	var d []int
	for i, k := range out {
		if i == 0 || k != out[i-1] {
			d = append(d, k)
		}
	}
	return d
}

func checkRoutes() error {
	h := rh.New(nil, "")
	have := map[string]bool{}
	for _, r := range h.Routes() {
		f := strings.Fields(r)
		have[f[len(f)-1]] = true
	}
	covered := map[string]bool{}
	for _, s := range routeSpecs() {
		if !have[s.Tmpl] {
			return fmt.Errorf("route %s of the harness menu is not registered by the router", s.Tmpl)
		}
		covered[s.Tmpl] = true
	}
	for t := range have {
		if !covered[t] {
			return fmt.Errorf("router registers %s but the harness menu has no case for it", t)
		}
	}
	return nil
}

// ---- worker pool ----

type worker struct {
	cmd     *exec.Cmd
	in      io.WriteCloser
	out     *bufio.Scanner
	errPath string
	served  int
}

type pool struct {
	r        *ev.Run
	n        int
	dir      string
	seq      int64
	restarts int64
	mu       sync.Mutex
	unknown  map[string]bool
	keys     map[string]int
	classes  map[string]int
	suspects []suspect
	states   map[string]bool
	flaky    []string
}

type suspect struct {
	c     Case
	class string
	what  string
	prev  *Case // the request the same worker process served just before (nil after a fresh start)
}

func newPool(r *ev.Run) *pool {
	n := runtime.NumCPU() - 2
	if n < 2 {
		n = 2
	}
	if n > 14 {
		n = 14
	}
	dir := os.Getenv("VERIF_SCRATCH")
	if dir == "" {
		dir, _ = os.MkdirTemp("", "c12-")
	}
	dir = filepath.Join(dir, "workers")
	os.MkdirAll(dir, 0o755)
	return &pool{r: r, n: n, dir: dir, unknown: map[string]bool{}, keys: map[string]int{}, classes: map[string]int{}, states: map[string]bool{}}
}

func (p *pool) close() {}

func (p *pool) spawn() (*worker, error) {
	self, err := os.Executable()
	if err != nil {
		return nil, err
	}
	seq := atomic.AddInt64(&p.seq, 1)
	errPath := filepath.Join(p.dir, fmt.Sprintf("w%d.stderr", seq))
	errF, err := os.OpenFile(errPath, os.O_CREATE|os.O_RDWR|os.O_TRUNC, 0o644)
	if err != nil {
		return nil, err
	}
	defer errF.Close()
	pr, pw, err := os.Pipe()
	if err != nil {
		return nil, err
	}
	cmd := exec.Command("bash", "-c", fmt.Sprintf("ulimit -v %d; exec \"$0\" --worker", ulimitKB), self)
	cmd.Env = append(os.Environ(), "GOMAXPROCS=1", "GOTRACEBACK=all")
	cmd.Stderr = errF
	cmd.Stdout = nil
	cmd.ExtraFiles = []*os.File{pw}
	in, err := cmd.StdinPipe()
	if err != nil {
		return nil, err
	}
	if err := cmd.Start(); err != nil {
		return nil, err
	}
	pw.Close()
	sc := bufio.NewScanner(pr)
	sc.Buffer(make([]byte, 1<<22), 1<<22)
	return &worker{cmd: cmd, in: in, out: sc, errPath: errPath}, nil
}

func (w *worker) kill() {
	if w == nil {
		return
	}
	w.in.Close()
	if w.cmd.Process != nil {
		w.cmd.Process.Kill()
	}
	w.cmd.Wait()
	os.Remove(w.errPath)
}

var (
	panicLine = regexp.MustCompile(`(?m)^(panic: |fatal error: )(.*)$`)
	repoLine  = regexp.MustCompile(`(?m)^github\.com/metrico/qryn/([\w\-/]+\.(?:\(\*?\w+(?:\[[^\]]*\])?\)\.)?[\w.\-]+)`)
)

// one runs a case on the worker; died=true when the worker is gone (crash, stall or hang exit).
func (p *pool) one(w *worker, c Case) (res *Result, died bool) {
	b, _ := json.Marshal(c)
	if _, err := w.in.Write(append(b, '\n')); err != nil {
		return p.postMortem(w, c, "write: "+err.Error()), true
	}
	type line struct {
		ok bool
		b  []byte
	}
	ch := make(chan line, 1)
	go func() {
		ok := w.out.Scan()
		ch <- line{ok, append([]byte(nil), w.out.Bytes()...)}
	}()
	select {
	case l := <-ch:
		if !l.ok {
			return p.postMortem(w, c, ""), true
		}
		var r Result
		if err := json.Unmarshal(l.b, &r); err != nil {
			ev.Fatal("worker protocol: %v: %.200s", err, l.b)
		}
		w.served++
		return &r, r.Out.Hang
	case <-time.After(stallBound):
		w.cmd.Process.Kill()
		return &Result{ID: c.ID, Class: "hang:stall_no_progress", What: "worker made no progress for " + stallBound.String()}, true
	}
}

// postMortem classifies a worker death from its stderr (truncated at the start of the journalled case).
func (p *pool) postMortem(w *worker, c Case, hint string) *Result {
	w.cmd.Wait()
	b, _ := os.ReadFile(w.errPath)
	s := string(b)
	if !strings.Contains(s, fmt.Sprintf("JOURNAL begin %d\n", c.ID)) {
		// died before reading the case (start-up failure): harness problem, not a verdict
		ev.Fatal("worker died outside a case (%s): %.600s", hint, s)
	}
	kind, fn := "exit_"+strings.ReplaceAll(w.cmd.ProcessState.String(), " ", "_"), "unknown"
	msg := ""
	oom := false
	var frames []string
	if m := panicLine.FindStringSubmatchIndex(s); m != nil {
		msg = s[m[4]:m[5]]
		// "panic: X [recovered]\n\tpanic: Y": X was recovered and Y (raised while handling it) is what killed
		// the process; the class names Y, the text keeps both
		rest := s[m[1]:]
		for {
			rest = strings.TrimPrefix(rest, "\n")
			line, tail, _ := strings.Cut(rest, "\n")
			t := strings.TrimSpace(line)
			if !strings.HasPrefix(t, "panic: ") {
				break
			}
			msg += " -> " + strings.TrimPrefix(t, "panic: ")
			rest = tail
		}
		last := msg
		if i := strings.LastIndex(msg, " -> "); i >= 0 {
			last = msg[i+4:]
		}
		kind = panicKind(strings.TrimPrefix(last, "runtime: "))
		if kind == "out_of_memory" {
			oom = true
		}
		// only the goroutine that panicked: the first goroutine block after the panic line
		blk := s[m[1]:]
		if g := strings.Index(blk, "\ngoroutine "); g >= 0 {
			blk = blk[g+1:]
			if e := strings.Index(blk, "\n\n"); e >= 0 {
				blk = blk[:e]
			}
		}
		for _, fm := range repoLine.FindAllStringSubmatch(blk, -1) {
			frames = append(frames, site(fm[1]))
		}
		if len(frames) > 0 {
			fn = frames[0]
			shown := frames
			if len(shown) > 4 {
				shown = shown[:4]
			}
			msg += " at " + strings.Join(shown, " <- ")
		}
	}
	if oom {
		// fn = innermost repository frame of the allocating goroutine (stable under wrapper refactorings; for a
		// handler that computes inside a library it is the handler itself, the same name a busy hang gets).
		// memory exhaustion and "still computing after the bound" are the same failure (work not bounded by the
		// request) observed at different speeds: one class, so that the verdict does not depend on machine load
		return &Result{ID: c.ID, Class: "unbounded:" + fn,
			What: fmt.Sprintf("reader process exceeded %d KiB of address space while serving the request: %s", ulimitKB, strings.TrimSpace(msg))}
	}
	return &Result{ID: c.ID, Class: "crash:" + fn + ":" + kind,
		What: "reader process died while serving the request: " + strings.TrimSpace(msg)}
}

func (p *pool) note(c Case, res *Result) {
	p.mu.Lock()
	for _, u := range res.Unknown {
		if len(u) > 300 {
			u = u[:300]
		}
		if !p.unknown[u] {
			fmt.Fprintf(os.Stderr, "unrecognised statement %q from %s\n", u, c)
		}
		p.unknown[u] = true
	}
	for _, k := range res.Keys {
		p.keys[k]++
	}
	p.mu.Unlock()
}

func (p *pool) unknownList() []string {
	var out []string
	for k := range p.unknown {
		out = append(out, k)
	}
	sort.Strings(out)
	return out
}
func (p *pool) keyList() map[string]int { return p.keys }
func (p *pool) classCounts() map[string]int {
	return p.classes
}

// runAll runs the cases on the pool (dynamic sharding) and records suspects.
func (p *pool) runAll(cases []Case) map[int]*Result {
	results := make(map[int]*Result, len(cases))
	var rmu sync.Mutex
	var next int64 = -1
	var wg sync.WaitGroup
	for i := 0; i < p.n; i++ {
		wg.Add(1)
		go func() {
			defer wg.Done()
			var w *worker
			var prev *Case
			defer func() { w.kill() }()
			for {
				if p.r.Expired() {
					return
				}
				k := int(atomic.AddInt64(&next, 1))
				if k >= len(cases) {
					return
				}
				c := cases[k]
				c.CensusMs = quickCensusMs
				c.ResponseMs = quickRespMs
				if strings.HasPrefix(c.Route, "loki_tail") {
					c.CensusMs = 2500 // the tail poller notices a closed watcher at its next 1 s tick
				}
				if w == nil || w.served > 3000 {
					w.kill()
					var err error
					if w, err = p.spawn(); err != nil {
						ev.Fatal("cannot start worker: %v", err)
					}
					prev = nil
				}
				res, died := p.one(w, c)
				if died {
					atomic.AddInt64(&p.restarts, 1)
					w.kill()
					w = nil
				}
				p.note(c, res)
				p.account(c, res, prev)
				cc := c
				prev = &cc
				rmu.Lock()
				results[c.ID] = res
				rmu.Unlock()
			}
		}()
	}
	wg.Wait()
	return results
}

func (p *pool) account(c Case, res *Result, prev *Case) {
	r := p.r
	r.AddEval(1)
	atomic.AddInt64(&r.TracesValidated, 1)
	atomic.AddInt64(&r.Transitions, int64(len(res.Keys)))
	outcome := "ok"
	if res.Class != "" {
		outcome = res.Class
	} else {
		outcome = fmt.Sprintf("http_%d", res.Out.Status)
		if res.Out.Cancelled {
			outcome += "_client_gone"
		}
	}
	r.Outcome(outcome)
	if len(res.Keys) > 0 || res.Out.Status >= 400 || res.Class != "" {
		r.Distinct(fmt.Sprintf("%s|%s|%s|%s|%v", c.Route, c.Query, c.Params, c.Fault, c.Cancel))
	}
	p.mu.Lock()
	// state = distinct observable behaviour of the reader: route x statement classes sent x status x finding
	stateKey := c.Route + "|" + strings.Join(res.Keys, ">") + "|" + outcome
	if !p.states[stateKey] {
		p.states[stateKey] = true
		r.States++
	}
	if res.Class != "" {
		p.suspects = append(p.suspects, suspect{c, res.Class, res.What, prev})
	}
	p.mu.Unlock()
	if c.ID%97 == 0 || (c.Group == "G3" && c.Fault.Kind != "" && c.ID%41 == 0) {
		r.Sample(map[string]any{"case": c.String(), "status": res.Out.Status, "statements": res.Keys, "finding": res.Class, "body": res.BodyOK})
	}
}

// confirmAll re-runs every suspect alone in fresh workers (generous census bound) before reporting it.  After a
// class has been confirmed on 3 different cases, further cases that failed with the identical signature are
// attributed by signature (they were journalled individually) without another 3 fresh processes each.
func (p *pool) confirmAll(cases []Case, results map[int]*Result) {
	sort.Slice(p.suspects, func(i, j int) bool { return p.suspects[i].c.ID < p.suspects[j].c.ID })
	confirmedPerClass := map[string]int{}
	type job struct {
		s   suspect
		idx int
	}
	var jobs []job
	perClass := map[string]int{}
	for i, s := range p.suspects {
		if perClass[s.class] < 3 {
			perClass[s.class]++
			jobs = append(jobs, job{s, i})
		}
	}
	verdict := make([]string, len(p.suspects)) // "" = not re-run
	var wg sync.WaitGroup
	sem := make(chan struct{}, p.n)
	for _, j := range jobs {
		wg.Add(1)
		sem <- struct{}{}
		go func(j job) {
			defer wg.Done()
			defer func() { <-sem }()
			verdict[j.idx] = p.confirm(j.s.c, j.s.class)
		}(j)
	}
	wg.Wait()
	// a failure that does not reproduce alone may be the after-effect of the previous request of the same worker
	// process (state left behind: a lock never released, a closed pool, ...): re-run the pair in fresh workers
	pairVerdict := make([]bool, len(p.suspects))
	pairs := 0
	for _, j := range jobs {
		if verdict[j.idx] == "reproduced" || j.s.prev == nil || pairs >= 24 {
			continue
		}
		pairs++
		wg.Add(1)
		sem <- struct{}{}
		go func(j job) {
			defer wg.Done()
			defer func() { <-sem }()
			if p.confirmPair(*j.s.prev, j.s.c, j.s.class) {
				// the pair fails every time; make sure the request alone still does not (otherwise it is an
				// ordinary, merely less frequent, failure of the request itself)
				if p.confirm(j.s.c, j.s.class) == "reproduced" {
					verdict[j.idx] = "reproduced"
				} else {
					pairVerdict[j.idx] = true
				}
			}
		}(j)
	}
	wg.Wait()
	for i, s := range p.suspects {
		if pairVerdict[i] {
			cls := "after_previous_request:" + s.class
			p.classes[cls]++
			p.r.Violate(cls, fmt.Sprintf("%s — only when the same process served this request just before: %s — then: %s", s.what, s.prev, s.c),
				map[string]any{"sequence": []Case{*s.prev, s.c}})
			verdict[i] = "pair"
		}
	}
	for i, s := range p.suspects {
		v := verdict[i]
		if v == "reproduced" {
			confirmedPerClass[s.class]++
		}
	}
	reported := map[string]int{}
	for i, s := range p.suspects {
		v := verdict[i]
		if v == "" {
			if confirmedPerClass[s.class] > 0 {
				v = "reproduced" // same signature as a class confirmed by re-running
			} else {
				v = "flaky"
			}
		}
		if v == "pair" {
			continue
		}
		if v != "reproduced" {
			p.r.Outcome("suspect_not_reproduced:" + s.class)
			fmt.Printf("NOT-REPRODUCED (suspect in the grid run, clean when re-run alone): %s — %s\n", s.class, s.c)
			p.flaky = append(p.flaky, s.class+" — "+s.c.String())
			continue
		}
		// a leak names every leaked function; report one class per function, so that the known list is keyed by
		// single goroutines and an unlisted one still fails
		for _, cls := range splitLeak(s.class) {
			p.classes[cls]++
			reported[cls]++
			if reported[cls] <= 3 {
				p.r.Violate(cls, s.what+" — "+s.c.String(), s.c)
			} else {
				p.r.Violate(cls, s.what, s.c) // counted by ev (known) or capped per class
			}
		}
	}
}

func splitLeak(class string) []string {
	kind, rest, ok := strings.Cut(class, ":")
	if !ok || !strings.HasPrefix(kind, "leak") {
		return []string{class}
	}
	var out []string
	for _, fn := range strings.Split(rest, "+") {
		out = append(out, kind+":"+fn)
	}
	return out
}

// confirm runs the case alone in confirmRuns fresh workers; it is reproduced only if every run fails with the
// same class.
func (p *pool) confirm(c Case, class string) string {
	for i := 0; i < confirmRuns; i++ {
		w, err := p.spawn()
		if err != nil {
			ev.Fatal("cannot start worker: %v", err)
		}
		c.CensusMs, c.ResponseMs = 0, 0
		res, _ := p.one(w, c)
		w.kill()
		if res.Class != class {
			return "flaky"
		}
	}
	return "reproduced"
}

// confirmPair runs prev then c in confirmRuns fresh workers; true when c fails with the class every time.
func (p *pool) confirmPair(prev, c Case, class string) bool {
	for i := 0; i < confirmRuns; i++ {
		w, err := p.spawn()
		if err != nil {
			ev.Fatal("cannot start worker: %v", err)
		}
		prev.CensusMs, prev.ResponseMs = 0, 0
		c.CensusMs, c.ResponseMs = 0, 0
		_, died := p.one(w, prev)
		if died {
			w.kill()
			return false
		}
		res, _ := p.one(w, c)
		w.kill()
		if res.Class != class {
			return false
		}
	}
	return true
}

func replay(r *ev.Run, p *pool) {
	b, err := os.ReadFile(r.Replay)
	if err != nil {
		ev.Fatal("%v", err)
	}
	var doc struct {
		Class  string          `json:"class"`
		Replay json.RawMessage `json:"replay"`
	}
	if err := json.Unmarshal(b, &doc); err != nil {
		ev.Fatal("replay file: %v", err)
	}
	var seq struct {
		Sequence []Case `json:"sequence"`
	}
	if json.Unmarshal(doc.Replay, &seq) == nil && len(seq.Sequence) == 2 {
		r.AddEval(2)
		r.States, r.Transitions, r.TracesValidated = 2, 2, 2
		r.Distinct("replay")
		r.Distinct(seq.Sequence[1].String())
		cls := strings.TrimPrefix(doc.Class, "after_previous_request:")
		seq.Sequence[0].ID, seq.Sequence[1].ID = 1, 2
		if p.confirmPair(seq.Sequence[0], seq.Sequence[1], cls) {
			r.Violate("after_previous_request:"+cls, fmt.Sprintf("reproduced: %s — then: %s", seq.Sequence[0], seq.Sequence[1]), map[string]any{"sequence": seq.Sequence})
		} else {
			fmt.Println("replay: the sequence does not fail")
		}
		r.Finish()
	}
	var c Case
	if err := json.Unmarshal(doc.Replay, &c); err != nil {
		ev.Fatal("replay file: %v", err)
	}
	c.ID = 1
	w, err := p.spawn()
	if err != nil {
		ev.Fatal("%v", err)
	}
	res, _ := p.one(w, c)
	w.kill()
	r.AddEval(1)
	r.States, r.Transitions, r.TracesValidated = 1, int64(len(res.Keys))+1, 1
	r.Distinct(c.String())
	r.Distinct("replay")
	fmt.Printf("replay: %s\n  status=%d statements=%v class=%q %s\n", c, res.Out.Status, res.Keys, res.Class, res.What)
	if res.Class != "" {
		if p.confirm(c, res.Class) == "reproduced" {
			for _, cls := range splitLeak(res.Class) {
				r.Violate(cls, res.What+" — "+c.String(), c)
			}
		}
	}
	r.Finish()
}
