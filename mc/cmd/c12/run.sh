# C12 = C12a (mc/cmd/c12: request grid over the real reader router in journalled workers)
#     + C12b (mc/cmd/c12b: engine E1, schedules x faults of the real LogQL processor chain); one evidence file.
# sourced by bin/check with $scratch, $here, $lc set and "$@" = the check's arguments.
replayfile=""; prev=""
for a in "$@"; do [ "$prev" = "--replay" ] && replayfile="$a"; prev="$a"; done
if [ -n "$replayfile" ] && grep -q '"scenario"' "$replayfile" 2>/dev/null; then
  VERIF_PART=C12b "$here/check" C12B "$@"; return $?
fi
go build -modfile="$scratch/mod/go.mod" -tags verif -overlay "$scratch/overlay.json" -o "$scratch/bin/c12" ./mc/cmd/c12 \
  || { echo "HARNESS-ERROR: build failed for C12" >&2; return 2; }
"$scratch/bin/c12" "$@"; rc1=$?
[ $rc1 = 2 ] && return 2
[ -n "$replayfile" ] && return $rc1
VERIF_PART=C12b "$here/check" C12B "$@"; rc2=$?
[ $rc2 = 2 ] && return 2
[ $rc1 = 1 ] || [ $rc2 = 1 ] && return 1
return 0
