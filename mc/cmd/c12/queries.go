package main

import (
	"regexp"
	"sort"
	"strings"
)

// Query menus per query language.  rep = representative valid queries (used for the parameter product and the
// fault sweep); prod = every grammar production / planner at least once; short = every string of <= 3 symbols
// over a 10-symbol alphabet; del = single-token deletions of the valid queries.

type langMenu struct {
	rep      []string
	internal []string
	prod     []string
	alpha    []string
}

var langs = map[string]langMenu{
	"logql": {
		rep: []string{
			`{a="b"}`,                                              // plain log query, all in SQL
			`{a="b"} |= "x" | json | c="d"`,                        // breakpoint: internal pipeline (parser, label filter, limit)
			`rate({a="b"}[1m])`,                                    // metric, metrics_15s shortcut candidate
			`sum by (a) (count_over_time({a="b"}[5s]))`,            // aggregation in SQL
			`sum by (c) (rate({a="b"} | logfmt [5s]))`,             // internal aggregators
			`avg_over_time({a="b"} | json | unwrap x [5s]) by (a)`, // internal unwrap aggregation
			`absent_over_time({a="b"}[5s])`,                        // BreakpointLra
			`topk(2, rate({a="b"}[5s]))`,
		},
		prod: []string{
			`{a="b",c!="d",e=~"f.*",g!~"h"}`, "{a=`b`}", `{_x="b"}`,
			`{a="b"} |= "x"`, `{a="b"} != "x"`, `{a="b"} |~ "x.y"`, `{a="b"} !~ "x.y"`, "{a=\"b\"} |= `x`",
			`{a="b"} | c="d"`, `{a="b"} | c!="d"`, `{a="b"} | c=~"d"`, `{a="b"} | c!~"d"`, `{a="b"} | c==1`, `{a="b"} | c>=1.5`,
			`{a="b"} | c>1`, `{a="b"} | c<=1`, `{a="b"} | c<1`, `{a="b"} | c="d" and e="f"`, `{a="b"} | c="d" or e="f"`,
			`{a="b"} | (c="d" or e="f") and g="h"`,
			`{a="b"} | json`, `{a="b"} | json x="y.z"`, `{a="b"} | json x="y", z="w[0]"`, `{a="b"} | logfmt`,
			`{a="b"} | regexp "(?P<x>\\d+)"`, `{a="b"} | regexp "("`,
			`{a="b"} | line_format "{{.a}} x"`, `{a="b"} | line_format "{{.a"`, `{a="b"} | json | line_format "{{.x}}"`,
			`{a="b"} | label_format x=a`, `{a="b"} | label_format x="c"`, `{a="b"} | label_format x=a, y="c"`,
			`{a="b"} | logfmt | label_format x=a`,
			`{a="b"} | unwrap x`, `{a="b"} | unwrap_value`, `{a="b"} | json | unwrap x`,
			`{a="b"} | drop x`, `{a="b"} | drop x, y="z"`, `{a="b"} | json | drop x`, `{a="b"} | json | drop x="1"`,
			`rate({a="b"}[5s])`, `count_over_time({a="b"}[5s])`, `bytes_rate({a="b"}[5s])`, `bytes_over_time({a="b"}[5s])`,
			`absent_over_time({a="b"} |= "x" [5s])`,
			`sum_over_time({a="b"} | unwrap x [5s])`, `avg_over_time({a="b"} | unwrap x [5s])`, `max_over_time({a="b"} | unwrap x [5s])`,
			`min_over_time({a="b"} | unwrap x [5s])`, `first_over_time({a="b"} | unwrap x [5s])`, `last_over_time({a="b"} | unwrap x [5s])`,
			`stdvar_over_time({a="b"} | unwrap x [5s])`, `stddev_over_time({a="b"} | unwrap x [5s])`,
			`sum_over_time({a="b"} | unwrap_value [5s])`, `sum_over_time({a="b"} | json | unwrap x [5s]) by (a)`,
			`rate({a="b"}[1ns])`, `rate({a="b"}[1us])`, `rate({a="b"}[1ms])`, `rate({a="b"}[1h])`, `rate({a="b"}[0s])`,
			`rate({a="b"}[9999999999h])`,
			`rate by (a) ({a="b"}[5s])`, `rate({a="b"}[5s]) by (a)`, `rate({a="b"}[5s]) without (a)`, `rate({a="b"}[5s]) > 1`,
			`rate({a="b"} | json [5s]) >= 0.5`, `rate({a="b"} | json [5s]) == 1`, `rate({a="b"} | json [5s]) != 1`,
			`rate({a="b"} | json [5s]) < 1`, `rate({a="b"} | json [5s]) <= 1`,
			`sum(rate({a="b"}[5s]))`, `min(rate({a="b"}[5s]))`, `max(rate({a="b"}[5s]))`, `avg(rate({a="b"}[5s]))`,
			`stddev(rate({a="b"}[5s]))`, `stdvar(rate({a="b"}[5s]))`, `count(rate({a="b"}[5s]))`,
			`sum by (a) (rate({a="b"}[5s]))`, `sum without (a) (rate({a="b"}[5s]))`, `sum(rate({a="b"}[5s])) by (a)`,
			`sum(rate({a="b"}[5s])) > 1`, `sum(rate({a="b"} | json [5s])) by (x)`, `min(rate({a="b"} | logfmt [5s]))`,
			`max(rate({a="b"} | json [5s]))`, `avg(rate({a="b"} | json [5s]))`, `stddev(rate({a="b"} | json [5s]))`,
			`stdvar(rate({a="b"} | json [5s]))`, `count(rate({a="b"} | json [5s]))`, `sum(rate({a="b"} | json [5s])) > 1`,
			`topk(1, rate({a="b"}[5s]))`, `bottomk(1.5, sum by (a) (rate({a="b"}[5s])))`, `topk(1, rate({a="b"}[5s])) > 1`,
			`topk(1, quantile_over_time(0.5, {a="b"} | unwrap x [5s]))`, `topk(0, rate({a="b"}[5s]))`,
			`topk(1, rate({a="b"} | json [5s]))`,
			`quantile_over_time(0.5, {a="b"} | unwrap x [5s])`, `quantile_over_time by (a) (0.5, {a="b"} | unwrap x [5s])`,
			`quantile_over_time(0.5, {a="b"} | unwrap x [5s]) by (a)`, `quantile_over_time(2, {a="b"} | json | unwrap x [5s])`,
			`_macro("x")`, `_macro()`, `_macro("x","y")`, `vector(1)+vector(1)`,
			`{a="b"} | json | line_format "{{.x}}" | c="d" | drop c | label_format y=x`,
			// every pipeline stage kind after an in-process stage (the whole tail then runs in internal_planner)
			`{a="b"} | logfmt |= "x"`, `{a="b"} | logfmt != "x"`, `{a="b"} | logfmt |~ "x.y"`, `{a="b"} | logfmt !~ "("`,
			`{a="b"} | logfmt | c="d"`, `{a="b"} | logfmt | x>1`, `{a="b"} | logfmt | x>1 or c="d"`, `{a="b"} | logfmt | json`,
			`{a="b"} | logfmt | json x="y"`, `{a="b"} | json | logfmt`, `{a="b"} | logfmt | regexp "(?P<x>\\d+)"`,
			`{a="b"} | logfmt | line_format "{{.x}}"`, `{a="b"} | logfmt | label_format w="const"`, `{a="b"} | json | label_format w="const"`,
			`{a="b"} | logfmt | label_format w=x, v="c"`, `{a="b"} | logfmt | unwrap x`, `{a="b"} | logfmt | drop x`, `{a="b"} | logfmt | drop x="1"`,
			`{a="b"} | line_format "{{.a}}" | label_format w="const"`, `{a="b"} | line_format "{{.a}}" |= "b"`,
			`rate({a="b"} | logfmt | label_format w="const" [5s])`, `sum by (w) (rate({a="b"} | json | label_format w="const" [5s]))`,
			`sum_over_time({a="b"} | logfmt | unwrap x [5s])`, `max_over_time({a="b"} | logfmt | unwrap x [5s]) by (c)`,
			`first_over_time({a="b"} | logfmt | unwrap x [5s])`, `stddev_over_time({a="b"} | json | unwrap x [5s])`,
			`absent_over_time({a="b"} | logfmt [5s])`, `count_over_time({a="b"} | logfmt | c="d" [5s]) > 1`,
		},
		// internal: queries whose pipeline tail runs in the in-process planner; they join the fault sweep (G3)
		internal: []string{
			`rate({a="b"} | json [1m])`, `sum by (c) (count_over_time({a="b"} | logfmt [5s]))`,
			`{a="b"} | logfmt | label_format w="const"`, `{a="b"} | json | c="d" | line_format "{{.x}}"`,
			`{a="b"} | logfmt | drop x | unwrap x`, `rate({a="b"} | logfmt | label_format w="const" [5s])`,
			`stddev_over_time({a="b"} | json | unwrap x [5s])`, `{a="b"} | logfmt | regexp "(?P<y>\\d+)" |~ "x"`,
		},
		alpha: []string{"{", "}", `"`, "a", "=", "|", "(", "[", "1", "~"},
	},
	"logql_sel": {
		rep:   []string{`{a="b"}`, `{a=~"b.*", c!="d"}`},
		prod:  []string{`{a="b"}`, `{a!="b"}`, `{a=~"b"}`, `{a!~"b"}`, `{a="b"} |= "x"`, `a{b="c"}`, `{}`, `rate({a="b"}[1m])`, "{a=`b`}"},
		alpha: []string{"{", "}", `"`, "a", "=", "!", ",", "`", "1", "~"},
	},
	"promql": {
		rep: []string{`m`, `m{a="x"}`, `rate(m[1m])`, `sum by (a) (m)`, `m offset 1m`, `vector(1)`},
		prod: []string{`m{a!="x"}`, `m{a=~"x.*"}`, `m{a!~"x"}`, `{__name__="m"}`, `{a=""}`, `m[5m]`, `sum_over_time(m[30s])`,
			`avg_over_time(m[5m])`, `quantile_over_time(0.5, m[5m])`, `max by (a) (m)`, `min without (a) (m)`, `count(m)`, `topk(1, m)`,
			`m + m`, `m * on(a) group_left m`, `m > bool 1`, `m and m`, `m or m`, `m unless m`, `-m`, `abs(m)`, `histogram_quantile(0.9, m)`,
			`label_replace(m, "a", "$1", "b", "(.*)")`, `label_join(m, "a", ",", "b")`, `time()`, `1`, `"s"`, `m[5m:1m]`, `rate(m[5m])[10m:]`,
			`m @ 10`, `m offset -1m`, `absent(m)`, `scalar(m)`, `sort(m)`, `timestamp(m)`, `deriv(m[1m])`, `predict_linear(m[1m], 10)`,
			`holt_winters(m[1m], 0.5, 0.5)`, `changes(m[1m])`, `resets(m[1m])`, `irate(m[1m])`, `delta(m[1m])`, `increase(m[1m])`,
			`m{a="x"}[1m] offset 5m`, `sum(rate(m[1m])) by (a) / sum(rate(m[1m]))`, `count_values("v", m)`, `quantile(0.5, m)`,
			`stddev(m)`, `group(m)`, `m ^ 2`, `m % 0`, `1 / 0`, `m == m`, `clamp(m, 0, 1)`, `round(m, 0)`, `vector(1)+vector(1)`,
			`m[9999999999y]`, `rate(m[0s])`, `m offset 9999999999y`},
		alpha: []string{"m", "{", "}", `"`, "=", "(", "[", "1", ":", "+"},
	},
	"promsel": {
		rep:   []string{`m`, `{a="x"}`},
		prod:  []string{`m{a!="x"}`, `{a=~"x.*"}`, `{a!~"x"}`, `{__name__="m"}`, `{a=""}`, `rate(m[1m])`, `m + m`, `1`, `{}`},
		alpha: []string{"m", "{", "}", `"`, "=", "(", "[", "1", "~", "!"},
	},
	"traceql": {
		rep: []string{`{.a="b"}`, `{.a="b" && duration > 1ms}`, `{.a="b"} || {name="x"}`, `{.a="b"} | count() > 1`, ``},
		prod: []string{`{}`, `{.a!="b"}`, `{.a=~"b.*"}`, `{.a!~"b"}`, `{.a>1}`, `{.a>=1.5}`, `{.a<1}`, `{.a<=-1}`, `{.a=1s}`, `{span.a="b"}`,
			`{resource.a="b"}`, `{name="x"}`, `{duration>1s}`, `{duration>1}`, `{duration>1.5ms}`, `{status=ok}`, `{kind="server"}`,
			`{.a="b" || .c="d"}`, `{(.a="b" || .c="d") && .e="f"}`, `{.a="b"} && {.c="d"}`, `{.a="b"} || {.c="d"} && {.e="f"}`,
			`{.a="b"} | sum(duration) > 1s`, `{.a="b"} | min(.x) >= 1`, `{.a="b"} | max(.x) < 1`, `{.a="b"} | avg(.x) <= 1`,
			`{.a="b"} | count() != 1`, `{.a="b"} | count() = 1`, `{.a="b"} | avg(duration) > 1d`, "{.a=`b`}", `{.service.name="x"}`,
			`{duration > 9999999999999999999h}`, `{.a>99999999999999999999999}`, `{} | count() > -1`, `{.a=-1.5}`},
		alpha: []string{"{", "}", ".", "a", "=", `"`, "&", "|", "1", "-"},
	},
	"tags": {
		rep:   []string{`a=b`, `service.name=x http.status_code=200`, ``},
		prod:  []string{`a="b c"`, `a=`, `=b`, `a`, `a=b=c`, `name=x`, `"a"="b"`, `a=b  c=d`, `a="b`, `a=\"b\"`},
		alpha: []string{"a", "=", `"`, " ", "b", ".", "\\", "1", ",", "'"},
	},
	"traceid": {
		rep: []string{"0123456789abcdef0123456789abcdef", "0123456789abcdef"},
		prod: []string{strings.Repeat("a", 64), strings.Repeat("a", 65), strings.Repeat("a", 66), strings.Repeat("a", 200),
			strings.Repeat("a", 31), "ABCDEF0123456789ABCDEF0123456789", "zz", "0123456789abcdeg0123456789abcdef", "%00", "a b", "'", ".."},
		alpha: []string{"0", "a", "F", "g", "-", "'", ".", "1", "z", " "},
	},
	"tagname": {
		rep:   []string{"service.name", "span.http.method"},
		prod:  []string{"resource.service.name", ".a", "span.", "resource.", "resource.x", "name", "a'b", "a\\", "%00", strings.Repeat("x", 300)},
		alpha: []string{"a", ".", "'", "\\", "s", "p", "n", "1", " ", "%"},
	},
	"labelname": {
		rep:   []string{"job", "__name__"},
		prod:  []string{"a'b", "a\\", "%00", "a b", strings.Repeat("x", 300), "0", "a.b"},
		alpha: []string{"a", "_", "'", "\\", "1", " ", ".", "%", `"`, "-"},
	},
	"profsel": {
		rep: []string{`{service_name="x"}`, `{}`, `{a="b", service_name=~"x.*"}`},
		prod: []string{`{a!="b"}`, `{a!~"b"}`, `{__name__="process_cpu"}`, `{__period_type__="cpu"}`, `{__period_unit__="nanoseconds"}`,
			`{__sample_type__="cpu"}`, `{__sample_unit__="nanoseconds"}`, `{__profile_type__="process_cpu:cpu:nanoseconds:cpu:nanoseconds"}`,
			"{a=`b`}", `{a="b",}`, `{a="\x"}`, `{a=~"("}`, ``, `{__sample_type__!~"c.*", __sample_unit__!="x"}`},
		alpha: []string{"{", "}", "a", "=", `"`, ",", "~", "!", "`", "1"},
	},
	"profdiff": {
		rep:   []string{profType + `{service_name="x"}`, profType + `{}`},
		prod:  []string{`{}`, `x{}`, profType, `a:b:c:d{}`, `a:b:c:d:e:f{}`, profType + `{a!="b"}`, profType + `{`, ``},
		alpha: []string{"{", "}", "a", ":", `"`, "=", ",", "x", "1", " "},
	},
	"none": {rep: []string{""}},
	// tail: the LogQL grammar again (rep + prod of logql are appended in init), no byte-level menu
	"logql_tail": {},
}

func init() {
	l := langs["logql"]
	langs["logql_tail"] = langMenu{rep: l.rep[:2], prod: append(append([]string{}, l.rep[2:]...), l.prod...)}
}

// shortStrings returns every string of <= n symbols over the alphabet (1 + 10 + 100 + 1000 for n = 3).
func shortStrings(alpha []string, n int) []string {
	out := []string{""}
	level := []string{""}
	for i := 0; i < n; i++ {
		var next []string
		for _, p := range level {
			for _, a := range alpha {
				next = append(next, p+a)
			}
		}
		out = append(out, next...)
		level = next
	}
	return out
}

var tokRe = regexp.MustCompile("\"(?:[^\"\\\\]|\\\\.)*\"|`[^`]*`|[A-Za-z_][A-Za-z0-9_.]*|[0-9]+|\\s+|[!=<>|~&]{2}|.")

// deletions returns the query with each non-blank token deleted once.
func deletions(q string) []string {
	toks := tokRe.FindAllString(q, -1)
	var out []string
	for i, t := range toks {
		if strings.TrimSpace(t) == "" {
			continue
		}
		out = append(out, strings.Join(toks[:i], "")+strings.Join(toks[i+1:], ""))
	}
	return out
}

// queryMenu is the whole query menu of one language, de-duplicated, rep first.
func queryMenu(lang string, shortLen int) []string {
	m := langs[lang]
	seen := map[string]bool{}
	var out []string
	add := func(l []string) {
		for _, q := range l {
			if !seen[q] {
				seen[q] = true
				out = append(out, q)
			}
		}
	}
	add(m.rep)
	add(m.prod)
	add(m.internal)
	var dels []string
	for _, q := range append(append(append([]string{}, m.rep...), m.prod...), m.internal...) {
		dels = append(dels, deletions(q)...)
	}
	sort.Strings(dels)
	add(dels)
	if len(m.alpha) > 0 {
		add(shortStrings(m.alpha, shortLen))
	}
	return out
}
