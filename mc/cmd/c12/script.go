package main

import (
	"context"
	"database/sql/driver"
	"errors"
	"fmt"
	"math"
	"math/big"
	"regexp"
	"strconv"
	"strings"
	"sync"
	"time"

	"github.com/metrico/qryn/reader/prof"
	commonv1 "go.opentelemetry.io/proto/otlp/common/v1"
	tracev1 "go.opentelemetry.io/proto/otlp/trace/v1"
	"google.golang.org/protobuf/proto"

	"verif/mc/fakesql"
)

// Fault selects the result-set shape every statement of the request gets and the one injected fault.
type Fault struct {
	Shape string `json:"shape"`          // empty | 1batch | 3batches | edge | 3batches_mixed | rogue_before | rogue_after | rogue_far | 3batches_rogue | unordered | dups
	Kind  string `json:"kind,omitempty"` // "" | open_err | row_err | scan_err | end_err | block | block_open
	Nth   int    `json:"nth,omitempty"`  // index (0-based, in order of arrival) of the statement that gets the fault
	Row   int    `json:"row,omitempty"`  // row index k for row_err / scan_err / block
}

func (f Fault) String() string {
	if f.Kind == "" {
		return f.Shape
	}
	return fmt.Sprintf("%s/%s@q%d.r%d", f.Shape, f.Kind, f.Nth, f.Row)
}

// class describes one recognised statement shape (by output column list).
type class struct {
	cols int
	// single: the statement returns exactly one row whatever the shape (aggregates without GROUP BY); the shape
	// then sizes the arrays inside that row.
	single bool
	row    func(i, n int, edge bool, w *window) []driver.Value
}

var errInjected = errors.New("code: 241, message: Memory limit (total) exceeded (injected by fakesql)")

func lbl(i int) map[string]string {
	return map[string]string{"a": "b", "n": fmt.Sprint(i)}
}

func fpOf(i, n int) uint64 {
	if n <= 3 {
		return uint64(1 + i/2)
	}
	return uint64(1 + i/100)
}

var (
	otlpPB   string
	pprofPB  string
	initRows sync.Once
)

const zipkinJSON = `{"id":"0123456789abcdef","traceId":"0123456789abcdef0123456789abcdef","name":"x","kind":"CLIENT","parentId":"0123456789abcdef","tags":{"a":"b","n":1},"localEndpoint":{"serviceName":"svc","ipv4":"1.2.3.4","port":80},"remoteEndpoint":{"serviceName":"r"},"annotations":[{"timestamp":1,"value":"v"},{"timestamp":0}]}`
const otlpJSON = `{"traceId":"AAAAAAAAAAAAAAAAAAAAAA==","spanId":"AAAAAAAAAAA=","name":"x","kind":"SPAN_KIND_SERVER","startTimeUnixNano":"1","endTimeUnixNano":"2","attributes":[{"key":"service.name","value":{"stringValue":"svc"}},{"key":"n","value":{"intValue":"1"}}],"events":[{"timeUnixNano":"1","name":"e"}],"status":{"code":"STATUS_CODE_OK"}}`

func prepare() {
	sp := &tracev1.Span{TraceId: []byte("0123456789abcdef"), SpanId: []byte("01234567"), Name: "x",
		StartTimeUnixNano: 1, EndTimeUnixNano: 2,
		Attributes: []*commonv1.KeyValue{{Key: "service.name", Value: &commonv1.AnyValue{Value: &commonv1.AnyValue_StringValue{StringValue: "svc"}}}}}
	b, _ := proto.Marshal(sp)
	otlpPB = string(b)
	p := &prof.Profile{
		SampleType:  []*prof.ValueType{{Type: 1, Unit: 2}},
		Sample:      []*prof.Sample{{LocationId: []uint64{1}, Value: []int64{5}}},
		Location:    []*prof.Location{{Id: 1, Line: []*prof.Line{{FunctionId: 1, Line: 1}}}},
		Function:    []*prof.Function{{Id: 1, Name: 3}},
		StringTable: []string{"", "cpu", "nanoseconds", "main"},
		PeriodType:  &prof.ValueType{Type: 1, Unit: 2},
		Period:      1,
	}
	b, _ = proto.Marshal(p)
	pprofPB = string(b)
}

func pairs(kv ...string) [][]any {
	var out [][]any
	for i := 0; i+1 < len(kv); i += 2 {
		out = append(out, []any{kv[i], kv[i+1]})
	}
	if out == nil {
		out = [][]any{}
	}
	return out
}

func str1(normal func(i int) string) func(i, n int, edge bool, w *window) []driver.Value {
	return func(i, n int, edge bool, w *window) []driver.Value {
		if edge && i == 0 {
			return []driver.Value{""}
		}
		return []driver.Value{normal(i)}
	}
}

var classes = map[string]class{
	"_name,_value": {cols: 2, row: func(i, n int, edge bool, w *window) []driver.Value {
		if edge {
			return []driver.Value{[]string{"", "v5", "tempo_v2"}[i%3], []string{"abc", "", "-1"}[i%3]}
		}
		return []driver.Value{[]string{"tempo_v2", "v5", "x"}[i%3], "0"}
	}},
	"SHOW TABLES": {cols: 1, row: func(i, n int, edge bool, w *window) []driver.Value {
		if edge {
			return []driver.Value{[]string{"", "samples_v3", "time_series"}[i%3]}
		}
		return []driver.Value{[]string{"metrics_15s", "samples_v3", "time_series"}[i%3]}
	}},
	// LogQL log rows: fingerprint UInt64, labels Map(String,String), string String, timestamp_ns Int64
	"fingerprint,labels,string,timestamp_ns": {cols: 4, row: func(i, n int, edge bool, w *window) []driver.Value {
		if edge {
			switch i % 3 {
			case 0:
				return []driver.Value{uint64(0), map[string]string{}, "", w.at(i, n)}
			case 1:
				return []driver.Value{uint64(0), map[string]string{"": ""}, `{"x":1,"c":"d"} a=b`, w.at(i, n)}
			}
			return []driver.Value{uint64(math.MaxUint64), map[string]string{"a": ""}, "\x00\xff{", w.at(i, n)}
		}
		return []driver.Value{fpOf(i, n), lbl(int(fpOf(i, n))), fmt.Sprintf(`{"x":%d,"c":"d","msg":"line %d"} x=%d c=d`, i, i, i),
			w.at(i, n)}
	}},
	// LogQL matrix rows: fingerprint, labels, value Float64, timestamp_ns
	"fingerprint,labels,value,timestamp_ns": {cols: 4, row: func(i, n int, edge bool, w *window) []driver.Value {
		if edge {
			switch i % 3 {
			case 0:
				return []driver.Value{uint64(0), map[string]string{}, float64(0), w.at(i, n)}
			case 1:
				return []driver.Value{uint64(1), map[string]string{"": ""}, math.NaN(), w.at(i, n)}
			}
			return []driver.Value{uint64(math.MaxUint64), map[string]string{"a": ""}, math.Inf(1), w.at(i, n)}
		}
		return []driver.Value{fpOf(i, n), lbl(int(fpOf(i, n))), float64(i + 1), w.at(i, n)}
	}},
	// Prometheus raw samples: fingerprint UInt64, value Float64, timestamp_ms Int64
	"fingerprint,value,timestamp_ms": {cols: 3, row: func(i, n int, edge bool, w *window) []driver.Value {
		if edge {
			switch i % 3 {
			case 0:
				return []driver.Value{uint64(0), float64(0), w.at(i, n) / 1e6}
			case 1:
				return []driver.Value{uint64(0), math.NaN(), w.at(i, n) / 1e6}
			}
			return []driver.Value{uint64(math.MaxUint64), math.Inf(-1), w.at(i, n) / 1e6}
		}
		return []driver.Value{fpOf(i, n), float64(i + 1), w.at(i, n) / 1e6}
	}},
	// labelsGetter: fingerprint UInt64, labels Array(Tuple(String,String))
	"fingerprint,labels": {cols: 2, row: func(i, n int, edge bool, w *window) []driver.Value {
		if edge {
			switch i % 3 {
			case 0:
				return []driver.Value{uint64(0), pairs()}
			case 1:
				return []driver.Value{uint64(math.MaxUint64), pairs("", "")}
			}
			return []driver.Value{uint64(1), pairs("__name__", "m", "__name__", "m")}
		}
		return []driver.Value{uint64(1 + i%3), pairs("__name__", "m", "a", "x", "n", fmt.Sprint(1+i%3))}
	}},
	"key":    {cols: 1, row: str1(func(i int) string { return fmt.Sprintf("label_%d", i) })},
	"val":    {cols: 1, row: str1(func(i int) string { return fmt.Sprintf("value \"%d\"", i) })},
	"labels": {cols: 1, row: str1(func(i int) string { return fmt.Sprintf(`{"a":"b","n":"%d"}`, i) })},
	"cnt": {cols: 1, single: true, row: func(i, n int, edge bool, w *window) []driver.Value {
		return []driver.Value{uint64(n)}
	}},
	// Tempo trace by id
	"trace_id,span_id,parent_id,timestamp_ns,duration_ns,payload_type,payload": {cols: 7,
		row: func(i, n int, edge bool, w *window) []driver.Value {
			tid, sid := "0123456789abcdef", "01234567"
			if edge {
				switch i % 3 {
				case 0: // an OTLP row whose payload is empty (a span with no field set marshals to zero bytes)
					return []driver.Value{tid, sid, "", w.at(i, n), int64(0), int8(2), ""}
				case 1:
					return []driver.Value{"\x00\x00\x00\x00\x00\x00\x00\x00\x00\x00\x00\x00\x00\x00\x00\x00", "\x00\x00\x00\x00\x00\x00\x00\x00", "",
						w.at(i, n), int64(-1), int8(1), ""}
				}
				return []driver.Value{tid, sid, "", w.at(i, n), int64(math.MaxInt64), int8(1), `{"tags":1,"annotations":{}}`}
			}
			switch i % 3 {
			case 0:
				return []driver.Value{tid, sid, "", w.at(i, n), int64(1000), int8(1), zipkinJSON}
			case 1:
				return []driver.Value{tid, sid, "01234567", w.at(i, n), int64(1000), int8(2), otlpPB}
			}
			return []driver.Value{tid, sid, "", w.at(i, n), int64(1000), int8(2), otlpJSON}
		}},
	// Tempo search (tags)
	"hex(trace_id),root_service_name,root_trace_name,start_time_unix_nano,duration_ms": {cols: 5,
		row: func(i, n int, edge bool, w *window) []driver.Value {
			if edge {
				return []driver.Value{"", "", "", w.at(i, n), int64(0)}
			}
			return []driver.Value{fmt.Sprintf("%032X", i), "svc", "op", w.at(i, n), int64(i)}
		}},
	// TraceQL search
	"trace_id,span_id,duration,timestamp_ns,start_time_unix_nano,duration_ms,root_service_name,root_trace_name": {cols: 8,
		row: func(i, n int, edge bool, w *window) []driver.Value {
			if edge {
				switch i % 3 {
				case 0:
					return []driver.Value{"", []string{}, []int64{}, []int64{}, w.at(i, n), float64(0), "", ""}
				case 1:
					return []driver.Value{"00", []string{""}, []int64{0}, []int64{w.at(i, n)}, w.at(i, n), math.NaN(), "", ""}
				}
				return []driver.Value{"zz", []string{"a", "b"}, []int64{math.MaxInt64, w.at(i, n)}, []int64{w.at(i, n), w.at(i, n)},
					w.at(i, n), math.Inf(1), "\x00", "\xff"}
			}
			return []driver.Value{fmt.Sprintf("%032x", i), []string{"0123456789abcdef", "1123456789abcdef"}, []int64{1000, 2000},
				[]int64{w.at(i, n), w.at(i, n)}, w.at(i, n), float64(3), "svc", "op"}
		}},
	// TraceQL complexity estimate: one count per index branch
	"_count": {cols: 1, row: func(i, n int, edge bool, w *window) []driver.Value {
		if edge {
			return []driver.Value{uint64(0)}
		}
		if n > 100 && i == 0 {
			return []driver.Value{uint64(20_000_000)} // above COMPLEXITY_THRESHOLD: the "complex request" path
		}
		return []driver.Value{uint64(i + 1)}
	}},
	// Pyroscope
	"type_id,sample_type_unit": {cols: 2, row: func(i, n int, edge bool, w *window) []driver.Value {
		return []driver.Value{"process_cpu:cpu:nanoseconds", []any{[]string{"cpu", "alloc", ""}[i%3], "nanoseconds"}}
	}},
	"tags,type_id,__sample_types_units": {cols: 3, row: func(i, n int, edge bool, w *window) []driver.Value {
		if edge && i == 0 {
			return []driver.Value{pairs(), "::", []any{"", ""}}
		}
		return []driver.Value{pairs("service_name", "x", "n", fmt.Sprint(i)), "process_cpu:cpu:nanoseconds", []any{"cpu", "nanoseconds"}}
	}},
	"timestamp_ms,fingerprint,labels,value": {cols: 4, row: func(i, n int, edge bool, w *window) []driver.Value {
		if edge {
			return []driver.Value{w.at(i, n) / 1e6, uint64(0), pairs(), math.NaN()}
		}
		return []driver.Value{w.at(i, n) / 1e6, fpOf(i, n), pairs("service_name", "x"), float64(i)}
	}},
	"payload": {cols: 1, row: func(i, n int, edge bool, w *window) []driver.Value {
		if edge && i == 0 {
			return []driver.Value{""}
		}
		return []driver.Value{pprofPB}
	}},
	"profile_size,fingerprint_count": {cols: 2, single: true, row: func(i, n int, edge bool, w *window) []driver.Value {
		return []driver.Value{uint64(n) * 1000, uint64(n)}
	}},
	"non_empty,min_date,min_time": {cols: 3, single: true, row: func(i, n int, edge bool, w *window) []driver.Value {
		if n == 0 {
			return []driver.Value{int8(0), int64(0), int64(0)}
		}
		return []driver.Value{int8(1), w.at(0, 2) / 1e6, w.at(1, 2) / 1e6}
	}},
	"_tree,_functions": {cols: 2, single: true, row: func(i, n int, edge bool, w *window) []driver.Value {
		tree := [][]any{}
		fns := [][]any{}
		for k := 0; k < n; k++ {
			parent := uint64(k) // chain 0 -> 1 -> 2 ...; every 7th node hangs off the root again
			if k%7 == 0 {
				parent = 0
			}
			self, total := int64(1), int64(n-k)
			if edge {
				self, total = 0, 0
			}
			tree = append(tree, []any{parent, uint64(k%5 + 1), uint64(k + 1), self, total})
		}
		for k := 0; k < 5 && k < n; k++ {
			fns = append(fns, []any{uint64(k + 1), fmt.Sprintf("fn%d", k)})
		}
		return []driver.Value{tree, fns}
	}},
}

// window is the time window the statement restricts its timestamp column to.  ClickHouse returns no row outside
// it, so the script does not either: generated timestamps lie strictly inside, an empty window yields no rows.
type window struct {
	lo, hi int64 // rows have lo <= ts < hi (ns)
	bucket int64 // output timestamps are multiples of bucket (intDiv(ts, D) * D), 0 = none
	bound  bool
	// rogue: the "disobedient database" shapes ignore the window the statement asked for:
	// before | after | far (int64 extremes, 0, -1) | some (every 50th row, alternating before / after / far)
	rogue string
}

var (
	boundRe  = regexp.MustCompile(`(?:timestamp_ns|start_time_unix_nano)\)? (>=|>|<=|<) \(?(-?[0-9]+)\)?`)
	bucketRe = regexp.MustCompile(`intDiv\((?:samples\.)?timestamp_ns, ([0-9]+)\) \* ([0-9]+) as timestamp_ns`)
)

func parseWindow(q string) *window {
	w := &window{lo: math.MinInt64, hi: math.MaxInt64}
	for _, m := range boundRe.FindAllStringSubmatch(q, -1) {
		v, err := strconv.ParseInt(m[2], 10, 64)
		if err != nil {
			continue
		}
		w.bound = true
		switch m[1] {
		case ">=":
			if v > w.lo {
				w.lo = v
			}
		case ">":
			if v < math.MaxInt64 && v+1 > w.lo {
				w.lo = v + 1
			}
		case "<":
			if v < w.hi {
				w.hi = v
			}
		case "<=":
			if v < math.MaxInt64 && v+1 < w.hi {
				w.hi = v + 1
			}
		}
	}
	if m := bucketRe.FindStringSubmatch(q); m != nil && m[1] == m[2] {
		w.bucket, _ = strconv.ParseInt(m[1], 10, 64)
	}
	if !w.bound {
		// statements without a time predicate (trace by id without start/end, ...): a fixed recent hour
		w.lo, w.hi = 1_790_000_000_000_000_000, 1_790_003_600_000_000_000
	}
	if w.lo == math.MinInt64 {
		w.lo = 0
		if w.hi <= 0 {
			w.lo = w.hi - 3600e9
		}
	}
	if w.hi == math.MaxInt64 && w.lo < math.MaxInt64-3600e9 {
		w.hi = w.lo + 3600e9
	}
	return w
}

func (w *window) empty() bool { return w.hi <= w.lo }

// at spreads n rows evenly and strictly inside the window, ascending inside each block of 100 rows (one series).
func (w *window) at(i, n int) int64 {
	rogue := w.rogue
	if rogue == "some" {
		rogue = ""
		if i%50 == 7 {
			rogue = []string{"before", "after", "far"}[(i/50)%3]
		}
	}
	switch rogue {
	case "before":
		return satAdd(w.lo, -3600e9-int64(i)*1e9)
	case "after":
		return satAdd(w.hi, 3600e9+int64(i)*1e9)
	case "far":
		return []int64{math.MinInt64, math.MaxInt64, 0, -1}[i%4]
	}
	span := new(big.Int).Sub(big.NewInt(w.hi), big.NewInt(w.lo))
	k := int64(i%100 + 1)
	off := new(big.Int).Div(new(big.Int).Mul(span, big.NewInt(k)), big.NewInt(101))
	ts := new(big.Int).Add(big.NewInt(w.lo), off).Int64()
	if w.bucket > 0 {
		ts = ts / w.bucket * w.bucket
	}
	return ts
}

func satAdd(a, b int64) int64 {
	c := a + b
	if b > 0 && c < a {
		return math.MaxInt64
	}
	if b < 0 && c > a {
		return math.MinInt64
	}
	return c
}

// shapeRows is the number of rows a shape asks for.
func shapeRows(shape string) int {
	switch shape {
	case "empty":
		return 0
	case "3batches", "3batches_mixed", "3batches_rogue", "unordered", "dups":
		return 250
	}
	return 3
}

// Script is the per-request driver script: every statement gets the rows of its class in the chosen shape; the
// Nth statement additionally gets the fault.
type Script struct {
	mu      sync.Mutex
	fault   Fault
	seen    int
	Unknown []string // statements whose shape no class recognises (harness gap: exit 2)
	Keys    []string // class key of every statement, in order
	Rows    []int    // rows scripted for every statement, in order
}

func newScript(f Fault) *Script {
	initRows.Do(prepare)
	return &Script{fault: f}
}

func (s *Script) Handle(ctx context.Context, q string, _ []driver.NamedValue) (*fakesql.Result, error) {
	key := finalKey(q)
	if strings.TrimSpace(q) == "" {
		// ClickHouse answers an empty statement with a syntax error (reader/service/tempoService.go Search sends
		// one when the tags expression does not parse: the error of request.String is dropped)
		s.mu.Lock()
		s.seen++
		s.Keys = append(s.Keys, "<empty statement>")
		s.Rows = append(s.Rows, 0)
		s.mu.Unlock()
		return nil, errors.New("code: 62, message: Syntax error: failed at position 1 (end of query): Empty query")
	}
	s.mu.Lock()
	idx := s.seen
	s.seen++
	s.mu.Unlock()
	cl, ok := classes[key]
	if !ok {
		s.mu.Lock()
		s.Unknown = append(s.Unknown, key+" <= "+q)
		s.Keys = append(s.Keys, "?"+key)
		s.Rows = append(s.Rows, 0)
		s.mu.Unlock()
		return nil, fmt.Errorf("fakesql script: unrecognised statement shape %q", key)
	}
	cols := make([]string, cl.cols)
	for i := range cols {
		cols[i] = fmt.Sprintf("c%d", i)
	}
	res := fakesql.NewResult(cols...)
	n := shapeRows(s.fault.Shape)
	edge := s.fault.Shape == "edge"
	mixed := s.fault.Shape == "3batches_mixed" // a large result in which every 7th row carries edge values
	w := parseWindow(q)
	// disobedient database: rows outside the window the statement asked for, out of order, repeated
	switch s.fault.Shape {
	case "rogue_before":
		w.rogue = "before"
	case "rogue_after":
		w.rogue = "after"
	case "rogue_far":
		w.rogue = "far"
	case "3batches_rogue":
		w.rogue = "some"
	}
	if w.empty() && !cl.single && w.rogue == "" {
		n = 0
	}
	if cl.single {
		res.Add(cl.row(0, n, edge, w)...)
	} else {
		for i := 0; i < n; i++ {
			j := i
			switch s.fault.Shape {
			case "unordered":
				j = (i * 97) % n // a permutation of 0..249: fingerprints and timestamps arrive interleaved
			case "dups":
				j = i / 2 * 2 // every row twice
			}
			res.Add(cl.row(j, n, edge || (mixed && i%7 == 5), w)...)
		}
	}
	s.mu.Lock()
	s.Keys = append(s.Keys, key)
	s.Rows = append(s.Rows, len(res.Rows))
	s.mu.Unlock()
	if s.fault.Kind != "" && idx == s.fault.Nth {
		k := s.fault.Row
		switch s.fault.Kind {
		case "open_err":
			res.OpenErr = errInjected
		case "row_err":
			res.ErrAtRow, res.RowErr = k, errInjected
		case "end_err":
			res.EndErr = errInjected
		case "scan_err": // a NULL in the first column of row k: rows.Scan itself fails
			if k < len(res.Rows) {
				row := append([]driver.Value(nil), res.Rows[k]...)
				row[0] = nil
				res.Rows[k] = row
			}
		case "block":
			res.BlockAtRow = k
		case "block_open":
			res.BlockOpen = true
		}
	}
	return res, nil
}

var _ = time.Now
