//go:build verifopt

package main

import (
	"github.com/metrico/qryn/writer/service"

	"verif/mc/inslib"
)

// optional: smaller initial capacities of pooled columns (performance only), see _overlay_opt
func init() { inslib.ShrinkPools = service.VerifShrinkPools }
