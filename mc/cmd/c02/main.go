// C02 shares harness and exploration with C01 (different oracle); see mc/inslib.
package main

import (
	"verif/mc/inslib"
)

func main() { inslib.Main("C02") }
