// C08 — the SQL generated for LogQL metric queries computes the defined aggregates.
//
// For every metric query of a bounded grammar (gen.go), every database of a bounded family and every (from, to, step),
// the query text goes through the REAL parser and logql_transpiler_v2.Plan, and the resulting processor chain is
// executed exactly as QueryRangeService.prepareOutput executes it: FixPeriodPlanner → ZeroEaterPlanner →
// ClickhouseGetterPlanner, whose database is a database/sql driver that runs every statement with the
// ClickHouse-subset interpreter verif/mc/chsim on the case's tables (impl.go).  The (label set, timestamp, value)
// points that come out are compared with a direct evaluator of the property statement (oracle.go).
//
// Process model: the matrix post-processors run in goroutines of their own, where a panic cannot be recovered by the
// caller, so cases are evaluated in worker subprocesses (one per core, case i goes to worker i mod N).  A worker
// journals the index of the case it is about to run; when a worker dies the parent re-runs the journalled case alone
// three times and reports it as a violation only if it dies every time, then restarts the shard behind it.
package main

import (
	"bufio"
	"encoding/binary"
	"encoding/json"
	"errors"
	"flag"
	"fmt"
	"os"
	"os/exec"
	"path/filepath"
	"runtime"
	"runtime/debug"
	"runtime/pprof"
	"sort"
	"strings"
	"sync"
	"time"

	"verif/mc/chsim"
	"verif/mc/ev"
)

type deviant struct {
	class   string
	set     func(*Rules)
	applies func(q *Query, p Params) bool
}

func abs(x int) int {
	if x < 0 {
		return -x
	}
	return x
}

func decimals(c *Cmp) int {
	if c == nil {
		return 0
	}
	if i := strings.IndexByte(c.Val, '.'); i >= 0 {
		return len(c.Val) - i - 1
	}
	return 0
}

// documented deviant rules (known-finding classifiers, DESIGN §7)
var deviants = []deviant{
	{"shortcut_15s_drops_pipeline_stages", func(r *Rules) { r.ShortcutDropsStages = true },
		func(q *Query, p Params) bool { return shortcutApplies(q) && len(q.Stages) > 0 }},
	{"bytes_over_time_divided_by_range", func(r *Rules) { r.BytesOverTimeDivRange = true },
		func(q *Query, p Params) bool { return q.Fn == "bytes_over_time" }},
	{"vector_agg_without_grouping_keeps_series", func(r *Rules) { r.VectorAggKeepsSeries = true },
		func(q *Query, p Params) bool { return q.Agg != "" && q.AGroup == nil }},
	{"unwrap_label_kept_in_series_identity", func(r *Rules) { r.UnwrapLabelKept = true },
		func(q *Query, p Params) bool { return q.unwrapLabel() != "" && (q.RGroup == nil || !q.RGroup.By) }},
	{"unwrap_missing_or_nonnumeric_counts_as_zero", func(r *Rules) { r.UnwrapInvalidAsZero = true },
		func(q *Query, p Params) bool { return q.unwrapLabel() != "" }},
	{"step_gt_range_value_more_than_one_step_early", func(r *Rules) { r.StepFixFirstBucket = true },
		func(q *Query, p Params) bool { return p.StepMs > int64(q.RangeS)*1000 }},
	{"shortcut_15s_range_not_multiple_of_15s", func(r *Rules) { r.Shortcut15sGrid = true },
		func(q *Query, p Params) bool { return shortcutApplies(q) && q.RangeS%15 != 0 }},
	{"line_filter_neg_regex_negation_lost", func(r *Rules) { r.NegRegexLineLost = true },
		func(q *Query, p Params) bool {
			for _, s := range q.Stages {
				if s.Kind == "line" && s.Op == "!~" {
					return true
				}
			}
			return false
		}},
	{"comparison_threshold_rounded_to_6_decimals", func(r *Rules) { r.CmpThreshold6Decimals = true },
		func(q *Query, p Params) bool {
			return decimals(q.RCmp) > 6 || decimals(q.ACmp) > 6 || decimals(q.TCmp) > 6
		}},
}

type outcome struct {
	class    []string // violation classes (empty = none)
	what     string
	outcome  string
	planErr  string
	unsupp   string
	harness  string
	nonEmpty bool
	shortcut bool
	stmts    int
	sample   map[string]any // a written-out case for the evidence file (only while wantSample is set)
}

var wantSample bool

// evaluate judges one case.  A History case is a sequence of REQUESTS in one process — the text, the same text again,
// a different query sharing its prefix, the text a third time — each through the real logql_parser.Parse + Plan like
// the service does per request; every answer must equal the reference (so the later ones equal the first).
func evaluate(spec caseSpec, verbose bool) (out outcome) {
	if !spec.History {
		return evalOnce(spec, verbose, false)
	}
	first := evalOnce(spec, verbose, true)
	if len(first.class) > 0 || first.harness != "" || first.planErr != "" || first.unsupp != "" {
		return first
	}
	for i, step := range []string{"second", "third (after a sibling query)"} {
		if i == 1 && spec.Sibling != "" {
			if d := dbIndex[spec.DB]; d != nil {
				sib := runImpl(spec.Sibling, spec.Params, d.chdb(), spec.Cluster, true)
				first.stmts += len(sib.sql)
			}
		}
		o := evalOnce(spec, verbose, true)
		first.stmts += o.stmts
		if o.harness != "" || o.unsupp != "" {
			return o
		}
		if len(o.class) > 0 || o.planErr != "" {
			first.class = []string{"repeated_request_differs_from_first:" + spec.Query.Shape()}
			first.outcome = "repeated_request_differs"
			first.what = fmt.Sprintf("the first request for %s agrees with the reference, the %s request for the same text in the same process does not: %s%s",
				spec.Text, step, o.what, o.planErr)
			return first
		}
	}
	return first
}

func evalOnce(spec caseSpec, verbose bool, fresh bool) (out outcome) {
	d := dbIndex[spec.DB]
	if d == nil {
		out.harness = "unknown database " + spec.DB
		return
	}
	q := spec.Query
	// the reader process's local zone is part of the case (cases run one at a time in a worker; the post-processor
	// goroutines of the previous case have ended when its channel was drained)
	if spec.ZoneOffS == 0 {
		time.Local = time.UTC
	} else {
		time.Local = time.FixedZone(fmt.Sprintf("UTC%+d:%02d", spec.ZoneOffS/3600, (abs(spec.ZoneOffS)%3600)/60), spec.ZoneOffS)
	}
	impl := runImpl(spec.Text, spec.Params, d.chdb(), spec.Cluster, fresh)
	out.stmts = len(impl.sql)
	if verbose {
		fmt.Println("LogQL:   ", spec.Text)
		fmt.Printf("window:   from=T0+%ds to=T0+%ds step=%dms range=%ds cluster=%v time.Local=%s\n", spec.Params.FromS, spec.Params.ToS, spec.Params.StepMs, q.RangeS, spec.Cluster, time.Local)
		fmt.Println("database:", spec.DB)
		for _, e := range d.Entries {
			s := d.Streams[e.Stream]
			fmt.Printf("   %s type=%d ts=%s %s\n", canon(s.Labels), s.Type, tsText(e.TS), e.Line)
		}
		for _, s := range impl.sql {
			fmt.Println("SQL:", s)
		}
	}
	switch {
	case impl.harness != nil:
		out.harness = impl.harness.Error()
		return
	case impl.unsupp != nil:
		out.unsupp = impl.unsupp.Error()
		out.outcome = "chsim_unsupported"
		return
	case impl.planErr != nil:
		out.planErr = impl.planErr.Error()
		out.outcome = "planner_error"
		return
	case impl.chErr != nil:
		var se *chsim.SyntaxError
		var ee *chsim.EvalError
		c := "generated_sql_rejected"
		if errors.As(impl.chErr, &se) {
			c = "generated_sql_syntax_error"
		} else if errors.As(impl.chErr, &ee) {
			c = "generated_sql_rejected_" + ee.Code
		}
		out.class = []string{c + ":" + q.Shape()}
		out.outcome = c
		out.what = fmt.Sprintf("ClickHouse rejects the SQL generated for %s: %v", spec.Text, impl.chErr)
		return
	case impl.procErr != nil:
		out.class = []string{"process_error:" + q.Shape()}
		out.outcome = "process_error"
		out.what = fmt.Sprintf("%s: error entry in the result: %v", spec.Text, impl.procErr)
		return
	}
	if len(impl.sql) > 0 {
		out.shortcut = strings.Contains(impl.sql[0], "countMerge")
	}
	ref, err := Rules{}.Eval(d, q, spec.Params)
	if err != nil {
		out.harness = "oracle: " + err.Error()
		return
	}
	out.nonEmpty = ref.nonEmpty()
	sortPoints(impl.points)
	if verbose {
		fmt.Println("reference (series bucket:value ...):", ref.text())
		fmt.Println("implementation points:")
		for _, p := range impl.points {
			fmt.Printf("   %s fp=%d t=%s v=%g\n", p.Labels, p.FP, tsText(p.T), p.V)
		}
	}
	kind, diff := compare(ref, impl.points, spec.Params)
	if kind == "" {
		if out.nonEmpty {
			out.outcome = "agree_nonempty"
			if wantSample {
				var ents, pts []string
				for _, e := range d.Entries {
					st := d.Streams[e.Stream]
					ents = append(ents, fmt.Sprintf("%s type=%d ts=%s %s", canon(st.Labels), st.Type, tsText(e.TS), e.Line))
				}
				for _, p := range impl.points {
					pts = append(pts, fmt.Sprintf("%s t=%s v=%g", p.Labels, tsText(p.T), p.V))
				}
				out.sample = map[string]any{"logql": spec.Text, "from_s": spec.Params.FromS, "to_s": spec.Params.ToS, "step_ms": spec.Params.StepMs,
					"database": spec.DB, "entries": ents, "reference_buckets": ref.text(), "implementation_points": pts, "verdict": "agree"}
			}
		} else {
			out.outcome = "agree_empty"
		}
		return
	}
	// explanation search: the smallest set of documented deviant rules under which the reference agrees
	var app []int
	for i, dv := range deviants {
		if dv.applies(q, spec.Params) {
			app = append(app, i)
		}
	}
	best, bestBits := -1, 0
	for mask := 1; mask < 1<<len(app); mask++ {
		bits := 0
		for i := range app {
			if mask&(1<<i) != 0 {
				bits++
			}
		}
		if best >= 0 && bits >= bestBits {
			continue
		}
		var rules Rules
		for i, di := range app {
			if mask&(1<<i) != 0 {
				deviants[di].set(&rules)
			}
		}
		dref, err := rules.Eval(d, q, spec.Params)
		if err != nil {
			continue
		}
		if k, _ := compare(dref, impl.points, spec.Params); k == "" {
			best, bestBits = mask, bits
		}
	}
	where := fmt.Sprintf("%s on %s from=%ds to=%ds step=%dms", spec.Text, spec.DB, spec.Params.FromS, spec.Params.ToS, spec.Params.StepMs)
	if spec.ZoneOffS != 0 {
		where += fmt.Sprintf(" zone=%s", time.Local)
	}
	if best >= 0 {
		for i, di := range app {
			if best&(1<<i) != 0 {
				out.class = append(out.class, deviants[di].class)
			}
		}
		out.outcome = "deviant:" + strings.Join(out.class, "+")
		out.what = fmt.Sprintf("%s: %s (the reference agrees under deviant rule %s)", where, diff, strings.Join(out.class, "+"))
		return
	}
	out.class = []string{"unexplained_" + kind + ":" + q.Shape()}
	out.outcome = "unexplained_" + kind
	out.what = where + ": " + diff
	return
}

// ---------------------------------------------------------------------------------------------------------------
// worker side
// ---------------------------------------------------------------------------------------------------------------

type example struct {
	Idx  int      `json:"idx"`
	What string   `json:"what"`
	Spec caseSpec `json:"spec"`
}

type classAcc struct {
	Count    int       `json:"count"`
	Examples []example `json:"examples"`
}

type shapeAcc struct {
	Count   int    `json:"count"`
	Example string `json:"example"`
	Idx     int    `json:"idx"`
}

type summary struct {
	Shard       int                  `json:"shard"`
	Evaluated   int                  `json:"evaluated"` // cases looked at (incl. planner errors)
	Executed    int64                `json:"executed"`  // cases run end to end and compared
	Statements  int64                `json:"statements"`
	Shortcut    int64                `json:"shortcut"`
	NonEmpty    int64                `json:"non_empty"`
	Outcomes    map[string]int64     `json:"outcomes"`
	Classes     map[string]*classAcc `json:"classes"`
	Unsupported map[string]*shapeAcc `json:"unsupported"`
	ChsimUnsupp int                  `json:"chsim_unsupported"`
	ChsimFirst  string               `json:"chsim_first"`
	Harness     int                  `json:"harness"`
	HarnessMsg  string               `json:"harness_first"`
	Layers      map[string]int       `json:"layers"`
	Samples     []map[string]any     `json:"samples"`
	CacheMut    int64                `json:"cache_mutations"`
	CacheMutQ   string               `json:"cache_mutation_query"`
	NextIdx     int                  `json:"next_idx"` // first case index of this shard NOT evaluated (deadline), -1 = shard finished
}

func newSummary(shard int) *summary {
	return &summary{Shard: shard, Outcomes: map[string]int64{}, Classes: map[string]*classAcc{}, Unsupported: map[string]*shapeAcc{},
		Layers: map[string]int{}, NextIdx: -1}
}

const maxExamples = 3

func (s *summary) record(c caseSpec, o *outcome) {
	s.Evaluated++
	s.Layers[c.Layer]++
	switch {
	case o.harness != "":
		s.Harness++
		if s.HarnessMsg == "" {
			s.HarnessMsg = c.Text + " on " + c.DB + ": " + o.harness
		}
		return
	case o.unsupp != "":
		s.ChsimUnsupp++
		if s.ChsimFirst == "" {
			s.ChsimFirst = c.Text + ": " + o.unsupp
		}
		return
	case o.planErr != "":
		sh := c.Query.Shape()
		a := s.Unsupported[sh]
		if a == nil {
			a = &shapeAcc{Example: c.Text + " => " + o.planErr, Idx: c.Idx}
			s.Unsupported[sh] = a
		}
		a.Count++
		s.Outcomes["planner_error"]++
		return
	}
	s.Executed++
	s.Statements += int64(o.stmts)
	if o.shortcut {
		s.Shortcut++
	}
	s.Outcomes[o.outcome]++
	if o.nonEmpty {
		s.NonEmpty++
	}
	if o.sample != nil && len(s.Samples) < 2 {
		s.Samples = append(s.Samples, o.sample)
	}
	for _, cl := range o.class {
		a := s.Classes[cl]
		if a == nil {
			a = &classAcc{}
			s.Classes[cl] = a
		}
		a.Count++
		if len(a.Examples) < maxExamples {
			a.Examples = append(a.Examples, example{c.Idx, o.what, c})
		}
	}
}

func workerMain(thorough bool, shard, of, from int, deadline int64, journal string) {
	debug.SetGCPercent(400)
	if pf := os.Getenv("C08_WORKER_PROFILE"); pf != "" && shard == 0 {
		if f, err := os.Create(pf); err == nil {
			pprof.StartCPUProfile(f)
			defer pprof.StopCPUProfile()
		}
	}
	g := generate(thorough, func(i int) bool { return i%of == shard }, false)
	var jf *os.File
	if journal != "" {
		f, err := os.OpenFile(journal, os.O_CREATE|os.O_WRONLY, 0o644)
		if err != nil {
			fmt.Fprintln(os.Stderr, "journal:", err)
			os.Exit(2)
		}
		jf = f
	}
	sum := newSummary(shard)
	// journal = (case about to run, case run before it), both +1, 0 = none.  The previous case is kept because a panic
	// in a post-processor goroutine first runs that goroutine's deferred close(channel): the consumer may already have
	// moved on to the next case when the runtime finally kills the process.
	var buf [24]byte
	prev := uint64(0)
	// visiting order: a fixed stride through the shard's list, so that a run cut by the deadline has covered every
	// layer proportionally instead of only the first ones (order only; a complete run visits every case once)
	nc := len(g.cases)
	stride := strideFor(nc)
	for n := from; n < nc; n++ { // from = visiting position to (re)start at
		c := g.cases[int((int64(n)*int64(stride))%int64(nc))]
		if deadline > 0 && n%32 == 0 && time.Now().UnixNano() > deadline {
			sum.NextIdx = c.Idx
			break
		}
		if jf != nil {
			binary.LittleEndian.PutUint64(buf[:8], uint64(c.Idx)+1)
			binary.LittleEndian.PutUint64(buf[8:16], prev)
			binary.LittleEndian.PutUint64(buf[16:], uint64(n))
			jf.WriteAt(buf[:], 0)
			prev = uint64(c.Idx) + 1
		}
		// samples for the evidence file: two agreeing non-trivial cases per worker, taken from the middle of the shard
		wantSample = len(sum.Samples) < 2 && n >= 16
		o := evaluate(c, false)
		sum.record(c, &o)
	}
	if jf != nil {
		// let a dying goroutine of the last case finish dying before the summary claims success
		time.Sleep(20 * time.Millisecond)
		binary.LittleEndian.PutUint64(buf[:8], 0)
		binary.LittleEndian.PutUint64(buf[8:16], 0)
		jf.WriteAt(buf[:], 0)
	}
	sum.CacheMut = cacheMutations.Load()
	if t, ok := cacheMutText.Load().(string); ok {
		sum.CacheMutQ = t
	}
	w := bufio.NewWriter(os.Stdout)
	b, _ := json.Marshal(sum)
	w.WriteString("C08SUMMARY ")
	w.Write(b)
	w.WriteString("\n")
	w.Flush()
}

// strideFor returns a stride near n/golden ratio that is coprime with n (so i*stride mod n is a permutation).
func strideFor(n int) int {
	if n < 3 {
		return 1
	}
	gcd := func(a, b int) int {
		for b != 0 {
			a, b = b, a%b
		}
		return a
	}
	s := int(float64(n) * 0.6180339887)
	if s < 1 {
		s = 1
	}
	for gcd(s, n) != 1 {
		s++
	}
	return s
}

// ---------------------------------------------------------------------------------------------------------------
// parent side
// ---------------------------------------------------------------------------------------------------------------

type shardState struct {
	shard   int
	from    int
	sums    []*summary
	crashes []int
	err     error
}

func readJournal(path string) (cur, prev, pos int) {
	b, err := os.ReadFile(path)
	if err != nil || len(b) < 24 {
		return -1, -1, 0
	}
	return int(binary.LittleEndian.Uint64(b[:8])) - 1, int(binary.LittleEndian.Uint64(b[8:16])) - 1, int(binary.LittleEndian.Uint64(b[16:24]))
}

func runWorker(self string, thorough bool, shard, of, from int, deadline int64, journal string) (*summary, string, error) {
	os.Remove(journal)
	args := []string{"--worker", "--shard", fmt.Sprint(shard), "--of", fmt.Sprint(of), "--from", fmt.Sprint(from), "--deadline", fmt.Sprint(deadline), "--journal", journal}
	if thorough {
		args = append(args, "--tier", "thorough")
	}
	cmd := exec.Command(self, args...)
	cmd.Env = append(os.Environ(), "GOMAXPROCS=2")
	var stderr strings.Builder
	cmd.Stderr = &stderr
	out, err := cmd.Output()
	for _, line := range strings.Split(string(out), "\n") {
		if strings.HasPrefix(line, "C08SUMMARY ") {
			var s summary
			if e := json.Unmarshal([]byte(line[len("C08SUMMARY "):]), &s); e != nil {
				return nil, stderr.String(), e
			}
			return &s, stderr.String(), nil
		}
	}
	if err == nil {
		err = errors.New("worker ended without a summary")
	}
	return nil, stderr.String(), err
}

func tail(s string, n int) string {
	lines := strings.Split(strings.TrimSpace(s), "\n")
	if len(lines) > n {
		lines = lines[:n]
	}
	return strings.Join(lines, " | ")
}

func main() {
	if len(os.Args) > 1 && os.Args[1] == "probe" {
		probe(os.Args[2:])
		return
	}
	worker := flag.Bool("worker", false, "internal: worker process")
	shard := flag.Int("shard", 0, "internal")
	of := flag.Int("of", 1, "internal")
	from := flag.Int("from", 0, "internal")
	deadline := flag.Int64("deadline", 0, "internal")
	journal := flag.String("journal", "", "internal")
	one := flag.Int("one", -1, "internal: run a single case by index (crash confirmation)")
	r := ev.Start("C08", "model_checking", 75*time.Second, 17*time.Minute)
	if *worker {
		workerMain(r.Thorough(), *shard, *of, *from, *deadline, *journal)
		return
	}
	if *one >= 0 {
		g := generate(r.Thorough(), func(i int) bool { return i == *one }, false)
		if len(g.cases) != 1 {
			os.Exit(2)
		}
		evaluate(g.cases[0], false)
		return
	}
	r.Rule = "nine layers, each a full product consumed to the end: L1 {rate, count_over_time, bytes_rate, bytes_over_time} x pipelines {none, line filter |= != |~, label filter = != >} and " +
		"{rate, sum/avg/min/max/first/last_over_time} on `| json v=\"v\" | unwrap v` x {none, line filter, label filter before json, numeric label filter on the extracted label} x range {5s,10s,15s,1m} x (from,to) on/off bucket boundaries x step {range/2, range, 2*range} " +
		"x every sub-database of <=3 (thorough <=4) entries of a 9-entry pool (entry just before the window, on a bucket boundary, inside, last ns of a bucket, in later buckets; two streams; plus a metric-type sample and a non-selected stream in every database); " +
		"L2 {sum,min,max,avg,count} x {no grouping, by/without in prefix and suffix position} x inner range aggregations x steps x every sub-database of <=3 (4) entries of a 9-entry pool of three streams sharing / not sharing a and b; " +
		"L3 six comparison operators x thresholds on / between values x position (range aggregation, vector aggregation, inside a vector aggregation, topk); L4 topk/bottomk x k in 1..3 x five inner expressions (ties at the cut occur); " +
		"L6 compositions: comparison over topk/bottomk (k 1..2) over {count, rate, unwrapped sum, vector aggregation}, top/bottom-k over (vector aggregation over comparison), comparison at range level and at vector level in one query, all three positions at once, x 6 operators x thresholds straddled by the values, at 5 s (samples path) and 15 s (metrics_15s shortcut), on all 63 distributions of 0..3 entries per stream (three series with pairwise distinct values); " +
		"L7 grouping compositions: (clause on the unwrapped range function) x (clause on the vector aggregation) over {none, by(L), without(L)}, L in {a},{a,b},{b} (subset, superset, disjoint, equal), prefix and suffix position, x {sum,max,count}, on every sub-database of <=3 (4) entries of four streams (two differing only in b, one in a, one without b) x two buckets; " +
		"L8 environment: reader process time zone (time.Local in UTC, UTC+9, UTC+14, UTC-5, UTC+5:45) x 120 s windows starting 60 s before / after UTC midnight and the zone's local midnight and 60 s before / after those instants + 30 min, x query families (plain range aggregation, shortcut + by, rate + by, topk over sum without, unwrapped sum; thorough 19 shapes) x databases whose time_series rows carry the UTC day of their samples (single entries and the whole 6-entry pool; thorough pairs too); " +
		"L9 history independence: every case is a sequence of four REQUESTS in one process through the real logql_parser.Parse + Plan with no cache of the harness (the text, the same text, a sibling query sharing its prefix, the text again), each judged against the reference; metric queries with a stage evaluated in Go (json without parameters, logfmt, line_format) AFTER a line filter / label filter, and pure-SQL shapes; " +
		"L10 boundary line filters x boundary lines in both tiers: line filters |~ / !~ over {empty, .*, .+, (?s).*, (?s).+, (?-s).+, ., .?, ^, $, ^$, ^.*$, ^.+$, [^k], newline escape, literal newline}, |= / != over {empty, newline, literal . and .+} and two-stage pipelines of them x {count_over_time, sum by (a) (rate), bytes_over_time (thorough bytes_rate, compared count)} x range {10s,15s,1m} (thorough + 5s; both sides of the metrics_15s shortcut condition) x every sub-database of <=3 (4) entries of a 7-entry pool holding the empty line, a one-character line, a line that is only a newline, a line with an inner newline and an ordinary line in two selected streams and two buckets (metrics_15s derived by the materialized view: every line counts); " +
		"L5 ungrouped unwrap, missing / non-numeric / zero / negative unwrapped values, equal timestamps, empty line filters, quantile_over_time, thresholds with > 6 decimals, cluster mode, ranges 20s/30s, further matchers. " +
		"A case is distinct by (query text, database, from, to, step, cluster, zone) - asserted unique at generation; non-trivial = the reference result is non-empty"
	r.Assumptions = []string{
		"chsim implements ClickHouse semantics for the emitted SQL subset (trusted base, see mc/chsim/README.md); cityHash64 of a map is an injective stand-in",
		"a point of value 0 may be absent from the response (ZeroEaterPlanner / FixPeriodPlanner drop zeros; the statement does not distinguish 0 from no sample)",
		"step expansion is judged by the statement-level rule only: every point lies on the grid from+i*step, carries the value of a bucket of its series whose closed window [b, b+range] contains t or starts less than one step after t; every non-zero bucket is reported with its own value at each grid point whose whole step lies inside the bucket; at a grid point in the last partial step of a bucket some point of the series exists",
		"the query window may be widened to whole range buckets (the statement allows it): the reference always evaluates whole buckets",
		"after `| unwrap v` the label v is not part of the series identity (LogQL definition); samples of type metric are not log entries",
		"first/last_over_time with equal timestamps, and topk/bottomk with equal values at the cut, accept every choice (but the number of reported series must be exactly k)",
		"stream selectors are positive matchers on labels every stream has (negative / empty-matching matchers are C07's D27)",
	}
	debug.SetGCPercent(400)
	if pf := os.Getenv("C08_CPUPROFILE"); pf != "" {
		if f, err := os.Create(pf); err == nil {
			pprof.StartCPUProfile(f)
			defer pprof.StopCPUProfile()
		}
	}

	if r.Replay != "" {
		b, err := os.ReadFile(r.Replay)
		if err != nil {
			ev.Fatal("cannot read replay: %v", err)
		}
		var doc struct {
			Replay caseSpec `json:"replay"`
		}
		if err := json.Unmarshal(b, &doc); err != nil {
			ev.Fatal("bad replay file: %v", err)
		}
		spec := doc.Replay
		generate(true, nil, false) // registers every database family
		if spec.Query == nil {
			ev.Fatal("replay has no query")
		}
		spec.Text = spec.Query.String()
		o := evaluate(spec, true)
		switch {
		case o.harness != "":
			ev.Fatal("%s", o.harness)
		case o.planErr != "":
			fmt.Println("planner error (unsupported shape):", o.planErr)
		case o.unsupp != "":
			fmt.Println("HARNESS: chsim unsupported:", o.unsupp)
		case len(o.class) == 0:
			fmt.Println("verdict: agreement")
		default:
			fmt.Println("verdict:", o.what)
			for _, c := range o.class {
				r.Violate(c, o.what, spec)
			}
		}
		r.Evaluations = 1
		r.Finish()
	}

	// the parent enumerates the list once to count it and to assert that no case is generated twice
	g := generate(r.Thorough(), nil, true)
	total := g.n
	if g.dup != "" {
		ev.Fatal("generator emitted a case twice: %s", g.dup)
	}
	fmt.Printf("C08: %d cases, %d queries, %d databases (%s)\n", total, len(g.queries), len(dbIndex), layerText(g.layerN))

	workers := runtime.NumCPU()
	if workers > 16 {
		workers = 16
	}
	if s := os.Getenv("C08_WORKERS"); s != "" {
		fmt.Sscan(s, &workers)
	}
	self, err := os.Executable()
	if err != nil {
		ev.Fatal("%v", err)
	}
	scratch := os.Getenv("VERIF_SCRATCH")
	if scratch == "" {
		scratch, err = os.MkdirTemp("/var/tmp", "verif-c08-")
		if err != nil {
			ev.Fatal("%v", err)
		}
		defer os.RemoveAll(scratch)
	}
	// workers stop a little before the parent's own deadline so that their summaries arrive
	dl := r.Deadline.Add(-3 * time.Second).UnixNano()
	shards := make([]*shardState, workers)
	var wg sync.WaitGroup
	var crashMu sync.Mutex
	type crash struct {
		idx        int
		reproduced int
		stderr     string
	}
	var crashes []crash
	for w := 0; w < workers; w++ {
		st := &shardState{shard: w}
		shards[w] = st
		wg.Add(1)
		go func() {
			defer wg.Done()
			journal := filepath.Join(scratch, fmt.Sprintf("c08-w%d.journal", st.shard))
			dies := func(idx int) (int, string) {
				rep := 0
				var lastErr string
				for k := 0; k < 3; k++ {
					args := []string{"--one", fmt.Sprint(idx)}
					if r.Thorough() {
						args = append(args, "--tier", "thorough")
					}
					c := exec.Command(self, args...)
					var eb strings.Builder
					c.Stderr = &eb
					if e := c.Run(); e != nil {
						rep++
						lastErr = eb.String()
					}
				}
				return rep, lastErr
			}
			for {
				sum, stderr, err := runWorker(self, r.Thorough(), st.shard, workers, st.from, dl, journal)
				if sum != nil {
					st.sums = append(st.sums, sum)
					return
				}
				cur, prev, pos := readJournal(journal)
				if cur < 0 {
					st.err = fmt.Errorf("worker %d died outside a case: %v: %s", st.shard, err, tail(stderr, 12))
					return
				}
				// re-run the journalled case alone three times; if it survives, the case before it (see workerMain)
				idx, next := cur, pos+1 // next = visiting position at which the shard restarts
				rep, lastErr := dies(cur)
				if rep < 3 && prev >= 0 {
					if rp, le := dies(prev); rp == 3 {
						idx, next, rep, lastErr = prev, pos, rp, le
					}
				}
				if rep < 3 {
					lastErr = tail(stderr, 8)
				}
				crashMu.Lock()
				crashes = append(crashes, crash{idx, rep, lastErr})
				crashMu.Unlock()
				// the dead worker's counters are lost: the run is reported as not exhaustive.  After the second crash
				// the shard is abandoned (every crash already is a violation; restarting costs a process each time).
				st.crashes = append(st.crashes, idx)
				st.from = next
				if rep < 3 || len(st.crashes) >= 2 {
					return
				}
			}
		}()
	}
	wg.Wait()

	// fold (deterministic: shards in order, examples by case index)
	all := newSummary(-1)
	complete := true
	for _, st := range shards {
		if st.err != nil {
			ev.Fatal("%v", st.err)
		}
		if len(st.crashes) > 0 {
			complete = false
		}
	}
	sort.Slice(shards, func(i, j int) bool { return shards[i].shard < shards[j].shard })
	for _, st := range shards {
		for _, s := range st.sums {
			all.Evaluated += s.Evaluated
			all.Executed += s.Executed
			all.Statements += s.Statements
			all.Shortcut += s.Shortcut
			all.NonEmpty += s.NonEmpty
			all.ChsimUnsupp += s.ChsimUnsupp
			all.Harness += s.Harness
			all.CacheMut += s.CacheMut
			if all.CacheMutQ == "" || (s.CacheMutQ != "" && s.CacheMutQ < all.CacheMutQ) {
				all.CacheMutQ = s.CacheMutQ
			}
			if all.ChsimFirst == "" {
				all.ChsimFirst = s.ChsimFirst
			}
			if all.HarnessMsg == "" {
				all.HarnessMsg = s.HarnessMsg
			}
			for k, v := range s.Outcomes {
				all.Outcomes[k] += v
			}
			for k, v := range s.Layers {
				all.Layers[k] += v
			}
			for k, v := range s.Classes {
				a := all.Classes[k]
				if a == nil {
					a = &classAcc{}
					all.Classes[k] = a
				}
				a.Count += v.Count
				a.Examples = append(a.Examples, v.Examples...)
			}
			for k, v := range s.Unsupported {
				a := all.Unsupported[k]
				if a == nil {
					a = &shapeAcc{Idx: v.Idx, Example: v.Example}
					all.Unsupported[k] = a
				} else if v.Idx < a.Idx {
					a.Idx, a.Example = v.Idx, v.Example
				}
				a.Count += v.Count
			}
			all.Samples = append(all.Samples, s.Samples...)
			if s.NextIdx >= 0 {
				complete = false
			}
		}
	}
	if !complete || all.Evaluated < total {
		r.Cap(fmt.Sprintf("deadline: %d of %d cases evaluated", all.Evaluated, total))
	}
	r.AddEval(all.Executed)
	for k := range all.Outcomes {
		r.Outcome(k)
	}
	// distinct non-trivial cases = evaluated cases with a non-empty reference result (cases are pairwise distinct)
	for i := int64(0); i < all.NonEmpty; i++ {
		r.Distinct(fmt.Sprintf("n%d", i))
	}
	for i, s := range all.Samples {
		if i%4 == 0 {
			r.Sample(s)
		}
	}
	r.States = all.Executed
	r.Transitions = all.Statements
	r.TracesValidated = all.Executed
	r.Extra["cases_generated"] = total
	r.Extra["cases_evaluated"] = all.Evaluated
	r.Extra["programs"] = len(g.queries)
	r.Extra["databases"] = len(dbIndex)
	r.Extra["layers_generated"] = g.layerN
	r.Extra["layers_evaluated"] = all.Layers
	r.Extra["cases_nonempty_reference"] = all.NonEmpty
	r.Extra["cases_through_15s_shortcut"] = all.Shortcut
	r.Extra["sql_statements_executed_by_chsim"] = all.Statements
	r.Extra["chsim_unsupported"] = all.ChsimUnsupp
	r.Extra["harness_parse_cache_entries_edited_by_planning"] = all.CacheMut
	r.Extra["harness_parse_cache_first_edited_query"] = all.CacheMutQ
	r.Extra["outcome_counts"] = all.Outcomes
	r.Extra["workers"] = workers
	cc := map[string]int{}
	for k, v := range all.Classes {
		cc[k] = v.Count
	}
	r.Extra["violation_classes"] = cc
	us := map[string]any{}
	for k, v := range all.Unsupported {
		us[k] = map[string]any{"cases": v.Count, "example": v.Example}
	}
	r.Extra["unsupported_shapes"] = us
	r.Explanation = "states = cases executed end to end on the real code (parser, planner, SQL run by chsim, Go post-processors) and compared; transitions = SQL statements executed"
	var shapes []string
	for k := range all.Unsupported {
		shapes = append(shapes, k)
	}
	sort.Strings(shapes)
	for _, k := range shapes {
		fmt.Printf("unsupported (planner error, not a violation): %s x%d e.g. %s\n", k, all.Unsupported[k].Count, all.Unsupported[k].Example)
	}
	var classes []string
	for k := range all.Classes {
		classes = append(classes, k)
	}
	sort.Strings(classes)
	for _, k := range classes {
		a := all.Classes[k]
		sort.Slice(a.Examples, func(i, j int) bool { return a.Examples[i].Idx < a.Examples[j].Idx })
		fmt.Printf("class %s: %d cases\n", k, a.Count)
		for i, e := range a.Examples {
			if i >= 2 {
				break
			}
			r.Violate(k, e.What, e.Spec)
		}
	}
	sort.Slice(crashes, func(i, j int) bool { return crashes[i].idx < crashes[j].idx })
	for _, c := range crashes {
		cg := generate(r.Thorough(), func(i int) bool { return i == c.idx }, false)
		if len(cg.cases) != 1 {
			ev.Fatal("crashed case %d cannot be regenerated", c.idx)
		}
		spec := cg.cases[0]
		if c.reproduced == 3 {
			r.Violate("worker_crash:"+spec.Query.Shape(), fmt.Sprintf("%s on %s from=%ds to=%ds step=%dms kills the process (3/3 re-runs): %s",
				spec.Text, spec.DB, spec.Params.FromS, spec.Params.ToS, spec.Params.StepMs, tail(c.stderr, 4)), spec)
		} else {
			ev.Fatal("worker died at case %d (%s) but the case alone dies only %d/3 times: %s", c.idx, spec.Text, c.reproduced, tail(c.stderr, 8))
		}
	}
	if all.ChsimUnsupp > 0 {
		ev.Fatal("chsim could not execute %d generated statements (must be 0 on the unchanged tree), first: %s", all.ChsimUnsupp, all.ChsimFirst)
	}
	if all.Harness > 0 {
		ev.Fatal("%d harness errors, first: %s", all.Harness, all.HarnessMsg)
	}
	pprof.StopCPUProfile()
	r.Finish()
}

func layerText(m map[string]int) string {
	var p []string
	for _, k := range sortedKeys(m) {
		p = append(p, fmt.Sprintf("%s=%d", k, m[k]))
	}
	return strings.Join(p, " ")
}

// probe: ad-hoc queries against one small database (development aid; decides nothing)
func probe(args []string) {
	fs := flag.NewFlagSet("probe", flag.ExitOnError)
	from := fs.Int64("from", 0, "")
	to := fs.Int64("to", 60, "")
	step := fs.Int64("step", 5000, "ms")
	cluster := fs.Bool("cluster", false, "")
	showSQL := fs.Bool("sql", false, "")
	fs.Parse(args)
	d := &Database{Name: "probe", Streams: []Stream{
		{Labels: map[string]string{"job": "j", "a": "x", "b": "1"}, Type: 1, FP: 11},
		{Labels: map[string]string{"job": "j", "a": "x", "b": "2"}, Type: 1, FP: 12},
		{Labels: map[string]string{"job": "j", "a": "y", "b": "1"}, Type: 1, FP: 13},
	}, Entries: []Entry{
		{0, 1 * sec, `{"v":1,"m":"k"}`},
		{0, 2 * sec, `{"v":2,"m":"kk"}`},
		{1, 7 * sec, `{"v":3,"m":"k"}`},
		{2, 16 * sec, `{"v":4,"m":"q"}`},
		{0, 31 * sec, `{"v":5,"m":"k"}`},
	}}
	for _, q := range fs.Args() {
		r := runImpl(q, Params{*from, *to, *step}, d.chdb(), *cluster, true)
		fmt.Println("QUERY", q)
		if *showSQL {
			for _, s := range r.sql {
				fmt.Println("  SQL", s)
			}
		}
		fmt.Println("  planErr", r.planErr, "unsupp", r.unsupp, "chErr", r.chErr, "procErr", r.procErr, "harness", r.harness)
		sortPoints(r.points)
		for _, p := range r.points {
			fmt.Printf("  %s fp=%d t=%d v=%g\n", p.Labels, p.FP, p.T/sec, p.V)
		}
	}
}
