package main

import (
	"flag"
	"fmt"
	"os"
)

func probe(args []string) {
	fs := flag.NewFlagSet("probe", flag.ExitOnError)
	from := fs.Int64("from", 0, "")
	to := fs.Int64("to", 60, "")
	step := fs.Int64("step", 5000, "ms")
	cluster := fs.Bool("cluster", false, "")
	showSQL := fs.Bool("sql", false, "")
	fs.Parse(args)
	d := &Database{Name: "probe", Streams: []Stream{
		{Labels: map[string]string{"job": "j", "a": "x", "b": "1"}, Type: 1, FP: 11},
		{Labels: map[string]string{"job": "j", "a": "x", "b": "2"}, Type: 1, FP: 12},
		{Labels: map[string]string{"job": "j", "a": "y", "b": "1"}, Type: 1, FP: 13},
	}, Entries: []Entry{
		{0, 1 * sec, `{"v":1,"m":"k"}`},
		{0, 2 * sec, `{"v":2,"m":"kk"}`},
		{1, 7 * sec, `{"v":3,"m":"k"}`},
		{2, 16 * sec, `{"v":4,"m":"q"}`},
		{0, 31 * sec, `{"v":5,"m":"k"}`},
	}}
	d.build()
	for _, q := range fs.Args() {
		r := runImpl(q, Params{*from, *to, *step}, d.ch, *cluster)
		fmt.Println("QUERY", q)
		if *showSQL {
			for _, s := range r.sql {
				fmt.Println("  SQL", s)
			}
		}
		fmt.Println("  planErr", r.planErr, "unsupp", r.unsupp, "chErr", r.chErr, "procErr", r.procErr, "harness", r.harness)
		sortPoints(r.points)
		for _, p := range r.points {
			fmt.Printf("  %s fp=%d t=%d v=%g\n", p.Labels, p.FP, p.T/sec, p.V)
		}
	}
}

func main() {
	if len(os.Args) > 1 && os.Args[1] == "probe" {
		probe(os.Args[2:])
		return
	}
}
