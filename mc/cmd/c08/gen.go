package main

import (
	"fmt"
	"hash/fnv"
	"sort"
)

// ---------------------------------------------------------------------------------------------------------------
// Bounded families.  Everything here is a pure function of (tier) → finite list; the run consumes the lists to the
// end (or reports the cut).  The space is a union of layers, each a full product of its own dimensions:
//
//	L1 range functions × pipelines × ranges × (from,to,step) × every sub-database of <= 4 entries of the time pool
//	L2 vector aggregations × groupings (prefix/suffix) × inner range aggregations × ranges × steps × every
//	   sub-database of <= 4 entries of the series pool
//	L3 comparison operators × thresholds × position (range aggregation / vector aggregation / topk) × series pool
//	L4 topk/bottomk × k × inner × series pool
//	L5 special families (unwrap series identity, missing / non-numeric / zero / negative unwrapped values, equal
//	   timestamps, empty line filters, quantile_over_time, thresholds with many decimals, cluster mode)
// ---------------------------------------------------------------------------------------------------------------

var streamsCommon = []Stream{
	{Labels: map[string]string{"job": "j", "a": "x", "b": "1"}, Type: 1, FP: 101},
	{Labels: map[string]string{"job": "j", "a": "x", "b": "2"}, Type: 1, FP: 102},
	{Labels: map[string]string{"job": "j", "a": "y", "b": "1"}, Type: 0, FP: 103}, // type "both"
	{Labels: map[string]string{"job": "j", "a": "x", "b": "1"}, Type: 2, FP: 101}, // a metric series with the label set (hence fingerprint) of stream 0: its samples are never part of a LogQL result
	{Labels: map[string]string{"job": "o", "a": "x", "b": "1"}, Type: 1, FP: 105}, // not selected by {job="j"}
	{Labels: map[string]string{"job": "j", "a": "x"}, Type: 1, FP: 106},           // a stream without label b (has entries only in L7)
}

type poolEntry struct {
	stream int
	num    int64 // timestamp = num/den * range + off ns
	den    int64
	off    int64
	line   string
}

func (pe poolEntry) at(rangeS int) int64 {
	return pe.num*int64(rangeS)*sec/pe.den + pe.off
}

// timePool: one stream over eight positions, a second stream at two of them.
// Lines differ in length, in containing "k", and in v.
var timePool = []poolEntry{
	{0, 0, 1, -1, `{"v":9,"m":"k","pad":"......"}`}, // last ns before bucket 0
	{0, 0, 1, 0, `{"v":1,"m":"k"}`},                 // on the boundary
	{0, 2, 5, 0, `{"v":2,"m":"qq"}`},                // inside bucket 0 (from = 0.4 range: exactly on an unaligned `from`)
	{0, 1, 1, -1, `{"v":4,"m":"k k"}`},              // last ns of bucket 0
	{0, 1, 1, 0, `{"v":3,"m":"q"}`},                 // first ns of bucket 1
	{0, 11, 5, 0, `{"v":6,"m":"kkkk"}`},             // bucket 2: the bucket that contains to = 2 or 2.4 ranges, before `to`=2.4
	{0, 13, 5, 0, `{"v":7,"m":"kq","pad":"...."}`},  // bucket 2, after every such `to`, inside the widened window
	{0, 16, 5, 0, `{"v":5,"m":"q","pad":"."}`},      // bucket 3: outside for to <= 2.4 ranges, inside for to = 4 ranges
	{2, 2, 5, 0, `{"v":7,"m":"k"}`},                 // second stream
	{2, 1, 1, 0, `{"v":8,"m":"qqq"}`},
}

// seriesPool: three streams (two share a, two share b) × three positions (two in the first bucket, one in the second).
var seriesPool = []poolEntry{
	{0, 2, 5, 0, `{"v":1,"m":"k"}`},
	{0, 3, 5, 0, `{"v":2,"m":"q"}`},
	{0, 6, 5, 0, `{"v":3,"m":"k"}`},
	{1, 2, 5, 0, `{"v":2,"m":"k"}`},
	{1, 3, 5, 0, `{"v":1,"m":"k"}`},
	{1, 6, 5, 0, `{"v":3,"m":"q"}`},
	{2, 2, 5, 0, `{"v":3,"m":"k"}`},
	{2, 3, 5, 0, `{"v":3,"m":"q"}`},
	{2, 6, 5, 0, `{"v":1,"m":"k"}`},
}

// noise is in every database: a metric-type sample and a sample of a stream the selector does not match, both in
// the first bucket.
var noise = []poolEntry{
	{3, 2, 5, 0, `{"v":100,"m":"k"}`},
	{4, 2, 5, 0, `{"v":200,"m":"k"}`},
}

type dbFamily struct {
	name string
	dbs  map[int][]*Database // range seconds → databases
}

var dbIndex = map[string]*Database{}

func subsets(n, max int) [][]int {
	var out [][]int
	var rec func(start int, cur []int)
	rec = func(start int, cur []int) {
		if len(cur) > 0 {
			out = append(out, append([]int(nil), cur...))
		}
		if len(cur) == max {
			return
		}
		for i := start; i < n; i++ {
			rec(i+1, append(cur, i))
		}
	}
	rec(0, nil)
	return out
}

func buildFamily(name string, pool []poolEntry, maxEntries int, ranges []int, withFull bool) *dbFamily {
	f := &dbFamily{name: name, dbs: map[int][]*Database{}}
	subs := subsets(len(pool), maxEntries)
	if withFull && maxEntries < len(pool) {
		all := make([]int, len(pool))
		for i := range all {
			all[i] = i
		}
		subs = append(subs, all)
	}
	for _, r := range ranges {
		for _, sub := range subs {
			mask := 0
			for _, i := range sub {
				mask |= 1 << i
			}
			d := &Database{Name: fmt.Sprintf("%s-r%d-%03x", name, r, mask), Streams: streamsCommon}
			for _, i := range sub {
				d.Entries = append(d.Entries, Entry{Stream: pool[i].stream, TS: pool[i].at(r), Line: pool[i].line})
			}
			for _, n := range noise {
				d.Entries = append(d.Entries, Entry{Stream: n.stream, TS: n.at(r), Line: n.line})
			}
			f.dbs[r] = append(f.dbs[r], d)
			dbIndex[d.Name] = d
		}
	}
	return f
}

func explicitDB(name string, entries []Entry) *Database {
	d := &Database{Name: name, Streams: streamsCommon, Entries: entries}
	dbIndex[name] = d
	return d
}

type caseSpec struct {
	Idx     int    `json:"idx"`
	Layer   string `json:"layer"`
	Query   *Query `json:"query"`
	Text    string `json:"logql"`
	DB      string `json:"database"`
	Params  Params `json:"params"`
	Cluster bool   `json:"cluster,omitempty"`
	// ZoneOffS: UTC offset (seconds) of the reader process's local time zone (time.Local) for this case
	ZoneOffS int `json:"zone_off_s,omitempty"`
	// History: the case is a sequence of requests in one process (see evaluate); Sibling = the interleaved query
	History bool   `json:"history,omitempty"`
	Sibling string `json:"sibling,omitempty"`
}

var selJ = []Matcher{{"job", "=", "j"}}

func jsonV() Stage   { return Stage{Kind: "json", Label: "v", Val: "v"} }
func unwrapV() Stage { return Stage{Kind: "unwrap", Label: "v"} }
func by(suffix bool, l ...string) *Grouping {
	return &Grouping{By: true, Labels: l, Suffix: suffix}
}
func without(suffix bool, l ...string) *Grouping {
	return &Grouping{By: false, Labels: l, Suffix: suffix}
}

var logFns = []string{"rate", "count_over_time", "bytes_rate", "bytes_over_time"}
var unwrapFns = []string{"rate", "sum_over_time", "avg_over_time", "min_over_time", "max_over_time", "first_over_time", "last_over_time"}
var unwrapFnsExtra = []string{"stddev_over_time", "stdvar_over_time"}

// stepsFor: range/2, range, 2*range in milliseconds.
func stepsFor(r int) []int64 { return []int64{int64(r) * 500, int64(r) * 1000, int64(r) * 2000} }

type window struct{ fromNum, toNum int64 } // in fifths of the range

func (w window) params(r int, stepMs int64) Params {
	return Params{FromS: w.fromNum * int64(r) / 5, ToS: w.toNum * int64(r) / 5, StepMs: stepMs}
}

// generator enumerates the case list.  Every process (parent, workers, single-case re-runs) enumerates the same
// list; only the cases selected by sel are materialised.
type generator struct {
	thorough bool
	n        int                // running case index
	sel      func(idx int) bool // nil = count only
	cases    []caseSpec
	queries  map[string]bool // query texts (parent only: countQueries)
	layerN   map[string]int
	keys     map[uint64]bool // uniqueness assertion (parent only)
	dup      string
	lastQ    *Query
	lastText string
}

func (g *generator) add(layer string, q *Query, d *Database, p Params, cluster bool) {
	g.addZ(layer, q, d, p, cluster, 0)
}

func (g *generator) addZ(layer string, q *Query, d *Database, p Params, cluster bool, zoneOffS int) {
	idx := g.n
	g.n++
	g.layerN[layer]++
	if g.queries != nil || g.keys != nil {
		// the same *Query value is added for many databases in a row: render once
		if g.lastQ != q {
			g.lastQ, g.lastText = q, q.String()
			if g.queries != nil {
				g.queries[g.lastText] = true
			}
		}
		if g.keys != nil {
			h := fnv.New64a()
			fmt.Fprintf(h, "%s|%s|%d|%d|%d|%v|%d", g.lastText, d.Name, p.FromS, p.ToS, p.StepMs, cluster, zoneOffS)
			k := h.Sum64()
			if g.keys[k] && g.dup == "" {
				g.dup = fmt.Sprintf("%s on %s %+v", g.lastText, d.Name, p)
			}
			g.keys[k] = true
		}
	}
	if g.sel == nil || !g.sel(idx) {
		return
	}
	qq := *q
	g.cases = append(g.cases, caseSpec{Idx: idx, Layer: layer, Query: &qq, Text: qq.String(), DB: d.Name, Params: p, Cluster: cluster, ZoneOffS: zoneOffS})
}

func generate(thorough bool, sel func(int) bool, count bool) *generator {
	g := &generator{thorough: thorough, sel: sel, layerN: map[string]int{}}
	if count {
		g.queries = map[string]bool{}
		g.keys = map[uint64]bool{}
	}
	maxEntries := 3
	if thorough {
		maxEntries = 4
	}
	ranges := []int{5, 10, 15, 60}

	// ---------------- L1 ----------------
	l1ranges := []int{5, 15, 60} // 10 s (a second range below the shortcut) in the thorough tier
	if thorough {
		l1ranges = ranges
	}
	timeFam := buildFamily("time", timePool, maxEntries, append(append([]int{}, ranges...), 20, 30), true)
	logPipes := [][]Stage{
		nil,
		{{Kind: "line", Op: "|=", Val: "k"}},
		{{Kind: "line", Op: "!=", Val: "k"}},
		{{Kind: "line", Op: "|~", Val: "k+ k|qq"}},
		{{Kind: "label", Label: "a", Op: "=", Val: "x"}},
		{{Kind: "label", Label: "a", Op: "!=", Val: "x"}},
		{{Kind: "label", Label: "b", Op: ">", Val: "0", Num: true}},
	}
	if thorough {
		logPipes = append(logPipes,
			[]Stage{{Kind: "line", Op: "!~", Val: "k+ k|qq"}},
			[]Stage{{Kind: "label", Label: "a", Op: "=~", Val: "y|z"}},
			[]Stage{{Kind: "label", Label: "a", Op: "!~", Val: "y|z"}},
			[]Stage{{Kind: "label", Label: "b", Op: "<=", Val: "0", Num: true}},
		)
	}
	unwrapPipes := [][]Stage{
		{jsonV(), unwrapV()},
		{{Kind: "line", Op: "|=", Val: "k"}, jsonV(), unwrapV()},
		{{Kind: "label", Label: "a", Op: "=", Val: "x"}, jsonV(), unwrapV()},
		{jsonV(), {Kind: "label", Label: "v", Op: ">", Val: "2", Num: true}, unwrapV()},
	}
	if thorough {
		unwrapPipes = append(unwrapPipes,
			[]Stage{{Kind: "json", Label: "v", Val: "v"}, {Kind: "json", Label: "m", Val: "m"}, {Kind: "label", Label: "m", Op: "=", Val: "k"}, unwrapV()},
			[]Stage{{Kind: "regexp", Val: `"v":(?P<v>[0-9]+)`}, unwrapV()},
		)
	}
	windows := []window{{0, 20}, {2, 12}, {5, 10}}
	if thorough {
		windows = []window{{0, 10}, {0, 20}, {2, 12}, {2, 20}, {5, 10}, {5, 12}}
	}
	// quick: the window {2,20} (unaligned from, `to` three buckets later) only with step = 2*range, where it matters
	wideOnly2R := window{2, 20}
	var l1queries []*Query
	for _, fn := range logFns {
		for _, pipe := range logPipes {
			l1queries = append(l1queries, &Query{Matchers: selJ, Stages: pipe, Fn: fn})
		}
	}
	ufns := append([]string{}, unwrapFns...)
	if thorough {
		ufns = append(ufns, unwrapFnsExtra...)
	}
	for _, fn := range ufns {
		for _, pipe := range unwrapPipes {
			// explicit grouping: the series identity is fixed by the query (the ungrouped form is in L5)
			l1queries = append(l1queries, &Query{Matchers: selJ, Stages: pipe, Fn: fn, RGroup: by(true, "a")})
		}
	}
	for _, r := range l1ranges {
		for _, q := range l1queries {
			if !thorough && r == 60 && q.unwrapLabel() != "" {
				continue // quick: unwrap never takes the shortcut, 1 m adds nothing over 15 s there (kept in thorough)
			}
			for _, w := range windows {
				qq := *q
				qq.RangeS = r
				for _, st := range stepsFor(r) {
					for _, d := range timeFam.dbs[r] {
						g.add("L1", &qq, d, w.params(r, st), false)
					}
				}
			}
			if !thorough {
				qq := *q
				qq.RangeS = r
				for _, d := range timeFam.dbs[r] {
					g.add("L1", &qq, d, wideOnly2R.params(r, int64(r)*2000), false)
				}
			}
		}
	}
	// ranges 20 s (not a multiple of the 15 s pre-aggregation) and 30 s for the two shortcut functions and bytes_rate
	for _, r := range []int{20, 30} {
		for _, fn := range []string{"rate", "count_over_time", "bytes_rate"} {
			for _, w := range windows {
				for _, st := range stepsFor(r) {
					q := &Query{Matchers: selJ, Fn: fn, RangeS: r}
					for _, d := range timeFam.dbs[r] {
						g.add("L1x", q, d, w.params(r, st), false)
					}
				}
			}
		}
	}

	// ---------------- L2 ----------------
	l2ranges := []int{5, 15}
	if thorough {
		l2ranges = []int{5, 15, 60}
	}
	serFam := buildFamily("series", seriesPool, maxEntries, ranges, true)
	aggs := []string{"sum", "min", "max", "avg", "count"}
	if thorough {
		aggs = append(aggs, "stddev", "stdvar")
	}
	groupings := []*Grouping{nil, by(false, "a"), by(true, "a"), without(false, "b"), without(true, "b"), by(false, "b"), without(true, "a", "job")}
	if thorough {
		groupings = append(groupings, by(true, "a", "b"), by(false, "nolabel"), without(false, "nolabel"))
	}
	inners := []*Query{
		{Matchers: selJ, Fn: "count_over_time"},
		{Matchers: selJ, Fn: "rate"},
		{Matchers: selJ, Stages: []Stage{jsonV(), unwrapV()}, Fn: "sum_over_time", RGroup: by(true, "a", "b")},
	}
	if thorough {
		inners = append(inners,
			&Query{Matchers: selJ, Stages: []Stage{{Kind: "line", Op: "|=", Val: "k"}}, Fn: "bytes_rate"},
			&Query{Matchers: selJ, Stages: []Stage{jsonV(), unwrapV()}, Fn: "max_over_time", RGroup: by(false, "a", "b")},
		)
	}
	w2 := []window{{0, 10}}
	if thorough {
		w2 = []window{{0, 10}, {2, 12}}
	}
	for _, r := range l2ranges {
		for _, in := range inners {
			for _, agg := range aggs {
				for _, gr := range groupings {
					for wi, w := range w2 {
						qq := *in
						qq.RangeS, qq.Agg, qq.AGroup = r, agg, gr
						for _, st := range stepsFor(r) {
							if wi > 0 && st != int64(r)*1000 {
								continue
							}
							for _, d := range serFam.dbs[r] {
								g.add("L2", &qq, d, w.params(r, st), false)
							}
						}
					}
				}
			}
		}
	}

	// ---------------- L3 ----------------
	ops := []string{">", ">=", "<", "<=", "==", "!="}
	l3ranges := []int{5, 15}
	for _, r := range l3ranges {
		rateOne := fmt.Sprintf("%g", 1/float64(r)) // rate of one entry, as a decimal literal
		if r == 15 {
			rateOne = "0.07" // 1/15 has no short literal: thresholds between 1/15 and 2/15
		}
		for _, op := range ops {
			var qs []*Query
			for _, thr := range []string{"1", "2", "1.5"} {
				qs = append(qs,
					&Query{Matchers: selJ, Fn: "count_over_time", RCmp: &Cmp{op, thr}},
					&Query{Matchers: selJ, Fn: "count_over_time", Agg: "sum", AGroup: by(false, "a"), ACmp: &Cmp{op, thr}},
					&Query{Matchers: selJ, Fn: "count_over_time", RCmp: &Cmp{op, thr}, Agg: "sum", AGroup: by(true, "a")},
					&Query{Matchers: selJ, Fn: "count_over_time", Top: "topk", K: 2, TCmp: &Cmp{op, thr}},
					&Query{Matchers: selJ, Stages: []Stage{jsonV(), unwrapV()}, Fn: "sum_over_time", RGroup: by(true, "a"), RCmp: &Cmp{op, thr}},
				)
			}
			qs = append(qs,
				&Query{Matchers: selJ, Fn: "rate", RCmp: &Cmp{op, rateOne}},
				&Query{Matchers: selJ, Fn: "count_over_time", RCmp: &Cmp{">=", "1"}, Agg: "count", AGroup: by(false, "a"), ACmp: &Cmp{op, "2"}},
			)
			for _, q := range qs {
				for _, st := range stepsFor(r) {
					if !thorough && st != int64(r)*1000 {
						continue
					}
					qq := *q
					qq.RangeS = r
					for _, d := range serFam.dbs[r] {
						g.add("L3", &qq, d, window{0, 10}.params(r, st), false)
					}
				}
			}
		}
	}

	// ---------------- L4 ----------------
	for _, r := range []int{5, 15} {
		topInners := []*Query{
			{Matchers: selJ, Fn: "count_over_time"},
			{Matchers: selJ, Fn: "count_over_time", Agg: "sum", AGroup: by(false, "a")},
			{Matchers: selJ, Fn: "count_over_time", Agg: "sum", AGroup: by(true, "b")},
			{Matchers: selJ, Stages: []Stage{jsonV(), unwrapV()}, Fn: "sum_over_time", RGroup: by(true, "a", "b")},
			{Matchers: selJ, Stages: []Stage{jsonV(), unwrapV()}, Fn: "max_over_time", RGroup: by(true, "a", "b"), Agg: "max", AGroup: without(false, "b")},
		}
		for _, top := range []string{"topk", "bottomk"} {
			for _, k := range []int{1, 2, 3} {
				for _, in := range topInners {
					for _, st := range stepsFor(r) {
						if !thorough && st == int64(r)*2000 {
							continue
						}
						qq := *in
						qq.RangeS, qq.Top, qq.K = r, top, k
						for _, d := range serFam.dbs[r] {
							g.add("L4", &qq, d, window{0, 10}.params(r, st), false)
						}
					}
				}
			}
		}
	}

	// ---------------- L6 ----------------
	g.compositions()

	// ---------------- L7 ----------------
	g.groupingCompositions(maxEntries)

	// ---------------- L8 ----------------
	g.zones()

	// ---------------- L9 ----------------
	g.history(serFam)

	// ---------------- L10 ----------------
	g.boundaryFilters(maxEntries)

	// ---------------- L5 ----------------
	g.special(serFam, timeFam)

	return g
}

// compositions (L6): the grammar is compositional, so every outer node is put over every class of inner form —
// comparison ∘ topk, comparison ∘ bottomk, top/bottom-k ∘ (vector aggregation ∘ comparison), top/bottom-k ∘ (vector
// aggregation of a compared range aggregation), comparison at range level AND at vector level in one query, all three
// positions at once — on the samples path (5 s, and unwrap at 15 s) and on the metrics_15s shortcut (count_over_time /
// rate at 15 s).  Databases: every distribution of 0..3 entries per stream over the first bucket (63 databases: up to
// three series with pairwise distinct counts straddling every threshold), with per-stream unwrapped values 1, 2, 4
// so that sums are distinct as well.  Same in both tiers (thorough adds step 2*range and range 1 m).
func (g *generator) compositions() {
	ranges := []int{5, 15}
	if g.thorough {
		ranges = append(ranges, 60)
	}
	posNum := []int64{1, 2, 3} // entry positions inside the first bucket, in fifths of the range
	vOf := []string{"1", "2", "4"}
	fam := &dbFamily{name: "counts", dbs: map[int][]*Database{}}
	for _, r := range ranges {
		for c0 := 0; c0 <= 3; c0++ {
			for c1 := 0; c1 <= 3; c1++ {
				for c2 := 0; c2 <= 3; c2++ {
					if c0+c1+c2 == 0 {
						continue
					}
					d := &Database{Name: fmt.Sprintf("counts-r%d-%d%d%d", r, c0, c1, c2), Streams: streamsCommon}
					for si, c := range []int{c0, c1, c2} {
						for k := 0; k < c; k++ {
							pe := poolEntry{si, posNum[k], 5, int64(si), fmt.Sprintf(`{"v":%s,"m":"k"}`, vOf[si])}
							d.Entries = append(d.Entries, Entry{Stream: si, TS: pe.at(r), Line: pe.line})
						}
					}
					// one entry of stream 0 in the second bucket, so that two buckets differ
					d.Entries = append(d.Entries, Entry{Stream: 0, TS: poolEntry{0, 6, 5, 0, ""}.at(r), Line: `{"v":1,"m":"q"}`})
					for _, n := range noise {
						d.Entries = append(d.Entries, Entry{Stream: n.stream, TS: n.at(r), Line: n.line})
					}
					fam.dbs[r] = append(fam.dbs[r], d)
					dbIndex[d.Name] = d
				}
			}
		}
	}
	ops := []string{">", ">=", "<", "<=", "==", "!="}
	cnt := func() *Query { return &Query{Matchers: selJ, Fn: "count_over_time"} }
	rate := func() *Query { return &Query{Matchers: selJ, Fn: "rate"} }
	sumU := func() *Query {
		return &Query{Matchers: selJ, Stages: []Stage{jsonV(), unwrapV()}, Fn: "sum_over_time", RGroup: by(true, "a", "b")}
	}
	for _, r := range ranges {
		rateThr := []string{fmt.Sprintf("%g", 2/float64(r))}
		if r == 15 {
			rateThr = []string{"0.1"} // between 1/15 and 2/15
		}
		if r == 60 {
			rateThr = []string{"0.02"} // between 1/60 and 2/60
		}
		var qs []*Query
		for _, op := range ops {
			for _, top := range []string{"topk", "bottomk"} {
				for _, k := range []int{1, 2} {
					// comparison ∘ top/bottom-k over a range aggregation (count: samples path / shortcut), an unwrapped sum, a rate
					for _, thr := range []string{"1", "2", "3"} {
						q := cnt()
						q.Top, q.K, q.TCmp = top, k, &Cmp{op, thr}
						qs = append(qs, q)
					}
					for _, thr := range []string{"2", "4", "5"} {
						q := sumU()
						q.Top, q.K, q.TCmp = top, k, &Cmp{op, thr}
						qs = append(qs, q)
					}
					for _, thr := range rateThr {
						q := rate()
						q.Top, q.K, q.TCmp = top, k, &Cmp{op, thr}
						qs = append(qs, q)
					}
					// comparison ∘ top/bottom-k ∘ vector aggregation (by (b): streams 0 and 2 merge)
					for _, thr := range []string{"2", "3"} {
						q := cnt()
						q.Agg, q.AGroup = "sum", by(false, "b")
						q.Top, q.K, q.TCmp = top, k, &Cmp{op, thr}
						qs = append(qs, q)
					}
					// top/bottom-k ∘ (vector aggregation ∘ comparison)
					q := cnt()
					q.Agg, q.AGroup, q.ACmp = "sum", by(true, "b"), &Cmp{op, "2"}
					q.Top, q.K = top, k
					qs = append(qs, q)
					// top/bottom-k ∘ vector aggregation ∘ (range aggregation ∘ comparison)
					q = cnt()
					q.RCmp = &Cmp{op, "2"}
					q.Agg, q.AGroup = "max", by(false, "a")
					q.Top, q.K = top, k
					qs = append(qs, q)
					// all three positions at once (inner and middle thresholds fixed, outer operator varies)
					q = cnt()
					q.RCmp = &Cmp{">=", "1"}
					q.Agg, q.AGroup, q.ACmp = "sum", by(false, "b"), &Cmp{"<=", "4"}
					q.Top, q.K, q.TCmp = top, k, &Cmp{op, "2"}
					qs = append(qs, q)
				}
			}
			// comparison at range level and at vector level in one query (both operators vary against each other)
			for _, op2 := range ops {
				q := cnt()
				q.RCmp = &Cmp{op, "2"}
				q.Agg, q.AGroup, q.ACmp = "sum", by(false, "a"), &Cmp{op2, "3"}
				qs = append(qs, q)
			}
			q := sumU()
			q.RCmp = &Cmp{op, "4"}
			q.Agg, q.AGroup, q.ACmp = "min", without(true, "b"), &Cmp{"<", "4"}
			qs = append(qs, q)
		}
		steps := []int64{int64(r) * 1000, int64(r) * 500}
		if g.thorough {
			steps = append(steps, int64(r)*2000)
		}
		for _, q := range qs {
			qq := *q
			qq.RangeS = r
			for _, st := range steps {
				for _, d := range fam.dbs[r] {
					g.add("L6", &qq, d, window{0, 10}.params(r, st), false)
				}
			}
		}
	}
}

// groupingCompositions (L7): groupings compose — (clause on the unwrapped range function) x (clause on the vector
// aggregation) over {none, by(L), without(L)} with L in {{a}, {a,b}, {b}} (inner list a subset, a superset, disjoint
// from, equal to the outer one), in prefix and suffix position, x {sum, max, count}.  An inner `without` also names
// the unwrapped label v, so that the series identity is explicit (the ungrouped / without-v-less form is the known
// unwrap-identity finding).  Databases: every subset of <= 3 (thorough <= 4) entries of four streams — two differing
// only in b, one differing in a, one WITHOUT label b — at one position in each of two buckets, distinct values.
func (g *generator) groupingCompositions(maxEntries int) {
	ranges := []int{5}
	if g.thorough {
		ranges = []int{5, 15}
	}
	pool := []poolEntry{
		{0, 2, 5, 0, `{"v":1}`}, {0, 6, 5, 0, `{"v":16}`},
		{1, 2, 5, 0, `{"v":2}`}, {1, 6, 5, 0, `{"v":32}`},
		{2, 2, 5, 0, `{"v":4}`}, {2, 6, 5, 0, `{"v":64}`},
		{5, 2, 5, 0, `{"v":8}`}, {5, 6, 5, 0, `{"v":128}`},
	}
	fam := buildFamily("grouping", pool, maxEntries, []int{5, 15}, true)
	lists := [][]string{{"a"}, {"a", "b"}, {"b"}}
	inner := func(suffix bool) []*Grouping {
		out := []*Grouping{nil}
		for _, l := range lists {
			out = append(out, by(suffix, l...))
		}
		for _, l := range lists {
			out = append(out, without(suffix, append([]string{"v"}, l...)...))
		}
		return out
	}
	outer := func(suffix bool) []*Grouping {
		out := []*Grouping{nil}
		for _, l := range lists {
			out = append(out, by(suffix, l...))
		}
		for _, l := range lists {
			out = append(out, without(suffix, l...), without(suffix, append([]string{"v"}, l...)...))
		}
		return out
	}
	positions := [][2]bool{{false, false}, {true, true}}
	if g.thorough {
		positions = [][2]bool{{false, false}, {true, true}, {false, true}, {true, false}}
	}
	seen := map[string]bool{}
	for _, r := range ranges {
		for _, agg := range []string{"sum", "max", "count"} {
			for _, pos := range positions {
				for _, in := range inner(pos[0]) {
					for _, out := range outer(pos[1]) {
						q := &Query{Matchers: selJ, Stages: []Stage{jsonV(), unwrapV()}, Fn: "sum_over_time", RangeS: r, RGroup: in, Agg: agg, AGroup: out}
						if t := q.String(); seen[t] {
							continue // `none` has no position: the same text would be generated twice
						} else {
							seen[t] = true
						}
						for _, d := range fam.dbs[r] {
							g.add("L7", q, d, window{0, 10}.params(r, int64(r)*1000), false)
						}
					}
				}
			}
		}
	}
}

// zoneOffsets: the reader process's local zone is an environment dimension — UTC, UTC+9 (Asia/Tokyo), UTC+14
// (Pacific/Kiritimati), UTC-5, UTC+5:45 (Asia/Kathmandu); fixed offsets, no tzdata needed.
var zoneOffsets = []int{0, 9 * 3600, 14 * 3600, -5 * 3600, 5*3600 + 45*60}

// zones (L8): reader time zone x windows whose start lies just before / just after UTC midnight and the zone's local
// midnight, and just before / after those instants + 30 min (the slack of the lower `date` bound), over databases
// whose time_series rows carry the UTC day of their samples (a series with samples only before UTC midnight is
// registered only on the earlier day, one with samples only after it only on the later).  The reference result does
// not depend on the zone.  Window = 120 s, step = range.
func (g *generator) zones() {
	streams := []Stream{
		{Labels: map[string]string{"job": "j", "a": "x", "b": "1"}, Type: 1, FP: 201},
		{Labels: map[string]string{"job": "j", "a": "x", "b": "2"}, Type: 1, FP: 202},
		{Labels: map[string]string{"job": "j", "a": "y", "b": "1"}, Type: 1, FP: 203},
	}
	type pe struct {
		stream int
		offS   int64
		line   string
	}
	pool := []pe{ // offsets from the window start; with from = midnight - 60 s the first two lie before midnight
		{0, 10, `{"v":1,"m":"k"}`}, {0, 50, `{"v":2,"m":"k"}`},
		{1, 70, `{"v":4,"m":"k"}`}, {1, 110, `{"v":8,"m":"k"}`},
		{2, 10, `{"v":16,"m":"k"}`}, {2, 110, `{"v":32,"m":"k"}`},
	}
	maxSub := 1
	if g.thorough {
		maxSub = 2
	}
	subs := subsets(len(pool), maxSub)
	all := make([]int, len(pool))
	for i := range all {
		all[i] = i
	}
	subs = append(subs, all)
	dbsFor := map[int64][]*Database{}
	dbs := func(fromS int64) []*Database {
		if d, ok := dbsFor[fromS]; ok {
			return d
		}
		var out []*Database
		for _, sub := range subs {
			mask := 0
			for _, i := range sub {
				mask |= 1 << i
			}
			d := &Database{Name: fmt.Sprintf("zone-f%d-%02x", fromS, mask), Streams: streams, DaysFromSamples: true}
			for _, i := range sub {
				d.Entries = append(d.Entries, Entry{Stream: pool[i].stream, TS: (fromS + pool[i].offS) * sec, Line: pool[i].line})
			}
			out = append(out, d)
			dbIndex[d.Name] = d
		}
		dbsFor[fromS] = out
		return out
	}
	qs := []*Query{
		{Matchers: selJ, Fn: "count_over_time", RangeS: 5},                                                              // plain range aggregation, samples path
		{Matchers: selJ, Fn: "count_over_time", RangeS: 15, Agg: "sum", AGroup: by(false, "a")},                         // shortcut + by (labelsFromScratch)
		{Matchers: selJ, Fn: "rate", RangeS: 5, Agg: "sum", AGroup: by(true, "b")},                                      // rate + by, samples path
		{Matchers: selJ, Fn: "count_over_time", RangeS: 15, Agg: "sum", AGroup: without(false, "b"), Top: "topk", K: 1}, // topk over sum without
		{Matchers: selJ, Stages: []Stage{jsonV(), unwrapV()}, Fn: "sum_over_time", RangeS: 15, RGroup: by(true, "a")},   // unwrap
	}
	if g.thorough {
		qs = append(qs,
			&Query{Matchers: selJ, Fn: "rate", RangeS: 15},
			&Query{Matchers: selJ, Fn: "bytes_rate", RangeS: 15},
			&Query{Matchers: selJ, Fn: "bytes_over_time", RangeS: 60},
			&Query{Matchers: selJ, Fn: "count_over_time", RangeS: 60, Agg: "sum", AGroup: by(true, "a", "b")},
			&Query{Matchers: selJ, Stages: []Stage{{Kind: "label", Label: "a", Op: "=", Val: "x"}}, Fn: "count_over_time", RangeS: 5},
			&Query{Matchers: selJ, Stages: []Stage{{Kind: "label", Label: "b", Op: "=", Val: "1"}}, Fn: "rate", RangeS: 15},
			&Query{Matchers: selJ, Stages: []Stage{{Kind: "line", Op: "|=", Val: "k"}}, Fn: "count_over_time", RangeS: 15, Agg: "max", AGroup: without(true, "a")},
			&Query{Matchers: selJ, Fn: "count_over_time", RangeS: 5, RCmp: &Cmp{">=", "1"}, Agg: "count", AGroup: by(false, "job")},
			&Query{Matchers: selJ, Fn: "count_over_time", RangeS: 15, Agg: "sum"},
			&Query{Matchers: selJ, Fn: "rate", RangeS: 5, Top: "bottomk", K: 2},
			&Query{Matchers: selJ, Stages: []Stage{jsonV(), unwrapV()}, Fn: "avg_over_time", RangeS: 5, RGroup: without(false, "v", "b")},
			&Query{Matchers: selJ, Stages: []Stage{jsonV(), unwrapV()}, Fn: "max_over_time", RangeS: 15, RGroup: by(true, "a", "b"), Agg: "sum", AGroup: by(false, "a")},
			&Query{Matchers: selJ, Stages: []Stage{jsonV(), unwrapV()}, Fn: "last_over_time", RangeS: 60, RGroup: by(true, "b")},
			&Query{Matchers: []Matcher{{"a", "=~", "x|y"}}, Fn: "count_over_time", RangeS: 15, Agg: "sum", AGroup: by(false, "b")},
		)
	}
	const utcMidnight = 50400 // 2024-03-02T00:00:00Z in seconds since T0 (2024-03-01T10:00:00Z)
	for _, off := range zoneOffsets {
		localMidnight := ((int64(-off)-36000)%86400 + 86400) % 86400
		anchors := []int64{utcMidnight}
		if localMidnight != utcMidnight {
			anchors = append(anchors, localMidnight)
		}
		for _, a := range anchors {
			for _, delta := range []int64{-60, 60, 1740, 1860} {
				from := a + delta
				for _, q := range qs {
					for _, d := range dbs(from) {
						g.addZ("L8", q, d, Params{FromS: from, ToS: from + 120, StepMs: int64(q.RangeS) * 1000}, false, off)
					}
				}
			}
		}
	}
}

// history (L9): history independence.  Queries whose pipeline has a stage evaluated by the in-process engine (json
// without parameters, logfmt, line_format) AFTER a line filter or a label filter — the planner splits such a query
// (breakScript) — under a vector aggregation grouped by stream labels, plus one pure-SQL shape per family; each case is
// four requests in one process (evaluate).  Databases: the series pool (entries with and without "k", three streams).
func (g *generator) history(serFam *dbFamily) {
	goStages := []Stage{{Kind: "json"}, {Kind: "logfmt"}, {Kind: "line_format", Val: "{{.m}}"}}
	filters := [][]Stage{
		{{Kind: "line", Op: "|=", Val: "k"}},
		{{Kind: "line", Op: "!=", Val: "k"}},
		{{Kind: "label", Label: "b", Op: "=", Val: "1"}},
		{{Kind: "line", Op: "|=", Val: "k"}, {Kind: "label", Label: "a", Op: "=", Val: "x"}},
	}
	type hq struct{ q, sib *Query }
	var qs []hq
	for gi, gs := range goStages {
		for fi, f := range filters {
			if !g.thorough && (gi+fi)%2 == 1 {
				continue // quick: every Go stage and every filter shape, half of the pairs
			}
			fn, agg, gr := "count_over_time", "sum", by(false, "a")
			if fi%2 == 1 {
				fn, agg, gr = "rate", "sum", by(true, "b") // sum only: additive, so the series the Go parsers split a stream into do not matter
			}
			mk := func(last Stage) *Query {
				return &Query{Matchers: selJ, Stages: append(append([]Stage{}, f...), last), Fn: fn, RangeS: 5, Agg: agg, AGroup: gr}
			}
			qs = append(qs, hq{mk(gs), mk(goStages[(gi+1)%len(goStages)])})
		}
	}
	// pure-SQL shapes as repeated requests
	sql1 := &Query{Matchers: selJ, Stages: []Stage{{Kind: "line", Op: "|=", Val: "k"}}, Fn: "count_over_time", RangeS: 5, Agg: "sum", AGroup: by(false, "a")}
	sql1b := &Query{Matchers: selJ, Stages: []Stage{{Kind: "line", Op: "|=", Val: "k"}}, Fn: "count_over_time", RangeS: 5, Agg: "sum", AGroup: by(false, "b")}
	sql2 := &Query{Matchers: selJ, Stages: []Stage{{Kind: "label", Label: "a", Op: "=", Val: "x"}, jsonV(), unwrapV()}, Fn: "sum_over_time", RangeS: 5, RGroup: by(true, "a")}
	sql2b := &Query{Matchers: selJ, Stages: []Stage{{Kind: "label", Label: "a", Op: "=", Val: "x"}, jsonV(), unwrapV()}, Fn: "max_over_time", RangeS: 5, RGroup: by(true, "a")}
	sql3 := &Query{Matchers: selJ, Stages: []Stage{{Kind: "label", Label: "b", Op: "=", Val: "1"}}, Fn: "count_over_time", RangeS: 15, Agg: "sum", AGroup: by(false, "a"), Top: "topk", K: 1}
	sql3b := &Query{Matchers: selJ, Stages: []Stage{{Kind: "label", Label: "b", Op: "=", Val: "1"}}, Fn: "count_over_time", RangeS: 15, Agg: "sum", AGroup: by(false, "a"), Top: "bottomk", K: 1}
	qs = append(qs, hq{sql1, sql1b}, hq{sql2, sql2b}, hq{sql3, sql3b})
	for _, h := range qs {
		dbs := serFam.dbs[h.q.RangeS]
		for i, d := range dbs {
			if !g.thorough && i%3 != 0 && i != len(dbs)-1 {
				continue // quick: every third sub-database and the whole pool
			}
			n := len(g.cases)
			g.add("L9", h.q, d, window{0, 10}.params(h.q.RangeS, int64(h.q.RangeS)*1000), false)
			if len(g.cases) > n {
				c := &g.cases[len(g.cases)-1]
				c.History, c.Sibling = true, h.sib.String()
			}
		}
	}
}

// special families
func (g *generator) special(serFam, timeFam *dbFamily) {
	// (a) unwrap without grouping / with `without`: what identifies the series
	for _, r := range []int{5, 15} {
		for _, fn := range []string{"sum_over_time", "avg_over_time", "max_over_time", "last_over_time"} {
			for _, gr := range []*Grouping{nil, without(true, "b"), without(false, "a", "b")} {
				q := &Query{Matchers: selJ, Stages: []Stage{jsonV(), unwrapV()}, Fn: fn, RangeS: r, RGroup: gr}
				for _, d := range serFam.dbs[r] {
					g.add("L5-unwrap-identity", q, d, window{0, 10}.params(r, int64(r)*1000), false)
				}
			}
		}
	}
	// (b) values: missing key, non-numeric, zero, negative, fraction
	valPool := []poolEntry{
		{0, 1, 5, 0, `{"v":2}`},
		{0, 2, 5, 0, `{"m":"no v"}`},
		{0, 3, 5, 0, `{"v":"abc"}`},
		{0, 4, 5, 0, `{"v":0}`},
		{0, 6, 5, 0, `{"v":-2}`},
		{0, 7, 5, 0, `{"v":2}`},
		{0, 8, 5, 0, `{"v":"0.5"}`},
	}
	valFam := buildFamily("values", valPool, 3, []int{5, 15}, true)
	for _, r := range []int{5, 15} {
		for _, fn := range append(append([]string{}, unwrapFns...), "stddev_over_time") {
			for _, d := range valFam.dbs[r] {
				q := &Query{Matchers: selJ, Stages: []Stage{jsonV(), unwrapV()}, Fn: fn, RangeS: r, RGroup: by(true, "a")}
				g.add("L5-values", q, d, window{0, 10}.params(r, int64(r)*1000), false)
			}
		}
		for _, d := range valFam.dbs[r] {
			q := &Query{Matchers: selJ, Stages: []Stage{jsonV(), unwrapV()}, Fn: "sum_over_time", RangeS: r, RGroup: by(true, "a"), RCmp: &Cmp{"<=", "0"}}
			g.add("L5-values", q, d, window{0, 10}.params(r, int64(r)*1000), false)
		}
	}
	// (c) equal timestamps inside one series
	tiePool := []poolEntry{
		{0, 2, 5, 0, `{"v":1}`},
		{0, 2, 5, 0, `{"v":2}`},
		{0, 3, 5, 0, `{"v":3}`},
		{0, 3, 5, 0, `{"v":3,"m":"k"}`},
		{1, 2, 5, 0, `{"v":5}`},
	}
	tieFam := buildFamily("ties", tiePool, 4, []int{5}, true)
	for _, fn := range []string{"first_over_time", "last_over_time", "sum_over_time", "count_over_time"} {
		for _, d := range tieFam.dbs[5] {
			q := &Query{Matchers: selJ, Stages: []Stage{jsonV(), unwrapV()}, Fn: fn, RangeS: 5, RGroup: by(true, "a")}
			if fn == "count_over_time" {
				q = &Query{Matchers: selJ, Fn: fn, RangeS: 5}
			}
			g.add("L5-equal-ts", q, d, window{0, 10}.params(5, 5000), false)
			if fn != "count_over_time" {
				q2 := *q
				q2.Agg, q2.AGroup = "sum", by(false, "job")
				g.add("L5-equal-ts", &q2, d, window{0, 10}.params(5, 5000), false)
			}
		}
	}
	// (d) empty line filters (the shortcut accepts them) and quantile_over_time
	for _, r := range []int{5, 15} {
		for _, op := range []string{"|=", "!=", "|~", "!~"} {
			for _, fn := range []string{"count_over_time", "bytes_rate"} {
				for _, d := range serFam.dbs[r] {
					q := &Query{Matchers: selJ, Stages: []Stage{{Kind: "line", Op: op, Val: ""}}, Fn: fn, RangeS: r}
					g.add("L5-empty-filter", q, d, window{0, 10}.params(r, int64(r)*1000), false)
				}
			}
		}
		for _, phi := range []string{"0", "0.5", "0.9", "1"} {
			for _, d := range serFam.dbs[r] {
				q := &Query{Matchers: selJ, Stages: []Stage{jsonV(), unwrapV()}, Fn: "quantile_over_time", Quantile: phi, RangeS: r, RGroup: by(true, "job")}
				g.add("L5-quantile", q, d, window{0, 10}.params(r, int64(r)*1000), false)
			}
		}
	}
	// (e) thresholds with more than six decimals
	for _, thr := range []string{"0.0166665", "0.0166669", "0.2000001", "0.1999999"} {
		for _, r := range []int{5, 60} {
			for _, op := range []string{">", "<=", "=="} {
				for _, d := range serFam.dbs[r] {
					q := &Query{Matchers: selJ, Fn: "rate", RangeS: r, RCmp: &Cmp{op, thr}}
					g.add("L5-threshold-decimals", q, d, window{0, 10}.params(r, int64(r)*1000), false)
				}
			}
		}
	}
	// (f) cluster mode (GLOBAL joins, _dist tables, inlined WITH)
	for _, r := range []int{5, 15} {
		cq := []*Query{
			{Matchers: selJ, Fn: "count_over_time"},
			{Matchers: selJ, Fn: "rate", Agg: "sum", AGroup: by(false, "a")},
			{Matchers: selJ, Stages: []Stage{jsonV(), unwrapV()}, Fn: "avg_over_time", RGroup: by(true, "a")},
			{Matchers: selJ, Fn: "count_over_time", Agg: "sum", AGroup: without(true, "b"), Top: "topk", K: 1},
			{Matchers: selJ, Stages: []Stage{{Kind: "label", Label: "b", Op: "=", Val: "1"}}, Fn: "bytes_over_time", RCmp: &Cmp{">", "1"}},
		}
		for _, q := range cq {
			qq := *q
			qq.RangeS = r
			for _, d := range serFam.dbs[r] {
				g.add("L5-cluster", &qq, d, window{0, 10}.params(r, int64(r)*1000), true)
			}
		}
	}
	// (h) shapes the SQL path does not take or the planner rejects: listed as unsupported, never judged
	for _, q := range []*Query{
		{Matchers: selJ, Stages: []Stage{{Kind: "unwrap", Label: "b"}}, Fn: "sum_over_time", RangeS: 5}, // unwrap of a stored label without a parser stage
		{Matchers: selJ, Fn: "absent_over_time", RangeS: 5},                                             // evaluated by the in-process engine (C09)
	} {
		for _, d := range serFam.dbs[5][:3] {
			g.add("L5-unsupported", q, d, window{0, 10}.params(5, 5000), false)
		}
	}
	// (g) second matcher / regex matcher
	for _, ms := range [][]Matcher{{{"job", "=", "j"}, {"a", "=", "x"}}, {{"a", "=~", "x|y"}, {"job", "!=", "o"}}, {{"job", "=", "j"}, {"b", "!~", "2|3"}}} {
		for _, r := range []int{5, 15} {
			for _, d := range serFam.dbs[r] {
				g.add("L5-matchers", &Query{Matchers: ms, Fn: "count_over_time", RangeS: r, Agg: "sum", AGroup: by(false, "a")}, d, window{0, 10}.params(r, int64(r)*1000), false)
			}
		}
	}
}

// boundaryPool (L10): lines at the boundary of "every line": the empty line, a one-character line, a line that is only
// a newline, next to ordinary lines, in two selected streams (one of type "both") and two buckets.  metrics_15s is
// derived from these samples by the materialized view like everywhere else: it counts every line, the empty one too.
var boundaryPool = []poolEntry{
	{0, 2, 5, 0, ``},
	{0, 3, 5, 0, `k`},
	{0, 4, 5, 0, "\n"},
	{0, 6, 5, 0, `{"v":1,"m":"k"}`},
	{0, 7, 5, 0, ``},
	{2, 2, 5, 0, ``},
	{2, 6, 5, 0, "q\nk"},
}

// boundaryFilters (L10): line filters that pass "almost every" line — the atoms a planner may want to recognise as a
// no-op — in all four operators, alone and in two-stage pipelines, on the query shapes that may take the metrics_15s
// shortcut (rate / count_over_time, range a multiple of 15 s), the same shapes at ranges that may not (5 s, 10 s) and
// the byte functions (never), on databases whose selected streams hold the boundary lines.  Added after seed `C08-g`
// (`|~ ".+"` dropped as pass-everything on the shortcut) slipped through: the line-filter alphabet had one substring,
// one regex and the empty pattern, and no database had an empty line.
func (g *generator) boundaryFilters(maxEntries int) {
	ranges := []int{10, 15, 60} // 10 s: not a multiple of 15 s, samples path
	if g.thorough {
		ranges = []int{5, 10, 15, 60}
	}
	fam := buildFamily("lines", boundaryPool, maxEntries, ranges, true)
	var pipes [][]Stage
	for _, val := range []string{"", ".*", ".+", "(?s).*", "(?s).+", "(?-s).+", ".", ".?", "^", "$", "^$", "^.*$", "^.+$", "[^k]", "\\n", "\n"} {
		for _, op := range []string{"|~", "!~"} {
			pipes = append(pipes, []Stage{{Kind: "line", Op: op, Val: val}})
		}
	}
	for _, val := range []string{"", "\n", ".", ".+"} { // substrings: "." and ".+" are literals here
		for _, op := range []string{"|=", "!="} {
			if val == "" {
				continue // L5-empty-filter on the series pool; below on this pool in two-stage pipelines
			}
			pipes = append(pipes, []Stage{{Kind: "line", Op: op, Val: val}})
		}
	}
	lf := func(op, val string) Stage { return Stage{Kind: "line", Op: op, Val: val} }
	pipes = append(pipes,
		[]Stage{lf("|=", "")}, []Stage{lf("!=", "")},
		[]Stage{lf("|=", ""), lf("|~", ".+")}, []Stage{lf("|~", ".+"), lf("|=", "")},
		[]Stage{lf("|~", ""), lf("|~", ".*")}, []Stage{lf("|~", ".*"), lf("!~", ".+")},
		[]Stage{lf("|~", ""), lf("|=", "k")}, []Stage{lf("|=", ""), lf("!=", "")},
	)
	for _, r := range ranges {
		for _, pipe := range pipes {
			qs := []*Query{
				{Matchers: selJ, Stages: pipe, Fn: "count_over_time", RangeS: r},
				{Matchers: selJ, Stages: pipe, Fn: "rate", RangeS: r, Agg: "sum", AGroup: by(false, "a")},
				{Matchers: selJ, Stages: pipe, Fn: "bytes_over_time", RangeS: r},
			}
			if g.thorough {
				qs = append(qs, &Query{Matchers: selJ, Stages: pipe, Fn: "bytes_rate", RangeS: r},
					&Query{Matchers: selJ, Stages: pipe, Fn: "count_over_time", RangeS: r, RCmp: &Cmp{">", "1"}})
			}
			for _, q := range qs {
				for _, d := range fam.dbs[r] {
					g.add("L10", q, d, window{0, 10}.params(r, int64(r)*1000), false)
				}
			}
		}
	}
}

func sortedKeys(m map[string]int) []string {
	k := make([]string, 0, len(m))
	for s := range m {
		k = append(k, s)
	}
	sort.Strings(k)
	return k
}
