package main

import (
	"fmt"
	"sort"
	"strconv"
	"strings"
	"sync"
	"time"

	"verif/mc/chsim"
)

// ---------------------------------------------------------------------------------------------------------------
// Query model.  Queries are enumerated as models and rendered to LogQL text (never parsed back); the text goes
// through the real parser and planner, the model goes to the reference evaluator.
// ---------------------------------------------------------------------------------------------------------------

type Matcher struct {
	Label, Op, Val string
}

// Stage is one pipeline stage.  Kind: "line" (Op |= != |~ !~, Val), "label" (Label Op Val; Num = numeric literal),
// "json" (Label = extracted label, Val = path), "regexp" (Val = pattern with one named group), "unwrap" (Label).
type Stage struct {
	Kind  string `json:"kind"`
	Label string `json:"label,omitempty"`
	Op    string `json:"op,omitempty"`
	Val   string `json:"val,omitempty"`
	Num   bool   `json:"num,omitempty"`
}

type Grouping struct {
	By     bool     `json:"by"`
	Labels []string `json:"labels"`
	Suffix bool     `json:"suffix"` // written after the closing parenthesis
}

type Cmp struct {
	Op  string `json:"op"`
	Val string `json:"val"` // literal as written in the query
}

func (c *Cmp) num() float64 { f, _ := strconv.ParseFloat(c.Val, 64); return f }

// Query = [topk/bottomk(K,] [agg [grouping] (] fn [rgrouping] ({matchers} stages [range]) [rcmp] [)] [acmp] [)] [tcmp]
type Query struct {
	Matchers []Matcher `json:"matchers"`
	Stages   []Stage   `json:"stages,omitempty"`
	Fn       string    `json:"fn"`
	Quantile string    `json:"quantile,omitempty"` // parameter of quantile_over_time (Fn == "quantile_over_time")
	RangeS   int       `json:"range_s"`
	RGroup   *Grouping `json:"rgroup,omitempty"`
	RCmp     *Cmp      `json:"rcmp,omitempty"`
	Agg      string    `json:"agg,omitempty"`
	AGroup   *Grouping `json:"agroup,omitempty"`
	ACmp     *Cmp      `json:"acmp,omitempty"`
	Top      string    `json:"top,omitempty"` // "topk" | "bottomk"
	K        int       `json:"k,omitempty"`
	TCmp     *Cmp      `json:"tcmp,omitempty"`
}

func quote(s string) string { return strconv.Quote(s) }

func (s Stage) String() string {
	switch s.Kind {
	case "line":
		return s.Op + " " + quote(s.Val)
	case "label":
		if s.Num {
			return "| " + s.Label + " " + s.Op + " " + s.Val
		}
		return "| " + s.Label + " " + s.Op + " " + quote(s.Val)
	case "json":
		if s.Label == "" {
			return "| json" // every top-level key; evaluated by the in-process engine
		}
		return "| json " + s.Label + "=" + quote(s.Val)
	case "logfmt":
		return "| logfmt"
	case "line_format":
		return "| line_format " + quote(s.Val)
	case "regexp":
		return "| regexp " + quote(s.Val)
	case "unwrap":
		return "| unwrap " + s.Label
	}
	panic("stage kind " + s.Kind)
}

func (g *Grouping) text() string {
	fn := "without"
	if g.By {
		fn = "by"
	}
	return fn + " (" + strings.Join(g.Labels, ",") + ")"
}

func rangeText(s int) string {
	if s%60 == 0 {
		return fmt.Sprintf("%dm", s/60)
	}
	return fmt.Sprintf("%ds", s)
}

func (q *Query) String() string {
	var b strings.Builder
	ms := make([]string, len(q.Matchers))
	for i, m := range q.Matchers {
		ms[i] = m.Label + m.Op + quote(m.Val)
	}
	sel := "{" + strings.Join(ms, ",") + "}"
	for _, s := range q.Stages {
		sel += " " + s.String()
	}
	// range aggregation
	b.WriteString(q.Fn)
	if q.RGroup != nil && !q.RGroup.Suffix {
		b.WriteString(" " + q.RGroup.text())
	}
	b.WriteString("(")
	if q.Fn == "quantile_over_time" {
		b.WriteString(q.Quantile + ", ")
	}
	b.WriteString(sel + " [" + rangeText(q.RangeS) + "])")
	if q.RGroup != nil && q.RGroup.Suffix {
		b.WriteString(" " + q.RGroup.text())
	}
	if q.RCmp != nil {
		b.WriteString(" " + q.RCmp.Op + " " + q.RCmp.Val)
	}
	inner := b.String()
	if q.Agg != "" {
		s := q.Agg
		if q.AGroup != nil && !q.AGroup.Suffix {
			s += " " + q.AGroup.text()
		}
		s += " (" + inner + ")"
		if q.AGroup != nil && q.AGroup.Suffix {
			s += " " + q.AGroup.text()
		}
		if q.ACmp != nil {
			s += " " + q.ACmp.Op + " " + q.ACmp.Val
		}
		inner = s
	}
	if q.Top != "" {
		s := fmt.Sprintf("%s(%d, %s)", q.Top, q.K, inner)
		if q.TCmp != nil {
			s += " " + q.TCmp.Op + " " + q.TCmp.Val
		}
		inner = s
	}
	return inner
}

func (q *Query) unwrapLabel() string {
	for _, s := range q.Stages {
		if s.Kind == "unwrap" {
			return s.Label
		}
	}
	return ""
}

func (q *Query) hasStage(kind string) bool {
	for _, s := range q.Stages {
		if s.Kind == kind {
			return true
		}
	}
	return false
}

// Shape is a coarse description used to list unsupported query shapes.
func (q *Query) Shape() string {
	var p []string
	for _, s := range q.Stages {
		k := s.Kind
		if s.Kind == "line" || s.Kind == "label" {
			k += s.Op
		}
		p = append(p, k)
	}
	s := q.Fn + "[" + strings.Join(p, " ") + "]"
	if q.RGroup != nil {
		s += " r" + q.RGroup.text()
	}
	if q.RCmp != nil {
		s += " rcmp"
	}
	if q.Agg != "" {
		s = q.Agg + "(" + s + ")"
		if q.AGroup != nil {
			s += " " + q.AGroup.text()
		}
		if q.ACmp != nil {
			s += " acmp"
		}
	}
	if q.Top != "" {
		s = q.Top + "(" + s + ")"
	}
	return s
}

// ---------------------------------------------------------------------------------------------------------------
// Database model
// ---------------------------------------------------------------------------------------------------------------

type Stream struct {
	Labels map[string]string `json:"labels"`
	Type   int               `json:"type"` // samples/time_series type column: 1 = logs, 2 = metrics, 0 = both
	FP     uint64            `json:"fp"`
}

type Entry struct {
	Stream int    `json:"stream"`
	TS     int64  `json:"ts"` // ns since T0
	Line   string `json:"line"`
}

type Database struct {
	Name    string   `json:"name"`
	Streams []Stream `json:"streams"`
	Entries []Entry  `json:"entries"`
	// DaysFromSamples: time_series rows carry the UTC day of the stream's samples (L8); otherwise every stream is
	// registered on the day of T0
	DaysFromSamples bool `json:"days_from_samples,omitempty"`

	ch   *chsim.DB
	once sync.Once
}

func (d *Database) chdb() *chsim.DB {
	d.once.Do(d.build)
	return d.ch
}

// T0 = 2024-03-01T10:00:00Z in ns.  A multiple of 5 s, 10 s, 15 s, 20 s, 30 s, 1 m and 1 h, so bucket arithmetic
// relative to T0 equals bucket arithmetic on absolute timestamps.
const T0 = int64(1709287200000000000)
const day = "2024-03-01"
const sec = int64(1000000000)

// build registers the model as qryn tables (rows exactly as the writer stores them: labels as a JSON document with
// sorted keys, type on both tables) and derives time_series_gin and metrics_15s with the materialized views
// transcribed from ctrl/qryn/sql/log.sql.
func (d *Database) build() {
	db := chsim.NewDB()
	var ts, samples [][]chsim.Value
	if d.DaysFromSamples {
		// the writer registers a series under the UTC day of its samples: one time_series row per (stream, UTC day)
		seen := map[string]bool{}
		for _, e := range d.Entries {
			s := d.Streams[e.Stream]
			dd := time.Unix(0, T0+e.TS).UTC().Format("2006-01-02")
			k := fmt.Sprintf("%d|%s", e.Stream, dd)
			if seen[k] {
				continue
			}
			seen[k] = true
			ts = append(ts, []chsim.Value{dd, s.FP, chsim.LabelsJSON(s.Labels), "", s.Type})
		}
	} else {
		for _, s := range d.Streams {
			ts = append(ts, []chsim.Value{day, s.FP, chsim.LabelsJSON(s.Labels), "", s.Type})
		}
	}
	for _, e := range d.Entries {
		s := d.Streams[e.Stream]
		samples = append(samples, []chsim.Value{s.FP, T0 + e.TS, float64(0), e.Line, s.Type})
	}
	db.AddQrynTable("time_series", ts)
	db.AddQrynTable("samples_v3", samples)
	for _, v := range []string{"time_series_gin_view", "metrics_15s_mv"} {
		if err := db.Materialize(v); err != nil {
			panic(err)
		}
	}
	for _, n := range []string{"time_series", "samples_v3", "time_series_gin", "metrics_15s"} {
		db.Alias(n, n+"_dist")
	}
	d.ch = db
}

func canon(l map[string]string) string {
	keys := make([]string, 0, len(l))
	for k, v := range l {
		if v != "" {
			keys = append(keys, k)
		}
	}
	sort.Strings(keys)
	var b strings.Builder
	b.WriteString("{")
	for i, k := range keys {
		if i > 0 {
			b.WriteString(",")
		}
		b.WriteString(k + "=" + strconv.Quote(l[k]))
	}
	b.WriteString("}")
	return b.String()
}
