package main

import (
	"encoding/json"
	"fmt"
	"math"
	"regexp"
	"regexp/syntax"
	"sort"
	"strconv"
	"strings"
)

// The reference evaluator: the property statement executed directly on the database model.
//
//  1. streams are selected by the matchers (type logs or both), their entries inside the query window widened to
//     whole range buckets [floor(from/range)*range, floor(to/range)*range + range) go through the pipeline stages in
//     the order written (line filter, label filter, json extraction, unwrap);
//  2. entries are bucketed by floor(ts/range)*range per series; the range function is applied;
//  3. then, as written: comparison, vector aggregation with by/without, comparison, topk/bottomk, comparison.
//
// Rules switches a *documented deviant rule* on (DESIGN §7): used only to explain a disagreement.
type Rules struct {
	ShortcutDropsStages   bool // D11: rate/count_over_time with range >= 15 s and only label filters / empty line filters: stages ignored
	BytesOverTimeDivRange bool // D16
	VectorAggKeepsSeries  bool // D17: vector aggregation without by/without groups by the input series
	UnwrapLabelKept       bool // unwrapped label stays part of the series identity
	UnwrapInvalidAsZero   bool // D50: missing / non-numeric unwrap label counts as a sample of value 0
	StepFixFirstBucket    bool // step > range: StepFixPlanner keeps, per epoch-aligned step bucket, the earliest range bucket and relabels it to the step bucket start, FixPeriodPlanner then fills from the grid point before that start
	Shortcut15sGrid       bool // shortcut with a range that is not a multiple of 15 s: entries are attributed by their 15 s bucket start
	CmpThreshold6Decimals bool // comparison threshold rendered with %f (6 decimals)
	NegRegexLineLost      bool // D12 (C07): `!~` with a regex that is not a plain literal is rendered like `|~`
	TypeIgnored           bool // (mutant aid, never listed) metric-type samples counted
}

type refPoint struct {
	V    float64
	Alt  []float64 // further acceptable values (first/last_over_time with equal timestamps)
	Wild bool      // value not determined by the statement (ambiguity consumed by a later operator): anything goes, may be absent
	Opt  bool      // topk/bottomk tie at the cut: may be absent
}

type refSeries struct {
	Labels  string
	Buckets map[int64]*refPoint // bucket start (ns since T0) → value
}

type Ref struct {
	Series map[string]*refSeries
	// topk/bottomk ties: bucket → how many of the Opt series must be present, and their common value
	TieNeed map[int64]int
	RangeNs int64
}

type sample struct {
	ts int64
	v  float64
}

func lineMatch(op, val, line string) (bool, error) {
	switch op {
	case "|=":
		return strings.Contains(line, val), nil
	case "!=":
		return !strings.Contains(line, val), nil
	case "|~", "!~":
		re, err := regexp.Compile("(?s)" + val)
		if err != nil {
			return false, err
		}
		return re.MatchString(line) == (op == "|~"), nil
	}
	return false, fmt.Errorf("line op %q", op)
}

func regexIsLiteral(re string) bool {
	exp, err := syntax.Parse(re, syntax.PerlX)
	return err == nil && exp.Op == syntax.OpLiteral && exp.Flags&^(syntax.PerlX|syntax.FoldCase) == 0
}

func labelMatch(s Stage, labels map[string]string) (bool, error) {
	v := labels[s.Label]
	if s.Num {
		f, err := strconv.ParseFloat(v, 64)
		if err != nil {
			return false, nil // absent or non-numeric label fails a numeric comparison
		}
		t, _ := strconv.ParseFloat(s.Val, 64)
		return cmpFloat(s.Op, f, t), nil
	}
	switch s.Op {
	case "=":
		return v == s.Val, nil
	case "!=":
		return v != s.Val, nil
	case "=~", "!~":
		re, err := regexp.Compile("(?s)" + s.Val)
		if err != nil {
			return false, err
		}
		return re.MatchString(v) == (s.Op == "=~"), nil
	}
	return false, fmt.Errorf("label op %q", s.Op)
}

func cmpFloat(op string, a, b float64) bool {
	switch op {
	case ">":
		return a > b
	case ">=":
		return a >= b
	case "<":
		return a < b
	case "<=":
		return a <= b
	case "==":
		return a == b
	case "!=":
		return a != b
	}
	panic("cmp op " + op)
}

func matcherMatch(m Matcher, labels map[string]string) bool {
	v := labels[m.Label]
	switch m.Op {
	case "=":
		return v == m.Val
	case "!=":
		return v != m.Val
	case "=~", "!~":
		re := regexp.MustCompile("^(?:" + m.Val + ")$")
		return re.MatchString(v) == (m.Op == "=~")
	}
	panic("matcher op")
}

// jsonPath extracts a top-level key: string → its value, number/bool → literal text, object/array → JSON text,
// missing / null / not an object → "" (no label).
func jsonTop(line, key string) string {
	var m map[string]json.RawMessage
	if json.Unmarshal([]byte(line), &m) != nil {
		return ""
	}
	raw, ok := m[key]
	if !ok {
		return ""
	}
	var s string
	if json.Unmarshal(raw, &s) == nil {
		return s
	}
	if string(raw) == "null" {
		return ""
	}
	return string(raw)
}

func cloneLabels(l map[string]string) map[string]string {
	o := make(map[string]string, len(l)+1)
	for k, v := range l {
		o[k] = v
	}
	return o
}

func applyGrouping(g *Grouping, l map[string]string) map[string]string {
	o := map[string]string{}
	if g.By {
		for _, k := range g.Labels {
			if v, ok := l[k]; ok {
				o[k] = v
			}
		}
		return o
	}
	for k, v := range l {
		drop := false
		for _, x := range g.Labels {
			if x == k {
				drop = true
			}
		}
		if !drop {
			o[k] = v
		}
	}
	return o
}

func shortcutApplies(q *Query) bool {
	if q.Fn != "rate" && q.Fn != "count_over_time" {
		return false
	}
	if q.RangeS < 15 {
		return false
	}
	for _, s := range q.Stages {
		switch s.Kind {
		case "label":
		case "line":
			if s.Val != "" {
				return false
			}
		default:
			return false
		}
	}
	return true
}

type vec map[string]map[int64]*refPoint // series → bucket → point

func floorDiv(a, b int64) int64 {
	q := a / b
	if a%b != 0 && (a < 0) != (b < 0) {
		q--
	}
	return q
}

// Eval evaluates q on d for the window of p.
func (rules Rules) Eval(d *Database, q *Query, p Params) (*Ref, error) {
	rng := int64(q.RangeS) * sec
	from, to := p.FromS*sec, p.ToS*sec
	wFrom := floorDiv(from, rng) * rng
	wTo := floorDiv(to, rng)*rng + rng
	unwrap := q.unwrapLabel()
	stages := q.Stages
	shortcut := shortcutApplies(q)
	if rules.ShortcutDropsStages && shortcut {
		stages = nil
	}
	quantFn := q.Fn == "quantile_over_time"

	// 1+2: per series, per bucket, the samples
	type seriesAcc struct {
		labels  map[string]string
		buckets map[int64][]sample
		bytes   map[int64]float64
	}
	acc := map[string]*seriesAcc{}
	for _, e := range d.Entries {
		st := d.Streams[e.Stream]
		if st.Type == 2 && !rules.TypeIgnored {
			continue
		}
		ok := true
		for _, m := range q.Matchers {
			if !matcherMatch(m, st.Labels) {
				ok = false
			}
		}
		if !ok {
			continue
		}
		ts := e.TS
		grid15 := rules.Shortcut15sGrid && shortcut
		if grid15 {
			// the shortcut reads 15 s pre-aggregates whose START lies in [floor(wFrom/15s)*15s, wTo)
			b15 := floorDiv(ts, 15*sec) * 15 * sec
			if b15 < floorDiv(wFrom, 15*sec)*15*sec || b15 >= wTo {
				continue
			}
		} else if ts < wFrom || ts >= wTo {
			continue
		}
		labels := cloneLabels(st.Labels)
		keep := true
		val := 0.0
		hasVal := false
		for _, s := range stages {
			switch s.Kind {
			case "line":
				op := s.Op
				if rules.NegRegexLineLost && op == "!~" && !regexIsLiteral(s.Val) {
					op = "|~"
				}
				m, err := lineMatch(op, s.Val, e.Line)
				if err != nil {
					return nil, err
				}
				keep = keep && m
			case "label":
				m, err := labelMatch(s, labels)
				if err != nil {
					return nil, err
				}
				keep = keep && m
			case "logfmt", "line_format":
				// L9 only, always under a vector aggregation grouped by stream labels the lines never mention, and
				// never with a bytes function: these stages then neither remove an entry nor change its group
			case "json":
				if s.Label == "" {
					var m map[string]json.RawMessage
					if json.Unmarshal([]byte(e.Line), &m) == nil {
						for k := range m {
							if v := jsonTop(e.Line, k); v != "" {
								if _, clash := st.Labels[k]; !clash {
									labels[k] = v
								}
							}
						}
					}
					break
				}
				if v := jsonTop(e.Line, s.Val); v != "" {
					labels[s.Label] = v
				} else {
					delete(labels, s.Label)
				}
			case "regexp":
				re, err := regexp.Compile(s.Val)
				if err != nil {
					return nil, err
				}
				if m := re.FindStringSubmatch(e.Line); m != nil {
					for i, n := range re.SubexpNames() {
						if n != "" && m[i] != "" {
							labels[n] = m[i]
						}
					}
				}
			case "unwrap":
				f, err := strconv.ParseFloat(labels[s.Label], 64)
				if err != nil || labels[s.Label] == "" {
					if rules.UnwrapInvalidAsZero {
						f = 0
					} else {
						keep = false
					}
				}
				val, hasVal = f, true
			default:
				return nil, fmt.Errorf("oracle: stage %q not modelled", s.Kind)
			}
			if !keep {
				break
			}
		}
		if !keep {
			continue
		}
		if unwrap != "" {
			if !hasVal {
				return nil, fmt.Errorf("oracle: unwrap stage missing")
			}
			if !rules.UnwrapLabelKept {
				delete(labels, unwrap)
			}
		}
		if q.RGroup != nil {
			labels = applyGrouping(q.RGroup, labels)
		}
		key := canon(labels)
		a := acc[key]
		if a == nil {
			a = &seriesAcc{labels: labels, buckets: map[int64][]sample{}, bytes: map[int64]float64{}}
			acc[key] = a
		}
		b := floorDiv(ts, rng) * rng
		if grid15 {
			// ... and attributes each pre-aggregate to the range bucket of its start
			b = floorDiv(floorDiv(ts, 15*sec)*15*sec, rng) * rng
		}
		a.buckets[b] = append(a.buckets[b], sample{ts, val})
		a.bytes[b] += float64(len(e.Line))
	}

	rangeSeconds := float64(rng/1000000) / 1000
	cur := vec{}
	curLabels := map[string]map[string]string{}
	for key, a := range acc {
		pts := map[int64]*refPoint{}
		for b, ss := range a.buckets {
			sort.SliceStable(ss, func(i, j int) bool { return ss[i].ts < ss[j].ts })
			n := float64(len(ss))
			sum := 0.0
			mn, mx := math.Inf(1), math.Inf(-1)
			for _, s := range ss {
				sum += s.v
				mn = math.Min(mn, s.v)
				mx = math.Max(mx, s.v)
			}
			pt := &refPoint{}
			switch {
			case unwrap == "" && q.Fn == "rate":
				pt.V = n / rangeSeconds
			case unwrap == "" && q.Fn == "count_over_time":
				pt.V = n
			case unwrap == "" && q.Fn == "bytes_rate":
				pt.V = a.bytes[b] / rangeSeconds
			case unwrap == "" && q.Fn == "bytes_over_time":
				pt.V = a.bytes[b]
				if rules.BytesOverTimeDivRange {
					pt.V = a.bytes[b] / rangeSeconds
				}
			case unwrap != "" && q.Fn == "rate":
				pt.V = sum / rangeSeconds
			case unwrap != "" && q.Fn == "sum_over_time":
				pt.V = sum
			case unwrap != "" && q.Fn == "avg_over_time":
				pt.V = sum / n
			case unwrap != "" && q.Fn == "min_over_time":
				pt.V = mn
			case unwrap != "" && q.Fn == "max_over_time":
				pt.V = mx
			case unwrap != "" && (q.Fn == "first_over_time" || q.Fn == "last_over_time"):
				t := ss[0].ts
				if q.Fn == "last_over_time" {
					t = ss[len(ss)-1].ts
				}
				first := true
				for _, s := range ss {
					if s.ts != t {
						continue
					}
					if first {
						pt.V, first = s.v, false
					} else if s.v != pt.V {
						pt.Alt = append(pt.Alt, s.v)
					}
				}
			case unwrap != "" && (q.Fn == "stdvar_over_time" || q.Fn == "stddev_over_time"):
				mean := sum / n
				v := 0.0
				for _, s := range ss {
					v += (s.v - mean) * (s.v - mean)
				}
				v /= n
				if q.Fn == "stddev_over_time" {
					v = math.Sqrt(v)
				}
				pt.V = v
			case unwrap != "" && quantFn:
				phi, _ := strconv.ParseFloat(q.Quantile, 64)
				vals := make([]float64, len(ss))
				for i, s := range ss {
					vals[i] = s.v
				}
				sort.Float64s(vals)
				rank := phi * (n - 1)
				lo := math.Floor(rank)
				hi := math.Min(lo+1, n-1)
				pt.V = vals[int(lo)] + (vals[int(hi)]-vals[int(lo)])*(rank-lo)
			default:
				return nil, fmt.Errorf("oracle: range function %s (unwrap=%q) not modelled", q.Fn, unwrap)
			}
			pts[b] = pt
		}
		cur[key] = pts
		curLabels[key] = a.labels
	}

	applyCmp := func(c *Cmp) {
		if c == nil {
			return
		}
		thr := c.num()
		if rules.CmpThreshold6Decimals {
			thr, _ = strconv.ParseFloat(fmt.Sprintf("%f", thr), 64)
		}
		for key, pts := range cur {
			for b, pt := range pts {
				if pt.Wild {
					continue
				}
				res := cmpFloat(c.Op, pt.V, thr)
				amb := false
				for _, a := range pt.Alt {
					if cmpFloat(c.Op, a, thr) != res {
						amb = true
					}
				}
				if amb {
					pt.Wild = true
					continue
				}
				if !res {
					delete(pts, b)
				}
			}
			if len(pts) == 0 {
				delete(cur, key)
			}
		}
	}
	applyCmp(q.RCmp)

	if q.Agg != "" {
		type grp struct {
			labels map[string]string
			vals   map[int64][]float64
			wild   map[int64]bool
		}
		groups := map[string]*grp{}
		for key, pts := range cur {
			var gl map[string]string
			switch {
			case q.AGroup != nil:
				gl = applyGrouping(q.AGroup, curLabels[key])
			case rules.VectorAggKeepsSeries:
				gl = curLabels[key]
			default:
				gl = map[string]string{}
			}
			gk := canon(gl)
			g := groups[gk]
			if g == nil {
				g = &grp{labels: gl, vals: map[int64][]float64{}, wild: map[int64]bool{}}
				groups[gk] = g
			}
			for b, pt := range pts {
				if pt.Wild || len(pt.Alt) > 0 {
					g.wild[b] = true
				}
				g.vals[b] = append(g.vals[b], pt.V)
			}
		}
		cur = vec{}
		curLabels = map[string]map[string]string{}
		for gk, g := range groups {
			pts := map[int64]*refPoint{}
			for b, vs := range g.vals {
				if g.wild[b] {
					pts[b] = &refPoint{Wild: true}
					continue
				}
				sort.Float64s(vs) // summation order must not depend on map iteration
				n := float64(len(vs))
				sum := 0.0
				for _, v := range vs {
					sum += v
				}
				pt := &refPoint{}
				switch q.Agg {
				case "sum":
					pt.V = sum
				case "min":
					pt.V = vs[0]
				case "max":
					pt.V = vs[len(vs)-1]
				case "avg":
					pt.V = sum / n
				case "count":
					pt.V = n
				case "stddev", "stdvar":
					mean := sum / n
					v := 0.0
					for _, x := range vs {
						v += (x - mean) * (x - mean)
					}
					v /= n
					if q.Agg == "stddev" {
						v = math.Sqrt(v)
					}
					pt.V = v
				default:
					return nil, fmt.Errorf("oracle: vector aggregation %s not modelled", q.Agg)
				}
				pts[b] = pt
			}
			cur[gk] = pts
			curLabels[gk] = g.labels
		}
		applyCmp(q.ACmp)
	}

	ref := &Ref{Series: map[string]*refSeries{}, TieNeed: map[int64]int{}, RangeNs: rng}
	if q.Top != "" {
		type item struct {
			key string
			pt  *refPoint
		}
		byBucket := map[int64][]item{}
		for key, pts := range cur {
			for b, pt := range pts {
				byBucket[b] = append(byBucket[b], item{key, pt})
			}
		}
		next := vec{}
		for b, items := range byBucket {
			wild := false
			for _, it := range items {
				if it.pt.Wild || len(it.pt.Alt) > 0 {
					wild = true
				}
			}
			if wild {
				for _, it := range items {
					if next[it.key] == nil {
						next[it.key] = map[int64]*refPoint{}
					}
					next[it.key][b] = &refPoint{Wild: true}
				}
				continue
			}
			sort.SliceStable(items, func(i, j int) bool {
				if items[i].pt.V != items[j].pt.V {
					if q.Top == "topk" {
						return items[i].pt.V > items[j].pt.V
					}
					return items[i].pt.V < items[j].pt.V
				}
				return items[i].key < items[j].key
			})
			k := q.K
			if k >= len(items) {
				for _, it := range items {
					if next[it.key] == nil {
						next[it.key] = map[int64]*refPoint{}
					}
					next[it.key][b] = &refPoint{V: it.pt.V}
				}
				continue
			}
			if k <= 0 {
				continue
			}
			cut := items[k-1].pt.V
			tiedAfter := items[k].pt.V == cut
			better := 0
			for _, it := range items {
				if it.pt.V != cut && ((q.Top == "topk" && it.pt.V > cut) || (q.Top == "bottomk" && it.pt.V < cut)) {
					better++
				}
			}
			for _, it := range items {
				isBetter := it.pt.V != cut && ((q.Top == "topk" && it.pt.V > cut) || (q.Top == "bottomk" && it.pt.V < cut))
				switch {
				case isBetter:
				case it.pt.V == cut && !tiedAfter:
				case it.pt.V == cut && tiedAfter:
				default:
					continue
				}
				if next[it.key] == nil {
					next[it.key] = map[int64]*refPoint{}
				}
				np := &refPoint{V: it.pt.V}
				if it.pt.V == cut && tiedAfter {
					np.Opt = true
				}
				next[it.key][b] = np
			}
			if tiedAfter {
				ref.TieNeed[b] = k - better
			}
		}
		cur = next
		applyCmpKeepTies := q.TCmp
		if applyCmpKeepTies != nil {
			// a comparison after a tie at the cut keeps or removes all tied candidates alike (same value)
			thr := q.TCmp.num()
			for b := range ref.TieNeed {
				for _, pts := range cur {
					if pt := pts[b]; pt != nil && pt.Opt && !cmpFloat(q.TCmp.Op, pt.V, thr) {
						delete(ref.TieNeed, b)
					}
				}
			}
			applyCmp(q.TCmp)
		}
	}
	for key, pts := range cur {
		if len(pts) == 0 {
			continue
		}
		ref.Series[key] = &refSeries{Labels: key, Buckets: pts}
	}

	if stepNs := p.StepMs * 1000000; rules.StepFixFirstBucket && stepNs > rng {
		for _, s := range ref.Series {
			nb := map[int64]*refPoint{}
			var bs []int64
			for b := range s.Buckets {
				bs = append(bs, b)
			}
			sort.Slice(bs, func(i, j int) bool { return bs[i] < bs[j] })
			for _, b := range bs {
				sb := floorDiv(T0+b, stepNs)*stepNs - T0
				// FixPeriodPlanner reads the relabelled timestamp as the range bucket floor(sb/range)*range
				sb = floorDiv(T0+sb, rng)*rng - T0
				if _, ok := nb[sb]; !ok {
					nb[sb] = s.Buckets[b]
				}
			}
			s.Buckets = nb
		}
		ref.TieNeed = map[int64]int{}
	}
	return ref, nil
}

func approxEq(a, b float64) bool {
	if a == b {
		return true
	}
	d := math.Abs(a - b)
	m := math.Max(math.Abs(a), math.Abs(b))
	return d <= 1e-9*m || d < 1e-12
}

func (pt *refPoint) accepts(v float64) bool {
	if pt.Wild {
		return true
	}
	if approxEq(pt.V, v) {
		return true
	}
	for _, a := range pt.Alt {
		if approxEq(a, v) {
			return true
		}
	}
	return false
}

// compare checks the implementation's points against the reference under the statement-level step rule:
//
//	grid   every point lies on from + i*step <= to, at most one point per (series, grid point);
//	sound  every point (L, t, v): L is a reference series and v is the value of a bucket b of L with
//	       b - step < t <= b + range (closed window, plus the < step shift an unaligned `from` causes);
//	there  every non-zero bucket b of L is reported with its own value at every grid point t with
//	       b <= t <= b + range - step (grid points whose whole step lies inside the bucket);
//	exist  at a grid point in the last, partial step of a non-zero bucket some point of L exists (sound => value of
//	       this or the next bucket);
//	first  step > range and from on the epoch's step grid: a non-zero bucket that starts at a grid point is reported there
//	       with its own value;
//	ties   topk/bottomk: at grid points of the `there` kind exactly the needed number of tied candidates appears.
//
// Values equal to 0 may be absent (ZeroEaterPlanner; the statement does not distinguish 0 from no value).
// It returns "" or a description; kind names the first failed rule.
func compare(ref *Ref, impl []Point, p Params) (kind, diff string) {
	rng := ref.RangeNs
	step := p.StepMs * 1000000
	from, to := p.FromS*sec, p.ToS*sec
	type key struct {
		l string
		t int64
	}
	seen := map[key]float64{}
	fpOf := map[string]uint64{}
	for _, pt := range impl {
		if pt.T < from || pt.T > to || (pt.T-from)%step != 0 {
			return "grid", fmt.Sprintf("point %s t=%s is not on the step grid", pt.Labels, tsText(pt.T))
		}
		k := key{pt.Labels, pt.T}
		if _, dup := seen[k]; dup {
			return "duplicate_series", fmt.Sprintf("two points for series %s at t=%s (two series with the same label set)", pt.Labels, tsText(pt.T))
		}
		seen[k] = pt.V
		if fp, ok := fpOf[pt.Labels]; ok && fp != pt.FP {
			return "duplicate_series", fmt.Sprintf("series %s is reported under two fingerprints", pt.Labels)
		}
		fpOf[pt.Labels] = pt.FP
		if pt.V == 0 {
			return "zero", fmt.Sprintf("point %s t=%s has value 0", pt.Labels, tsText(pt.T))
		}
		s := ref.Series[pt.Labels]
		if s == nil {
			return "series", fmt.Sprintf("series %s is not a series of the reference result (reference: %s)", pt.Labels, ref.seriesList())
		}
		ok := false
		for b, rp := range s.Buckets {
			if pt.T > b-step && pt.T <= b+rng && rp.accepts(pt.V) {
				ok = true
				break
			}
		}
		if !ok {
			return "value", fmt.Sprintf("series %s t=%s value %g is not the value of any bucket whose window reaches t (reference buckets: %s)",
				pt.Labels, tsText(pt.T), pt.V, s.bucketText())
		}
	}
	tieCount := map[key]int{} // (bucket as text, t) → tied candidates seen
	var keys []string
	for k := range ref.Series {
		keys = append(keys, k)
	}
	sort.Strings(keys)
	for _, l := range keys {
		s := ref.Series[l]
		var bs []int64
		for b := range s.Buckets {
			bs = append(bs, b)
		}
		sort.Slice(bs, func(i, j int) bool { return bs[i] < bs[j] })
		for _, b := range bs {
			rp := s.Buckets[b]
			if rp.Wild || rp.V == 0 || containsZero(rp.Alt) {
				continue // a point of value 0 may be absent (and the previous bucket's value may show at t == b)
			}
			// grid points inside [b, b+range)
			i0 := int64(0)
			if b > from {
				i0 = (b - from + step - 1) / step
			}
			for t := from + i0*step; t < b+rng && t <= to; t += step {
				if t < b {
					continue
				}
				v, have := seen[key{l, t}]
				whole := t+step <= b+rng
				if rp.Opt {
					// at t == b a tied series that lost here but was reported for the previous bucket may still show its
					// previous value (closed window): count only where that cannot happen
					if whole && have && rp.accepts(v) && (t > b || s.Buckets[b-rng] == nil) {
						tieCount[key{strconv.FormatInt(b, 10), t}]++
					}
					continue
				}
				if whole {
					if !have {
						return "missing", fmt.Sprintf("series %s: bucket %s (value %g) is not reported at grid point t=%s inside it", l, tsText(b), rp.V, tsText(t))
					}
					if !rp.accepts(v) {
						return "value", fmt.Sprintf("series %s t=%s: value %g, bucket %s has %g", l, tsText(t), v, tsText(b), rp.V)
					}
				} else if !have {
					// last partial step of the bucket: this bucket's or the next bucket's value must be there, unless the
					// next bucket exists with value 0 (its zero hides the point)
					if nx := s.Buckets[b+rng]; nx != nil && (nx.Wild || nx.V == 0 || nx.Opt) {
						continue
					}
					return "missing", fmt.Sprintf("series %s: no point at grid point t=%s inside bucket %s (value %g)", l, tsText(t), tsText(b), rp.V)
				}
			}
		}
	}
	// step > range with `from` on the step grid of the epoch: a grid point is the start of the first range bucket of its
	// step; if that bucket has a non-zero value the point must carry it (a later bucket of the step must not replace it)
	if step > rng && floorDiv(T0+from, step)*step == T0+from && rng > 0 && step%rng == 0 {
		for _, l := range keys {
			s := ref.Series[l]
			for t := from; t <= to; t += step {
				rp := s.Buckets[t]
				if rp == nil || rp.Wild || rp.Opt || rp.V == 0 || containsZero(rp.Alt) {
					continue
				}
				v, have := seen[key{l, t}]
				if !have {
					return "missing", fmt.Sprintf("series %s: bucket %s (value %g) starts at grid point t=%s but is not reported there", l, tsText(t), rp.V, tsText(t))
				}
				if !rp.accepts(v) {
					return "value", fmt.Sprintf("series %s t=%s: value %g, but the bucket starting at t has %g", l, tsText(t), v, rp.V)
				}
			}
		}
	}
	// buckets where some tied candidate also has a value in the previous bucket: the count at t == b is not decidable
	tiePrev := map[int64]bool{}
	for _, s := range ref.Series {
		for b, rp := range s.Buckets {
			if rp.Opt && s.Buckets[b-rng] != nil {
				tiePrev[b] = true
			}
		}
	}
	for b, need := range ref.TieNeed {
		i0 := int64(0)
		if b > from {
			i0 = (b - from + step - 1) / step
		}
		for t := from + i0*step; t+step <= b+rng && t <= to; t += step {
			if t < b || (t == b && tiePrev[b]) {
				continue
			}
			if got := tieCount[key{strconv.FormatInt(b, 10), t}]; got != need {
				return "topk_ties", fmt.Sprintf("bucket %s at t=%s: %d of the candidates tied at the cut are reported, k leaves room for exactly %d", tsText(b), tsText(t), got, need)
			}
		}
	}
	return "", ""
}

func containsZero(a []float64) bool {
	for _, x := range a {
		if x == 0 {
			return true
		}
	}
	return false
}

func tsText(ns int64) string {
	if ns%sec == 0 {
		return fmt.Sprintf("%ds", ns/sec)
	}
	neg := ""
	if ns < 0 {
		neg, ns = "-", -ns
	}
	return fmt.Sprintf("%s%d.%09ds", neg, ns/sec, ns%sec)
}

func (r *Ref) seriesList() string {
	var k []string
	for s := range r.Series {
		k = append(k, s)
	}
	sort.Strings(k)
	if len(k) == 0 {
		return "none"
	}
	return strings.Join(k, " ")
}

func (s *refSeries) bucketText() string {
	var bs []int64
	for b := range s.Buckets {
		bs = append(bs, b)
	}
	sort.Slice(bs, func(i, j int) bool { return bs[i] < bs[j] })
	var parts []string
	for _, b := range bs {
		rp := s.Buckets[b]
		x := fmt.Sprintf("%s:%g", tsText(b), rp.V)
		if rp.Wild {
			x = tsText(b) + ":*"
		}
		if rp.Opt {
			x += "?"
		}
		parts = append(parts, x)
	}
	return strings.Join(parts, " ")
}

func (r *Ref) text() string {
	var k []string
	for s := range r.Series {
		k = append(k, s)
	}
	sort.Strings(k)
	var parts []string
	for _, s := range k {
		parts = append(parts, s+" "+r.Series[s].bucketText())
	}
	return strings.Join(parts, "; ")
}

func (r *Ref) nonEmpty() bool {
	for _, s := range r.Series {
		for _, p := range s.Buckets {
			if p.Wild || p.V != 0 {
				return true
			}
		}
	}
	return false
}
