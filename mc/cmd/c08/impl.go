package main

import (
	"context"
	"database/sql"
	"database/sql/driver"
	"errors"
	"fmt"
	"io"
	"sort"
	"sync"
	"sync/atomic"
	"time"

	clcfg "github.com/metrico/cloki-config/config"
	"github.com/metrico/qryn/reader/logql/logql_parser"
	"github.com/metrico/qryn/reader/logql/logql_transpiler_v2"
	"github.com/metrico/qryn/reader/logql/logql_transpiler_v2/shared"
	"github.com/metrico/qryn/reader/model"
	sqlsel "github.com/metrico/qryn/reader/utils/sql_select"
	"github.com/metrico/qryn/reader/utils/tables"

	"verif/mc/chsim"
	"verif/mc/fakesql"
	"verif/mc/fakesql/chbackend"
)

// The implementation side of a case: LogQL text → real parser → real logql_transpiler_v2.Plan (exactly what
// QueryRangeService.prepareOutput calls) → chain[0].Process with a PlannerContext built like prepareOutput builds it
// → FixPeriodPlanner → ZeroEaterPlanner → ClickhouseGetterPlanner, whose CHDb is a database/sql driver (fakesql)
// answering every statement by executing it with chsim on the case's database → points.

type Params struct {
	FromS  int64 `json:"from_s"` // seconds since T0 (the HTTP layer hands nanoseconds, prepareOutput truncates to seconds)
	ToS    int64 `json:"to_s"`
	StepMs int64 `json:"step_ms"` // step in milliseconds
}

type Point struct {
	Labels string  // canonical label set
	FP     uint64  // fingerprint carried by the entry (series identity as the response encoder sees it)
	T      int64   // ns since T0
	V      float64 //
}

type ctxKey struct{}

type caseDB struct {
	db *chsim.DB
	// what the driver saw
	sql      []string
	unsupp   error
	chErr    error
	scanRows int
}

// session is a minimal model.ISqlxDB over database/sql (the production wrapper, dsn.StableSqlxDBWrapper, re-opens
// its pool after every failed query and prints the error; nothing of that matters here).
type session struct{ db *sql.DB }

func (s *session) GetName() string { return "c08" }
func (s *session) QueryCtx(ctx context.Context, q string, args ...any) (*sql.Rows, error) {
	return s.db.QueryContext(ctx, q, args...)
}
func (s *session) ExecCtx(ctx context.Context, q string, args ...any) error {
	_, err := s.db.ExecContext(ctx, q, args...)
	return err
}
func (s *session) Conn(ctx context.Context) (*sql.Conn, error) { return s.db.Conn(ctx) }
func (s *session) Begin() (*sql.Tx, error)                     { return s.db.Begin() }
func (s *session) Close()                                      {}

var _ model.ISqlxDB = (*session)(nil)

var stmtCache sync.Map // sql text → *chsim.Stmt | error

func parseCached(q string) (*chsim.Stmt, error) {
	if c, ok := stmtCache.Load(q); ok {
		switch x := c.(type) {
		case *chsim.Stmt:
			return x, nil
		case error:
			return nil, x
		}
	}
	st, err := chsim.Parse(q)
	if err != nil {
		stmtCache.Store(q, err)
		return nil, err
	}
	stmtCache.Store(q, st)
	return st, nil
}

var (
	theSession     *session
	theSessionOnce sync.Once
)

func getSession() *session {
	theSessionOnce.Do(func() {
		script := fakesql.New(func(ctx context.Context, q string, _ []driver.NamedValue) (*fakesql.Result, error) {
			c, _ := ctx.Value(ctxKey{}).(*caseDB)
			if c == nil {
				return nil, errors.New("c08: query without a case database in its context")
			}
			c.sql = append(c.sql, q)
			st, err := parseCached(q)
			var r *chsim.Result
			if err == nil {
				r, err = c.db.Exec(st)
			}
			if err != nil {
				if errors.Is(err, chsim.ErrUnsupported) {
					c.unsupp = err
				} else {
					c.chErr = err
				}
				return nil, fmt.Errorf("clickhouse [chsim]: %w", err)
			}
			res := fakesql.NewResult(r.Cols...)
			for _, row := range r.Rows {
				vals := make([]driver.Value, len(row))
				for i, v := range row {
					var t *chsim.Type
					if i < len(r.Types) {
						t = r.Types[i]
					}
					vals[i] = chbackend.ToGo(v, t)
				}
				res.Rows = append(res.Rows, vals)
			}
			c.scanRows = len(res.Rows)
			return res, nil
		})
		db := script.OpenDB()
		db.SetMaxIdleConns(64)
		theSession = &session{db: db}
	})
	return theSession
}

var cacheMutations atomic.Int64
var cacheMutText atomic.Value // first query text whose cached AST was edited

var scriptCache sync.Map // text → *logql_parser.LogQLScript | error

var parseMu sync.Mutex

type implResult struct {
	points   []Point
	planErr  error // parser / planner / Process error that is not a database error: "unsupported"
	unsupp   error // chsim ErrUnsupported (harness limit, never a verdict)
	chErr    error // ClickHouse would reject the statement
	procErr  error // error entry delivered through the channel
	sql      []string
	shortcut bool
	harness  error
}

func nodeMap(cluster bool) *model.DataDatabasesMap {
	c := ""
	if cluster {
		c = "c1"
	}
	return &model.DataDatabasesMap{Config: &clcfg.ClokiBaseDataBase{Name: "qryn", Node: "n1", ClusterName: c}}
}

// runImpl executes one case on the real code.
// fresh = the case is a REQUEST: logql_parser.Parse is called for it like the service does per request (no cache of
// the harness in between) and stages evaluated by the in-process engine below the post-processors are allowed.
func runImpl(text string, p Params, db *chsim.DB, cluster bool, fresh bool) (out implResult) {
	defer func() {
		if r := recover(); r != nil {
			out.planErr = fmt.Errorf("panic in planner: %v", r)
		}
	}()
	// The parse result is cached per query text (participle rebuilds its grammar on every Parse: 1.3 ms, more than
	// everything else together).  Plan runs afresh for every case.  For the pure-SQL shapes of this grammar Plan and
	// Process do not modify the script; selfCheckParseCache() verifies that on every query text of the run.
	var script *logql_parser.LogQLScript
	cached := false
	if fresh {
		sc, err := logql_parser.Parse(text)
		if err != nil {
			out.planErr = err
			return
		}
		script = sc
	} else if c, ok := scriptCache.Load(text); ok {
		switch x := c.(type) {
		case *logql_parser.LogQLScript:
			script, cached = x, true
		case error:
			out.planErr = x
			return
		}
	} else {
		sc, err := logql_parser.Parse(text)
		if err != nil {
			scriptCache.Store(text, err)
			out.planErr = err
			return
		}
		scriptCache.Store(text, sc)
		script, cached = sc, true
	}
	if cached {
		// the harness's own parse cache is sound only while planning leaves the AST alone: an AST that renders
		// differently after the case is dropped from the cache and counted
		before := script.String()
		defer func() {
			if script.String() != before {
				scriptCache.Delete(text)
				cacheMutations.Add(1)
				cacheMutText.CompareAndSwap(nil, text)
			}
		}()
	}
	chain, err := logql_transpiler_v2.Plan(script)
	if err != nil {
		out.planErr = err
		return
	}
	if len(chain) != 1 || !chain[0].IsMatrix() {
		out.harness = fmt.Errorf("chain %d matrix %v", len(chain), len(chain) == 1 && chain[0].IsMatrix())
		return
	}
	// the property is about the SQL path: the whole query must have been planned into ClickHouse
	fix, ok := chain[0].(*logql_transpiler_v2.FixPeriodPlanner)
	if !ok {
		out.harness = fmt.Errorf("top processor is %T, not FixPeriodPlanner", chain[0])
		return
	}
	ze, ok := fix.Main.(*logql_transpiler_v2.ZeroEaterPlanner)
	if !ok {
		out.harness = fmt.Errorf("second processor is %T, not ZeroEaterPlanner", fix.Main)
		return
	}
	if _, ok := ze.Main.(*shared.ClickhouseGetterPlanner); !ok && !fresh {
		out.planErr = fmt.Errorf("not planned as pure SQL (%T below the post-processors)", ze.Main)
		return
	}

	cdb := &caseDB{db: db}
	cctx, cancel := context.WithCancel(context.WithValue(context.Background(), ctxKey{}, cdb))
	defer cancel()
	fromNs := T0 + p.FromS*sec
	toNs := T0 + p.ToS*sec
	node := nodeMap(cluster)
	pctx := tables.PopulateTableNames(&shared.PlannerContext{
		IsCluster:  cluster,
		From:       time.Unix(0, fromNs), // in the process's local zone (time.Local), as prepareOutput builds it
		To:         time.Unix(0, toNs),
		OrderASC:   false,
		Limit:      100,
		Ctx:        cctx,
		CancelCtx:  cancel,
		CHDb:       getSession(),
		CHFinalize: true,
		Step:       time.Duration(p.StepMs) * time.Millisecond,
		CHSqlCtx: &sqlsel.Ctx{
			Params: map[string]sqlsel.SQLObject{},
			Result: map[string]sqlsel.SQLObject{},
		},
	}, node)
	ch, err := chain[0].Process(pctx, nil)
	out.sql = cdb.sql
	if err != nil {
		switch {
		case cdb.unsupp != nil:
			out.unsupp = cdb.unsupp
		case cdb.chErr != nil:
			out.chErr = cdb.chErr
		default:
			out.planErr = err
		}
		return
	}
	for entries := range ch {
		for _, e := range entries {
			if e.Err == io.EOF {
				continue
			}
			if e.Err != nil {
				out.procErr = e.Err
				continue
			}
			out.points = append(out.points, Point{Labels: canon(e.Labels), FP: e.Fingerprint, T: e.TimestampNS - T0, V: e.Value})
		}
	}
	out.sql = cdb.sql
	return
}

func sortPoints(ps []Point) {
	sort.SliceStable(ps, func(i, j int) bool {
		if ps[i].Labels != ps[j].Labels {
			return ps[i].Labels < ps[j].Labels
		}
		if ps[i].T != ps[j].T {
			return ps[i].T < ps[j].T
		}
		return ps[i].V < ps[j].V
	})
}
