// probe: run queries given on the command line over JSON upstream entries read from $C09_PROBE (one process per call)
package main

import (
	"encoding/json"
	"fmt"
	"os"

	"verif/mc/c09lib"
)

func main() {
	var c c09lib.Case
	if err := json.Unmarshal([]byte(os.Getenv("C09_PROBE")), &c); err != nil {
		fmt.Println(err)
		os.Exit(2)
	}
	for _, q := range os.Args[1:] {
		c.Query = q
		out := c09lib.Run(c)
		fmt.Println(q, "=> planerr", out.PlanErr, "procerr", out.ProcessErr, "panic", out.Panic)
		for _, b := range out.Batches {
			j, _ := json.Marshal(b)
			fmt.Println("   ", string(j))
		}
	}
}
