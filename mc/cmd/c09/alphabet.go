package main

// alphabet.go: the bounded spaces the check enumerates - stage alphabet, pipelines, aggregation shapes, upstream
// databases, framings of the entry sequence into channel messages.  Everything is a pure function of the tier.

import (
	"fmt"

	ref "verif/mc/logqlref"
)

// T0 is the window start: a multiple of every range used, so that FixPeriodPlanner's alignment of ctx.From
// (From.Truncate(range)) is the identity and the engine's "From + k*range" buckets are floor(ts/range)*range.
const (
	T0      = int64(1_700_000_000) * 1e9
	sec     = int64(1e9)
	rangeNs = 5 * sec
	winNs   = 10 * sec // window [T0, T0+10s): two buckets
)

func cmpS(name, op, val string) *ref.LabelExpr {
	return &ref.LabelExpr{Kind: "cmp", Name: name, Op: op, Str: val}
}
func cmpN(name, op, num string) *ref.LabelExpr {
	var f float64
	fmt.Sscan(num, &f)
	return &ref.LabelExpr{Kind: "cmp", Name: name, Op: op, IsNum: true, Num: f, NumText: num}
}
func and(l, r *ref.LabelExpr) *ref.LabelExpr { return &ref.LabelExpr{Kind: "and", L: l, R: r} }
func or(l, r *ref.LabelExpr) *ref.LabelExpr  { return &ref.LabelExpr{Kind: "or", L: l, R: r} }
func paren(l *ref.LabelExpr) *ref.LabelExpr  { return &ref.LabelExpr{Kind: "paren", L: l} }

// atom is one element of the stage alphabet.  alt, when set, is the same text read with qryn's right-recursive
// and/or grouping (a documented deviant reading used only to explain a disagreement).
type atom struct {
	name  string
	stage ref.Stage
	alt   *ref.Stage
	tier  int // 0 = quick and thorough, 1 = thorough only
}

func lf(f *ref.LabelExpr) ref.Stage { return ref.Stage{Kind: ref.LabelFilter, Filter: f} }

func stageAlphabet() []atom {
	var as []atom
	add := func(name string, s ref.Stage, tier int) { as = append(as, atom{name: name, stage: s, tier: tier}) }
	// line filters
	add("lf_contains", ref.Stage{Kind: ref.LineFilter, Op: "|=", Value: "x"}, 0)
	add("lf_not_contains", ref.Stage{Kind: ref.LineFilter, Op: "!=", Value: "x"}, 0)
	add("lf_re", ref.Stage{Kind: ref.LineFilter, Op: "|~", Value: "b.{1,3}[xy]"}, 0)
	add("lf_not_re", ref.Stage{Kind: ref.LineFilter, Op: "!~", Value: "b.{1,3}[xy]"}, 0)
	add("lf_contains_empty", ref.Stage{Kind: ref.LineFilter, Op: "|=", Value: ""}, 1)
	// label filters: string
	add("f_eq", lf(cmpS("a", "=", "1")), 0)
	add("f_neq", lf(cmpS("a", "!=", "1")), 0)
	add("f_re", lf(cmpS("b", "=~", "x|y")), 0)
	add("f_nre", lf(cmpS("b", "!~", "x|y")), 0)
	add("f_stream_label", lf(cmpS("env", "=", "p")), 0)
	add("f_missing_eq_empty", lf(cmpS("nope", "=", "")), 1)
	add("f_missing_neq_empty", lf(cmpS("nope", "!=", "")), 1)
	// label filters: numeric
	add("f_gt", lf(cmpN("v", ">", "1")), 0)
	add("f_ge", lf(cmpN("v", ">=", "2")), 0)
	add("f_lt", lf(cmpN("v", "<", "3")), 0)
	add("f_le", lf(cmpN("v", "<=", "2")), 1)
	add("f_deq", lf(cmpN("v", "==", "2")), 0)
	add("f_nneq", lf(cmpN("v", "!=", "2")), 0)
	add("f_frac", lf(cmpN("v", ">", "2.4")), 1)
	add("f_single_eq_num", lf(cmpN("v", "=", "2")), 1)
	// and / or / parentheses
	add("f_and", lf(and(cmpS("a", "=", "1"), cmpS("b", "=", "x"))), 0)
	add("f_or", lf(or(cmpS("a", "=", "2"), cmpN("v", ">", "2"))), 0)
	add("f_paren", lf(and(paren(or(cmpS("a", "=", "2"), cmpS("b", "=", "w z"))), cmpN("v", ">", "1"))), 0)
	add("f_or_and", lf(or(cmpS("a", "=", "2"), and(cmpS("b", "=", "x"), cmpN("v", ">", "1")))), 1)
	{
		// `a = "2" and b = "y" or v > 2`: LogQL binds `and` tighter: (a and b) or v;  qryn's grammar is right
		// recursive: a and (b or v).
		a, b, v := cmpS("a", "=", "2"), cmpS("b", "=", "y"), cmpN("v", ">", "2")
		def := lf(or(and(a, b), v))
		alt := lf(and(a, or(b, v)))
		as = append(as, atom{name: "f_and_or", stage: def, alt: &alt, tier: 0})
	}
	// parsers
	add("json", ref.Stage{Kind: ref.JSON}, 0)
	add("json_p1", ref.Stage{Kind: ref.JSON, Params: []ref.Param{{Name: "x", Expr: "a"}}}, 0)
	add("json_p2", ref.Stage{Kind: ref.JSON, Params: []ref.Param{{Name: "x", Expr: "n.k"}, {Name: "y", Expr: "arr[1]"}}}, 0)
	add("json_pobj", ref.Stage{Kind: ref.JSON, Params: []ref.Param{{Name: "o", Expr: "n"}}}, 1)
	add("logfmt", ref.Stage{Kind: ref.Logfmt}, 0)
	add("logfmt_p", ref.Stage{Kind: ref.Logfmt, Params: []ref.Param{{Name: "x", Expr: "a"}}}, 1)
	// label_format
	add("fmt_const", ref.Stage{Kind: ref.LabelFormat, Formats: []ref.LabelFmt{{Dst: "z", Const: "k", IsConst: true}}}, 0)
	add("fmt_rename", ref.Stage{Kind: ref.LabelFormat, Formats: []ref.LabelFmt{{Dst: "z", Src: "a"}}}, 0)
	add("fmt_rename_over", ref.Stage{Kind: ref.LabelFormat, Formats: []ref.LabelFmt{{Dst: "a", Src: "b"}}}, 0)
	add("fmt_multi", ref.Stage{Kind: ref.LabelFormat, Formats: []ref.LabelFmt{{Dst: "y", Src: "env"},
		{Dst: "a", Const: "1", IsConst: true}}}, 1)
	// line_format
	add("line_fields", ref.Stage{Kind: ref.LineFormat, Value: "{{.a}}-{{.b}}"}, 0)
	add("line_text", ref.Stage{Kind: ref.LineFormat, Value: "x y"}, 0)
	add("line_json", ref.Stage{Kind: ref.LineFormat, Value: `{"a":"{{.env}}","v":"2"}`}, 1)
	// drop
	add("drop_a", ref.Stage{Kind: ref.Drop, Drops: []ref.DropParam{{Name: "a"}}}, 0)
	add("drop_a_val", ref.Stage{Kind: ref.Drop, Drops: []ref.DropParam{{Name: "a", Value: "1", HasValue: true}}}, 0)
	add("drop_env", ref.Stage{Kind: ref.Drop, Drops: []ref.DropParam{{Name: "env"}}}, 0)
	add("drop_two", ref.Stage{Kind: ref.Drop, Drops: []ref.DropParam{{Name: "a"}, {Name: "b", Value: "x", HasValue: true}}}, 1)
	return as
}

// heads: the real Plan() hands the in-process engine a pipeline that starts at the first `json` (without
// parameters), `logfmt` or `line_format` stage (GetBreakpoint).
func headAtoms() []atom {
	return []atom{
		{name: "json", stage: ref.Stage{Kind: ref.JSON}},
		{name: "logfmt", stage: ref.Stage{Kind: ref.Logfmt}},
		{name: "line_format", stage: ref.Stage{Kind: ref.LineFormat, Value: "{{.env}} b=x"}},
	}
}

var selector = []ref.Matcher{{Name: "app", Op: "=", Value: "x"}}

// pipeline = head + tail atoms.
type pipeline struct {
	names  []string
	stages []ref.Stage
	alts   []*ref.Stage // per stage: deviant reading or nil
	family string       // "json" | "logfmt": which database families apply
}

func (p *pipeline) withAlt() (ref.LogQuery, bool) {
	has := false
	st := make([]ref.Stage, len(p.stages))
	for i := range p.stages {
		st[i] = p.stages[i]
		if p.alts[i] != nil {
			st[i] = *p.alts[i]
			has = true
		}
	}
	return ref.LogQuery{Matchers: selector, Stages: st}, has
}

// pipelines enumerates head + up to maxTail tail stages over the alphabet (tier filter applied to the atoms).
func pipelines(maxTail, tier int) []pipeline {
	var alpha []atom
	for _, a := range stageAlphabet() {
		if a.tier <= tier {
			alpha = append(alpha, a)
		}
	}
	var out []pipeline
	for _, h := range headAtoms() {
		fam := "json"
		if h.name == "logfmt" {
			fam = "logfmt"
		}
		var rec func(p pipeline, depth int)
		rec = func(p pipeline, depth int) {
			out = append(out, p)
			if depth == maxTail {
				return
			}
			for _, a := range alpha {
				np := pipeline{family: p.family}
				np.names = append(append([]string{}, p.names...), a.name)
				np.stages = append(append([]ref.Stage{}, p.stages...), a.stage)
				np.alts = append(append([]*ref.Stage{}, p.alts...), a.alt)
				rec(np, depth+1)
			}
		}
		rec(pipeline{names: []string{h.name}, stages: []ref.Stage{h.stage}, alts: []*ref.Stage{nil}, family: fam}, 0)
	}
	return out
}

// ---------------------------------------------------------------------------------------------------------------
// aggregation shapes

type shape struct {
	name    string
	rangeFn string
	unwrap  bool
	rgroup  *ref.Grouping // grouping on the range aggregation (unwrapped functions)
	vecFn   string        // "" = none
	vgroup  *ref.Grouping
	cmp     *ref.Comparison
}

func groupings() []*ref.Grouping {
	return []*ref.Grouping{
		nil,
		{Labels: []string{"b"}},
		{Labels: []string{"b"}, Without: true},
		{Labels: []string{"env", "a"}, Suffix: true},
	}
}

func gname(g *ref.Grouping) string {
	if g == nil {
		return "nogroup"
	}
	n := "by"
	if g.Without {
		n = "without"
	}
	if g.Suffix {
		n += "_suffix"
	}
	return fmt.Sprintf("%s_%d", n, len(g.Labels))
}

func shapes(tier int) []shape {
	logFns := []string{"rate", "count_over_time", "bytes_rate", "bytes_over_time"}
	uwFns := []string{"rate", "sum_over_time", "avg_over_time", "min_over_time", "max_over_time", "first_over_time",
		"last_over_time"}
	// (the grammar of comparison literals is Integer "."? Integer*: a negative threshold cannot be written)
	cmps := []*ref.Comparison{nil, {Op: ">", Val: 1, ValText: "1"}, {Op: "<", Val: 0, ValText: "0"}}
	if tier > 0 {
		cmps = append(cmps, &ref.Comparison{Op: "==", Val: 0, ValText: "0"}, &ref.Comparison{Op: "<=", Val: 2.5, ValText: "2.5"})
	}
	var out []shape
	addAll := func(fn string, uw bool) {
		pre := fn
		if uw {
			pre = "unwrap_" + fn
		}
		for _, c := range cmps {
			cn := "nocmp"
			if c != nil {
				cn = "cmp" + map[string]string{">": "gt", "==": "eq", "<=": "le", "<": "lt"}[c.Op]
			}
			out = append(out, shape{name: pre + "/" + cn, rangeFn: fn, unwrap: uw, cmp: c})
			if uw && c == nil {
				for _, g := range groupings()[1:] {
					out = append(out, shape{name: pre + "/range_" + gname(g), rangeFn: fn, unwrap: uw, rgroup: g})
				}
			}
			for _, vf := range []string{"sum", "min", "max", "avg", "count"} {
				for _, g := range groupings() {
					if tier == 0 && c != nil && (vf != "sum" || g == nil) {
						continue
					}
					out = append(out, shape{name: pre + "/" + vf + "_" + gname(g) + "/" + cn, rangeFn: fn, unwrap: uw, vecFn: vf,
						vgroup: g, cmp: c})
				}
			}
		}
	}
	for _, f := range logFns {
		addAll(f, false)
	}
	for _, f := range uwFns {
		addAll(f, true)
	}
	return out
}

func (s *shape) build(sel ref.LogQuery) ref.Query {
	if s.unwrap {
		sel.Stages = append(append([]ref.Stage{}, sel.Stages...), ref.Stage{Kind: ref.Unwrap, Value: "v"})
	}
	ra := ref.RangeAgg{Fn: s.rangeFn, Sel: sel, RangeNs: rangeNs, Grouping: s.rgroup}
	if s.vecFn == "" {
		ra.Cmp = s.cmp
		return ref.Query{Range: &ra}
	}
	return ref.Query{Vector: &ref.VectorAgg{Fn: s.vecFn, Grouping: s.vgroup, Inner: ra, Cmp: s.cmp}}
}

// ---------------------------------------------------------------------------------------------------------------
// databases

type row struct {
	stream int
	ts     int64
	line   string
}

type database struct {
	name    string
	streams []ref.Stream
	metric  bool // usable for metric queries (see NOTES: logfmt bare keys)
}

var streamLabels = []map[string]string{
	{"app": "x", "env": "p"},
	{"app": "x", "env": "q"},
	{"app": "x", "env": "p", "zone": "1"},
}

func mkDB(name string, rows []row, metric bool) database {
	d := database{name: name, metric: metric}
	idx := map[int]int{}
	for _, r := range rows {
		i, ok := idx[r.stream]
		if !ok {
			i = len(d.streams)
			idx[r.stream] = i
			d.streams = append(d.streams, ref.Stream{Labels: streamLabels[r.stream]})
		}
		d.streams[i].Entries = append(d.streams[i].Entries, ref.Entry{TS: r.ts, Line: r.line})
	}
	return d
}

func subsets(pool []row, maxSize int, prefix string, metric bool) []database {
	var out []database
	n := len(pool)
	for mask := 0; mask < 1<<n; mask++ {
		var rows []row
		for i := 0; i < n; i++ {
			if mask&(1<<i) != 0 {
				rows = append(rows, pool[i])
			}
		}
		if len(rows) > maxSize {
			continue
		}
		out = append(out, mkDB(fmt.Sprintf("%s%0*b", prefix, n, mask), rows, metric))
	}
	return out
}

const lastNs = 4*sec + 999_999_999 // last nanosecond of the first bucket

// Label values are chosen so that the regex atoms (`x|y`) give the same answer anchored and unanchored (the
// statements leave anchoring open): "x", "y", "w z".
//
// jsonPool: entries that `json` can parse.  Timestamps sit on the window start, on both sides of the bucket
// boundary, tie across streams (limit ties) and on the last nanosecond of the window.
var jsonPool = []row{
	{0, T0, `{"a":"1","b":"x","v":"2"}`},
	{0, T0 + lastNs, `{"a":"2","b":"y","v":"0"}`},
	{1, T0 + 5*sec, `{"a":"1","b":"w z","v":3}`},
	{1, T0 + 6*sec, `{"a":"1","n":{"k":"v"},"arr":[1,2.5],"v":"5"}`},
	{0, T0 + 6*sec, `{"a":"bc"}`},
	{0, T0 + 5*sec + lastNs, `{"ab":"c"}`},
}

var logfmtPool = []row{
	{0, T0, `a=1 b=x v=2`},
	{0, T0 + lastNs, `a=2 b="w z" v=0`},
	{1, T0 + 5*sec, `a=1 b=y v=3 msg="q=1 \"w\""`},
	{1, T0 + 6*sec, `a=bc`},
	{0, T0 + 6*sec, `ab=c`},
}

// odd lines: each is added (as the middle entry, in stream 0) to two clean entries.
var oddLines = []struct{ name, line string }{
	{"array", `[1,2]`},
	{"number", `42`},
	{"string", `"str"`},
	{"truncated", `{"a":`},
	{"unquoted", `{a:1}`},
	{"empty", ``},
	{"logfmt", `a=1 b=x v=2`},
	{"logfmt_unterminated", `a="unterminated`},
	{"logfmt_bare", `flag a=1`},
	{"json_obj", `{"a":"1","b":"x","v":"2"}`},
}

func databases(family string, tier int) []database {
	var out []database
	var clean []row
	if family == "json" {
		out = subsets(jsonPool, 4, "J", true)
		clean = []row{jsonPool[0], jsonPool[2]}
	} else {
		out = subsets(logfmtPool, 4, "L", true)
		clean = []row{logfmtPool[0], logfmtPool[2]}
	}
	for _, o := range oddLines {
		if (family == "json" && o.name == "json_obj") || (family == "logfmt" && o.name == "logfmt") {
			continue
		}
		// metric queries: only lines whose expected labels are sharp (see NOTES.md "logfmt bare keys")
		metric := family == "json" || o.name == "empty" || o.name == "logfmt_unterminated"
		rows := []row{clean[0], {0, T0 + 2*sec, o.line}, clean[1]}
		out = append(out, mkDB("odd_"+o.name, rows, metric))
	}
	// series identity ("distinct label sets stay distinct series"): extracted label sets that a sloppy fingerprint
	// confuses - transposed pair {p="r"} / {r="p"}, value equal to its name {d="d"} / {t="t"} (and against no
	// label at all), name/value boundary {a="bc"} / {ab="c"}, values permuted between two names - two lines of one
	// stream in one bucket per database, and all of them together.
	idLines := []string{`{}`, `{"p":"r"}`, `{"r":"p"}`, `{"d":"d"}`, `{"t":"t"}`, `{"a":"bc"}`, `{"ab":"c"}`,
		`{"p":"r","q":"s"}`, `{"p":"s","q":"r"}`}
	if family == "logfmt" {
		idLines = []string{``, `p=r`, `r=p`, `d=d`, `t=t`, `a=bc`, `ab=c`, `p=r q=s`, `p=s q=r`}
	}
	for _, pr := range [][2]int{{1, 2}, {3, 4}, {0, 3}, {5, 6}, {7, 8}, {1, 3}} {
		out = append(out, mkDB(fmt.Sprintf("id_%d_%d", pr[0], pr[1]), []row{{0, T0 + sec, idLines[pr[0]]},
			{0, T0 + 2*sec, idLines[pr[1]]}}, true))
	}
	var idAll []row
	for i, l := range idLines {
		idAll = append(idAll, row{0, T0 + int64(i+1)*400_000_000, l})
	}
	out = append(out, mkDB("id_all", idAll, true))
	// value family: the unwrapped label v ranges over negative, zero, positive and fractional numbers, in windows
	// that are all-negative, all-zero, all-positive, mixed, and cancelling to 0 (bucket 0: two entries of stream 0
	// and one of stream 1; bucket 1: one entry of stream 0) - a bucket array that starts at 0 must not let that 0
	// take part in max/min/first/avg.
	for _, vs := range []struct {
		name string
		v    [4]string
	}{
		{"val_neg", [4]string{"-2", "-3.5", "-1", "-4"}},
		{"val_zero", [4]string{"0", "0", "0", "0"}},
		{"val_pos", [4]string{"2", "3.5", "1", "0.25"}},
		{"val_mixed", [4]string{"-2", "3", "0", "-0.5"}},
		{"val_cancel", [4]string{"-2", "2", "-1.5", "1.5"}},
	} {
		ts := [4]int64{T0 + sec, T0 + 2*sec, T0 + 3*sec, T0 + 6*sec}
		st := [4]int{0, 0, 1, 0}
		var rows []row
		for i := range vs.v {
			line := fmt.Sprintf(`{"a":"1","b":"x","v":"%s"}`, vs.v[i])
			if i == 1 {
				line = fmt.Sprintf(`{"a":"1","b":"x","v":%s}`, vs.v[i]) // a JSON number
			}
			if family == "logfmt" {
				line = fmt.Sprintf(`a=1 b=x v=%s`, vs.v[i])
			}
			rows = append(rows, row{st[i], ts[i], line})
		}
		out = append(out, mkDB(vs.name, rows, true))
	}
	// the big database: 3 series x 4 entries
	var big []row
	pool := jsonPool
	if family == "logfmt" {
		pool = logfmtPool
	}
	for s := 0; s < 3; s++ {
		for e := 0; e < 4; e++ {
			r := pool[(s*4+e)%len(pool)]
			big = append(big, row{s, T0 + int64(e)*2*sec + int64(s)*300_000_000, r.line})
		}
	}
	out = append(out, mkDB("big", big, true))
	return out
}

// ---------------------------------------------------------------------------------------------------------------
// framings: how a sequence of n entries (+ the EOF marker) is cut into channel messages

// framing is a list of message sizes over the item sequence (n entries followed, when eof, by the marker);
// a size 0 is an empty message.
type framing struct {
	sizes []int
	eof   bool
}

// compositions of n items into non-empty consecutive parts.
func compositions(n int) [][]int {
	if n == 0 {
		return [][]int{{}}
	}
	var out [][]int
	for mask := 0; mask < 1<<(n-1); mask++ {
		var parts []int
		cur := 1
		for i := 0; i < n-1; i++ {
			if mask&(1<<i) != 0 {
				parts = append(parts, cur)
				cur = 1
			} else {
				cur++
			}
		}
		out = append(out, append(parts, cur))
	}
	return out
}

// quickEmpties (quick tier): the empty message is inserted at the first, the middle and the last position only.
var quickEmpties = false

// allFramings: every composition of the n entries + EOF marker (so the marker rides with the last entries or
// travels alone), each also with one empty message inserted at every position; plus every composition of the n
// entries without any marker (the getter's ctx.Done() exit).
func allFramings(n int, withEmpty, withNoEOF bool) []framing {
	var out []framing
	for _, c := range compositions(n + 1) {
		out = append(out, framing{sizes: c, eof: true})
		if withEmpty {
			for p := 0; p <= len(c); p++ {
				if quickEmpties && p != 0 && p != len(c) && p != len(c)/2 {
					continue
				}
				s := append(append(append([]int{}, c[:p]...), 0), c[p:]...)
				out = append(out, framing{sizes: s, eof: true})
			}
		}
	}
	if withNoEOF {
		for _, c := range compositions(n) {
			out = append(out, framing{sizes: c, eof: false})
		}
	}
	return out
}

// fewFramings: for sequences too long for all compositions.
func fewFramings(n int) []framing {
	one := []int{n + 1}
	each := make([]int, n+1)
	for i := range each {
		each[i] = 1
	}
	var pairs []int
	for left := n; left > 0; left -= 2 {
		if left >= 2 {
			pairs = append(pairs, 2)
		} else {
			pairs = append(pairs, 1)
		}
	}
	out := []framing{{sizes: one, eof: true}, {sizes: each, eof: true}, {sizes: append(pairs, 1), eof: true}}
	if n > 0 {
		out = append(out, framing{sizes: []int{n, 0, 1}, eof: true}, framing{sizes: []int{n}, eof: false})
	}
	return out
}
