package main

// o2.go: O2 - differential between the two engines.  A query is split at every pipeline position with the real
// (unexported) breakScript; the ClickHouse part is planned by the real clickhouse_planner, its SQL text is executed
// by the reference interpreter mc/chsim over the same data, the rows are framed like ClickhouseGetterPlanner.Scan
// frames them and fed to the in-process part planned by the real internal_planner.  Every split (and the
// all-ClickHouse plan) is judged against the same reference result, so two splits that disagree with each other
// cannot both pass.

import (
	"encoding/json"
	"errors"
	"fmt"
	"strings"

	"github.com/metrico/qryn/reader/logql/logql_parser"
	logql "github.com/metrico/qryn/reader/logql/logql_transpiler_v2"
	"github.com/metrico/qryn/reader/logql/logql_transpiler_v2/clickhouse_planner"
	"github.com/metrico/qryn/reader/logql/logql_transpiler_v2/internal_planner"
	"github.com/metrico/qryn/reader/logql/logql_transpiler_v2/shared"
	sql "github.com/metrico/qryn/reader/utils/sql_select"

	"verif/mc/c09lib"
	"verif/mc/chsim"
	ref "verif/mc/logqlref"
)

// o2Alphabet: stages the SQL engine accepts (json with parameters, filters, drop, line_format, label_format).
func o2Alphabet(tier int) []atom {
	keep := map[string]int{
		"lf_contains": 0, "lf_not_contains": 0, "lf_re": 0, "lf_not_re": 0,
		"json_p2": 0, "json_pobj": 1,
		"f_eq": 0, "f_neq": 0, "f_re": 0, "f_nre": 1, "f_stream_label": 0, "f_gt": 0, "f_deq": 0, "f_nneq": 1,
		"f_and": 1, "f_or": 0, "f_paren": 1, "f_and_or": 0,
		"drop_a": 0, "drop_a_val": 0, "drop_env": 0,
		"fmt_const": 0, "fmt_rename": 1,
		"line_fields": 0, "line_text": 1,
	}
	out := []atom{{name: "json_pv", stage: ref.Stage{Kind: ref.JSON, Params: []ref.Param{{Name: "a", Expr: "a"},
		{Name: "b", Expr: "b"}, {Name: "v", Expr: "v"}}}}}
	for _, a := range stageAlphabet() {
		if t, ok := keep[a.name]; ok && t <= tier {
			out = append(out, a)
		}
	}
	return out
}

func o2Pipelines(maxLen, tier int) []pipeline {
	alpha := o2Alphabet(tier)
	var out []pipeline
	var rec func(p pipeline)
	rec = func(p pipeline) {
		out = append(out, p)
		if len(p.stages) == maxLen {
			return
		}
		for _, a := range alpha {
			np := pipeline{family: "json"}
			np.names = append(append([]string{}, p.names...), a.name)
			np.stages = append(append([]ref.Stage{}, p.stages...), a.stage)
			np.alts = append(append([]*ref.Stage{}, p.alts...), a.alt)
			rec(np)
		}
	}
	rec(pipeline{family: "json", names: []string{"o2"}})
	return out
}

// o2Units: log pipelines of <= 2 (thorough: 3) stages; metric: pipelines of <= 1 (thorough: 2) stages x a core of
// the aggregation shapes.
func o2Units(thorough bool) []unit {
	tier, maxLog, maxMet := 0, 2, 1
	if thorough {
		tier, maxLog, maxMet = 1, 3, 2
	}
	var out []unit
	for _, p := range o2Pipelines(maxLog, tier) {
		out = append(out, unit{kind: "log", pipe: p, o2: true})
	}
	shs := shapes(tier)
	for _, p := range o2Pipelines(maxMet, tier) {
		for i := range shs {
			s := &shs[i]
			if s.vgroup != nil && (s.vgroup.Without || s.vgroup.Suffix) {
				continue
			}
			if s.vecFn != "" && s.vecFn != "sum" && s.vecFn != "max" {
				continue
			}
			if s.rgroup != nil && (s.rgroup.Without || s.rgroup.Suffix) {
				continue
			}
			if len(p.stages) >= 2 && (s.cmp != nil || (s.vecFn != "" && s.vecFn != "sum") || s.rgroup != nil) {
				continue
			}
			if s.unwrap {
				// unwrap needs extracted labels on the SQL side ("labels col not inited" otherwise)
				hasPV := false
				for _, n := range p.names {
					hasPV = hasPV || n == "json_pv"
				}
				if !hasPV {
					continue
				}
			}
			out = append(out, unit{kind: "metric", pipe: p, shape: s, o2: true})
		}
	}
	return out
}

// ---------------------------------------------------------------------------------------------------------------
// the SQL side

const o2Day = "2023-11-14" // the day of T0 (time_series.date)

var chDBs = map[string]*chsim.DB{}

func chDB(d *database) *chsim.DB {
	if db, ok := chDBs[d.name]; ok {
		return db
	}
	db := chsim.NewDB()
	var ts, samples [][]chsim.Value
	for i, s := range d.streams {
		ts = append(ts, []chsim.Value{o2Day, upstreamFP(i), chsim.LabelsJSON(s.Labels), "", uint64(1)})
		for _, e := range s.Entries {
			samples = append(samples, []chsim.Value{upstreamFP(i), e.TS, float64(0), e.Line, uint64(1)})
		}
	}
	db.AddQrynTable("time_series", ts)
	db.AddQrynTable("samples_v3", samples)
	if err := db.Materialize("time_series_gin_view"); err != nil {
		panic(err)
	}
	chDBs[d.name] = db
	return db
}

func o2Context(c c09lib.Case) *shared.PlannerContext {
	ctx, _ := c09lib.Context(c)
	ctx.TimeSeriesGinTableName = "time_series_gin"
	ctx.SamplesTableName = "samples_v3"
	ctx.TimeSeriesTableName = "time_series"
	ctx.TimeSeriesDistTableName = "time_series"
	ctx.Metrics15sTableName = "metrics_15s"
	ctx.CHSqlCtx = &sql.Ctx{Params: map[string]sql.SQLObject{}, Result: map[string]sql.SQLObject{}}
	return ctx
}

type o2Skip struct{ why string }

func (s *o2Skip) Error() string { return s.why }

// runSQL renders the plan and executes it on chsim; rows come back as entries in result order.
func runSQL(plan shared.SQLRequestPlanner, ctx *shared.PlannerContext, db *chsim.DB, matrix bool) ([]c09lib.Ent, string, error) {
	sel, err := plan.Process(ctx)
	if err != nil {
		return nil, "", &o2Skip{"sql planner: " + err.Error()}
	}
	text, err := sel.String(ctx.CHSqlCtx)
	if err != nil {
		return nil, "", &o2Skip{"sql render: " + err.Error()}
	}
	res, err := db.Query(text)
	if err != nil {
		return nil, text, err
	}
	idx := map[string]int{}
	for i, c := range res.Cols {
		idx[c] = i
	}
	valCol := "string"
	if matrix {
		valCol = "value"
	}
	for _, c := range []string{"fingerprint", "labels", valCol, "timestamp_ns"} {
		if _, ok := idx[c]; !ok {
			return nil, text, fmt.Errorf("result has no column %s (columns %v)", c, res.Cols)
		}
	}
	out := make([]c09lib.Ent, 0, len(res.Rows))
	for _, r := range res.Rows {
		m, ok := chsim.StringMap(r[idx["labels"]])
		if !ok {
			return nil, text, fmt.Errorf("labels column is %s", chsim.Format(r[idx["labels"]]))
		}
		e := c09lib.Ent{Labels: m}
		switch fp := r[idx["fingerprint"]].(type) {
		case uint64:
			e.FP = fp
		case int64:
			e.FP = uint64(fp)
		default:
			return nil, text, fmt.Errorf("fingerprint cell is %T", fp)
		}
		switch t := r[idx["timestamp_ns"]].(type) {
		case int64:
			e.TS = t
		case uint64:
			e.TS = int64(t)
		default:
			return nil, text, fmt.Errorf("timestamp cell is %T", t)
		}
		if matrix {
			switch v := r[idx["value"]].(type) {
			case float64:
				e.Value = v
			case int64:
				e.Value = float64(v)
			case uint64:
				e.Value = float64(v)
			default:
				return nil, text, fmt.Errorf("value cell is %T", v)
			}
		} else {
			e.Line, _ = r[idx["string"]].(string)
		}
		out = append(out, e)
	}
	return out, text, nil
}

// getterFraming frames rows like ClickhouseGetterPlanner.Scan: messages of 100, the io.EOF marker last.
func getterFraming(rows []c09lib.Ent) [][]c09lib.Ent {
	var msgs [][]c09lib.Ent
	for len(rows) >= 100 {
		msgs = append(msgs, rows[:100])
		rows = rows[100:]
	}
	return append(msgs, append(append([]c09lib.Ent{}, rows...), c09lib.Ent{EOF: true}))
}

// splitScripts: the two halves of a query split at one position (breakScript modifies the script it is given, so
// each split position gets its own parse; planning reads the scripts only, so the halves are reused for every
// database, limit and direction).
type splitScripts struct {
	whole  *logql_parser.LogQLScript // bp < 0
	ch, in *logql_parser.LogQLScript
	err    error
}

var splitCache = map[string]*splitScripts{}

func getSplit(text string, bp int) *splitScripts {
	key := fmt.Sprintf("%d\x00%s", bp, text)
	if s, ok := splitCache[key]; ok {
		return s
	}
	if len(splitCache) > 64 {
		splitCache = map[string]*splitScripts{}
	}
	s := &splitScripts{}
	splitCache[key] = s
	script, err := logql_parser.Parse(text)
	if err != nil {
		s.err = &o2Skip{"parse: " + err.Error()}
		return s
	}
	if bp < 0 {
		s.whole = script
		return s
	}
	func() {
		defer func() {
			if r := recover(); r != nil {
				s.err = &o2Skip{fmt.Sprint("breakScript panics: ", r)}
			}
		}()
		s.ch, s.in, err = logql.VerifBreakScript(bp, script)
	}()
	if s.err == nil && err != nil {
		s.err = &o2Skip{"breakScript: " + err.Error()}
	}
	if s.err == nil && (s.ch == nil || s.in == nil) {
		s.err = &o2Skip{"breakScript: no split"}
	}
	return s
}

// runSplit executes query text split at bp (-1: everything on the SQL engine with CHFinalize, like Plan() does
// when GetBreakpoint finds no reason to split).
func runSplit(text string, bp int, c c09lib.Case, db *chsim.DB) (out c09lib.Output, sqlText string, err error) {
	defer func() {
		if r := recover(); r != nil {
			out.Panic = fmt.Sprint(r)
		}
	}()
	sp := getSplit(text, bp)
	if sp.err != nil {
		return out, "", sp.err
	}
	ctx := o2Context(c)
	if bp < 0 {
		matrix := sp.whole.StrSelector == nil
		plan, err := clickhouse_planner.Plan(sp.whole, true)
		if err != nil {
			return out, "", &o2Skip{"sql planner: " + err.Error()}
		}
		rows, sqlText, err := runSQL(plan, ctx, db, matrix)
		if err != nil {
			return out, sqlText, err
		}
		return c09lib.Output{Matrix: matrix, Batches: getterFraming(rows)}, sqlText, nil
	}
	plan, err := clickhouse_planner.Plan(sp.ch, false)
	if err != nil {
		return out, "", &o2Skip{"sql planner: " + err.Error()}
	}
	rows, sqlText, err := runSQL(plan, ctx, db, false)
	if err != nil {
		return out, sqlText, err
	}
	proc, err := internal_planner.Plan(sp.in, &c09lib.Upstream{Msgs: getterFraming(rows)})
	if err != nil {
		return out, sqlText, &o2Skip{"internal planner: " + err.Error()}
	}
	return c09lib.RunChain(proc, ctx), sqlText, nil
}

// ---------------------------------------------------------------------------------------------------------------

type o2Replay struct {
	Split int    `json:"split"`
	SQL   string `json:"sql,omitempty"`
}

// forEachCaseO2: every database x direction x limit x split point (-1 = all on the SQL engine, 0..n).
func forEachCaseO2(u *unit, fn func(seq int, sc *scope, c c09lib.Case) bool) error {
	q := u.query()
	text := q.String()
	// Legal split points: 0 .. natural, where natural = GetBreakpoint(script) (the first stage the planner itself
	// refuses to give to ClickHouse: line_format here) or the number of stages when there is none; and -1
	// (everything on the SQL engine, CHFinalize) only in the latter case - that is what Plan() does then.  A split
	// after the unwrap stage (appended by shape.build) is never legal: the unwrapped value cannot cross the
	// boundary (the getter scans fingerprint, labels, string, timestamp).
	nst := len(u.pipe.stages)
	first := -1
	script, err := logql_parser.Parse(text)
	if err != nil {
		return err
	}
	natural, err := logql.GetBreakpoint(script)
	if err != nil {
		return err
	}
	if natural >= 0 {
		first = 0
		if natural < nst {
			nst = natural
		}
	}
	dbs := databases("json", 0)
	seq := 0
	for di := range dbs {
		db := &dbs[di]
		if !(strings.HasPrefix(db.name, "odd_") || strings.HasPrefix(db.name, "val_") || db.name == "big" || db.name == "id_all" || di%5 == 3) {
			continue
		}
		if heavy := len(u.pipe.stages) >= 3 || (u.kind == "metric" && len(u.pipe.stages) >= 2); heavy &&
			!(db.name == "odd_array" || db.name == "odd_truncated" || db.name == "odd_empty" || db.name == "big" || db.name == "id_all" || db.name == "val_neg" || db.name == "val_mixed" || di%10 == 3) {
			continue // the longest pipelines (thorough tier only) run on a smaller family
		}
		dirs := []bool{false}
		if di%2 == 1 {
			dirs = []bool{false, true}
		}
		for _, fwd := range dirs {
			opt := ref.Options{Forward: fwd, Rules: conv}
			base := scope{u: u, q: q, db: db, forward: fwd, arrival: ref.Arrival(db.streams, opt), o2: true}
			limits := []int{0}
			if u.kind == "log" {
				r, err := ref.EvalLog(q.Log, db.streams, opt)
				if err != nil {
					return err
				}
				base.defLog = r
				limits = dedupe([]int{0, 1, len(r.All)})
			} else {
				m, err := ref.EvalMetric(&q, db.streams, opt)
				if err != nil {
					return err
				}
				base.defMat = m
			}
			for _, lim := range limits {
				for bp := first; bp <= nst; bp++ {
					sc := base
					sc.limit = lim
					sc.split = bp
					if u.kind == "log" {
						sc.defLog.Limited = sc.defLog.All
						if lim > 0 && len(sc.defLog.All) > lim {
							sc.defLog.Limited = sc.defLog.All[:lim]
						}
					}
					c := c09lib.Case{Query: text, FromNs: T0, ToNs: T0 + winNs, StepNs: rangeNs, Limit: int64(lim), Forward: fwd}
					if !fn(seq, &sc, c) {
						return nil
					}
					seq++
				}
			}
		}
	}
	return nil
}

// judgeO2 runs one split and judges it.
func (sc *scope) judgeO2(text string, c c09lib.Case) (outcome string, classes []string, what, sqlText string, unsupported string) {
	out, sqlText, err := runSplit(text, sc.split, c, chDB(sc.db))
	var skip *o2Skip
	switch {
	case errors.As(err, &skip):
		return "not_split:" + sanitizeClass(skip.why), nil, "", sqlText, ""
	case err != nil && errors.Is(err, chsim.ErrUnsupported):
		return "chsim_unsupported", nil, "", sqlText, fmt.Sprintf("%s split=%d: %v", text, sc.split, err)
	case err != nil:
		// ClickHouse itself would reject or fail this SQL
		cl := "sql_engine_error_" + sanitizeClass(err.Error())
		if strings.Contains(err.Error(), "UNKNOWN_IDENTIFIER") && strings.Contains(err.Error(), "samples.string") {
			cl = "sql_engine_line_filter_after_labels_join_invalid_sql"
		}
		return "sql_error", []string{cl}, err.Error(), sqlText, ""
	}
	fr := framing{sizes: []int{len(sc.arrival) + 1}, eof: true}
	outcome, classes, what = sc.judge(&out, fr)
	return outcome, classes, what, sqlText, ""
}

func runUnitO2(ui int, u *unit, journal func(seq int), only int) unitResult {
	q := u.query()
	text := q.String()
	res := unitResult{Unit: ui, Name: u.name(), Query: text, Outcomes: map[string]int64{}, Classes: map[string]int64{}}
	if _, err := c09lib.Parse(text); err != nil {
		res.Outcomes["unsupported:parse"]++
		res.Err = "parse: " + err.Error()
		return res
	}
	reported := map[string]int{}
	err := forEachCaseO2(u, func(seq int, sc *scope, c c09lib.Case) bool {
		if only >= 0 && seq != only {
			return seq < only
		}
		journal(seq)
		outcome, classes, what, sqlText, uns := sc.judgeO2(text, c)
		res.Runs++
		res.Outcomes["o2:"+outcome]++
		if uns != "" && len(res.Unsupported) < 3 {
			res.Unsupported = append(res.Unsupported, uns)
		}
		for _, cl := range classes {
			res.Classes[cl]++
			if reported[cl] < 1 {
				reported[cl]++
				w := fmt.Sprintf("%s  split=%d of %d db=%s forward=%v limit=%d: %s", text, sc.split, len(u.pipe.stages), sc.db.name,
					sc.forward, sc.limit, what)
				if len(w) > 600 {
					w = w[:600] + "..."
				}
				res.Findings = append(res.Findings, finding{Class: cl, What: w, Replay: sc.replayO2(text, c, sqlText)})
			}
		}
		return true
	})
	if err != nil {
		res.Err = err.Error()
	}
	return res
}

func (sc *scope) replayO2(text string, c c09lib.Case, sqlText string) []byte {
	d := sc.replayDoc(text, c, framing{})
	d.O2 = &o2Replay{Split: sc.split, SQL: sqlText}
	b, _ := json.Marshal(d)
	return b
}
