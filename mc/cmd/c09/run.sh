# C09 = programs x inputs part (mc/cmd/c09: real in-process engine vs reference evaluator and vs the SQL engine on chsim)
#     + schedules part (mc/cmd/c09s: engine E1, interleavings of the stage goroutines); one evidence file.
# sourced by bin/check with $scratch, $here, $lc set and "$@" = the check's arguments.
replayfile=""; prev=""
for a in "$@"; do [ "$prev" = "--replay" ] && replayfile="$a"; prev="$a"; done
if [ -n "$replayfile" ] && grep -q '"scenario"' "$replayfile" 2>/dev/null; then
  VERIF_PART=C09s "$here/check" C09S "$@"; return $?
fi
go build -modfile="$scratch/mod/go.mod" -tags verif -overlay "$scratch/overlay.json" -o "$scratch/bin/c09" ./mc/cmd/c09 \
  || { echo "HARNESS-ERROR: build failed for C09" >&2; return 2; }
"$scratch/bin/c09" "$@"; rc1=$?
[ $rc1 = 2 ] && return 2
[ -n "$replayfile" ] && return $rc1
VERIF_PART=C09s "$here/check" C09S "$@"; rc2=$?
[ $rc2 = 2 ] && return 2
[ $rc1 = 1 ] || [ $rc2 = 1 ] && return 1
return 0
