//go:build verif

package logql_transpiler_v2

import "github.com/metrico/qryn/reader/logql/logql_parser"

// VerifBreakScript exposes the unexported breakScript to the C09 harness (added through `go build -overlay`,
// never part of the repository): split `script` at pipeline position `breakpoint` into the part planned on
// ClickHouse and the part planned on the in-process engine.  NOTE: like the original it modifies `script`.
func VerifBreakScript(breakpoint int, script *logql_parser.LogQLScript) (*logql_parser.LogQLScript, *logql_parser.LogQLScript, error) {
	return breakScript(breakpoint, script, script)
}
