package main

// worker.go: units of work, the per-case oracle (O1) and the explanation of disagreements by documented deviant
// rules.  Runs inside worker subprocesses (a panic in a stage goroutine of the engine kills the process).

import (
	"encoding/json"
	"fmt"
	"sort"
	"strings"

	"verif/mc/c09lib"
	ref "verif/mc/logqlref"
)

// conventions the statements leave open (see NOTES.md): regexes of label filters are RE2 *search* (DESIGN.md C07:
// anchoring "is not demanded"); the alphabet has no extracted/stream label collisions, so ExtractedOverwrites is moot.
var conv = ref.Rules{UnanchoredLabelFilterRegex: true, UnanchoredMatcherRegex: true, ExtractedOverwrites: true}

type unit struct {
	kind  string // "log" | "metric"
	pipe  pipeline
	shape *shape
	noEOF bool // level 2 only: the unit holds the framings without EOF marker (the getter's cancelled exit)
	// level of the product databases x directions x limits x framings:
	//  2: all databases, both directions, limits {0,1,n,n+1}, every composition incl. one empty message at every
	//     position; the no-marker compositions are a separate unit
	//  1: all databases, both directions, all limits, every composition (no empty messages) + no-marker compositions
	//  0: a third of the databases, newest-first only (metric: both), limits {0,n}, three fixed framings
	level int
	o2    bool // O2 unit: split between the SQL engine (executed by chsim) and the in-process engine
}

// build makes the query of this unit over the given stages.
func (u *unit) build(stages []ref.Stage) ref.Query {
	sel := ref.LogQuery{Matchers: selector, Stages: stages}
	if u.kind == "log" {
		return ref.Query{Log: &sel}
	}
	return u.shape.build(sel)
}

func (u *unit) query() ref.Query { return u.build(u.pipe.stages) }

func (u *unit) name() string {
	n := u.kind + ":" + strings.Join(u.pipe.names, "|")
	if u.o2 {
		n = "o2:" + n
	}
	if u.shape != nil {
		n += ":" + u.shape.name
	}
	if u.noEOF {
		n += ":noeof"
	}
	return n
}

// units enumerates the work of a tier, in a fixed order.
//
//	quick:    log pipelines head+<=1 stage at level 2, head+2 stages at level 0;
//	          metric: head only x all shapes at level 1 (few framings), head+1 stage x core shapes at level 0
//	thorough: log head+<=1 at level 2, head+2 at level 1 (all atoms);
//	          metric: head only x all shapes at level 2, head+1 stage x all shapes at level 0
func units(thorough bool) []unit {
	tier := 0
	if thorough {
		tier = 1
	}
	quickEmpties = !thorough
	var out []unit
	for _, p := range pipelines(2, tier) {
		tail := len(p.stages) - 1
		switch {
		case tail <= 1:
			out = append(out, unit{kind: "log", pipe: p, level: 2}, unit{kind: "log", pipe: p, level: 2, noEOF: true})
		case thorough:
			out = append(out, unit{kind: "log", pipe: p, level: 1})
		default:
			out = append(out, unit{kind: "log", pipe: p, level: 0})
		}
	}
	shs := shapes(tier)
	for _, p := range pipelines(1, tier) {
		tail := len(p.stages) - 1
		for i := range shs {
			s := &shs[i]
			core := s.cmp == nil && (s.vecFn == "" || s.vecFn == "sum") &&
				(s.vgroup == nil || (!s.vgroup.Without && !s.vgroup.Suffix))
			switch {
			case tail == 0 && thorough:
				out = append(out, unit{kind: "metric", pipe: p, shape: s, level: 2})
				if s.cmp == nil && s.vecFn == "" {
					out = append(out, unit{kind: "metric", pipe: p, shape: s, level: 2, noEOF: true})
				}
			case tail == 0:
				out = append(out, unit{kind: "metric", pipe: p, shape: s, level: 1})
			case thorough || core:
				out = append(out, unit{kind: "metric", pipe: p, shape: s, level: 0})
			}
		}
	}
	return interleave(out, o2Units(thorough))
}

// interleave spreads the categories of units (log / metric / O2, by pipeline length) evenly over the index space,
// so that every prefix of the run - in particular a run cut by its deadline - covers all of them in proportion.
func interleave(lists ...[]unit) []unit {
	type keyed struct {
		pos float64
		cat int
		u   unit
	}
	cats := map[string][]unit{}
	var order []string
	for _, l := range lists {
		for _, u := range l {
			k := fmt.Sprintf("%v/%s/%d", u.o2, u.kind, len(u.pipe.stages))
			if _, ok := cats[k]; !ok {
				order = append(order, k)
			}
			cats[k] = append(cats[k], u)
		}
	}
	var all []keyed
	for ci, k := range order {
		n := float64(len(cats[k]))
		for i, u := range cats[k] {
			all = append(all, keyed{pos: (float64(i) + 0.5) / n, cat: ci, u: u})
		}
	}
	sort.SliceStable(all, func(i, j int) bool {
		if all[i].pos != all[j].pos {
			return all[i].pos < all[j].pos
		}
		return all[i].cat < all[j].cat
	})
	out := make([]unit, len(all))
	for i, k := range all {
		out[i] = k.u
	}
	return out
}

// ---------------------------------------------------------------------------------------------------------------
// case enumeration inside a unit

// scope: everything of a case except the framing; expected results are computed once per scope.
type scope struct {
	u       *unit
	q       ref.Query
	db      *database
	forward bool
	limit   int
	arrival []ref.Arrived

	defLog ref.LogResult
	defMat ref.Matrix
	// explanations found so far in this scope; observations no rule set explains
	expl   []explanation
	failed map[string]bool
	// O2: the pipeline is split at `split` (-1: everything on the SQL engine)
	o2    bool
	split int
}

// explanation: a set of deviant rules under which reference and implementation agreed on some case of the scope;
// results are cached per evaluated prefix of the arrival sequence (-1 = the whole sequence).
type explanation struct {
	set     []int
	classes []string
	cache   map[int]*expected
}

type expected struct {
	ok  bool
	log ref.LogResult
	mat ref.Matrix
}

func upstreamFP(stream int) uint64 { return 1000 + uint64(stream) }

func (sc *scope) buildCase(text string, fr framing) c09lib.Case {
	items := make([]c09lib.Ent, 0, len(sc.arrival)+1)
	for _, a := range sc.arrival {
		items = append(items, c09lib.Ent{FP: upstreamFP(a.Stream), Labels: sc.db.streams[a.Stream].Labels, TS: a.Entry.TS,
			Line: a.Entry.Line})
	}
	if fr.eof {
		items = append(items, c09lib.Ent{EOF: true})
	}
	msgs := make([][]c09lib.Ent, 0, len(fr.sizes))
	pos := 0
	for _, n := range fr.sizes {
		msgs = append(msgs, items[pos:pos+n])
		pos += n
	}
	return c09lib.Case{Query: text, FromNs: T0, ToNs: T0 + winNs, StepNs: rangeNs, Limit: int64(sc.limit), Forward: sc.forward,
		Msgs: msgs}
}

// forEachCase enumerates the cases of a unit in a fixed order; fn returns false to stop.
func forEachCase(u *unit, fn func(seq int, sc *scope, fr framing) bool) error {
	q := u.query()
	dbs := databases(u.pipe.family, 0)
	seq := 0
	for di := range dbs {
		db := &dbs[di]
		if u.level == 0 && !(strings.HasPrefix(db.name, "odd_") || db.name == "big" || db.name == "id_all" || strings.HasPrefix(db.name, "val_") || di%7 == 3) {
			continue
		}
		if quickEmpties && u.level == 2 && len(u.pipe.stages) > 1 && dbEntries(db) == 4 {
			continue // quick tier: the 4-entry sub-databases (80 framings each) only for the head-only pipelines
		}
		dirs := []bool{false, true}
		if u.kind == "log" && (u.level == 0 || (u.level == 2 && di%4 != 1 && !strings.HasPrefix(db.name, "odd_"))) {
			// log queries: the direction only decides the arrival order; the oldest-first order is run on a
			// quarter of the databases (and on all of them at level 1)
			dirs = []bool{false}
		}
		for _, fwd := range dirs {
			opt := ref.Options{Forward: fwd, Rules: conv}
			arrival := ref.Arrival(db.streams, opt)
			n := len(arrival)
			var frs []framing
			switch {
			case u.level == 2 && n <= 4:
				for _, f := range allFramings(n, true, true) {
					if f.eof != u.noEOF {
						frs = append(frs, f)
					}
				}
			case u.level == 2:
				for _, f := range fewFramings(n) {
					if f.eof != u.noEOF {
						frs = append(frs, f)
					}
				}
			case u.level == 1 && n <= 4 && u.kind == "log":
				frs = allFramings(n, false, true)
			case u.level == 1:
				frs = fewFramings(n)
			default:
				frs = fewFramings(n)[:3]
			}
			limits := []int{0}
			base := scope{u: u, q: q, db: db, forward: fwd, arrival: arrival}
			if u.kind == "log" {
				r, err := ref.EvalLog(q.Log, db.streams, opt)
				if err != nil {
					return err
				}
				base.defLog = r
				m := len(r.All)
				limits = []int{0, 1, m, m + 1}
				if u.level == 0 {
					limits = []int{0, m}
				}
				limits = dedupe(limits)
			} else {
				m, err := ref.EvalMetric(&q, db.streams, opt)
				if err != nil {
					return err
				}
				base.defMat = m
			}
			for _, lim := range limits {
				sc := base
				sc.limit = lim
				if u.kind == "log" {
					sc.defLog.Limited = sc.defLog.All
					if lim > 0 && len(sc.defLog.All) > lim {
						sc.defLog.Limited = sc.defLog.All[:lim]
					}
				}
				for _, fr := range frs {
					if !fn(seq, &sc, fr) {
						return nil
					}
					seq++
				}
			}
		}
	}
	return nil
}

func dbEntries(db *database) int {
	n := 0
	for _, s := range db.streams {
		n += len(s.Entries)
	}
	return n
}

func dedupe(in []int) []int {
	var out []int
	for _, v := range in {
		dup := v < 0
		for _, o := range out {
			dup = dup || o == v
		}
		if !dup {
			out = append(out, v)
		}
	}
	return out
}

// ---------------------------------------------------------------------------------------------------------------
// observation and comparison

type observed struct {
	err     string
	entries []ref.GotEntry
	series  []ref.GotSeries
}

func observe(out *c09lib.Output) observed {
	blocks, err := c09lib.Observe(*out)
	o := observed{err: err}
	if err != "" {
		return o
	}
	if out.Matrix {
		for _, b := range blocks {
			s := ref.GotSeries{Labels: b.Labels}
			for _, e := range b.Entries {
				s.Points = append(s.Points, ref.Point{TS: e.TS, V: e.Value})
			}
			o.series = append(o.series, s)
		}
		return o
	}
	for _, b := range blocks {
		for _, e := range b.Entries {
			// the response object of a block carries the labels of the block's first entry
			o.entries = append(o.entries, ref.GotEntry{Labels: b.Labels, TS: e.TS, Line: e.Line})
		}
	}
	return o
}

// consumerView relabels a reference log result the way the response is built: entries are grouped by series
// identity (Key) and each group is shown with the labels of its first entry.  Under the definition Key is the
// label set and this is the identity.
func consumerView(r ref.LogResult) ref.LogResult {
	first := map[string]map[string]string{}
	for _, e := range r.Limited {
		if _, ok := first[e.Key]; !ok {
			first[e.Key] = e.Labels
		}
	}
	re := func(in []ref.OutEntry) []ref.OutEntry {
		out := make([]ref.OutEntry, len(in))
		for i, e := range in {
			if l, ok := first[e.Key]; ok {
				e.Labels = l
			}
			out[i] = e
		}
		return out
	}
	return ref.LogResult{All: re(r.All), Limited: re(r.Limited), Aborted: r.Aborted, AbortIndex: r.AbortIndex}
}

func matchLog(want ref.LogResult, o *observed, limit int, forward bool) string {
	if want.Aborted {
		if o.err != "" {
			return ""
		}
		return "expected the query to fail"
	}
	if o.err != "" {
		return "query failed: " + o.err
	}
	return ref.CompareLog(want, o.entries, limit, forward)
}

func matchMat(want ref.Matrix, o *observed) string {
	if want.Aborted {
		if o.err != "" {
			return ""
		}
		return "expected the query to fail"
	}
	if o.err != "" {
		return "query failed: " + o.err
	}
	return ref.CompareMatrix(want, o.series)
}

// ---------------------------------------------------------------------------------------------------------------
// deviant rules used to explain a disagreement

type toggle struct {
	class   string
	apply   func(*ref.Rules)
	rewrite func(u *unit, stages []ref.Stage) ([]ref.Stage, bool) // deviant reading of the query text
	metric  bool                                                  // only meaningful for metric queries
	logq    bool                                                  // only meaningful for log queries
	sql     bool                                                  // a deviant rule of the SQL engine (O2 only)
}

// rewriteAndOr: qryn's label-filter grammar is right recursive, `a and b or c` reads a and (b or c).
func rewriteAndOr(u *unit, stages []ref.Stage) ([]ref.Stage, bool) {
	out := append([]ref.Stage{}, stages...)
	changed := false
	for i := range out {
		if i < len(u.pipe.alts) && u.pipe.alts[i] != nil && out[i].Kind == ref.LabelFilter {
			out[i] = *u.pipe.alts[i]
			changed = true
		}
	}
	return out, changed
}

// rewriteParserNegFilter: `| json != "x"` / `| logfmt !~ "x"` is read by qryn's grammar as a label filter on a
// label called json / logfmt (the alternative "|" LabelFilter is tried before "|" Parser), not as a parser stage
// followed by a line filter.
func rewriteParserNegFilter(u *unit, stages []ref.Stage) ([]ref.Stage, bool) {
	var out []ref.Stage
	changed := false
	for i := 0; i < len(stages); i++ {
		s := stages[i]
		if (s.Kind == ref.JSON || s.Kind == ref.Logfmt) && len(s.Params) == 0 && i+1 < len(stages) &&
			stages[i+1].Kind == ref.LineFilter && (stages[i+1].Op == "!=" || stages[i+1].Op == "!~") {
			name := "json"
			if s.Kind == ref.Logfmt {
				name = "logfmt"
			}
			out = append(out, ref.Stage{Kind: ref.LabelFilter, Filter: &ref.LabelExpr{Kind: "cmp", Name: name,
				Op: stages[i+1].Op, Str: stages[i+1].Value}})
			i++
			changed = true
			continue
		}
		out = append(out, s)
	}
	return out, changed
}

var toggles = []toggle{
	{class: "parse_error_aborts_query", apply: func(r *ref.Rules) { r.ParseErrorAborts = true }},
	{class: "label_format_rename_keeps_source", apply: func(r *ref.Rules) { r.RenameKeepsSource = true }},
	{class: "limit_zero_returns_nothing", apply: func(r *ref.Rules) { r.LimitZeroIsEmpty = true }, logq: true},
	{class: "vector_agg_without_grouping_keeps_series", apply: func(r *ref.Rules) { r.VectorAggNoGroupPerSeries = true }, metric: true},
	{class: "unwrap_missing_or_nonnumeric_counts_as_zero", apply: func(r *ref.Rules) { r.UnwrapInvalidAsZero = true }, metric: true},
	{class: "fingerprint_kv_concat_collision", apply: func(r *ref.Rules) { r.SeriesKeyConcat = true }},
	{class: "min_over_time_is_max", apply: func(r *ref.Rules) { r.MinOverTimeIsMax = true }, metric: true},
	{class: "first_last_over_time_arrival_order", apply: func(r *ref.Rules) { r.FirstLastByArrival = true }, metric: true},
	{class: "first_over_time_zero_means_unset", apply: func(r *ref.Rules) { r.FirstOverTimeZeroUnset = true }, metric: true},
	{class: "logfmt_lenient_scanner_empty_labels", apply: func(r *ref.Rules) { r.LogfmtLenient = true }},
	{class: "parser_then_negative_line_filter_parsed_as_label_filter", rewrite: rewriteParserNegFilter},
	{class: "json_param_object_value_ignored", apply: func(r *ref.Rules) { r.JSONParamObjectIgnored = true }},
	{class: "label_format_stale_fingerprint", apply: func(r *ref.Rules) { r.LabelFormatNoRekey = true }},
	{class: "drop_conditional_fingerprint_recompute", apply: func(r *ref.Rules) { r.DropRekeyOnlyIfChanged = true }},
	{class: "label_filter_and_or_right_assoc", rewrite: rewriteAndOr},
	// the SQL engine's side of a split (O2)
	{class: "sql_engine_line_filter_not_regex_negation_lost", apply: func(r *ref.Rules) { r.LineFilterNotRegexIsRegex = true }, sql: true},
	{class: "sql_engine_label_format_ignored", apply: func(r *ref.Rules) { r.LabelFormatIgnored = true }, sql: true},
	{class: "sql_engine_unwrap_missing_or_nonnumeric_counts_as_zero", apply: func(r *ref.Rules) { r.UnwrapInvalidAsZero = true }, sql: true, metric: true},
	{class: "sql_engine_vector_agg_without_grouping_keeps_series", apply: func(r *ref.Rules) { r.VectorAggNoGroupPerSeries = true }, sql: true, metric: true},
	{class: "sql_engine_json_param_path_uses_last_segment", apply: func(r *ref.Rules) { r.JSONParamLastSegmentOnly = true }, sql: true},
	{class: "sql_engine_label_filter_before_parser_sees_stream_labels", apply: func(r *ref.Rules) { r.LabelFilterBeforeParserOnStreamLabels = true }, sql: true},
	{class: "sql_engine_label_filter_sees_later_parser", apply: func(r *ref.Rules) { r.LabelFilterSeesLaterParser = true }, sql: true},
	{class: "sql_engine_label_filter_sees_later_drop", apply: func(r *ref.Rules) { r.LabelFilterSeesLaterDrop = true }, sql: true},
	{class: "sql_engine_drop_keeps_fingerprint", apply: func(r *ref.Rules) { r.DropNoRekey = true }, sql: true},
	{class: "sql_engine_bytes_over_time_divided_by_range", apply: func(r *ref.Rules) { r.BytesOverTimeDivByRange = true }, sql: true, metric: true},
}

// prefixStreams rebuilds the database restricted to the first n arriving entries.
func (sc *scope) prefixStreams(n int) []ref.Stream {
	out := make([]ref.Stream, len(sc.db.streams))
	for i, s := range sc.db.streams {
		out[i].Labels = s.Labels
	}
	for _, a := range sc.arrival[:n] {
		out[a.Stream].Entries = append(out[a.Stream].Entries, a.Entry)
	}
	return out
}

// evalSet evaluates the reference under a set of deviant rules over the whole arrival sequence (prefix < 0) or
// over its first `prefix` entries.
func (sc *scope) evalSet(set []int, prefix int) *expected {
	rules, rulesSQL := conv, conv
	stages := sc.u.pipe.stages
	for _, ti := range set {
		t := &toggles[ti]
		switch {
		case t.rewrite != nil:
			if st, changed := t.rewrite(sc.u, stages); changed {
				stages = st
			}
		case t.sql:
			t.apply(&rulesSQL)
		default:
			t.apply(&rules)
		}
	}
	q := sc.u.build(stages)
	streams := sc.db.streams
	if prefix >= 0 {
		streams = sc.prefixStreams(prefix)
	}
	opt := ref.Options{Forward: sc.forward, Limit: sc.limit, Rules: rules}
	if sc.o2 {
		opt.RulesBefore = rulesSQL
		opt.AllBefore = sc.split < 0
		opt.SplitAt = sc.split
	}
	if sc.u.kind == "log" {
		r, err := ref.EvalLog(q.Log, streams, opt)
		if err != nil {
			return &expected{}
		}
		return &expected{ok: true, log: consumerView(r)}
	}
	m, err := ref.EvalMetric(&q, streams, opt)
	return &expected{ok: err == nil, mat: m}
}

// prefixBefore: number of entries delivered in the messages before the one that carries arrival item idx.
func prefixBefore(fr framing, idx int) int {
	pos := 0
	for _, n := range fr.sizes {
		if idx < pos+n {
			return pos
		}
		pos += n
	}
	return pos
}

// matches: does the implementation's answer agree with the reference under this set of deviant rules?
// When a deviant rule makes the reference abort (parse failure is fatal), the engine either reports the error or -
// if a later stage swallows the error entry - silently returns what it had processed in the messages before the
// one carrying the bad line; both count as "explained by that rule".
func (e *explanation) matches(sc *scope, o *observed, fr framing) bool {
	get := func(prefix int) *expected {
		if x, ok := e.cache[prefix]; ok {
			return x
		}
		x := sc.evalSet(e.set, prefix)
		e.cache[prefix] = x
		return x
	}
	x := get(-1)
	if !x.ok {
		return false
	}
	aborted, idx := x.log.Aborted, x.log.AbortIndex
	if sc.u.kind != "log" {
		aborted, idx = x.mat.Aborted, x.mat.AbortIndex
	}
	if aborted && o.err == "" {
		if sc.u.kind == "metric" && len(o.series) == 0 {
			// the error entry killed the aggregator (which then emits nothing) and a later comparison stage
			// dropped the error entry itself: an empty answer
			return true
		}
		x = get(prefixBefore(fr, idx))
		if !x.ok {
			return false
		}
	}
	if sc.u.kind == "log" {
		return matchLog(x.log, o, sc.limit, sc.forward) == ""
	}
	return matchMat(x.mat, o) == ""
}

// knownClasses: finding classes currently listed as `known:` for C09 (set by the parent from KNOWN_FINDINGS.txt).
// A disagreement is first explained with the deviant rules of listed findings only; the rules of findings that
// are not (or no longer) listed are tried afterwards, so that a regression of a fixed defect is reported under its
// precise class and is never absorbed - nor is a fixed rule credited for a case a listed one explains.
var knownClasses = map[string]bool{}

// explain searches the smallest set of deviant rules under which reference and implementation agree.
func (sc *scope) explain(o *observed, fr framing) *explanation {
	if e := sc.explainWith(o, fr, true); e != nil {
		return e
	}
	return sc.explainWith(o, fr, false)
}

func (sc *scope) explainWith(o *observed, fr framing, listedOnly bool) *explanation {
	var cand []int
	for i := range toggles {
		t := &toggles[i]
		if (t.metric && sc.u.kind != "metric") || (t.logq && sc.u.kind != "log") {
			continue
		}
		if listedOnly && !knownClasses[t.class] {
			continue
		}
		if t.sql && (!sc.o2 || sc.split == 0) {
			continue // no stage runs on the SQL engine
		}
		if !t.sql && t.rewrite == nil && sc.o2 && sc.split < 0 {
			continue // no stage runs in process
		}
		if t.rewrite != nil {
			if _, changed := t.rewrite(sc.u, sc.u.pipe.stages); !changed {
				continue
			}
		}
		cand = append(cand, i)
	}
	try := func(set ...int) *explanation {
		e := &explanation{set: set, cache: map[int]*expected{}}
		if !e.matches(sc, o, fr) {
			return nil
		}
		for _, ti := range set {
			e.classes = append(e.classes, toggles[ti].class)
		}
		return e
	}
	for _, a := range cand {
		if e := try(a); e != nil {
			return e
		}
	}
	for i, a := range cand {
		for _, b := range cand[i+1:] {
			if e := try(a, b); e != nil {
				return e
			}
		}
	}
	// all candidate rules at once (together they are meant to be a model of the implementation), then drop
	// one rule after the other as long as reference and implementation still agree: a minimal explaining set of
	// any size in a linear number of evaluations
	if e := try(cand...); e != nil {
		set := append([]int{}, cand...)
		for i := 0; i < len(set); {
			without := append(append([]int{}, set[:i]...), set[i+1:]...)
			if len(without) > 0 && try(without...) != nil {
				set = without
				continue
			}
			i++
		}
		return try(set...)
	}
	for i := 0; i < len(cand); i++ {
		for j := i + 1; j < len(cand); j++ {
			for k := j + 1; k < len(cand); k++ {
				if e := try(cand[i], cand[j], cand[k]); e != nil {
					return e
				}
			}
		}
	}
	for i := 0; i < len(cand); i++ {
		for j := i + 1; j < len(cand); j++ {
			for k := j + 1; k < len(cand); k++ {
				for l := k + 1; l < len(cand); l++ {
					if e := try(cand[i], cand[j], cand[k], cand[l]); e != nil {
						return e
					}
				}
			}
		}
	}
	return nil
}

// ---------------------------------------------------------------------------------------------------------------
// judging one case

type finding struct {
	Class  string          `json:"class"`
	What   string          `json:"what"`
	Replay json.RawMessage `json:"replay"`
}

// replayDoc identifies the unit by the names of its alphabet elements and carries the data of the case.
type replayDoc struct {
	Kind    string       `json:"kind"`
	Pipe    []string     `json:"pipeline"`
	Shape   string       `json:"shape,omitempty"`
	Query   string       `json:"query"`
	DB      string       `json:"db"`
	Streams []ref.Stream `json:"streams"`
	Framing []int        `json:"framing"`
	Case    c09lib.Case  `json:"case"`
	O2      *o2Replay    `json:"o2,omitempty"`
}

func sanitizeClass(s string) string {
	var b strings.Builder
	for _, r := range strings.ToLower(s) {
		switch {
		case r >= 'a' && r <= 'z', r >= '0' && r <= '9':
			b.WriteRune(r)
		default:
			if b.Len() > 0 && !strings.HasSuffix(b.String(), "_") {
				b.WriteByte('_')
			}
		}
	}
	out := strings.Trim(b.String(), "_")
	if len(out) > 60 {
		out = out[:60]
	}
	return out
}

func hasSingleEqNumeric(p *pipeline) bool {
	var walk func(e *ref.LabelExpr) bool
	walk = func(e *ref.LabelExpr) bool {
		if e == nil {
			return false
		}
		if e.Kind == "cmp" {
			return e.IsNum && e.Op == "="
		}
		return walk(e.L) || walk(e.R)
	}
	for _, s := range p.stages {
		if s.Kind == ref.LabelFilter && walk(s.Filter) {
			return true
		}
	}
	return false
}

// judge compares one execution with the reference; returns the outcome class, the finding classes and a
// description of the disagreement ("" when the definition is met).
func (sc *scope) judge(out *c09lib.Output, fr framing) (outcome string, classes []string, what string) {
	switch {
	case out.PlanErr != "":
		return "unsupported:" + sanitizeClass(out.PlanErr), nil, ""
	case out.ProcessErr != "":
		return "unsupported:" + sanitizeClass(out.ProcessErr), nil, ""
	case out.Panic != "":
		c := "process_panic_" + sanitizeClass(out.Panic)
		if strings.Contains(out.Panic, "nil pointer") && hasSingleEqNumeric(&sc.u.pipe) {
			c = "label_filter_numeric_single_equals_nil_deref"
		}
		return "sync_panic", []string{c}, "Process() panics in the caller's goroutine: " + out.Panic
	case out.Hung:
		return "hang", []string{"chain_hangs"}, "output channel neither delivers nor closes"
	}
	o := observe(out)
	var d string
	if sc.u.kind == "log" {
		d = matchLog(consumerView(sc.defLog), &o, sc.limit, sc.forward)
	} else {
		d = matchMat(sc.defMat, &o)
	}
	kind := "entries"
	if out.Matrix {
		kind = "series"
	}
	if o.err != "" {
		kind = "error"
	}
	if d == "" {
		return "ok:" + kind, nil, ""
	}
	if strings.HasPrefix(o.err, "panic:") {
		// a panic in a stage goroutine that shared.TamePanic turned into an error entry
		return "tamed_panic", []string{"stage_panic_" + sanitizeClass(strings.TrimPrefix(o.err, "panic:"))}, "query failed: " + o.err
	}
	for i := range sc.expl {
		if sc.expl[i].matches(sc, &o, fr) {
			return "deviant:" + kind, sc.expl[i].classes, d
		}
	}
	// d (the difference to the definition) identifies the observation well enough to remember a failed search
	if sc.failed[d] {
		return "unexplained:" + kind, []string{sc.unexplainedClass(&o)}, d
	}
	if e := sc.explain(&o, fr); e != nil {
		sc.expl = append(sc.expl, *e)
		return "deviant:" + kind, e.classes, d
	}
	if sc.failed == nil {
		sc.failed = map[string]bool{}
	}
	sc.failed[d] = true
	return "unexplained:" + kind, []string{sc.unexplainedClass(&o)}, d
}

// unexplainedClass names a disagreement no documented deviant rule accounts for: by the query's structure.
func (sc *scope) unexplainedClass(o *observed) string {
	parts := []string{"unexplained", sc.u.kind}
	if o.err != "" {
		parts = append(parts, "error", sanitizeClass(o.err))
	}
	parts = append(parts, sc.u.pipe.names...)
	if sc.u.shape != nil {
		parts = append(parts, sanitizeClass(sc.u.shape.name))
	}
	return strings.Join(parts, "_")
}

func (sc *scope) replayDoc(text string, c c09lib.Case, fr framing) replayDoc {
	d := replayDoc{Kind: sc.u.kind, Pipe: sc.u.pipe.names, Query: text, DB: sc.db.name, Streams: sc.db.streams,
		Framing: fr.sizes, Case: c}
	if sc.u.shape != nil {
		d.Shape = sc.u.shape.name
	}
	return d
}

func (sc *scope) replay(text string, c c09lib.Case, fr framing) json.RawMessage {
	b, _ := json.Marshal(sc.replayDoc(text, c, fr))
	return b
}

// unitFromNames rebuilds a unit from alphabet element names (replay).
func unitFromNames(kind string, names []string, shapeName string) (*unit, error) {
	if len(names) == 0 {
		return nil, fmt.Errorf("empty pipeline")
	}
	u := &unit{kind: kind, level: 2}
	alpha := stageAlphabet()
	if names[0] == "o2" {
		u.o2 = true
		u.pipe = pipeline{names: names, family: "json"}
		alpha = o2Alphabet(1)
	} else {
		var head *atom
		for _, h := range headAtoms() {
			if h.name == names[0] {
				hh := h
				head = &hh
			}
		}
		if head == nil {
			return nil, fmt.Errorf("unknown head %q", names[0])
		}
		u.pipe = pipeline{names: names, stages: []ref.Stage{head.stage}, alts: []*ref.Stage{nil}, family: "json"}
		if names[0] == "logfmt" {
			u.pipe.family = "logfmt"
		}
	}
	for _, n := range names[1:] {
		found := false
		for _, a := range alpha {
			if a.name == n {
				u.pipe.stages = append(u.pipe.stages, a.stage)
				u.pipe.alts = append(u.pipe.alts, a.alt)
				found = true
			}
		}
		if !found {
			return nil, fmt.Errorf("unknown stage %q", n)
		}
	}
	if kind == "metric" {
		for _, s := range shapes(1) {
			if s.name == shapeName {
				ss := s
				u.shape = &ss
			}
		}
		if u.shape == nil {
			return nil, fmt.Errorf("unknown shape %q", shapeName)
		}
	}
	return u, nil
}

// unitResult is what a worker reports per unit.
type unitResult struct {
	Unit     int              `json:"u"`
	Name     string           `json:"name"`
	Query    string           `json:"query"`
	Runs     int64            `json:"runs"`
	Msgs     int64            `json:"msgs"`
	Entries  int64            `json:"entries"`
	Outcomes map[string]int64 `json:"outcomes"`
	Classes  map[string]int64 `json:"classes,omitempty"`
	Findings []finding        `json:"findings,omitempty"`
	Err      string           `json:"err,omitempty"`
	// O2: SQL the reference interpreter does not support (never a verdict)
	Unsupported []string `json:"chsim_unsupported,omitempty"`
	// the first case of the unit, written out (every 500th unit; evidence samples)
	Sample *c09lib.Case `json:"sample,omitempty"`
}

// runUnit executes every case of a unit.  journal is called before each execution.
func runUnit(ui int, u *unit, journal func(seq int), only int) unitResult {
	q := u.query()
	text := q.String()
	res := unitResult{Unit: ui, Name: u.name(), Query: text, Outcomes: map[string]int64{}, Classes: map[string]int64{}}
	script, err := c09lib.Parse(text)
	if err != nil {
		res.Outcomes["unsupported:parse"]++
		res.Err = "parse: " + err.Error()
		return res
	}
	reported := map[string]int{}
	err = forEachCase(u, func(seq int, sc *scope, fr framing) bool {
		if only >= 0 && seq != only {
			return seq < only
		}
		// sc is the same object for all framings of one (db, direction, limit): explanations are found once
		keep := sc
		c := keep.buildCase(text, fr)
		if res.Runs == 0 && ui%500 == 7 {
			cc := c
			res.Sample = &cc
		}
		journal(seq)
		out := c09lib.RunScript(script, c)
		res.Runs++
		res.Msgs += int64(len(c.Msgs))
		res.Entries += int64(len(keep.arrival))
		outcome, classes, what := keep.judge(&out, fr)
		res.Outcomes[outcome]++
		for _, cl := range classes {
			res.Classes[cl]++
			if reported[cl] < 1 {
				reported[cl]++
				w := fmt.Sprintf("%s  db=%s forward=%v limit=%d msgs=%v eof=%v: %s", text, keep.db.name, keep.forward, keep.limit,
					fr.sizes, fr.eof, what)
				if len(w) > 600 {
					w = w[:600] + "..."
				}
				res.Findings = append(res.Findings, finding{Class: cl, What: w, Replay: keep.replay(text, c, fr)})
			}
		}
		return true
	})
	if err != nil {
		res.Err = err.Error()
	}
	return res
}

func sortedKeys(m map[string]int64) []string {
	ks := make([]string, 0, len(m))
	for k := range m {
		ks = append(ks, k)
	}
	sort.Strings(ks)
	return ks
}
