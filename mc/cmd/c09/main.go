// Check C09: a LogQL result does not depend on which engine ran each pipeline stage.
//
// The real in-process engine (internal_planner.Plan -> chain of stage goroutines) is driven by a scripted upstream
// (mc/c09lib) over an exhaustively enumerated bounded space of pipelines x aggregation shapes x upstream
// databases x framings of the entry sequence into channel messages x limits x directions, and every output is
// compared with the reference evaluator mc/logqlref (O1).  See NOTES.md.
package main

import (
	"bufio"
	"encoding/binary"
	"encoding/json"
	"fmt"
	"os"
	"os/exec"
	"path/filepath"
	"regexp"
	"runtime/pprof"
	"sort"
	"strconv"
	"strings"
	"sync"
	"time"

	"verif/mc/c09lib"
	"verif/mc/ev"
	ref "verif/mc/logqlref"
)

const envSpec = "C09_WORKER_SPEC"

type workerSpec struct {
	Shard, Shards int
	From          int
	OnlyUnit      int // >= 0: run only this unit ...
	OnlySeq       int // ... and, when >= 0, only this case of it
	DeadlineNs    int64
	Journal       string
	Thorough      bool
	ReplayFile    string
	Known         []string // finding classes listed as known: for C09
	Filter        string   // development aid (C09_FILTER): only units whose name contains this
}

func main() {
	if s := os.Getenv(envSpec); s != "" {
		var sp workerSpec
		if err := json.Unmarshal([]byte(s), &sp); err != nil {
			fmt.Fprintln(os.Stderr, "bad worker spec:", err)
			os.Exit(2)
		}
		for _, k := range sp.Known {
			knownClasses[k] = true
		}
		workerMain(sp)
		return
	}
	parentMain()
}

// ---------------------------------------------------------------------------------------------------------------
// worker

func workerMain(sp workerSpec) {
	if pf := os.Getenv("C09_CPUPROFILE"); pf != "" {
		f, _ := os.Create(pf)
		pprof.StartCPUProfile(f)
		defer pprof.StopCPUProfile()
	}
	out := bufio.NewWriterSize(os.Stdout, 1<<16)
	emit := func(tag string, v any) {
		out.WriteString(tag)
		if v != nil {
			b, _ := json.Marshal(v)
			out.WriteByte(' ')
			out.Write(b)
		}
		out.WriteByte('\n')
		out.Flush()
	}
	if sp.ReplayFile != "" {
		emit("R", replayOne(sp.ReplayFile))
		emit("D", nil)
		return
	}
	jf, err := os.OpenFile(sp.Journal, os.O_RDWR|os.O_CREATE, 0o644)
	if err != nil {
		fmt.Fprintln(os.Stderr, "journal:", err)
		os.Exit(2)
	}
	var jb [16]byte
	us := units(sp.Thorough)
	if sp.OnlyUnit >= 0 {
		u := &us[sp.OnlyUnit]
		run := runUnit
		if u.o2 {
			run = runUnitO2
		}
		res := run(sp.OnlyUnit, u, func(seq int) {
			binary.LittleEndian.PutUint64(jb[0:], uint64(sp.OnlyUnit))
			binary.LittleEndian.PutUint64(jb[8:], uint64(seq))
			jf.WriteAt(jb[:], 0)
		}, sp.OnlySeq)
		emit("U", &res)
		emit("D", nil)
		return
	}
	for ui := sp.From; ui < len(us); ui++ {
		if ui%sp.Shards != sp.Shard || (sp.Filter != "" && !strings.Contains(us[ui].name(), sp.Filter)) {
			continue
		}
		if sp.DeadlineNs != 0 && time.Now().UnixNano() > sp.DeadlineNs {
			emit("X", ui)
			return
		}
		u := &us[ui]
		run := runUnit
		if u.o2 {
			run = runUnitO2
		}
		res := run(ui, u, func(seq int) {
			binary.LittleEndian.PutUint64(jb[0:], uint64(ui))
			binary.LittleEndian.PutUint64(jb[8:], uint64(seq))
			jf.WriteAt(jb[:], 0)
		}, -1)
		emit("U", &res)
	}
	emit("D", nil)
}

type replayResult struct {
	Outcome string         `json:"outcome"`
	Classes []string       `json:"classes"`
	What    string         `json:"what"`
	Raw     *c09lib.Output `json:"raw,omitempty"`
}

func loadReplay(path string) (*replayDoc, error) {
	b, err := os.ReadFile(path)
	if err != nil {
		return nil, err
	}
	var wrap struct {
		Replay replayDoc `json:"replay"`
	}
	if err := json.Unmarshal(b, &wrap); err != nil {
		return nil, err
	}
	if len(wrap.Replay.Pipe) == 0 {
		if err := json.Unmarshal(b, &wrap.Replay); err != nil {
			return nil, err
		}
	}
	return &wrap.Replay, nil
}

func replayOne(path string) replayResult {
	doc, err := loadReplay(path)
	if err != nil {
		return replayResult{Outcome: "harness-error", What: err.Error()}
	}
	u, err := unitFromNames(doc.Kind, doc.Pipe, doc.Shape)
	if err != nil {
		return replayResult{Outcome: "harness-error", What: err.Error()}
	}
	q := u.query()
	db := &database{name: "replay", streams: doc.Streams, metric: true}
	opt := ref.Options{Forward: doc.Case.Forward, Rules: conv}
	sc := &scope{u: u, q: q, db: db, forward: doc.Case.Forward, limit: int(doc.Case.Limit), arrival: ref.Arrival(db.streams, opt)}
	if doc.Kind == "log" {
		r, err := ref.EvalLog(q.Log, db.streams, ref.Options{Forward: opt.Forward, Rules: conv, Limit: sc.limit})
		if err != nil {
			return replayResult{Outcome: "harness-error", What: err.Error()}
		}
		sc.defLog = r
	} else {
		m, err := ref.EvalMetric(&q, db.streams, opt)
		if err != nil {
			return replayResult{Outcome: "harness-error", What: err.Error()}
		}
		sc.defMat = m
	}
	c := doc.Case
	c.Query = q.String()
	if doc.O2 != nil {
		sc.o2, sc.split = true, doc.O2.Split
		outcome, classes, what, sqlText, uns := sc.judgeO2(c.Query, c)
		return replayResult{Outcome: outcome, Classes: classes, What: what + " " + uns + " SQL: " + sqlText}
	}
	out := c09lib.Run(c)
	eof := false
	for _, m := range c.Msgs {
		for _, e := range m {
			eof = eof || e.EOF
		}
	}
	outcome, classes, what := sc.judge(&out, framing{sizes: doc.Framing, eof: eof})
	return replayResult{Outcome: outcome, Classes: classes, What: what, Raw: &out}
}

// ---------------------------------------------------------------------------------------------------------------
// parent

type spawnResult struct {
	done, stopped bool
	lastUnit      int // last unit reported complete (-1: none)
	stderrTail    string
	results       []unitResult
	replay        *replayResult
}

func spawn(sp workerSpec, onUnit func(*unitResult)) spawnResult {
	b, _ := json.Marshal(sp)
	self, err := os.Executable()
	if err != nil {
		self = os.Args[0]
	}
	cmd := exec.Command("/bin/bash", "-c", `ulimit -v 12000000 2>/dev/null; exec "$0"`, self)
	cmd.Env = append(os.Environ(), envSpec+"="+string(b), "GOMAXPROCS=1")
	tail := &tailBuf{max: 6000}
	cmd.Stderr = tail
	pr, err := cmd.StdoutPipe()
	res := spawnResult{lastUnit: -1}
	if err != nil {
		res.stderrTail = err.Error()
		return res
	}
	if err := cmd.Start(); err != nil {
		res.stderrTail = err.Error()
		return res
	}
	sc := bufio.NewScanner(pr)
	sc.Buffer(make([]byte, 1<<20), 256<<20)
	for sc.Scan() {
		line := sc.Text()
		tag, rest, _ := strings.Cut(line, " ")
		switch tag {
		case "U":
			var ur unitResult
			if json.Unmarshal([]byte(rest), &ur) == nil {
				res.lastUnit = ur.Unit
				if onUnit != nil {
					onUnit(&ur)
				} else {
					res.results = append(res.results, ur)
				}
			}
		case "R":
			var rr replayResult
			if json.Unmarshal([]byte(rest), &rr) == nil {
				res.replay = &rr
			}
		case "X":
			res.stopped = true
		case "D":
			res.done = true
		}
	}
	cmd.Wait()
	res.stderrTail = tail.String()
	return res
}

var (
	panicRe = regexp.MustCompile(`(?m)^panic: (.*)$`)
	fatalRe = regexp.MustCompile(`(?m)^fatal error: (.*)$`)
	frameRe = regexp.MustCompile(`internal_planner\.\(\*([A-Za-z0-9_]+)\)`)
)

func crashClass(tail string) (class, msg string) {
	msg = "process died without a panic message"
	if m := panicRe.FindStringSubmatch(tail); m != nil {
		msg = m[1]
	} else if m := fatalRe.FindStringSubmatch(tail); m != nil {
		msg = m[1]
	}
	where := "unknown_stage"
	if m := frameRe.FindStringSubmatch(tail); m != nil {
		where = m[1]
	}
	return "crash_" + sanitizeClass(where+" "+msg), msg
}

func readJournal(path string) (ui, seq int, ok bool) {
	b, err := os.ReadFile(path)
	if err != nil || len(b) < 16 {
		return 0, 0, false
	}
	return int(binary.LittleEndian.Uint64(b[0:])), int(binary.LittleEndian.Uint64(b[8:])), true
}

// describe rebuilds the replay document of case (ui, seq) without running it.
func describe(us []unit, ui, seq int) json.RawMessage {
	u := &us[ui]
	q := u.query()
	text := q.String()
	var doc json.RawMessage
	if u.o2 {
		forEachCaseO2(u, func(s int, sc *scope, c c09lib.Case) bool {
			if s == seq {
				doc = sc.replayO2(text, c, "")
				return false
			}
			return true
		})
		return doc
	}
	forEachCase(u, func(s int, sc *scope, fr framing) bool {
		if s == seq {
			doc = sc.replay(text, sc.buildCase(text, fr), fr)
			return false
		}
		return true
	})
	return doc
}

func parentMain() {
	r := ev.Start("C09", "model_checking", 70*time.Second, 17*time.Minute)
	scratch := os.Getenv("VERIF_SCRATCH")
	if scratch == "" {
		d, err := os.MkdirTemp("/var/tmp", "verif-c09-")
		if err != nil {
			ev.Fatal("no scratch: %v", err)
		}
		scratch = d
		defer os.RemoveAll(d)
	}
	r.Rule = "one evaluation = one execution of the real internal_planner chain (fresh Plan per execution) on a scripted " +
		"upstream, compared with the reference evaluator; cases = (pipeline of head + <=2 stages | aggregation shape) x " +
		"upstream database (<=3 series, <=4 entries each) x every framing of the entry sequence into channel messages " +
		"(all compositions incl. EOF marker alone, one empty message at every position, no marker) x limit {0,1,n,n+1} x " +
		"direction; distinct = distinct query texts"
	r.Assumptions = []string{
		"upstream entries arrive ordered by timestamp in the requested direction (the ClickHouse part ends in ORDER BY timestamp_ns) and inside [From,To); From is a multiple of the range (FixPeriodPlanner truncates it)",
		"label-filter regexes are compared as RE2 search (DESIGN.md C07: anchoring is not demanded); labels with an empty value count as absent; __error__ labels are not demanded",
		"the scripted upstream ignores cancellation (losing that race is a legal behaviour of ClickhouseGetterPlanner.Scan)",
		"reference semantics of mc/logqlref (README there) are the trusted base; first/last_over_time with equal timestamps and limit cuts through equal timestamps are treated as open",
		"O2: SQL rendered by the real clickhouse_planner is executed by the reference interpreter mc/chsim (trusted; ErrUnsupported is counted, never a verdict); legal split points are 0..GetBreakpoint (or the number of stages) and the all-SQL plan when GetBreakpoint asks for no split",
	}

	knownFile := filepath.Join(ev.Root(), "KNOWN_FINDINGS.txt")
	if f := os.Getenv("C09_KNOWN_FILE"); f != "" {
		knownFile = f // experiments only: which findings the explanation search may assume
	}
	var known []string
	for _, k := range ev.LoadKnown(knownFile) {
		if k.Status == "known" && k.Property == "C09" {
			known = append(known, k.Class)
		}
	}
	sort.Strings(known)
	if r.Replay != "" {
		replayMain(r, scratch, known)
		return
	}

	us := units(r.Thorough())
	if os.Getenv("C09_COUNT") != "" {
		tot := map[string]int64{}
		nu := map[string]int{}
		for i := range us {
			k := fmt.Sprintf("%s/tail%d/level%d", us[i].kind, len(us[i].pipe.stages)-1, us[i].level)
			if us[i].o2 {
				k = fmt.Sprintf("o2/%s/stages%d", us[i].kind, len(us[i].pipe.stages))
			}
			nu[k]++
			if nu[k] > 40 && nu[k]%25 != 0 {
				continue // sample: every 25th unit of a category is counted exactly
			}
			n := int64(0)
			if us[i].o2 {
				forEachCaseO2(&us[i], func(int, *scope, c09lib.Case) bool { n++; return true })
			} else {
				forEachCase(&us[i], func(int, *scope, framing) bool { n++; return true })
			}
			if nu[k] > 40 {
				n *= 25
			}
			tot[k] += n
		}
		var sum int64
		for k, v := range tot {
			fmt.Printf("%-28s units=%6d executions~%d\n", k, nu[k], v)
			sum += v
		}
		fmt.Println("total executions ~", sum, "units", len(us))
		os.Exit(0)
	}
	nw := 16
	if s := os.Getenv("C09_WORKERS"); s != "" {
		if n, err := strconv.Atoi(s); err == nil && n > 0 {
			nw = n
		}
	}
	var mu sync.Mutex
	totals := struct {
		runs, msgs, entries int64
		outcomes, classes   map[string]int64
		unsupported         map[string]int64
		unitsDone           int
		crashedUnits        []string
		flaky               []string
		unitErrs            []string
		chsimUnsupported    []string
	}{outcomes: map[string]int64{}, classes: map[string]int64{}, unsupported: map[string]int64{}}
	confirmed := map[string]bool{} // crash class -> reproduced 3x
	onUnit := func(ur *unitResult) {
		mu.Lock()
		defer mu.Unlock()
		totals.unitsDone++
		totals.runs += ur.Runs
		totals.msgs += ur.Msgs
		totals.entries += ur.Entries
		r.AddEval(ur.Runs)
		if ur.Runs > 0 {
			r.Distinct(ur.Query)
		}
		for k, v := range ur.Outcomes {
			totals.outcomes[k] += v
			if strings.HasPrefix(k, "unsupported:") {
				totals.unsupported[k[len("unsupported:"):]+"  e.g. "+ur.Query] += v
			}
		}
		for k, v := range ur.Classes {
			totals.classes[k] += v
		}
		for _, x := range ur.Unsupported {
			if len(totals.chsimUnsupported) < 20 {
				totals.chsimUnsupported = append(totals.chsimUnsupported, x)
			}
		}
		if ur.Err != "" && len(totals.unitErrs) < 20 {
			totals.unitErrs = append(totals.unitErrs, ur.Name+": "+ur.Err)
		}
		if ur.Sample != nil {
			r.Sample(map[string]any{"query": ur.Query, "unit": ur.Name, "executions_in_unit": ur.Runs, "outcomes_in_unit": ur.Outcomes,
				"first_case": ur.Sample})
		}
		for _, f := range ur.Findings {
			if dc := os.Getenv("C09_DUMP_CLASS"); dc != "" && f.Class == dc {
				fmt.Printf("DUMP %s %s\n", f.Class, f.What)
			}
			// json.RawMessage keeps the document byte for byte: decoding into `any` would turn the nanosecond
			// timestamps into float64 and round them
			rep := json.RawMessage(f.Replay)
			keepExample(f.Class, f.What, rep)
			r.Violate(f.Class, f.What, rep)
		}
	}
	var wg sync.WaitGroup
	for k := 0; k < nw; k++ {
		wg.Add(1)
		go func(k int) {
			defer wg.Done()
			journal := fmt.Sprintf("%s/journal-%d", scratch, k)
			sp := workerSpec{Shard: k, Shards: nw, From: 0, OnlyUnit: -1, OnlySeq: -1, DeadlineNs: r.Deadline.UnixNano(),
				Journal: journal, Thorough: r.Thorough(), Known: known, Filter: os.Getenv("C09_FILTER")}
			idle := 0
			for {
				os.WriteFile(journal, make([]byte, 16), 0o644)
				res := spawn(sp, onUnit)
				if res.stopped {
					r.Cap("internal deadline reached")
					return
				}
				if res.done {
					return
				}
				ui, seq, ok := readJournal(journal)
				if !ok || ui%nw != k || ui < sp.From {
					idle++
					if idle > 3 {
						ev.Fatal("worker %d dies outside any case: %s", k, res.stderrTail)
					}
					continue
				}
				class, msg := crashClass(res.stderrTail)
				mu.Lock()
				reproduced, seen := confirmed[class]
				mu.Unlock()
				if !seen {
					deaths := 0
					for a := 0; a < 3; a++ {
						one := workerSpec{Shards: 1, OnlyUnit: ui, OnlySeq: seq, Journal: journal + ".one", Thorough: r.Thorough(), Known: known}
						if rr := spawn(one, func(*unitResult) {}); !rr.done {
							deaths++
						}
					}
					reproduced = deaths == 3
					mu.Lock()
					confirmed[class] = reproduced
					mu.Unlock()
				}
				u := &us[ui]
				q := u.query()
				mu.Lock()
				if reproduced {
					totals.crashedUnits = append(totals.crashedUnits, u.name())
					totals.classes[class]++
					totals.outcomes["crash"]++
					rep := describe(us, ui, seq)
					what := fmt.Sprintf("%s: a panic in a stage goroutine kills the whole process (%s); the rest of this unit was not run",
						q.String(), msg)
					keepExample(class, what, rep)
					r.Violate(class, what, rep)
				} else {
					totals.flaky = append(totals.flaky, fmt.Sprintf("%s case %d: %s", u.name(), seq, msg))
				}
				mu.Unlock()
				sp.From = ui + 1
			}
		}(k)
	}
	wg.Wait()

	r.States = totals.runs
	r.Transitions = totals.msgs
	r.TracesValidated = totals.runs
	for _, k := range sortedKeys(totals.outcomes) {
		for i := int64(0); i < totals.outcomes[k]; i++ {
			r.Outcome(k)
		}
	}
	sort.Strings(totals.crashedUnits)
	cu := totals.crashedUnits
	if len(cu) > 12 {
		cu = append(append([]string{}, cu[:12]...), fmt.Sprintf("... %d more", len(totals.crashedUnits)-12))
	}
	var uns []string
	for k, v := range totals.unsupported {
		uns = append(uns, fmt.Sprintf("%s (%d executions)", k, v))
	}
	sort.Strings(uns)
	nlog, nmet := 0, 0
	qs := map[string]bool{}
	for i := range us {
		if us[i].kind == "log" {
			nlog++
		} else {
			nmet++
		}
		q := us[i].query()
		qs[q.String()] = true
	}
	r.Extra["units"] = map[string]any{"total": len(us), "finished": totals.unitsDone, "log": nlog, "metric": nmet,
		"distinct_queries": len(qs), "cut_short_by_crash": len(totals.crashedUnits)}
	r.Extra["executions"] = totals.runs
	r.Extra["channel_messages_fed"] = totals.msgs
	r.Extra["entries_fed"] = totals.entries
	r.Extra["outcome_counts"] = totals.outcomes
	r.Extra["finding_class_counts"] = totals.classes
	r.Extra["unsupported_shapes"] = uns
	r.Extra["units_cut_short_by_crash"] = cu
	r.Extra["workers"] = nw
	o2n := int64(0)
	for k, v := range totals.outcomes {
		if strings.HasPrefix(k, "o2:") {
			o2n += v
		}
	}
	r.Extra["o2"] = map[string]any{"split_executions": o2n, "chsim_unsupported_examples": totals.chsimUnsupported,
		"note": "every pipeline position is a split point (real breakScript), SQL part executed by mc/chsim; outcomes prefixed o2:"}
	if len(totals.flaky) > 0 {
		r.Extra["worker_deaths_not_reproduced"] = totals.flaky
	}
	if len(totals.unitErrs) > 0 {
		r.Extra["unit_errors"] = totals.unitErrs
		ev.Fatal("reference evaluator failed on enumerated queries: %v", totals.unitErrs)
	}
	if f := os.Getenv("C09_FILTER"); f != "" {
		r.Cap("development filter C09_FILTER=" + f)
	}
	if totals.unitsDone+len(totals.crashedUnits) < len(us) && r.Exhaustive {
		ev.Fatal("units lost: %d finished + %d crashed of %d", totals.unitsDone, len(totals.crashedUnits), len(us))
	}
	r.Finish()
}

// keepExample stores the first case of every finding class (known ones included: ev only writes replay files for
// unlisted violations) as replays/C09/class-<class>.json, replayable with `bin/check C09 --replay <file>`.
var exampleSeen = map[string]bool{}

func keepExample(class, what string, rep any) {
	if exampleSeen[class] {
		return
	}
	exampleSeen[class] = true
	dir := filepath.Join(ev.Out(), "replays", "C09")
	os.MkdirAll(dir, 0o755)
	b, _ := json.MarshalIndent(map[string]any{"property": "C09", "class": class, "what": what, "replay": rep}, "", " ")
	os.WriteFile(filepath.Join(dir, "class-"+class+".json"), b, 0o644)
}

func replayMain(r *ev.Run, scratch string, known []string) {
	deaths := 0
	var last spawnResult
	for a := 0; a < 3; a++ {
		last = spawn(workerSpec{ReplayFile: r.Replay, OnlyUnit: -1, OnlySeq: -1, Known: known}, nil)
		if last.done {
			break
		}
		deaths++
	}
	doc, _ := loadReplay(r.Replay)
	var rep json.RawMessage
	if doc != nil {
		b, _ := json.Marshal(doc)
		rep = b
	}
	r.AddEval(1)
	r.States, r.Transitions = 1, 1
	switch {
	case deaths == 3:
		class, msg := crashClass(last.stderrTail)
		r.Violate(class, "replayed case kills the process: "+msg, rep)
	case last.replay == nil:
		ev.Fatal("replay worker gave no result: %s", last.stderrTail)
	case last.replay.Outcome == "harness-error":
		ev.Fatal("replay: %s", last.replay.What)
	default:
		fmt.Printf("replay outcome=%s classes=%v %s\n", last.replay.Outcome, last.replay.Classes, last.replay.What)
		if os.Getenv("C09_RAW") != "" {
			b, _ := json.MarshalIndent(last.replay.Raw, "", " ")
			fmt.Println(string(b))
		}
		for _, c := range last.replay.Classes {
			r.Violate(c, last.replay.What, rep)
		}
	}
	r.Finish()
}

type tailBuf struct {
	mu  sync.Mutex
	b   []byte
	max int
}

func (t *tailBuf) Write(p []byte) (int, error) {
	t.mu.Lock()
	t.b = append(t.b, p...)
	if len(t.b) > 4*t.max {
		// keep head (the "panic:" line comes first) and tail
		t.b = append(append([]byte(nil), t.b[:t.max]...), t.b[len(t.b)-t.max:]...)
	}
	t.mu.Unlock()
	return len(p), nil
}

func (t *tailBuf) String() string {
	t.mu.Lock()
	defer t.mu.Unlock()
	return string(t.b)
}
