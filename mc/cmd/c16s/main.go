// C16 (schedules): "the stored call tree conserves weight" when profile pushes are concurrent.  The real profile
// parsers (writer/utils/unmarshal builder.go, golangPprof.go, binaryPprof.go instrumented through the build overlay:
// goroutines, channel operations and a scheduling point before every statement) are driven by 2 request threads under
// the controlled scheduler (engine E1) for every interleaving within the deviation bound.  GOMAXPROCS(1): sync.Pool
// hands an object put by one thread to the next Get of any thread (LIFO on the one P).
// Oracle: what each request emits (tree, functions, sample types, values_agg) equals what the same request emits when it
// is alone in the process, and the emitted tree conserves weight (total = self + children totals; roots = sum of values).
package main

import (
	"bytes"
	"context"
	"fmt"
	"io"
	"mime/multipart"
	"os"
	"runtime"
	"sort"
	"strings"
	"time"

	"github.com/google/pprof/profile"
	wmodel "github.com/metrico/qryn/writer/model"
	"github.com/metrico/qryn/writer/utils/logger"
	"github.com/metrico/qryn/writer/utils/unmarshal"

	"verif/mc/ev"
	"verif/mc/sched"
	"verif/mc/sched/vsync"
)

type sample struct {
	stack []int // function indices, leaf first
	vals  []int64
}
type prof struct {
	name    string
	types   int
	samples []sample
}

var fnNames = []string{"main", "a.b/c", "λ.fn"}
var typeNames = [][2]string{{"samples", "count"}, {"cpu", "nanoseconds"}}

func (p *prof) bytes(gz bool) []byte {
	pp := &profile.Profile{PeriodType: &profile.ValueType{Type: "cpu", Unit: "nanoseconds"}, Period: 10000000,
		TimeNanos: 1700000000000000000, DurationNanos: 10000000000}
	for j := 0; j < p.types; j++ {
		pp.SampleType = append(pp.SampleType, &profile.ValueType{Type: typeNames[j][0], Unit: typeNames[j][1]})
	}
	m := &profile.Mapping{ID: 1, Start: 0x1000, Limit: 0x9000, File: "/bin/app", HasFunctions: true}
	pp.Mapping = []*profile.Mapping{m}
	locs := map[int]*profile.Location{}
	for _, s := range p.samples {
		smp := &profile.Sample{Value: append([]int64{}, s.vals...)}
		for _, fi := range s.stack {
			if locs[fi] == nil {
				f := &profile.Function{ID: uint64(fi + 1), Name: fnNames[fi], SystemName: fnNames[fi], Filename: "f.go", StartLine: int64(10 * (fi + 1))}
				pp.Function = append(pp.Function, f)
				locs[fi] = &profile.Location{ID: uint64(fi + 1), Mapping: m, Address: uint64(0x1000 + 16*fi), Line: []profile.Line{{Function: f, Line: int64(100 * fi)}}}
				pp.Location = append(pp.Location, locs[fi])
			}
			smp.Location = append(smp.Location, locs[fi])
		}
		pp.Sample = append(pp.Sample, smp)
	}
	var buf bytes.Buffer
	var err error
	if gz {
		err = pp.Write(&buf)
	} else {
		err = pp.WriteUncompressed(&buf)
	}
	if err != nil {
		ev.Fatal("render %s: %v", p.name, err)
	}
	return buf.Bytes()
}

const (
	viaBinary = iota
	viaMultipart
)

var viaName = []string{"binary", "multipart"}

func body(p *prof, via int) []byte {
	if via == viaBinary {
		return p.bytes(false)
	}
	var buf bytes.Buffer
	w := multipart.NewWriter(&buf)
	w.SetBoundary("verifboundary0123456789")
	fw, _ := w.CreateFormFile("profile", "profile.pprof")
	fw.Write(p.bytes(true))
	w.Close()
	return buf.Bytes()
}

func pushCtx() context.Context {
	ctx := context.WithValue(context.Background(), "from", "1700000000000000000")
	ctx = context.WithValue(ctx, "until", "1700000010000000000")
	return context.WithValue(ctx, "name", "app{env=prod}")
}

// push runs one request through the exported parser and renders what it emitted (tree rows sorted by node id: their
// order comes from a Go map) after the parser's channel was closed.
func push(b []byte, via int) string {
	fn := unmarshal.UnmarshalBinaryStreamProfileProtoV2
	if via == viaMultipart {
		fn = unmarshal.UnmarshalProfileProtoV2
	}
	var pds []*wmodel.ProfileData
	var sb strings.Builder
	for r := range sched.RangeChan((<-chan *wmodel.ParserResponse)(fn(pushCtx(), bytes.NewReader(b), nil))) {
		if r.Error != nil {
			fmt.Fprintf(&sb, "ERR(%v);", r.Error)
		} else if pd, ok := r.ProfileRequest.(*wmodel.ProfileData); ok {
			pds = append(pds, pd)
		}
	}
	for _, pd := range pds {
		sb.WriteString(render(pd))
	}
	return sb.String()
}

func render(pd *wmodel.ProfileData) string {
	var sb strings.Builder
	type row struct {
		parent, fn, node uint64
		vals             string
		self, total      []int64
	}
	var rows []row
	for _, t := range pd.Tree {
		r := row{parent: t.Field1, fn: t.Field2, node: t.Field3}
		for _, v := range t.ValueArrTuple {
			r.vals += fmt.Sprintf("%s=%d/%d,", v.ValueStr, v.FirstValueInt64, v.SecondValueInt64)
			r.self = append(r.self, v.FirstValueInt64)
			r.total = append(r.total, v.SecondValueInt64)
		}
		rows = append(rows, r)
	}
	sort.Slice(rows, func(i, j int) bool { return rows[i].node < rows[j].node })
	fmt.Fprintf(&sb, "types=%v agg=%v ptype=%v fns=", pd.SamplesTypesUnits, pd.ValuesAgg, pd.Ptype)
	fns := append([]wmodel.Function{}, pd.Function...)
	sort.Slice(fns, func(i, j int) bool { return fns[i].ValueInt64 < fns[j].ValueInt64 })
	fmt.Fprintf(&sb, "%v tree=", fns)
	for _, r := range rows {
		fmt.Fprintf(&sb, "[%x<-%x f%x %s]", r.node, r.parent, r.fn, r.vals)
	}
	// weight conservation of the emitted tree
	ids := map[uint64]bool{}
	for _, r := range rows {
		ids[r.node] = true
	}
	for k := range pd.SamplesTypesUnits {
		var roots int64
		for _, r := range rows {
			if k >= len(r.total) {
				fmt.Fprintf(&sb, " BROKEN(node %x has %d values)", r.node, len(r.total))
				continue
			}
			var kids int64
			for _, c := range rows {
				if c.parent == r.node && c.node != r.node && k < len(c.total) {
					kids += c.total[k]
				}
			}
			if r.total[k] != r.self[k]+kids {
				fmt.Fprintf(&sb, " BROKEN(node %x type %d: total %d != self %d + children %d)", r.node, k, r.total[k], r.self[k], kids)
			}
			if !ids[r.parent] {
				roots += r.total[k]
			}
		}
		if k < len(pd.ValuesAgg) && roots != pd.ValuesAgg[k].ValueInt64 {
			fmt.Fprintf(&sb, " BROKEN(type %d: root totals %d != sum of sample values %d)", k, roots, pd.ValuesAgg[k].ValueInt64)
		}
	}
	return sb.String()
}

type scenario struct {
	name   string
	via    []int
	bodies [][]byte
	alone  []string // the answer of each request when it is alone in the process
}

func (s *scenario) Name() string { return s.name }

func (s *scenario) Run() any {
	got := make([]string, len(s.bodies))
	var wg vsync.WaitGroup
	for i := range s.bodies {
		i := i
		wg.Add(1)
		sched.GoNamed(fmt.Sprintf("req%d", i), false, func() {
			defer wg.Done()
			got[i] = push(s.bodies[i], s.via[i])
		})
	}
	wg.Wait()
	return got
}

func (s *scenario) Check(x any, res *sched.Result) (string, []sched.Finding) {
	got, _ := x.([]string)
	if res.Failure != "" || got == nil {
		cls := "profile_push_" + strings.SplitN(res.Failure, ":", 2)[0]
		return res.Failure, []sched.Finding{{Class: strings.ReplaceAll(cls, " ", "_"), What: fmt.Sprintf("%s; unfinished=%v", res.Failure, res.Unfinished)}}
	}
	var fs []sched.Finding
	for i := range got {
		if got[i] == s.alone[i] {
			continue
		}
		cls := "concurrent_push_changes_emitted_profile"
		if strings.Contains(got[i], "BROKEN(") && !strings.Contains(s.alone[i], "BROKEN(") {
			cls = "concurrent_push_breaks_weight_conservation"
		}
		fs = append(fs, sched.Finding{Class: cls, What: fmt.Sprintf("request %d emitted\n   %s\nwhen another push was in flight, but alone it emits\n   %s", i, got[i], s.alone[i])})
	}
	if len(fs) > 0 {
		return s.name + " => differs", fs
	}
	return s.name + " => as alone", nil
}

func scenarios(thorough bool) []sched.Scenario {
	pool := []*prof{
		{"deep5", 1, []sample{{[]int{1, 0}, []int64{5}}}},
		{"flat1", 1, []sample{{[]int{0}, []int64{1}}}},
		{"two-types", 2, []sample{{[]int{2, 0}, []int64{1, 5}}, {[]int{0}, []int64{5, 1}}}},
	}
	if thorough {
		pool = append(pool, &prof{"recursion", 1, []sample{{[]int{0, 1, 0}, []int64{5}}, {[]int{1, 0}, []int64{1}}}})
	}
	var out []sched.Scenario
	for _, vias := range [][2]int{{viaBinary, viaBinary}, {viaMultipart, viaMultipart}, {viaBinary, viaMultipart}} {
		for i, a := range pool {
			for j, b := range pool {
				if vias[0] == vias[1] && j < i {
					continue // the two threads are symmetric
				}
				s := &scenario{name: fmt.Sprintf("%s:%s|%s:%s", viaName[vias[0]], a.name, viaName[vias[1]], b.name), via: vias[:]}
				for k, p := range []*prof{a, b} {
					s.bodies = append(s.bodies, body(p, vias[k]))
					s.alone = append(s.alone, push(s.bodies[k], vias[k]))
				}
				out = append(out, s)
			}
		}
	}
	return out
}

var all []sched.Scenario

func lookup(n string) sched.Scenario {
	for _, s := range all {
		if s.Name() == n {
			return s
		}
	}
	return nil
}

func main() {
	logger.Logger.SetOutput(io.Discard)
	runtime.GOMAXPROCS(1)
	if sched.IsWorker() {
		all = scenarios(true)
		sched.WorkerMain(lookup)
		return
	}
	r := ev.StartPart("C16", os.Getenv("VERIF_PART"), "model_checking", 30*time.Second, 5*time.Minute)
	all = scenarios(r.Thorough() || r.Replay != "")
	r.Rule = "C16s: stateless DFS (engine E1, delay-bounded, scheduling points at goroutine starts, channel operations and before every statement of the instrumented profile parsers; sync.Pool on one P) over 2 concurrent profile pushes through the real exported parsers; oracle: every request emits what it emits alone, and its tree conserves weight"
	if r.Replay != "" {
		replay(r)
		return
	}
	b := sched.Bounds{Preempt: 1, Faults: 0, Timers: 0, Horizon: 20000}
	t0 := time.Now()
	st, ex, left := sched.Explore(all, b, runtime.NumCPU(), r.Deadline, 20)
	fmt.Printf("[C16s] scenarios=%d executions=%d outcomes=%d completed=%v left=%d %.1fs\n", len(all), st.Executions, len(st.Outcomes), ex, left, time.Since(t0).Seconds())
	if !ex {
		r.Cap(fmt.Sprintf("C16s cut by the deadline (%d subtrees unexplored)", left))
	}
	if st.Diverged > 0 || st.Unreproducible > 0 {
		r.Cap(fmt.Sprintf("%d executions diverged from their prefix and %d findings did not reproduce (uncaptured nondeterminism; nothing was concluded from them): %v", st.Diverged, st.Unreproducible, st.Notes))
	}
	r.AddEval(st.Executions)
	r.States += st.Points
	r.Transitions += st.Steps
	r.TracesValidated += st.Executions
	for k := range st.Outcomes {
		r.Distinct("c16s:" + k)
	}
	r.Extra["c16s"] = map[string]any{"scenarios": len(all), "bounds": b, "executions": st.Executions, "completed": ex,
		"distinct_outcomes": len(st.Outcomes), "max_points": st.MaxPoints}
	r.Sample(map[string]any{"c16s_scenario": all[1].Name()})
	for _, v := range st.Violations {
		r.Violate(v.Class, v.Scn+": "+v.What, v)
	}
	r.Finish()
}

func replay(r *ev.Run) {
	rp, res, outcome, fs, err := sched.ReplayFile(r.Replay, lookup)
	if err != nil {
		ev.Fatal("replay: %v", err)
	}
	fmt.Println(strings.Join(res.Trace, "\n"))
	fmt.Println("outcome:", outcome, "failure:", res.Failure)
	r.AddEval(1)
	r.States, r.Transitions, r.TracesValidated = int64(len(res.Points)), int64(res.Steps), 1
	for _, f := range fs {
		r.Violate(f.Class, f.What, rp)
	}
	r.Finish()
}
