# instrument the profile parsers for engine E1 (C16s: concurrent profile pushes); sourced by bin/check
go build -modfile="$scratch/mod/go.mod" -o "$scratch/bin/rewrite" ./mc/rewrite || return 1
files="writer/utils/unmarshal/builder.go writer/utils/unmarshal/golangPprof.go writer/utils/unmarshal/binaryPprof.go"
"$scratch/bin/rewrite" -repo "$VERIF_REPO" -out "$scratch/inst" -overlay "$scratch/overlay.json" $files \
   2>"$scratch/rewrite.log" || { cat "$scratch/rewrite.log" >&2; return 1; }
