// Check C06: "A stored span reads back as the span that was pushed".
//
// Bounded-exhaustive enumeration of span batches from a value-level model, rendered as OTLP protobuf, Zipkin JSON
// and Zipkin NDJSON, pushed through the real exported writer parsers, the real ProcessRequest of the tempo insert
// services (block encoded and decoded again), and read back through the real TempoService.Query over a scripted
// database/sql driver.  See NOTES.md.
package main

import (
	"encoding/json"
	"fmt"
	"os"
	"runtime"
	"sort"
	"strings"
	"time"

	"verif/mc/ev"
	"verif/mc/wkpool"
)

func main() {
	os.Setenv("TZ", "UTC")
	r := ev.Start("C06", "model_checking", 70*time.Second, 15*time.Minute)
	sp := buildSpace(r.Thorough())

	if wkpool.IsWorker() {
		silenceStdout()
		wkpool.Worker(sp.total, func(i int) *wkpool.CaseResult { return checkBatch(sp.at(i)) })
		return
	}

	r.Rule = "mixed-radix product families over a value-level span-batch model (OTLP: 1-3 spans in <=2 resources x <=2 scopes, " +
		"<=2 attributes per level over every AnyValue kind incl. all lists/maps of <=2 elements to depth 2, ids zero/FF/mixed, " +
		"times 0/1us/now; Zipkin: all 24 orders of localEndpoint/remoteEndpoint/name/tags x rest before/after x presence subsets, " +
		"16- and 32-hex trace ids, timestamp/duration as number and string, JSON array and NDJSON framing, 2-3 span sequences from a pool). " +
		"A case is distinct by the hash of its model (structure, ids, values, rendering choices); every case runs the real parser, " +
		"real ProcessRequest and real read path, so all accepted cases are non-trivial."
	r.Assumptions = []string{
		"ClickHouse stores a native block column-by-column by name and returns FixedString/String/Int values unchanged; the statement TempoService sends is executed by the ClickHouse-subset interpreter mc/chsim over a tempo_traces table holding the decoded block rows (a statement chsim cannot evaluate ends the run with exit 2, never a verdict)",
		"process time zone is UTC (the Date column of the tag index is compared with the UTC day of timestamp_ns; zone dependence belongs to C04/C13)",
		"flattening rule for the tag index: scalar -> key=text, list element -> key.<index>, map entry -> key.<subkey>, recursively; int/bool/double texts are compared by value, strings exactly; bytes/unset values and non-string Zipkin tag values are not judged",
		"service name is judged only where the model defines it (OTLP: string resource attribute service.name; Zipkin: localEndpoint.serviceName)",
	}

	if r.Replay != "" {
		replay(r)
		return
	}

	// samples: the first case of up to 8 families, rendered by the parent (deterministic)
	off := 0
	for _, f := range sp.fams {
		if f.name == "otlp-odd" || f.name == "zipkin-odd" || f.name == "otlp-attr1" || f.name == "otlp-multi3-[2 2]" ||
			f.name == "zipkin-multi3" || f.name == "zipkin-order" || f.name == "otlp-svckeys" || f.name == "zipkin-tags" {
			b := sp.at(off + f.size/2)
			var body string
			if b.Proto == "otlp" {
				raw, _ := renderOTLP(b)
				body = "protobuf:" + bodyText(b, raw)
			} else {
				body = string(renderZipkin(b))
			}
			r.Sample(map[string]any{"family": f.name, "index": off + f.size/2, "model": b, "body": body})
		}
		off += f.size
	}
	var harnessErrs []string
	nHarness := 0
	counters := map[string]int64{}
	famCount := map[string]int{}
	for _, f := range sp.fams {
		famCount[f.name] = f.size
	}
	sink := wkpool.Sink{
		Stats: func(s *wkpool.Stats) {
			r.AddEval(s.Evals)
			r.TracesValidated += s.Traces
			for _, k := range s.Keys {
				r.Distinct(k)
			}
			for k, v := range s.Outcomes {
				for i := int64(0); i < v; i++ {
					r.Outcome(k)
				}
			}
			for k, v := range s.Counters {
				counters[k] += v
			}
		},
		Violation: func(v *wkpool.Viol) {
			if v.Class == harnessClass {
				if len(harnessErrs) < 5 {
					harnessErrs = append(harnessErrs, fmt.Sprintf("case %d: %s", v.Idx, v.What))
				}
				nHarness++
				return
			}
			var rep any
			json.Unmarshal(v.Replay, &rep)
			r.Violate(v.Class, v.What, rep)
		},
		Crash: func(idx int, tail string) {
			b := sp.at(idx)
			r.Violate("process_death_"+b.Family, fmt.Sprintf("case %d kills the process (3/3 re-runs): %s", idx, lastLines(tail, 6)), b)
		},
		Flaky: func(idx int, tail string) {
			fmt.Fprintf(os.Stderr, "note: case %d killed its worker once but not when re-run alone: %s\n", idx, lastLines(tail, 3))
			counters["flaky_worker_deaths"]++
		},
		Cap: func(why string) { r.Cap(why) },
	}
	workers := runtime.NumCPU()
	if workers > 16 {
		workers = 16
	}
	err := wkpool.Parent(sp.total, wkpool.Options{Workers: workers, Deadline: r.Deadline, Args: os.Args[1:], Env: []string{"TZ=UTC"}, MemKB: 4 << 20}, sink)
	if err != nil {
		ev.Fatal("%v", err)
	}
	if nHarness > 0 {
		ev.Fatal("%d cases could not be evaluated by the machinery (no verdict); first ones: %s", nHarness, strings.Join(harnessErrs, " || "))
	}
	r.States = r.Evaluations
	r.Transitions = r.TracesValidated
	r.Extra["cases_in_space"] = sp.total
	r.Extra["families"] = famCount
	keys := make([]string, 0, len(counters))
	for k := range counters {
		keys = append(keys, k)
	}
	sort.Strings(keys)
	obs := map[string]int64{}
	for _, k := range keys {
		obs[k] = counters[k]
	}
	r.Extra["observations"] = obs
	r.Explanation = "states = batches enumerated, transitions = batches pushed through the real writer parser (+ ProcessRequest + read path when accepted)"
	r.Finish()
}

func lastLines(s string, n int) string {
	lines := []string{}
	cur := ""
	for _, ch := range s {
		if ch == '\n' {
			if cur != "" {
				lines = append(lines, cur)
			}
			cur = ""
			continue
		}
		cur += string(ch)
	}
	if cur != "" {
		lines = append(lines, cur)
	}
	if len(lines) > n {
		lines = lines[:n]
	}
	out := ""
	for _, l := range lines {
		out += l + " | "
	}
	return out
}

// the repository prints SQL and errors on stdout; keep the terminal clean in workers
func silenceStdout() {
	if f, err := os.OpenFile(os.DevNull, os.O_WRONLY, 0); err == nil {
		os.Stdout = f
	}
}

func replay(r *ev.Run) {
	raw, err := os.ReadFile(r.Replay)
	if err != nil {
		ev.Fatal("replay: %v", err)
	}
	var doc struct {
		Replay json.RawMessage `json:"replay"`
	}
	if err := json.Unmarshal(raw, &doc); err != nil || doc.Replay == nil {
		ev.Fatal("replay: not a replay file: %v", err)
	}
	var b Batch
	if err := json.Unmarshal(doc.Replay, &b); err != nil {
		ev.Fatal("replay: %v", err)
	}
	so := os.Stdout
	silenceStdout() // the read path prints decode errors on stdout
	res := checkBatch(&b)
	os.Stdout = so
	r.AddEval(1)
	r.TracesValidated += res.RealTraces
	r.States, r.Transitions = 1, 1
	r.Distinct(res.Key)
	for _, o := range res.Outcomes {
		r.Outcome(o)
		fmt.Println("outcome:", o)
	}
	for k, v := range res.Counters {
		fmt.Printf("observation: %s=%d\n", k, v)
	}
	r.Sample(res.Sample)
	for _, v := range res.Viols {
		if v.Class == harnessClass {
			ev.Fatal("%s", v.What)
		}
		r.Violate(v.Class, v.What, &b)
	}
	r.Finish()
}
