package main

// Bounded-exhaustive enumeration of span batches.  Every family is a mixed-radix product of small dimensions, so
// case i of family f is a pure function of (tier, f, i): parent and workers agree without materialising the list.

import (
	"fmt"
)

type dim struct {
	name string
	n    int
}

type family struct {
	name  string
	dims  []dim
	build func(d []int) *Batch
	size  int
}

func newFamily(name string, dims []dim, build func(d []int) *Batch) *family {
	f := &family{name: name, dims: dims, build: build, size: 1}
	for _, d := range dims {
		if d.n <= 0 {
			panic(fmt.Sprintf("family %s: dimension %s is empty", name, d.name))
		}
		f.size *= d.n
	}
	return f
}

func (f *family) at(i int) *Batch {
	d := make([]int, len(f.dims))
	for k := len(f.dims) - 1; k >= 0; k-- {
		d[k] = i % f.dims[k].n
		i /= f.dims[k].n
	}
	b := f.build(d)
	b.Family = f.name
	return b
}

type space struct {
	fams  []*family
	total int
}

func (s *space) at(i int) *Batch {
	for _, f := range s.fams {
		if i < f.size {
			return f.at(i)
		}
		i -= f.size
	}
	panic("index out of range")
}

// ---- value alphabets ---------------------------------------------------------------------------------------------

func str(s string) AV  { return AV{Kind: "str", S: s} }
func num(i int64) AV   { return AV{Kind: "int", I: i} }
func dbl(f float64) AV { return AV{Kind: "dbl", F: f} }
func boolean(b bool) AV {
	return AV{Kind: "bool", B: b}
}
func list(e ...AV) AV { return AV{Kind: "list", L: e} }
func kvl(e ...KV) AV  { return AV{Kind: "kv", M: e} }

const weird = "q\"\\ü\n'{"

// scalars of every AnyValue kind, including empty / extreme ones
var scalarsFull = []AV{
	str("v"), str(""), str(weird), boolean(true), boolean(false), num(0), num(-7), num(9007199254740993),
	dbl(1.5), dbl(-2.25), dbl(0), {Kind: "bytes", S: "\x00\xff"}, {Kind: "unset"}, {Kind: "nil"},
}

// the scalars used as elements of composite values
var scalarsElem = []AV{str("v"), num(5), dbl(1.5), boolean(true)}

// compose returns every list and every map with <= 2 elements over elems (map keys a, b).
func compose(elems []AV) []AV {
	var out []AV
	out = append(out, list(), kvl())
	for _, e := range elems {
		out = append(out, list(e), kvl(KV{"a", e}))
	}
	for _, e1 := range elems {
		for _, e2 := range elems {
			out = append(out, list(e1, e2), kvl(KV{"a", e1}, KV{"b", e2}))
		}
	}
	return out
}

var (
	depth1   = compose(scalarsElem)                                       // 2 + 8 + 32 = 42
	depth2   = compose(append(append([]AV{}, scalarsElem...), depth1...)) // 2 + 92 + 4232
	valsFull = append(append(append([]AV{}, scalarsFull...), depth1...), depth2...)
)

// a curated mid-size alphabet: every scalar kind plus one representative of every composite shape
var valsMid = []AV{
	str("v"), str(""), str(weird), boolean(true), boolean(false), num(0), num(-7), dbl(1.5), dbl(-2.25),
	{Kind: "bytes", S: "\x00\xff"},
	list(), list(str("x")), list(num(1), str("y")), list(list(str("z"))), list(kvl(KV{"a", str("w")})),
	kvl(), kvl(KV{"a", str("x")}), kvl(KV{"a", num(1)}, KV{"b", str("y")}), kvl(KV{"a", kvl(KV{"b", str("z")})}),
	kvl(KV{"a", list(str("w"))}), kvl(KV{"a", str("p")}, KV{"b", kvl(KV{"c", num(3)}, KV{"d", str("last")})}),
}

var valsSmall = []AV{
	str("rv"), num(42), boolean(true), dbl(2.5), list(str("x"), num(1)), kvl(KV{"a", str("x")}, KV{"b", num(2)}),
	kvl(KV{"a", kvl(KV{"c", num(3)}, KV{"d", str("last")})}), str(""), {Kind: "bytes", S: "b"}, list(),
}

const (
	idZero16 = "00000000000000000000000000000000"
	idFF16   = "ffffffffffffffffffffffffffffffff"
	idMix16  = "0102030405060708090a0b0c0d0e0f10"
	idMix16b = "a1a2a3a4a5a6a7a8a9aaabacadaeaf00"
	idZero8  = "0000000000000000"
	idFF8    = "ffffffffffffffff"
	idMix8   = "1112131415161718"
	idMix8b  = "2122232425262728"
	idMix8c  = "00000000000000c3"
)

var (
	traceIDs  = []string{idMix16, idZero16, idFF16}
	spanIDs   = []string{idMix8, idZero8, idFF8}
	parentIDs = []string{"", idMix8b, idZero8, idFF8}
	startsNs  = []uint64{1700000000123456000, 0, 1000}
	dursNs    = []uint64{5000000000, 0, 1000}
	names     = []string{"op", "", weird}
)

func svcAttr(s string) KV { return KV{"service.name", str(s)} }

func baseSpan() Span {
	return Span{TraceID: idMix16, SpanID: idMix8, Name: "op", HasName: true, StartNs: startsNs[0], DurNs: dursNs[0], HasTS: true, HasDur: true}
}

func otlp1(span Span, res []KV) *Batch {
	return &Batch{Proto: "otlp", Res: []Resource{{Attrs: res, Scopes: 1}}, Spans: []Span{span}}
}

// ---- OTLP families -----------------------------------------------------------------------------------------------

func famOTLPAttr1(resOpts [][]KV) *family {
	return newFamily("otlp-attr1", []dim{{"value", len(valsFull)}, {"res", len(resOpts)}, {"level", 2}}, func(d []int) *Batch {
		s := baseSpan()
		if d[2] == 0 {
			s.Attrs = []KV{{"k1", valsFull[d[0]]}}
			return otlp1(s, resOpts[d[1]])
		}
		// the same value as a resource attribute
		return otlp1(s, append(append([]KV{}, resOpts[d[1]]...), KV{"k1", valsFull[d[0]]}))
	})
}

func famOTLPAttr2(name string, vals1, vals []AV) *family {
	return newFamily(name, []dim{{"v1", len(vals1)}, {"v2", len(vals)}, {"res", 2}}, func(d []int) *Batch {
		s := baseSpan()
		s.Attrs = []KV{{"k1", vals1[d[0]]}, {"k.2", vals[d[1]]}}
		res := []KV{svcAttr("svc")}
		if d[2] == 1 {
			res = []KV{{"host", str("h1")}, svcAttr("svc2")}
		}
		return otlp1(s, res)
	})
}

func famOTLPRes(vals []AV) *family {
	n := len(vals)
	spanOpts := [][]KV{nil, {{"k1", str("v")}}, {{"k1", kvl(KV{"a", str("p")}, KV{"b", kvl(KV{"c", num(3)}, KV{"d", str("last")})})}}}
	return newFamily("otlp-resource", []dim{{"svc", 3}, {"r1", n + 1}, {"r2", n + 1}, {"span", len(spanOpts)}}, func(d []int) *Batch {
		var res []KV
		switch d[0] {
		case 1:
			res = append(res, svcAttr("svc"))
		case 2:
			res = append(res, svcAttr(""))
		}
		if d[1] > 0 {
			res = append(res, KV{"r1", vals[d[1]-1]})
		}
		if d[2] > 0 {
			res = append(res, KV{"r.2", vals[d[2]-1]})
		}
		s := baseSpan()
		s.Attrs = spanOpts[d[3]]
		return otlp1(s, res)
	})
}

// service-name candidates at span and resource level
func famOTLPSvcKeys() *family {
	keys := []string{"k1", "peer.service", "faas.name", "k8s.deployment.name", "process.executable.name", "service.name", "remoteService.name"}
	vals := []AV{str("x"), num(5), str("")}
	resOpts := [][]KV{{svcAttr("svc")}, nil, {{"service.name", num(7)}}, {svcAttr("")}, {{"faas.name", str("fn")}}, {svcAttr("svc"), {"peer.service", str("rp")}}}
	return newFamily("otlp-svckeys", []dim{{"key", len(keys)}, {"val", len(vals)}, {"res", len(resOpts)}, {"key2", len(keys) + 1}, {"val2", 2}}, func(d []int) *Batch {
		s := baseSpan()
		s.Attrs = []KV{{keys[d[0]], vals[d[1]]}}
		if d[3] > 0 && keys[d[3]-1] != keys[d[0]] {
			s.Attrs = append(s.Attrs, KV{keys[d[3]-1], []AV{str("y2"), str("")}[d[4]]})
		} else if d[3] > 0 {
			s.Attrs = append(s.Attrs, KV{"k9", str("z")})
		}
		return otlp1(s, resOpts[d[2]])
	})
}

func famOTLPIds() *family {
	attrOpts := [][]KV{nil, {{"k1", str("v")}}}
	return newFamily("otlp-ids", []dim{{"trace", len(traceIDs)}, {"span", len(spanIDs)}, {"parent", len(parentIDs)},
		{"start", len(startsNs)}, {"dur", len(dursNs)}, {"name", len(names)}, {"attrs", len(attrOpts)}}, func(d []int) *Batch {
		s := Span{TraceID: traceIDs[d[0]], SpanID: spanIDs[d[1]], Parent: parentIDs[d[2]], StartNs: startsNs[d[3]], DurNs: dursNs[d[4]],
			Name: names[d[5]], HasName: true, Attrs: attrOpts[d[6]], HasTS: true, HasDur: true}
		return otlp1(s, []KV{svcAttr("svc")})
	})
}

// span variants used in multi-span batches
func spanPool(n int) []Span {
	p := []Span{
		{TraceID: idMix16, SpanID: idMix8, Name: "root", HasName: true, StartNs: 1700000000000000000, DurNs: 9000, HasTS: true, HasDur: true},
		{TraceID: idMix16, SpanID: idMix8b, Parent: idMix8, Name: "child", HasName: true, StartNs: 1700000000000001000, DurNs: 2000, HasTS: true, HasDur: true,
			Attrs: []KV{{"k1", str("v1")}}},
		{TraceID: idMix16b, SpanID: idMix8c, Name: "other", HasName: true, StartNs: 1700000000000000000, DurNs: 1000, HasTS: true, HasDur: true,
			Attrs: []KV{{"k2", kvl(KV{"a", str("x")}, KV{"b", num(2)})}}},
		{TraceID: idFF16, SpanID: idFF8, Parent: idFF8, Name: "", HasName: true, StartNs: 1000, DurNs: 0, HasTS: true, HasDur: true},
		{TraceID: idMix16, SpanID: idZero8, Parent: idZero8, Name: weird, HasName: true, StartNs: 1700000000000000000, DurNs: 5000, HasTS: true, HasDur: true,
			Attrs: []KV{{"k1", str("v4")}, {"k3", list(str("e"))}}},
		{TraceID: idZero16, SpanID: idMix8, Name: "z", HasName: true, StartNs: 0, DurNs: 1000, HasTS: true, HasDur: true, Attrs: []KV{{"k1", num(1)}}},
	}
	return p[:n]
}

type otlpShape struct {
	scopes []int    // scopes per resource
	slots  [][2]int // slot -> (res, scope)
}

func otlpShapes() []otlpShape {
	var out []otlpShape
	for _, cfg := range [][]int{{1}, {2}, {1, 1}, {1, 2}, {2, 1}, {2, 2}, {0, 1}, {1, 0}} {
		sh := otlpShape{scopes: cfg}
		for r, n := range cfg {
			for s := 0; s < n; s++ {
				sh.slots = append(sh.slots, [2]int{r, s})
			}
		}
		out = append(out, sh)
	}
	return out
}

func famOTLPMulti(si int, nspans, pool int) *family {
	sh := otlpShapes()[si]
	sp := spanPool(pool)
	resOpts := [][2][]KV{
		{{svcAttr("A"), {"host", str("h1")}}, {svcAttr("B")}},
		{{svcAttr("A")}, {{"host", str("h2")}}},
	}
	dims := []dim{{"res", len(resOpts)}}
	for i := 0; i < nspans; i++ {
		dims = append(dims, dim{fmt.Sprintf("slot%d", i), len(sh.slots)}, dim{fmt.Sprintf("variant%d", i), pool})
	}
	return newFamily(fmt.Sprintf("otlp-multi%d-%v", nspans, sh.scopes), dims, func(d []int) *Batch {
		b := &Batch{Proto: "otlp"}
		for r, n := range sh.scopes {
			b.Res = append(b.Res, Resource{Attrs: resOpts[d[0]][r], Scopes: n})
		}
		for i := 0; i < nspans; i++ {
			slot := sh.slots[d[1+2*i]]
			s := sp[d[2+2*i]]
			s.Res, s.Scope = slot[0], slot[1]
			b.Spans = append(b.Spans, s)
		}
		return b
	})
}

// malformed-but-wellformed protobuf: missing Resource message, ids of the wrong length (observation only)
func famOTLPOdd() *family {
	tids := []string{"", "0102030405060708", idMix16 + "11"}
	sids := []string{"", "01020304", idMix8 + "22"}
	return newFamily("otlp-odd", []dim{{"kind", 3}, {"i", 3}}, func(d []int) *Batch {
		s := baseSpan()
		b := otlp1(s, []KV{svcAttr("svc")})
		switch d[0] {
		case 0:
			b.Res[0].NoRes = true
			b.Res[0].Attrs = nil
			if d[1] > 0 {
				b.Spans[0].Attrs = []KV{{"k1", str("v")}}
			}
		case 1:
			b.Spans[0].TraceID = tids[d[1]]
		case 2:
			b.Spans[0].SpanID = sids[d[1]]
		}
		return b
	})
}

// ---- Zipkin families -----------------------------------------------------------------------------------------------

func perms4() [][]string {
	var out [][]string
	var rec func(cur []string, used int)
	rec = func(cur []string, used int) {
		if len(cur) == 4 {
			out = append(out, append([]string{}, cur...))
			return
		}
		for i, k := range zipkinSensitive {
			if used&(1<<i) == 0 {
				rec(append(cur, k), used|1<<i)
			}
		}
	}
	rec(nil, 0)
	return out
}

func sp(s string) *string { return &s }

func zipkinBase() Span {
	return Span{TraceID: idMix16, SpanID: idMix8, Name: "op", HasName: true, StartNs: startsNs[0], DurNs: dursNs[0], HasTS: true, HasDur: true, Kind: "SERVER"}
}

func famZipkinOrder() *family {
	perms := perms4()
	tagOpts := []struct {
		has  bool
		tags []KV
	}{{false, nil}, {true, nil}, {true, []KV{{"k1", str("v1")}}}, {true, []KV{{"k1", str("v1")}, {"k.2", str("")}}}}
	return newFamily("zipkin-order", []dim{{"perm", len(perms)}, {"restfirst", 2}, {"local", 3}, {"remote", 2}, {"name", 3}, {"tags", len(tagOpts)},
		{"parent", 2}, {"nd", 2}, {"tsstr", 2}}, func(d []int) *Batch {
		s := zipkinBase()
		switch d[2] {
		case 0:
			s.Local = sp("L")
		case 1:
			s.LocalNoSvc = true
		}
		if d[3] == 0 {
			s.Remote = sp("R")
		}
		switch d[4] {
		case 1:
			s.HasName, s.Name = false, ""
		case 2:
			s.Name = ""
		}
		s.HasTags, s.Attrs = tagOpts[d[5]].has, tagOpts[d[5]].tags
		if d[6] == 1 {
			s.Parent = idMix8b
		}
		return &Batch{Proto: "zipkin", Spans: []Span{s}, KeyOrder: perms[d[0]], RestFirst: d[1] == 1, ND: d[7] == 1, TSString: d[8] == 1}
	})
}

func famZipkinIds() *family {
	tids := []string{idMix16, idZero16, idFF16, idMix8, idZero8, idFF8} // 32- and 16-hex trace ids
	ts := []struct {
		has bool
		ns  uint64
	}{{true, 1700000000123456000}, {false, 0}, {true, 0}, {true, 1000}}
	du := []struct {
		has bool
		ns  uint64
	}{{true, 5000000000}, {false, 0}, {true, 0}, {true, 1000}}
	return newFamily("zipkin-ids", []dim{{"trace", len(tids)}, {"span", len(spanIDs)}, {"parent", len(parentIDs)}, {"ts", len(ts)}, {"dur", len(du)},
		{"nd", 2}, {"tsstr", 2}}, func(d []int) *Batch {
		s := zipkinBase()
		s.TraceID, s.SpanID, s.Parent = tids[d[0]], spanIDs[d[1]], parentIDs[d[2]]
		s.HasTS, s.StartNs = ts[d[3]].has, ts[d[3]].ns
		s.HasDur, s.DurNs = du[d[4]].has, du[d[4]].ns
		s.Local = sp("L")
		s.HasTags, s.Attrs = true, []KV{{"k1", str("v1")}}
		return &Batch{Proto: "zipkin", Spans: []Span{s}, ND: d[5] == 1, TSString: d[6] == 1}
	})
}

func zipkinPool(n int) []Span {
	p := []Span{
		{TraceID: idMix16, SpanID: idMix8, Parent: idMix8b, Name: "full", HasName: true, StartNs: 1700000000000000000, DurNs: 9000, HasTS: true, HasDur: true,
			Local: sp("L1"), Remote: sp("R1"), HasTags: true, Attrs: []KV{{"k1", str("v1")}, {"k2", str("v2")}}, Kind: "CLIENT"},
		{TraceID: idMix16, SpanID: idMix8c},
		{TraceID: idMix16, SpanID: idMix8b, Name: "second", HasName: true, StartNs: 1700000000000002000, DurNs: 1000, HasTS: true, HasDur: true,
			Local: sp("L2"), HasTags: true, Attrs: []KV{{"t2", str("w")}}},
		{TraceID: idMix16b, SpanID: idFF8, Name: "named", HasName: true, StartNs: 1000, HasTS: true},
		{TraceID: idMix8, SpanID: idZero8, Remote: sp("R4"), HasTags: true, Attrs: nil, DurNs: 4000, HasDur: true},
		{TraceID: idFF16, SpanID: idMix8, Parent: idFF8, Name: "", HasName: true, Local: sp(""), StartNs: 0, HasTS: true, HasTags: true, Attrs: []KV{{"k1", str("")}}},
		{TraceID: idZero16, SpanID: idFF8, LocalNoSvc: true, Name: weird, HasName: true, HasTags: true, Attrs: []KV{{weird, str(weird)}}},
	}
	return p[:n]
}

func famZipkinMulti(nspans, pool int, allOrders bool) *family {
	zp := zipkinPool(pool)
	orders := [][]string{nil, {"remoteEndpoint", "tags", "name", "localEndpoint"}}
	if allOrders {
		orders = perms4()
	}
	dims := []dim{{"nd", 2}, {"trailnl", 2}, {"order", len(orders)}, {"tsstr", 2}}
	for i := 0; i < nspans; i++ {
		dims = append(dims, dim{fmt.Sprintf("variant%d", i), pool})
	}
	return newFamily(fmt.Sprintf("zipkin-multi%d", nspans), dims, func(d []int) *Batch {
		b := &Batch{Proto: "zipkin", ND: d[0] == 1, TrailNL: d[1] == 1 && d[0] == 1, KeyOrder: orders[d[2]], TSString: d[3] == 1}
		for i := 0; i < nspans; i++ {
			b.Spans = append(b.Spans, zp[d[4+i]])
		}
		return b
	})
}

func famZipkinTags() *family {
	vals := []AV{str("v"), str(""), str(weird), num(5), boolean(true), kvl(KV{"a", str("x")}), list(str("x")), {Kind: "unset"}, dbl(1.5)}
	keys := []string{"k1", "k\"2", "k.3", ""}
	return newFamily("zipkin-tags", []dim{{"k1", len(keys)}, {"v1", len(vals)}, {"second", len(vals) + 1}, {"nd", 2}}, func(d []int) *Batch {
		s := zipkinBase()
		s.Local = sp("L")
		s.HasTags = true
		s.Attrs = []KV{{keys[d[0]], vals[d[1]]}}
		if d[2] > 0 {
			s.Attrs = append(s.Attrs, KV{"zz", vals[d[2]-1]})
		}
		return &Batch{Proto: "zipkin", Spans: []Span{s}, ND: d[3] == 1}
	})
}

// spans without traceId / id (observation only: what onSpan accepts)
func famZipkinOdd() *family {
	return newFamily("zipkin-odd", []dim{{"kind", 4}, {"nd", 2}}, func(d []int) *Batch {
		s := zipkinBase()
		switch d[0] {
		case 0:
			s.TraceID = "" // rendered as "traceId":"" -> rejected by decodeHexStr
		case 1:
			s.TraceID = "-" // marker: key omitted
		case 2:
			s.SpanID = "-"
		case 3:
			s.TraceID = idMix16 + "aabb" // 36 hex digits
		}
		return &Batch{Proto: "zipkin", Spans: []Span{s}, ND: d[1] == 1}
	})
}

// ---- delivery families: the same bytes reaching the parser in different segments ---------------------------------------

var zipkinDeliveries = []string{"bytes", "span-ends", "span-mids", "span-ends+mids", "chunk7", "half"}

func famZipkinDelivery(nspans, pool int) *family {
	zp := zipkinPool(pool)
	dims := []dim{{"nd", 2}, {"delivery", len(zipkinDeliveries)}}
	for i := 0; i < nspans; i++ {
		dims = append(dims, dim{fmt.Sprintf("variant%d", i), pool})
	}
	return newFamily(fmt.Sprintf("zipkin-delivery%d", nspans), dims, func(d []int) *Batch {
		b := &Batch{Proto: "zipkin", ND: d[0] == 1, Delivery: zipkinDeliveries[d[1]]}
		for i := 0; i < nspans; i++ {
			b.Spans = append(b.Spans, zp[d[2+i]])
		}
		return b
	})
}

// every single split point (and, when pairs is set, every pair of split points) of one small body
func famZipkinCuts(name string, seq []int, nd, pairs bool) *family {
	zp := zipkinPool(7)
	mk := func() *Batch {
		b := &Batch{Proto: "zipkin", ND: nd}
		for _, k := range seq {
			b.Spans = append(b.Spans, zp[k])
		}
		return b
	}
	n := len(renderZipkin(mk()))
	if !pairs {
		return newFamily(name, []dim{{"cut", n - 1}}, func(d []int) *Batch {
			b := mk()
			b.Delivery = fmt.Sprintf("cut@%d", d[0]+1)
			return b
		})
	}
	return newFamily(name, []dim{{"cut1", n - 1}, {"cut2", n - 1}}, func(d []int) *Batch {
		b := mk()
		a, c := d[0]+1, d[1]+1
		if a > c {
			a, c = c, a
		}
		b.Delivery = fmt.Sprintf("cut@%d,%d", a, c)
		return b
	})
}

func famOTLPDelivery(pool int) *family {
	sp := spanPool(pool)
	del := []string{"bytes", "half", "chunk7"}
	return newFamily("otlp-delivery", []dim{{"delivery", len(del)}, {"v0", pool}, {"v1", pool}, {"layout", 2}}, func(d []int) *Batch {
		b := &Batch{Proto: "otlp", Delivery: del[d[0]]}
		b.Res = []Resource{{Attrs: []KV{svcAttr("A")}, Scopes: 1}}
		s0, s1 := sp[d[1]], sp[d[2]]
		if d[3] == 1 {
			b.Res = append(b.Res, Resource{Attrs: []KV{svcAttr("B")}, Scopes: 1})
			s1.Res = 1
		}
		b.Spans = []Span{s0, s1}
		return b
	})
}

// size classes: bodies below / just over / several times the decoder's 64 KiB read buffer, and (thorough, plus one
// quick case per framing) over the 1 MiB threshold at which onSpan flushes a chunk in the middle of the body
func famZipkinBig(counts []int) *family {
	del := []string{"", "chunk4096", "span-ends"}
	return newFamily("zipkin-big", []dim{{"count", len(counts)}, {"nd", 2}, {"delivery", len(del)}}, func(d []int) *Batch {
		return &Batch{Proto: "zipkin", ND: d[1] == 1, Delivery: del[d[2]], GenN: counts[d[0]], GenPad: 40, GenLongAt: -1}
	})
}

// one span whose text is below / just over / far over 64 KiB (bufio.Scanner's default token limit), first or in the
// middle of three spans
func famZipkinLongSpan() *family {
	lens := []int{65000, 65300, 66000, 200000}
	del := []string{"", "chunk4096"}
	return newFamily("zipkin-longspan", []dim{{"len", len(lens)}, {"at", 2}, {"nd", 2}, {"delivery", len(del)}}, func(d []int) *Batch {
		return &Batch{Proto: "zipkin", ND: d[2] == 1, Delivery: del[d[3]], GenN: 3, GenLongAt: d[1], GenLongLen: lens[d[0]]}
	})
}

// ---- Zipkin ids are hex strings of any length <= width ---------------------------------------------------------------

// per-position digit strings without zeros, different for every span of a sequence, so that digits left over from
// another id are visible and (trace, span) pairs stay pairwise different
var idDigits = []string{
	"a1b2c3d4e5f6a7b8c9d1e2f3a4b5c6d7",
	"1f2e3d4c5b6a79881726354453627181",
	"7c6b5a4f3e2d1c9b8a7f6e5d4c3b2a19",
}

func idOf(span, kind, n int) string {
	if n == 0 {
		return ""
	}
	d := idDigits[span]
	// rotate per kind so that trace, span and parent ids of one span differ
	d = d[kind*5:] + d[:kind*5]
	return d[:n]
}

var (
	traceLensFull   = []int{1, 2, 4, 15, 16, 17, 31, 32}
	spanLensFull    = []int{1, 2, 4, 15, 16}
	parentLensFull  = []int{0, 1, 2, 4, 15, 16} // 0 = no parentId
	traceLensSmall  = []int{2, 16, 17, 32}
	spanLensSmall   = []int{1, 4, 16}
	parentLensSmall = []int{0, 2, 16}
)

// sequences of nspans spans, every combination of (trace, span, parent) id length classes for every span
func famZipkinIDLens(name string, nspans int, tl, sl, pl []int) *family {
	dims := []dim{{"nd", 2}}
	for i := 0; i < nspans; i++ {
		dims = append(dims, dim{fmt.Sprintf("trace%d", i), len(tl)}, dim{fmt.Sprintf("span%d", i), len(sl)}, dim{fmt.Sprintf("parent%d", i), len(pl)})
	}
	return newFamily(name, dims, func(d []int) *Batch {
		b := &Batch{Proto: "zipkin", ND: d[0] == 1}
		for i := 0; i < nspans; i++ {
			s := Span{TraceID: idOf(i, 0, tl[d[1+3*i]]), SpanID: idOf(i, 1, sl[d[2+3*i]]), Parent: idOf(i, 2, pl[d[3+3*i]]),
				Name: fmt.Sprintf("n%d", i), HasName: true, StartNs: 1700000000000000000 + uint64(i)*1000, DurNs: 1000, HasTS: true, HasDur: true,
				Local: sp("L"), HasTags: true, Attrs: []KV{{"k", str(fmt.Sprintf("v%d", i))}}}
			b.Spans = append(b.Spans, s)
		}
		return b
	})
}

// every ordered pair of length classes of ONE id kind across two spans (the other kinds at full width), and the same
// with the id key moved behind the other keys (traceId/id/parentId are decoded in document order)
func famZipkinIDPairs() *family {
	kinds := [][]int{traceLensFull, spanLensFull, parentLensFull}
	// flatten (kind, a, b)
	type pr struct{ kind, a, b int }
	var prs []pr
	for k, ls := range kinds {
		for _, a := range ls {
			for _, b := range ls {
				prs = append(prs, pr{k, a, b})
			}
		}
	}
	return newFamily("zipkin-idpairs", []dim{{"pair", len(prs)}, {"nd", 2}, {"restfirst", 2}}, func(d []int) *Batch {
		p := prs[d[0]]
		b := &Batch{Proto: "zipkin", ND: d[1] == 1, RestFirst: d[2] == 1}
		for i, n := range []int{p.a, p.b} {
			lens := [3]int{32, 16, 16}
			lens[p.kind] = n
			b.Spans = append(b.Spans, Span{TraceID: idOf(i, 0, lens[0]), SpanID: idOf(i, 1, lens[1]), Parent: idOf(i, 2, lens[2]),
				Name: fmt.Sprintf("n%d", i), HasName: true, StartNs: 1700000000000000000, DurNs: 1000, HasTS: true, HasDur: true, Local: sp("L")})
		}
		return b
	})
}

// ---- histories ------------------------------------------------------------------------------------------------------

// bodies of different size classes (1, 2, 3 spans; with and without attributes), Zipkin array / NDJSON and OTLP
func historyBodies() []*Batch {
	zp := zipkinPool(7)
	op := spanPool(6)
	z := func(nd bool, ks ...int) *Batch {
		b := &Batch{Proto: "zipkin", ND: nd}
		for _, k := range ks {
			b.Spans = append(b.Spans, zp[k])
		}
		return b
	}
	o := func(ks ...int) *Batch {
		b := &Batch{Proto: "otlp", Res: []Resource{{Attrs: []KV{svcAttr("A"), {"host", str("h1")}}, Scopes: 1}}}
		for _, k := range ks {
			b.Spans = append(b.Spans, op[k])
		}
		return b
	}
	return []*Batch{z(false, 1), z(false, 3), z(false, 0, 2), z(true, 3, 1, 2), z(false, 5, 6, 4), o(0), o(3), o(1, 2), o(4, 5, 0)}
}

func famHistory() *family {
	bodies := historyBodies()
	hist := []string{"handover", "retry"}
	return newFamily("history", []dim{{"first", len(bodies)}, {"second", len(bodies)}, {"history", len(hist)}}, func(d []int) *Batch {
		a := *bodies[d[0]]
		then := *bodies[d[1]]
		a.Then, a.History = &then, hist[d[2]]
		return &a
	})
}

func buildSpace(thorough bool) *space {
	s := &space{}
	add := func(f *family) { s.fams = append(s.fams, f); s.total += f.size }
	add(famOTLPOdd())
	add(famZipkinOdd())
	add(famOTLPSvcKeys())
	add(famOTLPIds())
	add(famZipkinIds())
	add(famZipkinTags())
	if thorough {
		big := append(append([]AV{}, valsMid...), depth1...)
		add(famOTLPAttr1([][]KV{{svcAttr("svc")}, nil, {{"host", str("h")}, svcAttr("svc2")}, {{"k.2", kvl(KV{"a", str("x")})}}}))
		add(famOTLPAttr2("otlp-attr2", big, big))
		add(famOTLPAttr2("otlp-attr2-full", valsFull, valsMid))
		add(famOTLPRes(valsMid))
		for si := range otlpShapes() {
			add(famOTLPMulti(si, 1, 6))
			add(famOTLPMulti(si, 2, 6))
			add(famOTLPMulti(si, 3, 6))
		}
		add(famZipkinMulti(2, 7, true))
		add(famZipkinMulti(3, 7, true))
	} else {
		add(famOTLPAttr1([][]KV{{svcAttr("svc")}}))
		add(famOTLPAttr2("otlp-attr2", valsMid, valsMid))
		add(famOTLPRes(valsSmall))
		for si := range otlpShapes() {
			add(famOTLPMulti(si, 1, 4))
			add(famOTLPMulti(si, 2, 4))
			add(famOTLPMulti(si, 3, 3))
		}
		add(famZipkinMulti(2, 5, true))
		add(famZipkinMulti(3, 5, false))
	}
	add(famZipkinOrder())
	add(famZipkinLongSpan())
	add(famHistory())
	add(famZipkinIDPairs())
	add(famZipkinIDLens("zipkin-idlens1", 1, traceLensFull, spanLensFull, parentLensFull))
	if thorough {
		add(famZipkinIDLens("zipkin-idlens2", 2, traceLensFull, spanLensFull, parentLensFull))
		add(famZipkinIDLens("zipkin-idlens3", 3, traceLensSmall, spanLensSmall, parentLensSmall))
	} else {
		add(famZipkinIDLens("zipkin-idlens2", 2, traceLensSmall, spanLensSmall, parentLensSmall))
	}
	add(famOTLPDelivery(4))
	for _, nd := range []bool{false, true} {
		add(famZipkinCuts(fmt.Sprintf("zipkin-cut1-2spans-nd=%v", nd), []int{0, 2}, nd, false))
		add(famZipkinCuts(fmt.Sprintf("zipkin-cut1-3spans-nd=%v", nd), []int{3, 1, 2}, nd, false))
	}
	if thorough {
		add(famZipkinDelivery(2, 7))
		add(famZipkinDelivery(3, 7))
		add(famZipkinBig([]int{1, 150, 200, 210, 220, 230, 240, 250, 300, 450, 700, 2500, 5000}))
		for _, nd := range []bool{false, true} {
			add(famZipkinCuts(fmt.Sprintf("zipkin-cut2-2spans-nd=%v", nd), []int{1, 3}, nd, true))
		}
	} else {
		add(famZipkinDelivery(2, 5))
		add(famZipkinDelivery(3, 4))
		add(famZipkinBig([]int{150, 230, 300, 700}))
		// one body over the 1 MiB flush threshold per framing
		add(newFamily("zipkin-big-1mib", []dim{{"nd", 2}}, func(d []int) *Batch {
			return &Batch{Proto: "zipkin", ND: d[0] == 1, GenN: 2500, GenPad: 40, GenLongAt: -1}
		}))
	}
	return s
}
