package main

// Rendering of a model batch into request bodies: OTLP protobuf (TracesData), Zipkin v2 JSON array, Zipkin NDJSON.

import (
	"bytes"
	"encoding/json"
	"strconv"

	commonpb "go.opentelemetry.io/proto/otlp/common/v1"
	resourcepb "go.opentelemetry.io/proto/otlp/resource/v1"
	tracepb "go.opentelemetry.io/proto/otlp/trace/v1"
	"google.golang.org/protobuf/proto"
)

func avToPB(v AV) *commonpb.AnyValue {
	switch v.Kind {
	case "str":
		return &commonpb.AnyValue{Value: &commonpb.AnyValue_StringValue{StringValue: v.S}}
	case "bool":
		return &commonpb.AnyValue{Value: &commonpb.AnyValue_BoolValue{BoolValue: v.B}}
	case "int":
		return &commonpb.AnyValue{Value: &commonpb.AnyValue_IntValue{IntValue: v.I}}
	case "dbl":
		return &commonpb.AnyValue{Value: &commonpb.AnyValue_DoubleValue{DoubleValue: v.F}}
	case "bytes":
		return &commonpb.AnyValue{Value: &commonpb.AnyValue_BytesValue{BytesValue: []byte(v.S)}}
	case "list":
		l := &commonpb.ArrayValue{}
		for _, e := range v.L {
			l.Values = append(l.Values, avToPB(e))
		}
		return &commonpb.AnyValue{Value: &commonpb.AnyValue_ArrayValue{ArrayValue: l}}
	case "kv":
		l := &commonpb.KeyValueList{}
		for _, e := range v.M {
			l.Values = append(l.Values, kvToPB(e))
		}
		return &commonpb.AnyValue{Value: &commonpb.AnyValue_KvlistValue{KvlistValue: l}}
	case "unset":
		return &commonpb.AnyValue{}
	}
	return nil // "nil"
}

func kvToPB(kv KV) *commonpb.KeyValue {
	return &commonpb.KeyValue{Key: kv.K, Value: avToPB(kv.V)}
}

func kvsToPB(kvs []KV) []*commonpb.KeyValue {
	var out []*commonpb.KeyValue
	for _, kv := range kvs {
		out = append(out, kvToPB(kv))
	}
	return out
}

func renderOTLP(b *Batch) ([]byte, error) {
	td := &tracepb.TracesData{}
	for ri, r := range b.Res {
		rs := &tracepb.ResourceSpans{}
		if !r.NoRes {
			rs.Resource = &resourcepb.Resource{Attributes: kvsToPB(r.Attrs)}
		}
		for si := 0; si < r.Scopes; si++ {
			ss := &tracepb.ScopeSpans{Scope: &commonpb.InstrumentationScope{Name: "scope" + strconv.Itoa(si)}}
			for _, s := range b.Spans {
				if s.Res != ri || s.Scope != si {
					continue
				}
				sp := &tracepb.Span{
					TraceId:           []byte(unhex(s.TraceID)),
					SpanId:            []byte(unhex(s.SpanID)),
					Name:              s.Name,
					StartTimeUnixNano: s.StartNs,
					EndTimeUnixNano:   s.StartNs + s.DurNs,
					Attributes:        kvsToPB(s.Attrs),
					Kind:              tracepb.Span_SPAN_KIND_SERVER,
				}
				if s.Parent != "" {
					sp.ParentSpanId = []byte(unhex(s.Parent))
				}
				ss.Spans = append(ss.Spans, sp)
			}
			rs.ScopeSpans = append(rs.ScopeSpans, ss)
		}
		td.ResourceSpans = append(td.ResourceSpans, rs)
	}
	return proto.Marshal(td)
}

func jstr(s string) string {
	var buf bytes.Buffer
	enc := json.NewEncoder(&buf)
	enc.SetEscapeHTML(false)
	enc.Encode(s)
	return string(bytes.TrimRight(buf.Bytes(), "\n"))
}

func avToJSON(v AV) string {
	switch v.Kind {
	case "str":
		return jstr(v.S)
	case "bool":
		return strconv.FormatBool(v.B)
	case "int":
		return strconv.FormatInt(v.I, 10)
	case "dbl":
		return strconv.FormatFloat(v.F, 'g', -1, 64)
	case "list":
		s := "["
		for i, e := range v.L {
			if i > 0 {
				s += ","
			}
			s += avToJSON(e)
		}
		return s + "]"
	case "kv":
		s := "{"
		for i, e := range v.M {
			if i > 0 {
				s += ","
			}
			s += jstr(e.K) + ":" + avToJSON(e.V)
		}
		return s + "}"
	}
	return "null"
}

var zipkinSensitive = []string{"localEndpoint", "remoteEndpoint", "name", "tags"}

// renderZipkinSpan renders one span object honouring the key order of the batch.
func renderZipkinSpan(b *Batch, s *Span) string {
	parts := map[string]string{}
	if s.TraceID != "-" { // "-" = key omitted
		parts["traceId"] = jstr(s.TraceID)
	}
	if s.SpanID != "-" {
		parts["id"] = jstr(s.SpanID)
	}
	if s.Parent != "" {
		parts["parentId"] = jstr(s.Parent)
	}
	if s.Kind != "" {
		parts["kind"] = jstr(s.Kind)
	}
	if s.HasName {
		parts["name"] = jstr(s.Name)
	}
	num := func(ns uint64) string {
		v := strconv.FormatUint(ns/1000, 10)
		if b.TSString {
			return `"` + v + `"`
		}
		return v
	}
	if s.HasTS {
		parts["timestamp"] = num(s.StartNs)
	}
	if s.HasDur {
		parts["duration"] = num(s.DurNs)
	}
	if s.Local != nil || s.LocalNoSvc {
		if s.LocalNoSvc {
			parts["localEndpoint"] = `{"ipv4":"10.0.0.1","port":8080}`
		} else {
			parts["localEndpoint"] = `{"serviceName":` + jstr(*s.Local) + `,"ipv4":"10.0.0.1","port":8080}`
		}
	}
	if s.Remote != nil {
		parts["remoteEndpoint"] = `{"ipv4":"10.0.0.2","serviceName":` + jstr(*s.Remote) + `}`
	}
	if s.HasTags {
		t := "{"
		for i, kv := range s.Attrs {
			if i > 0 {
				t += ","
			}
			t += jstr(kv.K) + ":" + avToJSON(kv.V)
		}
		parts["tags"] = t + "}"
	}
	parts["shared"] = "false" // a key the decoders do not know
	rest := []string{"traceId", "id", "parentId", "kind", "timestamp", "duration", "shared"}
	order := b.KeyOrder
	if len(order) == 0 {
		order = zipkinSensitive
	}
	var keys []string
	if b.RestFirst {
		keys = append(append(keys, rest...), order...)
	} else {
		keys = append(append(keys, order...), rest...)
	}
	out := "{"
	n := 0
	for _, k := range keys {
		v, ok := parts[k]
		if !ok {
			continue
		}
		if n > 0 {
			out += ","
		}
		out += jstr(k) + ":" + v
		n++
	}
	return out + "}"
}

func renderZipkin(b *Batch) []byte {
	body, _ := renderZipkinOffsets(b)
	return body
}

// renderZipkinOffsets also returns, for every span, the offsets [start, end) of its object text in the body.
func renderZipkinOffsets(b *Batch) ([]byte, [][2]int) {
	var buf bytes.Buffer
	offs := make([][2]int, 0, len(b.Spans))
	if b.ND {
		for i := range b.Spans {
			if i > 0 {
				buf.WriteByte('\n')
			}
			st := buf.Len()
			buf.WriteString(renderZipkinSpan(b, &b.Spans[i]))
			offs = append(offs, [2]int{st, buf.Len()})
		}
		if b.TrailNL {
			buf.WriteByte('\n')
		}
		return buf.Bytes(), offs
	}
	buf.WriteByte('[')
	for i := range b.Spans {
		if i > 0 {
			buf.WriteByte(',')
		}
		st := buf.Len()
		buf.WriteString(renderZipkinSpan(b, &b.Spans[i]))
		offs = append(offs, [2]int{st, buf.Len()})
	}
	buf.WriteByte(']')
	return buf.Bytes(), offs
}
