package main

// A scripted database/sql driver standing in for clickhouse-go behind reader model.ISqlxDB: it holds the rows of
// tempo_traces exactly as the writer stored them and answers the one query shape TempoService.GetQueryRequest
// produces by running its text through mc/chsim.

import (
	"context"
	"database/sql"
	"database/sql/driver"
	"errors"
	"fmt"
	"io"
	"sync"

	rconfig "github.com/metrico/cloki-config/config"
	rmodel "github.com/metrico/qryn/reader/model"

	"verif/mc/chsim"
)

// tracesTable holds the stored rows of tempo_traces.  The statement the reader sends is EXECUTED by the
// ClickHouse-subset interpreter mc/chsim over that table (not recognised by its text), so any equivalent formulation
// of the trace query gives the same rows.  A statement chsim cannot evaluate is a failure of the machinery
// (errHarness -> exit 2), never a verdict.
type tracesTable struct {
	rows    []traceRow
	queries []string

	once sync.Once
	cdb  *chsim.DB
}

var errHarness = errors.New("harness")

func (t *tracesTable) db() *chsim.DB {
	t.once.Do(func() {
		db := chsim.NewDB()
		rows := make([][]chsim.Value, 0, len(t.rows))
		for _, r := range t.rows {
			rows = append(rows, []chsim.Value{"0", r.TraceID, r.SpanID, r.Parent, r.Name, r.TsNs, r.DurNs, r.Service, int64(r.PayloadType), r.Payload})
		}
		db.AddQrynTable("tempo_traces", rows)
		db.Alias("tempo_traces", "tempo_traces_dist")
		t.cdb = db
	})
	return t.cdb
}

type connector struct{ t *tracesTable }

func (c *connector) Connect(context.Context) (driver.Conn, error) { return &conn{c.t}, nil }
func (c *connector) Driver() driver.Driver                        { return drv{} }

type drv struct{}

func (drv) Open(string) (driver.Conn, error) { return nil, fmt.Errorf("use the connector") }

type conn struct{ t *tracesTable }

func (c *conn) Prepare(q string) (driver.Stmt, error) {
	return nil, fmt.Errorf("prepare not supported")
}
func (c *conn) Close() error              { return nil }
func (c *conn) Begin() (driver.Tx, error) { return nil, fmt.Errorf("no tx") }

var stmtCache sync.Map // sql text -> *chsim.Stmt | error

func (c *conn) QueryContext(ctx context.Context, q string, args []driver.NamedValue) (driver.Rows, error) {
	c.t.queries = append(c.t.queries, q)
	var st *chsim.Stmt
	if x, ok := stmtCache.Load(q); ok {
		if st, ok = x.(*chsim.Stmt); !ok {
			return nil, x.(error)
		}
	} else {
		p, err := chsim.Parse(q)
		if err != nil {
			err = fmt.Errorf("%w: the interpreter cannot parse the statement: %v: %s", errHarness, err, q)
			stmtCache.Store(q, err)
			return nil, err
		}
		stmtCache.Store(q, p)
		st = p
	}
	res, err := c.t.db().Exec(st)
	if err != nil {
		return nil, fmt.Errorf("%w: the interpreter cannot evaluate the statement: %v: %s", errHarness, err, q)
	}
	it := &rowsIt{cols: res.Cols}
	for _, r := range res.Rows {
		vals := make([]driver.Value, len(r))
		for k, v := range r {
			switch x := v.(type) {
			case string, int64, uint64, float64:
				vals[k] = x
				if k < len(res.Types) && res.Types[k] != nil && res.Types[k].Name == "Int8" {
					if i, ok := v.(int64); ok {
						vals[k] = int8(i) // clickhouse-go hands an Int8 column over as int8
					}
				}
			default:
				return nil, fmt.Errorf("%w: column %s has a value of type %T the stand-in does not hand over", errHarness, res.Cols[k], v)
			}
		}
		it.rows = append(it.rows, vals)
	}
	return it, nil
}

type rowsIt struct {
	cols []string
	rows [][]driver.Value
	i    int
}

func (r *rowsIt) Columns() []string { return r.cols }
func (r *rowsIt) Close() error      { return nil }
func (r *rowsIt) Next(dest []driver.Value) error {
	if r.i >= len(r.rows) {
		return io.EOF
	}
	copy(dest, r.rows[r.i])
	r.i++
	return nil
}

// ---- reader seams -----------------------------------------------------------------------------------------------

type fakeSession struct{ db *sql.DB }

func (f *fakeSession) GetName() string { return "fake" }
func (f *fakeSession) QueryCtx(ctx context.Context, q string, args ...any) (*sql.Rows, error) {
	return f.db.QueryContext(ctx, q, args...)
}
func (f *fakeSession) ExecCtx(ctx context.Context, q string, args ...any) error {
	return fmt.Errorf("fake: exec not supported")
}
func (f *fakeSession) Conn(ctx context.Context) (*sql.Conn, error) { return f.db.Conn(ctx) }
func (f *fakeSession) Begin() (*sql.Tx, error)                     { return nil, fmt.Errorf("no tx") }
func (f *fakeSession) Close()                                      { f.db.Close() }

type fakeRegistry struct{ s *fakeSession }

func (r *fakeRegistry) GetDB(ctx context.Context) (*rmodel.DataDatabasesMap, error) {
	return &rmodel.DataDatabasesMap{Config: &rconfig.ClokiBaseDataBase{Name: "qryn"}, Session: r.s}, nil
}
func (r *fakeRegistry) Run()        {}
func (r *fakeRegistry) Stop()       {}
func (r *fakeRegistry) Ping() error { return nil }
