package main

// A scripted database/sql driver standing in for clickhouse-go behind reader model.ISqlxDB: it holds the rows of
// tempo_traces exactly as the writer stored them and answers the one query shape TempoService.GetQueryRequest
// produces (trace_id = unhex('<hex>') [and timestamp bounds], ORDER BY timestamp_ns, LIMIT n).

import (
	"context"
	"database/sql"
	"database/sql/driver"
	"encoding/hex"
	"fmt"
	"io"
	"regexp"
	"sort"
	"strconv"
	"strings"

	rconfig "github.com/metrico/cloki-config/config"
	rmodel "github.com/metrico/qryn/reader/model"
)

type tracesTable struct {
	rows    []traceRow
	queries []string
	errs    []string
}

type connector struct{ t *tracesTable }

func (c *connector) Connect(context.Context) (driver.Conn, error) { return &conn{c.t}, nil }
func (c *connector) Driver() driver.Driver                        { return drv{} }

type drv struct{}

func (drv) Open(string) (driver.Conn, error) { return nil, fmt.Errorf("use the connector") }

type conn struct{ t *tracesTable }

func (c *conn) Prepare(q string) (driver.Stmt, error) {
	return nil, fmt.Errorf("prepare not supported")
}
func (c *conn) Close() error              { return nil }
func (c *conn) Begin() (driver.Tx, error) { return nil, fmt.Errorf("no tx") }

var (
	reUnhex  = regexp.MustCompile(`trace_id\)? *==? *\(?unhex\('([^']*)'\)`)
	reGe     = regexp.MustCompile(`timestamp_ns\)? *>= *\(?(-?\d+)`)
	reLt     = regexp.MustCompile(`timestamp_ns\)? *< *\(?(-?\d+)`)
	reLimit  = regexp.MustCompile(`LIMIT (\d+)`)
	reSelect = regexp.MustCompile(`(?s)SELECT (.*?) FROM`)
)

func (c *conn) QueryContext(ctx context.Context, q string, args []driver.NamedValue) (driver.Rows, error) {
	c.t.queries = append(c.t.queries, q)
	if !strings.Contains(q, "tempo_traces") {
		return nil, fmt.Errorf("fake: unknown query shape: %s", q)
	}
	m := reUnhex.FindStringSubmatch(q)
	if m == nil {
		return nil, fmt.Errorf("fake: no trace id condition in: %s", q)
	}
	// ClickHouse unhex: decodes pairs of hex digits
	id, err := hex.DecodeString(m[1])
	if err != nil {
		return nil, fmt.Errorf("fake: unhex(%q): %v", m[1], err)
	}
	var ge, lt *int64
	if g := reGe.FindStringSubmatch(q); g != nil {
		v, _ := strconv.ParseInt(g[1], 10, 64)
		ge = &v
	}
	if g := reLt.FindStringSubmatch(q); g != nil {
		v, _ := strconv.ParseInt(g[1], 10, 64)
		lt = &v
	}
	limit := 1 << 30
	if g := reLimit.FindStringSubmatch(q); g != nil {
		limit, _ = strconv.Atoi(g[1])
	}
	// the outer SELECT list decides the column order
	sels := reSelect.FindAllStringSubmatch(q, -1)
	if len(sels) == 0 {
		return nil, fmt.Errorf("fake: no select list in: %s", q)
	}
	var cols []string
	for _, cname := range strings.Split(sels[len(sels)-1][1], ",") {
		cols = append(cols, strings.TrimSpace(cname))
	}
	var sel []traceRow
	for _, r := range c.t.rows {
		// FixedString(16) = 'x' comparison: ClickHouse pads the shorter constant with zero bytes
		want := string(id)
		if len(want) < 16 {
			want += strings.Repeat("\x00", 16-len(want))
		}
		if r.TraceID != want {
			continue
		}
		if ge != nil && r.TsNs < *ge {
			continue
		}
		if lt != nil && r.TsNs >= *lt {
			continue
		}
		sel = append(sel, r)
	}
	sort.SliceStable(sel, func(i, j int) bool { return sel[i].TsNs < sel[j].TsNs })
	if len(sel) > limit {
		sel = sel[:limit]
	}
	return &rowsIt{cols: cols, rows: sel}, nil
}

type rowsIt struct {
	cols []string
	rows []traceRow
	i    int
}

func (r *rowsIt) Columns() []string { return r.cols }
func (r *rowsIt) Close() error      { return nil }
func (r *rowsIt) Next(dest []driver.Value) error {
	if r.i >= len(r.rows) {
		return io.EOF
	}
	row := r.rows[r.i]
	r.i++
	for k, c := range r.cols {
		switch c {
		case "trace_id":
			dest[k] = row.TraceID
		case "span_id":
			dest[k] = row.SpanID
		case "parent_id":
			dest[k] = row.Parent
		case "name":
			dest[k] = row.Name
		case "service_name":
			dest[k] = row.Service
		case "timestamp_ns":
			dest[k] = row.TsNs
		case "duration_ns":
			dest[k] = row.DurNs
		case "payload_type":
			dest[k] = row.PayloadType // Int8 arrives as int8 from clickhouse-go
		case "payload":
			dest[k] = row.Payload
		default:
			return fmt.Errorf("fake: unknown column %q", c)
		}
	}
	return nil
}

// ---- reader seams -----------------------------------------------------------------------------------------------

type fakeSession struct{ db *sql.DB }

func (f *fakeSession) GetName() string { return "fake" }
func (f *fakeSession) QueryCtx(ctx context.Context, q string, args ...any) (*sql.Rows, error) {
	return f.db.QueryContext(ctx, q, args...)
}
func (f *fakeSession) ExecCtx(ctx context.Context, q string, args ...any) error {
	return fmt.Errorf("fake: exec not supported")
}
func (f *fakeSession) Conn(ctx context.Context) (*sql.Conn, error) { return f.db.Conn(ctx) }
func (f *fakeSession) Begin() (*sql.Tx, error)                     { return nil, fmt.Errorf("no tx") }
func (f *fakeSession) Close()                                      { f.db.Close() }

type fakeRegistry struct{ s *fakeSession }

func (r *fakeRegistry) GetDB(ctx context.Context) (*rmodel.DataDatabasesMap, error) {
	return &rmodel.DataDatabasesMap{Config: &rconfig.ClokiBaseDataBase{Name: "qryn"}, Session: r.s}, nil
}
func (r *fakeRegistry) Run()        {}
func (r *fakeRegistry) Stop()       {}
func (r *fakeRegistry) Ping() error { return nil }
