package main

// Oracle for C06, written against the property statement:
//   (1) exactly one trace row per accepted span carrying the span's 16-byte trace id, 8-byte span id, parent, start,
//       duration, name and service name;
//   (2) one tag-index row per flattened attribute (+ name, service.name) bearing the same ids and times;
//   (3) decoding the stored payload with the trace read path returns a span with the same ids, name, times, parent
//       and attributes.
// Violations are classified by explanation: for every mismatch the documented deviant rule (DESIGN.md §3 D6, D7, and
// the rules found while building this check) is re-evaluated and claims the mismatch only if it predicts exactly
// the observed value; anything else gets a generic class and is a fresh VIOLATION.

import (
	"encoding/hex"
	"encoding/json"
	"errors"
	"fmt"
	"hash/fnv"
	"math"
	"runtime"
	"sort"
	"strconv"
	"strings"

	commonpb "go.opentelemetry.io/proto/otlp/common/v1"
	tracepb "go.opentelemetry.io/proto/otlp/trace/v1"

	"verif/mc/wkpool"
)

type checker struct {
	b       *Batch
	dropped map[int]bool
	orig    *Batch // as enumerated (generated spans not materialised): this is what a replay file carries
	offs    [][2]int
	res     *wkpool.CaseResult
	seen    map[string]bool
	rjson   json.RawMessage
}

func (c *checker) viol(class, format string, a ...any) {
	what := fmt.Sprintf(format, a...)
	if len(what) > 400 {
		what = what[:400] + "…"
	}
	k := class + "\x00" + what
	if c.seen[k] {
		return
	}
	c.seen[k] = true
	if c.rjson == nil {
		c.rjson, _ = json.Marshal(c.orig)
	}
	c.res.Viols = append(c.res.Viols, wkpool.Viol{Class: class, What: what, Replay: c.rjson})
}

func (c *checker) count(k string) { c.res.Counters[k]++ }

// harnessClass marks a record that is not a verdict (the parent turns it into exit 2).
const harnessClass = "HARNESS-ERROR"

func shortHash(s string) string {
	h := fnv.New64a()
	h.Write([]byte(s))
	return strconv.FormatUint(h.Sum64(), 36)
}

func hx(s string) string { return hex.EncodeToString([]byte(s)) }

// ---- expectations per span ----------------------------------------------------------------------------------------

type expect struct {
	row      traceRow
	svcKnown bool
	flats    []flat
	skip     map[string]bool // keys not judged (duplicates)
	unjudged []string        // top-level keys whose flattening is not defined (bytes / unset / non-string Zipkin tag)
	derived  map[string]bool // keys the implementation may add on its own
}

func (b *Batch) expectFor(i int) *expect {
	s := &b.Spans[i]
	e := &expect{skip: map[string]bool{}, derived: map[string]bool{}}
	e.row = traceRow{TraceID: s.tid16(), SpanID: unhexPad(s.SpanID, 16), Name: s.Name}
	if s.Parent != "" {
		e.row.Parent = unhexPad(s.Parent, 16)
	}
	if s.HasTS {
		e.row.TsNs = int64(s.StartNs)
	}
	if s.HasDur {
		e.row.DurNs = int64(s.DurNs)
	}
	if !s.HasName {
		e.row.Name = ""
	}
	if b.Proto == "otlp" {
		e.row.PayloadType = 2
		res := b.Res[s.Res]
		e.flats = append(flattenAll(s.Attrs, "span"), flattenAll(res.Attrs, "resource")...)
		e.flats = append(e.flats, flat{Key: "name", Val: s.Name, Kind: "str", Src: "name"})
		rs, ss := getAttr(res.Attrs, "service.name"), getAttr(s.Attrs, "service.name")
		if rs != nil && rs.Kind == "str" && ss == nil {
			e.svcKnown, e.row.Service = true, rs.S
		}
		e.derived["remoteService.name"] = true
		e.derived["service.name"] = true
		for _, kv := range append(append([]KV{}, s.Attrs...), res.Attrs...) {
			if hasKind(kv.V, "bytes") || hasKind(kv.V, "unset") || hasKind(kv.V, "nil") {
				e.unjudged = append(e.unjudged, kv.K)
			}
		}
	} else {
		e.row.PayloadType = 1
		for _, kv := range s.Attrs {
			if kv.V.Kind == "str" {
				e.flats = append(e.flats, flat{Key: kv.K, Val: kv.V.S, Kind: "str", Src: "span", Top: kv.K})
			} else {
				e.unjudged = append(e.unjudged, kv.K)
			}
		}
		if s.HasName {
			e.flats = append(e.flats, flat{Key: "name", Val: s.Name, Kind: "str", Src: "name"})
		}
		if s.Local != nil {
			e.svcKnown, e.row.Service = true, *s.Local
			e.flats = append(e.flats, flat{Key: "service.name", Val: *s.Local, Kind: "str", Src: "service"})
			e.derived["local_endpoint_service_name"] = true
		}
		if s.Remote != nil {
			e.derived["remote_endpoint_service_name"] = true
		}
		e.derived["service.name"] = true
	}
	cnt := map[string]int{}
	for _, f := range e.flats {
		cnt[f.Key]++
	}
	for k, n := range cnt {
		if n > 1 {
			e.skip[k] = true
		}
	}
	// a derived key that collides with a pushed key is not judged either
	for _, f := range e.flats {
		if f.Src != "service" && f.Src != "name" && (f.Key == "remoteService.name" || f.Key == "local_endpoint_service_name" || f.Key == "remote_endpoint_service_name") {
			e.skip[f.Key] = true
		}
		if f.Src == "span" && (f.Key == "name" || f.Key == "service.name") {
			e.skip[f.Key] = true
		}
	}
	return e
}

func valEqual(kind, want, got string) bool {
	switch kind {
	case "str":
		return want == got
	case "bool":
		g, err := strconv.ParseBool(got)
		w, _ := strconv.ParseBool(want)
		return err == nil && g == w
	case "int":
		g, err := strconv.ParseInt(got, 10, 64)
		w, _ := strconv.ParseInt(want, 10, 64)
		return err == nil && g == w
	case "dbl":
		g, err := strconv.ParseFloat(got, 64)
		w, _ := strconv.ParseFloat(want, 64)
		return err == nil && math.Abs(g-w) <= 1e-6*math.Max(1, math.Abs(w))
	}
	return want == got
}

// ---- deviant rules (for classification only) -----------------------------------------------------------------------

// zipkinServiceSim replays the service-name state machine of the Zipkin decoder over the spans of the batch.
// d7: "remoteEndpoint replaces the name iff one is already set" (the rule in the code); otherwise the intended rule
// "remoteEndpoint is only a fallback".  leak: the state is not reset between spans (NDJSON decoder).
func (b *Batch) zipkinServiceSim(upto int, d7, leak bool) string {
	svc := ""
	for i := 0; i <= upto; i++ {
		if !leak {
			svc = ""
		}
		s := &b.Spans[i]
		for _, k := range b.keysInOrder(s) {
			switch k {
			case "localEndpoint":
				if s.LocalNoSvc {
					svc = ""
				} else if s.Local != nil {
					svc = *s.Local
				}
			case "remoteEndpoint":
				if s.Remote != nil {
					if d7 {
						if svc != "" {
							svc = *s.Remote
						}
					} else if svc == "" {
						svc = *s.Remote
					}
				}
			}
		}
	}
	return svc
}

func (b *Batch) keysInOrder(s *Span) []string {
	order := b.KeyOrder
	if len(order) == 0 {
		order = zipkinSensitive
	}
	var out []string
	for _, k := range order {
		switch k {
		case "localEndpoint":
			if s.Local != nil || s.LocalNoSvc {
				out = append(out, k)
			}
		case "remoteEndpoint":
			if s.Remote != nil {
				out = append(out, k)
			}
		default:
			out = append(out, k)
		}
	}
	return out
}

func (c *checker) classifyService(i int, want, got string) string {
	b := c.b
	if b.Proto != "zipkin" {
		return "otlp_trace_row_service_name_mismatch"
	}
	if got == b.zipkinServiceSim(i, true, false) && got != want {
		return "zipkin_service_name_remote_endpoint_overrides_local"
	}
	if b.ND && i > 0 && (got == b.zipkinServiceSim(i, false, true) || got == b.zipkinServiceSim(i, true, true)) {
		return "zipkin_nd_state_leak_service_name"
	}
	return "zipkin_trace_row_service_name_mismatch"
}

// ndCarried: value of a scalar field as the NDJSON decoder without per-line reset would see it for line i.
func (b *Batch) ndCarried(i int, field string) (string, bool) {
	if !b.ND || i == 0 {
		return "", false
	}
	has := func(s *Span) bool {
		switch field {
		case "name":
			return s.HasName
		case "parent":
			return s.Parent != ""
		case "ts":
			return s.HasTS
		case "dur":
			return s.HasDur
		}
		return false
	}
	if has(&b.Spans[i]) {
		return "", false
	}
	for j := i - 1; j >= 0; j-- {
		s := &b.Spans[j]
		if has(s) {
			switch field {
			case "name":
				return s.Name, true
			case "parent":
				return unhexPad(s.Parent, 16), true
			case "ts":
				return strconv.FormatInt(int64(s.StartNs), 10), true
			case "dur":
				return strconv.FormatInt(int64(s.DurNs), 10), true
			}
		}
	}
	return "", false
}

// ndDropped: deviant rule "the NDJSON decoder stops at the first line that does not fit bufio.Scanner's 64 KiB token
// limit and reports success" — line i is lost iff it or an earlier line is that long.
func (c *checker) ndDropped(i int) bool {
	if !c.b.ND || c.b.Proto != "zipkin" {
		return false
	}
	for j := 0; j <= i && j < len(c.offs); j++ {
		if c.offs[j][1]-c.offs[j][0] >= 64*1024 {
			return true
		}
	}
	return false
}

// ---- the check ---------------------------------------------------------------------------------------------------

// ---- histories: state carried across requests ------------------------------------------------------------------------

func renderBody(b *Batch) ([]byte, [][2]int, error) {
	if b.Proto == "otlp" {
		body, err := renderOTLP(b)
		return body, nil, err
	}
	body, offs := renderZipkinOffsets(b)
	return body, offs, nil
}

// snapshot is a deep, independent image of what the parser handed over.
func snapshot(p *parsed) string {
	b, _ := json.Marshal(struct {
		S any
		T any
	}{p.spans, p.tags})
	return string(b)
}

// judge runs the row and read-back oracles for one body on the rows as stored now.
func (c *checker) judge(st *stored) int {
	c.checkBlockShape(st)
	exps := make([]*expect, len(c.b.Spans))
	for i := range c.b.Spans {
		exps[i] = c.b.expectFor(i)
	}
	c.checkTraceRows(st, exps)
	c.checkTagRows(st, exps)
	return c.checkReadBack(st, exps)
}

func checkHistory(orig *Batch) *wkpool.CaseResult {
	// one P while the history runs: a sync.Pool hand-over (Put by one request, Get by the next) is deterministic
	defer runtime.GOMAXPROCS(runtime.GOMAXPROCS(1))
	a := *orig
	a.Then, a.History = nil, ""
	bb := orig.Then
	res := &wkpool.CaseResult{Counters: map[string]int64{}, Key: shortHash(orig.shapeKey())}
	mk := func(b *Batch) *checker {
		return &checker{b: b, orig: orig, dropped: map[int]bool{}, res: &wkpool.CaseResult{Counters: map[string]int64{}}, seen: map[string]bool{}}
	}
	ca, cb := mk(&a), mk(bb)
	bodyA, offsA, err1 := renderBody(&a)
	bodyB, offsB, err2 := renderBody(bb)
	if err1 != nil || err2 != nil {
		res.Outcomes = append(res.Outcomes, "render_error")
		return res
	}
	ca.offs, cb.offs = offsA, offsB
	pa := parse(&a, bodyA, nil)
	res.RealTraces++
	if pa.err != nil {
		res.Outcomes = append(res.Outcomes, "history:first_body_rejected")
		return res
	}
	snapA := snapshot(pa)
	if orig.History == "retry" {
		// first attempt: the rows are copied into the column buffers, the INSERT fails, the block is dropped
		if _, perr := process(pa); perr != "" {
			ca.viol(a.Proto+"_process_request_failed", "history %s, first attempt: %s", orig.History, perr)
		}
	}
	pb := parse(bb, bodyB, nil)
	res.RealTraces++
	if pb.err != nil {
		res.Outcomes = append(res.Outcomes, "history:second_body_rejected")
		return res
	}
	stb, perr := process(pb)
	if perr != "" {
		cb.viol(bb.Proto+"_process_request_failed", "history %s, second body: %s", orig.History, perr)
	} else {
		cb.judge(stb)
	}
	// hand-over immutability: what the parser handed over for A must not change because another body was decoded
	if now := snapshot(pa); now != snapA {
		ca.viol("handed_over_batch_changed_by_later_request", "history %s: the %s batch handed over for the first body changed after a %s body was decoded (before: %.160s… now: %.160s…)", orig.History, a.Proto, bb.Proto, snapA, now)
	}
	sta, perr := process(pa)
	na := 0
	if perr != "" {
		ca.viol(a.Proto+"_process_request_failed", "history %s, first body consumed after the second: %s", orig.History, perr)
	} else {
		na = ca.judge(sta)
	}
	for _, x := range []struct {
		c    *checker
		name string
	}{{ca, "first body"}, {cb, "second body"}} {
		for _, v := range x.c.res.Viols {
			v.Class = "history_" + v.Class
			v.What = "history " + orig.History + ", " + x.name + ": " + v.What
			res.Viols = append(res.Viols, v)
		}
		for k, n := range x.c.res.Counters {
			res.Counters[k] += n
		}
	}
	res.Outcomes = append(res.Outcomes, fmt.Sprintf("history:%s:%s(%d spans) then %s(%d spans):first_read_back=%d", orig.History, a.Proto, len(a.Spans), bb.Proto, len(bb.Spans), na))
	return res
}

func checkBatch(orig *Batch) *wkpool.CaseResult {
	if orig.Then != nil {
		return checkHistory(orig)
	}
	b := orig.expanded()
	c := &checker{b: b, orig: orig, dropped: map[int]bool{}, res: &wkpool.CaseResult{Counters: map[string]int64{}}, seen: map[string]bool{}}
	res := c.res
	var body []byte
	var offs [][2]int
	if b.Proto == "otlp" {
		var err error
		body, err = renderOTLP(b)
		if err != nil {
			res.Outcomes = append(res.Outcomes, "render_error")
			return res
		}
	} else {
		body, offs = renderZipkinOffsets(b)
	}
	c.offs = offs
	cuts := deliveryCuts(b, body, offs)
	odd := strings.HasSuffix(b.Family, "-odd")
	res.Key = shortHash(b.shapeKey())
	// All responses of the parser are collected first and only then turned into blocks: the rows are looked at when
	// a downstream consumer would use them at the latest (after the whole body was decoded), so a slice the parser
	// retained from a buffer it reuses shows up as a corrupted row.
	p := parse(b, body, cuts)
	res.RealTraces = 1
	if p.err != nil {
		cls := "rejected"
		if strings.Contains(p.err.Error(), "panic") {
			cls = "rejected_by_panic"
		}
		if odd {
			res.Outcomes = append(res.Outcomes, "odd:"+oddName(b)+":"+cls)
		} else {
			res.Outcomes = append(res.Outcomes, b.Proto+":"+cls)
			c.count("wellformed_batches_" + cls)
		}
		return res
	}
	st, perr := process(p)
	if odd {
		o := "odd:" + oddName(b) + ":accepted_by_parser"
		if strings.HasPrefix(perr, "panic:") {
			o += "+process_request_panics"
			c.count("wrong_length_id_accepted_by_onSpan_then_ProcessRequest_panics")
		} else if perr != "" {
			o += "+process_error"
		} else {
			o += "+stored"
		}
		res.Outcomes = append(res.Outcomes, o)
		return res
	}
	if perr != "" {
		c.viol(b.Proto+"_process_request_failed", "spans accepted by the parser cannot be turned into a block: %s", perr)
		return res
	}

	// INSERT column list must name exactly the block columns, with the schema's types
	c.checkBlockShape(st)

	exps := make([]*expect, len(b.Spans))
	for i := range b.Spans {
		exps[i] = b.expectFor(i)
	}
	c.checkTraceRows(st, exps)
	c.checkTagRows(st, exps)
	nback := c.checkReadBack(st, exps)
	res.Outcomes = append(res.Outcomes, fmt.Sprintf("%s:accepted:spans=%d:trace_rows=%d:tag_rows=%d:read_back=%d", b.Proto, len(b.Spans), len(st.traces), len(st.tags), nback))
	return res
}

func bodyText(b *Batch, body []byte) string {
	if b.Proto == "otlp" {
		return hex.EncodeToString(body)
	}
	return string(body)
}

func oddName(b *Batch) string {
	s := b.Spans[0]
	if b.Proto == "otlp" {
		if b.Res[0].NoRes {
			return "otlp_resource_message_absent"
		}
		return fmt.Sprintf("otlp_trace_id_%dB_span_id_%dB", len(s.TraceID)/2, len(s.SpanID)/2)
	}
	switch {
	case s.TraceID == "":
		return "zipkin_trace_id_empty_string"
	case s.TraceID == "-":
		return "zipkin_trace_id_key_absent"
	case s.SpanID == "-":
		return "zipkin_span_id_key_absent"
	}
	return fmt.Sprintf("zipkin_trace_id_%d_hex_digits", len(s.TraceID))
}

func (c *checker) checkBlockShape(st *stored) {
	for k, schema := range []map[string]string{schemaTraces, schemaTags} {
		types := st.traceTypes
		if k == 1 {
			types = st.tagTypes
		}
		if len(types) == 0 {
			continue // empty block (no rows): nothing is sent
		}
		cols := insertColumnList(st.insertCols[k])
		for _, col := range cols {
			if _, ok := types[col]; !ok {
				c.viol("insert_column_not_in_block", "INSERT lists column %s but the block has no such column (%v)", col, sortedKeys(types))
			}
		}
		for name, typ := range types {
			want, ok := schema[name]
			if !ok {
				c.viol("block_column_not_in_schema", "block column %s %s is not a column of the table", name, typ)
				continue
			}
			if strings.ReplaceAll(typ, " ", "") != want {
				c.viol("block_column_type_mismatch", "block column %s has type %s, schema says %s", name, typ, want)
			}
			found := false
			for _, col := range cols {
				found = found || col == name
			}
			if !found {
				c.viol("block_column_not_in_insert", "block column %s is not named in %q", name, st.insertCols[k])
			}
		}
	}
}

func (c *checker) checkTraceRows(st *stored, exps []*expect) {
	b := c.b
	used := make([]bool, len(st.traces))
	p := b.Proto
	match := make([]int, len(exps))
	for i := range match {
		match[i] = -1
	}
	same := func(e *expect, g *traceRow) bool {
		return g.TraceID == e.row.TraceID && g.SpanID == e.row.SpanID && g.Parent == e.row.Parent && g.Name == e.row.Name &&
			g.TsNs == e.row.TsNs && g.DurNs == e.row.DurNs && (!e.svcKnown || g.Service == e.row.Service)
	}
	// pass 1: rows that agree on every judged field (several pushed spans may share ids); pass 2: by ids only
	order := make([]int, 0, len(exps))
	for i, e := range exps {
		if e.svcKnown {
			order = append(order, i)
		}
	}
	for i, e := range exps {
		if !e.svcKnown {
			order = append(order, i)
		}
	}
	for pass := 0; pass < 2; pass++ {
		for _, i := range order {
			e := exps[i]
			if match[i] >= 0 {
				continue
			}
			for k := range st.traces {
				if used[k] {
					continue
				}
				g := &st.traces[k]
				if (pass == 0 && same(e, g)) || (pass == 1 && g.TraceID == e.row.TraceID && g.SpanID == e.row.SpanID) {
					match[i], used[k] = k, true
					break
				}
			}
		}
	}
	for i, e := range exps {
		j := match[i]
		if j < 0 {
			if c.ndDropped(i) {
				c.dropped[i] = true
				c.viol("zipkin_nd_line_over_scanner_limit_dropped_silently", "line %d: the body is acknowledged but this span has no row: a line of >= 64 KiB at or before it ends the NDJSON decoder without an error", i)
				continue
			}
			c.viol(p+"_trace_row_missing", "span %d (trace %s span %s): no trace row with these ids; rows=%s", i, hx(e.row.TraceID), hx(e.row.SpanID), traceRowsBrief(st.traces))
			continue
		}
		g := st.traces[j]
		if g.Parent != e.row.Parent {
			if v, ok := b.ndCarried(i, "parent"); ok && v == g.Parent {
				c.viol("zipkin_nd_state_leak_parent_id", "line %d has no parentId but its row carries parent %s of an earlier line", i, hx(g.Parent))
			} else {
				c.viol(p+"_trace_row_parent_mismatch", "span %d: parent_id %q, pushed %q", i, hx(g.Parent), hx(e.row.Parent))
			}
		}
		if g.Name != e.row.Name {
			if v, ok := b.ndCarried(i, "name"); ok && v == g.Name {
				c.viol("zipkin_nd_state_leak_name", "line %d has no name but its row carries name %q of an earlier line", i, g.Name)
			} else {
				c.viol(p+"_trace_row_name_mismatch", "span %d: name %q, pushed %q", i, g.Name, e.row.Name)
			}
		}
		if g.TsNs != e.row.TsNs {
			if v, ok := b.ndCarried(i, "ts"); ok && v == strconv.FormatInt(g.TsNs, 10) {
				c.viol("zipkin_nd_state_leak_timestamp", "line %d has no timestamp but its row carries timestamp_ns %d of an earlier line", i, g.TsNs)
			} else {
				c.viol(p+"_trace_row_timestamp_mismatch", "span %d: timestamp_ns %d, pushed %d", i, g.TsNs, e.row.TsNs)
			}
		}
		if g.DurNs != e.row.DurNs {
			if v, ok := b.ndCarried(i, "dur"); ok && v == strconv.FormatInt(g.DurNs, 10) {
				c.viol("zipkin_nd_state_leak_duration", "line %d has no duration but its row carries duration_ns %d of an earlier line", i, g.DurNs)
			} else {
				c.viol(p+"_trace_row_duration_mismatch", "span %d: duration_ns %d, pushed %d", i, g.DurNs, e.row.DurNs)
			}
		}
		if e.svcKnown && g.Service != e.row.Service {
			c.viol(c.classifyService(i, e.row.Service, g.Service), "span %d: service_name %q, pushed %q (key order %v)", i, g.Service, e.row.Service, b.keysInOrder(&b.Spans[i]))
		}
		if !e.svcKnown {
			c.count("service_name_not_judged")
		}
		if g.PayloadType != e.row.PayloadType {
			c.viol(p+"_trace_row_payload_type_mismatch", "span %d: payload_type %d, want %d", i, g.PayloadType, e.row.PayloadType)
		}
		if g.Payload == "" {
			if b.ND {
				c.viol("zipkin_nd_payload_not_stored", "line %d: the trace row has an empty payload, nothing can be read back", i)
			} else {
				c.viol(p+"_trace_row_payload_empty", "span %d: the trace row has an empty payload", i)
			}
		}
	}
	for k := range st.traces {
		if !used[k] {
			g := st.traces[k]
			c.viol(p+"_trace_row_unexpected", "trace row %d (trace %s span %s name %q) corresponds to no pushed span", k, hx(g.TraceID), hx(g.SpanID), g.Name)
		}
	}
}

func traceRowsBrief(rows []traceRow) string {
	var p []string
	for _, r := range rows {
		p = append(p, hx(r.TraceID)+"/"+hx(r.SpanID))
	}
	return strings.Join(p, ",")
}

func (c *checker) checkTagRows(st *stored, exps []*expect) {
	b := c.b
	p := b.Proto
	used := make([]bool, len(st.tags))
	idsOf := func(e *expect) string { return e.row.TraceID + e.row.SpanID }
	modelIDs := map[string]bool{}
	for _, e := range exps {
		modelIDs[idsOf(e)] = true
	}
	for i, e := range exps {
		if c.dropped[i] {
			continue
		}
		// candidate rows: same ids
		var cand []int
		for k, t := range st.tags {
			if !used[k] && t.TraceID+t.SpanID == idsOf(e) {
				cand = append(cand, k)
			}
		}
		take := func(pred func(t *tagRow) bool) int {
			for _, k := range cand {
				if !used[k] && pred(&st.tags[k]) {
					used[k] = true
					return k
				}
			}
			return -1
		}
		for _, f := range e.flats {
			if e.skip[f.Key] {
				continue
			}
			f := f
			wantVal := f.Val
			if f.Src == "service" && !e.svcKnown {
				continue
			}
			if k := take(func(t *tagRow) bool {
				return t.Key == f.Key && valEqual(f.Kind, wantVal, t.Val) && t.TsNs == e.row.TsNs && t.DurNs == e.row.DurNs
			}); k >= 0 {
				c.checkDay(&st.tags[k])
				continue
			}
			if k := take(func(t *tagRow) bool { return t.Key == f.Key && valEqual(f.Kind, wantVal, t.Val) }); k >= 0 {
				t := st.tags[k]
				if b.ND && i > 0 {
					tsC, ok1 := b.ndCarried(i, "ts")
					duC, ok2 := b.ndCarried(i, "dur")
					if (ok1 && tsC == strconv.FormatInt(t.TsNs, 10)) || (ok2 && duC == strconv.FormatInt(t.DurNs, 10)) {
						c.viol("zipkin_nd_state_leak_tag_times", "line %d: tag row %s carries times (%d,%d) of an earlier line, pushed (%d,%d)", i, f.Key, t.TsNs, t.DurNs, e.row.TsNs, e.row.DurNs)
						continue
					}
				}
				c.viol(p+"_tag_row_times_mismatch", "span %d: tag row %s=%q has (timestamp_ns,duration)=(%d,%d), span has (%d,%d)", i, f.Key, t.Val, t.TsNs, t.DurNs, e.row.TsNs, e.row.DurNs)
				continue
			}
			k := -1
			if f.Src == "service" {
				d7 := b.zipkinServiceSim(i, true, false)
				k = take(func(t *tagRow) bool { return t.Key == f.Key && t.Val == d7 })
			}
			if k < 0 {
				k = take(func(t *tagRow) bool {
					return t.Key == f.Key && !(b.ND && i > 0 && c.tagFromEarlierLine(i, *t))
				})
			}
			if k < 0 && f.Src == "service" {
				k = take(func(t *tagRow) bool { return t.Key == f.Key })
			}
			if k >= 0 {
				t := st.tags[k]
				if f.Src == "service" || (f.Key == "service.name" && p == "zipkin") {
					c.viol(strings.Replace(c.classifyService(i, wantVal, t.Val), "trace_row", "tag_row", 1), "span %d: tag row service.name=%q, pushed %q", i, t.Val, wantVal)
				} else if v, ok := b.ndCarried(i, "name"); ok && f.Key == "name" && v == t.Val {
					c.viol("zipkin_nd_state_leak_name", "line %d: tag row name=%q comes from an earlier line", i, t.Val)
				} else {
					c.viol(p+"_tag_row_value_mismatch_"+f.Kind, "span %d: tag row %s=%q, pushed %s value %q", i, f.Key, t.Val, f.Kind, wantVal)
				}
				continue
			}
			// missing
			switch {
			case f.Via == "list":
				c.viol("otlp_list_attr_elements_not_indexed", "span %d: %s attribute %q contains a list; flattened key %s=%q has no tag row", i, f.Src, f.Top, f.Key, f.Val)
			case f.Src == "name" && b.ND && i > 0:
				c.viol(p+"_tag_row_missing_name", "span %d: no tag row name=%q", i, f.Val)
			default:
				c.viol(p+"_tag_row_missing_"+f.Src+viaSuffix(f), "span %d: flattened %s attribute %s=%q (from %q) has no tag row; rows of this span: %s", i, f.Src, f.Key, f.Val, f.Top, tagRowsBrief(st.tags, idsOf(e)))
			}
		}
	}
	// leftovers
	for k, t := range st.tags {
		if used[k] {
			continue
		}
		if !modelIDs[t.TraceID+t.SpanID] {
			c.viol(p+"_tag_row_foreign_ids", "tag row %s=%q has ids %s/%s of no pushed span", t.Key, t.Val, hx(t.TraceID), hx(t.SpanID))
			continue
		}
		// which span(s) own these ids
		ok := false
		var owner int
		for i, e := range exps {
			if idsOf(e) != t.TraceID+t.SpanID {
				continue
			}
			owner = i
			if e.skip[t.Key] || e.derived[t.Key] {
				ok = true
			}
			for _, u := range e.unjudged {
				if t.Key == u || strings.HasPrefix(t.Key, u+".") {
					ok = true
				}
			}
		}
		if ok {
			c.checkDay(&st.tags[k])
			// derived rows must still carry the span's times
			e := exps[owner]
			if (t.TsNs != e.row.TsNs || t.DurNs != e.row.DurNs) && countIDs(exps, idsOf(e)) == 1 {
				if b.ND && owner > 0 {
					c.viol("zipkin_nd_state_leak_tag_times", "line %d: derived tag row %s carries times (%d,%d), span has (%d,%d)", owner, t.Key, t.TsNs, t.DurNs, e.row.TsNs, e.row.DurNs)
				} else {
					c.viol(p+"_tag_row_times_mismatch", "span %d: derived tag row %s has (%d,%d), span has (%d,%d)", owner, t.Key, t.TsNs, t.DurNs, e.row.TsNs, e.row.DurNs)
				}
			}
			continue
		}
		if b.ND && owner > 0 && c.tagFromEarlierLine(owner, t) {
			c.viol("zipkin_nd_tag_leak_from_earlier_line", "line %d: tag row %s=%q belongs to an earlier line of the body", owner, t.Key, t.Val)
			continue
		}
		c.viol(p+"_tag_row_unexpected", "span %d: tag row %s=%q is not a flattened attribute of the span", owner, t.Key, t.Val)
	}
}

func viaSuffix(f flat) string {
	if f.Via != "" {
		return "_nested_" + f.Via
	}
	return ""
}

func countIDs(exps []*expect, ids string) int {
	n := 0
	for _, e := range exps {
		if e.row.TraceID+e.row.SpanID == ids {
			n++
		}
	}
	return n
}

// tagFromEarlierLine: does (key,val) occur among the tag rows the decoder legitimately derives from lines < i?
func (c *checker) tagFromEarlierLine(i int, t tagRow) bool {
	for j := 0; j < i; j++ {
		s := &c.b.Spans[j]
		for _, kv := range s.Attrs {
			if kv.K == t.Key && kv.V.Kind == "str" && kv.V.S == t.Val {
				return true
			}
		}
		if s.HasName && t.Key == "name" && t.Val == s.Name {
			return true
		}
		if s.Local != nil && t.Key == "local_endpoint_service_name" && t.Val == *s.Local {
			return true
		}
		if s.Remote != nil && t.Key == "remote_endpoint_service_name" && t.Val == *s.Remote {
			return true
		}
		if t.Key == "service.name" && (t.Val == c.b.zipkinServiceSim(j, true, true) || t.Val == c.b.zipkinServiceSim(j, false, true)) {
			return true
		}
	}
	return false
}

func tagRowsBrief(rows []tagRow, ids string) string {
	var p []string
	for _, r := range rows {
		if r.TraceID+r.SpanID == ids {
			p = append(p, r.Key+"="+strconv.Quote(r.Val))
		}
	}
	sort.Strings(p)
	s := strings.Join(p, " ")
	if len(s) > 200 {
		s = s[:200] + "…"
	}
	return s
}

func (c *checker) checkDay(t *tagRow) {
	if t.TsNs < 0 {
		return
	}
	want := uint16(t.TsNs / 1e9 / 86400)
	if t.Day != want {
		c.viol(c.b.Proto+"_tag_row_date_mismatch", "tag row %s: date is day %d, timestamp_ns %d is day %d (UTC)", t.Key, t.Day, t.TsNs, want)
	}
}

// ---- read back ---------------------------------------------------------------------------------------------------

func (c *checker) checkReadBack(st *stored, exps []*expect) int {
	b := c.b
	p := b.Proto
	var tids []string
	seen := map[string]bool{}
	for _, e := range exps {
		if !seen[e.row.TraceID] {
			seen[e.row.TraceID] = true
			tids = append(tids, e.row.TraceID)
		}
	}
	total := 0
	for _, tid := range tids {
		// an OTLP row with an empty payload would make the reader's goroutine index out of range: report, do not run
		skipRead := false
		for _, r := range st.traces {
			if r.TraceID == tid && r.PayloadType == 2 && r.Payload == "" {
				c.viol("otlp_trace_row_payload_empty", "trace %s: stored OTLP payload is empty (the reader would panic on payload[0])", hx(tid))
				skipRead = true
			}
		}
		if skipRead {
			continue
		}
		spans, queries, err := readBack(st, hx(tid))
		if err != nil {
			if errors.Is(err, errHarness) || strings.Contains(err.Error(), errHarness.Error()+":") {
				// the database stand-in could not evaluate the reader's statement: machinery failure, not a verdict
				c.viol(harnessClass, "trace %s: %v", hx(tid), err)
			} else {
				c.viol(p+"_readback_query_failed", "trace %s: %v (queries %q)", hx(tid), err, queries)
			}
			continue
		}
		total += len(spans)
		used := make([]bool, len(spans))
		match := map[int]int{}
		for pass := 0; pass < 2; pass++ {
			for i, e := range exps {
				if _, done := match[i]; done || e.row.TraceID != tid {
					continue
				}
				for k, s := range spans {
					if used[k] || s.Span == nil || string(s.Span.SpanId) != e.row.SpanID {
						continue
					}
					if pass == 0 && !(s.Span.Name == e.row.Name && string(s.Span.ParentSpanId) == e.row.Parent && int64(s.Span.StartTimeUnixNano) == e.row.TsNs) {
						continue
					}
					match[i], used[k] = k, true
					break
				}
			}
		}
		for i, e := range exps {
			if e.row.TraceID != tid {
				continue
			}
			j, ok := match[i]
			if !ok {
				j = -1
			}
			if j < 0 && c.dropped[i] {
				continue
			}
			if j < 0 {
				empty := false
				for _, r := range st.traces {
					if r.TraceID == tid && r.Payload == "" {
						empty = true
					}
				}
				switch {
				case empty && b.ND:
					c.viol("zipkin_nd_payload_not_stored", "line %d: span is not returned by the trace read path (a stored payload of this trace is empty)", i)
				case empty:
					c.viol(p+"_trace_row_payload_empty", "span %d is not returned by the trace read path (a stored payload of this trace is empty)", i)
				case p == "zipkin" && c.payloadGarbled(st, e):
					c.viol("zipkin_stored_payload_is_not_the_pushed_span", "span %d (trace %s span %s): the stored payload is not the JSON of this span any more (%s) and the trace read path does not return it", i, hx(tid), hx(e.row.SpanID), c.payloadBrief(st, e))
				default:
					c.viol(p+"_readback_span_missing", "span %d (trace %s span %s) is not returned by the trace read path; returned %d spans", i, hx(tid), hx(e.row.SpanID), len(spans))
				}
				continue
			}
			c.compareSpan(i, e, spans[j].Span, spans[j].ServiceName, st)
		}
		for k, s := range spans {
			if !used[k] {
				id := "<nil>"
				if s.Span != nil {
					id = hx(string(s.Span.SpanId))
				}
				c.viol(p+"_readback_span_unexpected", "trace %s: read path returns span %s which was not pushed", hx(tid), id)
			}
		}
	}
	return total
}

func (c *checker) compareSpan(i int, e *expect, g *tracepb.Span, gotSvc string, st *stored) {
	b := c.b
	p := b.Proto
	s := &b.Spans[i]
	// when a line of an NDJSON body inherited fields, the deviation is already reported on the rows
	if string(g.TraceId) != e.row.TraceID {
		c.viol(p+"_readback_trace_id_mismatch", "span %d: trace id %s, pushed %s", i, hx(string(g.TraceId)), hx(e.row.TraceID))
	}
	if string(g.ParentSpanId) != e.row.Parent {
		if p == "zipkin" && len(s.Parent) > 0 && len(s.Parent) < 16 && len(g.ParentSpanId) == 0 {
			c.viol("zipkin_readback_short_parent_id_dropped", "span %d: parentId %q (%d hex digits; the writer stores it left-padded as %s) reads back as no parent", i, s.Parent, len(s.Parent), hx(e.row.Parent))
			goto parentDone
		}
		c.viol(p+"_readback_parent_mismatch", "span %d: parent %q, pushed %q", i, hx(string(g.ParentSpanId)), hx(e.row.Parent))
	}
parentDone:
	if g.Name != e.row.Name {
		c.viol(p+"_readback_name_mismatch", "span %d: name %q, pushed %q", i, g.Name, e.row.Name)
	}
	if int64(g.StartTimeUnixNano) != e.row.TsNs {
		if v, ok := b.ndCarried(i, "ts"); ok && v == strconv.FormatInt(int64(g.StartTimeUnixNano), 10) {
			c.viol("zipkin_nd_state_leak_timestamp", "line %d: read back start %d comes from an earlier line", i, g.StartTimeUnixNano)
		} else {
			c.viol(p+"_readback_start_mismatch", "span %d: start %d, pushed %d", i, g.StartTimeUnixNano, e.row.TsNs)
		}
	}
	if int64(g.EndTimeUnixNano) != e.row.TsNs+e.row.DurNs {
		_, ok1 := b.ndCarried(i, "ts")
		_, ok2 := b.ndCarried(i, "dur")
		if ok1 || ok2 {
			c.viol("zipkin_nd_state_leak_duration", "line %d: read back end %d, pushed start+duration %d", i, g.EndTimeUnixNano, e.row.TsNs+e.row.DurNs)
		} else {
			c.viol(p+"_readback_end_mismatch", "span %d: end %d, pushed start+duration %d", i, g.EndTimeUnixNano, e.row.TsNs+e.row.DurNs)
		}
	}
	got := map[string]*commonpb.AnyValue{}
	cnt := map[string]int{}
	for _, kv := range g.Attributes {
		got[kv.Key] = kv.Value
		cnt[kv.Key]++
	}
	pushedCnt := map[string]int{}
	for _, kv := range s.Attrs {
		pushedCnt[kv.K]++
	}
	for _, kv := range s.Attrs {
		if pushedCnt[kv.K] > 1 {
			continue
		}
		if p == "zipkin" && kv.V.Kind != "str" {
			continue // out of spec tag value: not judged
		}
		if p == "otlp" && getAttr(b.Res[s.Res].Attrs, kv.K) != nil {
			continue // same key on span and resource: which one wins is not stated
		}
		if p == "zipkin" && (kv.K == "service.name" || strings.HasPrefix(kv.K, "localEndpoint.") || strings.HasPrefix(kv.K, "remoteEndpoint.")) {
			continue
		}
		if p == "otlp" && kv.K == "service.name" && !(kv.V.Kind == "str" && kv.V.S != "") {
			continue // a span-level service.name that is empty or not a string is normalised by the read path: not judged
		}
		gv, ok := got[kv.K]
		if !ok {
			c.viol(p+"_readback_attr_missing_"+kv.V.Kind, "span %d: pushed attribute %s (%s) is not in the span read back", i, kv.K, avSig(kv.V))
			continue
		}
		if !avEqualPB(kv.V, gv) {
			if kv.K == "service.name" {
				if ps := getAttr(s.Attrs, "peer.service"); ps != nil && ps.Kind == "str" && gv.GetStringValue() == ps.S {
					c.viol("otlp_readback_service_name_attr_overwritten_by_peer_service", "span %d: pushed service.name=%s reads back as %q (value of peer.service)", i, avSig(kv.V), gv.GetStringValue())
					continue
				}
				c.viol("otlp_readback_service_name_attr_rewritten", "span %d: pushed span attribute service.name=%s reads back as %v", i, avSig(kv.V), gv)
				continue
			}
			c.viol(p+"_readback_attr_changed_"+kv.V.Kind, "span %d: attribute %s pushed %s, read back %v", i, kv.K, avSig(kv.V), gv)
		}
	}
	// observation only (not part of the statement): service name reported by the read path vs stored column
	for _, r := range st.traces {
		if r.TraceID == e.row.TraceID && r.SpanID == e.row.SpanID && r.Service != gotSvc {
			c.count("obs_readback_service_name_differs_from_stored_column")
			if e.svcKnown && gotSvc != e.row.Service {
				c.count("obs_readback_service_name_differs_from_pushed")
			}
			break
		}
	}
}

func avEqualPB(m AV, g *commonpb.AnyValue) bool {
	if g == nil {
		return m.Kind == "nil"
	}
	switch m.Kind {
	case "str":
		v, ok := g.Value.(*commonpb.AnyValue_StringValue)
		return ok && v.StringValue == m.S
	case "bool":
		v, ok := g.Value.(*commonpb.AnyValue_BoolValue)
		return ok && v.BoolValue == m.B
	case "int":
		v, ok := g.Value.(*commonpb.AnyValue_IntValue)
		return ok && v.IntValue == m.I
	case "dbl":
		v, ok := g.Value.(*commonpb.AnyValue_DoubleValue)
		return ok && v.DoubleValue == m.F
	case "bytes":
		v, ok := g.Value.(*commonpb.AnyValue_BytesValue)
		return ok && string(v.BytesValue) == m.S
	case "unset":
		return g.Value == nil
	case "list":
		v, ok := g.Value.(*commonpb.AnyValue_ArrayValue)
		if !ok {
			return false
		}
		var vals []*commonpb.AnyValue
		if v.ArrayValue != nil {
			vals = v.ArrayValue.Values
		}
		if len(vals) != len(m.L) {
			return false
		}
		for i := range vals {
			if !avEqualPB(m.L[i], vals[i]) {
				return false
			}
		}
		return true
	case "kv":
		v, ok := g.Value.(*commonpb.AnyValue_KvlistValue)
		if !ok {
			return false
		}
		var vals []*commonpb.KeyValue
		if v.KvlistValue != nil {
			vals = v.KvlistValue.Values
		}
		if len(vals) != len(m.M) {
			return false
		}
		for i := range vals {
			if vals[i].Key != m.M[i].K || !avEqualPB(m.M[i].V, vals[i].Value) {
				return false
			}
		}
		return true
	}
	return false
}

// payloadGarbled: the row of this span holds a payload that is not valid JSON or names other ids (classification
// aid for retained-buffer bugs; the verdict itself comes from the read path).
func (c *checker) payloadGarbled(st *stored, e *expect) bool {
	for _, r := range st.traces {
		if r.TraceID == e.row.TraceID && r.SpanID == e.row.SpanID {
			var doc struct {
				ID string `json:"id"`
			}
			if err := json.Unmarshal([]byte(r.Payload), &doc); err != nil || !strings.EqualFold(doc.ID, hx(e.row.SpanID)) {
				return true
			}
		}
	}
	return false
}

func (c *checker) payloadBrief(st *stored, e *expect) string {
	for _, r := range st.traces {
		if r.TraceID == e.row.TraceID && r.SpanID == e.row.SpanID {
			s := r.Payload
			if len(s) > 80 {
				s = s[:80] + "…"
			}
			return strconv.Quote(s)
		}
	}
	return "no row"
}
