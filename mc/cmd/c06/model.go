package main

// Value-level model of a span batch (what the client means), independent of any wire format.

import (
	"encoding/hex"
	"fmt"
	"sort"
	"strconv"
	"strings"
)

// AV is an OTLP AnyValue in model form.
type AV struct {
	Kind string  `json:"k"`           // "str" "bool" "int" "dbl" "bytes" "list" "kv" "unset" (AnyValue without a value) "nil" (KeyValue without AnyValue)
	S    string  `json:"s,omitempty"` // str / bytes
	B    bool    `json:"b,omitempty"`
	I    int64   `json:"i,omitempty"`
	F    float64 `json:"f,omitempty"`
	L    []AV    `json:"l,omitempty"`
	M    []KV    `json:"m,omitempty"`
}

type KV struct {
	K string `json:"key"`
	V AV     `json:"v"`
}

// Span is one span as the client means it.  Times: OTLP uses StartNs/DurNs directly; Zipkin uses microseconds
// (StartNs/DurNs are always multiples of 1000 in Zipkin cases).
type Span struct {
	TraceID string `json:"trace"`  // hex, 32 chars (OTLP: 16 bytes; Zipkin: may be 16 chars = 64-bit id)
	SpanID  string `json:"span"`   // hex, 16 chars
	Parent  string `json:"parent"` // hex 16 chars, or "" = no parent
	Name    string `json:"name"`
	HasName bool   `json:"has_name"` // Zipkin: the key may be absent; OTLP: always true
	StartNs uint64 `json:"start_ns"`
	DurNs   uint64 `json:"dur_ns"`
	Attrs   []KV   `json:"attrs,omitempty"` // OTLP span attributes / Zipkin tags (Kind "str" = spec; others = out of spec JSON values)

	// Zipkin only
	Local      *string `json:"local,omitempty"` // localEndpoint.serviceName (nil = no localEndpoint key; "" allowed)
	LocalNoSvc bool    `json:"local_nosvc,omitempty"`
	Remote     *string `json:"remote,omitempty"` // remoteEndpoint.serviceName
	HasTags    bool    `json:"has_tags,omitempty"`
	HasTS      bool    `json:"has_ts,omitempty"`
	HasDur     bool    `json:"has_dur,omitempty"`
	Kind       string  `json:"kind,omitempty"`

	// position inside an OTLP batch
	Res   int `json:"res,omitempty"`
	Scope int `json:"scope,omitempty"`
}

// Resource group of an OTLP batch.
type Resource struct {
	Attrs  []KV `json:"attrs,omitempty"` // may contain service.name
	NoRes  bool `json:"no_resource,omitempty"`
	Scopes int  `json:"scopes"` // number of ScopeSpans (some may stay empty)
}

// Batch is one request body in model form plus the rendering choices.
type Batch struct {
	Family string     `json:"family"`
	Proto  string     `json:"proto"` // "otlp" | "zipkin"
	Res    []Resource `json:"resources,omitempty"`
	Spans  []Span     `json:"spans"`

	// Zipkin rendering
	ND        bool     `json:"ndjson,omitempty"`
	TSString  bool     `json:"ts_as_string,omitempty"`
	KeyOrder  []string `json:"key_order,omitempty"` // order of the order-sensitive keys; the rest go before or after
	RestFirst bool     `json:"rest_first,omitempty"`
	TrailNL   bool     `json:"trailing_newline,omitempty"`

	// Delivery: how the bytes of the body reach the parser.  "" = one reader that hands out everything it is asked
	// for; "bytes" = one byte per Read; "span-ends" / "span-mids" / "span-ends+mids" = a Read never crosses the end /
	// the middle of a span object; "chunk<N>" = N bytes per Read; "half" = two segments; "cut@a[,b]" = segments
	// ending at the given offsets.
	Delivery string `json:"delivery,omitempty"`

	// Generated bodies (size classes): when GenN > 0 the spans are GenN generated spans (see genSpans); span
	// GenLongAt (if >= 0 and GenLongLen > 0) carries a tag value of GenLongLen characters.
	GenN       int `json:"gen_n,omitempty"`
	GenPad     int `json:"gen_pad,omitempty"`
	GenLongAt  int `json:"gen_long_at,omitempty"`
	GenLongLen int `json:"gen_long_len,omitempty"`

	// Histories (state carried across requests): Then is a second, different body.  History "handover": A is
	// parsed, Then is parsed, and only then A's responses (kept exactly as handed over, no copy) are consumed;
	// "retry": A is parsed and consumed once (the INSERT "fails"), Then is parsed and consumed, then A's very same
	// response objects are consumed again (what doPush does when it retries).  A's and Then's rows must each be
	// what they would be alone.
	Then    *Batch `json:"then,omitempty"`
	History string `json:"history,omitempty"`
}

// genSpans: n well-formed spans with pairwise different ids, 500 per trace (the read path LIMITs a trace to 2000).
func genSpans(n, pad, longAt, longLen int) []Span {
	out := make([]Span, 0, n)
	for i := 0; i < n; i++ {
		s := Span{TraceID: fmt.Sprintf("%032x", 0xA000+i/500), SpanID: fmt.Sprintf("%016x", i+1), Name: "s" + strconv.Itoa(i), HasName: true,
			StartNs: 1700000000000000000 + uint64(i)*1000, DurNs: 1000 * uint64(i%7), HasTS: true, HasDur: true, HasTags: true,
			Attrs: []KV{{"k", AV{Kind: "str", S: "v" + strconv.Itoa(i)}}}}
		svc := "svc" + strconv.Itoa(i%3)
		s.Local = &svc
		if i%500 > 0 {
			s.Parent = fmt.Sprintf("%016x", i)
		}
		if pad > 0 {
			s.Attrs = append(s.Attrs, KV{"pad", AV{Kind: "str", S: strings.Repeat("x", pad)}})
		}
		if longLen > 0 && i == longAt {
			s.Attrs = append(s.Attrs, KV{"long", AV{Kind: "str", S: strings.Repeat("y", longLen)}})
		}
		out = append(out, s)
	}
	return out
}

// expanded returns the batch with generated spans materialised.
func (b *Batch) expanded() *Batch {
	if b.GenN == 0 || len(b.Spans) > 0 {
		return b
	}
	cp := *b
	cp.Spans = genSpans(b.GenN, b.GenPad, b.GenLongAt, b.GenLongLen)
	return &cp
}

// ---- expected rows -------------------------------------------------------------------------------------------------

type traceRow struct {
	TraceID, SpanID, Parent string // raw bytes as string
	Name, Service           string
	TsNs, DurNs             int64
	PayloadType             int8
	Payload                 string
}

type tagRow struct {
	TraceID, SpanID string
	TsNs, DurNs     int64
	Key, Val        string
	Day             uint16 // days since epoch as stored in the Date column
}

// tid16 returns the 16 raw bytes of the trace id the model means (64-bit Zipkin ids are left-padded with zeros).
func (s *Span) tid16() string {
	h := s.TraceID
	if len(h) < 32 {
		h = strings.Repeat("0", 32-len(h)) + h
	}
	b, err := hex.DecodeString(h)
	if err != nil {
		panic(err)
	}
	return string(b)
}

// unhexPad: the bytes of the number a hex string of any length <= width denotes, left-padded with zeros (Zipkin
// ids are hex strings; the writer accepts short ones by left-padding).
func unhexPad(h string, width int) string {
	if len(h) < width {
		h = strings.Repeat("0", width-len(h)) + h
	}
	return unhex(h)
}

func unhex(h string) string {
	b, err := hex.DecodeString(h)
	if err != nil {
		panic(err)
	}
	return string(b)
}

// flat is one flattened attribute as the tag index should contain it.
type flat struct {
	Key  string
	Val  string
	Kind string // kind of the scalar it came from: "str" (value must match exactly), "bool", "int", "dbl"
	Src  string // "span" | "resource"
	Top  string // top-level attribute key it was flattened from
	Via  string // "" scalar at top level, "list" if a list is on the path, "kv" if only maps are on the path
}

// flatten implements the flattening rule visible in the writer and stated by the property ("one tag-index row per
// flattened attribute"): scalars become key=value, list elements key.<index>, map entries key.<subkey>,
// recursively.  Values without a defined text form (bytes, unset) yield nothing.
func flatten(prefix string, v AV, src, top, via string, out *[]flat) {
	switch v.Kind {
	case "str":
		*out = append(*out, flat{prefix, v.S, "str", src, top, via})
	case "bool":
		*out = append(*out, flat{prefix, strconv.FormatBool(v.B), "bool", src, top, via})
	case "int":
		*out = append(*out, flat{prefix, strconv.FormatInt(v.I, 10), "int", src, top, via})
	case "dbl":
		*out = append(*out, flat{prefix, strconv.FormatFloat(v.F, 'f', -1, 64), "dbl", src, top, via})
	case "list":
		for i, e := range v.L {
			flatten(prefix+"."+strconv.Itoa(i), e, src, top, "list", out)
		}
	case "kv":
		nv := via
		if nv == "" {
			nv = "kv"
		}
		for _, e := range v.M {
			flatten(prefix+"."+e.K, e.V, src, top, nv, out)
		}
	}
}

func flattenAll(attrs []KV, src string) []flat {
	var out []flat
	for _, kv := range attrs {
		flatten(kv.K, kv.V, src, kv.K, "", &out)
	}
	return out
}

func hasKind(v AV, kind string) bool {
	if v.Kind == kind {
		return true
	}
	for _, e := range v.L {
		if hasKind(e, kind) {
			return true
		}
	}
	for _, e := range v.M {
		if hasKind(e.V, kind) {
			return true
		}
	}
	return false
}

func getAttr(attrs []KV, key string) *AV {
	for i := range attrs {
		if attrs[i].K == key {
			return &attrs[i].V
		}
	}
	return nil
}

// shapeKey is a short signature of the structure of a batch (used as the distinctness key).
func (b *Batch) shapeKey() string {
	var sb strings.Builder
	sb.WriteString(b.Family)
	sb.WriteByte('|')
	sb.WriteString(b.Proto)
	if b.ND {
		sb.WriteString("/nd")
	}
	if b.TSString {
		sb.WriteString("/tss")
	}
	if b.RestFirst {
		sb.WriteString("/rf")
	}
	sb.WriteString(strings.Join(b.KeyOrder, ">"))
	fmt.Fprintf(&sb, "/d=%s/g=%d.%d.%d.%d", b.Delivery, b.GenN, b.GenPad, b.GenLongAt, b.GenLongLen)
	if b.Then != nil {
		sb.WriteString("/h=" + b.History + "{" + b.Then.shapeKey() + "}")
	}
	if b.GenN > 0 {
		return sb.String()
	}
	for _, r := range b.Res {
		fmt.Fprintf(&sb, "|R%d%v:", r.Scopes, r.NoRes)
		for _, a := range r.Attrs {
			sb.WriteString(a.K + "=" + avSig(a.V) + ",")
		}
	}
	for _, s := range b.Spans {
		fmt.Fprintf(&sb, "|S%d.%d:%s/%s/%s/%d/%d/%q%v", s.Res, s.Scope, idSig(s.TraceID), idSig(s.SpanID), idSig(s.Parent), s.StartNs, s.DurNs, s.Name, s.HasName)
		for _, a := range s.Attrs {
			sb.WriteString(a.K + "=" + avSig(a.V) + ",")
		}
		if s.Local != nil {
			sb.WriteString("L" + *s.Local)
		}
		if s.Remote != nil {
			sb.WriteString("R" + *s.Remote)
		}
		fmt.Fprintf(&sb, "%v%v%v%v", s.HasTags, s.HasTS, s.HasDur, s.LocalNoSvc)
	}
	return sb.String()
}

func idSig(h string) string {
	switch {
	case len(h) < 2:
		return "-" + h
	case strings.Trim(h, "0") == "":
		return fmt.Sprintf("z%d", len(h))
	case strings.Trim(h, "f") == "":
		return fmt.Sprintf("f%d", len(h))
	}
	return fmt.Sprintf("m%d", len(h)) + h[len(h)-2:]
}

func avSig(v AV) string {
	switch v.Kind {
	case "list":
		p := make([]string, len(v.L))
		for i, e := range v.L {
			p[i] = avSig(e)
		}
		return "[" + strings.Join(p, ",") + "]"
	case "kv":
		p := make([]string, len(v.M))
		for i, e := range v.M {
			p[i] = e.K + ":" + avSig(e.V)
		}
		return "{" + strings.Join(p, ",") + "}"
	case "str":
		return "s" + strconv.Quote(v.S)
	case "int":
		return "i" + strconv.FormatInt(v.I, 10)
	case "dbl":
		return "d" + strconv.FormatFloat(v.F, 'g', -1, 64)
	case "bool":
		return "b" + strconv.FormatBool(v.B)
	}
	return v.Kind
}

func sortedKeys[M ~map[string]V, V any](m M) []string {
	ks := make([]string, 0, len(m))
	for k := range m {
		ks = append(ks, k)
	}
	sort.Strings(ks)
	return ks
}
