package main

// The real pipeline: exported writer parser -> TempoSamples/TempoTag -> real ProcessRequest of the two tempo insert
// services -> native block -> decoded rows -> scripted database/sql driver -> real TempoService.Query.

import (
	"bytes"
	"context"
	"database/sql"
	"fmt"
	"io"
	"sort"
	"strconv"
	"strings"
	"sync"
	"time"

	"github.com/ClickHouse/ch-go/proto"
	rmodel "github.com/metrico/qryn/reader/model"
	rservice "github.com/metrico/qryn/reader/service"
	wmodel "github.com/metrico/qryn/writer/model"
	wservice "github.com/metrico/qryn/writer/service"
	"github.com/metrico/qryn/writer/service/impl"
	"github.com/metrico/qryn/writer/utils/unmarshal"

	"verif/mc/chblock"
)

var (
	poolsOnce             sync.Once
	samplesSvc, tagsSvc   *wservice.InsertServiceV2Multimodal
	samplesCols, tagsCols []wservice.IColPoolRes
)

func initWriter() {
	poolsOnce.Do(func() {
		wservice.CreateColPools(16)
		node := &wmodel.DataDatabasesMap{}
		samplesSvc = impl.NewTempoSamplesInsertService(wmodel.InsertServiceOpts{Node: node}).(*wservice.InsertServiceV2Multimodal)
		tagsSvc = impl.NewTempoTagsInsertService(wmodel.InsertServiceOpts{Node: node}).(*wservice.InsertServiceV2Multimodal)
		// the column buffers (several MiB of capacity each) are acquired once per worker and Reset() between cases
		samplesCols = samplesSvc.AcquireColumns()
		tagsCols = tagsSvc.AcquireColumns()
	})
}

type parsed struct {
	spans []*wmodel.TempoSamples
	tags  []*wmodel.TempoTag
	err   error // != nil: the body was rejected
}

// parse runs the exported parser the controller wires for this kind of body.
// segReader hands out the body in segments: a Read never crosses one of the cut offsets.
type segReader struct {
	data []byte
	cuts []int // ascending
	pos  int
	ci   int
	n    int // number of Read calls that returned data
}

func (s *segReader) Read(p []byte) (int, error) {
	if s.pos >= len(s.data) {
		return 0, io.EOF
	}
	for s.ci < len(s.cuts) && s.cuts[s.ci] <= s.pos {
		s.ci++
	}
	end := len(s.data)
	if s.ci < len(s.cuts) && s.cuts[s.ci] < end {
		end = s.cuts[s.ci]
	}
	n := copy(p, s.data[s.pos:end])
	s.pos += n
	s.n++
	return n, nil
}

// deliveryCuts turns Batch.Delivery into cut offsets.
func deliveryCuts(b *Batch, body []byte, offs [][2]int) []int {
	var cuts []int
	d := b.Delivery
	switch {
	case d == "":
	case d == "bytes":
		for i := 1; i < len(body); i++ {
			cuts = append(cuts, i)
		}
	case d == "half":
		cuts = []int{len(body) / 2}
	case strings.HasPrefix(d, "chunk"):
		n, _ := strconv.Atoi(d[5:])
		for i := n; n > 0 && i < len(body); i += n {
			cuts = append(cuts, i)
		}
	case strings.HasPrefix(d, "cut@"):
		for _, f := range strings.Split(d[4:], ",") {
			n, _ := strconv.Atoi(f)
			cuts = append(cuts, n)
		}
	case strings.HasPrefix(d, "span-"):
		for _, o := range offs {
			if strings.Contains(d, "mids") {
				cuts = append(cuts, (o[0]+o[1])/2)
			}
			if strings.Contains(d, "ends") {
				cuts = append(cuts, o[1])
			}
		}
	}
	sort.Ints(cuts)
	return cuts
}

func parse(b *Batch, body []byte, cuts []int) *parsed {
	var fn unmarshal.ParsingFunction
	switch {
	case b.Proto == "otlp":
		fn = unmarshal.UnmarshalOTLPV2
	case b.ND:
		fn = unmarshal.UnmarshalZipkinNDJSONV2
	default:
		fn = unmarshal.UnmarshalZipkinJSONV2
	}
	p := &parsed{}
	var rd io.Reader = bytes.NewReader(body)
	if b.Delivery != "" {
		rd = &segReader{data: body, cuts: cuts}
	}
	ch := fn(context.Background(), rd, nil)
	for r := range ch {
		if r.Error != nil {
			p.err = r.Error
			continue
		}
		if r.SpansRequest != nil {
			if s, ok := r.SpansRequest.(*wmodel.TempoSamples); ok {
				p.spans = append(p.spans, s)
			}
		}
		if r.SpansAttrsRequest != nil {
			if s, ok := r.SpansAttrsRequest.(*wmodel.TempoTag); ok {
				p.tags = append(p.tags, s)
			}
		}
	}
	return p
}

type stored struct {
	tbl        *tracesTable
	traces     []traceRow
	tags       []tagRow
	traceTypes map[string]string
	tagTypes   map[string]string
	insertCols [2]string
}

// process runs the real ProcessRequest closures and decodes the resulting blocks.  A panic inside ProcessRequest
// (ColFixedStr.Append on a wrong-length id) is returned as an error string starting with "panic:".
func process(p *parsed) (st *stored, errStr string) {
	initWriter()
	defer func() {
		if r := recover(); r != nil {
			st, errStr = nil, fmt.Sprintf("panic: %v", r)
		}
	}()
	st = &stored{traceTypes: map[string]string{}, tagTypes: map[string]string{}}
	st.insertCols[0] = samplesSvc.InsertRequest
	st.insertCols[1] = tagsSvc.InsertRequest

	cols := samplesCols
	defer func() {
		for _, c := range samplesCols {
			c.Reset()
		}
		for _, c := range tagsCols {
			c.Reset()
		}
	}()
	total := 0
	for _, s := range p.spans {
		n, c2, err := samplesSvc.ProcessRequest(s, cols)
		if err != nil {
			return nil, "process_request_error: " + err.Error()
		}
		cols = c2
		total += n
	}
	blk, err := encodeDecode(cols)
	if err != nil {
		return nil, "trace_block: " + err.Error()
	}
	if blk.Rows != total {
		return nil, fmt.Sprintf("trace_block: ProcessRequest reported %d rows, block has %d", total, blk.Rows)
	}
	for i, n := range blk.Names {
		st.traceTypes[n] = blk.Types[i]
	}
	need := []string{"trace_id", "span_id", "parent_id", "name", "timestamp_ns", "duration_ns", "service_name", "payload_type", "payload"}
	for _, n := range need {
		if blk.Col(n) == nil && blk.Rows > 0 {
			return nil, "trace_block: column " + n + " missing"
		}
	}
	for r := 0; r < blk.Rows; r++ {
		st.traces = append(st.traces, traceRow{
			TraceID: asStr(blk.Col("trace_id")[r]), SpanID: asStr(blk.Col("span_id")[r]), Parent: asStr(blk.Col("parent_id")[r]),
			Name: asStr(blk.Col("name")[r]), Service: asStr(blk.Col("service_name")[r]),
			TsNs: asI64(blk.Col("timestamp_ns")[r]), DurNs: asI64(blk.Col("duration_ns")[r]),
			PayloadType: int8(asI64(blk.Col("payload_type")[r])), Payload: asStr(blk.Col("payload")[r]),
		})
	}

	tcols := tagsCols
	total = 0
	for _, s := range p.tags {
		n, c2, err := tagsSvc.ProcessRequest(s, tcols)
		if err != nil {
			return nil, "process_request_error: " + err.Error()
		}
		tcols = c2
		total += n
	}
	tblk, err := encodeDecode(tcols)
	if err != nil {
		return nil, "tag_block: " + err.Error()
	}
	if tblk.Rows != total {
		return nil, fmt.Sprintf("tag_block: ProcessRequest reported %d rows, block has %d", total, tblk.Rows)
	}
	for i, n := range tblk.Names {
		st.tagTypes[n] = tblk.Types[i]
	}
	for _, n := range []string{"date", "key", "val", "trace_id", "span_id", "timestamp_ns", "duration"} {
		if tblk.Col(n) == nil && tblk.Rows > 0 {
			return nil, "tag_block: column " + n + " missing"
		}
	}
	for r := 0; r < tblk.Rows; r++ {
		d := tblk.Col("date")[r].(time.Time)
		st.tags = append(st.tags, tagRow{
			TraceID: asStr(tblk.Col("trace_id")[r]), SpanID: asStr(tblk.Col("span_id")[r]),
			TsNs: asI64(tblk.Col("timestamp_ns")[r]), DurNs: asI64(tblk.Col("duration")[r]),
			Key: asStr(tblk.Col("key")[r]), Val: asStr(tblk.Col("val")[r]), Day: uint16(d.Unix() / 86400),
		})
	}
	return st, ""
}

func encodeDecode(cols []wservice.IColPoolRes) (*chblock.Block, error) {
	input := make([]proto.InputColumn, len(cols))
	for i, c := range cols {
		input[i] = c.Input()
	}
	raw, err := chblock.Encode(input)
	if err != nil {
		return nil, err
	}
	return chblock.Decode(raw)
}

func asStr(v any) string {
	switch x := v.(type) {
	case string:
		return x
	case []byte:
		return string(x)
	}
	return fmt.Sprint(v)
}

func asI64(v any) int64 {
	switch x := v.(type) {
	case int64:
		return x
	case int8:
		return int64(x)
	case uint64:
		return int64(x)
	case int32:
		return int64(x)
	}
	panic(fmt.Sprintf("not an integer: %T", v))
}

// readBack presents the stored trace rows to the real TempoService.Query for one trace id (hex as it appears in
// the URL of GET /api/traces/{traceId}).
func readBack(st *stored, traceHex string) (spans []*rmodel.SpanResponse, queries []string, err error) {
	if st.tbl == nil {
		st.tbl = &tracesTable{rows: st.traces} // one interpreter database per case
	}
	tbl := st.tbl
	db := sql.OpenDB(&connector{tbl})
	defer db.Close()
	svc := rservice.NewTempoService(rmodel.ServiceData{Session: &fakeRegistry{&fakeSession{db}}})
	ch, err := svc.Query(context.Background(), 0, 0, []byte(traceHex), false)
	if err != nil {
		return nil, tbl.queries, err
	}
	for s := range ch {
		spans = append(spans, s)
	}
	return spans, tbl.queries, nil
}

// expected column types per ctrl/qryn/sql/traces.sql
var schemaTraces = map[string]string{
	"trace_id": "FixedString(16)", "span_id": "FixedString(8)", "parent_id": "String", "name": "String",
	"timestamp_ns": "Int64", "duration_ns": "Int64", "service_name": "String", "payload_type": "Int8", "payload": "String",
}
var schemaTags = map[string]string{
	"date": "Date", "key": "String", "val": "String", "trace_id": "FixedString(16)", "span_id": "FixedString(8)",
	"timestamp_ns": "Int64", "duration": "Int64",
}

func insertColumnList(q string) []string {
	i, j := strings.Index(q, "("), strings.LastIndex(q, ")")
	if i < 0 || j < i {
		return nil
	}
	var out []string
	for _, c := range strings.Split(q[i+1:j], ",") {
		out = append(out, strings.TrimSpace(c))
	}
	return out
}
